#!/bin/sh
# Build the whole Lean side (models, proofs, drivers) from files on disk; offline.
here="$(cd "$(dirname "$0")" && pwd)"
cd "$here/lean" || exit 2
targets=""
for d in BoltonsVerif/C[0-9][0-9]; do
  [ -f "$d/Props.lean" ] || continue
  id="$(basename "$d")"
  lc="$(echo "$id" | tr 'A-Z' 'a-z')"
  targets="$targets BoltonsVerif.$id.Props drv_$lc"
  # source-translator tie (SrcTie): built like Props when the property has one
  [ -f "$d/SrcTie.lean" ] && targets="$targets BoltonsVerif.$id.SrcTie"
done
# translator output must exist before the first build
PYTHONPATH="$here/harness" /venv/bin/python -m bv.regen_all || exit 2
( flock 9; lake build $targets ) 9>.build.lock || exit 1
echo "setup ok:$targets"
