import BoltonsVerif.C04.Props
import BoltonsVerif.C04.Sym
namespace C04

/-- what a reader of the destination PATH finds (the link is followed) -/
def SFS.readDest (s : SFS) : Option Bytes := s.abs.readDest

theorem symlinked_dest_crash_safe (s0 : SFS) (t : List Ev) (hwf : s0.abs.WF) (hh : s0.hist = [])
    (hsy : DestSynced s0.abs) (hsafe : SafeTrace t = true) :
    ∀ p q s, t = p ++ q → SFS.exec s0 p = some s →
      (s.abs.destAfterProcCrash = s0.readDest ∨ s.abs.destAfterProcCrash = some (allWrites t)) ∧
      (∀ r, s.abs.PowerDest r → r = s0.readDest ∨ r = some (allWrites t)) ∧
      (publishes p = false → s.abs.destAfterProcCrash = s0.readDest ∧ s.dir.dest = s0.dir.dest) ∧
      (publishes p = true → s.abs.destAfterProcCrash = some (allWrites t) ∧ s.dir.dest ≠ some .link) ∧
      s.dir.tgt = s0.dir.tgt ∧
      (∀ i, i < s0.inodes.length → s.inodes[i]? = s0.inodes[i]?) := by
  intro p q s ht hx
  have hxa := sexec_sim p s0 s hx
  have hh' : s0.abs.hist = [] := by simp [SFS.abs, hh]
  have h1 := safeTrace_crash_safe s0.abs t hwf hh' hsy hsafe p q s.abs ht hxa
  have h2 := safeTrace_live_view s0.abs t hwf hh' hsafe p q s.abs ht hxa
  refine ⟨h1.1, h1.2.1, ?_, ?_, sexec_tgt p s0 s hx, h2.2.1⟩
  · intro hp
    exact ⟨(h1.2.2.1 hp).1, (sexec_dest p s0 s hx).1 hp⟩
  · intro hp
    obtain ⟨i, hi⟩ := (sexec_dest p s0 s hx).2 hp
    exact ⟨h1.2.2.2 hp, by rw [hi]; simp⟩

/-- non-vacuity: the destination is a link to a file with synced content `[7]`; a full save through
    `rename`; afterwards the path reads the new content, the entry is a file, the target still holds `[7]` -/
example : let s0 : SFS := ⟨[⟨[7], [], 0o644⟩], ⟨some .link, none, some 0⟩, [], none, 0o022⟩
    let t := [Ev.openPart true true 0o644, .noop, .chmodPart 0o644, .write [1, 2] 0, .flush, .fsync, .close, .renamePartDest]
    s0.abs.WF ∧ s0.hist = [] ∧ s0.readDest = some [7] ∧ SafeTrace t = true ∧
    (SFS.exec s0 t).map (fun s => (s.readDest, s.dir.dest, s.inodes[0]?.map Inode.cache)) =
      some (some [1, 2], some (.file 1), some [7]) := by decide

/-- a link to nothing: `link part dest` (overwrite=False) refuses, since the NAME exists -/
example : let s0 : SFS := ⟨[], ⟨some .link, none, none⟩, [], none, 0o022⟩
    s0.readDest = none ∧
    SFS.exec s0 [Ev.openPart true true 0o644, .write [1] 0, .flush, .fsync, .close, .linkPartDest] = none ∧
    (SFS.exec s0 [Ev.openPart true true 0o644, .write [1] 0, .flush, .fsync, .close, .renamePartDest]).map SFS.readDest = some (some [1]) := by decide

end C04
