/-
PyRt — the tiny runtime library the source translator `harness/py2lean.py` targets.

Every Python builtin the supported subset may use is given here as a TOTAL Lean
function on the static type the translator inferred.  Where Python raises
(division by zero, `range` step 0, index out of range) the function returns a
fixed, documented value; the generated definitions are therefore the Python
function's value only on arguments on which Python does not raise (see
notes/SRCTIE.md, "partial operations").

Core Lean only.  The definitions are part of the trusted base of the source tie;
`harness/py2lean_selftest.py` compares them (through the generated definitions)
with CPython.
-/
/-- Python exceptions as values (raising mode of the translator, notes/SRCTIE.md "Exceptions").
    Only the class is modelled, never the message.  `RecursionError`: the fuel of a recursive method ran out. -/
inductive PyExc where
  | KeyError | ValueError | TypeError | IndexError | ZeroDivisionError | StopIteration | RecursionError | Other
  /-- not a Python exception: a `while` loop did not finish within the fuel it was given (no handler catches
      it); tie theorems show that it does not occur for the fuel they state -/
  | OutOfFuel
deriving DecidableEq, Repr

namespace PyRt

/-! ## integers -/

/-- Python `a // b` on ints (floor division). `b = 0`: Python raises; here `0`. -/
def floordiv (a b : Int) : Int := Int.fdiv a b

/-- Python `a % b` on ints (sign of the divisor). `b = 0`: Python raises; here `a`. -/
def mod (a b : Int) : Int := Int.fmod a b

/-- Python `int(b)` / arithmetic use of a bool -/
def ofBool (b : Bool) : Int := if b then 1 else 0

/-! ## `range` -/

/-- ascending `range`: one unit of fuel per item, `fuel = (stop - start).toNat` suffices for `step ≥ 1` -/
def rangeUp (stop step : Int) : Nat → Int → List Int
  | 0, _ => []
  | fuel + 1, a => if a < stop then a :: rangeUp stop step fuel (a + step) else []

/-- descending `range` (`step ≤ -1`) -/
def rangeDown (stop step : Int) : Nat → Int → List Int
  | 0, _ => []
  | fuel + 1, a => if stop < a then a :: rangeDown stop step fuel (a + step) else []

/-- `list(range(start, stop, step))`. `step = 0`: Python raises ValueError; here `[]`. -/
def range (start stop step : Int) : List Int :=
  if 0 < step then rangeUp stop step (stop - start).toNat start
  else if step < 0 then rangeDown stop step (start - stop).toNat start
  else []

/-! ## lists (a Python list / tuple / str seen as the list of its items) -/

/-- `len(l)` -/
def len {α : Type} (l : List α) : Int := (l.length : Int)

/-- index normalisation of `l[i]`: `i` if `0 ≤ i`, else `i + len(l)` -/
def normIdx {α : Type} (l : List α) (i : Int) : Int := if i < 0 then i + l.length else i

/-- `l[i]` (negative `i` counts from the end). Out of range: Python raises IndexError; here `default`. -/
def index {α : Type} [Inhabited α] (l : List α) (i : Int) : α :=
  if normIdx l i < 0 then default else l.getD (normIdx l i).toNat default

/-- clamp of a slice bound (step 1): `None` handled by the caller -/
def clampBound {α : Type} (l : List α) (i : Int) : Nat :=
  if i < 0 then (i + l.length).toNat else min i.toNat l.length

/-- `l[lo:hi]` with step 1; `none` = bound omitted -/
def slice {α : Type} (l : List α) (lo hi : Option Int) : List α :=
  let a := match lo with | none => 0 | some i => clampBound l i
  let b := match hi with | none => l.length | some i => clampBound l i
  (l.take b).drop a

/-- `l.pop()` as a statement: the list without its last item. Empty: Python raises; here `[]`. -/
def popLast {α : Type} (l : List α) : List α := l.dropLast

/-- `l.append(x)` -/
def append {α : Type} (l : List α) (x : α) : List α := l ++ [x]

/-- `x in l` -/
def contains {α : Type} [DecidableEq α] (l : List α) (x : α) : Bool := l.any (fun y => decide (x = y))

/-- `enumerate(l, start)` as a list of pairs -/
def enumerate {α : Type} : List α → Int → List (Int × α)
  | [], _ => []
  | x :: xs, i => (i, x) :: enumerate xs (i + 1)

/-- `sum(l)` of ints (Python starts from `0` and adds left to right) -/
def sum (l : List Int) : Int := l.foldl (· + ·) 0

/-- a narrowed read of a variable that may be `None`: the translator emits it only where its flow
    analysis shows the variable is not `None` (after `x is not None` / `x is None or …` / an early exit) -/
def unwrap {α : Type} [Inhabited α] (o : Option α) : α := o.getD default

/-- stable insertion used by `sorted` (`x` stood BEFORE the items of the list in the original order): `x`
    goes before the first `y` that may not precede it (`reverse = false`: first `y` with `key x ≤ key y`;
    `reverse = true`: first `y` with `key y ≤ key x`), so items with equal keys keep their original order
    in both directions, as in Python -/
def insSorted {α : Type} (key : α → Int) (reverse : Bool) (x : α) : List α → List α
  | [] => [x]
  | y :: ys =>
    if (if reverse then key y ≤ key x else key x ≤ key y) then x :: y :: ys
    else y :: insSorted key reverse x ys

/-- `sorted(l, key=key, reverse=reverse)` (stable) -/
def sorted {α : Type} (key : α → Int) (reverse : Bool) (l : List α) : List α :=
  l.foldr (fun x acc => insSorted key reverse x acc) []

/-! ## raising twins of the partial operations (raising mode) -/

/-- `a // b`, `ZeroDivisionError` for `b = 0` -/
def floordiv? (a b : Int) : Except PyExc Int :=
  if b = 0 then .error PyExc.ZeroDivisionError else .ok (Int.fdiv a b)

/-- `a % b`, `ZeroDivisionError` for `b = 0` -/
def mod? (a b : Int) : Except PyExc Int :=
  if b = 0 then .error PyExc.ZeroDivisionError else .ok (Int.fmod a b)

/-- `l[i]`, `IndexError` when out of range -/
def index? {α : Type} (l : List α) (i : Int) : Except PyExc α :=
  if normIdx l i < 0 then .error PyExc.IndexError
  else match l[(normIdx l i).toNat]? with
    | some x => .ok x
    | none => .error PyExc.IndexError

/-- `yield y` in a generator of the raising mode: the generator is the list of everything it yields, or
    the exception that ends it (the items yielded before the exception are not modelled) -/
def yieldCons {α : Type} (y : α) (rest : Except PyExc (List α)) : Except PyExc (List α) :=
  match rest with
  | .ok l => .ok (y :: l)
  | .error e => .error e

/-! ## dicts: insertion-ordered association lists.  A Python dict is represented by a list of
    (key, value) pairs in insertion order with pairwise different keys; the functions below do not need
    that invariant to be total, the tie theorems state it where they need it (`Dict.WF`). -/

abbrev Dict (κ ν : Type) := List (κ × ν)

namespace Dict
variable {κ ν : Type} [DecidableEq κ]

/-- the value stored for `k` (first match), `none` when absent -/
def find (d : Dict κ ν) (k : κ) : Option ν :=
  match d with
  | [] => none
  | (k', v) :: r => if k' = k then some v else find r k

/-- `d[k]`, `KeyError` when absent -/
def get? (d : Dict κ ν) (k : κ) : Except PyExc ν :=
  match find d k with
  | some v => .ok v
  | none => .error PyExc.KeyError

/-- `d.get(k, dflt)` -/
def getD (d : Dict κ ν) (k : κ) (dflt : ν) : ν := (find d k).getD dflt

/-- `k in d` -/
def contains (d : Dict κ ν) (k : κ) : Bool := (find d k).isSome

/-- `d[k] = v`: the value is replaced in place when `k` is present (the key keeps its position),
    otherwise the pair is appended -/
def set (d : Dict κ ν) (k : κ) (v : ν) : Dict κ ν :=
  match d with
  | [] => [(k, v)]
  | (k', v') :: r => if k' = k then (k', v) :: r else (k', v') :: set r k v

/-- the dict without key `k` (all other pairs keep their order) -/
def erase (d : Dict κ ν) (k : κ) : Dict κ ν := d.filter (fun p => !decide (p.1 = k))

/-- `del d[k]`, `KeyError` when absent -/
def del? (d : Dict κ ν) (k : κ) : Except PyExc (Dict κ ν) :=
  if contains d k then .ok (erase d k) else .error PyExc.KeyError

/-- `d.pop(k)`: (value, remaining dict), `KeyError` when absent -/
def pop? (d : Dict κ ν) (k : κ) : Except PyExc (ν × Dict κ ν) :=
  match find d k with
  | some v => .ok (v, erase d k)
  | none => .error PyExc.KeyError

/-- `d.pop(k, dflt)` -/
def popD (d : Dict κ ν) (k : κ) (dflt : ν) : ν × Dict κ ν :=
  match find d k with
  | some v => (v, erase d k)
  | none => (dflt, d)

/-- `d.popitem()`: the LAST item (LIFO) and the remaining dict, `KeyError` when empty -/
def popitem? (d : Dict κ ν) : Except PyExc ((κ × ν) × Dict κ ν) :=
  match d.getLast? with
  | some p => .ok (p, d.dropLast)
  | none => .error PyExc.KeyError

/-- `d.setdefault(k, dflt)`: (the value now stored for `k`, the dict) -/
def setdefault (d : Dict κ ν) (k : κ) (dflt : ν) : ν × Dict κ ν :=
  match find d k with
  | some v => (v, d)
  | none => (dflt, d ++ [(k, dflt)])

/-- `d.update(pairs)` / `dict(pairs)` / a dict comprehension: the pairs are stored one after the other -/
def update (d : Dict κ ν) (pairs : List (κ × ν)) : Dict κ ν := pairs.foldl (fun d p => set d p.1 p.2) d

def ofPairs (pairs : List (κ × ν)) : Dict κ ν := update [] pairs

omit [DecidableEq κ] in
/-- `list(d)` / `d.keys()` / iteration over `d` -/
def keys (d : Dict κ ν) : List κ := d.map (·.1)

omit [DecidableEq κ] in
/-- `d.values()` -/
def values (d : Dict κ ν) : List ν := d.map (·.2)

omit [DecidableEq κ] in
/-- `d.items()` -/
def items (d : Dict κ ν) : List (κ × ν) := d

omit [DecidableEq κ] in
/-- `len(d)` -/
def len (d : Dict κ ν) : Int := (d.length : Int)

omit [DecidableEq κ] in
/-- representation invariant of a Python dict: pairwise different keys -/
def WF (d : Dict κ ν) : Prop := (d.map (·.1)).Nodup

end Dict

/-! ## sets of hashables: duplicate-free lists.  `Set` is a definition, not an abbreviation: generated code can
    reach the elements only through the functions below, none of which depends on the order; iteration over a
    set is not translated (Python does not specify its order). -/

def Set (α : Type) : Type := List α

namespace Set
variable {α : Type}

def empty : Set α := ([] : List α)
instance : Inhabited (Set α) := ⟨empty⟩

/-- the elements (for proofs and the self-test's codec; generated code never calls it) -/
def toList (s : Set α) : List α := s

/-- `len(s)` -/
def len (s : Set α) : Int := (List.length (toList s) : Int)

/-- `not s` -/
def isEmpty (s : Set α) : Bool := List.isEmpty (toList s)

variable [DecidableEq α]

/-- `x in s` -/
def contains (s : Set α) (x : α) : Bool := decide (x ∈ toList s)

/-- `s.add(x)` -/
def add (s : Set α) (x : α) : Set α := if x ∈ toList s then s else (toList s ++ [x] : List α)

/-- `s.discard(x)` -/
def discard (s : Set α) (x : α) : Set α := (List.filter (fun y => !decide (y = x)) (toList s) : List α)

/-- `s.remove(x)`, `KeyError` when absent -/
def remove? (s : Set α) (x : α) : Except PyExc (Set α) :=
  if x ∈ toList s then .ok (discard s x) else .error PyExc.KeyError

/-- `set(iterable)` -/
def ofList (l : List α) : Set α := l.foldl (fun acc x => add acc x) empty

end Set

end PyRt

namespace PyRt

/-- `l.pop()` with its value: (the last item, the list without it), `IndexError` when empty -/
def popLast? {α : Type} (l : List α) : Except PyExc (α × List α) :=
  match l.getLast? with
  | some x => .ok (x, l.dropLast)
  | none => .error PyExc.IndexError

end PyRt
