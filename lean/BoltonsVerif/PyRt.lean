/-
PyRt — the tiny runtime library the source translator `harness/py2lean.py` targets.

Every Python builtin the supported subset may use is given here as a TOTAL Lean
function on the static type the translator inferred.  Where Python raises
(division by zero, `range` step 0, index out of range) the function returns a
fixed, documented value; the generated definitions are therefore the Python
function's value only on arguments on which Python does not raise (see
notes/SRCTIE.md, "partial operations").

Core Lean only.  The definitions are part of the trusted base of the source tie;
`harness/py2lean_selftest.py` compares them (through the generated definitions)
with CPython.
-/
namespace PyRt

/-! ## integers -/

/-- Python `a // b` on ints (floor division). `b = 0`: Python raises; here `0`. -/
def floordiv (a b : Int) : Int := Int.fdiv a b

/-- Python `a % b` on ints (sign of the divisor). `b = 0`: Python raises; here `a`. -/
def mod (a b : Int) : Int := Int.fmod a b

/-- Python `int(b)` / arithmetic use of a bool -/
def ofBool (b : Bool) : Int := if b then 1 else 0

/-! ## `range` -/

/-- ascending `range`: one unit of fuel per item, `fuel = (stop - start).toNat` suffices for `step ≥ 1` -/
def rangeUp (stop step : Int) : Nat → Int → List Int
  | 0, _ => []
  | fuel + 1, a => if a < stop then a :: rangeUp stop step fuel (a + step) else []

/-- descending `range` (`step ≤ -1`) -/
def rangeDown (stop step : Int) : Nat → Int → List Int
  | 0, _ => []
  | fuel + 1, a => if stop < a then a :: rangeDown stop step fuel (a + step) else []

/-- `list(range(start, stop, step))`. `step = 0`: Python raises ValueError; here `[]`. -/
def range (start stop step : Int) : List Int :=
  if 0 < step then rangeUp stop step (stop - start).toNat start
  else if step < 0 then rangeDown stop step (start - stop).toNat start
  else []

/-! ## lists (a Python list / tuple / str seen as the list of its items) -/

/-- `len(l)` -/
def len {α : Type} (l : List α) : Int := (l.length : Int)

/-- index normalisation of `l[i]`: `i` if `0 ≤ i`, else `i + len(l)` -/
def normIdx {α : Type} (l : List α) (i : Int) : Int := if i < 0 then i + l.length else i

/-- `l[i]` (negative `i` counts from the end). Out of range: Python raises IndexError; here `default`. -/
def index {α : Type} [Inhabited α] (l : List α) (i : Int) : α :=
  if normIdx l i < 0 then default else l.getD (normIdx l i).toNat default

/-- clamp of a slice bound (step 1): `None` handled by the caller -/
def clampBound {α : Type} (l : List α) (i : Int) : Nat :=
  if i < 0 then (i + l.length).toNat else min i.toNat l.length

/-- `l[lo:hi]` with step 1; `none` = bound omitted -/
def slice {α : Type} (l : List α) (lo hi : Option Int) : List α :=
  let a := match lo with | none => 0 | some i => clampBound l i
  let b := match hi with | none => l.length | some i => clampBound l i
  (l.take b).drop a

/-- `l.pop()` as a statement: the list without its last item. Empty: Python raises; here `[]`. -/
def popLast {α : Type} (l : List α) : List α := l.dropLast

/-- `l.append(x)` -/
def append {α : Type} (l : List α) (x : α) : List α := l ++ [x]

/-- `x in l` -/
def contains {α : Type} [DecidableEq α] (l : List α) (x : α) : Bool := l.any (fun y => decide (x = y))

end PyRt
