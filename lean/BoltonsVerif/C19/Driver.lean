import BoltonsVerif.Common
import BoltonsVerif.C19.Model
/-
C19 line protocol.  One line = one case.
  sl <cps>                     iter_splitlines(text)      -> `<lines>|<lines of str.splitlines>`
  rl <hex> <bs>                reverse_iter_lines(content, blocksize) -> lines (hex)
  rt <hex> <bs>                the same on a text-mode file: lines as decoded text (code points); a line the strict
                               UTF-8 codec rejects ends the output with `!UnicodeDecodeError`
  rf <hex> <pos> <bs>          reverse_iter_lines(content, blocksize, preseek=False) with the file position at pos
  in <cps> <cps> <cps> <key>   indent(text, margin, newline, key) with key = bool (the default) / all (always true)
                               -> text (code points)
  jl <b|t> <0|1> <hex>         JSONLIterator forward (binary / text-mode file) and reverse,
                               ignore_errors 0/1 -> `F<objs>[!Err] R<objs>[!Err]`; with ignore_errors 0 followed by
                               ` A<results> B<results>`: every next() result forward / reverse, the iteration
                               being resumed after each error (`!Err` in place); for binary files ` P<positions>`
                               before that: cur_byte_pos read after each object of the forward loop
  js <0|1> <target> <hex>      JSONLIterator(text-mode file, ignore_errors, rel_seek) forward and reverse, with
                               target = int(size * rel_seek), or `zero` for rel_seek=0.0
                               -> `F<objs>[!Err] R<objs>[!Err]`, or `hang`
  tbl                          the generated tables
Text travels as decimal code points separated by `.` (`-` = empty); bytes as hex (`-` = empty).
A list of lines is shown as its lines separated by `,`; the empty list is `[]`.
`json.loads` is instantiated by `parseMini`, a recogniser for the JSON values the harness
generates (integers, escape-free strings, `{}`, `[]` and one-element arrays); the harness only sends contents
over a byte alphabet on which `parseMini` and `json.loads` are the same function.
-/
namespace C19.Driver
open BV C19

def showCps (l : List Nat) : String := showNats l "."

def showLines (f : List Nat → String) (ls : List (List Nat)) : String :=
  if ls.isEmpty then "[]" else ",".intercalate (ls.map f)

def showHex (l : List Nat) : String :=
  if l.isEmpty then "-" else bytesToHex (l.map UInt8.ofNat)

def cps? (s : String) : Option (List Nat) := natList? s '.'

def hex? (s : String) : Option (List Nat) :=
  if s = "-" then some [] else (hexToBytes? s).map (·.map UInt8.toNat)

/-! mini JSON -/

inductive Obj where
  | int (neg : Bool) (digits : List Nat)
  | str (bytes : List Nat)
  | emptyObj
  | arr0
  | arr1 (o : Obj)

def jsonWs (c : Nat) : Bool := c == 32 || c == 9 || c == 10 || c == 13

def skipWs (s : List Nat) : List Nat := s.dropWhile jsonWs

def isDigit (c : Nat) : Bool := 48 ≤ c && c ≤ 57

/-- string body up to the closing quote: (body, rest after the quote) -/
def strBody : List Nat → List Nat → Option (List Nat × List Nat)
  | _, [] => none
  | acc, c :: cs =>
    if c == 34 then some (acc.reverse, cs)
    else if c < 32 || c == 92 then none
    else strBody (c :: acc) cs

/-- `-?(0|[1-9][0-9]*)` at the head of `s` -/
def number (s : List Nat) : Option (Obj × List Nat) :=
  let neg := s.head? == some 45
  let s1 := if neg then s.drop 1 else s
  match s1 with
  | 48 :: rest => some (.int false [48], rest)
  | d :: _ =>
    if isDigit d then
      let ds := s1.takeWhile isDigit
      some (.int neg ds, s1.dropWhile isDigit)
    else none
  | [] => none

/-- one JSON value at the head of `s` (no leading whitespace); fuel bounds the nesting -/
def parseVal : Nat → List Nat → Option (Obj × List Nat)
  | 0, _ => none
  | f + 1, s =>
    match s with
    | 34 :: rest => (strBody [] rest).map fun (b, r) => (.str b, r)
    | 123 :: rest =>
      match skipWs rest with
      | 125 :: r => some (.emptyObj, r)
      | _ => none
    | 91 :: rest =>
      match skipWs rest with
      | 93 :: r => some (.arr0, r)
      | r =>
        match parseVal f r with
        | some (v, r2) =>
          match skipWs r2 with
          | 93 :: r3 => some (.arr1 v, r3)
          | _ => none
        | none => none
    | _ => number s

def parseMini (l : List Nat) : Except String Obj :=
  if !validUtf8 l then .error "UnicodeDecodeError" else
  match parseVal (l.length + 1) (skipWs l) with
  | some (o, rest) => if (skipWs rest).isEmpty then .ok o else .error "JSONDecodeError"
  | none => .error "JSONDecodeError"

/-- UTF-8 of one code point (text handed to `json.loads` as `str` has no lone surrogates) -/
def encodeCp (c : Nat) : List Nat :=
  if c < 128 then [c]
  else if c < 2048 then [192 + c / 64, 128 + c % 64]
  else if c < 65536 then [224 + c / 4096, 128 + c / 64 % 64, 128 + c % 64]
  else [240 + c / 262144, 128 + c / 4096 % 64, 128 + c / 64 % 64, 128 + c % 64]

/-- `json.loads` of a `str` line (text-mode files): the recogniser on the UTF-8 of the text -/
def parseMiniT (t : List Nat) : Except String Obj := parseMini (t.flatMap encodeCp)

def showObj : Obj → String
  | .int neg ds => "i" ++ (if neg then "-" else "") ++ String.ofList (ds.map Char.ofNat)
  | .str bs => "s" ++ showHex bs
  | .emptyObj => "o"
  | .arr0 => "a"
  | .arr1 o => "A(" ++ showObj o ++ ")"

def showRun (r : List Obj × Option String) : String :=
  (if r.1.isEmpty then "[]" else ",".intercalate (r.1.map showObj)) ++
  (match r.2 with | some e => "!" ++ e | none => "")

/-- every `next()` result, errors in place: `i1,!JSONDecodeError,i20` -/
def showOutcomes (r : List (Except String Obj)) : String :=
  if r.isEmpty then "[]" else ",".intercalate (r.map fun x =>
    match x with
    | .ok o => showObj o
    | .error e => "!" ++ e)

def handle (line : String) : String :=
  match words line with
  | ["sl", t] =>
    match cps? t with
    | some t => showLines showCps (iterSplitlines t) ++ "|" ++ showLines showCps (pySplitlines t)
    | none => "bad-op"
  | ["rl", c, bs] =>
    match hex? c, bs.toNat? with
    | some c, some bs => if bs = 0 then "bad-op" else showLines showHex (reverseIterLines c bs)
    | _, _ => "bad-op"
  | ["rt", c, bs] =>
    match hex? c, bs.toNat? with
    | some c, some bs =>
      if bs = 0 then "bad-op" else
      let ls := reverseIterLinesText c bs
      let good := (ls.takeWhile Option.isSome).filterMap id
      showLines showCps good ++ (if good.length < ls.length then "!UnicodeDecodeError" else "")
    | _, _ => "bad-op"
  | ["rf", c, pos, bs] =>
    match hex? c, pos.toNat?, bs.toNat? with
    | some c, some pos, some bs =>
      if bs = 0 then "bad-op" else showLines showHex (reverseIterLinesFrom c pos bs)
    | _, _, _ => "bad-op"
  | ["in", t, m, nl, key] =>
    match cps? t, cps? m, cps? nl with
    | some t, some m, some nl =>
      if key = "bool" then showCps (indent keyBool m nl t)
      else if key = "all" then showCps (indent (fun _ => true) m nl t)
      else "bad-op"
    | _, _, _ => "bad-op"
  | ["jl", mode, ign, c] =>
    match hex? c with
    | some c =>
      if (mode ≠ "b" ∧ mode ≠ "t") ∨ (ign ≠ "0" ∧ ign ≠ "1") then "bad-op" else
      let ignore := ign == "1"
      -- 4096 is the block size JSONLIterator uses; by `C19.jsonl_blocksize_independent` any other
      -- block size gives the same result
      if mode == "b" then
        let fwd := jsonlForwardB pyWs parseMini ignore c
        let rev := jsonlReverse pyWs parseMini ignore 4096 c
        -- strict mode: also the results of going on calling next() after each error
        "F" ++ showRun fwd ++ " R" ++ showRun rev ++
          " P" ++ showNats (jsonlForwardPosB pyWs parseMini ignore c) "." ++
          (if ignore then "" else " A" ++ showOutcomes (outcomes pyWs parseMini false (fileLinesB c)) ++
            " B" ++ showOutcomes (outcomes pyWs parseMini false (reverseIterLines c 4096)))
      else
        -- text mode: the lines are `str`; forward = universal newlines over the decoded text,
        -- reverse = the byte lines found backwards, each decoded
        match decodeG false c with
        | none => "undecodable"
        | some t =>
          let fwd := jsonlForwardT pyWsT parseMiniT ignore t
          let rev := jsonlReverseText pyWsT parseMiniT ignore 4096 c
          "F" ++ showRun fwd ++ " R" ++ showRun rev ++
            (if ignore then "" else " A" ++ showOutcomes (outcomes pyWsT parseMiniT false (fileLinesT false t)) ++
              " B" ++ showOutcomes (outcomes pyWsT parseMiniT false ((reverseIterLinesText c 4096).filterMap id)))
    | none => "bad-op"
  | ["js", ign, "zero", c] =>
    match hex? c with
    | some c =>
      if ign ≠ "0" ∧ ign ≠ "1" then "bad-op" else
      let ignore := ign == "1"
      "F" ++ showRun (jsonlRelSeekZero pyWsT parseMiniT ignore false 4096 c) ++ " R" ++
        showRun (jsonlRelSeekZero pyWsT parseMiniT ignore true 4096 c)
    | none => "bad-op"
  | ["js", ign, target, c] =>
    match hex? c, target.toNat? with
    | some c, some target =>
      if ign ≠ "0" ∧ ign ≠ "1" then "bad-op" else
      let ignore := ign == "1"
      match jsonlRelSeek pyWsT parseMiniT ignore false 4096 c target, jsonlRelSeek pyWsT parseMiniT ignore true 4096 c target with
      | some fwd, some rev => "F" ++ showRun fwd ++ " R" ++ showRun rev
      | _, _ => "hang"
    | _, _ => "bad-op"
  | ["tbl"] =>
    "E" ++ showLines showCps Generated.lineEndings ++ " L" ++ showCps Generated.lstripSet
      ++ " R" ++ showCps Generated.rstripSet ++ " T" ++ showCps Generated.lstripSetT ++ " S" ++ showCps Generated.strBreakSet
      ++ " B" ++ showCps Generated.bytesBreakSet ++ " Z" ++ (if Generated.alignStopsAtEof then "1" else "0")
  | _ => "bad-op"

end C19.Driver
