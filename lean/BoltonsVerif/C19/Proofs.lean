import BoltonsVerif.C19.Model
/-
C19 — helper lemmas.
Part A: `splitlinesAux` (CPython's splitlines) and concatenation.
Part B: the loop of `reverse_iter_lines`.
Part C: the regex scan of `iter_splitlines` against `splitlinesAux`.
Part D: `JSONLIterator` (`consume`).
-/
namespace C19

/-! ### Part A -/

theorem consHead_ne_nil (c : Nat) (x : List (List Nat)) : consHead c x ≠ [] := by
  cases x <;> simp [consHead]

theorem consHead_append (c : Nat) (x y : List (List Nat)) (hx : x ≠ []) :
    consHead c (x ++ y) = consHead c x ++ y := by
  cases x with
  | nil => exact absurd rfl hx
  | cons l ls => simp [consHead]

theorem aux_nil (brk : Nat → Bool) (f : Bool) : splitlinesAux brk f [] = [] := by
  simp [splitlinesAux]

theorem aux_cons (brk : Nat → Bool) (f : Bool) (c : Nat) (cs : List Nat) :
    splitlinesAux brk f (c :: cs) =
      if f && c == 10 then splitlinesAux brk false cs
      else if brk c then [] :: splitlinesAux brk (c == 13) cs
      else consHead c (splitlinesAux brk false cs) := by
  simp [splitlinesAux]

/-- the flag only matters when the next character is `\n` -/
theorem aux_flag_irrel (brk : Nat → Bool) (f : Bool) (s : List Nat) (h : s.head? ≠ some 10) :
    splitlinesAux brk f s = splitlinesAux brk false s := by
  cases s with
  | nil => simp [aux_nil]
  | cons c cs =>
    have hc : c ≠ 10 := by simpa using h
    simp [aux_cons, hc]

def NoBrk (brk : Nat → Bool) (l : List Nat) : Prop := ∀ c ∈ l, brk c = false

/-- a non-empty text without break characters is its own single line -/
theorem aux_noBrk (brk : Nat → Bool) (hb : brk 10 = true) (l : List Nat) (hl : l ≠ [])
    (hn : NoBrk brk l) (f : Bool) : splitlinesAux brk f l = [l] := by
  induction l generalizing f with
  | nil => exact absurd rfl hl
  | cons c cs ih =>
    have hc : brk c = false := hn c (by simp)
    have hc10 : c ≠ 10 := by intro h; rw [h, hb] at hc; cases hc
    have hn' : NoBrk brk cs := fun d hd => hn d (by simp [hd])
    have h1 : (f && c == 10) = false := by simp [hc10]
    rw [aux_cons]
    simp only [h1, hc, Bool.false_eq_true, if_false]
    cases cs with
    | nil => simp [aux_nil, consHead]
    | cons d ds => rw [ih (by simp) hn' false]; simp [consHead]

/-- the first line of a split is a break-free prefix of the text -/
theorem aux_first (brk : Nat → Bool) (b l0 : List Nat) (rest : List (List Nat))
    (h : splitlinesAux brk false b = l0 :: rest) : NoBrk brk l0 ∧ ∃ b1, b = l0 ++ b1 := by
  induction b generalizing l0 rest with
  | nil => simp [aux_nil] at h
  | cons c cs ih =>
    rw [aux_cons] at h
    simp only [Bool.false_and] at h
    by_cases hc : brk c = true
    · simp only [hc] at h
      have : l0 = [] := by simpa using (List.cons.inj h).1.symm
      subst this
      exact ⟨fun _ h => (by cases h), c :: cs, rfl⟩
    · have hc' : brk c = false := by simpa using hc
      simp only [hc'] at h
      cases hs : splitlinesAux brk false cs with
      | nil =>
        rw [hs] at h
        simp only [consHead] at h
        have h1 : l0 = [c] := (List.cons.inj h).1.symm
        subst h1
        exact ⟨fun d hd => (by simp at hd; rw [hd]; exact hc'), cs, rfl⟩
      | cons l ls =>
        rw [hs] at h
        simp only [consHead] at h
        have h1 : l0 = c :: l := (List.cons.inj h).1.symm
        subst h1
        obtain ⟨hn, b1, hb1⟩ := ih l ls hs
        refine ⟨fun d hd => ?_, b1, by rw [hb1]; rfl⟩
        rcases List.mem_cons.mp hd with rfl | hd
        · exact hc'
        · exact hn d hd

theorem aux_ne_nil (brk : Nat → Bool) (s : List Nat) (hs : s ≠ []) :
    splitlinesAux brk false s ≠ [] := by
  cases s with
  | nil => exact absurd rfl hs
  | cons c cs =>
    rw [aux_cons]
    simp only [Bool.false_and]
    by_cases hc : brk c = true
    · simp [hc]
    · have hc' : brk c = false := by simpa using hc
      simp only [hc']
      exact consHead_ne_nil _ _

/-- KEY: splitting `p ++ b`, where `b` splits into a non-empty first line `l0` and `rest`,
    is splitting `p ++ l0` and appending `rest` -/
theorem aux_append_key (brk : Nat → Bool) (hb : brk 10 = true) (b l0 : List Nat) (rest : List (List Nat))
    (h : splitlinesAux brk false b = l0 :: rest) (hl0 : l0 ≠ []) (p : List Nat) (f : Bool) :
    splitlinesAux brk f (p ++ b) = splitlinesAux brk f (p ++ l0) ++ rest := by
  obtain ⟨hn, b1, hb1⟩ := aux_first brk b l0 rest h
  induction p generalizing f with
  | nil =>
    simp only [List.nil_append]
    have hhead : l0.head? ≠ some 10 := by
      cases l0 with
      | nil => exact absurd rfl hl0
      | cons d ds =>
        have : brk d = false := hn d (by simp)
        intro hd
        simp at hd
        rw [hd, hb] at this
        cases this
    have hhead' : b.head? ≠ some 10 := by
      rw [hb1]
      cases l0 with
      | nil => exact absurd rfl hl0
      | cons d ds => simpa using hhead
    rw [aux_flag_irrel brk f b hhead', h, aux_noBrk brk hb l0 hl0 hn f]
    rfl
  | cons c p' ih =>
    simp only [List.cons_append]
    rw [aux_cons, aux_cons]
    by_cases h1 : (f && c == 10) = true
    · simp only [h1, if_true]
      exact ih false
    · have h1' : (f && c == 10) = false := by simpa using h1
      simp only [h1']
      by_cases hc : brk c = true
      · simp only [hc, if_true, Bool.false_eq_true, if_false]
        rw [ih (c == 13)]
        rfl
      · have hc' : brk c = false := by simpa using hc
        simp only [hc', Bool.false_eq_true, if_false]
        rw [ih false]
        apply consHead_append
        apply aux_ne_nil
        cases p' <;> simp [hl0]

/-! ### Part B: reverse_iter_lines -/

theorem lastIs_append (p : Nat → Bool) (a b : List Nat) (hb : b ≠ []) :
    lastIs p (a ++ b) = lastIs p b := by
  induction a with
  | nil => rfl
  | cons c cs ih =>
    cases hcs : cs ++ b with
    | nil => simp at hcs; exact absurd hcs.2 hb
    | cons d ds =>
      rw [List.cons_append, hcs, lastIs, ← hcs, ih]
      intro h; cases h

theorem lastIs_false_of_all (p : Nat → Bool) (l : List Nat) (h : ∀ c ∈ l, p c = false) :
    lastIs p l = false := by
  induction l with
  | nil => rfl
  | cons c cs ih =>
    cases cs with
    | nil => simpa [lastIs] using h c (by simp)
    | cons d ds =>
      rw [lastIs]
      · exact ih (fun x hx => h x (by simp [hx]))
      · intro h; cases h

theorem bytesBreak_10 : bytesBreak 10 = true := by decide

theorem linesOf_nil : linesOf [] = [] := by
  simp [linesOf, bytesSplitlines, aux_nil, endsNL, lastIs]

theorem flush_eq (buff : List Nat) : flush buff = (linesOf buff).reverse := by
  unfold flush
  split
  · next h => subst h; simp [linesOf_nil]
  · rfl

/-- the lines of `p ++ b` when `b` splits into a non-empty first line and `rest` -/
theorem linesOf_append_key (b l0 : List Nat) (rest : List (List Nat))
    (h : bytesSplitlines b = l0 :: rest) (hl0 : l0 ≠ []) (p : List Nat) :
    linesOf (p ++ b) = linesOf (p ++ l0) ++ rest ++ (if endsNL b then [[]] else []) := by
  have hb : b ≠ [] := by
    intro hb; subst hb; simp [bytesSplitlines, aux_nil] at h
  obtain ⟨hn, _⟩ := aux_first bytesBreak b l0 rest h
  have h1 : endsNL (p ++ b) = endsNL b := lastIs_append _ _ _ hb
  have h2 : endsNL (p ++ l0) = false := by
    unfold endsNL
    rw [lastIs_append _ _ _ hl0]
    apply lastIs_false_of_all
    intro c hc
    have := hn c hc
    unfold isNL
    cases h10 : c == 10
    · rfl
    · have : c = 10 := by simpa using h10
      subst this
      rw [bytesBreak_10] at *
      contradiction
  unfold linesOf
  rw [h1, h2]
  unfold bytesSplitlines at *
  rw [aux_append_key bytesBreak bytesBreak_10 b l0 rest h hl0 p false]
  simp

theorem take_block (c : List Nat) (bs pos : Nat) :
    c.take (pos - min bs pos) ++ block c bs pos = c.take pos := by
  unfold block
  have h : pos = (pos - min bs pos) + min bs pos := by omega
  conv => rhs; rw [h, List.take_add]

/-- the loop invariant: whatever is still to come is the reversed lines of (unread prefix ++ buff) -/
theorem revLoop_spec (c : List Nat) (bs : Nat) (hbs : 1 ≤ bs) (f pos : Nat) (buff : List Nat)
    (hf : pos ≤ f) : revLoop c bs f pos buff = (linesOf (c.take pos ++ buff)).reverse := by
  induction f generalizing pos buff with
  | zero =>
    have : pos = 0 := by omega
    subst this
    simp [revLoop, flush_eq]
  | succ f ih =>
    rw [revLoop]
    split
    · next h0 => subst h0; simp [flush_eq]
    · next h0 =>
      have hlt : pos - min bs pos ≤ f := by omega
      have hsplit : c.take pos ++ buff = c.take (pos - min bs pos) ++ (block c bs pos ++ buff) := by
        rw [← List.append_assoc, take_block]
      split
      · next l0 l1 ls hsp =>
        split
        · rw [ih _ _ hlt, hsplit]
        · next hl0 =>
          rw [ih _ _ hlt, hsplit, linesOf_append_key _ l0 (l1 :: ls) hsp hl0]
          simp only [List.reverse_append]
          split <;> simp
      · rw [ih _ _ hlt, hsplit]

/-! the loop's `linesOf` is the statement's LF- or CRLF-separated lines when no CR stands alone -/

theorem endsNL_cons_cons (c d : Nat) (cs : List Nat) : endsNL (c :: d :: cs) = endsNL (d :: cs) := by
  simp [endsNL, lastIs]

theorem linesOf_crlf (cs : List Nat) (h : cs ≠ []) : linesOf (13 :: 10 :: cs) = [] :: linesOf cs := by
  cases cs with
  | nil => exact absurd rfl h
  | cons e es =>
    simp [linesOf, bytesSplitlines, aux_cons, bytesBreak, endsNL_cons_cons]

theorem linesOf_lf (d : Nat) (cs : List Nat) : linesOf (10 :: d :: cs) = [] :: linesOf (d :: cs) := by
  simp [linesOf, bytesSplitlines, aux_cons (c := 10), bytesBreak, endsNL_cons_cons]

theorem linesOf_plain (c d : Nat) (cs : List Nat) (h10 : c ≠ 10) (h13 : c ≠ 13) :
    linesOf (c :: d :: cs) = consHead c (linesOf (d :: cs)) := by
  unfold linesOf bytesSplitlines
  rw [consHead_append _ _ _ (aux_ne_nil _ _ (by simp))]
  simp [bytesSplitlines, aux_cons (c := c), bytesBreak, endsNL_cons_cons, h10, h13]

theorem noLoneCR_tail (c d : Nat) (cs : List Nat) (h : noLoneCR (c :: d :: cs) = true) :
    noLoneCR (d :: cs) = true := by
  simp [noLoneCR] at h; exact h.2

theorem linesOf_eq_sepLines (c : List Nat) (h : noLoneCR c = true) (hne : c ≠ []) :
    linesOf c = sepLines c := by
  induction c using sepLines.induct with
  | case1 => exact absurd rfl hne
  | case2 => decide
  | case3 c h10 =>
    have h13 : c ≠ 13 := by simpa [noLoneCR] using h
    simp [linesOf, bytesSplitlines, aux_cons, aux_nil, bytesBreak, h10, h13, consHead, endsNL, lastIs, isNL, sepLines]
  | case4 c d cs hcd ih =>
    obtain ⟨rfl, rfl⟩ := hcd
    cases cs with
    | nil => decide
    | cons e es =>
      have h' : noLoneCR (e :: es) = true := noLoneCR_tail _ _ _ (noLoneCR_tail _ _ _ h)
      rw [linesOf_crlf _ (by simp), ih h' (by simp)]
      simp [sepLines]
  | case5 d cs _ ih =>
    rw [linesOf_lf, ih (noLoneCR_tail _ _ _ h) (by simp)]
    simp [sepLines]
  | case6 c d cs hcd h10 ih =>
    have h13 : c ≠ 13 := by
      intro h13; subst h13
      simp [noLoneCR] at h
      exact hcd ⟨rfl, h.1⟩
    rw [linesOf_plain _ _ _ h10 h13, ih (noLoneCR_tail _ _ _ h) (by simp)]
    simp [sepLines, hcd, h10]
