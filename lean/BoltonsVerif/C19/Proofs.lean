import BoltonsVerif.C19.Model
/-
C19 — helper lemmas.
Part A: `splitlinesAux` (CPython's splitlines) and concatenation.
Part B: the loop of `reverse_iter_lines`.
Part C: the regex scan of `iter_splitlines` against `splitlinesAux`.
Part D: `JSONLIterator` (`consume`).
Part E: joining lines and splitting them again (`indent`).
Part F: UTF-8 well-formedness of the lines of a well-formed content.
Part G: cutting a content at a line break (`rel_seek`).
Part H: UTF-8 decoding commutes with the split (text mode).
-/
namespace C19

/-! ### Part A -/

theorem consHead_ne_nil (c : Nat) (x : List (List Nat)) : consHead c x ≠ [] := by
  cases x <;> simp [consHead]

theorem consHead_append (c : Nat) (x y : List (List Nat)) (hx : x ≠ []) :
    consHead c (x ++ y) = consHead c x ++ y := by
  cases x with
  | nil => exact absurd rfl hx
  | cons l ls => simp [consHead]

theorem aux_nil (brk : Nat → Bool) (f : Bool) : splitlinesAux brk f [] = [] := by
  simp [splitlinesAux]

theorem aux_cons (brk : Nat → Bool) (f : Bool) (c : Nat) (cs : List Nat) :
    splitlinesAux brk f (c :: cs) =
      if f && c == 10 then splitlinesAux brk false cs
      else if brk c then [] :: splitlinesAux brk (c == 13) cs
      else consHead c (splitlinesAux brk false cs) := by
  simp [splitlinesAux]

/-- the flag only matters when the next character is `\n` -/
theorem aux_flag_irrel (brk : Nat → Bool) (f : Bool) (s : List Nat) (h : s.head? ≠ some 10) :
    splitlinesAux brk f s = splitlinesAux brk false s := by
  cases s with
  | nil => simp [aux_nil]
  | cons c cs =>
    have hc : c ≠ 10 := by simpa using h
    simp [aux_cons, hc]

def NoBrk (brk : Nat → Bool) (l : List Nat) : Prop := ∀ c ∈ l, brk c = false

/-- a non-empty text without break characters is its own single line -/
theorem aux_noBrk (brk : Nat → Bool) (hb : brk 10 = true) (l : List Nat) (hl : l ≠ [])
    (hn : NoBrk brk l) (f : Bool) : splitlinesAux brk f l = [l] := by
  induction l generalizing f with
  | nil => exact absurd rfl hl
  | cons c cs ih =>
    have hc : brk c = false := hn c (by simp)
    have hc10 : c ≠ 10 := by intro h; rw [h, hb] at hc; cases hc
    have hn' : NoBrk brk cs := fun d hd => hn d (by simp [hd])
    have h1 : (f && c == 10) = false := by simp [hc10]
    rw [aux_cons]
    simp only [h1, hc, Bool.false_eq_true, if_false]
    cases cs with
    | nil => simp [aux_nil, consHead]
    | cons d ds => rw [ih (by simp) hn' false]; simp [consHead]

/-- the first line of a split is a break-free prefix of the text -/
theorem aux_first (brk : Nat → Bool) (b l0 : List Nat) (rest : List (List Nat))
    (h : splitlinesAux brk false b = l0 :: rest) : NoBrk brk l0 ∧ ∃ b1, b = l0 ++ b1 := by
  induction b generalizing l0 rest with
  | nil => simp [aux_nil] at h
  | cons c cs ih =>
    rw [aux_cons] at h
    simp only [Bool.false_and] at h
    by_cases hc : brk c = true
    · simp only [hc] at h
      have : l0 = [] := by simpa using (List.cons.inj h).1.symm
      subst this
      exact ⟨fun _ h => (by cases h), c :: cs, rfl⟩
    · have hc' : brk c = false := by simpa using hc
      simp only [hc'] at h
      cases hs : splitlinesAux brk false cs with
      | nil =>
        rw [hs] at h
        simp only [consHead] at h
        have h1 : l0 = [c] := (List.cons.inj h).1.symm
        subst h1
        exact ⟨fun d hd => (by simp at hd; rw [hd]; exact hc'), cs, rfl⟩
      | cons l ls =>
        rw [hs] at h
        simp only [consHead] at h
        have h1 : l0 = c :: l := (List.cons.inj h).1.symm
        subst h1
        obtain ⟨hn, b1, hb1⟩ := ih l ls hs
        refine ⟨fun d hd => ?_, b1, by rw [hb1]; rfl⟩
        rcases List.mem_cons.mp hd with rfl | hd
        · exact hc'
        · exact hn d hd

theorem aux_ne_nil (brk : Nat → Bool) (s : List Nat) (hs : s ≠ []) :
    splitlinesAux brk false s ≠ [] := by
  cases s with
  | nil => exact absurd rfl hs
  | cons c cs =>
    rw [aux_cons]
    simp only [Bool.false_and]
    by_cases hc : brk c = true
    · simp [hc]
    · have hc' : brk c = false := by simpa using hc
      simp only [hc']
      exact consHead_ne_nil _ _

/-- KEY: splitting `p ++ b`, where `b` splits into a non-empty first line `l0` and `rest`,
    is splitting `p ++ l0` and appending `rest` -/
theorem aux_append_key (brk : Nat → Bool) (hb : brk 10 = true) (b l0 : List Nat) (rest : List (List Nat))
    (h : splitlinesAux brk false b = l0 :: rest) (hl0 : l0 ≠ []) (p : List Nat) (f : Bool) :
    splitlinesAux brk f (p ++ b) = splitlinesAux brk f (p ++ l0) ++ rest := by
  obtain ⟨hn, b1, hb1⟩ := aux_first brk b l0 rest h
  induction p generalizing f with
  | nil =>
    simp only [List.nil_append]
    have hhead : l0.head? ≠ some 10 := by
      cases l0 with
      | nil => exact absurd rfl hl0
      | cons d ds =>
        have : brk d = false := hn d (by simp)
        intro hd
        simp at hd
        rw [hd, hb] at this
        cases this
    have hhead' : b.head? ≠ some 10 := by
      rw [hb1]
      cases l0 with
      | nil => exact absurd rfl hl0
      | cons d ds => simpa using hhead
    rw [aux_flag_irrel brk f b hhead', h, aux_noBrk brk hb l0 hl0 hn f]
    rfl
  | cons c p' ih =>
    simp only [List.cons_append]
    rw [aux_cons, aux_cons]
    by_cases h1 : (f && c == 10) = true
    · simp only [h1, if_true]
      exact ih false
    · have h1' : (f && c == 10) = false := by simpa using h1
      simp only [h1']
      by_cases hc : brk c = true
      · simp only [hc, if_true, Bool.false_eq_true, if_false]
        rw [ih (c == 13)]
        rfl
      · have hc' : brk c = false := by simpa using hc
        simp only [hc', Bool.false_eq_true, if_false]
        rw [ih false]
        apply consHead_append
        apply aux_ne_nil
        cases p' <;> simp [hl0]

/-! ### Part B: reverse_iter_lines -/

theorem lastIs_append (p : Nat → Bool) (a b : List Nat) (hb : b ≠ []) :
    lastIs p (a ++ b) = lastIs p b := by
  induction a with
  | nil => rfl
  | cons c cs ih =>
    cases hcs : cs ++ b with
    | nil => simp at hcs; exact absurd hcs.2 hb
    | cons d ds =>
      rw [List.cons_append, hcs, lastIs, ← hcs, ih]
      intro h; cases h

theorem lastIs_false_of_all (p : Nat → Bool) (l : List Nat) (h : ∀ c ∈ l, p c = false) :
    lastIs p l = false := by
  induction l with
  | nil => rfl
  | cons c cs ih =>
    cases cs with
    | nil => simpa [lastIs] using h c (by simp)
    | cons d ds =>
      rw [lastIs]
      · exact ih (fun x hx => h x (by simp [hx]))
      · intro h; cases h

theorem bytesBreak_10 : bytesBreak 10 = true := by decide

theorem linesOf_nil : linesOf [] = [] := by
  simp [linesOf, bytesSplitlines, aux_nil, endsNL, lastIs]

theorem flush_eq (buff : List Nat) : flush buff = (linesOf buff).reverse := by
  unfold flush
  split
  · next h => subst h; simp [linesOf_nil]
  · rfl

/-- the lines of `p ++ b` when `b` splits into a non-empty first line and `rest` -/
theorem linesOf_append_key (b l0 : List Nat) (rest : List (List Nat))
    (h : bytesSplitlines b = l0 :: rest) (hl0 : l0 ≠ []) (p : List Nat) :
    linesOf (p ++ b) = linesOf (p ++ l0) ++ rest ++ (if endsNL b then [[]] else []) := by
  have hb : b ≠ [] := by
    intro hb; subst hb; simp [bytesSplitlines, aux_nil] at h
  obtain ⟨hn, _⟩ := aux_first bytesBreak b l0 rest h
  have h1 : endsNL (p ++ b) = endsNL b := lastIs_append _ _ _ hb
  have h2 : endsNL (p ++ l0) = false := by
    unfold endsNL
    rw [lastIs_append _ _ _ hl0]
    apply lastIs_false_of_all
    intro c hc
    have := hn c hc
    unfold isNL
    cases h10 : c == 10
    · rfl
    · have : c = 10 := by simpa using h10
      subst this
      rw [bytesBreak_10] at *
      contradiction
  unfold linesOf
  rw [h1, h2]
  unfold bytesSplitlines at *
  rw [aux_append_key bytesBreak bytesBreak_10 b l0 rest h hl0 p false]
  simp

theorem take_blk (c : List Nat) (n pos : Nat) (hn : n ≤ pos) :
    c.take (pos - n) ++ blk c n pos = c.take pos := by
  unfold blk
  have h : pos = (pos - n) + n := by omega
  conv => rhs; rw [h, List.take_add]

/-- the loop invariant, for EVERY read schedule with reads of at least one byte: whatever is still
    to come is the reversed lines of (unread prefix ++ buff) -/
theorem revLoopS_spec (c : List Nat) (rs : Nat → Nat) (hrs : ∀ p, 1 ≤ rs p) (f pos : Nat) (buff : List Nat)
    (hf : pos ≤ f) : revLoopS c rs f pos buff = (linesOf (c.take pos ++ buff)).reverse := by
  induction f generalizing pos buff with
  | zero =>
    have : pos = 0 := by omega
    subst this
    simp [revLoopS, flush_eq]
  | succ f ih =>
    rw [revLoopS]
    split
    · next h0 => subst h0; simp [flush_eq]
    · next h0 =>
      have h1 := hrs pos
      have hlt : pos - min (rs pos) pos ≤ f := by omega
      have hsplit : c.take pos ++ buff =
          c.take (pos - min (rs pos) pos) ++ (blk c (min (rs pos) pos) pos ++ buff) := by
        rw [← List.append_assoc, take_blk _ _ _ (Nat.min_le_right _ _)]
      split
      · next l0 l1 ls hsp =>
        split
        · rw [ih _ _ hlt, hsplit]
        · next hl0 =>
          rw [ih _ _ hlt, hsplit, linesOf_append_key _ l0 (l1 :: ls) hsp hl0]
          simp only [List.reverse_append]
          split <;> simp
      · rw [ih _ _ hlt, hsplit]

theorem revLoop_spec (c : List Nat) (bs : Nat) (hbs : 1 ≤ bs) (f pos : Nat) (buff : List Nat)
    (hf : pos ≤ f) : revLoop c bs f pos buff = (linesOf (c.take pos ++ buff)).reverse :=
  revLoopS_spec c (fun _ => bs) (fun _ => hbs) f pos buff hf

theorem alignedRead_pos (bs : Nat) (hbs : 1 ≤ bs) (p : Nat) : 1 ≤ alignedRead bs p := by
  unfold alignedRead
  split
  · exact hbs
  · omega

/-! the loop's `linesOf` is the statement's LF- or CRLF-separated lines when no CR stands alone -/

theorem endsNL_cons_cons (c d : Nat) (cs : List Nat) : endsNL (c :: d :: cs) = endsNL (d :: cs) := by
  simp [endsNL, lastIs]

theorem linesOf_crlf (cs : List Nat) (h : cs ≠ []) : linesOf (13 :: 10 :: cs) = [] :: linesOf cs := by
  cases cs with
  | nil => exact absurd rfl h
  | cons e es =>
    simp [linesOf, bytesSplitlines, aux_cons, bytesBreak, endsNL_cons_cons]

theorem linesOf_lf (d : Nat) (cs : List Nat) : linesOf (10 :: d :: cs) = [] :: linesOf (d :: cs) := by
  simp [linesOf, bytesSplitlines, aux_cons (c := 10), bytesBreak, endsNL_cons_cons]

theorem linesOf_plain (c d : Nat) (cs : List Nat) (h10 : c ≠ 10) (h13 : c ≠ 13) :
    linesOf (c :: d :: cs) = consHead c (linesOf (d :: cs)) := by
  unfold linesOf bytesSplitlines
  rw [consHead_append _ _ _ (aux_ne_nil _ _ (by simp))]
  simp [bytesSplitlines, aux_cons (c := c), bytesBreak, endsNL_cons_cons, h10, h13]

theorem noLoneCR_tail (c d : Nat) (cs : List Nat) (h : noLoneCR (c :: d :: cs) = true) :
    noLoneCR (d :: cs) = true := by
  simp [noLoneCR] at h; exact h.2

theorem linesOf_eq_sepLines (c : List Nat) (h : noLoneCR c = true) (hne : c ≠ []) :
    linesOf c = sepLines c := by
  induction c using sepLines.induct with
  | case1 => exact absurd rfl hne
  | case2 => decide
  | case3 c h10 =>
    have h13 : c ≠ 13 := by simpa [noLoneCR] using h
    simp [linesOf, bytesSplitlines, aux_cons, aux_nil, bytesBreak, h10, h13, consHead, endsNL, lastIs, isNL, sepLines]
  | case4 c d cs hcd ih =>
    obtain ⟨rfl, rfl⟩ := hcd
    cases cs with
    | nil => decide
    | cons e es =>
      have h' : noLoneCR (e :: es) = true := noLoneCR_tail _ _ _ (noLoneCR_tail _ _ _ h)
      rw [linesOf_crlf _ (by simp), ih h' (by simp)]
      simp [sepLines]
  | case5 d cs _ ih =>
    rw [linesOf_lf, ih (noLoneCR_tail _ _ _ h) (by simp)]
    simp [sepLines]
  | case6 c d cs hcd h10 ih =>
    have h13 : c ≠ 13 := by
      intro h13; subst h13
      simp [noLoneCR] at h
      exact hcd ⟨rfl, h.1⟩
    rw [linesOf_plain _ _ _ h10 h13, ih (noLoneCR_tail _ _ _ h) (by simp)]
    simp [sepLines, hcd, h10]

/-! ### Part C: the regex scan of iter_splitlines
`E` is the table regenerated from the source; the lemmas below are re-proved by computation on
whatever it currently contains (they go through for any ordering of the eight breaks in which
CR LF precedes CR). -/

abbrev E : List (List Nat) := Generated.lineEndings

def single (c : Nat) : Bool := c == 10 || c == 11 || c == 12 || c == 133 || c == 8232 || c == 8233

theorem firstMatch_E_cr_lf (cs : List Nat) : firstMatch E (13 :: 10 :: cs) = some ([13, 10], cs) := by
  simp [E, Generated.lineEndings, firstMatch, stripPrefix?]

theorem firstMatch_E_cr (cs : List Nat) (h : cs.head? ≠ some 10) : firstMatch E (13 :: cs) = some ([13], cs) := by
  cases cs with
  | nil => simp [E, Generated.lineEndings, firstMatch, stripPrefix?]
  | cons d ds =>
    have : d ≠ 10 := by simpa using h
    have : ¬ 10 = d := fun h => this h.symm
    simp [E, Generated.lineEndings, firstMatch, stripPrefix?, this]

theorem firstMatch_E_single (c : Nat) (cs : List Nat) (h : single c = true) : firstMatch E (c :: cs) = some ([c], cs) := by
  simp [single] at h
  rcases h with ((((rfl | rfl) | rfl) | rfl) | rfl) | rfl <;> simp [E, Generated.lineEndings, firstMatch, stripPrefix?]

theorem firstMatch_E_none (c : Nat) (cs : List Nat) (h : lineBreakChar c = false) : firstMatch E (c :: cs) = none := by
  simp [lineBreakChar] at h
  obtain ⟨⟨⟨⟨⟨⟨h1, h2⟩, h3⟩, h4⟩, h5⟩, h6⟩, h7⟩ := h
  have e1 : ¬ 10 = c := fun h => h1 h.symm
  have e2 : ¬ 11 = c := fun h => h2 h.symm
  have e3 : ¬ 12 = c := fun h => h3 h.symm
  have e4 : ¬ 13 = c := fun h => h4 h.symm
  have e5 : ¬ 133 = c := fun h => h5 h.symm
  have e6 : ¬ 8232 = c := fun h => h6 h.symm
  have e7 : ¬ 8233 = c := fun h => h7 h.symm
  simp [E, Generated.lineEndings, firstMatch, stripPrefix?, *]

theorem lineBreakChar_cases (c : Nat) : lineBreakChar c = (c == 13 || single c) := by
  unfold lineBreakChar single; ac_rfl

theorem strBreak_eq (c : Nat) : strBreak c = (lineBreakChar c || isFS c) := by
  unfold strBreak lineBreakChar isFS; ac_rfl

/-- what the head-of-text match looks like: (sep, rest) with `c :: cs = sep ++ rest` -/
inductive HeadMatch : Nat → List Nat → List Nat → List Nat → Prop
  | crlf (cs : List Nat) : HeadMatch 13 (10 :: cs) [13, 10] cs
  | cr (cs : List Nat) (h : cs.head? ≠ some 10) : HeadMatch 13 cs [13] cs
  | single (c : Nat) (cs : List Nat) (h : single c = true) : HeadMatch c cs [c] cs

theorem firstMatch_E_spec (c : Nat) (cs : List Nat) :
    (lineBreakChar c = false ∧ firstMatch E (c :: cs) = none) ∨
    (∃ sep rest, firstMatch E (c :: cs) = some (sep, rest) ∧ HeadMatch c cs sep rest) := by
  cases hb : lineBreakChar c with
  | false => exact Or.inl ⟨rfl, firstMatch_E_none c cs hb⟩
  | true =>
    right
    rw [lineBreakChar_cases] at hb
    by_cases h13 : c = 13
    · subst h13
      by_cases hh : cs.head? = some 10
      · cases cs with
        | nil => simp at hh
        | cons d ds =>
          have : d = 10 := by simpa using hh
          subst this
          exact ⟨_, _, firstMatch_E_cr_lf ds, .crlf ds⟩
      · exact ⟨_, _, firstMatch_E_cr cs hh, .cr cs hh⟩
    · have hs : single c = true := by simpa [h13] using hb
      exact ⟨_, _, firstMatch_E_single c cs hs, .single c cs hs⟩

theorem HeadMatch.eq {c cs sep rest} (h : HeadMatch c cs sep rest) : c :: cs = sep ++ rest := by
  cases h <;> rfl

theorem HeadMatch.mem {c cs sep rest} (h : HeadMatch c cs sep rest) : sep ∈ E := by
  cases h with
  | crlf => simp [E, Generated.lineEndings]
  | cr => simp [E, Generated.lineEndings]
  | single c cs h =>
    simp [C19.single] at h
    rcases h with ((((rfl | rfl) | rfl) | rfl) | rfl) | rfl <;> simp [E, Generated.lineEndings]

theorem HeadMatch.lt {c cs sep rest} (h : HeadMatch c cs sep rest) : rest.length < (c :: cs).length := by
  cases h <;> simp <;> omega

theorem HeadMatch.lastBreak {c cs sep rest} (h : HeadMatch c cs sep rest) : lastIs lineBreakChar sep = true := by
  cases h with
  | crlf => decide
  | cr => decide
  | single c cs h => simp [lastIs, lineBreakChar_cases, h]

theorem HeadMatch.split {c cs sep rest} (h : HeadMatch c cs sep rest) :
    eightSplitlines (c :: cs) = [] :: eightSplitlines rest := by
  unfold eightSplitlines
  cases h with
  | crlf => simp [aux_cons, lineBreakChar]
  | cr cs h =>
    rw [aux_cons]
    simp only [Bool.false_and, Bool.false_eq_true, if_false]
    rw [aux_flag_irrel _ _ _ h]
    simp [lineBreakChar]
  | single c cs h =>
    have hb : lineBreakChar c = true := by rw [lineBreakChar_cases, h]; simp
    have h13 : c ≠ 13 := by
      intro h13; subst h13; simp [C19.single] at h
    have h13' : (c == 13) = false := by simp [h13]
    rw [aux_cons]
    simp [hb, h13']

def NoFS (l : List Nat) : Prop := ∀ c ∈ l, isFS c = false

theorem splitFirst_nil : splitFirst E [] = none := by simp [splitFirst]

theorem splitFirst_hit (alts : List (List Nat)) (c : Nat) (cs sep rest : List Nat)
    (h : firstMatch alts (c :: cs) = some (sep, rest)) :
    splitFirst alts (c :: cs) = some ([], sep, rest) := by
  rw [splitFirst, h]

theorem splitFirst_miss_some (alts : List (List Nat)) (c : Nat) (cs l sep rest : List Nat)
    (h : firstMatch alts (c :: cs) = none) (h2 : splitFirst alts cs = some (l, sep, rest)) :
    splitFirst alts (c :: cs) = some (c :: l, sep, rest) := by
  rw [splitFirst, h, h2]

theorem splitFirst_miss_none (alts : List (List Nat)) (c : Nat) (cs : List Nat)
    (h : firstMatch alts (c :: cs) = none) (h2 : splitFirst alts cs = none) :
    splitFirst alts (c :: cs) = none := by
  rw [splitFirst, h, h2]

theorem splitFirst_none (s : List Nat) (h : splitFirst E s = none) :
    ∀ c ∈ s, lineBreakChar c = false := by
  induction s with
  | nil => intro c hc; cases hc
  | cons c cs ih =>
    rcases firstMatch_E_spec c cs with ⟨hb, hn⟩ | ⟨sep, rest, hs, _⟩
    · cases hcs : splitFirst E cs with
      | some x =>
        obtain ⟨l', sep', rest'⟩ := x
        rw [splitFirst_miss_some _ _ _ _ _ _ hn hcs] at h; simp at h
      | none =>
        intro d hd
        rcases List.mem_cons.mp hd with rfl | hd
        · exact hb
        · exact ih hcs d hd
    · rw [splitFirst_hit _ _ _ _ _ hs] at h; simp at h

theorem splitFirst_some (s l sep rest : List Nat) (h : splitFirst E s = some (l, sep, rest)) :
    s = l ++ sep ++ rest ∧ (∀ c ∈ l, lineBreakChar c = false) ∧ sep ∈ E ∧
    lastIs lineBreakChar sep = true ∧ rest.length < s.length ∧
    eightSplitlines s = l :: eightSplitlines rest := by
  induction s generalizing l with
  | nil => simp [splitFirst_nil] at h
  | cons c cs ih =>
    rcases firstMatch_E_spec c cs with ⟨hb, hn⟩ | ⟨sep', rest', hs, hm⟩
    · cases hcs : splitFirst E cs with
      | none => rw [splitFirst_miss_none _ _ _ hn hcs] at h; simp at h
      | some x =>
        obtain ⟨l', sep'', rest''⟩ := x
        rw [splitFirst_miss_some _ _ _ _ _ _ hn hcs] at h
        simp only [Option.some.injEq, Prod.mk.injEq] at h
        obtain ⟨rfl, rfl, rfl⟩ := h
        obtain ⟨h1, h2, h3, h4, h5, h6⟩ := ih l' hcs
        refine ⟨by rw [h1]; simp, ?_, h3, h4, by simp; omega, ?_⟩
        · intro d hd
          rcases List.mem_cons.mp hd with rfl | hd
          · exact hb
          · exact h2 d hd
        · unfold eightSplitlines at h6 ⊢
          rw [aux_cons]
          simp [hb, h6, consHead]
    · rw [splitFirst_hit _ _ _ _ _ hs] at h
      simp only [Option.some.injEq, Prod.mk.injEq] at h
      obtain ⟨rfl, rfl, rfl⟩ := h
      exact ⟨by simpa using hm.eq, fun _ h => (by cases h), hm.mem, hm.lastBreak, hm.lt, hm.split⟩

theorem scan_none (alts : List (List Nat)) (n : Nat) (s : List Nat) (h : splitFirst alts s = none) :
    scan alts (n + 1) s = if s = [] then [] else [(s, [])] := by
  rw [scan, h]

theorem scan_some (alts : List (List Nat)) (n : Nat) (s l sep rest : List Nat)
    (h : splitFirst alts s = some (l, sep, rest)) :
    scan alts (n + 1) s = (l, sep) :: (if rest = [] then [([], [])] else scan alts n rest) := by
  rw [scan, h]

theorem lineBreakChar_10 : lineBreakChar 10 = true := by decide

theorem scan_lines (n : Nat) (s : List Nat) (hn : s.length ≤ n) :
    (scan E (n + 1) s).map (·.1) = eightSplitlines s ++ (if endsWithBreak s then [[]] else []) := by
  induction n generalizing s with
  | zero =>
    have : s = [] := List.length_eq_zero_iff.mp (by omega)
    subst this
    rw [scan_none _ _ _ splitFirst_nil]
    simp [eightSplitlines, aux_nil, endsWithBreak, lastIs]
  | succ n ih =>
    cases hsf : splitFirst E s with
    | none =>
      have hnb := splitFirst_none s hsf
      rw [scan_none _ _ _ hsf]
      have he : endsWithBreak s = false := lastIs_false_of_all _ _ hnb
      rw [he]
      by_cases hs : s = []
      · subst hs; simp [eightSplitlines, aux_nil]
      · simp [hs, eightSplitlines, aux_noBrk lineBreakChar lineBreakChar_10 s hs hnb false]
    | some x =>
      obtain ⟨l, sep, rest⟩ := x
      obtain ⟨h1, h2, h3, h4, h5, h6⟩ := splitFirst_some s l sep rest hsf
      rw [scan_some _ _ _ _ _ _ hsf]
      have hsep : sep ≠ [] := by intro h; subst h; simp [lastIs] at h4
      rw [h6]
      by_cases hr : rest = []
      · subst hr
        have he : endsWithBreak s = true := by
          rw [h1]; simp only [List.append_nil]
          unfold endsWithBreak
          rw [lastIs_append _ _ _ hsep, h4]
        simp [he, eightSplitlines, aux_nil]
      · have he : endsWithBreak s = endsWithBreak rest := by
          rw [h1]; unfold endsWithBreak; rw [lastIs_append _ _ _ hr]
        simp only [hr, if_false, List.map_cons, he]
        rw [ih rest (by omega)]
        simp

/-- two break predicates that agree on the characters of a text split it alike -/
theorem aux_congr (b1 b2 : Nat → Bool) (f : Bool) (s : List Nat) (h : ∀ c ∈ s, b1 c = b2 c) :
    splitlinesAux b1 f s = splitlinesAux b2 f s := by
  induction s generalizing f with
  | nil => simp [aux_nil]
  | cons c cs ih =>
    have ih := fun f => ih f (fun d hd => h d (by simp [hd]))
    rw [aux_cons, aux_cons, h c (by simp), ih, ih]

/-- on texts without U+001C..U+001E `str.splitlines` is the split at the eight forms -/
theorem pySplitlines_eq_eight (t : List Nat) (h : NoFS t) : pySplitlines t = eightSplitlines t := by
  unfold pySplitlines eightSplitlines
  apply aux_congr
  intro c hc
  rw [strBreak_eq, h c hc]; simp

theorem scan_pieces (n : Nat) (s : List Nat) (hn : s.length ≤ n) :
    (scan E (n + 1) s).flatMap (fun p => p.1 ++ p.2) = s ∧
    ∀ p ∈ scan E (n + 1) s, (∀ c ∈ p.1, lineBreakChar c = false) ∧ (p.2 = [] ∨ p.2 ∈ E) := by
  induction n generalizing s with
  | zero =>
    have : s = [] := List.length_eq_zero_iff.mp (by omega)
    subst this
    rw [scan_none _ _ _ splitFirst_nil]
    simp
  | succ n ih =>
    cases hsf : splitFirst E s with
    | none =>
      have hnb := splitFirst_none s hsf
      rw [scan_none _ _ _ hsf]
      by_cases hs : s = []
      · subst hs; simp
      · simp only [hs, if_false, List.flatMap_cons, List.flatMap_nil, List.append_nil, List.mem_singleton]
        refine ⟨trivial, ?_⟩
        rintro p rfl
        exact ⟨hnb, Or.inl rfl⟩
    | some x =>
      obtain ⟨l, sep, rest⟩ := x
      obtain ⟨h1, h2, h3, h4, h5, h6⟩ := splitFirst_some s l sep rest hsf
      rw [scan_some _ _ _ _ _ _ hsf]
      by_cases hr : rest = []
      · subst hr
        simp only [if_true, List.flatMap_cons, List.flatMap_nil, List.append_nil, List.mem_cons]
        refine ⟨by rw [h1]; simp, ?_⟩
        rintro p (rfl | rfl | h)
        · exact ⟨h2, Or.inr h3⟩
        · exact ⟨fun _ h => (by cases h), Or.inl rfl⟩
        · cases h
      · obtain ⟨i1, i2⟩ := ih rest (by omega)
        simp only [hr, if_false, List.flatMap_cons, List.mem_cons]
        refine ⟨by rw [i1, h1], ?_⟩
        rintro p (rfl | h)
        · exact ⟨h2, Or.inr h3⟩
        · exact i2 p h


/-! ### Part D: JSONLIterator -/

variable {α ε : Type}

theorem consume_nil (ws : Nat → Bool) (parse : List Nat → Except ε α) (ig : Bool) : consume ws parse ig [] = ([], none) := by
  simp [consume]

theorem consume_ignore (ws : Nat → Bool) (parse : List Nat → Except ε α) (ls : List (List Nat)) :
    consume ws parse true ls = (ls.filterMap (objOf ws parse), none) := by
  induction ls with
  | nil => simp [consume]
  | cons l ls ih =>
    rw [consume]
    by_cases hb : lineNorm ws l = []
    · simp [hb, ih, objOf]
    · simp only [hb, if_false]
      cases hp : parse (lineNorm ws l) with
      | ok v => simp [ih, objOf, hb, hp]
      | error e => simp [ih, objOf, hb, hp]

/-- `x` is `y` with possibly its line break still attached -/
def Rel (x y : List Nat) : Prop := x = y ∨ x = y ++ [10] ∨ x = y ++ [13, 10]

/-- lists related element by element -/
inductive RelL : List (List Nat) → List (List Nat) → Prop
  | nil : RelL [] []
  | cons {x y xs ys} (h : Rel x y) (t : RelL xs ys) : RelL (x :: xs) (y :: ys)

theorem lineEnd_10 : lineEnd 10 = true := by decide
theorem lineEnd_13 : lineEnd 13 = true := by decide

theorem dropWhile_append_all (p : Nat → Bool) (a b : List Nat) (ha : ∀ c ∈ a, p c = true) :
    (a ++ b).dropWhile p = b.dropWhile p := by
  induction a with
  | nil => rfl
  | cons c cs ih =>
    have hc : p c = true := ha c (by simp)
    simp only [List.cons_append, List.dropWhile_cons, hc, if_true]
    exact ih (fun d hd => ha d (by simp [hd]))

theorem rstripBy_append_all (rs : Nat → Bool) (z e : List Nat) (he : ∀ c ∈ e, rs c = true) :
    rstripBy rs (z ++ e) = rstripBy rs z := by
  unfold rstripBy
  rw [List.reverse_append, dropWhile_append_all rs _ _ (by simpa using he)]

theorem rstripBy_all (rs : Nat → Bool) (e : List Nat) (he : ∀ c ∈ e, rs c = true) :
    rstripBy rs e = [] := by
  have := rstripBy_append_all rs [] e he
  simpa [rstripBy] using this

/-- a run of end-of-line characters after the line does not change `line.lstrip().rstrip(..)`,
    WHATEVER set `.lstrip()` strips -/
theorem normBy_append (ws rs : Nat → Bool) (y e : List Nat) (he : ∀ c ∈ e, rs c = true) :
    rstripBy rs (lstripBy ws (y ++ e)) = rstripBy rs (lstripBy ws y) := by
  induction y with
  | nil =>
    have h1 : rstripBy rs (lstripBy ws ([] ++ e)) = [] := by
      apply rstripBy_all
      intro c hc
      exact he c ((List.dropWhile_suffix ws).subset hc)
    rw [h1]
    simp [lstripBy, rstripBy]
  | cons c cs ih =>
    by_cases hc : ws c = true
    · simp only [lstripBy, List.cons_append, List.dropWhile_cons, hc, if_true] at ih ⊢
      exact ih
    · simp only [lstripBy, List.cons_append, List.dropWhile_cons, hc]
      exact rstripBy_append_all rs (c :: cs) e he

theorem lineNorm_rel (ws : Nat → Bool) (x y : List Nat) (h : Rel x y) : lineNorm ws x = lineNorm ws y := by
  unfold lineNorm
  rcases h with rfl | rfl | rfl
  · rfl
  · exact normBy_append _ _ _ _ (by intro c hc; simp at hc; subst hc; exact lineEnd_10)
  · apply normBy_append
    intro c hc
    simp at hc
    rcases hc with rfl | rfl
    · exact lineEnd_13
    · exact lineEnd_10

theorem lineNorm_nil (ws : Nat → Bool) : lineNorm ws [] = [] := by
  simp [lineNorm, lstripBy, rstripBy]

/-- a line of characters that `.lstrip()` strips is blank -/
theorem lineNorm_blank (ws : Nat → Bool) (l : List Nat) (h : ∀ c ∈ l, ws c = true) : lineNorm ws l = [] := by
  have : lstripBy ws l = [] := by
    unfold lstripBy
    have := dropWhile_append_all ws l [] h
    simpa using this
  simp [lineNorm, this, rstripBy]

theorem objOf_rel (ws : Nat → Bool) (parse : List Nat → Except ε α) (x y : List Nat)
    (h : Rel x y) : objOf ws parse x = objOf ws parse y := by
  simp [objOf, lineNorm_rel ws x y h]

theorem filterMap_rel (ws : Nat → Bool) (parse : List Nat → Except ε α)
    (xs ys : List (List Nat)) (h : RelL xs ys) :
    xs.filterMap (objOf ws parse) = ys.filterMap (objOf ws parse) := by
  induction h with
  | nil => rfl
  | cons hxy _ ih => simp [List.filterMap_cons, objOf_rel ws parse _ _ hxy, ih]

theorem rel_consHead (c : Nat) (xs ys : List (List Nat)) (h : RelL xs ys) :
    RelL (consHead c xs) (consHead c ys) := by
  cases h with
  | nil => exact .cons (Or.inl rfl) .nil
  | cons hxy hrest =>
    refine .cons ?_ hrest
    rcases hxy with rfl | rfl | rfl
    · exact Or.inl rfl
    · exact Or.inr (Or.inl rfl)
    · exact Or.inr (Or.inr rfl)

/-- text-mode iteration yields the `splitlines` lines, with `\n` where a break was -/
theorem fileLinesT_rel (f : Bool) (c : List Nat) :
    RelL (fileLinesT f c) (splitlinesAux bytesBreak f c) := by
  induction c generalizing f with
  | nil => rw [fileLinesT, aux_nil]; exact .nil
  | cons d ds ih =>
    rw [fileLinesT, aux_cons]
    by_cases h1 : (f && d == 10) = true
    · simp only [h1, if_true]; exact ih false
    · have h1' : (f && d == 10) = false := by simpa using h1
      simp only [h1', Bool.false_eq_true, if_false]
      by_cases hb : bytesBreak d = true
      · simp only [hb, if_true]
        exact .cons (Or.inr (Or.inl rfl)) (ih _)
      · simp only [hb, if_false]
        exact rel_consHead _ _ _ (ih false)

theorem fileLinesB_ne_nil (c : Nat) (cs : List Nat) : fileLinesB (c :: cs) ≠ [] := by
  rw [fileLinesB]; split
  · simp
  · exact consHead_ne_nil _ _

/-- binary iteration, padded with the empty last piece that `split` semantics has -/
def fileLinesB' (c : List Nat) : List (List Nat) :=
  fileLinesB c ++ (if c = [] ∨ endsNL c = true then [[]] else [])

theorem fileLinesB'_rel (c : List Nat) (h : noLoneCR c = true) : RelL (fileLinesB' c) (sepLines c) := by
  induction c using sepLines.induct with
  | case1 => exact .cons (Or.inl rfl) .nil
  | case2 => exact .cons (Or.inr (Or.inl rfl)) (.cons (Or.inl rfl) .nil)
  | case3 c h10 =>
    have : fileLinesB' [c] = [[c]] := by
      simp [fileLinesB', fileLinesB, h10, consHead, endsNL, lastIs, isNL]
    rw [this]
    simp only [sepLines, h10, if_false]
    exact .cons (Or.inl rfl) .nil
  | case4 c d cs hcd ih =>
    obtain ⟨rfl, rfl⟩ := hcd
    have h' : noLoneCR cs = true := by
      cases cs with
      | nil => rfl
      | cons e es => exact noLoneCR_tail _ _ _ (noLoneCR_tail _ _ _ h)
    have : fileLinesB' (13 :: 10 :: cs) = [13, 10] :: fileLinesB' cs := by
      unfold fileLinesB'
      cases cs with
      | nil => simp [fileLinesB, consHead, endsNL, lastIs, isNL]
      | cons e es => simp [fileLinesB, consHead, endsNL_cons_cons]
    rw [this]
    simp only [sepLines, and_self, if_true]
    exact .cons (Or.inr (Or.inr rfl)) (ih h')
  | case5 d cs _ ih =>
    have : fileLinesB' (10 :: d :: cs) = [10] :: fileLinesB' (d :: cs) := by
      unfold fileLinesB'
      simp [fileLinesB, endsNL_cons_cons]
    rw [this]
    simp only [sepLines]
    exact .cons (Or.inr (Or.inl rfl)) (ih (noLoneCR_tail _ _ _ h))
  | case6 c d cs hcd h10 ih =>
    have : fileLinesB' (c :: d :: cs) = consHead c (fileLinesB' (d :: cs)) := by
      unfold fileLinesB'
      rw [consHead_append _ _ _ (fileLinesB_ne_nil d cs)]
      simp [fileLinesB.eq_2 c, h10, endsNL_cons_cons]
    rw [this]
    simp only [sepLines, hcd, h10, if_false]
    exact rel_consHead _ _ _ (ih (noLoneCR_tail _ _ _ h))

theorem objOf_nil (ws : Nat → Bool) (parse : List Nat → Except ε α) : objOf ws parse [] = none := by
  simp [objOf, lineNorm_nil ws]

theorem filterMap_fileLinesB' (ws : Nat → Bool) (parse : List Nat → Except ε α) (c : List Nat) :
    (fileLinesB' c).filterMap (objOf ws parse) = (fileLinesB c).filterMap (objOf ws parse) := by
  unfold fileLinesB'
  split <;> simp [List.filterMap_append, objOf_nil]

theorem filterMap_linesOf (ws : Nat → Bool) (parse : List Nat → Except ε α) (c : List Nat) :
    (linesOf c).filterMap (objOf ws parse) = (bytesSplitlines c).filterMap (objOf ws parse) := by
  unfold linesOf
  split <;> simp [List.filterMap_append, objOf_nil]

/-- a line that does not stop a strict (`ignore_errors=False`) iteration: blank or decodable -/
def OkLine (ws : Nat → Bool) (parse : List Nat → Except ε α) (l : List Nat) : Prop :=
  lineNorm ws l = [] ∨ ∃ v, parse (lineNorm ws l) = .ok v

def AllOk (ws : Nat → Bool) (parse : List Nat → Except ε α) (ls : List (List Nat)) : Prop := ∀ l ∈ ls, OkLine ws parse l

theorem consume_strict_of_allOk (ws : Nat → Bool) (parse : List Nat → Except ε α) (ls : List (List Nat))
    (h : AllOk ws parse ls) : consume ws parse false ls = consume ws parse true ls := by
  induction ls with
  | nil => simp [consume]
  | cons l ls ih =>
    have ih := ih (fun x hx => h x (by simp [hx]))
    rw [consume, consume]
    rcases h l (by simp) with hb | ⟨v, hv⟩
    · simp [hb, ih]
    · by_cases hb : lineNorm ws l = []
      · simp [hb, ih]
      · simp [hb, hv, ih]

theorem allOk_of_consume_strict (ws : Nat → Bool) (parse : List Nat → Except ε α) (ls : List (List Nat))
    (h : (consume ws parse false ls).2 = none) : AllOk ws parse ls := by
  induction ls with
  | nil => intro l hl; cases hl
  | cons l ls ih =>
    rw [consume] at h
    by_cases hb : lineNorm ws l = []
    · simp only [hb, if_true] at h
      intro x hx
      rcases List.mem_cons.mp hx with rfl | hx
      · exact Or.inl hb
      · exact ih h x hx
    · simp only [hb, if_false] at h
      cases hp : parse (lineNorm ws l) with
      | ok v =>
        rw [hp] at h
        intro x hx
        rcases List.mem_cons.mp hx with rfl | hx
        · exact Or.inr ⟨v, hp⟩
        · exact ih h x hx
      | error e => rw [hp] at h; simp at h

theorem okLine_rel (ws : Nat → Bool) (parse : List Nat → Except ε α) (x y : List Nat)
    (h : Rel x y) : OkLine ws parse x ↔ OkLine ws parse y := by
  simp [OkLine, lineNorm_rel ws x y h]

theorem allOk_rel (ws : Nat → Bool) (parse : List Nat → Except ε α)
    (xs ys : List (List Nat)) (h : RelL xs ys) : AllOk ws parse xs ↔ AllOk ws parse ys := by
  induction h with
  | nil => rfl
  | cons hxy _ ih =>
    simp only [AllOk, List.mem_cons, forall_eq_or_imp] at ih ⊢
    rw [okLine_rel ws parse _ _ hxy, ih]

theorem okLine_nil (ws : Nat → Bool) (parse : List Nat → Except ε α) : OkLine ws parse [] := Or.inl (lineNorm_nil ws)

theorem allOk_append_nil (ws : Nat → Bool) (parse : List Nat → Except ε α) (xs : List (List Nat)) (b : Bool) :
    AllOk ws parse (xs ++ (if b then [[]] else [])) ↔ AllOk ws parse xs := by
  cases b
  · simp
  · simp only [AllOk, if_true, List.mem_append, List.mem_singleton]
    constructor
    · intro h l hl; exact h l (Or.inl hl)
    · intro h l hl
      rcases hl with hl | rfl
      · exact h l hl
      · exact okLine_nil ws parse

theorem allOk_reverse (ws : Nat → Bool) (parse : List Nat → Except ε α) (xs : List (List Nat)) :
    AllOk ws parse xs.reverse ↔ AllOk ws parse xs := by
  simp [AllOk]


/-! ### extras -/

theorem splitFirst_none_of (s : List Nat) (h : ∀ c ∈ s, lineBreakChar c = false) :
    splitFirst E s = none := by
  induction s with
  | nil => exact splitFirst_nil
  | cons c cs ih =>
    exact splitFirst_miss_none _ _ _ (firstMatch_E_none c cs (h c (by simp)))
      (ih (fun d hd => h d (by simp [hd])))

/-- no line produced by `splitlines` contains a break character -/
theorem aux_all_noBrk (brk : Nat → Bool) (f : Bool) (s : List Nat) :
    ∀ l ∈ splitlinesAux brk f s, NoBrk brk l := by
  induction s generalizing f with
  | nil => intro l hl; simp [aux_nil] at hl
  | cons c cs ih =>
    rw [aux_cons]
    by_cases h1 : (f && c == 10) = true
    · simp only [h1, if_true]; exact ih false
    · have h1' : (f && c == 10) = false := by simpa using h1
      simp only [h1', Bool.false_eq_true, if_false]
      by_cases hb : brk c = true
      · simp only [hb, if_true]
        intro l hl
        rcases List.mem_cons.mp hl with rfl | hl
        · intro d hd; cases hd
        · exact ih _ l hl
      · have hb' : brk c = false := by simpa using hb
        simp only [hb', Bool.false_eq_true, if_false]
        intro l hl
        cases hs : splitlinesAux brk false cs with
        | nil =>
          rw [hs] at hl
          simp [consHead] at hl
          subst hl
          intro d hd
          simp at hd; subst hd; exact hb'
        | cons l0 ls =>
          rw [hs] at hl
          simp only [consHead, List.mem_cons] at hl
          rcases hl with rfl | hl
          · intro d hd
            rcases List.mem_cons.mp hd with rfl | hd
            · exact hb'
            · exact ih false l0 (by rw [hs]; simp) d hd
          · exact ih false l (by rw [hs]; simp [hl])

/-! ### Part E: joining lines and splitting them again (`indent`) -/

theorem aux_eq_nil (brk : Nat → Bool) (f : Bool) (s : List Nat) (h : splitlinesAux brk f s = []) :
    s = [] ∨ (f = true ∧ s = [10]) := by
  cases s with
  | nil => exact Or.inl rfl
  | cons c cs =>
    right
    rw [aux_cons] at h
    by_cases h1 : (f && c == 10) = true
    · simp only [h1, if_true] at h
      have hcs : cs = [] := by
        by_cases hcs : cs = []
        · exact hcs
        · exact absurd h (aux_ne_nil brk cs hcs)
      simp at h1
      exact ⟨h1.1, by rw [h1.2, hcs]⟩
    · have h1' : (f && c == 10) = false := by simpa using h1
      simp only [h1', Bool.false_eq_true, if_false] at h
      by_cases hb : brk c = true
      · simp [hb] at h
      · simp only [hb, if_false] at h
        exact absurd h (consHead_ne_nil _ _)

theorem consHead_ne_singleton_nil (c : Nat) (x : List (List Nat)) : consHead c x ≠ [[]] := by
  cases x <;> simp [consHead]

/-- a split that consists of one empty line comes from a text that is one line break -/
theorem aux_singleton_nil (brk : Nat → Bool) (hb10 : brk 10 = true) (f : Bool) (s : List Nat)
    (h : splitlinesAux brk f s = [[]]) : lastIs brk s = true := by
  induction s generalizing f with
  | nil => simp [aux_nil] at h
  | cons c cs ih =>
    rw [aux_cons] at h
    by_cases h1 : (f && c == 10) = true
    · simp only [h1, if_true] at h
      have := ih false h
      cases cs with
      | nil => simp [lastIs] at this
      | cons d ds => simpa [lastIs] using this
    · have h1' : (f && c == 10) = false := by simpa using h1
      simp only [h1', Bool.false_eq_true, if_false] at h
      by_cases hb : brk c = true
      · simp only [hb, if_true] at h
        have h2 : splitlinesAux brk (c == 13) cs = [] := by simpa using h
        rcases aux_eq_nil brk _ cs h2 with rfl | ⟨_, rfl⟩
        · simpa [lastIs] using hb
        · simpa [lastIs] using hb10
      · simp only [hb, if_false] at h
        exact absurd h (consHead_ne_singleton_nil _ _)

/-- a break-free line followed by LF is the first line of the split -/
theorem aux_line_lf (brk : Nat → Bool) (hb10 : brk 10 = true) (l R : List Nat) (hl : NoBrk brk l) :
    splitlinesAux brk false (l ++ 10 :: R) = l :: splitlinesAux brk false R := by
  induction l with
  | nil =>
    simp only [List.nil_append]
    rw [aux_cons]
    simp [hb10]
  | cons c cs ih =>
    have hc : brk c = false := hl c (by simp)
    simp only [List.cons_append]
    rw [aux_cons, ih (fun d hd => hl d (by simp [hd]))]
    simp [hc, consHead]

theorem joinWith_eq_nil (sep : List Nat) (hsep : sep ≠ []) (ls : List (List Nat))
    (h : joinWith sep ls = []) : ls = [] ∨ ls = [[]] := by
  match ls, h with
  | [], _ => exact Or.inl rfl
  | [l], h => right; simp [joinWith] at h; rw [h]
  | l :: l' :: rest, h => simp [joinWith, hsep] at h

/-- the eight-form split plus the final empty line, on which `iterSplitlines` is characterised -/
def splitFin (t : List Nat) : List (List Nat) :=
  eightSplitlines t ++ (if endsWithBreak t then [[]] else [])

theorem splitFin_nil : splitFin [] = [] := by
  simp [splitFin, eightSplitlines, aux_nil, endsWithBreak, lastIs]

theorem splitFin_ne_singleton_nil (t : List Nat) : splitFin t ≠ [[]] := by
  intro h
  unfold splitFin at h
  by_cases he : endsWithBreak t = true
  · simp only [he, if_true] at h
    have h0 : eightSplitlines t = [] := by
      cases hx : eightSplitlines t with
      | nil => rfl
      | cons a as => rw [hx] at h; simp at h
    have ht : t = [] := by
      by_cases ht : t = []
      · exact ht
      · exact absurd h0 (aux_ne_nil _ t ht)
    subst ht
    simp [endsWithBreak, lastIs] at he
  · have he' : endsWithBreak t = false := by simpa using he
    rw [he'] at h
    simp only [Bool.false_eq_true, if_false, List.append_nil] at h
    exact he (aux_singleton_nil lineBreakChar lineBreakChar_10 false t h)

/-- splitting `'\n'.join(ls)` gives `ls` back, for break-free lines (`ls = ['']` excepted: it joins
    to the empty text, which has no lines) -/
theorem splitFin_join (ls : List (List Nat)) (hb : ∀ l ∈ ls, NoBrk lineBreakChar l) (hne : ls ≠ [[]]) :
    splitFin (joinWith [10] ls) = ls := by
  match ls, hb, hne with
  | [], _, _ => simp [joinWith, splitFin_nil]
  | [l], hb, hne =>
    have hl : l ≠ [] := by intro h; subst h; exact hne rfl
    have hn : NoBrk lineBreakChar l := hb l (by simp)
    have he : endsWithBreak l = false := lastIs_false_of_all _ _ hn
    simp [joinWith, splitFin, he, eightSplitlines, aux_noBrk lineBreakChar lineBreakChar_10 l hl hn false]
  | l :: l' :: rest, hb, _ =>
    have hn : NoBrk lineBreakChar l := hb l (by simp)
    have hb' : ∀ x ∈ l' :: rest, NoBrk lineBreakChar x := fun x hx => hb x (by simp [hx])
    have hj : joinWith [10] (l :: l' :: rest) = l ++ 10 :: joinWith [10] (l' :: rest) := by
      simp [joinWith]
    rw [hj]
    unfold splitFin eightSplitlines
    rw [aux_line_lf lineBreakChar lineBreakChar_10 l _ hn]
    by_cases hR : joinWith [10] (l' :: rest) = []
    · rcases joinWith_eq_nil [10] (by simp) _ hR with h | h
      · cases h
      · rw [hR, h]
        simp [aux_nil, endsWithBreak, lastIs_append, lastIs, lineBreakChar]
    · have hne' : l' :: rest ≠ [[]] := by
        intro h; rw [h] at hR; exact hR rfl
      have ih := splitFin_join (l' :: rest) hb' hne'
      have he : endsWithBreak (l ++ 10 :: joinWith [10] (l' :: rest)) =
          endsWithBreak (joinWith [10] (l' :: rest)) := by
        unfold endsWithBreak
        rw [show l ++ 10 :: joinWith [10] (l' :: rest) = (l ++ [10]) ++ joinWith [10] (l' :: rest) by simp,
          lastIs_append _ _ _ hR]
      rw [he]
      unfold splitFin eightSplitlines at ih
      rw [List.cons_append, ih]

/-! ### Part F: UTF-8 well-formedness survives the split (text mode) -/

theorem isCont_ascii (x : Nat) (hx : x < 128) : isCont x = false := by
  simp [isCont]; omega

theorem validUtf8G_cons (sp : Bool) (b : Nat) (rest : List Nat) :
    validUtf8G sp (b :: rest) =
      if b < 128 then validUtf8G sp rest
      else if (194 ≤ b && b ≤ 223) = true then
        match rest with
        | c1 :: r => isCont c1 && validUtf8G sp r
        | _ => false
      else if (224 ≤ b && b ≤ 239) = true then
        match rest with
        | c1 :: c2 :: r =>
          isCont c1 && isCont c2 && (b != 224 || 160 ≤ c1) && (b != 237 || sp || c1 ≤ 159) && validUtf8G sp r
        | _ => false
      else if (240 ≤ b && b ≤ 244) = true then
        match rest with
        | c1 :: c2 :: c3 :: r =>
          isCont c1 && isCont c2 && isCont c3 && (b != 240 || 144 ≤ c1) && (b != 244 || c1 ≤ 143)
            && validUtf8G sp r
        | _ => false
      else false := by
  rw [validUtf8G.eq_def]
  all_goals rfl

theorem validUtf8G_ascii_cons (sp : Bool) (x : Nat) (hx : x < 128) (b : List Nat) :
    validUtf8G sp (x :: b) = validUtf8G sp b := by
  rw [validUtf8G_cons]; simp [hx]

/-- cutting a well-formed byte string at an ASCII byte leaves two well-formed strings -/
theorem validUtf8G_split (sp : Bool) (n : Nat) : ∀ a : List Nat, a.length ≤ n → ∀ (x : Nat) (b : List Nat),
    x < 128 → validUtf8G sp (a ++ x :: b) = true → validUtf8G sp a = true ∧ validUtf8G sp b = true := by
  induction n with
  | zero =>
    intro a ha x b hx h
    have : a = [] := List.length_eq_zero_iff.mp (by omega)
    subst this
    rw [List.nil_append, validUtf8G_ascii_cons sp x hx] at h
    exact ⟨by simp [validUtf8G], h⟩
  | succ n ih =>
    intro a ha x b hx h
    have hcx := isCont_ascii x hx
    match a, ha with
    | [], _ =>
      rw [List.nil_append, validUtf8G_ascii_cons sp x hx] at h
      exact ⟨by simp [validUtf8G], h⟩
    | h0 :: t, ha =>
      simp only [List.cons_append] at h
      rw [validUtf8G_cons] at h
      rw [validUtf8G_cons]
      by_cases c1 : h0 < 128
      · simp only [c1, if_true] at h ⊢
        exact ih t (by simp at ha; omega) x b hx h
      · simp only [c1, if_false] at h ⊢
        by_cases c2 : (194 ≤ h0 && h0 ≤ 223) = true
        · simp only [c2, if_true] at h ⊢
          match t, ha with
          | [], _ => simp [hcx] at h
          | d1 :: t', ha =>
            simp only [List.cons_append, Bool.and_eq_true] at h ⊢
            obtain ⟨i1, i2⟩ := ih t' (by simp at ha; omega) x b hx h.2
            exact ⟨⟨h.1, i1⟩, i2⟩
        · simp only [c2, Bool.false_eq_true, if_false] at h ⊢
          by_cases c3 : (224 ≤ h0 && h0 ≤ 239) = true
          · simp only [c3, if_true] at h ⊢
            match t, ha with
            | [], _ => cases b <;> simp [hcx] at h
            | [d1], _ => simp [hcx] at h
            | d1 :: d2 :: t', ha =>
              simp only [List.cons_append, Bool.and_eq_true] at h ⊢
              obtain ⟨i1, i2⟩ := ih t' (by simp at ha; omega) x b hx h.2
              exact ⟨⟨h.1, i1⟩, i2⟩
          · simp only [c3, Bool.false_eq_true, if_false] at h ⊢
            by_cases c4 : (240 ≤ h0 && h0 ≤ 244) = true
            · simp only [c4, if_true] at h ⊢
              match t, ha with
              | [], _ => rcases b with _ | ⟨_, _ | ⟨_, _⟩⟩ <;> simp [hcx] at h
              | [d1], _ => cases b <;> simp [hcx] at h
              | [d1, d2], _ => simp [hcx] at h
              | d1 :: d2 :: d3 :: t', ha =>
                simp only [List.cons_append, Bool.and_eq_true] at h ⊢
                obtain ⟨i1, i2⟩ := ih t' (by simp at ha; omega) x b hx h.2
                exact ⟨⟨h.1, i1⟩, i2⟩
            · simp [c4] at h

/-- the first line of a split, and what the rest is the split of -/
theorem aux_first_decomp (brk : Nat → Bool) (s l0 : List Nat) (rest : List (List Nat))
    (h : splitlinesAux brk false s = l0 :: rest) :
    (s = l0 ∧ rest = []) ∨
    ∃ x b2, s = l0 ++ x :: b2 ∧ brk x = true ∧ rest = splitlinesAux brk (x == 13) b2 := by
  induction s generalizing l0 rest with
  | nil => simp [aux_nil] at h
  | cons c cs ih =>
    rw [aux_cons] at h
    simp only [Bool.false_and, Bool.false_eq_true, if_false] at h
    by_cases hc : brk c = true
    · simp only [hc, if_true] at h
      obtain ⟨h1, h2⟩ := List.cons.inj h
      right
      exact ⟨c, cs, by rw [← h1]; rfl, hc, h2.symm⟩
    · simp only [hc, if_false] at h
      cases hs : splitlinesAux brk false cs with
      | nil =>
        rw [hs] at h
        simp only [consHead] at h
        obtain ⟨h1, h2⟩ := List.cons.inj h
        have hcs : cs = [] := by
          by_cases hcs : cs = []
          · exact hcs
          · exact absurd hs (aux_ne_nil brk cs hcs)
        left
        exact ⟨by rw [hcs, ← h1], h2.symm⟩
      | cons l ls =>
        rw [hs] at h
        simp only [consHead] at h
        obtain ⟨h1, h2⟩ := List.cons.inj h
        rcases ih l ls hs with ⟨e1, e2⟩ | ⟨x, b2, e1, e2, e3⟩
        · left
          exact ⟨by rw [← h1, e1], by rw [← h2, e2]⟩
        · right
          exact ⟨x, b2, by rw [← h1, e1]; rfl, e2, by rw [← h2, e3]⟩

/-- every line of a well-formed byte string split at ASCII bytes is well-formed: no line ends or
    begins inside a multi-byte character -/
theorem aux_lines_valid (sp : Bool) (brk : Nat → Bool) (hb : ∀ x, brk x = true → x < 128) (n : Nat) :
    ∀ (s : List Nat) (f : Bool), s.length ≤ n → validUtf8G sp s = true →
      ∀ l ∈ splitlinesAux brk f s, validUtf8G sp l = true := by
  induction n with
  | zero =>
    intro s f hs _ l hl
    have : s = [] := List.length_eq_zero_iff.mp (by omega)
    subst this
    simp [aux_nil] at hl
  | succ n ih =>
    intro s f hs hv l hl
    -- the lines of `s` read with the flag off
    have key : ∀ l ∈ splitlinesAux brk false s, validUtf8G sp l = true := by
      intro l hl
      cases hsp : splitlinesAux brk false s with
      | nil => rw [hsp] at hl; cases hl
      | cons l0 rest =>
        rw [hsp] at hl
        rcases aux_first_decomp brk s l0 rest hsp with ⟨e1, e2⟩ | ⟨x, b2, e1, e2, e3⟩
        · subst e2
          have : l = l0 := by simpa using hl
          rw [this, ← e1]; exact hv
        · rw [e1] at hv
          obtain ⟨v1, v2⟩ := validUtf8G_split sp l0.length l0 (Nat.le_refl _) x b2 (hb x e2) hv
          rcases List.mem_cons.mp hl with rfl | hl
          · exact v1
          · rw [e3] at hl
            have hlen : b2.length ≤ n := by
              have := congrArg List.length e1
              simp at this
              omega
            exact ih b2 _ hlen v2 l hl
    cases s with
    | nil => simp [aux_nil] at hl
    | cons c cs =>
      by_cases h1 : (f && c == 10) = true
      · rw [aux_cons] at hl
        simp only [h1, if_true] at hl
        have hc : c = 10 := by simp at h1; exact h1.2
        subst hc
        have v2 : validUtf8G sp cs = true := by
          rw [validUtf8G_ascii_cons sp 10 (by decide)] at hv; exact hv
        exact ih cs false (by simp at hs; omega) v2 l hl
      · have h1' : (f && c == 10) = false := by simpa using h1
        have : splitlinesAux brk f (c :: cs) = splitlinesAux brk false (c :: cs) := by
          rw [aux_cons, aux_cons]; simp [h1']
        rw [this] at hl
        exact key l hl

/-! ### Part G: cutting a content at a line break (`rel_seek`) -/

/-- cutting the text in front of a break character `x`: the lines of the whole are the lines of the
    left part, then possibly one empty line, then the lines after `x` -/
theorem aux_cut_at_break (brk : Nat → Bool) (x : Nat) (b' : List Nat) (hx : brk x = true) (a : List Nat) :
    ∀ f, ∃ E : List (List Nat), (E = [] ∨ E = [[]]) ∧
      splitlinesAux brk f (a ++ x :: b') = splitlinesAux brk f a ++ E ++ splitlinesAux brk (x == 13) b' := by
  induction a with
  | nil =>
    intro f
    by_cases h1 : (f && x == 10) = true
    · refine ⟨[], Or.inl rfl, ?_⟩
      have hx10 : x = 10 := by simp at h1; exact h1.2
      subst hx10
      have hf : f = true := by simp at h1; exact h1
      subst hf
      simp only [List.nil_append]
      rw [aux_cons]
      simp [aux_nil]
    · have h1' : (f && x == 10) = false := by simpa using h1
      refine ⟨[[]], Or.inr rfl, ?_⟩
      simp only [List.nil_append]
      rw [aux_cons]
      simp [h1', hx, aux_nil]
  | cons c cs ih =>
    intro f
    simp only [List.cons_append]
    by_cases h1 : (f && c == 10) = true
    · obtain ⟨E, hE, h⟩ := ih false
      refine ⟨E, hE, ?_⟩
      rw [aux_cons, aux_cons]
      simp only [h1, if_true]
      exact h
    · have h1' : (f && c == 10) = false := by simpa using h1
      by_cases hc : brk c = true
      · obtain ⟨E, hE, h⟩ := ih (c == 13)
        refine ⟨E, hE, ?_⟩
        rw [aux_cons, aux_cons]
        simp only [h1', hc, if_true, Bool.false_eq_true, if_false]
        rw [h]
        simp
      · by_cases hcs : cs = []
        · subst hcs
          refine ⟨[], Or.inl rfl, ?_⟩
          rw [aux_cons, aux_cons]
          simp only [h1', hc, Bool.false_eq_true, if_false, List.nil_append]
          rw [aux_cons]
          simp [hx, aux_nil, consHead]
        · obtain ⟨E, hE, h⟩ := ih false
          refine ⟨E, hE, ?_⟩
          rw [aux_cons, aux_cons]
          simp only [h1', hc, Bool.false_eq_true, if_false]
          rw [h, List.append_assoc, consHead_append _ _ _ (aux_ne_nil brk cs hcs), List.append_assoc]

theorem filterMap_E (ws : Nat → Bool) (parse : List Nat → Except ε α) (E : List (List Nat)) (hE : E = [] ∨ E = [[]]) :
    E.filterMap (objOf ws parse) = [] := by
  rcases hE with rfl | rfl
  · rfl
  · simp [objOf_nil]

/-- hence the objects of a content are those of the part before a line break followed by those of
    the part from the line break on -/
theorem filterMap_cut_at_break (ws : Nat → Bool) (parse : List Nat → Except ε α) (a : List Nat) (x : Nat) (b' : List Nat)
    (hx : bytesBreak x = true) :
    (bytesSplitlines (a ++ x :: b')).filterMap (objOf ws parse) =
      (bytesSplitlines a).filterMap (objOf ws parse) ++ (bytesSplitlines (x :: b')).filterMap (objOf ws parse) := by
  unfold bytesSplitlines
  obtain ⟨E, hE, h⟩ := aux_cut_at_break bytesBreak x b' hx a false
  rw [h]
  have h2 : splitlinesAux bytesBreak false (x :: b') = [] :: splitlinesAux bytesBreak (x == 13) b' := by
    rw [aux_cons]; simp [hx]
  rw [h2]
  simp [List.filterMap_append, filterMap_E ws parse E hE, objOf_nil]

theorem firstBreak_spec (s : List Nat) (i : Nat) (h : firstBreak s = some i) :
    (∃ x b', s.drop i = x :: b' ∧ bytesBreak x = true) ∧ NoBrk bytesBreak (s.take i) := by
  induction s generalizing i with
  | nil => simp [firstBreak] at h
  | cons c cs ih =>
    rw [firstBreak] at h
    by_cases hc : bytesBreak c = true
    · simp only [hc, if_true, Option.some.injEq] at h
      subst h
      exact ⟨⟨c, cs, rfl, hc⟩, fun _ hd => by simp at hd⟩
    · have hc' : bytesBreak c = false := by simpa using hc
      simp only [hc', Bool.false_eq_true, if_false] at h
      cases hj : firstBreak cs with
      | none => rw [hj] at h; simp at h
      | some j =>
      rw [hj] at h
      simp only [Option.map_some, Option.some.injEq] at h
      subst h
      obtain ⟨h1, h2⟩ := ih j hj
      refine ⟨by simpa using h1, ?_⟩
      intro d hd
      simp only [List.take_succ_cons, List.mem_cons] at hd
      rcases hd with rfl | hd
      · simpa using hc
      · exact h2 d hd

/-! ### Part H: decoding commutes with splitting (text mode) -/

theorem decodeG_cons (sp : Bool) (b : Nat) (rest : List Nat) :
    decodeG sp (b :: rest) =
    if b < 128 then (decodeG sp rest).map (b :: ·)
    else if (194 ≤ b && b ≤ 223) = true then
      match rest with
      | c1 :: r =>
        if isCont c1 then (decodeG sp r).map (((b - 192) * 64 + (c1 - 128)) :: ·) else none
      | _ => none
    else if (224 ≤ b && b ≤ 239) = true then
      match rest with
      | c1 :: c2 :: r =>
        if isCont c1 && isCont c2 && (b != 224 || 160 ≤ c1) && (b != 237 || sp || c1 ≤ 159) then
          (decodeG sp r).map (((b - 224) * 4096 + (c1 - 128) * 64 + (c2 - 128)) :: ·)
        else none
      | _ => none
    else if (240 ≤ b && b ≤ 244) = true then
      match rest with
      | c1 :: c2 :: c3 :: r =>
        if isCont c1 && isCont c2 && isCont c3 && (b != 240 || 144 ≤ c1) && (b != 244 || c1 ≤ 143) then
          (decodeG sp r).map (((b - 240) * 262144 + (c1 - 128) * 4096 + (c2 - 128) * 64 + (c3 - 128)) :: ·)
        else none
      | _ => none
    else none := by
  rw [decodeG.eq_def]
  all_goals rfl

/-- what decoding `a ++ x :: b` gives when `x` is an ASCII byte -/
def glue (x : Nat) (a b : Option (List Nat)) : Option (List Nat) :=
  match a, b with
  | some a', some b' => some (a' ++ x :: b')
  | _, _ => none

theorem glue_map_left (x c : Nat) (a b : Option (List Nat)) :
    (glue x a b).map (c :: ·) = glue x (a.map (c :: ·)) b := by
  cases a <;> cases b <;> simp [glue]

theorem decodeG_ascii_cons (sp : Bool) (x : Nat) (hx : x < 128) (b : List Nat) :
    decodeG sp (x :: b) = (decodeG sp b).map (x :: ·) := by
  rw [decodeG_cons]; simp [hx]

theorem glue_none_left (x : Nat) (b : Option (List Nat)) : glue x none b = none := by
  cases b <;> rfl

/-- decoding commutes with cutting at an ASCII byte -/
theorem decodeG_split (sp : Bool) (n : Nat) : ∀ a : List Nat, a.length ≤ n → ∀ (x : Nat) (b : List Nat),
    x < 128 → decodeG sp (a ++ x :: b) = glue x (decodeG sp a) (decodeG sp b) := by
  induction n with
  | zero =>
    intro a ha x b hx
    have : a = [] := List.length_eq_zero_iff.mp (by omega)
    subst this
    rw [List.nil_append, decodeG_ascii_cons sp x hx]
    cases decodeG sp b <;> simp [glue, decodeG]
  | succ n ih =>
    intro a ha x b hx
    have hcx := isCont_ascii x hx
    match a, ha with
    | [], _ =>
      rw [List.nil_append, decodeG_ascii_cons sp x hx]
      cases decodeG sp b <;> simp [glue, decodeG]
    | h0 :: t, ha =>
      simp only [List.cons_append]
      rw [decodeG_cons, decodeG_cons sp h0 t]
      by_cases c1 : h0 < 128
      · simp only [c1, if_true]
        rw [ih t (by simp at ha; omega) x b hx, glue_map_left]
      · simp only [c1, if_false]
        by_cases c2 : (194 ≤ h0 && h0 ≤ 223) = true
        · simp only [c2, if_true]
          match t, ha with
          | [], _ => simp [hcx, glue_none_left]
          | d1 :: t', ha =>
            simp only [List.cons_append]
            by_cases k : isCont d1 = true
            · simp only [k, if_true]
              rw [ih t' (by simp at ha; omega) x b hx, glue_map_left]
            · simp [k, glue_none_left]
        · simp only [c2, Bool.false_eq_true, if_false]
          by_cases c3 : (224 ≤ h0 && h0 ≤ 239) = true
          · simp only [c3, if_true]
            match t, ha with
            | [], _ => cases b <;> simp [hcx, glue_none_left]
            | [d1], _ => simp [hcx, glue_none_left]
            | d1 :: d2 :: t', ha =>
              simp only [List.cons_append]
              split
              · rw [ih t' (by simp at ha; omega) x b hx, glue_map_left]
              · simp [glue_none_left]
          · simp only [c3, Bool.false_eq_true, if_false]
            by_cases c4 : (240 ≤ h0 && h0 ≤ 244) = true
            · simp only [c4, if_true]
              match t, ha with
              | [], _ => rcases b with _ | ⟨_, _ | ⟨_, _⟩⟩ <;> simp [hcx, glue_none_left]
              | [d1], _ => cases b <;> simp [hcx, glue_none_left]
              | [d1, d2], _ => simp [hcx, glue_none_left]
              | d1 :: d2 :: d3 :: t', ha =>
                simp only [List.cons_append]
                split
                · rw [ih t' (by simp at ha; omega) x b hx, glue_map_left]
                · simp [glue_none_left]
            · simp [c4, glue_none_left]

/-- one decoding step: the first code point is the first byte if that is ASCII, and otherwise is
    ≥ 128 and uses up that byte and `k ≥ 1` more bytes, all ≥ 128 -/
theorem decodeG_step (sp : Bool) (h : Nat) (r l' : List Nat) (hd : decodeG sp (h :: r) = some l') :
    ∃ cp l'', l' = cp :: l'' ∧
      ((h < 128 ∧ cp = h ∧ decodeG sp r = some l'') ∨
       (128 ≤ h ∧ 128 ≤ cp ∧ ∃ k, 1 ≤ k ∧ k ≤ r.length ∧ decodeG sp (r.drop k) = some l'' ∧
          ∀ c ∈ r.take k, 128 ≤ c)) := by
  rw [decodeG_cons] at hd
  by_cases c1 : h < 128
  · simp only [c1, if_true, Option.map_eq_some_iff] at hd
    obtain ⟨l'', h1, h2⟩ := hd
    exact ⟨h, l'', h2.symm, Or.inl ⟨c1, rfl, h1⟩⟩
  · simp only [c1, if_false] at hd
    by_cases c2 : (194 ≤ h && h ≤ 223) = true
    · simp only [c2, if_true] at hd
      rcases r with _ | ⟨d1, r'⟩
      · simp at hd
      · simp only [] at hd
        by_cases k : isCont d1 = true
        · simp only [k, if_true, Option.map_eq_some_iff] at hd
          obtain ⟨l'', h1, h2⟩ := hd
          simp [isCont] at k c2
          refine ⟨_, l'', h2.symm, Or.inr ⟨by omega, by omega, 1, by omega, by simp, by simpa using h1, ?_⟩⟩
          intro c hc; simp at hc; omega
        · simp [k] at hd
    · simp only [c2, Bool.false_eq_true, if_false] at hd
      by_cases c3 : (224 ≤ h && h ≤ 239) = true
      · simp only [c3, if_true] at hd
        rcases r with _ | ⟨d1, _ | ⟨d2, r'⟩⟩
        · simp at hd
        · simp at hd
        · simp only [] at hd
          by_cases k : (isCont d1 && isCont d2 && (h != 224 || decide (160 ≤ d1)) && (h != 237 || sp || decide (d1 ≤ 159))) = true
          · simp only [k, if_true, Option.map_eq_some_iff] at hd
            obtain ⟨l'', h1, h2⟩ := hd
            simp [isCont] at k c3
            refine ⟨_, l'', h2.symm, Or.inr ⟨by omega, ?_, 2, by omega, by simp, by simpa using h1, ?_⟩⟩
            · rcases k.1.2 with k2 | k2 <;> omega
            · intro c hc; simp at hc; rcases hc with rfl | rfl <;> omega
          · simp [k] at hd
      · simp only [c3, Bool.false_eq_true, if_false] at hd
        by_cases c4 : (240 ≤ h && h ≤ 244) = true
        · simp only [c4, if_true] at hd
          rcases r with _ | ⟨d1, _ | ⟨d2, _ | ⟨d3, r'⟩⟩⟩
          · simp at hd
          · simp at hd
          · simp at hd
          · simp only [] at hd
            by_cases k : (isCont d1 && isCont d2 && isCont d3 && (h != 240 || decide (144 ≤ d1)) && (h != 244 || decide (d1 ≤ 143))) = true
            · simp only [k, if_true, Option.map_eq_some_iff] at hd
              obtain ⟨l'', h1, h2⟩ := hd
              simp [isCont] at k c4
              refine ⟨_, l'', h2.symm, Or.inr ⟨by omega, ?_, 3, by omega, by simp, by simpa using h1, ?_⟩⟩
              · rcases k.1.2 with k2 | k2 <;> omega
              · intro c hc; simp at hc; rcases hc with rfl | rfl | rfl <;> omega
            · simp [k] at hd
        · simp [c4] at hd

theorem decodeG_nil (sp : Bool) : decodeG sp [] = some [] := by simp [decodeG]

theorem bytesBreak_lt (x : Nat) (h : bytesBreak x = true) : x < 128 := by
  simp [bytesBreak] at h; omega

theorem bytesBreak_ge (x : Nat) (h : 128 ≤ x) : bytesBreak x = false := by
  simp [bytesBreak]; omega

/-- an ASCII character at the head of the decoded text was the first byte -/
theorem decodeG_head (sp : Bool) (b b' : List Nat) (hd : decodeG sp b = some b') (x : Nat) (hx : x < 128)
    (hh : b'.head? = some x) : b.head? = some x := by
  cases b with
  | nil => rw [decodeG_nil] at hd; cases hd; simp at hh
  | cons h r =>
    obtain ⟨cp, l'', rfl, hc⟩ := decodeG_step sp h r b' hd
    simp at hh
    subst hh
    rcases hc with ⟨_, h2, _⟩ | ⟨_, h2, _⟩
    · simp [h2]
    · omega

theorem decodeG_ne_nil (sp : Bool) (b b' : List Nat) (hd : decodeG sp b = some b') (hb : b ≠ []) : b' ≠ [] := by
  cases b with
  | nil => exact absurd rfl hb
  | cons h r =>
    obtain ⟨cp, l'', rfl, _⟩ := decodeG_step sp h r b' hd
    simp

/-- decoding keeps a break-free byte string break-free, and the "ends with LF" test unchanged -/
theorem decodeG_noBrk_last (sp : Bool) (n : Nat) : ∀ l : List Nat, l.length ≤ n → ∀ l', decodeG sp l = some l' →
    (NoBrk bytesBreak l → NoBrk bytesBreak l') ∧ endsNL l' = endsNL l := by
  induction n with
  | zero =>
    intro l hl l' hd
    have : l = [] := List.length_eq_zero_iff.mp (by omega)
    subst this
    rw [decodeG_nil] at hd; cases hd
    exact ⟨fun h => h, rfl⟩
  | succ n ih =>
    intro l hl l' hd
    cases l with
    | nil => rw [decodeG_nil] at hd; cases hd; exact ⟨fun h => h, rfl⟩
    | cons h r =>
      obtain ⟨cp, l'', rfl, hc⟩ := decodeG_step sp h r l' hd
      rcases hc with ⟨h1, rfl, h3⟩ | ⟨h1, h2, k, k1, k2, h3, h4⟩
      · obtain ⟨i1, i2⟩ := ih r (by simp at hl; omega) l'' h3
        refine ⟨?_, ?_⟩
        · intro hn d hd'
          rcases List.mem_cons.mp hd' with rfl | hd'
          · exact hn _ (by simp)
          · exact i1 (fun e he => hn e (by simp [he])) d hd'
        · by_cases hr : r = []
          · subst hr
            rw [decodeG_nil] at h3; cases h3; rfl
          · have hl'' : l'' ≠ [] := decodeG_ne_nil sp r l'' h3 hr
            unfold endsNL
            rw [show cp :: l'' = [cp] ++ l'' from rfl, lastIs_append _ _ _ hl'',
              show cp :: r = [cp] ++ r from rfl, lastIs_append _ _ _ hr]
            exact i2
      · have hlen : (r.drop k).length ≤ n := by simp at hl ⊢; omega
        obtain ⟨i1, i2⟩ := ih (r.drop k) hlen l'' h3
        refine ⟨?_, ?_⟩
        · intro hn d hd'
          rcases List.mem_cons.mp hd' with rfl | hd'
          · exact bytesBreak_ge _ h2
          · exact i1 (fun e he => hn e (by simp [List.mem_of_mem_drop he])) d hd'
        · have hsplit : h :: r = (h :: r.take k) ++ r.drop k := by simp
          by_cases hr : r.drop k = []
          · rw [hr, decodeG_nil] at h3; cases h3
            have hall : ∀ c ∈ h :: r, isNL c = false := by
              intro c hc
              have : 128 ≤ c := by
                rcases List.mem_cons.mp hc with rfl | hc
                · exact h1
                · have : r = r.take k := by
                    have := List.take_append_drop k r
                    rw [hr, List.append_nil] at this; exact this.symm
                  rw [this] at hc; exact h4 c hc
              simp [isNL]; omega
            unfold endsNL
            rw [lastIs_false_of_all _ _ hall]
            simp [lastIs, isNL]; omega
          · have hl'' : l'' ≠ [] := decodeG_ne_nil sp _ l'' h3 hr
            unfold endsNL
            rw [show cp :: l'' = [cp] ++ l'' from rfl, lastIs_append _ _ _ hl'', hsplit,
              lastIs_append _ _ _ hr]
            exact i2

/-- a break-free line followed by a break character is the first line of the split -/
theorem aux_line_brk (brk : Nat → Bool) (x : Nat) (hx : brk x = true) (l R : List Nat) (hl : NoBrk brk l) :
    splitlinesAux brk false (l ++ x :: R) = l :: splitlinesAux brk (x == 13) R := by
  induction l with
  | nil =>
    simp only [List.nil_append]
    rw [aux_cons]
    simp [hx]
  | cons c cs ih =>
    have hc : brk c = false := hl c (by simp)
    simp only [List.cons_append]
    rw [aux_cons, ih (fun d hd => hl d (by simp [hd]))]
    simp [hc, consHead]

theorem glue_eq_some (x : Nat) (a b : Option (List Nat)) (t : List Nat) (h : glue x a b = some t) :
    ∃ a' b', a = some a' ∧ b = some b' ∧ t = a' ++ x :: b' := by
  cases a <;> cases b <;> simp [glue] at h
  exact ⟨_, _, rfl, rfl, h.symm⟩

/-- DECODING COMMUTES WITH SPLITTING: the lines of the bytes, each decoded, are the lines of the
    decoded text -/
theorem decode_lines (sp : Bool) (n : Nat) : ∀ s : List Nat, s.length ≤ n → ∀ (f : Bool) (t : List Nat),
    decodeG sp s = some t →
    (splitlinesAux bytesBreak f s).map (decodeG sp) = (splitlinesAux bytesBreak f t).map some := by
  induction n with
  | zero =>
    intro s hs f t hd
    have : s = [] := List.length_eq_zero_iff.mp (by omega)
    subst this
    rw [decodeG_nil] at hd; cases hd
    simp [aux_nil]
  | succ n ih =>
    intro s hs f t hd
    have key : (splitlinesAux bytesBreak false s).map (decodeG sp) =
        (splitlinesAux bytesBreak false t).map some := by
      cases hsp : splitlinesAux bytesBreak false s with
      | nil =>
        have hs0 : s = [] := by
          by_cases hs0 : s = []
          · exact hs0
          · exact absurd hsp (aux_ne_nil _ s hs0)
        subst hs0
        rw [decodeG_nil] at hd; cases hd
        simp [aux_nil]
      | cons l0 rest =>
        have hn0 := (aux_first bytesBreak s l0 rest hsp).1
        rcases aux_first_decomp bytesBreak s l0 rest hsp with ⟨e1, e2⟩ | ⟨x, b2, e1, e2, e3⟩
        · subst e1 e2
          have hsne : s ≠ [] := by intro h; subst h; simp [aux_nil] at hsp
          have htne := decodeG_ne_nil sp s t hd hsne
          have hnt := (decodeG_noBrk_last sp s.length s (Nat.le_refl _) t hd).1 hn0
          rw [aux_noBrk bytesBreak bytesBreak_10 t htne hnt false]
          simp [hd]
        · have hxlt := bytesBreak_lt x e2
          rw [e1, decodeG_split sp l0.length l0 (Nat.le_refl _) x b2 hxlt] at hd
          obtain ⟨l0', b2', d1, d2, rfl⟩ := glue_eq_some _ _ _ _ hd
          have hnt := (decodeG_noBrk_last sp l0.length l0 (Nat.le_refl _) l0' d1).1 hn0
          rw [aux_line_brk bytesBreak x e2 l0' b2' hnt, e3]
          have hlen : b2.length ≤ n := by
            have := congrArg List.length e1
            simp at this
            omega
          simp [d1, ih b2 hlen (x == 13) b2' d2]
    cases s with
    | nil =>
      rw [decodeG_nil] at hd; cases hd
      simp [aux_nil]
    | cons c cs =>
      by_cases h1 : (f && c == 10) = true
      · have hc : c = 10 := by simp at h1; exact h1.2
        have hf : f = true := by simp at h1; exact h1.1
        subst hc hf
        rw [decodeG_ascii_cons sp 10 (by decide)] at hd
        simp only [Option.map_eq_some_iff] at hd
        obtain ⟨t', d1, rfl⟩ := hd
        rw [aux_cons, aux_cons]
        simp only [Bool.true_and, beq_self_eq_true, if_true]
        exact ih cs (by simp at hs; omega) false t' d1
      · have h1' : (f && c == 10) = false := by simpa using h1
        have e1 : splitlinesAux bytesBreak f (c :: cs) = splitlinesAux bytesBreak false (c :: cs) := by
          rw [aux_cons, aux_cons]; simp [h1']
        have e2 : splitlinesAux bytesBreak f t = splitlinesAux bytesBreak false t := by
          cases f with
          | false => rfl
          | true =>
            apply aux_flag_irrel
            intro hh
            have := decodeG_head sp (c :: cs) t hd 10 (by decide) hh
            simp at this
            simp [this] at h1'
        rw [e1, e2]
        exact key

/-! ### Part I: the per-call outcomes of `next()` -/

theorem outcomeOf_rel (ws : Nat → Bool) (parse : List Nat → Except ε α) (ig : Bool) (x y : List Nat) (h : Rel x y) :
    outcomeOf ws parse ig x = outcomeOf ws parse ig y := by
  simp [outcomeOf, lineNorm_rel ws x y h]

theorem outcomeOf_nil (ws : Nat → Bool) (parse : List Nat → Except ε α) (ig : Bool) : outcomeOf ws parse ig [] = none := by
  simp [outcomeOf, lineNorm_nil ws]

theorem filterMap_relG {β : Type} (g : List Nat → Option β) (hg : ∀ x y, Rel x y → g x = g y)
    (xs ys : List (List Nat)) (h : RelL xs ys) : xs.filterMap g = ys.filterMap g := by
  induction h with
  | nil => rfl
  | cons hxy _ ih => simp [List.filterMap_cons, hg _ _ hxy, ih]

theorem filterMap_fileLinesB'G {β : Type} (g : List Nat → Option β) (hg0 : g [] = none) (c : List Nat) :
    (fileLinesB' c).filterMap g = (fileLinesB c).filterMap g := by
  unfold fileLinesB'
  split <;> simp [List.filterMap_append, hg0]

theorem filterMap_linesOfG {β : Type} (g : List Nat → Option β) (hg0 : g [] = none) (c : List Nat) :
    (linesOf c).filterMap g = (bytesSplitlines c).filterMap g := by
  unfold linesOf
  split <;> simp [List.filterMap_append, hg0]

theorem consume_eq_untilError (ws : Nat → Bool) (parse : List Nat → Except ε α) (ig : Bool) (ls : List (List Nat)) :
    consume ws parse ig ls = untilError (outcomes ws parse ig ls) := by
  induction ls with
  | nil => simp [consume, outcomes, untilError]
  | cons l ls ih =>
    rw [consume]
    unfold outcomes at ih ⊢
    by_cases hb : lineNorm ws l = []
    · simp [hb, ih, outcomeOf]
    · cases hp : parse (lineNorm ws l) with
      | ok v => simp [hb, hp, ih, outcomeOf, untilError]
      | error e =>
        cases ig with
        | true => simp [hb, hp, ih, outcomeOf]
        | false => simp [hb, hp, outcomeOf, untilError]

/-! ### Part J: `cur_byte_pos` in forward mode -/

theorem consumePos_length (ws : Nat → Bool) (parse : List Nat → Except ε α) (ig : Bool) (p : Nat) (ls : List (List Nat)) :
    (consumePos ws parse ig p ls).length = (consume ws parse ig ls).1.length := by
  induction ls generalizing p with
  | nil => simp [consumePos, consume]
  | cons l ls ih =>
    rw [consumePos, consume]
    by_cases hb : lineNorm ws l = []
    · simp [hb, ih]
    · cases hp : parse (lineNorm ws l) with
      | ok v => simp [hb, ih]
      | error e => cases ig <;> simp [hb, ih]

/-- first line of a binary file and the rest -/
theorem fileLinesB_decomp (s : List Nat) (hs : s ≠ []) :
    ∃ l1 s', fileLinesB s = l1 :: fileLinesB s' ∧ s = l1 ++ s' ∧ l1 ≠ [] ∧ (endsNL l1 = true ∨ s' = []) := by
  induction s with
  | nil => exact absurd rfl hs
  | cons c cs ih =>
    by_cases hc : c = 10
    · subst hc
      exact ⟨[10], cs, by simp [fileLinesB], rfl, by simp, Or.inl (by decide)⟩
    · by_cases hcs : cs = []
      · subst hcs
        exact ⟨[c], [], by simp [fileLinesB, hc, consHead], rfl, by simp, Or.inr rfl⟩
      · obtain ⟨l1, s', h1, h2, h3, h4⟩ := ih hcs
        refine ⟨c :: l1, s', ?_, by rw [h2]; rfl, by simp, ?_⟩
        · rw [fileLinesB]; simp [hc, h1, consHead]
        · rcases h4 with h4 | h4
          · left
            unfold endsNL at h4 ⊢
            rw [show c :: l1 = [c] ++ l1 from rfl, lastIs_append _ _ _ h3]; exact h4
          · exact Or.inr h4

theorem fileLinesB_nil : fileLinesB [] = [] := by simp [fileLinesB]

/-- positions reported for the lines of `s`, which starts at offset `pre.length` of `pre ++ s`:
    each lies after the start, within the file, at the end of a line -/
theorem consumePos_spec (ws : Nat → Bool) (parse : List Nat → Except ε α) (ig : Bool) (n : Nat) :
    ∀ (pre s : List Nat), s.length ≤ n →
      List.Pairwise (· < ·) (consumePos ws parse ig pre.length (fileLinesB s)) ∧
      ∀ q ∈ consumePos ws parse ig pre.length (fileLinesB s),
        pre.length < q ∧ q ≤ (pre ++ s).length ∧
        (q = (pre ++ s).length ∨ endsNL ((pre ++ s).take q) = true) := by
  induction n with
  | zero =>
    intro pre s hs
    have : s = [] := List.length_eq_zero_iff.mp (by omega)
    subst this
    simp [fileLinesB_nil, consumePos]
  | succ n ih =>
    intro pre s hs
    by_cases hs0 : s = []
    · subst hs0; simp [fileLinesB_nil, consumePos]
    · obtain ⟨l1, s', h1, h2, h3, h4⟩ := fileLinesB_decomp s hs0
      have hl1 : 0 < l1.length := List.length_pos_iff.mpr h3
      have hlen : s'.length ≤ n := by
        have := congrArg List.length h2; simp at this; omega
      obtain ⟨i1, i2⟩ := ih (pre ++ l1) s' hlen
      have hpl : (pre ++ l1).length = pre.length + l1.length := by simp
      rw [hpl] at i1 i2
      have hcat : pre ++ l1 ++ s' = pre ++ s := by rw [h2]; simp
      rw [hcat] at i2
      -- the position right after the first line
      have hq0 : pre.length < pre.length + l1.length ∧ pre.length + l1.length ≤ (pre ++ s).length ∧
          (pre.length + l1.length = (pre ++ s).length ∨
            endsNL ((pre ++ s).take (pre.length + l1.length)) = true) := by
        refine ⟨by omega, by rw [h2]; simp, ?_⟩
        rcases h4 with h4 | h4
        · right
          have : (pre ++ s).take (pre.length + l1.length) = pre ++ l1 := by
            rw [← hcat, ← hpl, List.take_left']
            rfl
          rw [this]
          unfold endsNL at h4 ⊢
          rw [lastIs_append _ _ _ h3]; exact h4
        · left; rw [h2, h4]; simp
      have tail_ok : ∀ q ∈ consumePos ws parse ig (pre.length + l1.length) (fileLinesB s'),
          pre.length < q ∧ q ≤ (pre ++ s).length ∧
          (q = (pre ++ s).length ∨ endsNL ((pre ++ s).take q) = true) := by
        intro q hq
        obtain ⟨a, b, c⟩ := i2 q hq
        exact ⟨by omega, b, c⟩
      rw [h1, consumePos]
      by_cases hb : lineNorm ws l1 = []
      · simp only [hb, if_true]
        exact ⟨i1, tail_ok⟩
      · simp only [hb, if_false]
        cases hp : parse (lineNorm ws l1) with
        | ok v =>
          simp only []
          refine ⟨List.pairwise_cons.mpr ⟨fun q hq => (i2 q hq).1, i1⟩, ?_⟩
          intro q hq
          rcases List.mem_cons.mp hq with rfl | hq
          · exact hq0
          · exact tail_ok q hq
        | error e =>
          simp only []
          cases ig with
          | true => simp only [if_true]; exact ⟨i1, tail_ok⟩
          | false => simp

/-! ### Part K: the separated lines re-join to the content -/

theorem joinWith_consHead (sep : List Nat) (c : Nat) (x : List (List Nat)) (hx : x ≠ []) :
    joinWith sep (consHead c x) = c :: joinWith sep x := by
  match x, hx with
  | [l], _ => simp [consHead, joinWith]
  | l :: l' :: ls, _ => simp [consHead, joinWith]

theorem sepLines_ne_nil (c : List Nat) : sepLines c ≠ [] := by
  induction c using sepLines.induct with
  | case1 => simp [sepLines]
  | case2 => simp [sepLines]
  | case3 c h => simp [sepLines, h]
  | case4 c d cs h _ => simp [sepLines, h]
  | case5 d cs _ _ => simp [sepLines]
  | case6 c d cs h1 h2 _ => simp [sepLines, h1, h2]; exact consHead_ne_nil _ _

/-- nothing lost, nothing invented: for a content without CR the LF-separated lines, joined by LF
    again, are the content -/
theorem sepLines_rejoin (c : List Nat) (h : ∀ x ∈ c, x ≠ 13) : joinWith [10] (sepLines c) = c := by
  induction c using sepLines.induct with
  | case1 => simp [sepLines, joinWith]
  | case2 => simp [sepLines, joinWith]
  | case3 c hc => simp [sepLines, hc, joinWith]
  | case4 c d cs hcd _ => exact absurd hcd.1 (h c (by simp))
  | case5 d cs _ ih =>
    have ih := ih (fun x hx => h x (by simp [hx]))
    cases hs : sepLines (d :: cs) with
    | nil => exact absurd hs (sepLines_ne_nil _)
    | cons l ls =>
      rw [hs] at ih
      simp [sepLines, hs, joinWith, ih]
  | case6 c d cs hcd h10 ih =>
    have ih := ih (fun x hx => h x (by simp [hx]))
    simp only [sepLines, hcd, h10, if_false]
    rw [joinWith_consHead _ _ _ (sepLines_ne_nil _), ih]

theorem noLoneCR_of_noCR (c : List Nat) (h : ∀ x ∈ c, x ≠ 13) : noLoneCR c = true := by
  induction c using noLoneCR.induct with
  | case1 => rfl
  | case2 c => simpa [noLoneCR] using h c (by simp)
  | case3 c d cs ih =>
    have h1 : c ≠ 13 := h c (by simp)
    simp [noLoneCR, h1, ih (fun x hx => h x (by simp [hx]))]

theorem firstBreak_none (s : List Nat) (h : firstBreak s = none) : ∀ x ∈ s, bytesBreak x = false := by
  induction s with
  | nil => intro x hx; cases hx
  | cons c cs ih =>
    rw [firstBreak] at h
    by_cases hc : bytesBreak c = true
    · simp [hc] at h
    · have hc' : bytesBreak c = false := by simpa using hc
      simp only [hc', Bool.false_eq_true, if_false] at h
      cases hj : firstBreak cs with
      | some j => rw [hj] at h; simp at h
      | none =>
        intro x hx
        rcases List.mem_cons.mp hx with rfl | hx
        · exact hc'
        · exact ih hj x hx

/-! ### Part L: single-byte codecs (latin-1, cp1252 …) commute with the split -/

theorem consHead_map (g : Nat → Nat) (c : Nat) (x : List (List Nat)) :
    (consHead c x).map (·.map g) = consHead (g c) (x.map (·.map g)) := by
  cases x <;> simp [consHead]

/-- a character-by-character decoding `g` that keeps LF, CR and "is a break" commutes with splitlines -/
theorem aux_map (brk : Nat → Bool) (g : Nat → Nat) (hb : ∀ c, brk (g c) = brk c)
    (h10 : ∀ c, (g c == 10) = (c == 10)) (h13 : ∀ c, (g c == 13) = (c == 13)) (f : Bool) (s : List Nat) :
    splitlinesAux brk f (s.map g) = (splitlinesAux brk f s).map (·.map g) := by
  induction s generalizing f with
  | nil => simp [aux_nil]
  | cons c cs ih =>
    simp only [List.map_cons]
    rw [aux_cons, aux_cons, h10, h13, hb]
    by_cases h1 : (f && c == 10) = true
    · simp only [h1, if_true]; exact ih false
    · have h1' : (f && c == 10) = false := by simpa using h1
      simp only [h1', Bool.false_eq_true, if_false]
      by_cases hc : brk c = true
      · simp only [hc, if_true, List.map_cons, List.map_nil]
        rw [ih]
      · have hc' : brk c = false := by simpa using hc
        simp only [hc', Bool.false_eq_true, if_false]
        rw [ih, consHead_map]

theorem lastIs_map (p : Nat → Bool) (g : Nat → Nat) (hp : ∀ c, p (g c) = p c) (l : List Nat) :
    lastIs p (l.map g) = lastIs p l := by
  induction l with
  | nil => rfl
  | cons c cs ih =>
    cases cs with
    | nil => simp [lastIs, hp]
    | cons d ds =>
      simp only [List.map_cons] at ih ⊢
      have e1 : lastIs p (g c :: g d :: List.map g ds) = lastIs p (g d :: List.map g ds) := by
        simp [lastIs]
      have e2 : lastIs p (c :: d :: ds) = lastIs p (d :: ds) := by
        simp [lastIs]
      rw [e1, e2]; exact ih

/-! ### Part R5: size families (a run of any length then a break) and the last yielded item -/

theorem eight_run (n a : Nat) (s : List Nat) (ha : lineBreakChar a = false) :
    splitlinesAux lineBreakChar false (List.replicate n a ++ s) =
      if n = 0 then splitlinesAux lineBreakChar false s
      else consHead a (splitlinesAux lineBreakChar false (List.replicate (n - 1) a ++ s)) := by
  cases n with
  | zero => simp
  | succ n =>
    have h10 : (a == 10) = false := by
      cases h : a == 10
      · rfl
      · have : a = 10 := by simpa using h
        subst this; simp [lineBreakChar] at ha
    simp [List.replicate_succ, aux_cons, ha]

theorem run_then_break_eight (n a : Nat) (sep : List Nat) (ha : lineBreakChar a = false)
    (hs : sep ∈ [[13, 10], [10], [11], [12], [13], [133], [8232], [8233]]) :
    eightSplitlines (List.replicate n a ++ sep) = [List.replicate n a] := by
  unfold eightSplitlines
  induction n with
  | zero =>
    simp only [List.replicate_zero, List.nil_append]
    simp only [List.mem_cons, List.not_mem_nil, or_false] at hs
    rcases hs with h | h | h | h | h | h | h | h <;> subst h <;> decide
  | succ n ih =>
    rw [eight_run (n + 1) a sep ha]
    simp [ih, consHead, List.replicate_succ]

theorem endsWithBreak_of_form (p sep : List Nat)
    (hs : sep ∈ [[13, 10], [10], [11], [12], [13], [133], [8232], [8233]]) :
    endsWithBreak (p ++ sep) = true := by
  have hne : sep ≠ [] := by
    intro h; subst h; simp at hs
  unfold endsWithBreak
  rw [lastIs_append _ _ _ hne]
  simp only [List.mem_cons, List.not_mem_nil, or_false] at hs
  rcases hs with h | h | h | h | h | h | h | h <;> subst h <;> decide

theorem lastIs_cons_cons (p : Nat → Bool) (c d : Nat) (ds : List Nat) :
    lastIs p (c :: d :: ds) = lastIs p (d :: ds) := by simp [lastIs]

theorem getLast?_consHead_ne (c : Nat) (x : List (List Nat))
    (h : ∀ l, x.getLast? = some l → l ≠ []) : ∀ l, (consHead c x).getLast? = some l → l ≠ [] := by
  intro l hl
  match x, h with
  | [], _ => simp [consHead] at hl; subst hl; simp
  | [l0], _ => simp [consHead] at hl; subst hl; simp
  | l0 :: l1 :: ls, h =>
    simp only [consHead] at hl
    rw [List.getLast?_cons_cons] at hl
    exact h l (by rw [List.getLast?_cons_cons]; exact hl)

/-- when the text does not end with a break, the last line of `splitlines` is not empty -/
theorem aux_last_nonempty (brk : Nat → Bool) (hb10 : brk 10 = true) (s : List Nat) :
    ∀ f, lastIs brk s = false → ∀ l, (splitlinesAux brk f s).getLast? = some l → l ≠ [] := by
  induction s with
  | nil => intro f _ l hl; simp [aux_nil] at hl
  | cons c cs ih =>
    intro f hlast l hl
    rw [aux_cons] at hl
    have hcs : cs ≠ [] → lastIs brk cs = false := by
      intro hne
      match cs, hne with
      | d :: ds, _ => rw [lastIs_cons_cons] at hlast; exact hlast
    by_cases h1 : (f && c == 10) = true
    · simp only [h1, if_true] at hl
      by_cases hne : cs = []
      · subst hne; simp [aux_nil] at hl
      · exact ih false (hcs hne) l hl
    · have h1' : (f && c == 10) = false := by simpa using h1
      simp only [h1', Bool.false_eq_true, if_false] at hl
      by_cases hb : brk c = true
      · simp only [hb, if_true] at hl
        by_cases hne : cs = []
        · subst hne; simp [lastIs, hb] at hlast
        · have hx : splitlinesAux brk (c == 13) cs ≠ [] := by
            intro hx
            rcases aux_eq_nil brk _ cs hx with h | ⟨_, h⟩
            · exact hne h
            · subst h; simp [lastIs, hb10] at hcs
          match hX : splitlinesAux brk (c == 13) cs, hx with
          | x0 :: xs, _ =>
            rw [hX, List.getLast?_cons_cons] at hl
            exact ih (c == 13) (hcs hne) l (by rw [hX]; exact hl)
      · simp only [hb] at hl
        by_cases hne : cs = []
        · subst hne; simp [aux_nil, consHead] at hl; subst hl; simp
        · exact getLast?_consHead_ne c _ (ih false (hcs hne)) l hl

end C19
