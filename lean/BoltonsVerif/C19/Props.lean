import BoltonsVerif.C19.Proofs
/-
C19 — property theorems for the line readers (statements, short derivations from
`Proofs.lean`, non-vacuity examples).

Texts / contents are `List Nat` (code points / bytes; 10 = LF, 13 = CR).  Everything is
for ALL texts, contents and block sizes ≥ 1.  `json.loads` is an ARBITRARY function `parse`
(no assumption on it: since the `fix:` that strips the line break before decoding, both directions
hand it the same bytes).
-/
namespace C19

/-! ## the translator-generated table -/

/-- the alternatives of `_line_ending_re` (regenerated from the source on every run) are, as a set,
    exactly the eight line breaks of the statement, and CR LF is tried before CR (so that CR LF is
    one break).  All theorems below are proved about whatever the regenerated table contains. -/
theorem lineEndings_denote :
    (∀ a ∈ Generated.lineEndings, a ∈ [[13, 10], [10], [11], [12], [13], [133], [8232], [8233]]) ∧
    (∀ a ∈ [[13, 10], [10], [11], [12], [13], [133], [8232], [8233]], a ∈ Generated.lineEndings) ∧
    Generated.lineEndings.idxOf [13, 10] < Generated.lineEndings.idxOf [13] := by decide

theorem lineEndings_eq_E : Generated.lineEndings = E := rfl

/-- the two byte sets `JSONLIterator.next` strips from a line (regenerated on every run by running
    the current code with `json.loads` replaced by a recorder): the end set contains LF and CR — all
    the JSONL theorems need — and the front set contains space and tab (blank lines) -/
theorem stripSets_denote :
    10 ∈ Generated.rstripSet ∧ 13 ∈ Generated.rstripSet ∧
    32 ∈ Generated.lstripSet ∧ 9 ∈ Generated.lstripSet ∧
    32 ∈ Generated.lstripSetT ∧ 9 ∈ Generated.lstripSetT := by decide

/-- the break sets the SPEC side uses (`strBreak` for `str.splitlines`, `bytesBreak` for
    `bytes.splitlines`) are the ones of the running interpreter: the two tables are regenerated on
    every run by evaluating `splitlines` on every code point / byte value -/
theorem pySplit_tables :
    (∀ c, strBreak c = Generated.strBreakSet.contains c) ∧
    (∀ c, bytesBreak c = Generated.bytesBreakSet.contains c) := by
  constructor <;> intro c <;> rw [Bool.eq_iff_iff] <;>
    simp [strBreak, bytesBreak, Generated.strBreakSet, Generated.bytesBreakSet, or_assoc]

/-! ## iter_splitlines -/

/-- for EVERY text: `iter_splitlines(t)` is the `splitlines` algorithm run with exactly the eight
    forms of the statement as line breaks (CR LF counting as one), plus one final empty string
    when `t` ends with a line break — it splits there and nowhere else -/
theorem splitlines_eight_forms (t : List Nat) :
    iterSplitlines t = eightSplitlines t ++ (if endsWithBreak t then [[]] else []) := by
  unfold iterSplitlines iterPieces
  rw [lineEndings_eq_E]
  exact scan_lines t.length t (Nat.le_refl _)

/-- hence `iter_splitlines(t)` yields exactly `str.splitlines(t)`, plus one final empty string when
    `t` ends with a line break — for every text whose line breaks are the eight forms, i.e.
    without U+001C..U+001E, which `str.splitlines` alone honours -/
theorem splitlines_spec (t : List Nat) (h : ∀ c ∈ t, isFS c = false) :
    iterSplitlines t = pySplitlines t ++ (if endsWithBreak t then [[]] else []) := by
  rw [splitlines_eight_forms, pySplitlines_eq_eight t h]

/-- nothing is lost or invented: the yielded lines, each followed by the line ending that was
    matched after it, concatenate to the text -/
theorem pieces_rejoin (t : List Nat) : (iterPieces t).flatMap (fun p => p.1 ++ p.2) = t := by
  unfold iterPieces
  rw [lineEndings_eq_E]
  exact (scan_pieces t.length t (Nat.le_refl _)).1

/-- it never splits anywhere else, and splits at every break: what separates two yielded lines is
    one of the eight line endings, and no yielded line contains a line-break character -/
theorem no_other_splits (t : List Nat) :
    ∀ p ∈ iterPieces t, (∀ c ∈ p.1, lineBreakChar c = false) ∧
      (p.2 = [] ∨ p.2 ∈ Generated.lineEndings) := by
  unfold iterPieces
  rw [lineEndings_eq_E]
  exact (scan_pieces t.length t (Nat.le_refl _)).2

/-- in particular a non-empty text without line-break characters comes back as one line -/
theorem no_break_one_line (t : List Nat) (hne : t ≠ []) (h : ∀ c ∈ t, lineBreakChar c = false) :
    iterSplitlines t = [t] := by
  unfold iterSplitlines iterPieces
  rw [lineEndings_eq_E, scan_none _ _ _ (splitFirst_none_of t h)]
  simp [hne]

/-! ## indent (the other user of the scan) -/

/-- `iter_splitlines` never yields a lone empty string: the empty text has no lines, every other
    text has a non-empty line or at least two lines -/
theorem splitlines_ne_single_empty (t : List Nat) : iterSplitlines t ≠ [[]] := by
  rw [splitlines_eight_forms]
  exact splitFin_ne_singleton_nil t

/-- `iter_splitlines` undoes `'\n'.join`: for any lines without line-break characters (other than the
    lone `['']`, which joins to the empty text) -/
theorem splitlines_join (ls : List (List Nat)) (hb : ∀ l ∈ ls, ∀ c ∈ l, lineBreakChar c = false)
    (hne : ls ≠ [[]]) : iterSplitlines (joinWith [10] ls) = ls := by
  rw [splitlines_eight_forms]
  exact splitFin_join ls hb hne

/-- `indent(text, margin, newline, key)` is the `newline`-join of the lines of the text — the
    eight-form split plus the final empty line — with the margin put before the lines `key` selects -/
theorem indent_spec (key : List Nat → Bool) (m nl t : List Nat) :
    indent key m nl t = joinWith nl
      ((eightSplitlines t ++ (if endsWithBreak t then [[]] else [])).map
        fun l => if key l then m ++ l else l) := by
  unfold indent
  rw [splitlines_eight_forms]

/-- hence indenting changes no line structure: the lines of `indent(text, margin)` (default
    newline, any key, margin without line breaks) are the lines of the text, each with its margin -/
theorem indent_lines (key : List Nat → Bool) (m t : List Nat)
    (hm : ∀ c ∈ m, lineBreakChar c = false) :
    iterSplitlines (indent key m [10] t) =
      (iterSplitlines t).map fun l => if key l then m ++ l else l := by
  unfold indent
  apply splitlines_join
  · intro l hl c hc
    obtain ⟨l0, hl0, rfl⟩ := List.mem_map.mp hl
    have h0 : ∀ c ∈ l0, lineBreakChar c = false := by
      obtain ⟨p, hp, rfl⟩ := List.mem_map.mp hl0
      exact (no_other_splits t p hp).1
    split at hc
    · rcases List.mem_append.mp hc with hc | hc
      · exact hm c hc
      · exact h0 c hc
    · exact h0 c hc
  · intro h
    have hlen : (iterSplitlines t).length = 1 := by
      have := congrArg List.length h
      simpa using this
    match hi : iterSplitlines t, hlen with
    | [l0], _ =>
      rw [hi] at h
      simp only [List.map_cons, List.map_nil, List.cons.injEq, and_true] at h
      have : l0 = [] := by
        split at h
        · exact (List.append_eq_nil_iff.mp h).2
        · exact h
      subst this
      exact splitlines_ne_single_empty t hi

/-! ## reverse_iter_lines -/

/-- for every block size ≥ 1 the loop yields the lines of the content — `bytes.splitlines()` plus a
    final empty line when the content ends with LF — last to first -/
theorem reverse_lines (c : List Nat) (bs : Nat) (hbs : 1 ≤ bs) :
    reverseIterLines c bs = (linesOf c).reverse := by
  unfold reverseIterLines
  rw [revLoop_spec c bs hbs c.length c.length [] (Nat.le_refl _)]
  simp

/-- the statement's reading: when no CR stands alone, those are the LF- or CRLF-separated
    pieces of the content (`sepLines`), last to first, each without its line break -/
theorem reverse_lines_separated (c : List Nat) (bs : Nat) (hbs : 1 ≤ bs)
    (hne : c ≠ []) (hcr : noLoneCR c = true) :
    reverseIterLines c bs = (sepLines c).reverse := by
  rw [reverse_lines c bs hbs, linesOf_eq_sepLines c hcr hne]

/-- nothing is lost or invented: for a content without CR, the yielded lines put back in file order
    and joined by LF are the content, for every block size -/
theorem reverse_lines_rejoin (c : List Nat) (bs : Nat) (hbs : 1 ≤ bs) (hne : c ≠ [])
    (h : ∀ x ∈ c, x ≠ 13) : joinWith [10] (reverseIterLines c bs).reverse = c := by
  rw [reverse_lines_separated c bs hbs hne (noLoneCR_of_noCR c h), List.reverse_reverse,
    sepLines_rejoin c h]

/-- an empty file has no lines -/
theorem reverse_lines_empty (bs : Nat) : reverseIterLines [] bs = [] := by
  simp [reverseIterLines, revLoop, revLoopS, flush]

/-- identical result for every block size (from 1 byte to larger than the file) -/
theorem blocksize_independent (c : List Nat) (bs₁ bs₂ : Nat) (h₁ : 1 ≤ bs₁) (h₂ : 1 ≤ bs₂) :
    reverseIterLines c bs₁ = reverseIterLines c bs₂ := by
  rw [reverse_lines c bs₁ h₁, reverse_lines c bs₂ h₂]

/-- no yielded line contains a LF or CR: bytes of a multi-byte character (all ≥ 128) are never
    separated from each other, whatever the block size -/
theorem reverse_lines_unbroken (c : List Nat) (bs : Nat) (hbs : 1 ≤ bs) :
    ∀ l ∈ reverseIterLines c bs, ∀ x ∈ l, bytesBreak x = false := by
  rw [reverse_lines c bs hbs]
  intro l hl
  simp only [List.mem_reverse, linesOf, List.mem_append] at hl
  rcases hl with hl | hl
  · exact aux_all_noBrk bytesBreak false c l hl
  · split at hl
    · simp at hl; subst hl; intro x hx; cases hx
    · cases hl

/-- INDEPENDENCE FROM THE READ PARTITION, not only from the block size: whatever number of bytes
    (at least one) each round of the loop reads — a constant block size, block-aligned reads, a
    different size in every round — the loop yields the same lines -/
theorem reverse_lines_any_schedule (c : List Nat) (rs : Nat → Nat) (hrs : ∀ p, 1 ≤ rs p) :
    revLoopS c rs c.length c.length [] = (linesOf c).reverse := by
  rw [revLoopS_spec c rs hrs c.length c.length [] (Nat.le_refl _)]
  simp

theorem schedule_independent (c : List Nat) (rs₁ rs₂ : Nat → Nat)
    (h₁ : ∀ p, 1 ≤ rs₁ p) (h₂ : ∀ p, 1 ≤ rs₂ p) :
    revLoopS c rs₁ c.length c.length [] = revLoopS c rs₂ c.length c.length [] := by
  rw [reverse_lines_any_schedule c rs₁ h₁, reverse_lines_any_schedule c rs₂ h₂]

/-- e.g. reading on block boundaries (first read `len % bs` bytes, then whole aligned blocks)
    gives what the code's "blocks counted from the end of the file" gives -/
theorem aligned_reads_same (c : List Nat) (bs : Nat) (hbs : 1 ≤ bs) :
    revLoopS c (alignedRead bs) c.length c.length [] = reverseIterLines c bs := by
  rw [reverse_lines_any_schedule c _ (alignedRead_pos bs hbs), reverse_lines c bs hbs]

/-- `preseek=False` with the file position at `p`: the lines of the first `p` bytes, last to first
    (relative reverse line generation), for every block size -/
theorem reverse_lines_from_position (c : List Nat) (p bs : Nat) (hbs : 1 ≤ bs) :
    reverseIterLinesFrom c p bs = (linesOf (c.take p)).reverse := by
  unfold reverseIterLinesFrom
  rw [revLoop_spec c bs hbs _ _ [] (Nat.le_refl _)]
  simp [List.take_eq_take_min]

/-- … which is `reverse_iter_lines` of the truncated file -/
theorem reverse_from_position_eq_prefix (c : List Nat) (p bs : Nat) (hbs : 1 ≤ bs) :
    reverseIterLinesFrom c p bs = reverseIterLines (c.take p) bs := by
  rw [reverse_lines_from_position c p bs hbs, reverse_lines _ bs hbs]

/-! ## sizes (round 5): nothing depends on the LENGTH of a text / line / file -/

/-- SIZE FAMILY (round 5): a run of ANY length `n` (0, 255, 256, 257, 65536 …) of an ordinary character followed by any
    of the eight line-break forms comes back as that run and one final empty string -/
theorem run_then_break (n a : Nat) (sep : List Nat) (ha : lineBreakChar a = false)
    (hs : sep ∈ [[13, 10], [10], [11], [12], [13], [133], [8232], [8233]]) :
    iterSplitlines (List.replicate n a ++ sep) = [List.replicate n a, []] := by
  rw [splitlines_eight_forms, run_then_break_eight n a sep ha hs, endsWithBreak_of_form _ sep hs]
  rfl

/-- for EVERY text that ends with one of the eight line-break forms, of whatever length, the last item
    yielded is the empty string, and there is exactly one more item than `splitlines` has lines -/
theorem closing_break_final_empty (p sep : List Nat)
    (hs : sep ∈ [[13, 10], [10], [11], [12], [13], [133], [8232], [8233]]) :
    (iterSplitlines (p ++ sep)).getLast? = some [] ∧
      (iterSplitlines (p ++ sep)).length = (eightSplitlines (p ++ sep)).length + 1 := by
  rw [splitlines_eight_forms, endsWithBreak_of_form p sep hs]
  simp

/-- the same family read backwards from a file: one line of any length `n` closed by LF or CR LF, any block size -/
theorem reverse_run_then_break (n a bs : Nat) (sep : List Nat) (hbs : 1 ≤ bs) (ha : bytesBreak a = false)
    (hs : sep = [10] ∨ sep = [13, 10]) :
    reverseIterLines (List.replicate n a ++ sep) bs = [[], List.replicate n a] := by
  rw [reverse_lines _ bs hbs]
  have h10 : (a == 10) = false := by
    cases h : a == 10
    · rfl
    · have : a = 10 := by simpa using h
      subst this; simp [bytesBreak] at ha
  have hsp : bytesSplitlines (List.replicate n a ++ sep) = [List.replicate n a] := by
    unfold bytesSplitlines
    induction n with
    | zero =>
      simp only [List.replicate_zero, List.nil_append]
      rcases hs with h | h <;> subst h <;> decide
    | succ n ih => simp [List.replicate_succ, aux_cons, ha, ih, consHead]
  have hne : sep ≠ [] := by rcases hs with h | h <;> subst h <;> simp
  have hend : endsNL (List.replicate n a ++ sep) = true := by
    unfold endsNL
    rw [lastIs_append _ _ _ hne]
    rcases hs with h | h <;> subst h <;> decide
  simp [linesOf, hsp, hend]

/-- conversely (no spurious final item): for a text that does NOT end with a line break, of whatever length, the
    last item yielded is not the empty string -/
theorem no_closing_break_last_nonempty (t : List Nat) (h : endsWithBreak t = false) :
    ∀ l, (iterSplitlines t).getLast? = some l → l ≠ [] := by
  rw [splitlines_eight_forms, h]
  simp only [Bool.false_eq_true, if_false, List.append_nil]
  exact aux_last_nonempty lineBreakChar (by decide) t false h

/-- content with multi-byte characters / text mode: when the file holds well-formed UTF-8, every
    line the loop yields is well-formed UTF-8, so `line.decode('utf-8')` cannot fail and no line
    begins or ends inside a character — for every block size, also one that cuts every character
    in pieces (`sp = false`: the strict codec; `sp = true`: with lone surrogates allowed) -/
theorem reverse_lines_decodable (sp : Bool) (c : List Nat) (bs : Nat) (hbs : 1 ≤ bs)
    (hv : validUtf8G sp c = true) : ∀ l ∈ reverseIterLines c bs, validUtf8G sp l = true := by
  rw [reverse_lines c bs hbs]
  intro l hl
  simp only [List.mem_reverse, linesOf, List.mem_append] at hl
  rcases hl with hl | hl
  · refine aux_lines_valid sp bytesBreak ?_ c.length c false (Nat.le_refl _) hv l hl
    intro x hx
    simp [bytesBreak] at hx
    omega
  · split at hl
    · simp at hl; subst hl; simp [validUtf8G]
    · cases hl

/-- TEXT MODE: decoding commutes with the split.  If the file content decodes (as UTF-8) to the
    text `t`, then the lines `reverse_iter_lines` yields, each decoded, are exactly the lines of
    `t` — split at LF, CR, CR LF only (never at VT, FF, NEL, U+2028 … inside a line), plus the final
    empty line when `t` ends with LF — last to first, for every block size -/
theorem reverse_lines_text (sp : Bool) (c t : List Nat) (bs : Nat) (hbs : 1 ≤ bs)
    (hd : decodeG sp c = some t) :
    (reverseIterLines c bs).map (decodeG sp) = (linesOf t).reverse.map some := by
  rw [reverse_lines c bs hbs, List.map_reverse, List.map_reverse]
  congr 1
  unfold linesOf bytesSplitlines
  rw [List.map_append, List.map_append, decode_lines sp c.length c (Nat.le_refl _) false t hd,
    (decodeG_noBrk_last sp c.length c (Nat.le_refl _) t hd).2]
  split <;> simp [decodeG_nil]

/-- in particular no `line.decode()` of the text-mode path can fail on a file that decodes -/
theorem reverse_lines_text_no_error (c t : List Nat) (bs : Nat) (hbs : 1 ≤ bs)
    (hd : decodeG false c = some t) : ∀ x ∈ reverseIterLinesText c bs, x ≠ none := by
  unfold reverseIterLinesText
  rw [reverse_lines_text false c t bs hbs hd]
  intro x hx
  simp only [List.mem_map] at hx
  obtain ⟨l, _, rfl⟩ := hx
  simp

/-- text files in a SINGLE-BYTE encoding (latin-1, cp1252, …: a decoding `g` byte by byte that maps
    LF to LF, CR to CR and nothing else to them): the yielded lines, decoded, are the lines of the
    decoded text, last to first, for every block size -/
theorem reverse_lines_single_byte_codec (g : Nat → Nat)
    (h10 : ∀ c, (g c == 10) = (c == 10)) (h13 : ∀ c, (g c == 13) = (c == 13))
    (c : List Nat) (bs : Nat) (hbs : 1 ≤ bs) :
    (reverseIterLines c bs).map (·.map g) = (linesOf (c.map g)).reverse := by
  have hb : ∀ x, bytesBreak (g x) = bytesBreak x := by
    intro x; simp only [bytesBreak, h10, h13]
  have hnl : ∀ x, isNL (g x) = isNL x := by
    intro x; simp only [isNL, h10]
  rw [reverse_lines c bs hbs, List.map_reverse]
  congr 1
  unfold linesOf bytesSplitlines endsNL
  rw [aux_map bytesBreak g hb h10 h13, lastIs_map isNL g hnl, List.map_append]
  split <;> simp

/-! ## JSONLIterator -/

variable {α ε : Type}

/-- forward mode over a binary file, `ignore_errors=True`: exactly the objects of the non-blank,
    decodable LF/CRLF-separated lines, in order, and no error -/
theorem jsonl_forward_binary (ws : Nat → Bool) (parse : List Nat → Except ε α)
    (c : List Nat) (hcr : noLoneCR c = true) :
    jsonlForwardB ws parse true c = ((sepLines c).filterMap (objOf ws parse), none) := by
  unfold jsonlForwardB
  rw [consume_ignore, ← filterMap_fileLinesB',
    filterMap_rel ws parse _ _ (fileLinesB'_rel c hcr)]

/-- forward mode over a text-mode file (universal newlines), `ignore_errors=True` -/
theorem jsonl_forward_text (ws : Nat → Bool) (parse : List Nat → Except ε α) (c : List Nat) :
    jsonlForwardT ws parse true c = ((bytesSplitlines c).filterMap (objOf ws parse), none) := by
  unfold jsonlForwardT bytesSplitlines
  rw [consume_ignore, filterMap_rel ws parse _ _ (fileLinesT_rel false c)]

/-- reverse mode, any block size ≥ 1, `ignore_errors=True` -/
theorem jsonl_reverse (ws : Nat → Bool) (parse : List Nat → Except ε α) (c : List Nat) (bs : Nat) (hbs : 1 ≤ bs) :
    jsonlReverse ws parse true bs c = (((bytesSplitlines c).filterMap (objOf ws parse)).reverse, none) := by
  unfold jsonlReverse
  rw [consume_ignore, reverse_lines c bs hbs, List.filterMap_reverse, filterMap_linesOf]

/-- reverse mode yields the objects of forward mode, reversed — text-mode files, every content,
    whatever the file size relative to the block size -/
theorem jsonl_forward_reverse_text (ws : Nat → Bool) (parse : List Nat → Except ε α)
    (c : List Nat) (bs : Nat) (hbs : 1 ≤ bs) :
    jsonlReverse ws parse true bs c = ((jsonlForwardT ws parse true c).1.reverse, none) := by
  rw [jsonl_reverse ws parse c bs hbs, jsonl_forward_text ws parse c]

/-- … and binary files whose lines are LF- or CRLF-separated -/
theorem jsonl_forward_reverse_binary (ws : Nat → Bool) (parse : List Nat → Except ε α)
    (c : List Nat) (hcr : noLoneCR c = true) (bs : Nat) (hbs : 1 ≤ bs) :
    jsonlReverse ws parse true bs c = ((jsonlForwardB ws parse true c).1.reverse, none) := by
  rw [jsonl_reverse ws parse c bs hbs, jsonl_forward_binary ws parse c hcr, ← filterMap_linesOf]
  by_cases hne : c = []
  · subst hne; simp [linesOf_nil, sepLines, objOf_nil]
  · rw [linesOf_eq_sepLines c hcr hne]

/-- reverse mode does not depend on the block size, with or without `ignore_errors` -/
theorem jsonl_blocksize_independent (ws : Nat → Bool) (parse : List Nat → Except ε α) (ig : Bool) (c : List Nat)
    (bs₁ bs₂ : Nat) (h₁ : 1 ≤ bs₁) (h₂ : 1 ≤ bs₂) :
    jsonlReverse ws parse ig bs₁ c = jsonlReverse ws parse ig bs₂ c := by
  unfold jsonlReverse
  rw [blocksize_independent c bs₁ bs₂ h₁ h₂]

/-- without `ignore_errors`: if forward mode gets through the file without an error, so does
    reverse mode, with the same objects reversed (binary, LF/CRLF-separated) -/
theorem jsonl_strict_forward_reverse_binary (ws : Nat → Bool) (parse : List Nat → Except ε α)
    (c : List Nat) (hcr : noLoneCR c = true) (bs : Nat) (hbs : 1 ≤ bs)
    (hok : (jsonlForwardB ws parse false c).2 = none) :
    jsonlReverse ws parse false bs c = ((jsonlForwardB ws parse false c).1.reverse, none) := by
  have h1 : AllOk ws parse (fileLinesB c) := allOk_of_consume_strict ws parse _ hok
  have h2 : AllOk ws parse (fileLinesB' c) := by
    unfold fileLinesB'
    intro l hl
    rcases List.mem_append.mp hl with hl | hl
    · exact h1 l hl
    · split at hl
      · simp at hl; subst hl; exact okLine_nil ws parse
      · cases hl
  have h3 : AllOk ws parse (sepLines c) := (allOk_rel ws parse _ _ (fileLinesB'_rel c hcr)).mp h2
  have h4 : AllOk ws parse (reverseIterLines c bs) := by
    by_cases hne : c = []
    · subst hne; rw [reverse_lines_empty]; intro l hl; cases hl
    · rw [reverse_lines_separated c bs hbs hne hcr]; exact (allOk_reverse ws parse _).mpr h3
  unfold jsonlReverse jsonlForwardB
  rw [consume_strict_of_allOk ws parse _ h4, consume_strict_of_allOk ws parse _ h1]
  exact jsonl_forward_reverse_binary ws parse c hcr bs hbs

/-- … and forward mode raises exactly when reverse mode does -/
theorem jsonl_strict_error_iff_binary (ws : Nat → Bool) (parse : List Nat → Except ε α)
    (c : List Nat) (hcr : noLoneCR c = true) (bs : Nat) (hbs : 1 ≤ bs) :
    (jsonlForwardB ws parse false c).2 = none ↔ (jsonlReverse ws parse false bs c).2 = none := by
  constructor
  · intro h; rw [jsonl_strict_forward_reverse_binary ws parse c hcr bs hbs h]
  · intro h
    have h4 : AllOk ws parse (reverseIterLines c bs) := allOk_of_consume_strict ws parse _ h
    have h1 : AllOk ws parse (fileLinesB c) := by
      by_cases hne : c = []
      · subst hne; intro l hl; simp [fileLinesB] at hl
      · rw [reverse_lines_separated c bs hbs hne hcr] at h4
        have h3 : AllOk ws parse (sepLines c) := (allOk_reverse ws parse _).mp h4
        have h2 := (allOk_rel ws parse _ _ (fileLinesB'_rel c hcr)).mpr h3
        intro l hl
        exact h2 l (by unfold fileLinesB'; exact List.mem_append.mpr (Or.inl hl))
    unfold jsonlForwardB
    rw [consume_strict_of_allOk ws parse _ h1, consume_ignore]

/-- the same for text-mode files, every content -/
theorem jsonl_strict_forward_reverse_text (ws : Nat → Bool) (parse : List Nat → Except ε α)
    (c : List Nat) (bs : Nat) (hbs : 1 ≤ bs)
    (hok : (jsonlForwardT ws parse false c).2 = none) :
    jsonlReverse ws parse false bs c = ((jsonlForwardT ws parse false c).1.reverse, none) := by
  have h1 : AllOk ws parse (fileLinesT false c) := allOk_of_consume_strict ws parse _ hok
  have h3 : AllOk ws parse (bytesSplitlines c) := (allOk_rel ws parse _ _ (fileLinesT_rel false c)).mp h1
  have h4 : AllOk ws parse (reverseIterLines c bs) := by
    rw [reverse_lines c bs hbs]
    apply (allOk_reverse ws parse _).mpr
    unfold linesOf
    intro l hl
    rcases List.mem_append.mp hl with hl | hl
    · exact h3 l hl
    · split at hl
      · simp at hl; subst hl; exact okLine_nil ws parse
      · cases hl
  unfold jsonlReverse jsonlForwardT
  rw [consume_strict_of_allOk ws parse _ h4, consume_strict_of_allOk ws parse _ h1]
  exact jsonl_forward_reverse_text ws parse c bs hbs

/-- blank lines are skipped: a line made only of characters `.lstrip()` strips (space, tab, …),
    with or without its line break, contributes no object and no error -/
theorem jsonl_blank_skipped (ws : Nat → Bool) (parse : List Nat → Except ε α) (ig : Bool) (l : List Nat)
    (hl : ∀ c ∈ l, ws c = true) (ls : List (List Nat)) :
    consume ws parse ig (l :: ls) = consume ws parse ig ls ∧
    consume ws parse ig ((l ++ [10]) :: ls) = consume ws parse ig ls ∧
    consume ws parse ig ((l ++ [13, 10]) :: ls) = consume ws parse ig ls := by
  have h0 : lineNorm ws l = [] := lineNorm_blank ws l hl
  have h1 : lineNorm ws (l ++ [10]) = [] := by rw [lineNorm_rel ws _ l (Or.inr (Or.inl rfl)), h0]
  have h2 : lineNorm ws (l ++ [13, 10]) = [] := by rw [lineNorm_rel ws _ l (Or.inr (Or.inr rfl)), h0]
  refine ⟨?_, ?_, ?_⟩ <;> rw [consume] <;> simp [h0, h1, h2]

/-- both directions hand `json.loads` the same bytes for a line, whether the line iterator
    delivered it with its line break (forward) or without (reverse) -/
theorem jsonl_same_bytes_decoded (ws : Nat → Bool) (l : List Nat) :
    lineNorm ws (l ++ [10]) = lineNorm ws l ∧ lineNorm ws (l ++ [13, 10]) = lineNorm ws l :=
  ⟨lineNorm_rel ws _ l (Or.inr (Or.inl rfl)), lineNorm_rel ws _ l (Or.inr (Or.inr rfl))⟩

/-- TEXT MODE end to end: for a file whose content decodes to the text `t`, reverse mode as the code
    does it (byte lines found backwards, each decoded, then `next`) is reverse mode over `t` itself —
    so every `…_text` theorem above applies with `t` (a list of code points) as the content and
    `str.lstrip`'s character set as `ws` -/
theorem jsonl_text_reverse_decoded (ws : Nat → Bool) (parse : List Nat → Except ε α) (ig : Bool)
    (c t : List Nat) (bs : Nat) (hbs : 1 ≤ bs) (hd : decodeG false c = some t) :
    jsonlReverseText ws parse ig bs c = jsonlReverse ws parse ig bs t := by
  unfold jsonlReverseText jsonlReverse reverseIterLinesText
  rw [reverse_lines_text false c t bs hbs hd, reverse_lines t bs hbs]
  congr 1
  simp [List.filterMap_map]

/-- hence: reverse mode over a text-mode file yields the objects of forward mode (universal
    newlines over the decoded text), reversed -/
theorem jsonl_text_forward_reverse (ws : Nat → Bool) (parse : List Nat → Except ε α)
    (c t : List Nat) (bs : Nat) (hbs : 1 ≤ bs) (hd : decodeG false c = some t) :
    jsonlReverseText ws parse true bs c = ((jsonlForwardT ws parse true t).1.reverse, none) := by
  rw [jsonl_text_reverse_decoded ws parse true c t bs hbs hd, jsonl_forward_reverse_text ws parse t bs hbs]

/-! ## every `next()` call, errors included (strict mode resumed after an error) -/

/-- a plain `for` loop over the iterator sees the `next()` results up to the first error -/
theorem jsonl_drain_is_prefix_of_outcomes (ws : Nat → Bool) (parse : List Nat → Except ε α) (ig : Bool) (ls : List (List Nat)) :
    consume ws parse ig ls = untilError (outcomes ws parse ig ls) :=
  consume_eq_untilError ws parse ig ls

/-- the full statement for strict mode, with NO hypothesis on where errors occur: the sequence of
    `next()` results — objects AND raised errors, the iteration being resumed after each error — in
    reverse mode is the forward sequence reversed (binary, LF/CRLF-separated; any block size) -/
theorem jsonl_outcomes_forward_reverse_binary (ws : Nat → Bool) (parse : List Nat → Except ε α) (ig : Bool)
    (c : List Nat) (hcr : noLoneCR c = true) (bs : Nat) (hbs : 1 ≤ bs) :
    outcomes ws parse ig (reverseIterLines c bs) = (outcomes ws parse ig (fileLinesB c)).reverse := by
  unfold outcomes
  rw [reverse_lines c bs hbs, List.filterMap_reverse]
  congr 1
  by_cases hne : c = []
  · subst hne; simp [linesOf_nil, fileLinesB]
  · rw [linesOf_eq_sepLines c hcr hne, ← filterMap_fileLinesB'G _ (outcomeOf_nil ws parse ig),
      filterMap_relG _ (outcomeOf_rel ws parse ig) _ _ (fileLinesB'_rel c hcr)]

/-- the same for text-mode files, every content -/
theorem jsonl_outcomes_forward_reverse_text (ws : Nat → Bool) (parse : List Nat → Except ε α) (ig : Bool)
    (c : List Nat) (bs : Nat) (hbs : 1 ≤ bs) :
    outcomes ws parse ig (reverseIterLines c bs) = (outcomes ws parse ig (fileLinesT false c)).reverse := by
  unfold outcomes
  rw [reverse_lines c bs hbs, List.filterMap_reverse]
  congr 1
  rw [filterMap_linesOfG _ (outcomeOf_nil ws parse ig),
    filterMap_relG _ (outcomeOf_rel ws parse ig) _ _ (fileLinesT_rel false c)]
  rfl

/-! ## `cur_byte_pos` (forward mode, binary file) -/

/-- one position per object of a plain loop -/
theorem cur_byte_pos_per_object (ws : Nat → Bool) (parse : List Nat → Except ε α) (ig : Bool) (c : List Nat) :
    (jsonlForwardPosB ws parse ig c).length = (jsonlForwardB ws parse ig c).1.length :=
  consumePos_length ws parse ig 0 (fileLinesB c)

/-- `cur_byte_pos` read after each object is strictly increasing, lies in `1 … size`, and always
    stands at the end of a line (just after a LF, or at the end of the file) -/
theorem cur_byte_pos_increasing (ws : Nat → Bool) (parse : List Nat → Except ε α) (ig : Bool) (c : List Nat) :
    List.Pairwise (· < ·) (jsonlForwardPosB ws parse ig c) ∧
    ∀ q ∈ jsonlForwardPosB ws parse ig c,
      0 < q ∧ q ≤ c.length ∧ (q = c.length ∨ endsNL (c.take q) = true) := by
  have h := consumePos_spec ws parse ig c.length [] c (Nat.le_refl _)
  simpa [jsonlForwardPosB] using h

/-! ## JSONLIterator with `rel_seek` (text-mode files of single-byte characters) -/

/-- `_align_to_newline` puts the file ON the first line break at or after the target offset — or,
    when there is none and the code stops at the end of the file (`eofOk`), at the end -/
theorem align_to_newline_spec (eofOk : Bool) (c : List Nat) (target p : Nat) (ht : target ≤ c.length)
    (h : alignToNewlineE eofOk c target = some p) :
    target ≤ p ∧
    ((∃ x b', c.drop p = x :: b' ∧ bytesBreak x = true) ∨ (eofOk = true ∧ p = c.length)) ∧
    ∀ x ∈ (c.drop target).take (p - target), bytesBreak x = false := by
  unfold alignToNewlineE at h
  cases hi : firstBreak (c.drop target) with
  | none =>
    rw [hi] at h
    cases eofOk with
    | false => simp at h
    | true =>
      simp only [if_true, Option.some.injEq] at h
      subst h
      refine ⟨ht, Or.inr ⟨rfl, rfl⟩, ?_⟩
      intro x hx
      exact firstBreak_none _ hi x (List.mem_of_mem_take hx)
  | some i =>
    rw [hi] at h
    simp only [Option.some.injEq] at h
    subst h
    obtain ⟨⟨x, b', h1, h2⟩, h3⟩ := firstBreak_spec _ i hi
    refine ⟨by omega, Or.inl ⟨x, b', ?_, h2⟩, ?_⟩
    · rw [← h1, List.drop_drop]
    · have : target + i - target = i := by omega
      rw [this]; exact h3

/-- forward and reverse iteration started with the same `rel_seek` share out the objects of the
    file: what reverse mode yields (read backwards from the aligned position), reversed, followed by
    what forward mode yields (read from there on), is what a plain forward pass yields — nothing is
    lost or seen twice, for every block size (`ignore_errors=True`), whichever way the code treats
    a target after the last line break -/
theorem jsonl_rel_seek_partition (eofOk : Bool) (ws : Nat → Bool) (parse : List Nat → Except ε α)
    (c : List Nat) (target bs : Nat) (hbs : 1 ≤ bs) (ht : target ≤ c.length) (f r : List α × Option ε)
    (hf : jsonlRelSeekE eofOk ws parse true false bs c target = some f)
    (hr : jsonlRelSeekE eofOk ws parse true true bs c target = some r) :
    (jsonlForwardT ws parse true c).1 = r.1.reverse ++ f.1 ∧ f.2 = none ∧ r.2 = none := by
  unfold jsonlRelSeekE at hf hr
  cases hp : alignToNewlineE eofOk c target with
  | none => rw [hp] at hf; simp at hf
  | some p =>
    rw [hp] at hf hr
    simp only [Bool.false_eq_true, if_false, if_true, Option.some.injEq] at hf hr
    subst hf hr
    obtain ⟨_, hcase, _⟩ := align_to_newline_spec eofOk c target p ht hp
    rw [consume_ignore, consume_ignore, reverse_lines_from_position c p bs hbs,
      List.filterMap_reverse, filterMap_linesOf, jsonl_forward_text ws parse c]
    refine ⟨?_, rfl, rfl⟩
    simp only [List.reverse_reverse]
    rcases hcase with ⟨x, b', hd, hx⟩ | ⟨_, rfl⟩
    · rw [filterMap_rel ws parse _ _ (fileLinesT_rel false (c.drop p))]
      have hc : c = c.take p ++ x :: b' := by rw [← hd, List.take_append_drop]
      conv => lhs; rw [hc]
      rw [filterMap_cut_at_break ws parse _ x b' hx, hd]
      rfl
    · simp [fileLinesT]

/-! ## non-vacuity -/

/-- front-strip sets for the examples (the theorems hold for any; the regenerated tables of the
    running code are `pyWs` / `pyWsT`): space and tab, and for text lines also NBSP -/
def toyWs (c : Nat) : Bool := c == 32 || c == 9
def toyWsT (c : Nat) : Bool := c == 32 || c == 9 || c == 160


-- "a b<U+2028>c<CR><LF>": breaks of two kinds, ends with a break; ' 2','8' would be split by the old typo
example : iterSplitlines [97, 32, 50, 56, 8232, 99, 13, 10] = [[97, 32, 50, 56], [99], []] := by decide
example : ∀ c ∈ [97, 32, 50, 56, 8232, 99, 13, 10], isFS c = false := by decide
example : pySplitlines [97, 32, 50, 56, 8232, 99, 13, 10] = [[97, 32, 50, 56], [99]] := by decide
-- the hypothesis of `splitlines_spec` is needed: str.splitlines splits at U+001C, the regex does not
example : iterSplitlines [97, 28, 98] ≠ pySplitlines [97, 28, 98] := by decide
example : iterSplitlines [97, 28, 98] = [[97, 28, 98]] ∧ eightSplitlines [97, 28, 98] = [[97, 28, 98]] := by decide
-- "\né\r\nb\n" with a block edge inside é (195 169) and between CR and LF
example : reverseIterLines [10, 195, 169, 13, 10, 98, 10] 2 = [[], [98], [195, 169], []] := by decide
example : noLoneCR [10, 195, 169, 13, 10, 98, 10] = true := by decide
example : sepLines [10, 195, 169, 13, 10, 98, 10] = [[], [195, 169], [98], []] := by decide
-- the former defects: a single line with a trailing newline; a file starting with a blank line
example : reverseIterLines [97, 98, 99, 10] 4096 = [[], [97, 98, 99]] := by decide
example : reverseIterLines [10, 98] 1 = [[98], []] := by decide
-- a lone CR is a break for the code (bytes.splitlines) but not for `sepLines`: hypothesis needed
example : reverseIterLines [97, 13, 98] 1 ≠ (sepLines [97, 13, 98]).reverse := by decide

/-- a toy `json.loads` for the examples: accepts exactly the text "3" — it does NOT tolerate a
    trailing line break, and need not: `next` strips it in both directions -/
def toyParse (l : List Nat) : Except Unit Nat :=
  if l = [51] then .ok 3 else .error ()

-- "\n3\n \nx\r\n3\n": blank lines, a corrupt line, CRLF; block size 5 (the former failure)
example : jsonlForwardB toyWs toyParse true [10, 51, 10, 32, 10, 120, 13, 10, 51, 10] = ([3, 3], none) := by decide
example : jsonlReverse toyWs toyParse true 5 [10, 51, 10, 32, 10, 120, 13, 10, 51, 10] = ([3, 3], none) := by decide
example : (jsonlForwardB toyWs toyParse false [10, 51, 10, 32, 10, 51, 10]).2 = none := by decide
example : (jsonlForwardB toyWs toyParse false [10, 51, 10, 120, 10, 51, 10]) = ([3], some ()) := by decide

-- the former defect C19-jsonl-break-dependent-decoding: a line with a NUL byte, b"\x001\n"
example : lineNorm toyWs [0, 49, 10] = [0, 49] ∧ lineNorm toyWs [0, 49] = [0, 49] := by decide
example : lineNorm toyWs [32, 9, 51, 13, 13, 10] = [51] := by decide
example : ∀ c ∈ [32, 9, 32], toyWs c = true := by decide
-- read schedules: block size 3 from the end reads 1+3+3 bytes last, aligned reads 3+3+1
example : revLoopS [10, 195, 169, 13, 10, 98, 10] (alignedRead 3) 7 7 [] = [[], [98], [195, 169], []] := by decide
example : reverseIterLines [10, 195, 169, 13, 10, 98, 10] 3 = [[], [98], [195, 169], []] := by decide
example : ∀ p, 1 ≤ alignedRead 3 p := alignedRead_pos 3 (by decide)
-- preseek=False from the middle of "a\nb\nc": position 3 (just after the 'b')
example : reverseIterLinesFrom [97, 10, 98, 10, 99] 3 2 = [[98], [97]] := by decide
example : reverseIterLinesFrom [97, 10, 98, 10, 99] 4 2 = [[], [98], [97]] := by decide

-- indent("a\n\nb\n", "  "): the blank line and the final empty line get no margin
example : indent keyBool [32, 32] [10] [97, 10, 10, 98, 10] = [32, 32, 97, 10, 10, 32, 32, 98, 10] := by decide
example : iterSplitlines (indent keyBool [32, 32] [10] [97, 10, 10, 98, 10]) = [[32, 32, 97], [], [32, 32, 98], []] := by decide
-- the exception in `splitlines_join` is real: '\n'.join(['']) = '' has no lines
example : iterSplitlines (joinWith [10] [[]]) = [] := by decide
-- and so is the margin hypothesis of `indent_lines`: a margin with a line break adds lines
example : iterSplitlines (indent keyBool [10] [10] [97]) ≠ (iterSplitlines [97]).map (fun l => if keyBool l then [10] ++ l else l) := by decide

-- "é\n日" (c3 a9 0a e6 97 a5) read one byte at a time: both lines come back whole
example : strictUtf8 [195, 169, 10, 230, 151, 165] = true := by decide
example : reverseIterLines [195, 169, 10, 230, 151, 165] 1 = [[230, 151, 165], [195, 169]] := by decide
-- the strict codec rejects a lone surrogate (ed a0 80), the surrogatepass one accepts it
example : strictUtf8 [237, 160, 128] = false ∧ validUtf8 [237, 160, 128] = true := by decide

-- rel_seek: "3\n3\r\nx\n3" from offset 2 (inside the second record): aligned ON the CR at offset 3
example : alignToNewlineE false [51, 10, 51, 13, 10, 120, 10, 51] 2 = some 3 := by decide
example : jsonlRelSeekE false toyWs toyParse true false 4096 [51, 10, 51, 13, 10, 120, 10, 51] 2 = some ([3], none) := by decide
example : jsonlRelSeekE false toyWs toyParse true true 4096 [51, 10, 51, 13, 10, 120, 10, 51] 2 = some ([3, 3], none) := by decide
example : (jsonlForwardT toyWs toyParse true [51, 10, 51, 13, 10, 120, 10, 51]).1 = [3, 3, 3] := by decide
-- no line break after the target: the alignment loop of the code as it is does not end (outside the
-- model); a code that stops at the end of the file leaves reverse mode everything, forward mode nothing
example : alignToNewlineE false [51, 10, 51] 2 = none := by decide
example : alignToNewlineE true [51, 10, 51] 2 = some 3 := by decide
example : jsonlRelSeekE true toyWs toyParse true true 4096 [51, 10, 51] 2 = some ([3, 3], none) ∧
    jsonlRelSeekE true toyWs toyParse true false 4096 [51, 10, 51] 2 = some ([], none) := by decide

-- "a<U+2028>é\nb" as UTF-8, read 2 bytes at a time: the text lines are ["a<U+2028>é", "b"]
example : decodeG false [97, 226, 128, 168, 195, 169, 10, 98] = some [97, 8232, 233, 10, 98] := by decide
example : reverseIterLinesText [97, 226, 128, 168, 195, 169, 10, 98] 2 = [some [98], some [97, 8232, 233]] := by decide
example : decodeG false [237, 160, 128] = none ∧ decodeG true [237, 160, 128] = some [55296] := by decide

-- strict mode resumed after the error on "x": forward 3, error, 3 — reverse the same backwards
example : (outcomes toyWs toyParse false (fileLinesB [51, 10, 120, 10, 51, 10])).map Except.toOption
    = [some 3, none, some 3] := by decide
example : (outcomes toyWs toyParse false (reverseIterLines [51, 10, 120, 10, 51, 10] 2)).map Except.toOption
    = [some 3, none, some 3] := by decide
example : untilError (outcomes toyWs toyParse false (fileLinesB [51, 10, 120, 10, 51, 10])) = ([3], some ()) := by decide

-- cur_byte_pos on "3\n\nx\r\n3\n  3": after the records: offsets 2, 8 and 11 (= size)
example : jsonlForwardPosB toyWs toyParse true [51, 10, 10, 120, 13, 10, 51, 10, 32, 32, 51] = [2, 8, 11] := by decide

-- text mode: "<NBSP>3\n3" (c2 a0 33 0a 33): str.lstrip removes the NBSP, bytes.lstrip would not
example : jsonlReverseText toyWsT toyParse true 2 [194, 160, 51, 10, 51] = ([3, 3], none) := by decide
example : (jsonlReverse toyWs toyParse true 2 [194, 160, 51, 10, 51]).1 = [3] := by decide

-- "a\n\nb\n": the lines [b"", b"b", b"", b"a"] reversed and joined by LF give the content back
example : joinWith [10] (reverseIterLines [97, 10, 10, 98, 10] 2).reverse = [97, 10, 10, 98, 10] := by decide

-- latin-1 is such a decoding (the identity on byte values): "é\nb" = e9 0a 62
example : (reverseIterLines [233, 10, 98] 1).map (·.map id) = [[98], [233]] := by decide


-- round 5: the size family at a length beyond CPython's small-int cache, by the theorem (no evaluation)
example : iterSplitlines (List.replicate 257 97 ++ [13, 10]) = [List.replicate 257 97, []] :=
  run_then_break 257 97 [13, 10] (by decide) (by decide)
example : iterSplitlines (List.replicate 3 97 ++ [8232]) = [[97, 97, 97], []] := by decide
example : (iterSplitlines ([97, 10, 98] ++ [133])).getLast? = some [] := (closing_break_final_empty [97, 10, 98] [133] (by decide)).1
example : reverseIterLines (List.replicate 65536 97 ++ [13, 10]) 4096 = [[], List.replicate 65536 97] :=
  reverse_run_then_break 65536 97 4096 [13, 10] (by decide) (by decide) (Or.inr rfl)
example : reverseIterLines ([97, 97, 97] ++ [10]) 2 = [[], [97, 97, 97]] := by decide

example : endsWithBreak [97, 10, 98] = false ∧ (iterSplitlines [97, 10, 98]).getLast? = some [98] := by decide

end C19
