import BoltonsVerif.C19.Proofs
namespace C19

/-- the alternatives of `_line_ending_re` (regenerated from the source) are exactly the eight
    line breaks of the statement, `\r\n` before `\r` -/
theorem lineEndings_exact :
    Generated.lineEndings = [[13, 10], [10], [11], [12], [13], [133], [8232], [8233]] := by decide

end C19
