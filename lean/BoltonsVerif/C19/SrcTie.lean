import BoltonsVerif.Generated.Src_strutils_lines
import BoltonsVerif.Generated.Src_jsonutils_lines
import BoltonsVerif.Generated.Src_jsonutils_lines_text
import BoltonsVerif.Generated.Src_jsonutils_jsonl
import BoltonsVerif.Generated.Src_jsonutils_jsonl_text
import BoltonsVerif.Generated.C19_LineEndings
import BoltonsVerif.PyRtLemmas
import BoltonsVerif.C19.Model
import BoltonsVerif.C19.Props

set_option linter.unusedSimpArgs false

namespace C19

open Src.strutils

/-! ### the source side, state-free -/

/-- what the generated loop computes, as a function of the text, `len_text`, `prev_end` and the spans still to
    come; `K` = the code after the loop, a function of the final `prev_end` -/
def srcPiecesK {α : Type} (t : List α) (n : Int) (K : Int → List (List α)) : Int → List (Int × Int) → List (List α)
  | prev, [] => K prev
  | prev, (a, b) :: ms =>
    (if prev ≤ a then [PyRt.slice t (some prev) (some a)] else []) ++
      ((if b = n then [[]] else []) ++ srcPiecesK t n K b ms)

/-- the code after the loop: the non-empty tail -/
def srcTail {α : Type} (t : List α) (prev : Int) : List (List α) :=
  if PyRt.slice t (some prev) none ≠ [] then [PyRt.slice t (some prev) none] else []

theorem src_loop_spec {α : Type} (K : Int → List (List α)) (k kb : iter_splitlines.St α → List (List α))
    (ms : List (Int × Int)) : ∀ (s : iter_splitlines.St α),
    (∀ s' : iter_splitlines.St α, s'.text = s.text → s'.loc2 = s.loc2 → k s' = K s'.loc1) →
    iter_splitlines.loop1 k kb ms s = srcPiecesK s.text s.loc2 K s.loc1 ms := by
  induction ms with
  | nil => intro s hk; simp only [iter_splitlines.loop1, srcPiecesK]; exact hk s rfl rfl
  | cons m ms ih =>
    intro s hk
    obtain ⟨a, b⟩ := m
    simp only [iter_splitlines.loop1, srcPiecesK]
    -- decide the two tests on the MODEL side's conditions (the way the source writes them does not matter)
    have h2s : (s.loc2 = b) = (b = s.loc2) := propext eq_comm
    by_cases h1 : s.loc1 ≤ a <;> by_cases h2 : b = s.loc2 <;>
      (simp only [h2s, ge_iff_le, h1, h2, if_true, if_false, ite_true, ite_false, List.nil_append,
         List.cons_append, List.singleton_append]
       rw [ih]
       intro s' ht hl
       exact hk s' ht hl)

theorem src_iter_splitlines_spec {α : Type} (t : List α) (ms : List (Int × Int)) :
    iter_splitlines t ms = srcPiecesK t (PyRt.len t) (srcTail t) 0 ms := by
  unfold iter_splitlines iter_splitlines.body
  simp only []
  rw [src_loop_spec (srcTail t)]
  intro s' h1 _
  simp only [srcTail, h1]


/-! ### the declared operation: `finditer` spans of the alternation, against the model's matcher -/

open PyRtC19 in
theorem stripPrefix_eq (alt s : List Nat) :
    stripPrefix? alt s = if litAt alt s = true then some (s.drop alt.length) else none := by
  induction alt generalizing s with
  | nil => simp [stripPrefix?, litAt]
  | cons a as ih =>
    cases s with
    | nil => simp [stripPrefix?, litAt]
    | cons c cs =>
      simp only [stripPrefix?, litAt, ih]
      by_cases h : a = c <;> simp [h]

open PyRtC19 in
theorem litAt_append (alt s : List Nat) (h : litAt alt s = true) : s = alt ++ s.drop alt.length := by
  induction alt generalizing s with
  | nil => simp
  | cons a as ih =>
    cases s with
    | nil => simp [litAt] at h
    | cons c cs =>
      simp only [litAt, Bool.and_eq_true, beq_iff_eq] at h
      simp [h.1, ← ih cs h.2]

open PyRtC19 in
theorem firstAlt_eq (alts : List (List Nat)) (s : List Nat) :
    firstAlt alts s = (firstMatch alts s).map (fun p => p.1.length) := by
  induction alts with
  | nil => simp [firstAlt, firstMatch]
  | cons alt alts ih =>
    simp only [firstAlt, firstMatch, stripPrefix_eq]
    by_cases h : alt = [] <;> by_cases h2 : litAt alt s = true <;> simp [h, h2, ih]

theorem firstMatch_some (alts : List (List Nat)) (s sep rest : List Nat) (h : firstMatch alts s = some (sep, rest)) :
    sep ≠ [] ∧ s = sep ++ rest := by
  induction alts with
  | nil => simp [firstMatch] at h
  | cons alt alts ih =>
    simp only [firstMatch, stripPrefix_eq] at h
    by_cases h1 : alt = []
    · simp only [h1, if_true] at h; exact ih h
    · simp only [h1, if_false] at h
      by_cases h2 : PyRtC19.litAt alt s = true
      · simp only [h2, if_true] at h
        simp only [Option.some.injEq, Prod.mk.injEq] at h
        obtain ⟨rfl, rfl⟩ := h
        exact ⟨h1, litAt_append _ _ h2⟩
      · simp only [h2] at h; exact ih h


open PyRtC19 in
theorem spansAux_skip (alts : List (List Nat)) : ∀ (n off : Nat) (s : List Nat),
    spansAux alts n off s = spansAux alts 0 (off + n) (s.drop n) := by
  intro n
  induction n with
  | zero => intro off s; simp
  | succ n ih =>
    intro off s
    cases s with
    | nil => simp [spansAux]
    | cons c cs =>
      simp only [spansAux, List.drop_succ_cons]
      rw [ih]; congr 1; omega

open PyRtC19 in
/-- no match anywhere: no span -/
theorem spans_of_splitFirst_none (alts : List (List Nat)) : ∀ (s : List Nat) (off : Nat),
    splitFirst alts s = none → spansAux alts 0 off s = [] := by
  intro s
  induction s with
  | nil => intro off _; simp [spansAux]
  | cons c cs ih =>
    intro off h
    simp only [splitFirst] at h
    cases hm : firstMatch alts (c :: cs) with
    | some p => simp [hm] at h
    | none =>
      simp only [hm] at h
      cases hs : splitFirst alts cs with
      | some q => simp [hs] at h
      | none =>
        simp only [spansAux, firstAlt_eq, hm, Option.map_none]
        exact ih _ hs

open PyRtC19 in
/-- the first match: the first span, and the scan goes on behind it -/
theorem spans_of_splitFirst_some (alts : List (List Nat)) : ∀ (s : List Nat) (off : Nat) (l sep rest : List Nat),
    splitFirst alts s = some (l, sep, rest) →
    sep ≠ [] ∧ s = l ++ sep ++ rest ∧
    spansAux alts 0 off s =
      (((off + l.length : Nat) : Int), ((off + l.length + sep.length : Nat) : Int)) ::
        spansAux alts 0 (off + l.length + sep.length) rest := by
  intro s
  induction s with
  | nil => intro off l sep rest h; simp [splitFirst] at h
  | cons c cs ih =>
    intro off l sep rest h
    simp only [splitFirst] at h
    cases hm : firstMatch alts (c :: cs) with
    | some p =>
      obtain ⟨sep', rest'⟩ := p
      simp only [hm, Option.some.injEq, Prod.mk.injEq] at h
      obtain ⟨rfl, rfl, rfl⟩ := h
      obtain ⟨hne, hs⟩ := firstMatch_some _ _ _ _ hm
      refine ⟨hne, by simpa using hs, ?_⟩
      obtain ⟨x, xs, rfl⟩ := List.exists_cons_of_ne_nil hne
      simp only [spansAux, firstAlt_eq, hm, Option.map_some, List.length_cons, List.length_nil, Nat.add_zero]
      rw [spansAux_skip]
      have : cs = xs ++ rest' := by simp at hs; exact hs.2
      subst this
      simp only [List.drop_left]
      congr 2 <;> omega
    | none =>
      simp only [hm] at h
      cases hs : splitFirst alts cs with
      | none => simp [hs] at h
      | some q =>
        obtain ⟨l', sep', rest'⟩ := q
        simp only [hs, Option.some.injEq, Prod.mk.injEq] at h
        obtain ⟨rfl, rfl, rfl⟩ := h
        obtain ⟨hne, hcs, hsp⟩ := ih (off + 1) _ _ _ hs
        refine ⟨hne, by simp [hcs], ?_⟩
        simp only [spansAux, firstAlt_eq, hm, Option.map_none, hsp, List.length_cons]
        congr 2 <;> (try congr 1) <;> omega


/-! ### slices of the text between offsets -/

theorem slice_from_nat {α : Type} (t : List α) (a : Nat) : PyRt.slice t (some (a : Int)) none = t.drop a := by
  simp only [PyRt.slice, PyRt.clampBound, List.take_length]
  rw [if_neg (by omega)]
  by_cases h : a ≤ t.length
  · congr 1; omega
  · have e : min (a : Int).toNat t.length = t.length := by omega
    rw [e, List.drop_length, List.drop_eq_nil_of_le (by omega)]

theorem slice_mid_nat {α : Type} (pre l post : List α) :
    PyRt.slice (pre ++ l ++ post) (some (pre.length : Int)) (some ((pre.length + l.length : Nat) : Int)) = l := by
  simp only [PyRt.slice, PyRt.clampBound]
  rw [if_neg (by omega), if_neg (by omega)]
  have e1 : min ((pre.length + l.length : Nat) : Int).toNat (pre ++ l ++ post).length = (pre ++ l).length := by
    simp only [List.length_append]; omega
  have e2 : min (pre.length : Int).toNat (pre ++ l ++ post).length = pre.length := by
    simp only [List.length_append]; omega
  rw [e1, e2, List.take_left, List.drop_left]

/-! ### the tie -/

open PyRtC19 in
/-- the pieces the source cuts out along the spans of the declared `finditer` ARE the model's scan -/
theorem srcPieces_eq_scan (alts : List (List Nat)) : ∀ (n : Nat) (pre s : List Nat), s.length + 1 ≤ n →
    srcPiecesK (pre ++ s) (PyRt.len (pre ++ s)) (srcTail (pre ++ s)) (pre.length : Int) (spansAux alts 0 pre.length s)
      = (scan alts n s).map (·.1) := by
  intro n
  induction n with
  | zero => intro pre s h; omega
  | succ n ih =>
    intro pre s hn
    simp only [scan]
    cases hsf : splitFirst alts s with
    | none =>
      rw [spans_of_splitFirst_none _ _ _ hsf]
      simp only [srcPiecesK, srcTail, slice_from_nat, List.drop_left]
      by_cases hs : s = [] <;> simp [hs]
    | some q =>
      obtain ⟨l, sep, rest⟩ := q
      obtain ⟨hne, hs, hsp⟩ := spans_of_splitFirst_some alts s pre.length l sep rest hsf
      rw [hsp]
      subst hs
      simp only [srcPiecesK]
      rw [if_pos (by omega)]
      have e1 : PyRt.slice (pre ++ (l ++ sep ++ rest)) (some (pre.length : Int)) (some ((pre.length + l.length : Nat) : Int)) = l := by
        have := slice_mid_nat pre l (sep ++ rest)
        simpa [List.append_assoc] using this
      rw [e1]
      by_cases hr : rest = []
      · subst hr
        simp only [List.append_nil, spansAux, srcPiecesK, srcTail, slice_from_nat, PyRt.len]
        rw [if_pos (by simp only [List.length_append]; push_cast; omega)]
        have : (pre ++ (l ++ sep)).drop (pre.length + l.length + sep.length) = [] :=
          List.drop_eq_nil_of_le (by simp only [List.length_append]; omega)
        simp [this]
      · have hlen : ¬ (((pre.length + l.length + sep.length : Nat) : Int) = PyRt.len (pre ++ (l ++ sep ++ rest))) := by
          have : 0 < rest.length := List.length_pos_iff.mpr hr
          simp only [PyRt.len, List.length_append]; omega
        rw [if_neg hlen]
        simp only [hr, if_false, List.map_cons, List.nil_append, List.singleton_append]
        have hsep : 0 < sep.length := List.length_pos_iff.mpr hne
        have hi := ih (pre ++ l ++ sep) rest (by simp only [List.length_append] at hn; omega)
        simp only [List.length_append, List.append_assoc, ← Nat.add_assoc] at hi
        simp only [List.append_assoc]
        rw [hi]

/-- **the tie**: `list(iter_splitlines(t))` as the SOURCE computes it — the generated definition applied to the text
    and to the spans of `_line_ending_re.finditer(t)` (the declared operation, over the regenerated table of the
    pattern's alternatives) — is the hand model's `iterSplitlines t`, for every text -/
theorem src_iter_splitlines_eq_model (t : List Nat) :
    iter_splitlines t (PyRtC19.finditerSpans Generated.lineEndings t) = iterSplitlines t := by
  rw [src_iter_splitlines_spec, iterSplitlines, iterPieces, PyRtC19.finditerSpans]
  have := srcPieces_eq_scan Generated.lineEndings (t.length + 1) [] t (Nat.le_refl _)
  simpa using this

example : iter_splitlines [104, 13, 10, 105, 10] (PyRtC19.finditerSpans Generated.lineEndings [104, 13, 10, 105, 10])
    = [[104], [105], []] := by decide


/-! ### indent -/

theorem join_eq_joinWith (sep : List Nat) (ls : List (List Nat)) : PyRtC19.join sep ls = joinWith sep ls := by
  induction ls with
  | nil => rfl
  | cons l ls ih =>
    cases ls with
    | nil => rfl
    | cons l2 ls => simp only [PyRtC19.join, joinWith, ih]

/-- **the tie of `indent`**: for EVERY predicate `key` (the instance), margin, newline and text, the generated
    definition over the declared `finditer` spans is the hand model's `indent key margin newline t` -/
theorem src_indent_eq_model (key : List Nat → Bool) (margin newline t : List Nat) :
    @Src.strutils.indent Nat ⟨key⟩ t margin newline (PyRtC19.finditerSpans Generated.lineEndings t)
      = C19.indent key margin newline t := by
  simp only [Src.strutils.indent, Src.strutils.indent.body, src_iter_splitlines_eq_model, C19.indent, join_eq_joinWith,
    PyRtC19.lineKey]
  first
    | rfl
    | (congr 2; funext l; cases key l <;> simp)

example : @Src.strutils.indent Nat ⟨keyBool⟩ [97, 10, 10, 98] [32] [10] (PyRtC19.finditerSpans Generated.lineEndings [97, 10, 10, 98])
    = [32, 97, 10, 10, 32, 98] := by decide


/-! ## reverse_iter_lines (binary mode) -/

open Src.jsonutils

/-! ### reverse_iter_lines: the declared operations at β = Nat are the model's -/

theorem bytesLit_nat (l : List Nat) : (PyRtC19.bytesLit l : List Nat) = l := by
  simp [PyRtC19.bytesLit, PyRtC19.Byte.ofNat]

theorem consHead_nat (c : Nat) (ls : List (List Nat)) : PyRtC19.consHead c ls = consHead c ls := by
  cases ls <;> rfl

theorem splitlinesAux_nat : ∀ (b : List Nat) (f : Bool), PyRtC19.splitlinesAux f b = splitlinesAux bytesBreak f b := by
  intro b
  induction b with
  | nil => intro f; simp [PyRtC19.splitlinesAux, splitlinesAux]
  | cons c cs ih =>
    intro f
    simp only [PyRtC19.splitlinesAux, splitlinesAux, ih, consHead_nat, PyRtC19.Byte.val, bytesBreak, id]
    rfl

theorem bytesSplitlines_nat (b : List Nat) : PyRtC19.bytesSplitlines b = bytesSplitlines b :=
  splitlinesAux_nat b false

theorem lastIs_getLast (p : Nat → Bool) : ∀ l : List Nat,
    lastIs p l = (match l.getLast? with | none => false | some x => p x) := by
  intro l
  induction l with
  | nil => rfl
  | cons c cs ih =>
    cases cs with
    | nil => rfl
    | cons d ds => simp only [lastIs, ih, List.getLast?_cons_cons]

theorem slice_last_nl (b : List Nat) : (PyRt.slice b (some (-(1 : Int))) none = [10]) ↔ endsNL b = true := by
  rw [PyRt.slice_last, endsNL, lastIs_getLast]
  cases b.getLast? with
  | none => simp
  | some x => simp [isNL]


/-- everything a `for line in xs: yield line` loop yields, then the rest -/
def yieldAll (xs : List (List Nat)) (r : Except PyExc (List (List Nat))) : Except PyExc (List (List Nat)) :=
  xs.foldr PyRt.yieldCons r

theorem yieldAll_ok (xs l : List (List Nat)) : yieldAll xs (.ok l) = .ok (xs ++ l) := by
  induction xs with
  | nil => rfl
  | cons x xs ih => simp only [yieldAll, List.foldr_cons] at ih ⊢; rw [ih]; rfl

theorem rev_loop2_spec (k kb : reverse_iter_lines.St Nat → Except PyExc (List (List Nat)))
    (kexc : PyExc → reverse_iter_lines.St Nat → Except PyExc (List (List Nat))) (r : Except PyExc (List (List Nat))) :
    ∀ (xs : List (List Nat)) (s : reverse_iter_lines.St Nat), (∀ x, k { s with loc9 := x } = r) →
      reverse_iter_lines.loop2 k kb kexc xs s = yieldAll xs r := by
  intro xs
  induction xs with
  | nil => intro s h; simp only [reverse_iter_lines.loop2, yieldAll, List.foldr_nil]; exact h s.loc9
  | cons x xs ih =>
    intro s h
    simp only [reverse_iter_lines.loop2, yieldAll, List.foldr_cons]
    have e := ih { s with loc9 := x } (fun y => h y)
    rw [e]
    rfl

theorem rev_loop3_spec (k kb : reverse_iter_lines.St Nat → Except PyExc (List (List Nat)))
    (kexc : PyExc → reverse_iter_lines.St Nat → Except PyExc (List (List Nat))) (r : Except PyExc (List (List Nat))) :
    ∀ (xs : List (List Nat)) (s : reverse_iter_lines.St Nat), (∀ x, k { s with loc9 := x } = r) →
      reverse_iter_lines.loop3 k kb kexc xs s = yieldAll xs r := by
  intro xs
  induction xs with
  | nil => intro s h; simp only [reverse_iter_lines.loop3, yieldAll, List.foldr_nil]; exact h s.loc9
  | cons x xs ih =>
    intro s h
    simp only [reverse_iter_lines.loop3, yieldAll, List.foldr_cons]
    have e := ih { s with loc9 := x } (fun y => h y)
    rw [e]
    rfl


theorem fileRead_blk (c : List Nat) (rd p : Nat) :
    PyRtC19.fileRead c (((p - rd : Nat)) : Int) (rd : Int) = blk c rd p := by
  simp only [PyRtC19.fileRead, blk]
  rw [if_neg (by omega)]
  simp

theorem seekSet_nat (p : Nat) : PyRtC19.seekSet? (p : Int) = .ok (p : Int) := by
  simp only [PyRtC19.seekSet?]; rw [if_neg (by omega)]

theorem rev_loop1_spec (c : List Nat) (bs : Nat) (hbs : 1 ≤ bs)
    (k kb : reverse_iter_lines.St Nat → Except PyExc (List (List Nat)))
    (hk : ∀ s' : reverse_iter_lines.St Nat, s'.loc1 = [] → s'.loc2 = [10] → k s' = .ok (flush s'.loc4)) :
    ∀ (n f p : Nat) (s : reverse_iter_lines.St Nat), p + 1 ≤ n → p ≤ f →
      s.file_data = c → s.blocksize = (bs : Int) → s.loc1 = [] → s.loc2 = [10] → s.loc5 = (p : Int) →
      reverse_iter_lines.loop1 k kb (fun e _ => .error e) n s = .ok (revLoopS c (fun _ => bs) f p s.loc4) := by
  intro n
  induction n with
  | zero => intro f p s h; omega
  | succ n ih =>
    intro f p s hn hf h1 h2 h3 h4 h5
    by_cases hp : p = 0
    · subst hp
      have e : revLoopS c (fun _ => bs) f 0 s.loc4 = flush s.loc4 := by cases f <;> simp [revLoopS]
      rw [e]
      simp only [reverse_iter_lines.loop1, h5]
      simp [hk s h3 h4]
    · obtain ⟨f, rfl⟩ : ∃ f', f = f' + 1 := ⟨f - 1, by omega⟩
      have hmin : min (bs : Int) (p : Int) = ((min bs p : Nat) : Int) := by omega
      have hsub : (p : Int) - ((min bs p : Nat) : Int) = ((p - min bs p : Nat) : Int) := by omega
      have hpos : (0 : Int) < (p : Int) := by omega
      simp only [reverse_iter_lines.loop1, h1, h2, h3, h4, h5, hpos, if_true, hmin, hsub, seekSet_nat, fileRead_blk,
        bytesSplitlines_nat]
      have hrd : 1 ≤ min bs p := by omega
      generalize hB : blk c (min bs p) p ++ s.loc4 = B
      simp only [revLoopS, hp, if_false, hB]
      have hrec : ∀ (s' : reverse_iter_lines.St Nat), s'.file_data = c → s'.blocksize = (bs : Int) → s'.loc1 = [] →
          s'.loc2 = [10] → s'.loc5 = ((p - min bs p : Nat) : Int) →
          reverse_iter_lines.loop1 k kb (fun e _ => .error e) n s'
            = .ok (revLoopS c (fun _ => bs) f (p - min bs p) s'.loc4) :=
        fun s' a b c' d e => ih f (p - min bs p) s' (by omega) (by omega) a b c' d e
      rcases hL : bytesSplitlines B with _ | ⟨l0, _ | ⟨l1, ls⟩⟩
      · rw [if_pos (Or.inl (by simp [PyRt.len]))]
        rw [hrec _ rfl rfl rfl rfl rfl]
      · rw [if_pos (Or.inl (by simp [PyRt.len]))]
        rw [hrec _ rfl rfl rfl rfl rfl]
      · have hlen : ¬ (PyRt.len (l0 :: l1 :: ls) < 2) := by simp only [PyRt.len, List.length_cons]; omega
        by_cases h0 : l0 = []
        · rw [if_pos (Or.inr (by simp [PyRtC19.head, h0]))]
          rw [hrec _ rfl rfl rfl rfl rfl]
          simp [h0]
        · rw [if_neg (by simp [PyRtC19.head, h0, hlen])]
          have hidx : PyRt.index? (l0 :: l1 :: ls) 0 = .ok l0 := by
            simp [PyRt.index?, PyRt.normIdx]
          simp only [h0, if_false, slice_last_nl]
          rw [rev_loop2_spec (r := .ok (revLoopS c (fun _ => bs) f (p - min bs p) l0))]
          · simp only [yieldAll_ok, PyRtC19.revTail, List.tail_cons]
            cases endsNL B <;> simp [PyRt.yieldCons]
          · intro x
            simp only [hidx]
            exact hrec _ rfl rfl rfl rfl rfl


/-- the code after the loop (`if buff: …`) yields the model's `flush buff` -/
theorem rev_flush_spec (s : reverse_iter_lines.St Nat) (h1 : s.loc1 = []) (h2 : s.loc2 = [10]) :
    (if s.loc4 ≠ [] then
        (if PyRt.slice s.loc4 (some (-(1 : Int))) none = s.loc2 then
          yieldAll (PyRtC19.reversed (PyRtC19.bytesSplitlines s.loc4 ++ [s.loc1])) (.ok [])
        else yieldAll (PyRtC19.reversed (PyRtC19.bytesSplitlines s.loc4)) (.ok []))
      else .ok []) = .ok (flush s.loc4) := by
  simp only [h1, h2, slice_last_nl, bytesSplitlines_nat, yieldAll_ok, PyRtC19.reversed, flush, linesOf]
  by_cases hb : s.loc4 = [] <;> cases endsNL s.loc4 <;> simp [hb]

/-- **the tie of `reverse_iter_lines`** (binary mode): for EVERY file content `c`, block size `bs ≥ 1`, `preseek` flag and
    start position `pos`, with any loop fuel above the start position, the generated definition on the abstract file
    `(c, pos)` returns normally (no exception, no `OutOfFuel`: the `while` loop terminates) the model's `revLoopS` at the
    constant read schedule, started at the end of the file (`preseek`) or at `pos` -/
theorem src_reverse_iter_lines_eq_model (c : List Nat) (bs pos lfuel : Nat) (preseek : Bool) (hbs : 1 ≤ bs)
    (hf : (if preseek then c.length else pos) + 1 ≤ lfuel) :
    reverse_iter_lines (β := Nat) lfuel c (pos : Int) (bs : Int) preseek
      = .ok (revLoopS c (fun _ => bs) (if preseek then c.length else pos) (if preseek then c.length else pos) []) := by
  have e3 : ∀ (xs : List (List Nat)) (S : reverse_iter_lines.St Nat),
      reverse_iter_lines.loop3 (fun _ => Except.ok []) (fun _ => Except.ok []) (fun e _ => Except.error e) xs S
        = yieldAll xs (.ok []) :=
    fun xs S => rev_loop3_spec _ _ _ _ xs S (fun _ => rfl)
  have hk : ∀ s' : reverse_iter_lines.St Nat, s'.loc1 = [] → s'.loc2 = [10] →
      (fun (s : reverse_iter_lines.St Nat) =>
        if s.loc4 ≠ [] then
          (if PyRt.slice s.loc4 (some (-(1 : Int))) none = s.loc2 then
            reverse_iter_lines.loop3 (fun _ => Except.ok []) (fun _ => Except.ok []) (fun e _ => Except.error e)
              (PyRtC19.reversed (PyRtC19.bytesSplitlines s.loc4 ++ [s.loc1]))
              { s with loc8 := PyRtC19.bytesSplitlines s.loc4 ++ [s.loc1] }
          else
            reverse_iter_lines.loop3 (fun _ => Except.ok []) (fun _ => Except.ok []) (fun e _ => Except.error e)
              (PyRtC19.reversed (PyRtC19.bytesSplitlines s.loc4)) { s with loc8 := PyRtC19.bytesSplitlines s.loc4 })
        else Except.ok []) s' = .ok (flush s'.loc4) := by
    intro s' h1 h2
    simp only [e3]
    exact rev_flush_spec s' h1 h2
  -- a guard `if blocksize < 1: raise ValueError(...)` at the head of the function is decided by `hbs`
  have hb1 : ¬ ((bs : Int) < 1) := by omega
  have hb2 : ¬ ((bs : Int) ≤ 0) := by omega
  have hb3 : (1 : Int) ≤ (bs : Int) := by omega
  have hb4 : (0 : Int) < (bs : Int) := by omega
  cases preseek
  · simp only [reverse_iter_lines, reverse_iter_lines.body, bytesLit_nat, Bool.false_eq_true, if_false, hb1, hb2, hb3, hb4,
      if_true, not_true_eq_false, not_false_eq_true, ge_iff_le, gt_iff_lt] at hf ⊢
    rw [rev_loop1_spec c bs hbs _ _ hk lfuel pos pos _ hf (Nat.le_refl _) rfl rfl rfl rfl rfl]
  · simp only [reverse_iter_lines, reverse_iter_lines.body, bytesLit_nat, if_true, PyRt.len, hb1, hb2, hb3, hb4, if_false,
      not_true_eq_false, not_false_eq_true, ge_iff_le, gt_iff_lt] at hf ⊢
    rw [rev_loop1_spec c bs hbs _ _ hk lfuel c.length c.length _ hf (Nat.le_refl _) rfl rfl rfl rfl rfl]

/-- `list(reverse_iter_lines(f, blocksize))` on a binary file with content `c` -/
theorem src_reverse_iter_lines_preseek (c : List Nat) (bs pos lfuel : Nat) (hbs : 1 ≤ bs) (hf : c.length + 1 ≤ lfuel) :
    reverse_iter_lines (β := Nat) lfuel c (pos : Int) (bs : Int) true = .ok (reverseIterLines c bs) := by
  rw [src_reverse_iter_lines_eq_model c bs pos lfuel true hbs (by simpa using hf)]
  rfl

/-- `list(reverse_iter_lines(f, blocksize, preseek=False))` with the file position at `pos` inside the file -/
theorem src_reverse_iter_lines_from (c : List Nat) (bs pos lfuel : Nat) (hbs : 1 ≤ bs) (hp : pos ≤ c.length)
    (hf : pos + 1 ≤ lfuel) :
    reverse_iter_lines (β := Nat) lfuel c (pos : Int) (bs : Int) false = .ok (reverseIterLinesFrom c pos bs) := by
  rw [src_reverse_iter_lines_eq_model c bs pos lfuel false hbs (by simpa using hf)]
  simp [reverseIterLinesFrom, revLoop, Nat.min_eq_left hp]

example : (match reverse_iter_lines (β := Nat) 9 [97, 10, 98, 13, 10, 99, 10] 0 3 true with
    | .ok ls => ls | .error _ => [[0]]) = [[], [99], [98], [97]] := by decide

/-! ### ROUND 3f: reverse_iter_lines, TEXT mode (`encoding='utf-8'` given): every yielded line is decoded -/

/-- the declared operation `utf8Decode` IS the model's strict decoder -/
theorem isCont_rt (b : Nat) : PyRtC19.isCont b = isCont b := rfl

theorem utf8Decode_eq_model : ∀ l : List Nat, PyRtC19.utf8Decode l = decodeG false l := by
  intro l
  fun_induction PyRtC19.utf8Decode l
  all_goals (unfold decodeG; simp only [isCont_rt, Bool.false_or, Bool.or_false, Bool.false_eq_true, if_true, if_false, *] at *)
  all_goals (first | done | (split <;> simp_all))

/-- a text as the generated definition holds it: the list of its characters -/
def chars (t : List Nat) : List Char := t.map Char.ofNat

theorem decodeUtf8_nat (l : List Nat) :
    PyRtC19.decodeUtf8? (β := Nat) l
      = (match decodeG false l with | some t => .ok (chars t) | none => .error PyExc.ValueError) := by
  simp only [PyRtC19.decodeUtf8?, PyRtC19.Byte.val, List.map_id_fun, id, utf8Decode_eq_model, chars]
  rfl

/-- everything a `for line in xs: yield line.decode(encoding)` loop yields, then the rest; the first line that does not
    decode ends the generator with UnicodeDecodeError (a ValueError) -/
def decAll (xs : List (List Nat)) (r : Except PyExc (List (List Char))) : Except PyExc (List (List Char)) :=
  xs.foldr (fun l acc => match decodeG false l with
    | some t => PyRt.yieldCons (chars t) acc
    | none => .error PyExc.ValueError) r

theorem decAll_append (xs ys : List (List Nat)) (r : Except PyExc (List (List Char))) :
    decAll (xs ++ ys) r = decAll xs (decAll ys r) := by
  simp [decAll, List.foldr_append]

theorem decAll_nil (r : Except PyExc (List (List Char))) : decAll [] r = r := rfl

theorem decAll_empty_line (r : Except PyExc (List (List Char))) : decAll [[]] r = PyRt.yieldCons [] r := by
  simp [decAll, decodeG, chars]

/-- the result in closed form: all the lines decoded, or the error -/
theorem decAll_ok (xs : List (List Nat)) :
    decAll xs (.ok []) = (match xs.mapM (decodeG false) with
      | some ts => .ok (ts.map chars) | none => .error PyExc.ValueError) := by
  induction xs with
  | nil => rfl
  | cons x xs ih =>
    simp only [decAll, List.foldr_cons] at ih ⊢
    rw [ih]
    cases hx : decodeG false x <;> cases hxs : xs.mapM (decodeG false) <;> simp [List.mapM_cons, hx, hxs, PyRt.yieldCons]

theorem revt_loop2_spec (k kb : reverse_iter_lines_text.St Nat → Except PyExc (List (List Char)))
    (r : Except PyExc (List (List Char))) :
    ∀ (xs : List (List Nat)) (s : reverse_iter_lines_text.St Nat), (∀ x, k { s with loc9 := x } = r) →
      reverse_iter_lines_text.loop2 k kb (fun e _ => .error e) xs s = decAll xs r := by
  intro xs
  induction xs with
  | nil => intro s h; simp only [reverse_iter_lines_text.loop2, decAll, List.foldr_nil]; exact h s.loc9
  | cons x xs ih =>
    intro s h
    simp only [reverse_iter_lines_text.loop2, decAll, List.foldr_cons, decodeUtf8_nat]
    have e := ih { s with loc9 := x } (fun y => h y)
    cases hx : decodeG false x with
    | none => rfl
    | some t => simp only [e]; rfl

theorem revt_loop3_spec (k kb : reverse_iter_lines_text.St Nat → Except PyExc (List (List Char)))
    (r : Except PyExc (List (List Char))) :
    ∀ (xs : List (List Nat)) (s : reverse_iter_lines_text.St Nat), (∀ x, k { s with loc9 := x } = r) →
      reverse_iter_lines_text.loop3 k kb (fun e _ => .error e) xs s = decAll xs r := by
  intro xs
  induction xs with
  | nil => intro s h; simp only [reverse_iter_lines_text.loop3, decAll, List.foldr_nil]; exact h s.loc9
  | cons x xs ih =>
    intro s h
    simp only [reverse_iter_lines_text.loop3, decAll, List.foldr_cons, decodeUtf8_nat]
    have e := ih { s with loc9 := x } (fun y => h y)
    cases hx : decodeG false x with
    | none => rfl
    | some t => simp only [e]; rfl

theorem revt_loop1_spec (c : List Nat) (bs : Nat) (hbs : 1 ≤ bs)
    (k kb : reverse_iter_lines_text.St Nat → Except PyExc (List (List Char)))
    (hk : ∀ s' : reverse_iter_lines_text.St Nat, s'.loc1 = [] → s'.loc2 = [10] → k s' = decAll (flush s'.loc4) (.ok [])) :
    ∀ (n f p : Nat) (s : reverse_iter_lines_text.St Nat), p + 1 ≤ n → p ≤ f →
      s.file_data = c → s.blocksize = (bs : Int) → s.loc1 = [] → s.loc2 = [10] → s.loc3 = [] → s.loc5 = (p : Int) →
      reverse_iter_lines_text.loop1 k kb (fun e _ => .error e) n s
        = decAll (revLoopS c (fun _ => bs) f p s.loc4) (.ok []) := by
  intro n
  induction n with
  | zero => intro f p s h; omega
  | succ n ih =>
    intro f p s hn hf h1 h2 h3 h4 h6 h5
    by_cases hp : p = 0
    · subst hp
      have e : revLoopS c (fun _ => bs) f 0 s.loc4 = flush s.loc4 := by cases f <;> simp [revLoopS]
      rw [e]
      simp only [reverse_iter_lines_text.loop1, h5]
      simp [hk s h3 h4]
    · obtain ⟨f, rfl⟩ : ∃ f', f = f' + 1 := ⟨f - 1, by omega⟩
      have hmin : min (bs : Int) (p : Int) = ((min bs p : Nat) : Int) := by omega
      have hsub : (p : Int) - ((min bs p : Nat) : Int) = ((p - min bs p : Nat) : Int) := by omega
      have hpos : (0 : Int) < (p : Int) := by omega
      simp only [reverse_iter_lines_text.loop1, h1, h2, h3, h4, h5, h6, hpos, if_true, hmin, hsub, seekSet_nat, fileRead_blk,
        bytesSplitlines_nat]
      have hrd : 1 ≤ min bs p := by omega
      generalize hB : blk c (min bs p) p ++ s.loc4 = B
      simp only [revLoopS, hp, if_false, hB]
      have hrec : ∀ (s' : reverse_iter_lines_text.St Nat), s'.file_data = c → s'.blocksize = (bs : Int) → s'.loc1 = [] →
          s'.loc2 = [10] → s'.loc3 = [] → s'.loc5 = ((p - min bs p : Nat) : Int) →
          reverse_iter_lines_text.loop1 k kb (fun e _ => .error e) n s'
            = decAll (revLoopS c (fun _ => bs) f (p - min bs p) s'.loc4) (.ok []) :=
        fun s' a b c' d g e => ih f (p - min bs p) s' (by omega) (by omega) a b c' d g e
      rcases hL : bytesSplitlines B with _ | ⟨l0, _ | ⟨l1, ls⟩⟩
      · rw [if_pos (Or.inl (by simp [PyRt.len]))]
        rw [hrec _ rfl rfl rfl rfl rfl rfl]
      · rw [if_pos (Or.inl (by simp [PyRt.len]))]
        rw [hrec _ rfl rfl rfl rfl rfl rfl]
      · have hlen : ¬ (PyRt.len (l0 :: l1 :: ls) < 2) := by simp only [PyRt.len, List.length_cons]; omega
        by_cases h0 : l0 = []
        · rw [if_pos (Or.inr (by simp [PyRtC19.head, h0]))]
          rw [hrec _ rfl rfl rfl rfl rfl rfl]
          simp [h0]
        · rw [if_neg (by simp [PyRtC19.head, h0, hlen])]
          have hidx : PyRt.index? (l0 :: l1 :: ls) 0 = .ok l0 := by
            simp [PyRt.index?, PyRt.normIdx]
          simp only [h0, if_false, slice_last_nl]
          rw [revt_loop2_spec (r := decAll (revLoopS c (fun _ => bs) f (p - min bs p) l0) (.ok []))]
          · simp only [decAll_append, PyRtC19.revTail, List.tail_cons]
            cases endsNL B <;>
              simp only [if_true, if_false, Bool.false_eq_true, decAll_empty_line, decAll_nil, List.nil_append]
          · intro x
            simp only [hidx]
            exact hrec _ rfl rfl rfl rfl rfl rfl

/-- the code after the loop (`if buff: …`) yields the model's `flush buff`, each line decoded -/
theorem revt_flush_spec (s : reverse_iter_lines_text.St Nat) (h1 : s.loc1 = []) (h2 : s.loc2 = [10]) :
    (if s.loc4 ≠ [] then
        (if PyRt.slice s.loc4 (some (-(1 : Int))) none = s.loc2 then
          decAll (PyRtC19.reversed (PyRtC19.bytesSplitlines s.loc4 ++ [s.loc1])) (.ok [])
        else decAll (PyRtC19.reversed (PyRtC19.bytesSplitlines s.loc4)) (.ok []))
      else .ok []) = decAll (flush s.loc4) (.ok []) := by
  simp only [h1, h2, slice_last_nl, bytesSplitlines_nat, PyRtC19.reversed, flush, linesOf]
  by_cases hb : s.loc4 = [] <;> cases endsNL s.loc4 <;> simp [hb, decAll]

/-- **the tie of `reverse_iter_lines`, TEXT mode** (`encoding='utf-8'` given; the file as in the binary tie): for EVERY
    content `c`, block size `bs ≥ 1`, `preseek` flag and start position `pos`, with any loop fuel above the start
    position, the generated definition is the model's byte lines (`revLoopS`, the SAME lines as in binary mode, in the
    same order) each decoded with the model's strict UTF-8 decoder `decodeG false`; the first line that does not
    decode ends it with UnicodeDecodeError (a ValueError); no other exception, no `OutOfFuel` -/
theorem src_reverse_iter_lines_text_eq_model (c : List Nat) (bs pos lfuel : Nat) (preseek : Bool) (hbs : 1 ≤ bs)
    (hf : (if preseek then c.length else pos) + 1 ≤ lfuel) :
    reverse_iter_lines_text (β := Nat) lfuel c (pos : Int) (bs : Int) preseek
      = decAll (revLoopS c (fun _ => bs) (if preseek then c.length else pos) (if preseek then c.length else pos) [])
          (.ok []) := by
  have e3 : ∀ (xs : List (List Nat)) (S : reverse_iter_lines_text.St Nat),
      reverse_iter_lines_text.loop3 (fun _ => Except.ok []) (fun _ => Except.ok []) (fun e _ => Except.error e) xs S
        = decAll xs (.ok []) :=
    fun xs S => revt_loop3_spec _ _ _ xs S (fun _ => rfl)
  have hk : ∀ s' : reverse_iter_lines_text.St Nat, s'.loc1 = [] → s'.loc2 = [10] →
      (fun (s : reverse_iter_lines_text.St Nat) =>
        if s.loc4 ≠ [] then
          (if PyRt.slice s.loc4 (some (-(1 : Int))) none = s.loc2 then
            reverse_iter_lines_text.loop3 (fun _ => Except.ok []) (fun _ => Except.ok []) (fun e _ => Except.error e)
              (PyRtC19.reversed (PyRtC19.bytesSplitlines s.loc4 ++ [s.loc1]))
              { s with loc8 := PyRtC19.bytesSplitlines s.loc4 ++ [s.loc1] }
          else
            reverse_iter_lines_text.loop3 (fun _ => Except.ok []) (fun _ => Except.ok []) (fun e _ => Except.error e)
              (PyRtC19.reversed (PyRtC19.bytesSplitlines s.loc4)) { s with loc8 := PyRtC19.bytesSplitlines s.loc4 })
        else Except.ok []) s' = decAll (flush s'.loc4) (.ok []) := by
    intro s' h1 h2
    simp only [e3]
    exact revt_flush_spec s' h1 h2
  have hb1 : ¬ ((bs : Int) < 1) := by omega
  have hb2 : ¬ ((bs : Int) ≤ 0) := by omega
  have hb3 : (1 : Int) ≤ (bs : Int) := by omega
  have hb4 : (0 : Int) < (bs : Int) := by omega
  cases preseek
  · simp only [reverse_iter_lines_text, reverse_iter_lines_text.body, bytesLit_nat, Bool.false_eq_true, if_false, hb1, hb2,
      hb3, hb4, if_true, not_true_eq_false, not_false_eq_true, ge_iff_le, gt_iff_lt] at hf ⊢
    rw [revt_loop1_spec c bs hbs _ _ hk lfuel pos pos _ hf (Nat.le_refl _) rfl rfl rfl rfl rfl rfl]
  · simp only [reverse_iter_lines_text, reverse_iter_lines_text.body, bytesLit_nat, if_true, PyRt.len, hb1, hb2, hb3, hb4,
      if_false, not_true_eq_false, not_false_eq_true, ge_iff_le, gt_iff_lt] at hf ⊢
    rw [revt_loop1_spec c bs hbs _ _ hk lfuel c.length c.length _ hf (Nat.le_refl _) rfl rfl rfl rfl rfl rfl]

/-- `list(reverse_iter_lines(f, blocksize, encoding='utf-8'))` against the model's `reverseIterLinesText` (the lines of the
    binary mode, each `decodeG false`d): all of them as texts when every one decodes, UnicodeDecodeError otherwise -/
theorem src_reverse_iter_lines_text_preseek (c : List Nat) (bs pos lfuel : Nat) (hbs : 1 ≤ bs) (hf : c.length + 1 ≤ lfuel) :
    reverse_iter_lines_text (β := Nat) lfuel c (pos : Int) (bs : Int) true
      = (match (reverseIterLinesText c bs).mapM id with
          | some ts => .ok (ts.map chars) | none => .error PyExc.ValueError) := by
  rw [src_reverse_iter_lines_text_eq_model c bs pos lfuel true hbs (by simpa using hf), decAll_ok]
  simp only [reverseIterLinesText, reverseIterLines, revLoop, if_true, List.mapM_map, Function.comp_def, id]

/-- text mode with `preseek=False` and the file position at `pos` inside the file: the lines of `reverseIterLinesFrom`,
    each decoded -/
theorem src_reverse_iter_lines_text_from (c : List Nat) (bs pos lfuel : Nat) (hbs : 1 ≤ bs) (hp : pos ≤ c.length)
    (hf : pos + 1 ≤ lfuel) :
    reverse_iter_lines_text (β := Nat) lfuel c (pos : Int) (bs : Int) false
      = decAll (reverseIterLinesFrom c pos bs) (.ok []) := by
  rw [src_reverse_iter_lines_text_eq_model c bs pos lfuel false hbs (by simpa using hf)]
  simp [reverseIterLinesFrom, revLoop, Nat.min_eq_left hp]

/-- through `C19.reverse_lines_text`: on a file whose content is the UTF-8 encoding of the text `t`, text mode yields
    exactly the lines of `t` (split at LF, CR, CR LF only; a final empty line when `t` ends with LF), last to first, for
    every block size - and never raises -/
theorem src_reverse_iter_lines_text_of_decodes (c t : List Nat) (bs pos lfuel : Nat) (hbs : 1 ≤ bs)
    (hf : c.length + 1 ≤ lfuel) (hd : decodeG false c = some t) :
    reverse_iter_lines_text (β := Nat) lfuel c (pos : Int) (bs : Int) true = .ok ((linesOf t).reverse.map chars) := by
  rw [src_reverse_iter_lines_text_preseek c bs pos lfuel hbs hf]
  simp only [reverseIterLinesText, reverse_lines_text false c t bs hbs hd, List.mapM_map, Function.comp_def, id]
  have : ∀ xs : List (List Nat), List.mapM (fun x => some x) xs = some xs := by
    intro xs; induction xs with
    | nil => rfl
    | cons x xs ih => simp [List.mapM_cons, ih]
  rw [this]

example : (match reverse_iter_lines_text (β := Nat) 9 [195, 169, 10, 98, 13, 10, 99, 10] 0 3 true with
    | .ok ls => ls | .error _ => [['?']]) = [[], ['c'], ['b'], ['é']] := by decide

example : (match reverse_iter_lines_text (β := Nat) 9 [97, 10, 255, 10] 0 2 true with
    | .error PyExc.ValueError => true | _ => false) = true := by decide

/-! ### ROUND 3f: `JSONLIterator.next` on a binary file: the stored line iterator is the list of the lines it still yields -/

theorem asciiWs_eq_pyWs (c : Nat) : PyRtC19.asciiWs c = pyWs c := by
  rw [Bool.eq_iff_iff]
  simp [PyRtC19.asciiWs, pyWs, Generated.lstripSet, or_assoc]

theorem crlf_eq_lineEnd (c : Nat) : ([13, 10] : List Nat).contains c = lineEnd c := by
  rw [Bool.eq_iff_iff]
  simp [lineEnd, Generated.rstripSet, or_comm]

/-- `line.lstrip().rstrip(b'\r\n')` with the declared operations IS the model's `lineNorm` at the regenerated strip sets -/
theorem strip_nat (l : List Nat) :
    PyRtC19.rstripSet (PyRtC19.lstripWs l) (PyRtC19.bytesLit [13, 10] : List Nat) = lineNorm pyWs l := by
  have h1 : (fun c : Nat => PyRtC19.asciiWs (PyRtC19.Byte.val c)) = pyWs := by
    funext c; exact asciiWs_eq_pyWs c
  have h2 : (fun c : Nat => (List.map PyRtC19.Byte.val ([13, 10] : List Nat)).contains (PyRtC19.Byte.val c)) = lineEnd := by
    funext c; exact crlf_eq_lineEnd c
  simp only [PyRtC19.rstripSet, PyRtC19.lstripWs, bytesLit_nat, lineNorm, rstripBy, lstripBy, h1, h2]

/-- one `next()` of the model: the first line that contributes an outcome decides — an object (with the lines left), or
    the error `next()` raises in strict mode; StopIteration when no line is left -/
def nextModel {α : Type} (ws : Nat → Bool) (parse : List Nat → Except PyExc α) (ignore : Bool) :
    List (List Nat) → Except PyExc (α × List (List Nat))
  | [] => .error PyExc.StopIteration
  | l :: ls =>
    match outcomeOf ws parse ignore l with
    | none => nextModel ws parse ignore ls
    | some (.ok v) => .ok (v, ls)
    | some (.error e) => .error e

theorem jsonl_loop1_spec {α : Type} [Inhabited α] (parse : List Nat → Except PyExc α) (ignore : Bool)
    (k kb : JSONLIterator_next.St Nat α → Except PyExc (α × List (List Nat))) :
    ∀ (n : Nat) (ls : List (List Nat)) (s : JSONLIterator_next.St Nat α), ls.length + 1 ≤ n →
      s.line_iter = ls → s.ignore_errors = ignore →
      @JSONLIterator_next.loop1 Nat α _ _ _ _ ⟨parse⟩ k kb (fun e _ => .error e) n s = nextModel pyWs parse ignore ls := by
  intro n
  induction n with
  | zero => intro ls s h; omega
  | succ n ih =>
    intro ls s hn h1 h2
    cases ls with
    | nil =>
      simp only [JSONLIterator_next.loop1, h1, PyRtC19.iterNext?, nextModel]
    | cons l ls =>
      have hrec : ∀ s' : JSONLIterator_next.St Nat α, s'.line_iter = ls → s'.ignore_errors = ignore →
          @JSONLIterator_next.loop1 Nat α _ _ _ _ ⟨parse⟩ k kb (fun e _ => .error e) n s' = nextModel pyWs parse ignore ls :=
        fun s' a b => ih ls s' (by simp only [List.length_cons] at hn; omega) a b
      simp only [JSONLIterator_next.loop1, h1, h2, PyRtC19.iterNext?, PyRtC19.iterRest, List.tail_cons, strip_nat,
        PyRtC19.jsonLoadsFails, PyRtC19.jsonLoads?, nextModel, outcomeOf]
      by_cases h0 : lineNorm pyWs l = []
      · simp only [h0, not_true_eq_false, not_false_eq_true, ne_eq, if_true]
        exact hrec _ rfl rfl
      · simp only [h0, not_true_eq_false, not_false_eq_true, ne_eq, if_false]
        cases hp : parse (lineNorm pyWs l) with
        | ok v => simp
        | error e =>
          cases ignore with
          | true => simp; exact hrec _ rfl rfl
          | false => simp

/-- **the tie of `JSONLIterator.next`** (binary file): for EVERY `json.loads` (`parse`, a pure function of the line, as the
    model assumes), `ignore_errors` flag and list `ls` of lines the stored line iterator still yields, with any loop fuel
    above their number, the generated definition is the model's `nextModel`: it skips the lines `outcomeOf` gives nothing
    for (blank after `lstrip()` / `rstrip(b'\r\n')` at the regenerated strip sets; not parseable under `ignore_errors`)
    and returns the first object with the lines left, or raises what `json.loads` raised (strict mode), or StopIteration;
    never `OutOfFuel` -/
theorem src_jsonl_next_eq_model {α : Type} [Inhabited α] (parse : List Nat → Except PyExc α) (ignore : Bool)
    (ls : List (List Nat)) (lfuel : Nat) (hf : ls.length + 1 ≤ lfuel) :
    @JSONLIterator_next Nat α _ _ _ _ ⟨parse⟩ lfuel ls ignore = nextModel pyWs parse ignore ls := by
  simp only [JSONLIterator_next, JSONLIterator_next.body]
  exact jsonl_loop1_spec parse ignore _ _ lfuel ls _ hf rfl rfl

/-- what `next()` returns or raises is the head of the model's `outcomes` (StopIteration when there is none) -/
theorem nextModel_head {α : Type} (ws : Nat → Bool) (parse : List Nat → Except PyExc α) (ignore : Bool) (ls : List (List Nat)) :
    (nextModel ws parse ignore ls).map Prod.fst
      = (match outcomes ws parse ignore ls with | [] => .error PyExc.StopIteration | r :: _ => r) := by
  induction ls with
  | nil => rfl
  | cons l ls ih =>
    simp only [nextModel, outcomes, List.filterMap_cons] at ih ⊢
    cases h : outcomeOf ws parse ignore l with
    | none => simpa [h] using ih
    | some r => cases r <;> simp [Except.map]

/-- and the lines left after a successful `next()` produce the rest of `outcomes`: draining `next()` yields `outcomes` -/
theorem nextModel_rest {α : Type} (ws : Nat → Bool) (parse : List Nat → Except PyExc α) (ignore : Bool) (ls rest : List (List Nat)) (v : α)
    (h : nextModel ws parse ignore ls = .ok (v, rest)) :
    outcomes ws parse ignore ls = .ok v :: outcomes ws parse ignore rest := by
  induction ls with
  | nil => simp [nextModel] at h
  | cons l ls ih =>
    simp only [nextModel] at h
    simp only [outcomes, List.filterMap_cons] at ih ⊢
    cases ho : outcomeOf ws parse ignore l with
    | none => rw [ho] at h; simpa using ih h
    | some r =>
      rw [ho] at h
      cases r with
      | error e => simp at h
      | ok w => simp at h; obtain ⟨rfl, rfl⟩ := h; simp

/-- a `reverse_iter_lines`-based reader — `JSONLIterator(f, reverse=True)` on a binary file with content `c`: its line iterator
    is `reverse_iter_lines(f, blocksize, preseek=False)` with the file position at the end (where `_init_rel_seek` puts it
    for `rel_seek = 1.0`).  The two generated definitions compose: the first returns the lines `ls` = the model's
    `reverseIterLines c bs`, and `next()` over them is `nextModel` on those lines — so draining `next()` gives
    `outcomes … (reverseIterLines c bs)` (`nextModel_head` / `nextModel_rest`), the sequence `jsonlReverse` consumes -/
theorem src_jsonl_reverse_reader {α : Type} [Inhabited α] (parse : List Nat → Except PyExc α) (ignore : Bool)
    (c : List Nat) (bs lf1 lf2 : Nat) (hbs : 1 ≤ bs) (h1 : c.length + 1 ≤ lf1)
    (h2 : (reverseIterLines c bs).length + 1 ≤ lf2) :
    ∃ ls, reverse_iter_lines (β := Nat) lf1 c (c.length : Int) (bs : Int) false = .ok ls ∧
      @JSONLIterator_next Nat α _ _ _ _ ⟨parse⟩ lf2 ls ignore = nextModel pyWs parse ignore (reverseIterLines c bs) := by
  refine ⟨reverseIterLines c bs, ?_, src_jsonl_next_eq_model parse ignore _ lf2 h2⟩
  rw [src_reverse_iter_lines_from c bs c.length lf1 hbs (Nat.le_refl _) h1]
  simp [reverseIterLinesFrom, reverseIterLines]

example : (match @JSONLIterator_next Nat Nat _ _ _ _ ⟨fun b => if b = [120] then .error PyExc.ValueError else .ok b.length⟩
      9 [[32, 10], [120], [9, 49, 50, 13, 10], [51]] true with
    | .ok (v, rest) => (v, rest) | .error _ => (99, [])) = (2, [[51]]) := by decide

example : (match @JSONLIterator_next Nat Nat _ _ _ _ ⟨fun b => if b = [120] then .error PyExc.ValueError else .ok b.length⟩
      9 [[32, 10], [120], [49]] false with
    | .error PyExc.ValueError => true | _ => false) = true := by decide

/-! #### the same method on a TEXT-mode file (str lines; an item is a code point) -/

theorem unicodeWs_eq_pyWsT (c : Nat) : PyRtC19.unicodeWs c = pyWsT c := rfl

theorem strip_text_nat (l : List Nat) :
    PyRtC19.rstripSet (PyRtC19.lstripWsT l) (PyRtC19.bytesLit [13, 10] : List Nat) = lineNorm pyWsT l := by
  have h1 : (fun c : Nat => PyRtC19.unicodeWs (PyRtC19.Byte.val c)) = pyWsT := by
    funext c; exact unicodeWs_eq_pyWsT c
  have h2 : (fun c : Nat => (List.map PyRtC19.Byte.val ([13, 10] : List Nat)).contains (PyRtC19.Byte.val c)) = lineEnd := by
    funext c; exact crlf_eq_lineEnd c
  simp only [PyRtC19.rstripSet, PyRtC19.lstripWsT, bytesLit_nat, lineNorm, rstripBy, lstripBy, h1, h2]

theorem jsonl_text_loop1_spec {α : Type} [Inhabited α] (parse : List Nat → Except PyExc α) (ignore : Bool)
    (k kb : JSONLIterator_next_text.St Nat α → Except PyExc (α × List (List Nat))) :
    ∀ (n : Nat) (ls : List (List Nat)) (s : JSONLIterator_next_text.St Nat α), ls.length + 1 ≤ n →
      s.line_iter = ls → s.ignore_errors = ignore →
      @JSONLIterator_next_text.loop1 Nat α _ _ _ _ ⟨parse⟩ k kb (fun e _ => .error e) n s
        = nextModel pyWsT parse ignore ls := by
  intro n
  induction n with
  | zero => intro ls s h; omega
  | succ n ih =>
    intro ls s hn h1 h2
    cases ls with
    | nil =>
      simp only [JSONLIterator_next_text.loop1, h1, PyRtC19.iterNext?, nextModel]
    | cons l ls =>
      have hrec : ∀ s' : JSONLIterator_next_text.St Nat α, s'.line_iter = ls → s'.ignore_errors = ignore →
          @JSONLIterator_next_text.loop1 Nat α _ _ _ _ ⟨parse⟩ k kb (fun e _ => .error e) n s'
            = nextModel pyWsT parse ignore ls :=
        fun s' a b => ih ls s' (by simp only [List.length_cons] at hn; omega) a b
      simp only [JSONLIterator_next_text.loop1, h1, h2, PyRtC19.iterNext?, PyRtC19.iterRest, List.tail_cons, strip_text_nat,
        PyRtC19.jsonLoadsFails, PyRtC19.jsonLoads?, nextModel, outcomeOf]
      by_cases h0 : lineNorm pyWsT l = []
      · simp only [h0, not_true_eq_false, not_false_eq_true, ne_eq, if_true]
        exact hrec _ rfl rfl
      · simp only [h0, not_true_eq_false, not_false_eq_true, ne_eq, if_false]
        cases hp : parse (lineNorm pyWsT l) with
        | ok v => simp
        | error e =>
          cases ignore with
          | true => simp; exact hrec _ rfl rfl
          | false => simp

/-- **the tie of `JSONLIterator.next` on a TEXT-mode file** (str lines as lists of code points): as
    `src_jsonl_next_eq_model`, with `str.lstrip()` = the regenerated Unicode white-space table `Generated.lstripSetT`
    (`pyWsT`) and `rstrip('\r\n')`: the generated definition is `nextModel pyWsT parse ignore ls` — through
    `nextModel_head` / `nextModel_rest` the `outcomes pyWsT …` the model's `jsonlForwardT` / `jsonlReverseText` consume -/
theorem src_jsonl_next_text_eq_model {α : Type} [Inhabited α] (parse : List Nat → Except PyExc α) (ignore : Bool)
    (ls : List (List Nat)) (lfuel : Nat) (hf : ls.length + 1 ≤ lfuel) :
    @JSONLIterator_next_text Nat α _ _ _ _ ⟨parse⟩ lfuel ls ignore = nextModel pyWsT parse ignore ls := by
  simp only [JSONLIterator_next_text, JSONLIterator_next_text.body]
  exact jsonl_text_loop1_spec parse ignore _ _ lfuel ls _ hf rfl rfl

-- U+00A0 and U+2003 are stripped from the front of a str line (not of a bytes line), `\r\n` from its end
example : (match @JSONLIterator_next_text Nat Nat _ _ _ _ ⟨fun b => .ok b.length⟩
      9 [[160, 8195], [160, 49, 50, 13, 10], [51]] true with
    | .ok (v, rest) => (v, rest) | .error _ => (99, [])) = (2, [[51]]) := by decide

end C19
