import BoltonsVerif.Generated.C19_LineEndings
import BoltonsVerif.Generated.C19_StripSets
import BoltonsVerif.Generated.C19_PySplit
import BoltonsVerif.Generated.C19_RelSeek
/-
C19 — model of the boltons line readers.

Text and file contents are lists of natural numbers: Unicode code points for
`str` (`iter_splitlines`), byte values for file contents
(`reverse_iter_lines`, `JSONLIterator`).  10 = `\n`, 13 = `\r`.

Transliterations (of the code as it is after the two `fix:` commits):
  * `boltons.strutils.iter_splitlines`: `_line_ending_re.finditer` is a left-to-right
    scan that, at each position, tries the alternatives of the pattern IN ORDER
    (`firstMatch`; the list of alternatives is `Generated.lineEndings`, regenerated
    from the source on every run) and otherwise advances one character
    (`splitFirst`).  The generator yields the text before each match, an extra `''`
    when the match ends the text, and the non-empty tail (`scan`).
  * `str.splitlines` / `bytes.splitlines` (CPython, the SPEC side): `splitlinesAux`.
  * `boltons.jsonutils.reverse_iter_lines`: the `while 0 < cur_pos` loop is `revLoopS`,
    stated for an ARBITRARY read schedule `rs` (`read_size = min (rs cur_pos) cur_pos`);
    the code's schedule is the constant one, `revLoop c bs = revLoopS c (fun _ => bs)`
    (fuel = start position, enough because every round moves `cur_pos` down by
    `min blocksize cur_pos ≥ 1`); a file object is its content plus a position;
    `preseek=False` starts the loop at the current position (`reverseIterLinesFrom`).
  * `JSONLIterator.next`: `consume`; `json.loads` is a parameter `parse`; the line is
    normalised by `lineNorm` = `.lstrip()` then `.rstrip('\r\n')`, over the two byte sets
    `Generated.lstripSet` / `Generated.rstripSet` that the translator re-reads from the
    behaviour of the current code on every run.
  * `boltons.strutils.indent`: `indent` (join of the `iter_splitlines` lines).
Core Lean only.
-/
namespace C19

/-! ### iter_splitlines -/

/-- does the literal `alt` match at the head of `s`?  returns what follows the match -/
def stripPrefix? : List Nat → List Nat → Option (List Nat)
  | [], s => some s
  | _ :: _, [] => none
  | a :: as, c :: cs => if a = c then stripPrefix? as cs else none

/-- the alternation `(alt₁|alt₂|…)` at the current position: first alternative that matches,
    as (matched literal, rest).  (An empty alternative is skipped; the pattern has none —
    `C19.lineEndings_exact`.) -/
def firstMatch : List (List Nat) → List Nat → Option (List Nat × List Nat)
  | [], _ => none
  | alt :: alts, s =>
    if alt = [] then firstMatch alts s
    else match stripPrefix? alt s with
      | some rest => some (alt, rest)
      | none => firstMatch alts s

/-- the first match of the alternation anywhere in `s`: (text before it, matched literal, rest) -/
def splitFirst (alts : List (List Nat)) : List Nat → Option (List Nat × List Nat × List Nat)
  | [] => none
  | c :: cs =>
    match firstMatch alts (c :: cs) with
    | some (sep, rest) => some ([], sep, rest)
    | none =>
      match splitFirst alts cs with
      | some (l, sep, rest) => some (c :: l, sep, rest)
      | none => none

/-- the generator body, as the list of (yielded line, line ending that followed it);
    the final piece has no line ending -/
def scan (alts : List (List Nat)) : Nat → List Nat → List (List Nat × List Nat)
  | 0, _ => []
  | n + 1, s =>
    match splitFirst alts s with
    | none => if s = [] then [] else [(s, [])]
    | some (l, sep, rest) => (l, sep) :: (if rest = [] then [([], [])] else scan alts n rest)

def iterPieces (t : List Nat) : List (List Nat × List Nat) :=
  scan Generated.lineEndings (t.length + 1) t

/-- `list(iter_splitlines(t))` -/
def iterSplitlines (t : List Nat) : List (List Nat) := (iterPieces t).map (·.1)

/-! ### the specification side: CPython's `splitlines` -/

/-- put `c` in front of the first line -/
def consHead (c : Nat) : List (List Nat) → List (List Nat)
  | [] => [[c]]
  | l :: ls => (c :: l) :: ls

/-- `splitlines()` for a set of single-character line breaks `brk` (containing `\r`, `\n`)
    where `\r\n` counts as one break.  The flag says "the previous character was a `\r`
    that ended a line", so that a directly following `\n` belongs to the same break. -/
def splitlinesAux (brk : Nat → Bool) : Bool → List Nat → List (List Nat)
  | _, [] => []
  | prevCR, c :: cs =>
    if prevCR && c == 10 then splitlinesAux brk false cs
    else if brk c then [] :: splitlinesAux brk (c == 13) cs
    else consHead c (splitlinesAux brk false cs)

/-- line boundaries of `str.splitlines` -/
def strBreak (c : Nat) : Bool :=
  c == 10 || c == 11 || c == 12 || c == 13 || c == 28 || c == 29 || c == 30 ||
  c == 133 || c == 8232 || c == 8233

/-- line boundaries of `bytes.splitlines` -/
def bytesBreak (c : Nat) : Bool := c == 10 || c == 13

/-- `str.splitlines(t)` -/
def pySplitlines (t : List Nat) : List (List Nat) := splitlinesAux strBreak false t

/-- `bytes.splitlines(b)` -/
def bytesSplitlines (b : List Nat) : List (List Nat) := splitlinesAux bytesBreak false b

/-- the characters the property statement calls line breaks (LF VT FF CR NEL U+2028 U+2029) -/
def lineBreakChar (c : Nat) : Bool :=
  c == 10 || c == 11 || c == 12 || c == 13 || c == 133 || c == 8232 || c == 8233

/-- SPEC: the `splitlines` algorithm with exactly the eight forms of the statement as line breaks -/
def eightSplitlines (t : List Nat) : List (List Nat) := splitlinesAux lineBreakChar false t

def lastIs (p : Nat → Bool) : List Nat → Bool
  | [] => false
  | [c] => p c
  | _ :: cs => lastIs p cs

/-- the text ends with one of the eight line breaks -/
def endsWithBreak (t : List Nat) : Bool := lastIs lineBreakChar t

/-- the separators `\x1c \x1d \x1e`, which `str.splitlines` honours but the statement excludes -/
def isFS (c : Nat) : Bool := c == 28 || c == 29 || c == 30

/-! ### reverse_iter_lines -/

def isNL (c : Nat) : Bool := c == 10

/-- `buff[-1:] == b'\n'` -/
def endsNL (b : List Nat) : Bool := lastIs isNL b

/-- the lines of a (remaining) buffer, first to last: `splitlines()` plus a final empty
    line when the buffer ends with `\n` -/
def linesOf (b : List Nat) : List (List Nat) :=
  bytesSplitlines b ++ (if endsNL b then [[]] else [])

/-- the code after the loop: `if buff: … for line in lines[::-1]: yield line` -/
def flush (buff : List Nat) : List (List Nat) :=
  if buff = [] then [] else (linesOf buff).reverse

/-- `file_obj.seek(pos - n); file_obj.read(n)` -/
def blk (c : List Nat) (n pos : Nat) : List Nat := (c.drop (pos - n)).take n

/-- the `while 0 < cur_pos` loop followed by the flush, for an arbitrary READ SCHEDULE `rs`:
    in the round that starts at `cur_pos = pos` the loop reads `min (rs pos) pos` bytes.
    Arguments: fuel, `cur_pos`, `buff`.  (The code reads `min blocksize cur_pos`: `revLoop`.) -/
def revLoopS (c : List Nat) (rs : Nat → Nat) : Nat → Nat → List Nat → List (List Nat)
  | 0, _, buff => flush buff
  | f + 1, pos, buff =>
    if pos = 0 then flush buff
    else
      match bytesSplitlines (blk c (min (rs pos) pos) pos ++ buff) with
      | l0 :: l1 :: ls =>
        if l0 = [] then revLoopS c rs f (pos - min (rs pos) pos) (blk c (min (rs pos) pos) pos ++ buff)
        else (if endsNL (blk c (min (rs pos) pos) pos ++ buff) then [[]] else []) ++ (l1 :: ls).reverse
              ++ revLoopS c rs f (pos - min (rs pos) pos) l0
      | _ => revLoopS c rs f (pos - min (rs pos) pos) (blk c (min (rs pos) pos) pos ++ buff)

/-- the loop as written: `read_size = min(blocksize, cur_pos)` in every round -/
def revLoop (c : List Nat) (bs : Nat) : Nat → Nat → List Nat → List (List Nat) :=
  revLoopS c (fun _ => bs)

/-- `list(reverse_iter_lines(file, blocksize))` for a file with content `c` (binary mode; in text
    mode every yielded line is additionally decoded) -/
def reverseIterLines (c : List Nat) (bs : Nat) : List (List Nat) :=
  revLoop c bs c.length c.length []

/-- `list(reverse_iter_lines(file, blocksize, preseek=False))` with the file position at `p`
    ("relative reverse line generation": what `JSONLIterator(rel_seek=…, reverse=True)` uses) -/
def reverseIterLinesFrom (c : List Nat) (p bs : Nat) : List (List Nat) :=
  revLoop c bs (min p c.length) (min p c.length) []

/-- a different read schedule with the same block size: reads END on multiples of `bs`
    (the first read takes `pos % bs` bytes, every later one a whole aligned block) -/
def alignedRead (bs pos : Nat) : Nat := if pos % bs = 0 then bs else pos % bs

/-- every `\r` is immediately followed by `\n` (the contents the statement speaks about) -/
def noLoneCR : List Nat → Bool
  | [] => true
  | [c] => c != 13
  | c :: d :: cs => (c != 13 || d == 10) && noLoneCR (d :: cs)

/-- SPEC: the `\n`- or `\r\n`-separated pieces of a content, each without its line break
    (a `\r` not followed by `\n` is an ordinary byte); a content with k breaks has k+1 pieces -/
def sepLines : List Nat → List (List Nat)
  | [] => [[]]
  | [c] => if c = 10 then [[], []] else [[c]]
  | c :: d :: cs =>
    if c = 13 ∧ d = 10 then [] :: sepLines cs
    else if c = 10 then [] :: sepLines (d :: cs)
    else consHead c (sepLines (d :: cs))

/-! ### text mode: every yielded line is decoded as UTF-8 -/

def isCont (b : Nat) : Bool := 128 ≤ b && b ≤ 191

/-- well-formed UTF-8; `sp` = lone surrogates (ED A0..BF xx) allowed, as with the error handler
    'surrogatepass' that `json.loads` uses for bytes; `sp = false` is the strict codec of
    `line.decode('utf-8')` in `reverse_iter_lines` -/
def validUtf8G (sp : Bool) : List Nat → Bool
  | [] => true
  | b :: rest =>
    if b < 128 then validUtf8G sp rest
    else if 194 ≤ b && b ≤ 223 then
      match rest with
      | c1 :: r => isCont c1 && validUtf8G sp r
      | _ => false
    else if 224 ≤ b && b ≤ 239 then
      match rest with
      | c1 :: c2 :: r =>
        isCont c1 && isCont c2 && (b != 224 || 160 ≤ c1) && (b != 237 || sp || c1 ≤ 159) && validUtf8G sp r
      | _ => false
    else if 240 ≤ b && b ≤ 244 then
      match rest with
      | c1 :: c2 :: c3 :: r =>
        isCont c1 && isCont c2 && isCont c3 && (b != 240 || 144 ≤ c1) && (b != 244 || c1 ≤ 143)
          && validUtf8G sp r
      | _ => false
    else false

/-- UTF-8 as accepted by `bytes.decode('utf-8', 'surrogatepass')` -/
def validUtf8 (l : List Nat) : Bool := validUtf8G true l

/-- UTF-8 as accepted by `bytes.decode('utf-8')`: what a text-mode file holds, and what
    `reverse_iter_lines` requires of every line it yields in text mode -/
def strictUtf8 (l : List Nat) : Bool := validUtf8G false l

/-- `bytes.decode('utf-8')` (`sp = false`) / with 'surrogatepass' (`sp = true`): the code points, or
    `none` where the codec raises UnicodeDecodeError -/
def decodeG (sp : Bool) : List Nat → Option (List Nat)
  | [] => some []
  | b :: rest =>
    if b < 128 then (decodeG sp rest).map (b :: ·)
    else if 194 ≤ b && b ≤ 223 then
      match rest with
      | c1 :: r =>
        if isCont c1 then (decodeG sp r).map (((b - 192) * 64 + (c1 - 128)) :: ·) else none
      | _ => none
    else if 224 ≤ b && b ≤ 239 then
      match rest with
      | c1 :: c2 :: r =>
        if isCont c1 && isCont c2 && (b != 224 || 160 ≤ c1) && (b != 237 || sp || c1 ≤ 159) then
          (decodeG sp r).map (((b - 224) * 4096 + (c1 - 128) * 64 + (c2 - 128)) :: ·)
        else none
      | _ => none
    else if 240 ≤ b && b ≤ 244 then
      match rest with
      | c1 :: c2 :: c3 :: r =>
        if isCont c1 && isCont c2 && isCont c3 && (b != 240 || 144 ≤ c1) && (b != 244 || c1 ≤ 143) then
          (decodeG sp r).map (((b - 240) * 262144 + (c1 - 128) * 4096 + (c2 - 128) * 64 + (c3 - 128)) :: ·)
        else none
      | _ => none
    else none

/-- `list(reverse_iter_lines(text_file, blocksize))`: every line decoded with the strict codec;
    `none` marks a line on which `line.decode('utf-8')` raises -/
def reverseIterLinesText (c : List Nat) (bs : Nat) : List (Option (List Nat)) :=
  (reverseIterLines c bs).map (decodeG false)

/-! ### JSONLIterator -/

/-- what `.lstrip()` strips from a line (the table is regenerated from the code's behaviour) -/
def pyWs (c : Nat) : Bool := Generated.lstripSet.contains c

/-- what `.lstrip()` strips from a line of a text-mode file (`str.lstrip`: Unicode white space;
    regenerated likewise, as code points) -/
def pyWsT (c : Nat) : Bool := Generated.lstripSetT.contains c

/-- what `.rstrip('\r\n')` strips (regenerated likewise) -/
def lineEnd (c : Nat) : Bool := Generated.rstripSet.contains c

def lstripBy (ws : Nat → Bool) (l : List Nat) : List Nat := l.dropWhile ws

def rstripBy (rs : Nat → Bool) (l : List Nat) : List Nat := (l.reverse.dropWhile rs).reverse

def lstrip (l : List Nat) : List Nat := lstripBy pyWs l

/-- `line.lstrip().rstrip('\r\n')`: what `json.loads` is handed -/
def lineNorm (ws : Nat → Bool) (l : List Nat) : List Nat := rstripBy lineEnd (lstripBy ws l)

/-- draining `JSONLIterator.next` over the lines its `_line_iter` produces:
    (objects yielded, the error that ended the iteration if any) -/
def consume {α ε : Type} (ws : Nat → Bool) (parse : List Nat → Except ε α) (ignore : Bool) :
    List (List Nat) → List α × Option ε
  | [] => ([], none)
  | l :: ls =>
    if lineNorm ws l = [] then consume ws parse ignore ls
    else match parse (lineNorm ws l) with
      | .ok v => ((v :: (consume ws parse ignore ls).1), (consume ws parse ignore ls).2)
      | .error e => if ignore then consume ws parse ignore ls else ([], some e)

/-- iterating a binary file: pieces ending after each `\n`, line break kept -/
def fileLinesB : List Nat → List (List Nat)
  | [] => []
  | c :: cs => if c = 10 then [10] :: fileLinesB cs else consHead c (fileLinesB cs)

/-- iterating a text-mode file (universal newlines): `\n`, `\r`, `\r\n` all end a line and are
    translated to `\n` -/
def fileLinesT : Bool → List Nat → List (List Nat)
  | _, [] => []
  | prevCR, c :: cs =>
    if prevCR && c == 10 then fileLinesT false cs
    else if bytesBreak c then [10] :: fileLinesT (c == 13) cs
    else consHead c (fileLinesT false cs)

/-- forward mode, binary file -/
def jsonlForwardB {α ε : Type} (ws : Nat → Bool) (parse : List Nat → Except ε α) (ignore : Bool) (c : List Nat) :=
  consume ws parse ignore (fileLinesB c)

/-- forward mode, text-mode file -/
def jsonlForwardT {α ε : Type} (ws : Nat → Bool) (parse : List Nat → Except ε α) (ignore : Bool) (c : List Nat) :=
  consume ws parse ignore (fileLinesT false c)

/-- reverse mode (either kind of file) with block size `bs` -/
def jsonlReverse {α ε : Type} (ws : Nat → Bool) (parse : List Nat → Except ε α) (ignore : Bool) (bs : Nat) (c : List Nat) :=
  consume ws parse ignore (reverseIterLines c bs)


/-- reverse mode on a TEXT-mode file as the code does it: the byte lines of `reverse_iter_lines`,
    each decoded (a line that does not decode would raise; `reverse_lines_text_no_error`), then `next` -/
def jsonlReverseText {α ε : Type} (ws : Nat → Bool) (parse : List Nat → Except ε α) (ignore : Bool)
    (bs : Nat) (c : List Nat) :=
  consume ws parse ignore ((reverseIterLinesText c bs).filterMap id)

/-- what one line contributes to the sequence of `next()` results: nothing (a blank line, or an
    undecodable one under `ignore_errors`), an object, or the error `next()` raises in strict mode —
    after which the caller may go on calling `next()`: the line iterator has moved past the line -/
def outcomeOf {α ε : Type} (ws : Nat → Bool) (parse : List Nat → Except ε α) (ignore : Bool) (l : List Nat) :
    Option (Except ε α) :=
  if lineNorm ws l = [] then none
  else match parse (lineNorm ws l) with
    | .ok v => some (.ok v)
    | .error e => if ignore then none else some (.error e)

/-- the result of every `next()` call until StopIteration, errors included (iteration resumed
    after each error) -/
def outcomes {α ε : Type} (ws : Nat → Bool) (parse : List Nat → Except ε α) (ignore : Bool) (ls : List (List Nat)) :
    List (Except ε α) :=
  ls.filterMap (outcomeOf ws parse ignore)

/-- draining with a plain `for` loop: the objects before the first error, and that error -/
def untilError {α ε : Type} : List (Except ε α) → List α × Option ε
  | [] => ([], none)
  | .ok v :: r => (v :: (untilError r).1, (untilError r).2)
  | .error e :: _ => ([], some e)

/-- forward mode: `cur_byte_pos` (= `file.tell()`) read after each object a plain loop yields;
    `pos` = offset of the start of the first line -/
def consumePos {α ε : Type} (ws : Nat → Bool) (parse : List Nat → Except ε α) (ignore : Bool) : Nat → List (List Nat) → List Nat
  | _, [] => []
  | pos, l :: ls =>
    if lineNorm ws l = [] then consumePos ws parse ignore (pos + l.length) ls
    else match parse (lineNorm ws l) with
      | .ok _ => (pos + l.length) :: consumePos ws parse ignore (pos + l.length) ls
      | .error _ => if ignore then consumePos ws parse ignore (pos + l.length) ls else []

def jsonlForwardPosB {α ε : Type} (ws : Nat → Bool) (parse : List Nat → Except ε α) (ignore : Bool) (c : List Nat) : List Nat :=
  consumePos ws parse ignore 0 (fileLinesB c)

/-! ### JSONLIterator(rel_seek=…): start somewhere inside a text-mode file -/

/-- offset of the first `\n` / `\r` in `s` (universal newlines present both to
    `_align_to_newline` as `'\n'`); `none`: there is none -/
def firstBreak : List Nat → Option Nat
  | [] => none
  | c :: cs => if bytesBreak c then some 0 else (firstBreak cs).map (· + 1)

/-- `_init_rel_seek` + `_align_to_newline` on a text-mode file of single-byte characters:
    `fo.seek(target)`, read on until a block contains `'\n'`, `fo.seek` ON that line break.
    When no line break follows the target: with `eofOk` the file is left at its end; without, the
    `while '\n' not in cur` loop of the code never ends (`none`: outside the model's domain, the
    harness does not generate it).  Which of the two the current code does is regenerated on every
    run (`Generated.alignStopsAtEof`). -/
def alignToNewlineE (eofOk : Bool) (c : List Nat) (target : Nat) : Option Nat :=
  match firstBreak (c.drop target) with
  | some i => some (target + i)
  | none => if eofOk then some c.length else none

def alignToNewline (c : List Nat) (target : Nat) : Option Nat :=
  alignToNewlineE Generated.alignStopsAtEof c target

/-- `JSONLIterator(f, ignore_errors, reverse, rel_seek)` drained, `target = int(size * rel_seek)`:
    forward mode reads the lines from the aligned position on, reverse mode the lines before it -/
def jsonlRelSeekE {α ε : Type} (eofOk : Bool) (ws : Nat → Bool) (parse : List Nat → Except ε α)
    (ignore reverse : Bool) (bs : Nat) (c : List Nat) (target : Nat) : Option (List α × Option ε) :=
  match alignToNewlineE eofOk c target with
  | none => none
  | some p =>
    some (if reverse then consume ws parse ignore (reverseIterLinesFrom c p bs)
          else consume ws parse ignore (fileLinesT false (c.drop p)))

def jsonlRelSeek {α ε : Type} (ws : Nat → Bool) (parse : List Nat → Except ε α) (ignore reverse : Bool)
    (bs : Nat) (c : List Nat) (target : Nat) : Option (List α × Option ε) :=
  jsonlRelSeekE Generated.alignStopsAtEof ws parse ignore reverse bs c target

/-- `rel_seek=0.0` is special-cased by `_init_rel_seek`: position 0, no alignment -/
def jsonlRelSeekZero {α ε : Type} (ws : Nat → Bool) (parse : List Nat → Except ε α) (ignore reverse : Bool) (bs : Nat)
    (c : List Nat) : List α × Option ε :=
  if reverse then consume ws parse ignore (reverseIterLinesFrom c 0 bs)
  else consume ws parse ignore (fileLinesT false c)

/-- SPEC: the object a line contributes when errors are ignored: none for a blank line
    (nothing left after `line.lstrip().rstrip('\r\n')`) and for an undecodable one -/
def objOf {α ε : Type} (ws : Nat → Bool) (parse : List Nat → Except ε α) (l : List Nat) : Option α :=
  if lineNorm ws l = [] then none
  else match parse (lineNorm ws l) with
    | .ok v => some v
    | .error _ => none

/-! ### indent -/

/-- `newline.join(parts)` -/
def joinWith (sep : List Nat) : List (List Nat) → List Nat
  | [] => []
  | [l] => l
  | l :: l' :: ls => l ++ sep ++ joinWith sep (l' :: ls)

/-- `boltons.strutils.indent(text, margin, newline, key)` -/
def indent (key : List Nat → Bool) (margin newline t : List Nat) : List Nat :=
  joinWith newline ((iterSplitlines t).map fun l => if key l then margin ++ l else l)

/-- the default `key=bool` -/
def keyBool (l : List Nat) : Bool := !l.isEmpty

end C19
