import BoltonsVerif.Generated.C19_LineEndings
/-
C19 — model of the boltons line readers.

Text and file contents are lists of natural numbers: Unicode code points for
`str` (`iter_splitlines`), byte values for file contents
(`reverse_iter_lines`, `JSONLIterator`).  10 = `\n`, 13 = `\r`.

Transliterations (of the code as it is after the two `fix:` commits):
  * `boltons.strutils.iter_splitlines`: `_line_ending_re.finditer` is a left-to-right
    scan that, at each position, tries the alternatives of the pattern IN ORDER
    (`firstMatch`; the list of alternatives is `Generated.lineEndings`, regenerated
    from the source on every run) and otherwise advances one character
    (`splitFirst`).  The generator yields the text before each match, an extra `''`
    when the match ends the text, and the non-empty tail (`scan`).
  * `str.splitlines` / `bytes.splitlines` (CPython, the SPEC side): `splitlinesAux`.
  * `boltons.jsonutils.reverse_iter_lines`: the `while 0 < cur_pos` loop is `revLoop`
    (fuel = content length, enough because every round moves `cur_pos` down by
    `min blocksize cur_pos ≥ 1`); a file object is its content plus a position.
  * `JSONLIterator.next`: `consume`; `json.loads` is a parameter `parse`.
Core Lean only.
-/
namespace C19

/-! ### iter_splitlines -/

/-- does the literal `alt` match at the head of `s`?  returns what follows the match -/
def stripPrefix? : List Nat → List Nat → Option (List Nat)
  | [], s => some s
  | _ :: _, [] => none
  | a :: as, c :: cs => if a = c then stripPrefix? as cs else none

/-- the alternation `(alt₁|alt₂|…)` at the current position: first alternative that matches,
    as (matched literal, rest).  (An empty alternative is skipped; the pattern has none —
    `C19.lineEndings_exact`.) -/
def firstMatch : List (List Nat) → List Nat → Option (List Nat × List Nat)
  | [], _ => none
  | alt :: alts, s =>
    if alt = [] then firstMatch alts s
    else match stripPrefix? alt s with
      | some rest => some (alt, rest)
      | none => firstMatch alts s

/-- the first match of the alternation anywhere in `s`: (text before it, matched literal, rest) -/
def splitFirst (alts : List (List Nat)) : List Nat → Option (List Nat × List Nat × List Nat)
  | [] => none
  | c :: cs =>
    match firstMatch alts (c :: cs) with
    | some (sep, rest) => some ([], sep, rest)
    | none =>
      match splitFirst alts cs with
      | some (l, sep, rest) => some (c :: l, sep, rest)
      | none => none

/-- the generator body, as the list of (yielded line, line ending that followed it);
    the final piece has no line ending -/
def scan (alts : List (List Nat)) : Nat → List Nat → List (List Nat × List Nat)
  | 0, _ => []
  | n + 1, s =>
    match splitFirst alts s with
    | none => if s = [] then [] else [(s, [])]
    | some (l, sep, rest) => (l, sep) :: (if rest = [] then [([], [])] else scan alts n rest)

def iterPieces (t : List Nat) : List (List Nat × List Nat) :=
  scan Generated.lineEndings (t.length + 1) t

/-- `list(iter_splitlines(t))` -/
def iterSplitlines (t : List Nat) : List (List Nat) := (iterPieces t).map (·.1)

/-! ### the specification side: CPython's `splitlines` -/

/-- put `c` in front of the first line -/
def consHead (c : Nat) : List (List Nat) → List (List Nat)
  | [] => [[c]]
  | l :: ls => (c :: l) :: ls

/-- `splitlines()` for a set of single-character line breaks `brk` (containing `\r`, `\n`)
    where `\r\n` counts as one break.  The flag says "the previous character was a `\r`
    that ended a line", so that a directly following `\n` belongs to the same break. -/
def splitlinesAux (brk : Nat → Bool) : Bool → List Nat → List (List Nat)
  | _, [] => []
  | prevCR, c :: cs =>
    if prevCR && c == 10 then splitlinesAux brk false cs
    else if brk c then [] :: splitlinesAux brk (c == 13) cs
    else consHead c (splitlinesAux brk false cs)

/-- line boundaries of `str.splitlines` -/
def strBreak (c : Nat) : Bool :=
  c == 10 || c == 11 || c == 12 || c == 13 || c == 28 || c == 29 || c == 30 ||
  c == 133 || c == 8232 || c == 8233

/-- line boundaries of `bytes.splitlines` -/
def bytesBreak (c : Nat) : Bool := c == 10 || c == 13

/-- `str.splitlines(t)` -/
def pySplitlines (t : List Nat) : List (List Nat) := splitlinesAux strBreak false t

/-- `bytes.splitlines(b)` -/
def bytesSplitlines (b : List Nat) : List (List Nat) := splitlinesAux bytesBreak false b

/-- the characters the property statement calls line breaks (LF VT FF CR NEL U+2028 U+2029) -/
def lineBreakChar (c : Nat) : Bool :=
  c == 10 || c == 11 || c == 12 || c == 13 || c == 133 || c == 8232 || c == 8233

/-- SPEC: the `splitlines` algorithm with exactly the eight forms of the statement as line breaks -/
def eightSplitlines (t : List Nat) : List (List Nat) := splitlinesAux lineBreakChar false t

def lastIs (p : Nat → Bool) : List Nat → Bool
  | [] => false
  | [c] => p c
  | _ :: cs => lastIs p cs

/-- the text ends with one of the eight line breaks -/
def endsWithBreak (t : List Nat) : Bool := lastIs lineBreakChar t

/-- the separators `\x1c \x1d \x1e`, which `str.splitlines` honours but the statement excludes -/
def isFS (c : Nat) : Bool := c == 28 || c == 29 || c == 30

/-! ### reverse_iter_lines -/

def isNL (c : Nat) : Bool := c == 10

/-- `buff[-1:] == b'\n'` -/
def endsNL (b : List Nat) : Bool := lastIs isNL b

/-- the lines of a (remaining) buffer, first to last: `splitlines()` plus a final empty
    line when the buffer ends with `\n` -/
def linesOf (b : List Nat) : List (List Nat) :=
  bytesSplitlines b ++ (if endsNL b then [[]] else [])

/-- the code after the loop: `if buff: … for line in lines[::-1]: yield line` -/
def flush (buff : List Nat) : List (List Nat) :=
  if buff = [] then [] else (linesOf buff).reverse

/-- `file_obj.seek(pos - read_size); file_obj.read(read_size)` with `read_size = min(bs, pos)` -/
def block (c : List Nat) (bs pos : Nat) : List Nat :=
  (c.drop (pos - min bs pos)).take (min bs pos)

/-- the `while 0 < cur_pos` loop followed by the flush; arguments: fuel, `cur_pos`, `buff` -/
def revLoop (c : List Nat) (bs : Nat) : Nat → Nat → List Nat → List (List Nat)
  | 0, _, buff => flush buff
  | f + 1, pos, buff =>
    if pos = 0 then flush buff
    else
      match bytesSplitlines (block c bs pos ++ buff) with
      | l0 :: l1 :: ls =>
        if l0 = [] then revLoop c bs f (pos - min bs pos) (block c bs pos ++ buff)
        else (if endsNL (block c bs pos ++ buff) then [[]] else []) ++ (l1 :: ls).reverse
              ++ revLoop c bs f (pos - min bs pos) l0
      | _ => revLoop c bs f (pos - min bs pos) (block c bs pos ++ buff)

/-- `list(reverse_iter_lines(file, blocksize))` for a file with content `c` (binary mode; in text
    mode every yielded line is additionally decoded) -/
def reverseIterLines (c : List Nat) (bs : Nat) : List (List Nat) :=
  revLoop c bs c.length c.length []

/-- every `\r` is immediately followed by `\n` (the contents the statement speaks about) -/
def noLoneCR : List Nat → Bool
  | [] => true
  | [c] => c != 13
  | c :: d :: cs => (c != 13 || d == 10) && noLoneCR (d :: cs)

/-- SPEC: the `\n`- or `\r\n`-separated pieces of a content, each without its line break
    (a `\r` not followed by `\n` is an ordinary byte); a content with k breaks has k+1 pieces -/
def sepLines : List Nat → List (List Nat)
  | [] => [[]]
  | [c] => if c = 10 then [[], []] else [[c]]
  | c :: d :: cs =>
    if c = 13 ∧ d = 10 then [] :: sepLines cs
    else if c = 10 then [] :: sepLines (d :: cs)
    else consHead c (sepLines (d :: cs))

/-! ### JSONLIterator -/

/-- what `bytes.lstrip()` strips -/
def pyWs (c : Nat) : Bool := c == 32 || c == 9 || c == 10 || c == 13 || c == 11 || c == 12

def lstrip (l : List Nat) : List Nat := l.dropWhile pyWs

/-- draining `JSONLIterator.next` over the lines its `_line_iter` produces:
    (objects yielded, the error that ended the iteration if any) -/
def consume {α ε : Type} (parse : List Nat → Except ε α) (ignore : Bool) :
    List (List Nat) → List α × Option ε
  | [] => ([], none)
  | l :: ls =>
    if lstrip l = [] then consume parse ignore ls
    else match parse (lstrip l) with
      | .ok v => ((v :: (consume parse ignore ls).1), (consume parse ignore ls).2)
      | .error e => if ignore then consume parse ignore ls else ([], some e)

/-- iterating a binary file: pieces ending after each `\n`, line break kept -/
def fileLinesB : List Nat → List (List Nat)
  | [] => []
  | c :: cs => if c = 10 then [10] :: fileLinesB cs else consHead c (fileLinesB cs)

/-- iterating a text-mode file (universal newlines): `\n`, `\r`, `\r\n` all end a line and are
    translated to `\n` -/
def fileLinesT : Bool → List Nat → List (List Nat)
  | _, [] => []
  | prevCR, c :: cs =>
    if prevCR && c == 10 then fileLinesT false cs
    else if bytesBreak c then [10] :: fileLinesT (c == 13) cs
    else consHead c (fileLinesT false cs)

/-- forward mode, binary file -/
def jsonlForwardB {α ε : Type} (parse : List Nat → Except ε α) (ignore : Bool) (c : List Nat) :=
  consume parse ignore (fileLinesB c)

/-- forward mode, text-mode file -/
def jsonlForwardT {α ε : Type} (parse : List Nat → Except ε α) (ignore : Bool) (c : List Nat) :=
  consume parse ignore (fileLinesT false c)

/-- reverse mode (either kind of file) with block size `bs` -/
def jsonlReverse {α ε : Type} (parse : List Nat → Except ε α) (ignore : Bool) (bs : Nat) (c : List Nat) :=
  consume parse ignore (reverseIterLines c bs)


/-- SPEC: the object a line contributes when errors are ignored: none for a blank line
    (`line.lstrip()` empty) and for an undecodable one -/
def objOf {α ε : Type} (parse : List Nat → Except ε α) (l : List Nat) : Option α :=
  if lstrip l = [] then none
  else match parse (lstrip l) with
    | .ok v => some v
    | .error _ => none

/-- assumption on `json.loads`: a trailing line break (`\n` or `\r\n`) does not change the result -/
def IgnoresBreak {α ε : Type} (parse : List Nat → Except ε α) : Prop :=
  ∀ x, parse (x ++ [10]) = parse x ∧ parse (x ++ [13, 10]) = parse x

end C19
