import BoltonsVerif.C19.Driver
def main : IO Unit := BV.mainLoop C19.Driver.handle
