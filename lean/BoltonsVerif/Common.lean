/-
Shared helpers for the line-protocol drivers (core Lean only, no Mathlib).

A driver is a pure function `String → String` applied to every input line;
`BV.mainLoop` reads stdin to EOF.  A line the model cannot parse yields the
literal `bad-op` (never a default value).
-/
namespace BV

def splitOnChar (s : String) (c : Char) : List String :=
  s.splitOn (String.singleton c)

def words (s : String) : List String :=
  (s.splitOn " ").filter (fun w => w ≠ "")

def hexVal? (c : Char) : Option Nat :=
  if '0' ≤ c ∧ c ≤ '9' then some (c.toNat - '0'.toNat)
  else if 'a' ≤ c ∧ c ≤ 'f' then some (c.toNat - 'a'.toNat + 10)
  else if 'A' ≤ c ∧ c ≤ 'F' then some (c.toNat - 'A'.toNat + 10)
  else none

def hexDigit (n : Nat) : Char :=
  if n < 10 then Char.ofNat (n + '0'.toNat) else Char.ofNat (n - 10 + 'a'.toNat)

/-- decode `"68656c"` into bytes; `none` on odd length / non-hex -/
def hexToBytes? (s : String) : Option (List UInt8) :=
  let rec go : List Char → List UInt8 → Option (List UInt8)
    | [], acc => some acc.reverse
    | [_], _ => none
    | a :: b :: rest, acc =>
      match hexVal? a, hexVal? b with
      | some x, some y => go rest (UInt8.ofNat (x * 16 + y) :: acc)
      | _, _ => none
  go s.toList []

def bytesToHex (bs : List UInt8) : String :=
  String.ofList (bs.flatMap fun b => [hexDigit (b.toNat / 16), hexDigit (b.toNat % 16)])

/-- strings travel as hex of their UTF-8 encoding; `-` is the empty string -/
def hexToString? (s : String) : Option String :=
  if s = "-" then some "" else
  match hexToBytes? s with
  | none => none
  | some bs => String.fromUTF8? (ByteArray.mk bs.toArray)

def stringToHex (s : String) : String :=
  if s.isEmpty then "-" else bytesToHex s.toUTF8.toList

/-- code points as decimal numbers separated by `.`; `-` is the empty string.
    (used where lone surrogates / exact code points matter) -/
def cpsToString? (s : String) : Option String :=
  if s = "-" then some "" else
  (splitOnChar s '.').foldr (fun w acc =>
    match acc, w.toNat? with
    | some cs, some n => if h : n.isValidChar then some (String.singleton (Char.ofNatAux n h) ++ cs) else none
    | _, _ => none) (some "")

def stringToCps (s : String) : String :=
  if s.isEmpty then "-" else ".".intercalate (s.toList.map fun c => toString c.toNat)

def natList? (s : String) (sep : Char := ',') : Option (List Nat) :=
  if s = "-" ∨ s = "" then some [] else
  (splitOnChar s sep).foldr (fun w acc =>
    match acc, w.toNat? with
    | some l, some n => some (n :: l)
    | _, _ => none) (some [])

def intList? (s : String) (sep : Char := ',') : Option (List Int) :=
  if s = "-" ∨ s = "" then some [] else
  (splitOnChar s sep).foldr (fun w acc =>
    match acc, w.toInt? with
    | some l, some n => some (n :: l)
    | _, _ => none) (some [])

def showNats (l : List Nat) (sep : String := ",") : String :=
  if l.isEmpty then "-" else sep.intercalate (l.map toString)

def showInts (l : List Int) (sep : String := ",") : String :=
  if l.isEmpty then "-" else sep.intercalate (l.map toString)

partial def mainLoop (handle : String → String) : IO Unit := do
  let stdin ← IO.getStdin
  let stdout ← IO.getStdout
  let rec loop : IO Unit := do
    let line ← stdin.getLine
    if line.isEmpty then return ()
    let l := String.ofList ((line.toList.reverse.dropWhile (fun c => c = '\n' ∨ c = '\r')).reverse)
    stdout.putStrLn (handle l)
    loop
  loop
  stdout.flush

end BV
