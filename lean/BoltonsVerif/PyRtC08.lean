/-
PyRtC08 — runtime library of `harness/py2lean_c08.py`, the source translator for functions that walk / rebuild an
OBJECT GRAPH through duck-typed operations (round 3e; `boltons.iterutils.default_visit`, `default_enter`,
`default_exit`, `get_path`; rules: notes/SRCTIE.md, section "Object-graph mode").  Trusted like `PyRt.lean`; validated
against CPython by `py2lean_c08.selftest`.

1. VALUES.  A Python object of unknown class is a value of the type parameter `V` (an object REFERENCE: copying it
   never copies the object), a path segment / key is a value of `K`, the object store is a value of `σ` that every
   generated definition threads through (parameter `s`, result component).  Nothing is assumed about `V`, `K`, `σ`.

2. DECLARED OPERATIONS.  Everything the source does to such an object (`isinstance` against an ABC, `cur[seg]`,
   `int(seg)`, `value.__class__()`, `ItemsView(value)`, `enumerate(value)`, `.update`, `.extend`, `cls(vals)`) is a
   field of the parameter record `Ops σ V K`.  Operations that can raise return `Except Exc _`; operations that
   mutate or allocate return the new store.  An iterator (`ItemsView`, `enumerate`) is the list it yields when it is
   consumed (`remap` consumes it before the store changes).

3. EXCEPTIONS are values: the class only (`Exc`); constructor arguments (messages, the payload of `PathAccessError`)
   are not translated.  `Exc.isA e c` is `isinstance(e, c)` for the classes named here (`PathAccessError` derives from
   `KeyError`, `IndexError` and `TypeError`).  The store after a raised exception is not part of the result.
-/

namespace PyRtC08

/-- exception classes (as values) -/
inductive Exc
  | KeyError | IndexError | TypeError | ValueError | AttributeError | RuntimeError | PathAccessError | Other
  | UnboundLocalError | OutOfFuel
deriving DecidableEq, Repr

/-- `isinstance(e, c)` / what `except c:` catches -/
def Exc.isA (e c : Exc) : Bool :=
  e == c || (e == .PathAccessError && (c == .KeyError || c == .IndexError || c == .TypeError))

/-- the spec-declared operations on objects -/
structure Ops (σ V K : Type) where
  /-- `cur[seg]` -/
  getitem : σ → V → K → Except Exc V
  /-- `int(seg)` -/
  toInt : K → Except Exc K
  /-- `is_iterable(cur)` -/
  isIterable : σ → V → Bool
  /-- `isinstance(value, (str, bytes))` -/
  isStrBytes : σ → V → Bool
  /-- `isinstance(value, str)` -/
  isStr : σ → V → Bool
  /-- `isinstance(value, bytes)` -/
  isBytes : σ → V → Bool
  /-- `isinstance(value, Mapping)` -/
  isMapping : σ → V → Bool
  /-- `isinstance(value, Sequence)` -/
  isSequence : σ → V → Bool
  /-- `isinstance(value, Set)` -/
  isSet : σ → V → Bool
  /-- `value.__class__()`: a new empty object of the class of `value` -/
  newOfClass : σ → V → Except Exc (V × σ)
  /-- `ItemsView(value)`, as the pairs it yields -/
  itemsView : σ → V → List (K × V)
  /-- `enumerate(value)`, as the pairs it yields -/
  enumerate : σ → V → List (K × V)
  /-- `obj.update(pairs)` (a mapping's update with a list of pairs) -/
  updatePairs : σ → V → List (K × V) → Except Exc σ
  /-- `obj.update(vals)` (a set's update with a list of members; `AttributeError` for a frozenset) -/
  updateVals : σ → V → List V → Except Exc σ
  /-- `obj.extend(vals)` (`AttributeError` for a tuple) -/
  extend : σ → V → List V → Except Exc σ
  /-- `obj.__class__(vals)`: a new object of the class of `obj` built from a list -/
  classOfVals : σ → V → List V → Except Exc (V × σ)

/-- result of a translated function: the value returned and the store, or the exception class -/
abbrev R (σ α : Type) := Except Exc (α × σ)

/-- what `default_enter` returns: `(new_parent, False)` = `(new_parent, none)`, `(new_parent, iterator)` -/
abbrev EnterRes (V K : Type) := V × Option (List (K × V))

/-! ## loop mode: the explicit-stack machine of `remap`

The work stack holds two kinds of entries which the source tells apart by `key is _REMAP_EXIT`: `(key, value)` and
`(_REMAP_EXIT, (key, new_parent, old_parent))`.  A Python list used as a stack (`pop()` / `append` /
`extend(reversed(list(..)))`) is represented TOP FIRST.  `id(x)` is the reference `x` itself: the registry is an
association list keyed by references (two references have the same `id` iff they are equal; the source keeps every
traversed object alive, so no `id` is reused).  Callbacks are parameters; `OutOfFuel` is not Python (a `while` loop did
not finish within the fuel), `UnboundLocalError` is a local read before any assignment. -/

/-- an entry of the work stack -/
inductive Frame (V K : Type)
  | item (k : K) (v : V)
  | exit (k : K) (np old : V)

/-- what a `visit` callback returns: `True`, `False` or a `(key, value)` pair -/
inductive VisitRes (V K : Type)
  | true_
  | false_
  | pair (k : K) (v : V)

abbrev EnterFn (σ V K : Type) := σ → List K → K → V → R σ (EnterRes V K)
abbrev ExitFn (σ V K : Type) := σ → List K → K → V → V → List (K × V) → R σ V
abbrev VisitFn (σ V K : Type) := σ → List K → K → V → R σ (VisitRes V K)

/-- `registry[id(x)]` (`none`: `id(x) not in registry`); the LAST assignment wins = the first entry -/
def regLookup {V : Type} [DecidableEq V] : List (V × V) → V → Option V
  | [], _ => none
  | (a, b) :: r, x => if a = x then some b else regLookup r x

/-- `registry[id(x)]` as an expression -/
def regGet {V : Type} [DecidableEq V] (r : List (V × V)) (x : V) : Except Exc V :=
  match regLookup r x with
  | some v => .ok v
  | none => .error .KeyError

end PyRtC08
