/-
PyRtC08 — runtime library of `harness/py2lean_c08.py`, the source translator for functions that walk / rebuild an
OBJECT GRAPH through duck-typed operations (round 3e; `boltons.iterutils.default_visit`, `default_enter`,
`default_exit`, `get_path`; rules: notes/SRCTIE.md, section "Object-graph mode").  Trusted like `PyRt.lean`; validated
against CPython by `py2lean_c08.selftest`.

1. VALUES.  A Python object of unknown class is a value of the type parameter `V` (an object REFERENCE: copying it
   never copies the object), a path segment / key is a value of `K`, the object store is a value of `σ` that every
   generated definition threads through (parameter `s`, result component).  Nothing is assumed about `V`, `K`, `σ`.

2. DECLARED OPERATIONS.  Everything the source does to such an object (`isinstance` against an ABC, `cur[seg]`,
   `int(seg)`, `value.__class__()`, `ItemsView(value)`, `enumerate(value)`, `.update`, `.extend`, `cls(vals)`) is a
   field of the parameter record `Ops σ V K`.  Operations that can raise return `Except Exc _`; operations that
   mutate or allocate return the new store.  An iterator (`ItemsView`, `enumerate`) is the list it yields when it is
   consumed (`remap` consumes it before the store changes).

3. EXCEPTIONS are values: the class only (`Exc`); constructor arguments (messages, the payload of `PathAccessError`)
   are not translated.  `Exc.isA e c` is `isinstance(e, c)` for the classes named here (`PathAccessError` derives from
   `KeyError`, `IndexError` and `TypeError`).  The store after a raised exception is not part of the result.
-/

namespace PyRtC08

/-- exception classes (as values) -/
inductive Exc
  | KeyError | IndexError | TypeError | ValueError | AttributeError | RuntimeError | PathAccessError | Other
deriving DecidableEq, Repr

/-- `isinstance(e, c)` / what `except c:` catches -/
def Exc.isA (e c : Exc) : Bool :=
  e == c || (e == .PathAccessError && (c == .KeyError || c == .IndexError || c == .TypeError))

/-- the spec-declared operations on objects -/
structure Ops (σ V K : Type) where
  /-- `cur[seg]` -/
  getitem : σ → V → K → Except Exc V
  /-- `int(seg)` -/
  toInt : K → Except Exc K
  /-- `is_iterable(cur)` -/
  isIterable : σ → V → Bool
  /-- `isinstance(value, (str, bytes))` -/
  isStrBytes : σ → V → Bool
  /-- `isinstance(value, str)` -/
  isStr : σ → V → Bool
  /-- `isinstance(value, bytes)` -/
  isBytes : σ → V → Bool
  /-- `isinstance(value, Mapping)` -/
  isMapping : σ → V → Bool
  /-- `isinstance(value, Sequence)` -/
  isSequence : σ → V → Bool
  /-- `isinstance(value, Set)` -/
  isSet : σ → V → Bool
  /-- `value.__class__()`: a new empty object of the class of `value` -/
  newOfClass : σ → V → Except Exc (V × σ)
  /-- `ItemsView(value)`, as the pairs it yields -/
  itemsView : σ → V → List (K × V)
  /-- `enumerate(value)`, as the pairs it yields -/
  enumerate : σ → V → List (K × V)
  /-- `obj.update(pairs)` (a mapping's update with a list of pairs) -/
  updatePairs : σ → V → List (K × V) → Except Exc σ
  /-- `obj.update(vals)` (a set's update with a list of members; `AttributeError` for a frozenset) -/
  updateVals : σ → V → List V → Except Exc σ
  /-- `obj.extend(vals)` (`AttributeError` for a tuple) -/
  extend : σ → V → List V → Except Exc σ
  /-- `obj.__class__(vals)`: a new object of the class of `obj` built from a list -/
  classOfVals : σ → V → List V → Except Exc (V × σ)

/-- result of a translated function: the value returned and the store, or the exception class -/
abbrev R (σ α : Type) := Except Exc (α × σ)

/-- what `default_enter` returns: `(new_parent, False)` = `(new_parent, none)`, `(new_parent, iterator)` -/
abbrev EnterRes (V K : Type) := V × Option (List (K × V))

end PyRtC08
