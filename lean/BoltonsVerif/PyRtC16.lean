import BoltonsVerif.PyRt
import BoltonsVerif.C16.Model
/-
PyRtC16 — runtime of the source translator module `harness/py2lean_c16.py` (property C16: `boltons.tbutils`
`ParsedException.to_string`, `TracebackInfo.get_formatted`, `_repeated_line_note`, `Callpoint.tb_frame_str`).

A Python `str` is the list of its code points (`List Char`).  The definitions below are the SPEC-DECLARED TYPES AND
OPERATIONS the translator maps the constructs of notes/SRCTIE.md section "C16" to.  The string operations that depend on
character classes of the running interpreter (`str.strip`, `str.rstrip`) mean the functions of `C16/Model.lean` over the
tables regenerated on every run (`Generated/C16_Tables.lean`), which is what the hand model assumes of them; everything
else is written down here independently of the model.  Trusted like `PyRt.lean`; validated against CPython by
`py2lean_c16.selftest` on every run.  Core Lean only.
-/
namespace PyRtC16

abbrev Str := List Char

/-- a frame dict of a `ParsedException` (`{'filepath': str, 'lineno': str, 'funcname': str[, 'source_line': str]}`):
    the three keys the code indexes with `[...]` are present (spec precondition), `source_line` is read with `.get` -/
structure FrameD where
  filepath : Str
  lineno : Str
  funcname : Str
  source_line : Option Str
deriving DecidableEq, Repr

/-- `sep.join(parts)` -/
def strJoin (sep : Str) : List Str → Str
  | [] => []
  | [a] => a
  | a :: b :: r => a ++ (sep ++ strJoin sep (b :: r))

/-- truth value of a str / list -/
def truthy {α : Type} (s : List α) : Bool := !s.isEmpty

/-- truth value of `None | str` -/
def truthyOS : Option Str → Bool
  | none => false
  | some s => !s.isEmpty

/-- `'{}'.format(x)` / `f'{x}'` of `None | str` -/
def fmtOS : Option Str → Str
  | none => "None".toList
  | some s => s

/-- `'{}'.format(n)` of a non-negative int -/
def fmtNat (n : Nat) : Str := (Nat.repr n).toList

/-- `'{}'.format(n)` of an int -/
def fmtInt (n : Int) : Str := if n < 0 then '-' :: (Nat.repr n.natAbs).toList else (Nat.repr n.natAbs).toList

/-- a `_DeferredLine` (attribute `line` of a Callpoint): `raw` is what `linecache.getline` hands out for it (the hand
    model's `Callpoint.line`); `str(d)` is that line `rstrip`ped, `bool(d)` is `len(str(d)) > 0` -/
structure DLine where
  raw : Str
deriving DecidableEq, Repr

def DLine.str (d : DLine) : Str := C16.rstrip d.raw
def DLine.truthy (d : DLine) : Bool := !(DLine.str d).isEmpty

/-- `s.strip()` over the regenerated `str.isspace` table -/
def strStrip (s : Str) : Str := C16.strip s

/-- a `Callpoint` as the translated methods see it: `module_path`, `lineno` (an int ≥ 0), `func_name`, `line` -/
abbrev Callpoint := C16.Callpoint

def Callpoint.dline (c : Callpoint) : DLine := ⟨c.line⟩

end PyRtC16

namespace PyRtC16
/-- an exception class as the display-name code sees it: `__qualname__` (a str) and `__module__` (`none`: not a str) -/
abbrev ExcType := C16.ExcType
end PyRtC16

namespace PyRtC16
/-- an arbitrary object as `_some_str` sees it: `str(x)` returns a str (`some`) or raises (`none`) -/
structure StrObj where
  str? : Option Str
deriving DecidableEq, Repr
end PyRtC16
