/-
Facts about the runtime library `PyRt` used by the tie theorems (`Cxx/SrcTie.lean`):
`range` unfolds like the Python loop it stands for, independently of the fuel.
-/
import BoltonsVerif.PyRt

namespace PyRt

theorem rangeUp_fuel (stop step : Int) (hs : 0 < step) :
    ∀ (n m : Nat) (a : Int), (stop - a).toNat ≤ n → (stop - a).toNat ≤ m →
      rangeUp stop step n a = rangeUp stop step m a := by
  intro n
  induction n with
  | zero =>
    intro m a hn _
    cases m with
    | zero => rfl
    | succ m => simp only [rangeUp]; rw [if_neg (by omega)]
  | succ n ih =>
    intro m a hn hm
    cases m with
    | zero => simp only [rangeUp]; rw [if_neg (by omega)]
    | succ m =>
      simp only [rangeUp]
      by_cases h : a < stop
      · rw [if_pos h, if_pos h, ih m (a + step) (by omega) (by omega)]
      · rw [if_neg h, if_neg h]

/-- `for i in range(a, b, s)` with `s > 0`: first `a` (if `a < b`), then `range(a + s, b, s)` -/
theorem range_step_pos (a b s : Int) (hs : 0 < s) :
    range a b s = if a < b then a :: range (a + s) b s else [] := by
  unfold range
  rw [if_pos hs, if_pos hs]
  by_cases h : a < b
  · rw [if_pos h]
    obtain ⟨n, hn⟩ : ∃ n, (b - a).toNat = n + 1 := ⟨(b - a).toNat - 1, by omega⟩
    rw [hn]
    simp only [rangeUp]
    rw [if_pos h, rangeUp_fuel b s hs n (b - (a + s)).toNat (a + s) (by omega) (by omega)]
  · rw [if_neg h]
    cases (b - a).toNat with
    | zero => rfl
    | succ n => simp only [rangeUp]; rw [if_neg h]

/-- `range(0, n, 1)` over a list length: `0 :: (range(0, n-1, 1) shifted by 1)`, as an unfolding from the left -/
theorem range_from (a b : Int) : range a b 1 = if a < b then a :: range (a + 1) b 1 else [] :=
  range_step_pos a b 1 (by omega)

/-- `range(a, b)` has `b - a` items (none when `b ≤ a`) -/
theorem length_range_one (a b : Int) : (range a b 1).length = (b - a).toNat := by
  generalize hn : (b - a).toNat = n
  induction n generalizing a with
  | zero => rw [range_from, if_neg (by omega)]; rfl
  | succ n ih =>
    rw [range_from, if_pos (by omega), List.length_cons, ih (a + 1) (by omega)]

theorem len_nil {α : Type} : len ([] : List α) = 0 := rfl
theorem len_cons {α : Type} (x : α) (l : List α) : len (x :: l) = len l + 1 := by
  simp [len]
theorem len_nonneg {α : Type} (l : List α) : 0 ≤ len l := by simp [len]

theorem len_append {α : Type} (a b : List α) : len (a ++ b) = len a + len b := by
  simp [len]

/-- `(pre ++ x :: rest)[len(pre)]` is `x` -/
theorem index_append_length {α : Type} [Inhabited α] (pre : List α) (x : α) (rest : List α) :
    index (pre ++ x :: rest) (len pre) = x := by
  unfold index normIdx len
  rw [if_neg (by omega), if_neg (by omega)]
  simp

theorem index_zero {α : Type} [Inhabited α] (x : α) (l : List α) : index (x :: l) 0 = x := by
  simp [index, normIdx]

theorem drop_last {α : Type} : ∀ (l : List α) (x : α),
    (x :: l).drop l.length = [(x :: l).getLast (by simp)]
  | [], x => by simp
  | y :: t, x => by
    have := drop_last t y
    simp only [List.length_cons, List.drop_succ_cons]
    rw [this]
    simp [List.getLast_cons]

/-- `l[-1:]` is the list of the last item (empty for an empty list) -/
theorem slice_last {α : Type} (l : List α) :
    slice l (some (-1)) none = match l.getLast? with | none => [] | some x => [x] := by
  unfold slice clampBound
  simp only [List.take_length]
  rw [if_pos (by omega)]
  cases l with
  | nil => simp
  | cons x t =>
    have e : (-1 + ((x :: t).length : Int)).toNat = t.length := by simp only [List.length_cons]; omega
    rw [e, drop_last, List.getLast?_eq_some_getLast (by simp)]

/-! ## dicts (association lists) -/

namespace Dict
variable {κ ν : Type} [DecidableEq κ]

omit [DecidableEq κ] in
@[simp] theorem items_eq (d : Dict κ ν) : items d = d := rfl

theorem find_nil (k : κ) : find ([] : Dict κ ν) k = none := rfl

theorem find_cons (p : κ × ν) (d : Dict κ ν) (k : κ) :
    find (p :: d) k = if p.1 = k then some p.2 else find d k := by
  obtain ⟨a, b⟩ := p
  simp [find]

theorem find_eq_none_iff (d : Dict κ ν) (k : κ) : find d k = none ↔ k ∉ d.map (·.1) := by
  induction d with
  | nil => simp [find]
  | cons p d ih =>
    rw [find_cons]
    by_cases h : p.1 = k
    · simp [h]
    · simp only [if_neg h, ih, List.map_cons, List.mem_cons, not_or]
      exact ⟨fun h2 => ⟨fun e => h e.symm, h2⟩, fun h2 => h2.2⟩

theorem get?_of_find_some {d : Dict κ ν} {k : κ} {v : ν} (h : find d k = some v) : get? d k = .ok v := by
  simp [get?, h]

theorem get?_of_find_none {d : Dict κ ν} {k : κ} (h : find d k = none) :
    get? d k = .error PyExc.KeyError := by
  simp [get?, h]

theorem contains_eq (d : Dict κ ν) (k : κ) : contains d k = (find d k).isSome := rfl

/-- storing under an absent key appends -/
theorem set_of_find_none (d : Dict κ ν) (k : κ) (v : ν) (h : find d k = none) : set d k v = d ++ [(k, v)] := by
  induction d with
  | nil => rfl
  | cons p d ih =>
    obtain ⟨a, b⟩ := p
    rw [find_cons] at h
    by_cases hk : a = k
    · simp [hk] at h
    · simp only [if_neg hk] at h
      simp [set, hk, ih h]

theorem update_of_nodup (l : List (κ × ν)) : ∀ (acc : Dict κ ν), ((acc ++ l).map (·.1)).Nodup →
    update acc l = acc ++ l := by
  induction l with
  | nil => intro acc _; simp [update]
  | cons p l ih =>
    intro acc h
    have hnot : find acc p.1 = none := by
      rw [find_eq_none_iff]
      intro hm
      rw [List.map_append, List.nodup_append] at h
      exact h.2.2 _ hm _ (by simp) rfl
    have e : update acc (p :: l) = update (set acc p.1 p.2) l := by simp [update]
    rw [e, set_of_find_none _ _ _ hnot, ih]
    · simp
    · simpa using h

/-- a dict rebuilt from pairs with pairwise different keys is the list of pairs (same order) -/
theorem ofPairs_of_nodup (l : List (κ × ν)) (h : (l.map (·.1)).Nodup) : ofPairs l = l := by
  have := update_of_nodup l [] (by simpa using h)
  simpa [ofPairs] using this

end Dict

/-- `[(a, b) for a, b in l]` is `l` -/
theorem map_pair_eta {α β : Type} (l : List (α × β)) : l.map (fun (a, b) => (a, b)) = l := by
  induction l with
  | nil => rfl
  | cons p l ih => obtain ⟨a, b⟩ := p; simp [ih]

theorem mod?_natCast (t w : Nat) (hw : 1 ≤ w) :
    mod? (t : Int) (w : Int) = .ok (((t % w : Nat)) : Int) := by
  unfold mod?
  rw [if_neg (by omega)]
  cases t with
  | zero => simp [Int.fmod]
  | succ n => rfl

theorem mod?_zero (a : Int) : mod? a 0 = .error PyExc.ZeroDivisionError := by simp [mod?]

end PyRt
