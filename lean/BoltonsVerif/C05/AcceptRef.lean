import BoltonsVerif.C05.Frame
import BoltonsVerif.C05.AcceptProofs
import BoltonsVerif.C05.AcceptMore
import BoltonsVerif.C05.Region
/-
C05 — the two layers meet: what the transliteration records of its own calls (`M.obs`) is, for every
plan, a trace with the bookkeeping facts `T` (frame principle), and - outside the one excluded region
(overwrite=False: the unlink after a successful link fails) - a trace that `Accept` accepts.
-/
namespace C05
open C04

def notNoop : Ev → Bool
  | .noop => false
  | _ => true

/-- some listed step reported an error -/
def listedFailed : List Obs → Bool
  | [] => false
  | .fail l _ _ :: t => l || listedFailed t
  | .failClosed l :: t => l || listedFailed t
  | _ :: t => listedFailed t

theorem oks_append (a b : List Obs) : oks (a ++ b) = oks a ++ oks b := by
  induction a with
  | nil => rfl
  | cons o t ih => rw [List.cons_append, oks_cons, oks_cons o t, ih, List.append_assoc]

theorem listedFailed_append (a b : List Obs) : listedFailed (a ++ b) = (listedFailed a || listedFailed b) := by
  induction a with
  | nil => simp [listedFailed]
  | cons o t ih => cases o <;> simp [listedFailed, ih, Bool.or_assoc]

theorem unlinkFaulted_append (a b : List Obs) : unlinkFaulted (a ++ b) = (unlinkFaulted a || unlinkFaulted b) := by
  induction a with
  | nil => simp [unlinkFaulted]
  | cons o t ih => cases o <;> simp [unlinkFaulted, ih, Bool.or_assoc]

theorem hasAppear_append (a b : List Obs) : hasAppear (a ++ b) = (hasAppear a || hasAppear b) := by
  induction a with
  | nil => simp [hasAppear]
  | cons o t ih => cases o <;> simp [hasAppear, ih]

/-- bookkeeping facts about the recorded observations, kept by every primitive call -/
structure T (m : M) : Prop where
  oks : (oks m.obs).filter notNoop = m.tr.filter notNoop
  lf : listedFailed m.obs = true → 0 < m.errs
  cf : m.cleanupFaulted = true → unlinkFaulted m.obs = true
  env : hasAppear m.obs = m.envDone

theorem T_start (fs0 : FS) (e : Nat) : T (M.start fs0 e) :=
  ⟨rfl, by simp [M.start, listedFailed], by simp [M.start], rfl⟩

/-- a call that reported an error: nothing but counters and the record change -/
theorem T_fail (m m' : M) (l i u : Bool) (h : T m) (hobs : m'.obs = m.obs ++ [.fail l i u]) (htr : m'.tr = m.tr)
    (herr : l = true → 0 < m'.errs) (herr2 : m.errs ≤ m'.errs) (hcf : m'.cleanupFaulted = m.cleanupFaulted)
    (henv : m'.envDone = m.envDone) : T m' := by
  refine ⟨by rw [hobs, htr, oks_append]; simpa [oks] using h.oks, ?_, ?_, by rw [hobs, hasAppear_append, henv, h.env]; simp [hasAppear]⟩
  · intro hl
    rw [hobs, listedFailed_append] at hl
    simp only [listedFailed, Bool.or_false, Bool.or_eq_true] at hl
    rcases hl with hl | hl
    · have := h.lf hl; omega
    · exact herr hl
  · intro hc
    rw [hcf] at hc
    rw [hobs, unlinkFaulted_append, h.cf hc]; rfl

theorem T_env (m : M) (a : Act) (h : T m) : T (m.env a) := by
  unfold M.env
  split
  · refine ⟨?_, ?_, ?_, ?_⟩
    · show (oks (m.obs ++ [.appear])).filter notNoop = _
      rw [oks_append]; simpa [oks] using h.oks
    · intro hl
      have : listedFailed (m.obs ++ [.appear]) = true := hl
      rw [listedFailed_append] at this
      simp only [listedFailed, Bool.or_false] at this
      exact h.lf this
    · intro hc
      show unlinkFaulted (m.obs ++ [.appear]) = true
      rw [unlinkFaulted_append, h.cf hc]; rfl
    · show hasAppear (m.obs ++ [.appear]) = true
      rw [hasAppear_append]; simp [hasAppear]
  · exact h

theorem T_exe (m : M) (ev : Ev) (h : T m) : T (exe m ev).2 := by
  unfold exe
  split
  · exact T_fail m _ _ _ _ h rfl rfl (fun _ => Nat.succ_pos _) (Nat.le_succ _) rfl rfl
  · refine ⟨?_, ?_, ?_, ?_⟩
    · show (oks (m.obs ++ [.ok ev])).filter notNoop = (m.tr ++ [ev]).filter notNoop
      rw [oks_append, List.filter_append, List.filter_append, h.oks]; rfl
    · intro hl
      have : listedFailed (m.obs ++ [.ok ev]) = true := hl
      rw [listedFailed_append] at this
      simp only [listedFailed, Bool.or_false] at this
      exact h.lf this
    · intro hc
      show unlinkFaulted (m.obs ++ [.ok ev]) = true
      rw [unlinkFaulted_append, h.cf hc]; rfl
    · show hasAppear (m.obs ++ [.ok ev]) = m.envDone
      rw [hasAppear_append, h.env]; simp [hasAppear]

theorem T_call (plan : Plan) (m : M) (ev : Ev) (h : T m) : T (call plan m ev).2 := by
  unfold call
  cases plan m.n with
  | fail e => exact T_fail m _ _ _ _ h rfl rfl (fun _ => Nat.succ_pos _) (Nat.le_succ _) rfl rfl
  | pass => exact T_exe m ev h
  | appear => exact T_exe _ ev (T_env m _ h)

theorem T_callClose (plan : Plan) (m : M) (h : T m) : T (callClose plan m).2 := by
  unfold callClose
  cases plan m.n with
  | fail e =>
    dsimp only
    split
    · refine ⟨?_, fun _ => Nat.succ_pos _, ?_, ?_⟩
      · show (oks (m.obs ++ [.failClosed true])).filter notNoop = (m.tr ++ [Ev.close]).filter notNoop
        rw [oks_append, List.filter_append, List.filter_append, h.oks]; rfl
      · intro hc
        show unlinkFaulted (m.obs ++ [.failClosed true]) = true
        rw [unlinkFaulted_append, h.cf hc]; rfl
      · show hasAppear (m.obs ++ [.failClosed true]) = m.envDone
        rw [hasAppear_append, h.env]; simp [hasAppear]
    · exact T_fail m _ _ _ _ h rfl rfl (fun _ => Nat.succ_pos _) (Nat.le_succ _) rfl rfl
  | pass => exact T_exe m _ h
  | appear => exact T_exe _ _ (T_env m _ h)

/-- a successful call without effect -/
theorem T_noop (m m' : M) (h : T m) (hobs : m'.obs = m.obs ++ [.ok .noop]) (htr : m'.tr = m.tr)
    (herr : m.errs ≤ m'.errs) (hcf : m'.cleanupFaulted = m.cleanupFaulted) (henv : m'.envDone = m.envDone) : T m' := by
  refine ⟨by rw [hobs, htr, oks_append]; simpa [oks, notNoop] using h.oks, ?_, ?_, by rw [hobs, hasAppear_append, henv, h.env]; simp [hasAppear]⟩
  · intro hl
    rw [hobs, listedFailed_append] at hl
    simp only [listedFailed, Bool.or_false] at hl
    have := h.lf hl; omega
  · intro hc
    rw [hcf] at hc
    rw [hobs, unlinkFaulted_append, h.cf hc]; rfl

theorem T_statObs (m m' : M) (h : T m) (b : Bool)
    (hobs : m'.obs = m.obs ++ [if b then Obs.ok Ev.noop else Obs.fail false false false]) (htr : m'.tr = m.tr)
    (herr : m.errs ≤ m'.errs) (hcf : m'.cleanupFaulted = m.cleanupFaulted) (henv : m'.envDone = m.envDone) : T m' := by
  cases b with
  | true => exact T_noop m m' h (by simpa using hobs) htr herr hcf henv
  | false => exact T_fail m m' false false false h (by simpa using hobs) htr (fun hh => by cases hh) herr hcf henv

theorem T_callStat (plan : Plan) (m : M) (h : T m) : T (callStat plan m).2 := by
  unfold callStat
  cases plan m.n with
  | fail e =>
    dsimp only
    split
    · exact T_fail m _ false true false h rfl rfl (fun hh => by cases hh) (Nat.le_refl _) rfl rfl
    · exact T_fail m _ false true false h rfl rfl (fun hh => by cases hh) (Nat.le_succ _) rfl rfl
  | pass => exact T_statObs m _ h _ rfl rfl (Nat.le_refl _) rfl rfl
  | appear => exact T_statObs (m.env .appear) _ (T_env m _ h) _ rfl rfl (Nat.le_refl _) rfl rfl

theorem T_fcall (plan : Plan) (m : M) (ev : Ev) (h : T m) : T (fcall plan m ev).2 := by
  unfold fcall
  split
  · exact T_call plan m ev h
  · cases plan m.n with
    | fail e => exact T_fail m _ _ _ _ h rfl rfl (fun _ => Nat.succ_pos _) (Nat.le_succ _) rfl rfl
    | pass => exact T_fail m _ _ _ _ h rfl rfl (fun _ => Nat.succ_pos _) (Nat.le_succ _) rfl rfl
    | appear =>
      have h1 := T_env m .appear h
      obtain ⟨_, _, e3, e4, _⟩ := env_fields m .appear
      exact T_fail (m.env .appear) _ _ _ _ h1 rfl rfl (fun _ => Nat.succ_pos _) (by show (m.env .appear).errs ≤ m.errs + 1; omega) rfl rfl

theorem T_fclose (plan : Plan) (m : M) (h : T m) : T (fclose plan m).2 := by
  unfold fclose
  split
  · exact T_callClose plan m h
  · cases plan m.n with
    | fail e => exact T_fail m _ _ _ _ h rfl rfl (fun _ => Nat.succ_pos _) (Nat.le_succ _) rfl rfl
    | pass => exact T_noop m _ h rfl rfl (Nat.le_refl _) rfl rfl
    | appear => exact T_noop (m.env .appear) _ (T_env m _ h) rfl rfl (Nat.le_refl _) rfl rfl

theorem T_rm (plan : Plan) (cfg : Cfg) (m : M) (h : T m) : T (rmPart cfg plan m) := by
  unfold rmPart
  split
  · have h1 := T_call plan m .unlinkPart h
    refine ⟨h1.oks, h1.lf, ?_, h1.env⟩
    intro hc
    simp only [Bool.or_eq_true] at hc
    rcases hc with hc | hc
    · exact h1.cf hc
    · -- the plan made this unlink fail: the record says so
      cases hp : plan m.n with
      | fail e =>
        have : (call plan m .unlinkPart).2.obs = m.obs ++ [.fail false true true] := by
          simp [call, hp, listedEv, isUnlinkEv]
        show unlinkFaulted (call plan m .unlinkPart).2.obs = true
        rw [this, unlinkFaulted_append]; simp [unlinkFaulted]
      | pass => simp [hp] at hc
      | appear => simp [hp] at hc
  · exact h

theorem T_frame (plan : Plan) : Frame T plan :=
  ⟨T_call plan, T_callClose plan, T_callStat plan, T_fcall plan, T_fclose plan, fun cfg m h => T_rm plan cfg m h,
   fun m h => ⟨h.oks, fun _ => Nat.succ_pos _, h.cf, h.env⟩⟩

/-- for every plan, the observations the transliteration records satisfy `T` -/
theorem runScript_T (cfg : Cfg) (sc : Script) (plan : Plan) (fs0 : FS) (e : Nat) : T (runScript cfg sc plan fs0 e).2 :=
  frame_runScript (T_frame plan) cfg sc fs0 e (T_start fs0 e)

/-! ### without `overwrite_part` no unlink of the part file precedes its creation -/

/-- the first event with an effect is an unlink of the part file -/
def headUnlink : List Ev → Bool
  | [] => false
  | .noop :: t => headUnlink t
  | .unlinkPart :: _ => true
  | _ :: _ => false

/-- the recorded events extend `base` -/
def Pre (base : List Ev) (m : M) : Prop := ∃ l, m.tr = base ++ l

theorem exe_tr (m : M) (ev : Ev) : (exe m ev).2.tr = m.tr ∨ (exe m ev).2.tr = m.tr ++ [ev] := by
  unfold exe; split
  · exact Or.inl rfl
  · exact Or.inr rfl

theorem Pre_of_tr (base : List Ev) (m m' : M) (h : Pre base m) (ht : m'.tr = m.tr ∨ ∃ ev, m'.tr = m.tr ++ [ev]) : Pre base m' := by
  obtain ⟨l, hl⟩ := h
  rcases ht with ht | ⟨ev, ht⟩
  · exact ⟨l, by rw [ht, hl]⟩
  · exact ⟨l ++ [ev], by rw [ht, hl, List.append_assoc]⟩

theorem env_tr (m : M) (a : Act) : (m.env a).tr = m.tr := (env_fields m a).2.1

theorem call_tr (plan : Plan) (m : M) (ev : Ev) :
    (call plan m ev).2.tr = m.tr ∨ ∃ ev', (call plan m ev).2.tr = m.tr ++ [ev'] := by
  unfold call
  cases plan m.n with
  | fail e => exact Or.inl rfl
  | pass => rcases exe_tr m ev with h | h; exact Or.inl h; exact Or.inr ⟨ev, h⟩
  | appear =>
    rcases exe_tr (m.env .appear) ev with h | h
    · exact Or.inl (by rw [h, env_tr])
    · exact Or.inr ⟨ev, by rw [h, env_tr]⟩

theorem callClose_tr (plan : Plan) (m : M) :
    (callClose plan m).2.tr = m.tr ∨ ∃ ev', (callClose plan m).2.tr = m.tr ++ [ev'] := by
  unfold callClose
  cases plan m.n with
  | fail e => dsimp only; split; exact Or.inr ⟨_, rfl⟩; exact Or.inl rfl
  | pass => rcases exe_tr m .close with h | h; exact Or.inl h; exact Or.inr ⟨_, h⟩
  | appear =>
    rcases exe_tr (m.env .appear) .close with h | h
    · exact Or.inl (by rw [h, env_tr])
    · exact Or.inr ⟨_, by rw [h, env_tr]⟩

theorem callStat_tr (plan : Plan) (m : M) : (callStat plan m).2.tr = m.tr := by
  unfold callStat
  cases plan m.n with
  | fail e => dsimp only; split <;> rfl
  | pass => rfl
  | appear => exact env_tr m _

theorem Pre_frame (base : List Ev) (plan : Plan) : Frame (Pre base) plan := by
  refine ⟨fun m ev h => Pre_of_tr base m _ h (call_tr plan m ev), fun m h => Pre_of_tr base m _ h (callClose_tr plan m),
    fun m h => Pre_of_tr base m _ h (Or.inl (callStat_tr plan m)), ?_, ?_, ?_, fun m h => h⟩
  · intro m ev h
    unfold fcall; split
    · exact Pre_of_tr base m _ h (call_tr plan m ev)
    · cases plan m.n with
      | fail e => exact h
      | pass => exact h
      | appear => exact Pre_of_tr base m _ h (Or.inl (env_tr m _))
  · intro m h
    unfold fclose; split
    · exact Pre_of_tr base m _ h (callClose_tr plan m)
    · cases plan m.n with
      | fail e => exact h
      | pass => exact h
      | appear => exact Pre_of_tr base m _ h (Or.inl (env_tr m _))
  · intro cfg m h
    unfold rmPart; split
    · exact Pre_of_tr base m _ h (call_tr plan m .unlinkPart)
    · exact h

theorem call_none_tr (plan : Plan) (m : M) (ev : Ev) (h : (call plan m ev).1 = none) :
    (call plan m ev).2.tr = m.tr ++ [ev] := by
  unfold call at h ⊢
  cases hp : plan m.n with
  | fail e => simp [hp] at h
  | pass =>
    simp only [hp] at h ⊢
    unfold exe at h ⊢
    split <;> simp_all
  | appear =>
    simp only [hp] at h ⊢
    unfold exe at h ⊢
    split <;> simp_all [env_tr]

theorem call_some_tr (plan : Plan) (m : M) (ev : Ev) (e : Errno) (h : (call plan m ev).1 = some e) :
    (call plan m ev).2.tr = m.tr := by
  unfold call at h ⊢
  cases hp : plan m.n with
  | fail e => rfl
  | pass =>
    simp only [hp] at h ⊢
    unfold exe at h ⊢
    split <;> simp_all
  | appear =>
    simp only [hp] at h ⊢
    unfold exe at h ⊢
    split <;> simp_all [env_tr]

/-- `_open_part_file` from a state in which nothing has happened yet: afterwards still nothing has
    happened, or the first event is the creation of the part file -/
theorem openPartFile_shape (cfg : Cfg) (plan : Plan) (m : M) (p : Nat) (c : Bool) (h0 : m.tr = []) :
    (openPartFile cfg plan m p c).2.tr = [] ∨ Pre [Ev.openPart true true p] (openPartFile cfg plan m p c).2 := by
  have F := Pre_frame [Ev.openPart true true p] plan
  unfold openPartFile
  cases h1 : call plan m (.openPart true true p) with
  | mk r1 m1 =>
    cases r1 with
    | some e =>
      left
      have := call_some_tr plan m (.openPart true true p) e (by rw [h1])
      rw [h1] at this; simpa [h0] using this
    | none =>
      right
      have e1 : Pre [Ev.openPart true true p] m1 := by
        have := call_none_tr plan m (.openPart true true p) (by rw [h1])
        rw [h1] at this
        exact ⟨[], by simpa [h0] using this⟩
      dsimp only
      have e2 := F.call m1 .noop e1
      cases h2 : call plan m1 .noop with
      | mk r2 m2 =>
        rw [h2] at e2
        cases r2 with
        | some e =>
          dsimp only
          exact F.rm cfg _ (F.call m2 _ e2)
        | none =>
          dsimp only
          cases c with
          | false => simp only [Bool.false_eq_true, if_false]; exact e2
          | true =>
            simp only [if_true]
            have e3 := F.call m2 (.chmodPart p) e2
            cases h3 : call plan m2 (.chmodPart p) with
            | mk r3 m3 =>
              rw [h3] at e3
              cases r3 with
              | some e =>
                dsimp only
                exact F.rm cfg _ (F.callClose m3 e3)
              | none => exact e3

theorem setup_shape (cfg : Cfg) (plan : Plan) (m : M) (hop : cfg.overwritePart = false) (h0 : m.tr = []) :
    (setup cfg plan m).2.tr = [] ∨ ∃ p, Pre [Ev.openPart true true p] (setup cfg plan m).2 := by
  unfold setup
  split
  · exact Or.inl h0
  · simp only [hop, Bool.false_and, Bool.false_eq_true, if_false]
    cases cfg.perms with
    | some p =>
      dsimp only
      rcases openPartFile_shape cfg plan m p true h0 with h | h
      · exact Or.inl h
      · exact Or.inr ⟨p, h⟩
    | none =>
      dsimp only
      have hs := callStat_tr plan m
      cases h2 : callStat plan m with
      | mk rs m2 =>
        rw [h2] at hs
        simp only at hs
        cases rs with
        | error e => exact Or.inl (by simpa [h0] using hs)
        | ok v =>
          cases v with
          | some md =>
            rcases openPartFile_shape cfg plan m2 md true (by rw [hs, h0]) with h | h
            · exact Or.inl h
            · exact Or.inr ⟨md, h⟩
          | none =>
            rcases openPartFile_shape cfg plan m2 RW_PERMS false (by rw [hs, h0]) with h | h
            · exact Or.inl h
            · exact Or.inr ⟨RW_PERMS, h⟩

/-- **Without `overwrite_part` the transliteration never removes a part file it did not create**: under
    every plan, no unlink of the part file precedes its creation -/
theorem runScript_headUnlink (cfg : Cfg) (sc : Script) (plan : Plan) (fs0 : FS) (e : Nat) (hop : cfg.overwritePart = false) :
    headUnlink (runScript cfg sc plan fs0 e).2.tr = false := by
  have hsh := setup_shape cfg plan (M.start fs0 e) hop rfl
  have key : ∀ m : M, (m.tr = [] ∨ ∃ p, Pre [Ev.openPart true true p] m) → headUnlink m.tr = false := by
    intro m h
    rcases h with h | ⟨p, l, h⟩
    · rw [h]; rfl
    · rw [h]; rfl
  unfold runScript
  cases h1 : setup cfg plan (M.start fs0 e) with
  | mk r1 m1 =>
    rw [h1] at hsh
    cases r1 with
    | some x => exact key m1 hsh
    | none =>
      dsimp only
      rcases hsh with h | ⟨p, h⟩
      · -- a successful setup() has created the part file
        exfalso
        obtain ⟨sok, _⟩ := setup_spec cfg fs0 e plan
        have := (sok (by rw [h1])).tr
        rw [h1] at this
        obtain ⟨p, c, ht, _⟩ := this
        simp only at ht
        rw [h] at ht
        simp at ht
      · have F := Pre_frame [Ev.openPart true true p] plan
        exact key _ (Or.inr ⟨p, frame_finishG F cfg _ _ (frame_runOps F _ _ h)⟩)

/-! ### from C04's automaton on the successful events to the C05 automaton on the observations -/

theorem St_run_filter : ∀ (l : List Ev) (s : St), s.run (l.filter notNoop) = s.run l
  | [], _ => rfl
  | ev :: l, s => by
    cases ev with
    | noop => simp [List.filter, notNoop, St.run, St.step, St_run_filter l s]
    | _ =>
      simp only [List.filter, notNoop, St.run]
      split
      · exact St_run_filter l _
      · rfl

theorem headUnlink_filter : ∀ (l : List Ev), headUnlink (l.filter notNoop) = headUnlink l
  | [] => rfl
  | ev :: l => by cases ev <;> simp [List.filter, notNoop, headUnlink, headUnlink_filter l]

theorem publishes_filter : ∀ (l : List Ev), publishes (l.filter notNoop) = publishes l
  | [] => rfl
  | ev :: l => by cases ev <;> simp [List.filter, notNoop, publishes, publishes_filter l]

theorem allWrites_filter : ∀ (l : List Ev), allWrites (l.filter notNoop) = allWrites l
  | [] => rfl
  | ev :: l => by cases ev <;> simp [List.filter, notNoop, allWrites, allWrites_filter l]

theorem mode_filter (um : Nat) : ∀ (l : List Ev) (cur : Option Nat),
    (l.filter notNoop).foldl (modeAfter um) cur = l.foldl (modeAfter um) cur
  | [], _ => rfl
  | ev :: l, cur => by cases ev <;> simp [List.filter, notNoop, modeAfter, mode_filter um l]

theorem step_init_same (s s' : St) (ev : Ev) (h0 : s.phase = .init) (hcl : s.isOpen = false) (hs : s.step ev = some s')
    (h1 : s'.phase = .init) : s' = s := by
  obtain ⟨ph, op, db, us⟩ := s
  simp only at h0 hcl; subst h0; subst hcl
  cases ev <;> simp [St.step] at hs
  all_goals (try (subst hs; rfl))
  all_goals (try (obtain ⟨_, rfl⟩ := hs; simp at h1))

theorem step_close_open (s s1 : St) (hs : s.step .close = some s1) : s.isOpen = true := by
  obtain ⟨ph, op, db, us⟩ := s
  cases op with
  | true => rfl
  | false => simp [St.step] at hs

theorem pub_then_none : ∀ (t : List Ev) (s s' : St), s.published = true → s.run t = some s' → publishes t = false
  | [], _, _, _, _ => rfl
  | ev :: t, s, s', hp, h => by
    simp only [St.run] at h
    cases hs : s.step ev with
    | none => simp [hs] at h
    | some s1 =>
      simp only [hs] at h
      have h1 := (published_step s s1 ev hs).1
      have hnp : publishes [ev] = false := by
        obtain ⟨ph, op, db, us⟩ := s
        cases ev <;> simp [publishes] <;> cases ph <;> simp [St.step, St.published] at hs hp
      rw [publishes_cons, hnp, Bool.false_or]
      exact pub_then_none t s1 s' (by rw [h1, hp]; rfl) h

theorem A_run_total (cfg : Cfg) (raises : Bool) : ∀ (t : List Obs) (a : A) (s' : St),
    a.s.run (oks t) = some s' →
    (a.s.phase = .init → a.s.isOpen = false) →
    (cfg.overwritePart = true ∨ a.s.phase ≠ .init ∨ headUnlink (oks t) = false) →
    (publishes (oks t) = false ∨
      (a.failed = false ∧ failedBefore t = false ∧ raises = false ∧ (cfg.overwrite = false → Ev.renamePartDest ∉ oks t))) →
    ∃ a', a.run cfg raises t = some a' ∧ a'.s = s'
  | [], a, s', h, _, _, _ => by
    simp [oks, St.run] at h
    exact ⟨a, rfl, h⟩
  | .ok ev :: t, a, s', h, hcl, hst, hpub => by
    simp only [oks, St.run] at h
    cases hs : a.s.step ev with
    | none => simp [hs] at h
    | some s1 =>
      simp only [hs] at h
      have hpc := publishes_cons ev (oks t)
      have hal : okAllowed cfg raises a ev = true := by
        have hright : isPub ev = true → a.failed = false ∧ raises = false ∧ (cfg.overwrite = false → Ev.renamePartDest ∉ oks (.ok ev :: t)) := by
          intro hp
          rcases hpub with hl | ⟨h1, _, h3, h4⟩
          · simp only [oks] at hl
            rw [hpc, publishes_single, hp] at hl
            simp at hl
          · exact ⟨h1, h3, h4⟩
        cases ev with
        | renamePartDest =>
          obtain ⟨h1, h3, h4⟩ := hright rfl
          have how : cfg.overwrite = true := by
            cases hh : cfg.overwrite with
            | true => rfl
            | false => exact absurd (by simp [oks]) (h4 hh)
          simp [okAllowed, h1, h3, how]
        | linkPartDest =>
          obtain ⟨h1, h3, _⟩ := hright rfl
          simp [okAllowed, h1, h3]
        | unlinkPart =>
          simp only [okAllowed]
          split
          · rename_i h0
            rcases hst with h | h | h
            · exact h
            · exact absurd h0 h
            · simp [oks, headUnlink] at h
          · rfl
        | _ => simp [okAllowed]
      have hcl1 : s1.phase = .init → s1.isOpen = false := by
        intro h1
        obtain ⟨h0, _⟩ := step_to_init a.s s1 ev hs h1 hcl
        rw [step_init_same a.s s1 ev h0 (hcl h0) hs h1]
        exact hcl h0
      have hst1 : cfg.overwritePart = true ∨ s1.phase ≠ .init ∨ headUnlink (oks t) = false := by
        rcases hst with h | h | h
        · exact Or.inl h
        · exact Or.inr (Or.inl (step_not_init a.s s1 ev hs h))
        · by_cases h0 : a.s.phase = .init
          · rcases init_stays a.s s1 ev h0 (hcl h0) hs with h1 | ⟨sd, md, rfl⟩
            · obtain ⟨_, hev⟩ := step_to_init a.s s1 ev hs h1 hcl
              rcases hev with rfl | rfl
              · exact Or.inr (Or.inr (by simpa [oks, headUnlink] using h))
              · simp [oks, headUnlink] at h
            · refine Or.inr (Or.inl ?_)
              simp only [St.step] at hs
              split at hs
              · simp at hs; subst hs; simp
              · simp at hs
          · exact Or.inr (Or.inl (step_not_init a.s s1 ev hs h0))
      have hpub1 : publishes (oks t) = false ∨
          (a.failed = false ∧ failedBefore t = false ∧ raises = false ∧ (cfg.overwrite = false → Ev.renamePartDest ∉ oks t)) := by
        rcases hpub with hl | ⟨h1, h2, h3, h4⟩
        · simp only [oks] at hl
          rw [hpc] at hl
          simp only [Bool.or_eq_false_iff] at hl
          exact Or.inl hl.2
        · cases hip : isPub ev with
          | true =>
            -- after the publication nothing more is published: what fails afterwards does not matter
            have hs1p : s1.published = true := by
              rw [(published_step a.s s1 ev hs).1, publishes_single, hip]; simp
            exact Or.inl (pub_then_none (oks t) s1 s' hs1p h)
          | false =>
            exact Or.inr ⟨h1, by simpa [failedBefore, hip] using h2, h3, fun hh hm => h4 hh (by simp [oks, hm])⟩
      obtain ⟨a', hr, hs'⟩ := A_run_total cfg raises t { a with s := s1 } s' h hcl1 hst1 hpub1
      exact ⟨a', by simp only [A.run, A.step, hal, if_true, hs, Option.map_some]; exact hr, hs'⟩
  | .fail l i u :: t, a, s', h, hcl, hst, hpub => by
    simp only [oks] at h hst hpub
    have hpub1 : publishes (oks t) = false ∨
        ((a.failed || (l && !a.s.published)) = false ∧ failedBefore t = false ∧ raises = false ∧
          (cfg.overwrite = false → Ev.renamePartDest ∉ oks t)) := by
      rcases hpub with hl | ⟨h1, h2, h3, h4⟩
      · exact Or.inl hl
      · simp only [failedBefore, Bool.or_eq_false_iff] at h2
        exact Or.inr ⟨by simp [h1, h2.1], h2.2, h3, h4⟩
    obtain ⟨a', hr, hs'⟩ := A_run_total cfg raises t
      { a with failed := a.failed || (l && !a.s.published), ufail := a.ufail || (i && u) } s' h hcl hst hpub1
    exact ⟨a', by simp only [A.run, A.step]; exact hr, hs'⟩
  | .failClosed l :: t, a, s', h, hcl, hst, hpub => by
    simp only [oks, St.run] at h
    cases hs : a.s.step .close with
    | none => simp [hs] at h
    | some s1 =>
      simp only [hs] at h
      have hni : a.s.phase ≠ .init := by
        intro h0
        have h1 := hcl h0
        rw [step_close_open a.s s1 hs] at h1
        cases h1
      have hni1 := step_not_init a.s s1 .close hs hni
      have hpub1 : publishes (oks t) = false ∨
          ((a.failed || (l && !a.s.published)) = false ∧ failedBefore t = false ∧ raises = false ∧
            (cfg.overwrite = false → Ev.renamePartDest ∉ oks t)) := by
        rcases hpub with hl | ⟨h1, h2, h3, h4⟩
        · simp only [oks] at hl
          rw [publishes_cons] at hl
          simp only [Bool.or_eq_false_iff] at hl
          exact Or.inl hl.2
        · simp only [failedBefore, Bool.or_eq_false_iff] at h2
          exact Or.inr ⟨by simp [h1, h2.1], h2.2, h3, fun hh hm => h4 hh (by simp [oks, hm])⟩
      obtain ⟨a', hr, hs'⟩ := A_run_total cfg raises t
        { a with s := s1, failed := a.failed || (l && !a.s.published) } s' h (fun h0 => absurd h0 hni1)
        (Or.inr (Or.inl hni1)) hpub1
      exact ⟨a', by simp only [A.run, A.step, hs, Option.map_some]; exact hr, hs'⟩
  | .appear :: t, a, s', h, hcl, hst, hpub => by
    simp only [oks] at h hst hpub
    have hpub1 : publishes (oks t) = false ∨
        (a.failed = false ∧ failedBefore t = false ∧ raises = false ∧ (cfg.overwrite = false → Ev.renamePartDest ∉ oks t)) := by
      rcases hpub with hl | ⟨h1, h2, h3, h4⟩
      · exact Or.inl hl
      · exact Or.inr ⟨h1, by simpa [failedBefore] using h2, h3, h4⟩
    obtain ⟨a', hr, hs'⟩ := A_run_total cfg raises t { a with env := true } s' h hcl hst hpub1
    exact ⟨a', by simp only [A.run, A.step]; exact hr, hs'⟩

/-! ### the assembly -/

theorem publishes_of_mem_rename (t : List Ev) (h : Ev.renamePartDest ∈ t) : publishes t = true := by
  induction t with
  | nil => simp at h
  | cons e t ih =>
    rw [publishes_cons]
    rcases List.mem_cons.1 h with rfl | h
    · simp [publishes]
    · simp [ih h]

/-- an accepted trace of events contains at most one publication: never both a `rename` and a `link` -/
theorem one_publish : ∀ (t : List Ev) (s s' : St), s.run t = some s' →
    Ev.renamePartDest ∈ t → Ev.linkPartDest ∈ t → False
  | [], _, _, _, h, _ => by simp at h
  | ev :: t, s, s', h, hr, hl => by
    simp only [St.run] at h
    cases hs : s.step ev with
    | none => simp [hs] at h
    | some s1 =>
      simp only [hs] at h
      have h1 := (published_step s s1 ev hs).1
      rcases List.mem_cons.1 hr with rfl | hr'
      · rcases List.mem_cons.1 hl with hh | hl'
        · cases hh
        · have := pub_then_none t s1 s' (by rw [h1]; simp [publishes]) h
          rw [publishes_of_mem_link t hl'] at this; cases this
      · rcases List.mem_cons.1 hl with rfl | hl'
        · have := pub_then_none t s1 s' (by rw [h1]; simp [publishes]) h
          rw [publishes_of_mem_rename t hr'] at this; cases this
        · exact one_publish t s1 s' h hr' hl'

theorem A_run_failed_false (cfg : Cfg) (raises : Bool) : ∀ (t : List Obs) (a a' : A),
    a.failed = false → listedFailed t = false → a.run cfg raises t = some a' → a'.failed = false
  | [], a, a', hf, _, h => by simp [A.run] at h; subst h; exact hf
  | o :: t, a, a', hf, hl, h => by
    simp only [A.run] at h
    cases h1 : a.step cfg raises o with
    | none => simp [h1] at h
    | some a1 =>
      simp only [h1] at h
      cases o with
      | ok ev =>
        simp only [A.step] at h1
        split at h1
        · cases hs : a.s.step ev with
          | none => simp [hs] at h1
          | some s' =>
            simp [hs] at h1; subst h1
            exact A_run_failed_false cfg raises t { a with s := s' } a' hf (by simpa [listedFailed] using hl) h
        · simp at h1
      | fail l i u =>
        simp [A.step] at h1; subst h1
        simp only [listedFailed, Bool.or_eq_false_iff] at hl
        exact A_run_failed_false cfg raises t _ a' (by simp [hf, hl.1]) hl.2 h
      | failClosed l =>
        simp only [A.step] at h1
        cases hs : a.s.step .close with
        | none => simp [hs] at h1
        | some s' =>
          simp [hs] at h1; subst h1
          simp only [listedFailed, Bool.or_eq_false_iff] at hl
          exact A_run_failed_false cfg raises t _ a' (by simp [hf, hl.1]) hl.2 h
      | appear =>
        simp [A.step] at h1; subst h1
        exact A_run_failed_false cfg raises t { a with env := true } a' hf (by simpa [listedFailed] using hl) h

theorem ginv_run (P : Option Nat → Prop) (ino0 : List Inode) : ∀ (t : List Ev) (s s' : St) (fs fs' : FS) (W : Bytes),
    GInv P ino0 s fs W → s.run t = some s' → exec fs t = some fs' → GInv P ino0 s' fs' (W ++ allWrites t)
  | [], s, s', fs, fs', W, hi, hr, hx => by
    simp [St.run] at hr; simp [exec] at hx; subst hr; subst hx; simpa [allWrites] using hi
  | ev :: t, s, s', fs, fs', W, hi, hr, hx => by
    simp only [St.run] at hr
    simp only [exec] at hx
    cases hs : s.step ev with
    | none => simp [hs] at hr
    | some s1 =>
      cases hf : fs.step ev with
      | error x => simp [hf] at hx
      | ok fs1 =>
        simp only [hs] at hr
        simp only [hf] at hx
        have := ginv_run P ino0 t s1 s' fs1 fs' _ (ginv_step P ino0 s s1 fs fs1 W ev hi hs hf) hr hx
        rw [allWrites_cons, ← List.append_assoc]; exact this

/-- **Every run of the transliteration is an accepted trace** - for every configuration, initial state,
    with-block script and every fault plan without interference by another process (and without an
    injected ENOENT, which `os.stat` answers by "absent"): what `runScript` records of its own calls is
    accepted by `Accept` - including the runs in which the caller gets an exception although the save is
    published (overwrite=False, the `link` succeeded and the `unlink` of the part file after it failed),
    a region excluded before `runScript_pubClean` (Region.lean). -/
theorem runScript_accepted (cfg : Cfg) (sc : Script) (plan : Plan) (fs0 : FS) (e : Nat)
    (hne : ∀ k, plan k ≠ .appear) (hnn : ∀ k, plan k ≠ .fail ENOENT) :
    Accept cfg sc.raises (decide ((runScript cfg sc plan fs0 e).1 = .ok)) sc.content fs0.umask fs0.destMode
      (runScript cfg sc plan fs0 e).2.obs = true := by
  obtain ⟨s, W, r⟩ := runScript_spec cfg fs0 e sc plan
  have ht := runScript_T cfg sc plan fs0 e
  have hx := runScript_X cfg sc plan fs0 e hne
  have henv := runScript_envDone cfg sc plan fs0 e hne
  have hfb := runScript_pubClean cfg sc plan fs0 e hne
  generalize hout : (runScript cfg sc plan fs0 e).1 = out at r ⊢
  generalize hm : (runScript cfg sc plan fs0 e).2 = m at r ht hx henv hfb ⊢
  have hpubeq : s.published = m.published := res_pub r
  -- C04's automaton accepts the successful events
  have hrun : St.init.run (oks m.obs) = some s := by
    rw [← St_run_filter, ht.oks, St_run_filter]; exact r.j.run
  have hpubobs : publishes (oks m.obs) = m.published := by
    rw [← publishes_filter, ht.oks, publishes_filter]; rfl
  -- the side conditions of `A_run_total`
  have hstale : cfg.overwritePart = true ∨ A.init.s.phase ≠ .init ∨ headUnlink (oks m.obs) = false := by
    cases hop : cfg.overwritePart with
    | true => exact Or.inl rfl
    | false =>
      refine Or.inr (Or.inr ?_)
      rw [← headUnlink_filter, ht.oks, headUnlink_filter, ← hm]
      exact runScript_headUnlink cfg sc plan fs0 e hop
  have hside : publishes (oks m.obs) = false ∨
      (A.init.failed = false ∧ failedBefore m.obs = false ∧ sc.raises = false ∧
        (cfg.overwrite = false → Ev.renamePartDest ∉ oks m.obs)) := by
    cases hpp : publishes (oks m.obs) with
    | false => exact Or.inl rfl
    | true =>
      right
      -- a publication is recorded: nothing listed failed before it (`runScript_pubClean`), the block did not raise,
      -- and with overwrite=False it is a link - whatever happened AFTER it (the formerly excluded region included)
      have hsp : s.published = true := by rw [hpubeq, ← hpubobs]; exact hpp
      refine ⟨rfl, hfb hpp, (r.pub hsp).1, ?_⟩
      intro how hmem
      have hlink := (r.pub hsp).2.2.2.1 how
      have hmem' : Ev.renamePartDest ∈ m.tr := by
        have : Ev.renamePartDest ∈ (oks m.obs).filter notNoop := List.mem_filter.2 ⟨hmem, rfl⟩
        rw [ht.oks] at this
        exact (List.mem_filter.1 this).1
      exact one_publish m.tr St.init s r.j.run hmem' hlink
  obtain ⟨a, harun, has⟩ := A_run_total cfg sc.raises m.obs A.init s hrun (fun _ => rfl) hstale hside
  obtain ⟨f1, f2, _⟩ := A_run_flags cfg sc.raises m.obs A.init a harun
  have haenv : a.env = false := by rw [f2, ht.env, henv]; rfl
  have haufail : a.ufail = unlinkFaulted m.obs := by rw [f1]; rfl
  unfold Accept
  rw [harun]
  -- the end conditions
  have hc1 : (!decide (out = .ok) || (a.s.phase == .done && !a.failed && !sc.raises)) = true := by
    cases hd : decide (out = Outcome.ok) with
    | false => rfl
    | true =>
      have hok : out = .ok := of_decide_eq_true hd
      obtain ⟨hdone, herrs, hraise⟩ := r.ok hok
      have hlf : listedFailed m.obs = false := by
        cases hl : listedFailed m.obs with
        | false => rfl
        | true => have := ht.lf hl; omega
      have := A_run_failed_false cfg sc.raises m.obs A.init a rfl hlf harun
      simp [has, hdone, this, hraise]
  have hc2 : (decide (out = .ok) || !cfg.rmPartOnExc || a.ufail || a.s.phase == .init || a.s.phase == .aborted ||
      a.s.phase == .done) = true := by
    cases hd : decide (out = Outcome.ok) with
    | true => rfl
    | false =>
      have hne' : out ≠ .ok := of_decide_eq_false hd
      cases hrm : cfg.rmPartOnExc with
      | false => simp
      | true =>
        cases huf : a.ufail with
        | true => simp
        | false =>
          have hcf : m.cleanupFaulted = false := by
            cases hh : m.cleanupFaulted with
            | false => rfl
            | true => have := ht.cf hh; rw [← haufail, huf] at this; cases this
          rcases r.failed hne' with ⟨h0, _⟩ | ⟨hni, hp⟩
          · simp [has, h0]
          · have hpn := hp hrm hcf
            have : s.phase = .aborted ∨ s.phase = .done := by
              obtain ⟨ph, op, db, us⟩ := s
              cases ph
              · exact absurd rfl hni
              · have := ginv_part_some _ _ _ _ _ r.j.inv (Or.inl rfl); rw [hpn] at this; cases this
              · have := ginv_part_some _ _ _ _ _ r.j.inv (Or.inr rfl); rw [hpn] at this; cases this
              · exact Or.inr rfl
              · exact Or.inl rfl
            rcases this with h | h <;> simp [has, h]
  have hc3 : (!a.s.published || allWrites (oks m.obs) == sc.content) = true := by
    cases hp : a.s.published with
    | false => rfl
    | true =>
      rw [has] at hp
      have hW := (r.pub hp).2.1
      have hw : allWrites (oks m.obs) = allWrites m.tr := by rw [← allWrites_filter, ht.oks, allWrites_filter]
      have hg := ginv_run PT fs0.inodes m.tr St.init s fs0 m.fs [] (by simp [GInv, St.init, PT]) r.j.run hx
      simp only [List.nil_append] at hg
      obtain ⟨_, x, hx1, hd1, _⟩ := ginv_pub _ _ _ _ hg hp
      obtain ⟨_, y, hy1, hd2, _⟩ := ginv_pub _ _ _ _ r.j.inv hp
      have hxy : x = y := by
        have := hx1.symm.trans hy1
        simpa using this
      have : allWrites m.tr = W := by rw [← hd1, hxy, hd2]
      simp [hw, this, hW]
  have hc4 : (!a.s.published || a.env || (oks m.obs).foldl (modeAfter fs0.umask) none == some (expectedMode cfg fs0.destMode fs0.umask)) = true := by
    cases hp : a.s.published with
    | false => rfl
    | true =>
      rw [has] at hp
      obtain ⟨_, _, _, _, p, c, hmode, hpc⟩ := r.pub hp
      have hpc := hpc hne hnn
      have hw : (oks m.obs).foldl (modeAfter fs0.umask) none = m.tr.foldl (modeAfter fs0.umask) none := by
        rw [← mode_filter, ht.oks, mode_filter]
      have hp1 : p = (choosePerms cfg fs0).1 := by rw [← hpc]
      have hp2 : c = (choosePerms cfg fs0).2 := by rw [← hpc]
      simp [hw, hmode, hp1, hp2, setupMode_choose]
  simp only [accEnd, hc1, hc2, hc3, hc4, Bool.and_self]

end C05
