import BoltonsVerif.C05.Frame
import BoltonsVerif.C05.AcceptProofs
/-
C05 — the two layers meet: what the transliteration records of its own calls (`M.obs`) is, for every
plan, a trace with the bookkeeping facts `T` (frame principle), and - outside the one excluded region
(overwrite=False: the unlink after a successful link fails) - a trace that `Accept` accepts.
-/
namespace C05
open C04

def notNoop : Ev → Bool
  | .noop => false
  | _ => true

/-- some listed step reported an error -/
def listedFailed : List Obs → Bool
  | [] => false
  | .fail l _ _ :: t => l || listedFailed t
  | .failClosed l :: t => l || listedFailed t
  | _ :: t => listedFailed t

theorem oks_append (a b : List Obs) : oks (a ++ b) = oks a ++ oks b := by
  induction a with
  | nil => rfl
  | cons o t ih => rw [List.cons_append, oks_cons, oks_cons o t, ih, List.append_assoc]

theorem listedFailed_append (a b : List Obs) : listedFailed (a ++ b) = (listedFailed a || listedFailed b) := by
  induction a with
  | nil => simp [listedFailed]
  | cons o t ih => cases o <;> simp [listedFailed, ih, Bool.or_assoc]

theorem unlinkFaulted_append (a b : List Obs) : unlinkFaulted (a ++ b) = (unlinkFaulted a || unlinkFaulted b) := by
  induction a with
  | nil => simp [unlinkFaulted]
  | cons o t ih => cases o <;> simp [unlinkFaulted, ih, Bool.or_assoc]

theorem hasAppear_append (a b : List Obs) : hasAppear (a ++ b) = (hasAppear a || hasAppear b) := by
  induction a with
  | nil => simp [hasAppear]
  | cons o t ih => cases o <;> simp [hasAppear, ih]

/-- bookkeeping facts about the recorded observations, kept by every primitive call -/
structure T (m : M) : Prop where
  oks : (oks m.obs).filter notNoop = m.tr.filter notNoop
  lf : listedFailed m.obs = true → 0 < m.errs
  cf : m.cleanupFaulted = true → unlinkFaulted m.obs = true
  env : hasAppear m.obs = m.envDone

theorem T_start (fs0 : FS) (e : Nat) : T (M.start fs0 e) :=
  ⟨rfl, by simp [M.start, listedFailed], by simp [M.start], rfl⟩

/-- a call that reported an error: nothing but counters and the record change -/
theorem T_fail (m m' : M) (l i u : Bool) (h : T m) (hobs : m'.obs = m.obs ++ [.fail l i u]) (htr : m'.tr = m.tr)
    (herr : l = true → 0 < m'.errs) (herr2 : m.errs ≤ m'.errs) (hcf : m'.cleanupFaulted = m.cleanupFaulted)
    (henv : m'.envDone = m.envDone) : T m' := by
  refine ⟨by rw [hobs, htr, oks_append]; simpa [oks] using h.oks, ?_, ?_, by rw [hobs, hasAppear_append, henv, h.env]; simp [hasAppear]⟩
  · intro hl
    rw [hobs, listedFailed_append] at hl
    simp only [listedFailed, Bool.or_false, Bool.or_eq_true] at hl
    rcases hl with hl | hl
    · have := h.lf hl; omega
    · exact herr hl
  · intro hc
    rw [hcf] at hc
    rw [hobs, unlinkFaulted_append, h.cf hc]; rfl

theorem T_env (m : M) (a : Act) (h : T m) : T (m.env a) := by
  unfold M.env
  split
  · refine ⟨?_, ?_, ?_, ?_⟩
    · show (oks (m.obs ++ [.appear])).filter notNoop = _
      rw [oks_append]; simpa [oks] using h.oks
    · intro hl
      have : listedFailed (m.obs ++ [.appear]) = true := hl
      rw [listedFailed_append] at this
      simp only [listedFailed, Bool.or_false] at this
      exact h.lf this
    · intro hc
      show unlinkFaulted (m.obs ++ [.appear]) = true
      rw [unlinkFaulted_append, h.cf hc]; rfl
    · show hasAppear (m.obs ++ [.appear]) = true
      rw [hasAppear_append]; simp [hasAppear]
  · exact h

theorem T_exe (m : M) (ev : Ev) (h : T m) : T (exe m ev).2 := by
  unfold exe
  split
  · exact T_fail m _ _ _ _ h rfl rfl (fun _ => Nat.succ_pos _) (Nat.le_succ _) rfl rfl
  · refine ⟨?_, ?_, ?_, ?_⟩
    · show (oks (m.obs ++ [.ok ev])).filter notNoop = (m.tr ++ [ev]).filter notNoop
      rw [oks_append, List.filter_append, List.filter_append, h.oks]; rfl
    · intro hl
      have : listedFailed (m.obs ++ [.ok ev]) = true := hl
      rw [listedFailed_append] at this
      simp only [listedFailed, Bool.or_false] at this
      exact h.lf this
    · intro hc
      show unlinkFaulted (m.obs ++ [.ok ev]) = true
      rw [unlinkFaulted_append, h.cf hc]; rfl
    · show hasAppear (m.obs ++ [.ok ev]) = m.envDone
      rw [hasAppear_append, h.env]; simp [hasAppear]

theorem T_call (plan : Plan) (m : M) (ev : Ev) (h : T m) : T (call plan m ev).2 := by
  unfold call
  cases plan m.n with
  | fail e => exact T_fail m _ _ _ _ h rfl rfl (fun _ => Nat.succ_pos _) (Nat.le_succ _) rfl rfl
  | pass => exact T_exe m ev h
  | appear => exact T_exe _ ev (T_env m _ h)

theorem T_callClose (plan : Plan) (m : M) (h : T m) : T (callClose plan m).2 := by
  unfold callClose
  cases plan m.n with
  | fail e =>
    dsimp only
    split
    · refine ⟨?_, fun _ => Nat.succ_pos _, ?_, ?_⟩
      · show (oks (m.obs ++ [.failClosed true])).filter notNoop = (m.tr ++ [Ev.close]).filter notNoop
        rw [oks_append, List.filter_append, List.filter_append, h.oks]; rfl
      · intro hc
        show unlinkFaulted (m.obs ++ [.failClosed true]) = true
        rw [unlinkFaulted_append, h.cf hc]; rfl
      · show hasAppear (m.obs ++ [.failClosed true]) = m.envDone
        rw [hasAppear_append, h.env]; simp [hasAppear]
    · exact T_fail m _ _ _ _ h rfl rfl (fun _ => Nat.succ_pos _) (Nat.le_succ _) rfl rfl
  | pass => exact T_exe m _ h
  | appear => exact T_exe _ _ (T_env m _ h)

/-- a successful call without effect -/
theorem T_noop (m m' : M) (h : T m) (hobs : m'.obs = m.obs ++ [.ok .noop]) (htr : m'.tr = m.tr)
    (herr : m.errs ≤ m'.errs) (hcf : m'.cleanupFaulted = m.cleanupFaulted) (henv : m'.envDone = m.envDone) : T m' := by
  refine ⟨by rw [hobs, htr, oks_append]; simpa [oks, notNoop] using h.oks, ?_, ?_, by rw [hobs, hasAppear_append, henv, h.env]; simp [hasAppear]⟩
  · intro hl
    rw [hobs, listedFailed_append] at hl
    simp only [listedFailed, Bool.or_false] at hl
    have := h.lf hl; omega
  · intro hc
    rw [hcf] at hc
    rw [hobs, unlinkFaulted_append, h.cf hc]; rfl

theorem T_statObs (m m' : M) (h : T m) (b : Bool)
    (hobs : m'.obs = m.obs ++ [if b then Obs.ok Ev.noop else Obs.fail false false false]) (htr : m'.tr = m.tr)
    (herr : m.errs ≤ m'.errs) (hcf : m'.cleanupFaulted = m.cleanupFaulted) (henv : m'.envDone = m.envDone) : T m' := by
  cases b with
  | true => exact T_noop m m' h (by simpa using hobs) htr herr hcf henv
  | false => exact T_fail m m' false false false h (by simpa using hobs) htr (fun hh => by cases hh) herr hcf henv

theorem T_callStat (plan : Plan) (m : M) (h : T m) : T (callStat plan m).2 := by
  unfold callStat
  cases plan m.n with
  | fail e =>
    dsimp only
    split
    · exact T_fail m _ false true false h rfl rfl (fun hh => by cases hh) (Nat.le_refl _) rfl rfl
    · exact T_fail m _ false true false h rfl rfl (fun hh => by cases hh) (Nat.le_succ _) rfl rfl
  | pass => exact T_statObs m _ h _ rfl rfl (Nat.le_refl _) rfl rfl
  | appear => exact T_statObs (m.env .appear) _ (T_env m _ h) _ rfl rfl (Nat.le_refl _) rfl rfl

theorem T_fcall (plan : Plan) (m : M) (ev : Ev) (h : T m) : T (fcall plan m ev).2 := by
  unfold fcall
  split
  · exact T_call plan m ev h
  · cases plan m.n with
    | fail e => exact T_fail m _ _ _ _ h rfl rfl (fun _ => Nat.succ_pos _) (Nat.le_succ _) rfl rfl
    | pass => exact T_fail m _ _ _ _ h rfl rfl (fun _ => Nat.succ_pos _) (Nat.le_succ _) rfl rfl
    | appear =>
      have h1 := T_env m .appear h
      obtain ⟨_, _, e3, e4, _⟩ := env_fields m .appear
      exact T_fail (m.env .appear) _ _ _ _ h1 rfl rfl (fun _ => Nat.succ_pos _) (by show (m.env .appear).errs ≤ m.errs + 1; omega) rfl rfl

theorem T_fclose (plan : Plan) (m : M) (h : T m) : T (fclose plan m).2 := by
  unfold fclose
  split
  · exact T_callClose plan m h
  · cases plan m.n with
    | fail e => exact T_fail m _ _ _ _ h rfl rfl (fun _ => Nat.succ_pos _) (Nat.le_succ _) rfl rfl
    | pass => exact T_noop m _ h rfl rfl (Nat.le_refl _) rfl rfl
    | appear => exact T_noop (m.env .appear) _ (T_env m _ h) rfl rfl (Nat.le_refl _) rfl rfl

theorem T_rm (plan : Plan) (cfg : Cfg) (m : M) (h : T m) : T (rmPart cfg plan m) := by
  unfold rmPart
  split
  · have h1 := T_call plan m .unlinkPart h
    refine ⟨h1.oks, h1.lf, ?_, h1.env⟩
    intro hc
    simp only [Bool.or_eq_true] at hc
    rcases hc with hc | hc
    · exact h1.cf hc
    · -- the plan made this unlink fail: the record says so
      cases hp : plan m.n with
      | fail e =>
        have : (call plan m .unlinkPart).2.obs = m.obs ++ [.fail false true true] := by
          simp [call, hp, listedEv, isUnlinkEv]
        show unlinkFaulted (call plan m .unlinkPart).2.obs = true
        rw [this, unlinkFaulted_append]; simp [unlinkFaulted]
      | pass => simp [hp] at hc
      | appear => simp [hp] at hc
  · exact h

theorem T_frame (plan : Plan) : Frame T plan :=
  ⟨T_call plan, T_callClose plan, T_callStat plan, T_fcall plan, T_fclose plan, fun cfg m h => T_rm plan cfg m h,
   fun m h => ⟨h.oks, fun _ => Nat.succ_pos _, h.cf, h.env⟩⟩

/-- for every plan, the observations the transliteration records satisfy `T` -/
theorem runScript_T (cfg : Cfg) (sc : Script) (plan : Plan) (fs0 : FS) (e : Nat) : T (runScript cfg sc plan fs0 e).2 :=
  frame_runScript (T_frame plan) cfg sc fs0 e (T_start fs0 e)

end C05
