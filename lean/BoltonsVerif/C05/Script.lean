import BoltonsVerif.C05.Proofs
/-
C05 — helper lemmas for `runScript`: the saver under a with-block that may flush and close the file
object itself (`Op`, `fcall`, `fclose`, `runOps`, `syncCloseG`, `finishG` of Model.lean).

While the file object is open the generalised functions coincide with the ones of Proofs.lean
(`fcall_open`, `fclose_open`, `syncCloseG_open`, `finishG_open`, `runScript_ofBody`); once it is closed
every call on it but `close()` fails without touching the file system (`fcall_closed`,
`fclose_closed`), so `__exit__` always ends in the cleanup branch (`syncCloseG_closed`).
`runScript_spec` is the counterpart of `runSave_spec`.
-/
namespace C05
open C04

theorem env_fs_openf (m : M) (a : Act) : (m.env a).fs.openf = m.fs.openf := by
  unfold M.env; split <;> simp [FS.setDir]

theorem open_of_J (fs0 : FS) (m : M) (db us : Bool) (W : Bytes) (h : J fs0 m ⟨.part, true, db, us⟩ W) :
    m.fs.openf.isSome = true := by
  obtain ⟨x, _, h5, _⟩ := ginv_shape _ _ _ m.fs W h.inv (by simp)
  obtain ⟨buf, h7⟩ := h5 rfl
  simp [h7]

theorem fcall_open (plan : Plan) (m : M) (ev : Ev) (h : m.fs.openf.isSome = true) : fcall plan m ev = call plan m ev := by
  simp [fcall, h]

theorem fclose_open (plan : Plan) (m : M) (h : m.fs.openf.isSome = true) : fclose plan m = callClose plan m := by
  simp [fclose, h]

/-- `write` / `flush` on a closed file object: an error, nothing else happens -/
theorem fcall_closed (fs0 : FS) (plan : Plan) (m : M) (s : St) (W : Bytes) (ev : Ev) (h : J fs0 m s W)
    (hc : m.fs.openf = none) :
    (fcall plan m ev).1 ≠ none ∧ J fs0 (fcall plan m ev).2 s W ∧ (fcall plan m ev).2.errs = m.errs + 1 ∧
    (fcall plan m ev).2.tr = m.tr ∧ (fcall plan m ev).2.cleanupFaulted = m.cleanupFaulted ∧
    (fcall plan m ev).2.envIno = m.envIno ∧ (fcall plan m ev).2.fs.openf = none := by
  unfold fcall
  simp only [hc, Option.isSome_none, Bool.false_eq_true, if_false]
  cases hp : plan m.n with
  | fail e => exact ⟨by simp, J_congr _ _ _ _ _ h rfl rfl rfl rfl, rfl, rfl, rfl, rfl, hc⟩
  | pass => exact ⟨by simp, J_congr _ _ _ _ _ h rfl rfl rfl rfl, rfl, rfl, rfl, rfl, hc⟩
  | appear =>
    obtain ⟨e1, e2, e3, e4, e5⟩ := env_fields m .appear
    exact ⟨by simp, J_congr _ _ _ _ _ (J_env fs0 m s W _ h) rfl rfl rfl rfl, by simp, e2, e4, e5,
      by simp [env_fs_openf, hc]⟩

/-- `close()` on a closed file object: a no-op (unless the plan makes it fail) -/
theorem fclose_closed (fs0 : FS) (plan : Plan) (m : M) (s : St) (W : Bytes) (h : J fs0 m s W)
    (hc : m.fs.openf = none) :
    J fs0 (fclose plan m).2 s W ∧
    ((fclose plan m).1 = none → (fclose plan m).2.errs = m.errs) ∧
    ((fclose plan m).1 ≠ none → (fclose plan m).2.errs = m.errs + 1) ∧
    (fclose plan m).2.tr = m.tr ∧ (fclose plan m).2.cleanupFaulted = m.cleanupFaulted ∧
    (fclose plan m).2.envIno = m.envIno ∧ (fclose plan m).2.fs.openf = none := by
  unfold fclose
  simp only [hc, Option.isSome_none, Bool.false_eq_true, if_false]
  cases hp : plan m.n with
  | fail e => exact ⟨J_congr _ _ _ _ _ h rfl rfl rfl rfl, by simp, by simp, rfl, rfl, rfl, hc⟩
  | pass => exact ⟨J_congr _ _ _ _ _ h rfl rfl rfl rfl, by simp, by simp, rfl, rfl, rfl, hc⟩
  | appear =>
    obtain ⟨e1, e2, e3, e4, e5⟩ := env_fields m .appear
    exact ⟨J_congr _ _ _ _ _ (J_env fs0 m s W _ h) rfl rfl rfl rfl, by simp [e3], by simp, e2, e4, e5,
      by simp [env_fs_openf, hc]⟩

theorem step_close_openf (fs fs' : FS) (h : fs.step .close = .ok fs') : fs'.openf = none := by
  simp only [FS.step, FS.close] at h
  split at h <;> simp at h
  subst h; rfl

/-- after `close()` on the open part file - made to fail or not - the object is closed -/
theorem callClose_openf (fs0 : FS) (plan : Plan) (m : M) (s : St) (W : Bytes) (h : J fs0 m s W)
    (hopen : s.isOpen = true) (hph : s.phase ≠ .init) : (callClose plan m).2.fs.openf = none := by
  unfold callClose
  cases hp : plan m.n with
  | fail e =>
    obtain ⟨fs', hf⟩ := close_ok fs0 m s W h hopen hph
    simp only [hf]
    exact step_close_openf _ _ hf
  | pass =>
    obtain ⟨fs', hf⟩ := close_ok fs0 m s W h hopen hph
    simp only [exe, hf]
    exact step_close_openf _ _ hf
  | appear =>
    obtain ⟨fs', hf⟩ := close_ok fs0 (m.env .appear) s W (J_env fs0 m s W _ h) hopen hph
    simp only [exe, hf]
    exact step_close_openf _ _ hf

theorem ext_same (m m' : M) (ht : m'.tr = m.tr) (he : m.errs ≤ m'.errs) (hi : m'.envIno = m.envIno) : Ext m m' :=
  ⟨⟨[], by simp [ht], by simp⟩, he, hi⟩

/-- the block never calls `close()` on the file object -/
def noCloseOps : List Op → Bool
  | [] => true
  | .close :: _ => false
  | _ :: t => noCloseOps t

/-- postcondition of the block's calls: the part file is still unpublished under its name, open or
    closed (closed for good once a `close()` went through); without an error everything written is
    accounted for -/
def OpsPost (fs0 : FS) (m : M) (op : Bool) (W : Bytes) (ops : List Op) (r : Option Errno × M) : Prop :=
  ∃ op' db' us' W', J fs0 r.2 ⟨.part, op', db', us'⟩ W' ∧ (op' = false → r.2.fs.openf = none) ∧
    (r.1 = none → W' = W ++ (ops.map opData).flatten ∧ r.2.errs = m.errs) ∧
    (r.1 ≠ none → m.errs < r.2.errs) ∧ r.2.cleanupFaulted = m.cleanupFaulted ∧ Ext m r.2 ∧
    (r.1 = none → (noCloseOps ops = false ∨ op = false) → op' = false)

theorem runOps_spec (fs0 : FS) (plan : Plan) : ∀ (ops : List Op) (m : M) (op db us : Bool) (W : Bytes),
    J fs0 m ⟨.part, op, db, us⟩ W → (op = false → m.fs.openf = none) → OpsPost fs0 m op W ops (runOps plan m ops)
  | [], m, op, db, us, W, h, hcl =>
    ⟨op, db, us, W, by simpa [runOps] using h, by simpa [runOps] using hcl, by simp [runOps], by simp [runOps],
      by simp [runOps], by simpa [runOps] using Ext.refl m, by intro _ hx; simpa [noCloseOps] using hx⟩
  | .write d k :: ops, m, true, db, us, W, h, hcl => by
    simp only [runOps]
    rw [fcall_open plan m _ (open_of_J fs0 m db us W h)]
    have hs1 : (St.mk .part true db us).step (.write d k) = some ⟨.part, true, true, true⟩ := by simp [St.step]
    have c1 := J_call fs0 plan m _ _ W (.write d k) h hs1
    have x1 := callPost_ext fs0 m _ _ W (.write d k) _ c1 rfl
    obtain ⟨hc1, _, cf1, _⟩ := c1
    cases hcall : call plan m (.write d k) with
    | mk r1 m1 =>
      rw [hcall] at hc1 x1 cf1
      rcases hc1 with ⟨hr1, hj1, he1, _⟩ | ⟨hr1, hj1, he1, _⟩
      · simp only at hr1 hj1 he1 cf1 x1
        subst hr1
        simp only [evWrites] at hj1
        dsimp only
        obtain ⟨op', db', us', W', k1, kc, k2, k3, k4, k5, k6⟩ := runOps_spec fs0 plan ops m1 true true true _ hj1 (by simp)
        refine ⟨op', db', us', W', k1, kc, ?_, ?_, by rw [k4, cf1], x1.trans k5, ?_⟩
        · intro hn; obtain ⟨a, b⟩ := k2 hn; exact ⟨by simp [a, opData, List.append_assoc], by rw [b, he1]⟩
        · intro hn; have := k3 hn; omega
        · intro hn hx; exact k6 hn (by simpa [noCloseOps] using hx)
      · simp only at hr1 hj1 he1 cf1 x1
        cases r1 with
        | none => simp at hr1
        | some e =>
          dsimp only
          exact ⟨true, db, us, W, hj1, by simp, by simp, fun _ => by dsimp only; omega, cf1, x1, by simp⟩
  | .write d k :: ops, m, false, db, us, W, h, hcl => by
    simp only [runOps]
    obtain ⟨a1, a2, a3, a4, a5, a6, a7⟩ := fcall_closed fs0 plan m _ W (.write d k) h (hcl rfl)
    cases hcall : fcall plan m (.write d k) with
    | mk r1 m1 =>
      rw [hcall] at a1 a2 a3 a4 a5 a6 a7
      simp only at a1 a2 a3 a4 a5 a6 a7
      cases r1 with
      | none => simp at a1
      | some e =>
        dsimp only
        exact ⟨false, db, us, W, a2, fun _ => a7, by simp, fun _ => by dsimp only; omega, a5, ext_same m m1 a4 (by omega) a6, by simp⟩
  | .flush :: ops, m, true, db, us, W, h, hcl => by
    simp only [runOps]
    rw [fcall_open plan m _ (open_of_J fs0 m db us W h)]
    have hs1 : (St.mk .part true db us).step .flush = some ⟨.part, true, false, us || db⟩ := by simp [St.step]
    have c1 := J_call fs0 plan m _ _ W .flush h hs1
    have x1 := callPost_ext fs0 m _ _ W .flush _ c1 rfl
    obtain ⟨hc1, _, cf1, _⟩ := c1
    cases hcall : call plan m .flush with
    | mk r1 m1 =>
      rw [hcall] at hc1 x1 cf1
      rcases hc1 with ⟨hr1, hj1, he1, _⟩ | ⟨hr1, hj1, he1, _⟩
      · simp only at hr1 hj1 he1 cf1 x1
        subst hr1
        simp only [evWrites, List.append_nil] at hj1
        dsimp only
        obtain ⟨op', db', us', W', k1, kc, k2, k3, k4, k5, k6⟩ := runOps_spec fs0 plan ops m1 true false (us || db) _ hj1 (by simp)
        refine ⟨op', db', us', W', k1, kc, ?_, ?_, by rw [k4, cf1], x1.trans k5, ?_⟩
        · intro hn; obtain ⟨a, b⟩ := k2 hn; exact ⟨by simp [a, opData], by rw [b, he1]⟩
        · intro hn; have := k3 hn; omega
        · intro hn hx; exact k6 hn (by simpa [noCloseOps] using hx)
      · simp only at hr1 hj1 he1 cf1 x1
        cases r1 with
        | none => simp at hr1
        | some e =>
          dsimp only
          exact ⟨true, db, us, W, hj1, by simp, by simp, fun _ => by dsimp only; omega, cf1, x1, by simp⟩
  | .flush :: ops, m, false, db, us, W, h, hcl => by
    simp only [runOps]
    obtain ⟨a1, a2, a3, a4, a5, a6, a7⟩ := fcall_closed fs0 plan m _ W .flush h (hcl rfl)
    cases hcall : fcall plan m .flush with
    | mk r1 m1 =>
      rw [hcall] at a1 a2 a3 a4 a5 a6 a7
      simp only at a1 a2 a3 a4 a5 a6 a7
      cases r1 with
      | none => simp at a1
      | some e =>
        dsimp only
        exact ⟨false, db, us, W, a2, fun _ => a7, by simp, fun _ => by dsimp only; omega, a5, ext_same m m1 a4 (by omega) a6, by simp⟩
  | .close :: ops, m, true, db, us, W, h, hcl => by
    simp only [runOps]
    rw [fclose_open plan m (open_of_J fs0 m db us W h)]
    have hs3 : (St.mk .part true db us).step .close = some ⟨.part, false, false, us || db⟩ := by simp [St.step]
    obtain ⟨k1, k2, k3, _, k5, _⟩ := callClose_spec fs0 plan m _ _ W h hs3 rfl (by simp)
    have x3 := callClose_ext fs0 plan m _ _ W h hs3 rfl (by simp)
    have hcn := callClose_openf fs0 plan m _ W h rfl (by simp)
    cases hcall : callClose plan m with
    | mk r1 m1 =>
      rw [hcall] at k1 k2 k3 k5 x3 hcn
      simp only at k1 k2 k3 k5 x3 hcn
      cases r1 with
      | some e =>
        dsimp only
        exact ⟨false, false, us || db, W, k1, fun _ => hcn, by simp, fun _ => by have := k3 (by simp); dsimp only; omega, k5, x3, by simp⟩
      | none =>
        dsimp only
        obtain ⟨op', db', us', W', q1, qc, q2, q3, q4, q5, q6⟩ := runOps_spec fs0 plan ops m1 false false (us || db) W k1 (fun _ => hcn)
        refine ⟨op', db', us', W', q1, qc, ?_, ?_, by rw [q4, k5], x3.trans q5, fun hn _ => q6 hn (Or.inr rfl)⟩
        · intro hn; obtain ⟨a, b⟩ := q2 hn; exact ⟨by simp [a, opData], by rw [b, k2 rfl]⟩
        · intro hn; have := q3 hn; have := k2 rfl; omega
  | .close :: ops, m, false, db, us, W, h, hcl => by
    simp only [runOps]
    obtain ⟨a2, a3n, a3e, a4, a5, a6, a7⟩ := fclose_closed fs0 plan m _ W h (hcl rfl)
    cases hcall : fclose plan m with
    | mk r1 m1 =>
      rw [hcall] at a2 a3n a3e a4 a5 a6 a7
      simp only at a2 a3n a3e a4 a5 a6 a7
      cases r1 with
      | some e =>
        dsimp only
        have := a3e (by simp)
        exact ⟨false, db, us, W, a2, fun _ => a7, by simp, fun _ => by dsimp only; omega, a5, ext_same m m1 a4 (by omega) a6, by simp⟩
      | none =>
        dsimp only
        have he := a3n rfl
        obtain ⟨op', db', us', W', q1, qc, q2, q3, q4, q5, q6⟩ := runOps_spec fs0 plan ops m1 false db us W a2 (fun _ => a7)
        refine ⟨op', db', us', W', q1, qc, ?_, ?_, by rw [q4, a5], (ext_same m m1 a4 (by omega) a6).trans q5, fun hn _ => q6 hn (Or.inr rfl)⟩
        · intro hn; obtain ⟨a, b⟩ := q2 hn; exact ⟨by simp [a, opData], by rw [b, he]⟩
        · intro hn; have := q3 hn; omega

/-! ### `__exit__` on a file object the block may have closed -/

theorem exe_openf (m : M) (ev : Ev) (hev : ev = .flush ∨ ev = .fsync) (h : m.fs.openf.isSome = true) :
    (exe m ev).2.fs.openf.isSome = true := by
  unfold exe
  split
  · exact h
  · rename_i fs' hf
    rcases hev with rfl | rfl
    · simp only [FS.step, FS.flush] at hf
      split at hf <;> simp at hf
      subst hf; rfl
    · simp only [FS.step, FS.fsync] at hf
      split at hf <;> simp at hf
      rename_i f hof
      subst hf; simp [hof]

theorem call_openf (plan : Plan) (m : M) (ev : Ev) (hev : ev = .flush ∨ ev = .fsync) (h : m.fs.openf.isSome = true) :
    (call plan m ev).2.fs.openf.isSome = true := by
  unfold call
  cases plan m.n with
  | fail e => exact h
  | pass => exact exe_openf m ev hev h
  | appear => exact exe_openf (m.env .appear) ev hev (by rw [env_fs_openf]; exact h)

theorem syncCloseG_open (plan : Plan) (m : M) (h : m.fs.openf.isSome = true) : syncCloseG plan m = syncClose plan m := by
  unfold syncCloseG syncClose
  rw [fcall_open plan m _ h]
  have h1 := call_openf plan m .flush (Or.inl rfl) h
  dsimp only
  cases hr : (call plan m .flush).1 with
  | none =>
    have h2 := call_openf plan (call plan m .flush).2 .fsync (Or.inr rfl) h1
    dsimp only
    rw [fclose_open plan _ h2]
  | some e =>
    dsimp only
    rw [fclose_open plan _ h1]

theorem finishG_open (cfg : Cfg) (plan : Plan) (m : M) (b : Option Outcome) (h : m.fs.openf.isSome = true) :
    finishG cfg plan m b = finish cfg plan m b := by
  unfold finishG finish
  rw [syncCloseG_open plan m h]

/-- the block closed the file: `flush()` is refused, so `__exit__` ends in the cleanup branch -/
theorem syncCloseG_closed (fs0 : FS) (plan : Plan) (m : M) (s : St) (W : Bytes) (h : J fs0 m s W)
    (hc : m.fs.openf = none) :
    ∃ e, (syncCloseG plan m).1 = some e ∧ J fs0 (syncCloseG plan m).2 s W ∧ m.errs < (syncCloseG plan m).2.errs ∧
      (syncCloseG plan m).2.cleanupFaulted = m.cleanupFaulted ∧ Ext m (syncCloseG plan m).2 := by
  unfold syncCloseG
  obtain ⟨a1, a2, a3, a4, a5, a6, a7⟩ := fcall_closed fs0 plan m s W .flush h hc
  cases hcall : fcall plan m .flush with
  | mk r1 m1 =>
    rw [hcall] at a1 a2 a3 a4 a5 a6 a7
    simp only at a1 a2 a3 a4 a5 a6 a7
    cases r1 with
    | none => simp at a1
    | some e1 =>
      dsimp only
      obtain ⟨b2, b3n, b3e, b4, b5, b6, b7⟩ := fclose_closed fs0 plan m1 s W a2 a7
      cases hcl : fclose plan m1 with
      | mk r3 m3 =>
        rw [hcl] at b2 b3n b3e b4 b5 b6 b7
        simp only at b2 b3n b3e b4 b5 b6 b7
        cases r3 with
        | none =>
          have := b3n rfl
          exact ⟨e1, by simp, b2, by dsimp only; omega, by rw [b5, a5], ext_same m m3 (by rw [b4, a4]) (by omega) (by rw [b6, a6])⟩
        | some e3 =>
          have := b3e (by simp)
          exact ⟨e3, by simp, b2, by dsimp only; omega, by rw [b5, a5], ext_same m m3 (by rw [b4, a4]) (by omega) (by rw [b6, a6])⟩

/-- `__exit__` from whatever state the block leaves the part file in (open or closed) -/
theorem finishG_spec (cfg : Cfg) (fs0 : FS) (plan : Plan) (m : M) (op db us : Bool) (W : Bytes)
    (blockExc : Option Outcome) (h : J fs0 m ⟨.part, op, db, us⟩ W) (hcl : op = false → m.fs.openf = none)
    (hb : blockExc ≠ some .ok) :
    ∃ s', ExitPost cfg fs0 m W (finishG cfg plan m blockExc) s' ∧
      (s'.published = true → blockExc = none ∧ ((finishG cfg plan m blockExc).1 = .ok ∨ cfg.overwrite = false)) ∧
      (∀ b, blockExc = some b → (finishG cfg plan m blockExc).1 = b) := by
  cases op with
  | true =>
    rw [finishG_open cfg plan m blockExc (open_of_J fs0 m db us W h)]
    exact finish_spec cfg fs0 plan m db us W blockExc h hb
  | false =>
    unfold finishG
    obtain ⟨e, h0, hj, herr, h3, x0⟩ := syncCloseG_closed fs0 plan m _ W h (hcl rfl)
    cases hsc : syncCloseG plan m with
    | mk r m3 =>
      rw [hsc] at h0 hj herr h3 x0
      simp only at h0 hj herr h3 x0
      subst h0
      simp only
      obtain ⟨s', q1, q2, q3, q4, _, _, _⟩ := rmPart_spec cfg fs0 plan m3 _ W hj (Or.inl rfl)
      have x1 := rmPart_ext cfg fs0 plan m3 _ W hj (Or.inl rfl)
      have hunp : s'.published = false := by rw [q2]; simp [St.published]
      refine ⟨s', ⟨q1, q3, ?_, fun _ => q4, ?_, x0.trans x1⟩, ?_, ?_⟩
      · intro hok
        exfalso
        cases blockExc with
        | none => simp at hok
        | some b => simp at hok; subst hok; exact hb rfl
      · intro hp; rw [hunp] at hp; simp at hp
      · intro hp; rw [hunp] at hp; simp at hp
      · intro b hb; simp [hb]

/-- counterpart of `runSave_spec` for a with-block that may flush and close the file itself -/
theorem runScript_spec (cfg : Cfg) (fs0 : FS) (e : Nat) (sc : Script) (plan : Plan) :
    ∃ s W, Res cfg fs0 e sc.raises sc.content plan (runScript cfg sc plan fs0 e).1 (runScript cfg sc plan fs0 e).2 s W := by
  unfold runScript
  obtain ⟨sok, sfail⟩ := setup_spec cfg fs0 e plan
  have href : fs0.dir.dest ≠ none → cfg.overwrite = false →
      setup cfg plan (M.start fs0 e) = (some EEXIST, { M.start fs0 e with errs := (M.start fs0 e).errs + 1 }) := by
    intro hd ho
    unfold setup
    have : ((M.start fs0 e).fs.dir.dest.isSome && !cfg.overwrite) = true := by
      cases h : fs0.dir.dest with
      | none => exact absurd h hd
      | some i => simp [M.start, h, ho]
    simp only [this, if_true]
  cases hsetup : setup cfg plan (M.start fs0 e) with
  | mk r1 m1 =>
    rw [hsetup] at sok sfail
    simp only at sok sfail
    cases r1 with
    | some err =>
      dsimp only
      obtain ⟨⟨s', q1, q2, q3⟩, q4, q5⟩ := sfail (by simp)
      refine ⟨s', [], ⟨q1, q5, fun h => by simp at h, fun hp => by rw [q2] at hp; simp at hp, fun _ => q3, ?_⟩⟩
      intro hd ho
      have := href hd ho
      rw [hsetup] at this
      simp only [Prod.mk.injEq, Option.some.injEq] at this
      obtain ⟨rfl, rfl⟩ := this
      exact ⟨rfl, rfl, rfl⟩
    | none =>
      dsimp only
      obtain ⟨k1, k2, k3, k4, ⟨p, c, k5, k6⟩, k7⟩ := sok rfl
      obtain ⟨op', db', us', W', w1, wc, w2, w3, w4, w5, _⟩ := runOps_spec fs0 plan sc.ops m1 true false false [] k1 (by simp)
      have hb : scriptOutcome sc (runOps plan m1 sc.ops).1 ≠ some .ok := by
        unfold scriptOutcome
        cases (runOps plan m1 sc.ops).1 <;> simp
      obtain ⟨s', ⟨f1, f2, f3, f4, f5, f6⟩, f7, f8⟩ := finishG_spec cfg fs0 plan (runOps plan m1 sc.ops).2 op' db' us' W'
        (scriptOutcome sc (runOps plan m1 sc.ops).1) w1 wc hb
      have hblock : scriptOutcome sc (runOps plan m1 sc.ops).1 = none →
          (runOps plan m1 sc.ops).1 = none ∧ sc.raises = false := by
        unfold scriptOutcome
        cases (runOps plan m1 sc.ops).1 <;> simp
      refine ⟨s', W', ⟨f1, by rw [f6.envIno, w5.envIno, k4], ?_, ?_, ?_, ?_⟩⟩
      · intro hok
        obtain ⟨a, b, _⟩ := f3 hok
        have hpub : s'.published = true := by simp [St.published, a]
        obtain ⟨hbn, _⟩ := f7 hpub
        obtain ⟨hw, hr⟩ := hblock hbn
        exact ⟨a, by rw [b, (w2 hw).2, k2], hr⟩
      · intro hpub
        obtain ⟨hbn, hok⟩ := f7 hpub
        obtain ⟨hw, hr⟩ := hblock hbn
        refine ⟨hr, by simpa [Script.content] using (w2 hw).1, hok, f5 hpub, p, c, ?_, k6⟩
        rw [Ext.mode fs0.umask f6, Ext.mode fs0.umask w5, k5]
        apply setup_mode
        intro ev hev
        split at hev <;> simp at hev
        subst hev; rfl
      · intro hn
        exact Or.inr ⟨f2, f4 hn⟩
      · intro hd ho
        have := href hd ho
        rw [hsetup] at this
        simp at this

/-! ### a block that only writes: `runScript` is `runSave` -/

theorem runOps_ofWrites (fs0 : FS) (plan : Plan) : ∀ (ws : List (Bytes × Nat)) (m : M) (db us : Bool) (W : Bytes),
    J fs0 m ⟨.part, true, db, us⟩ W →
    runOps plan m (ws.map (fun w => Op.write w.1 w.2)) = runWrites plan m ws
  | [], m, db, us, W, h => rfl
  | w :: ws, m, db, us, W, h => by
    simp only [List.map_cons, runOps, runWrites]
    rw [fcall_open plan m _ (open_of_J fs0 m db us W h)]
    have hs1 : (St.mk .part true db us).step (.write w.1 w.2) = some ⟨.part, true, true, true⟩ := by simp [St.step]
    obtain ⟨hc1, _⟩ := J_call fs0 plan m _ _ W (.write w.1 w.2) h hs1
    cases hcall : call plan m (.write w.1 w.2) with
    | mk r1 m1 =>
      rw [hcall] at hc1
      cases r1 with
      | some e => rfl
      | none =>
        dsimp only
        rcases hc1 with ⟨_, hj1, _⟩ | ⟨hr, _⟩
        · exact runOps_ofWrites fs0 plan ws m1 true true _ hj1
        · simp at hr

theorem runScript_ofBody (cfg : Cfg) (body : Body) (plan : Plan) (fs0 : FS) (e : Nat) :
    runScript cfg (Script.ofBody body) plan fs0 e = runSave cfg body plan fs0 e := by
  unfold runScript runSave
  obtain ⟨sok, _⟩ := setup_spec cfg fs0 e plan
  cases hsetup : setup cfg plan (M.start fs0 e) with
  | mk r1 m1 =>
    rw [hsetup] at sok
    simp only at sok
    cases r1 with
    | some err => rfl
    | none =>
      dsimp only
      obtain ⟨k1, _⟩ := sok rfl
      have hops : runOps plan m1 (Script.ofBody body).ops = runWrites plan m1 body.writes :=
        runOps_ofWrites fs0 plan body.writes m1 false false [] k1
      rw [hops]
      obtain ⟨db', us', W', w1, _⟩ := runWrites_spec fs0 plan body.writes m1 false false [] k1
      rw [finishG_open cfg plan _ _ (open_of_J fs0 _ db' us' W' w1)]
      rfl

theorem content_ofBody (body : Body) : (Script.ofBody body).content = newContent body := by
  simp [Script.content, Script.ofBody, newContent, List.map_map, Function.comp_def, opData]

/-! ### no interference: `envDone` stays false, and the file system is `exec` of the trace -/

theorem fcall_envDone (plan : Plan) (m : M) (ev : Ev) (hp : NoEnv plan) : (fcall plan m ev).2.envDone = m.envDone := by
  unfold fcall
  split
  · exact call_envDone plan m ev hp
  · cases h : plan m.n with
    | fail e => rfl
    | pass => rfl
    | appear => exact absurd h (hp m.n)

theorem fclose_envDone (plan : Plan) (m : M) (hp : NoEnv plan) : (fclose plan m).2.envDone = m.envDone := by
  unfold fclose
  split
  · exact callClose_envDone plan m hp
  · cases h : plan m.n with
    | fail e => rfl
    | pass => rfl
    | appear => exact absurd h (hp m.n)

theorem runOps_envDone (plan : Plan) (hp : NoEnv plan) : ∀ (ops : List Op) (m : M),
    (runOps plan m ops).2.envDone = m.envDone
  | [], m => rfl
  | .write d k :: ops, m => by
    simp only [runOps]
    have e1 := fcall_envDone plan m (.write d k) hp
    cases h1 : fcall plan m (.write d k) with
    | mk r1 m1 =>
      rw [h1] at e1
      cases r1 with
      | some e => exact e1
      | none => dsimp only; rw [runOps_envDone plan hp ops m1, e1]
  | .flush :: ops, m => by
    simp only [runOps]
    have e1 := fcall_envDone plan m .flush hp
    cases h1 : fcall plan m .flush with
    | mk r1 m1 =>
      rw [h1] at e1
      cases r1 with
      | some e => exact e1
      | none => dsimp only; rw [runOps_envDone plan hp ops m1, e1]
  | .close :: ops, m => by
    simp only [runOps]
    have e1 := fclose_envDone plan m hp
    cases h1 : fclose plan m with
    | mk r1 m1 =>
      rw [h1] at e1
      cases r1 with
      | some e => exact e1
      | none => dsimp only; rw [runOps_envDone plan hp ops m1, e1]

theorem syncCloseG_envDone (plan : Plan) (m : M) (hp : NoEnv plan) : (syncCloseG plan m).2.envDone = m.envDone := by
  unfold syncCloseG
  dsimp only
  rw [fclose_envDone plan _ hp]
  have e1 := fcall_envDone plan m .flush hp
  cases h1 : (fcall plan m .flush).1 with
  | some e => exact e1
  | none => dsimp only; rw [call_envDone plan _ _ hp, e1]

theorem finishG_envDone (cfg : Cfg) (plan : Plan) (m : M) (b : Option Outcome) (hp : NoEnv plan) :
    (finishG cfg plan m b).2.envDone = m.envDone := by
  unfold finishG
  have e1 := syncCloseG_envDone plan m hp
  cases h1 : syncCloseG plan m with
  | mk r1 m1 =>
    rw [h1] at e1
    cases r1 with
    | some e => dsimp only; rw [rmPart_envDone cfg plan _ hp, e1]
    | none =>
      dsimp only
      cases b with
      | some x => dsimp only; rw [rmPart_envDone cfg plan _ hp, e1]
      | none => dsimp only; rw [publish_envDone cfg plan _ hp, e1]

theorem runScript_envDone (cfg : Cfg) (sc : Script) (plan : Plan) (fs0 : FS) (e : Nat) (hp : NoEnv plan) :
    (runScript cfg sc plan fs0 e).2.envDone = false := by
  unfold runScript
  have e1 := setup_envDone cfg plan (M.start fs0 e) hp
  cases h1 : setup cfg plan (M.start fs0 e) with
  | mk r1 m1 =>
    rw [h1] at e1
    cases r1 with
    | some x => exact e1
    | none =>
      dsimp only
      rw [finishG_envDone cfg plan _ _ hp, runOps_envDone plan hp, e1]
      rfl

theorem fcall_X (fs0 : FS) (plan : Plan) (m : M) (ev : Ev) (hp : NoEnv plan) (h : X fs0 m) : X fs0 (fcall plan m ev).2 := by
  unfold fcall
  split
  · exact call_X fs0 plan m ev hp h
  · cases hpl : plan m.n with
    | fail e => exact h
    | pass => exact h
    | appear => exact absurd hpl (hp m.n)

theorem fclose_X (fs0 : FS) (plan : Plan) (m : M) (hp : NoEnv plan) (h : X fs0 m) : X fs0 (fclose plan m).2 := by
  unfold fclose
  split
  · exact callClose_X fs0 plan m hp h
  · cases hpl : plan m.n with
    | fail e => exact h
    | pass => exact h
    | appear => exact absurd hpl (hp m.n)

theorem runOps_X (fs0 : FS) (plan : Plan) (hp : NoEnv plan) : ∀ (ops : List Op) (m : M),
    X fs0 m → X fs0 (runOps plan m ops).2
  | [], m, h => h
  | .write d k :: ops, m, h => by
    simp only [runOps]
    have e1 := fcall_X fs0 plan m (.write d k) hp h
    cases h1 : fcall plan m (.write d k) with
    | mk r1 m1 =>
      rw [h1] at e1
      cases r1 with
      | some e => exact e1
      | none => exact runOps_X fs0 plan hp ops m1 e1
  | .flush :: ops, m, h => by
    simp only [runOps]
    have e1 := fcall_X fs0 plan m .flush hp h
    cases h1 : fcall plan m .flush with
    | mk r1 m1 =>
      rw [h1] at e1
      cases r1 with
      | some e => exact e1
      | none => exact runOps_X fs0 plan hp ops m1 e1
  | .close :: ops, m, h => by
    simp only [runOps]
    have e1 := fclose_X fs0 plan m hp h
    cases h1 : fclose plan m with
    | mk r1 m1 =>
      rw [h1] at e1
      cases r1 with
      | some e => exact e1
      | none => exact runOps_X fs0 plan hp ops m1 e1

theorem syncCloseG_X (fs0 : FS) (plan : Plan) (m : M) (hp : NoEnv plan) (h : X fs0 m) : X fs0 (syncCloseG plan m).2 := by
  unfold syncCloseG
  dsimp only
  apply fclose_X fs0 plan _ hp
  have e1 := fcall_X fs0 plan m .flush hp h
  cases h1 : (fcall plan m .flush).1 with
  | some e => exact e1
  | none => exact call_X fs0 plan _ _ hp e1

theorem finishG_X (fs0 : FS) (cfg : Cfg) (plan : Plan) (m : M) (b : Option Outcome) (hp : NoEnv plan) (h : X fs0 m) :
    X fs0 (finishG cfg plan m b).2 := by
  unfold finishG
  have e1 := syncCloseG_X fs0 plan m hp h
  cases h1 : syncCloseG plan m with
  | mk r1 m1 =>
    rw [h1] at e1
    cases r1 with
    | some e => exact rmPart_X fs0 cfg plan _ hp e1
    | none =>
      dsimp only
      cases b with
      | some x => exact rmPart_X fs0 cfg plan _ hp e1
      | none => exact publish_X fs0 cfg plan _ hp e1

theorem runScript_X (cfg : Cfg) (sc : Script) (plan : Plan) (fs0 : FS) (e : Nat) (hp : NoEnv plan) :
    exec fs0 (runScript cfg sc plan fs0 e).2.tr = some (runScript cfg sc plan fs0 e).2.fs := by
  unfold runScript
  have e1 := setup_X fs0 cfg plan (M.start fs0 e) hp (by simp [X, M.start, exec])
  cases h1 : setup cfg plan (M.start fs0 e) with
  | mk r1 m1 =>
    rw [h1] at e1
    cases r1 with
    | some x => exact e1
    | none => exact finishG_X fs0 cfg plan _ _ hp (runOps_X fs0 plan hp _ _ e1)

/-! ### progress without faults for a block that does not close the file itself -/

theorem runOps_ok (fs0 : FS) (plan : Plan) (hp : ∀ k, plan k = .pass) :
    ∀ (ops : List Op) (m : M) (db us : Bool) (W : Bytes),
    J fs0 m ⟨.part, true, db, us⟩ W → noCloseOps ops = true →
    (runOps plan m ops).1 = none ∧ ∃ db' us' W', J fs0 (runOps plan m ops).2 ⟨.part, true, db', us'⟩ W'
  | [], m, db, us, W, h, _ => ⟨rfl, db, us, W, h⟩
  | .write d k :: ops, m, db, us, W, h, hnc => by
    simp only [runOps]
    rw [fcall_open plan m _ (open_of_J fs0 m db us W h)]
    have hs1 : (St.mk .part true db us).step (.write d k) = some ⟨.part, true, true, true⟩ := by simp [St.step]
    obtain ⟨a, b, _⟩ := call_pass_tr fs0 plan m _ _ W (.write d k) (hp _) h hs1
      (step_ok_open fs0 m _ W h _ rfl (by simp) (Or.inr (Or.inr (Or.inr (Or.inr ⟨_, _, rfl⟩)))))
    cases hcall : call plan m (.write d k) with
    | mk r1 m1 =>
      rw [hcall] at a b
      simp only at a b; subst a
      dsimp only
      exact runOps_ok fs0 plan hp ops m1 true true _ b (by simpa [noCloseOps] using hnc)
  | .flush :: ops, m, db, us, W, h, hnc => by
    simp only [runOps]
    rw [fcall_open plan m _ (open_of_J fs0 m db us W h)]
    have hs1 : (St.mk .part true db us).step .flush = some ⟨.part, true, false, us || db⟩ := by simp [St.step]
    obtain ⟨a, b, _⟩ := call_pass_tr fs0 plan m _ _ W .flush (hp _) h hs1
      (step_ok_open fs0 m _ W h _ rfl (by simp) (Or.inl rfl))
    cases hcall : call plan m .flush with
    | mk r1 m1 =>
      rw [hcall] at a b
      simp only at a b; subst a
      dsimp only
      exact runOps_ok fs0 plan hp ops m1 false (us || db) _ b (by simpa [noCloseOps] using hnc)
  | .close :: ops, m, db, us, W, h, hnc => by simp [noCloseOps] at hnc

/-- a save with nothing in its way, no fault and a block that does not close the file completes -/
theorem runScript_nofault_ok (cfg : Cfg) (fs0 : FS) (e : Nat) (sc : Script) (plan : Plan) (hp : ∀ k, plan k = .pass)
    (hpart : fs0.dir.part = none ∨ cfg.overwritePart = true)
    (hdest : fs0.dir.dest = none ∨ cfg.overwrite = true) (hr : sc.raises = false) (hnc : noCloseOps sc.ops = true) :
    (runScript cfg sc plan fs0 e).1 = .ok := by
  unfold runScript
  have ok1 := setup_ok cfg fs0 e plan hp hpart hdest
  obtain ⟨sok, _⟩ := setup_spec cfg fs0 e plan
  have e1 := setup_envDone cfg plan (M.start fs0 e) (noEnv_of_pass plan hp)
  cases hsetup : setup cfg plan (M.start fs0 e) with
  | mk r1 m1 =>
    rw [hsetup] at ok1 sok e1
    simp only at ok1 sok e1
    subst ok1
    dsimp only
    obtain ⟨k1, _⟩ := sok rfl
    obtain ⟨ok2, db', us', W', w1⟩ := runOps_ok fs0 plan hp sc.ops m1 false false [] k1 hnc
    have e2 := runOps_envDone plan (noEnv_of_pass plan hp) sc.ops m1
    have hb : scriptOutcome sc (runOps plan m1 sc.ops).1 = none := by simp [scriptOutcome, ok2, hr]
    rw [hb, finishG_open cfg plan _ _ (open_of_J fs0 _ db' us' W' w1)]
    exact finish_ok cfg fs0 plan hp _ db' us' W' w1 (by rcases hdest with h | h; exact Or.inr h; exact Or.inl h)
      (by rw [e2, e1]; rfl)

/-! ### a block that closes the file object itself never gets published -/

theorem pub_of_J {fs0 : FS} {m : M} {s : St} {W : Bytes} (h : J fs0 m s W) : m.published = s.published := by
  have := (published_run m.tr St.init s h.run).1
  have hinit : St.init.published = false := by decide
  rw [hinit, Bool.false_or] at this
  exact this.symm

theorem runScript_closed (cfg : Cfg) (sc : Script) (plan : Plan) (fs0 : FS) (e : Nat) (hcl : noCloseOps sc.ops = false) :
    (runScript cfg sc plan fs0 e).1 ≠ .ok ∧ (runScript cfg sc plan fs0 e).2.published = false := by
  unfold runScript
  obtain ⟨sok, sfail⟩ := setup_spec cfg fs0 e plan
  cases hsetup : setup cfg plan (M.start fs0 e) with
  | mk r1 m1 =>
    rw [hsetup] at sok sfail
    simp only at sok sfail
    cases r1 with
    | some err =>
      dsimp only
      obtain ⟨⟨s', q1, q2, _⟩, _, _⟩ := sfail (by simp)
      exact ⟨by simp, by rw [pub_of_J q1, q2]⟩
    | none =>
      dsimp only
      obtain ⟨k1, _⟩ := sok rfl
      obtain ⟨op', db', us', W', w1, wc, _, _, _, _, w6⟩ := runOps_spec fs0 plan sc.ops m1 true false false [] k1 (by simp)
      have hb : scriptOutcome sc (runOps plan m1 sc.ops).1 ≠ some .ok := by
        unfold scriptOutcome
        cases (runOps plan m1 sc.ops).1 <;> simp
      obtain ⟨s', ⟨f1, _, f3, _, _, _⟩, f7, f8⟩ := finishG_spec cfg fs0 plan (runOps plan m1 sc.ops).2 op' db' us' W'
        (scriptOutcome sc (runOps plan m1 sc.ops).1) w1 wc hb
      cases hro : (runOps plan m1 sc.ops).1 with
      | some err =>
        have hbe : scriptOutcome sc (runOps plan m1 sc.ops).1 = some (.osErr err) := by simp [scriptOutcome, hro]
        have hout := f8 _ hbe
        have hunp : s'.published = false := by
          cases hp : s'.published with
          | false => rfl
          | true => have := (f7 hp).1; rw [hbe] at this; cases this
        rw [hro] at hout f1
        exact ⟨by rw [hout]; simp, by rw [pub_of_J f1, hunp]⟩
      | none =>
        have hop : op' = false := w6 hro (Or.inl hcl)
        subst hop
        have hc := wc rfl
        -- the file object is closed: `__exit__` ends in the cleanup branch
        have hnotok : (finishG cfg plan (runOps plan m1 sc.ops).2 (scriptOutcome sc (runOps plan m1 sc.ops).1)).1 ≠ .ok ∧
            s'.published = false := by
          constructor
          · intro hok
            obtain ⟨a, _, _⟩ := f3 hok
            have hpub : s'.published = true := by simp [St.published, a]
            obtain ⟨_, hor⟩ := f7 hpub
            -- published requires `syncCloseG` to have returned no error, impossible on a closed object
            obtain ⟨e3, h0, _⟩ := syncCloseG_closed fs0 plan (runOps plan m1 sc.ops).2 _ W' w1 hc
            unfold finishG at hok
            rw [show syncCloseG plan (runOps plan m1 sc.ops).2 = (some e3, (syncCloseG plan (runOps plan m1 sc.ops).2).2) from
              Prod.ext h0 rfl] at hok
            simp only at hok
            cases hso : scriptOutcome sc (runOps plan m1 sc.ops).1 with
            | none => rw [hso] at hok; simp at hok
            | some b => rw [hso] at hok; simp at hok; rw [hok] at hso; exact hb hso
          · cases hp : s'.published with
            | false => rfl
            | true =>
              exfalso
              obtain ⟨e3, h0, hj3, _⟩ := syncCloseG_closed fs0 plan (runOps plan m1 sc.ops).2 _ W' w1 hc
              -- the final state is `rmPart` of an unpublished state
              obtain ⟨s2, q1, q2, _⟩ := rmPart_spec cfg fs0 plan (syncCloseG plan (runOps plan m1 sc.ops).2).2 _ W' hj3 (Or.inl rfl)
              have hfin : (finishG cfg plan (runOps plan m1 sc.ops).2 (scriptOutcome sc (runOps plan m1 sc.ops).1)).2 =
                  rmPart cfg plan (syncCloseG plan (runOps plan m1 sc.ops).2).2 := by
                unfold finishG
                rw [show syncCloseG plan (runOps plan m1 sc.ops).2 = (some e3, (syncCloseG plan (runOps plan m1 sc.ops).2).2) from
                  Prod.ext h0 rfl]
              have p1 := pub_of_J f1
              have p2 := pub_of_J q1
              rw [hfin] at p1
              rw [p1] at p2
              rw [p2, q2] at hp
              simp [St.published] at hp
        rw [hro] at hnotok f1
        exact ⟨hnotok.1, by rw [pub_of_J f1, hnotok.2]⟩

end C05
