import BoltonsVerif.C05.AcceptHist
import BoltonsVerif.C05.Env
/-
C05 — histories of saves IN A CHANGING WORLD.  Between two saves (through the same long-lived
`AtomicSaver` object, or through another one) the destination may be chmod-ed, deleted, replaced by
another writer's file, the process umask may change (`EnvStep`).  `HistoryE` = any interleaving of
accepted saves and such moves.  What a reader of the destination sees (`View`: bytes, permission
bits; plus the umask) after ANY such history is computed by a trivial specification machine
(`viewRun`): a move of the world acts on the view, a save that is not published leaves it alone,
and a published save sets it to the block's bytes with the permission bits

    explicit `file_perms`, else those the destination has WHEN THAT SAVE STARTS, else `0o666 & ~umask`
    with the umask in force WHEN THAT SAVE STARTS

- a function of the state the save starts from, not of anything the saver object did or saw before.
-/
namespace C05
open C04

/-! ### a move of the world keeps the state a legitimate starting state -/

theorem modInode_length (l : List Inode) (i : Nat) (f : Inode → Inode) : (modInode l i f).length = l.length := by
  unfold modInode; split <;> simp

theorem modInode_get_ne (l : List Inode) (i j : Nat) (f : Inode → Inode) (h : i ≠ j) : (modInode l i f)[j]? = l[j]? := by
  unfold modInode; split
  · rfl
  · simp [h]

theorem modInode_get_eq (l : List Inode) (i : Nat) (f : Inode → Inode) : (modInode l i f)[i]? = l[i]?.map f := by
  unfold modInode; split
  · rename_i h; simp [h]
  · rename_i x h
    have hlt : i < l.length := by
      rcases Nat.lt_or_ge i l.length with h' | h'
      · exact h'
      · have := List.getElem?_eq_none h'; rw [this] at h; cases h
    have hx : l[i] = x := by
      have := List.getElem?_eq_getElem hlt
      rw [this] at h; exact Option.some.inj h
    simp [hlt, hx]

theorem EnvStep.start (x : EnvStep) (fs : FS) (e : Nat) (hst : Start fs e) : Start (x.apply fs) e := by
  obtain ⟨⟨wd, wp⟩, elt, eino, edest, epart⟩ := hst
  cases x with
  | chmodDest md =>
    simp only [EnvStep.apply]
    cases hd : fs.dir.dest with
    | none => exact ⟨⟨wd, wp⟩, elt, eino, edest, epart⟩
    | some i =>
      have hie : i ≠ e := fun h => edest (by rw [hd, h])
      refine ⟨⟨?_, ?_⟩, ?_, ?_, ?_, ?_⟩
      · intro j hj; simp only [modInode_length]; exact wd j hj
      · intro j hj; simp only [modInode_length]; exact wp j hj
      · simp only [modInode_length]; exact elt
      · simp only [modInode_get_ne _ _ _ _ hie]; exact eino
      · exact edest
      · exact epart
  | unlinkDest =>
    simp only [EnvStep.apply]
    cases hd : fs.dir.dest with
    | none => exact ⟨⟨wd, wp⟩, elt, eino, edest, epart⟩
    | some i =>
      refine ⟨⟨?_, ?_⟩, elt, eino, ?_, epart⟩
      · intro j hj; simp [FS.setDir] at hj
      · intro j hj; exact wp j hj
      · simp [FS.setDir]
  | putDest md data =>
    simp only [EnvStep.apply]
    refine ⟨⟨?_, ?_⟩, ?_, ?_, ?_, ?_⟩
    · intro j hj; simp [FS.setDir] at hj; subst hj; simp
    · intro j hj; have := wp j hj; simp [FS.setDir] at hj ⊢; have := wp j hj; omega
    · simp; omega
    · simp [List.getElem?_append_left elt]; exact eino
    · simp [FS.setDir]; omega
    · exact epart
  | setUmask um => exact ⟨⟨wd, wp⟩, elt, eino, edest, epart⟩
  | putPart md data =>
    simp only [EnvStep.apply]
    refine ⟨⟨?_, ?_⟩, ?_, ?_, ?_, ?_⟩
    · intro j hj; have := wd j hj; simp [FS.setDir] at hj ⊢; have := wd j hj; omega
    · intro j hj; simp [FS.setDir] at hj; subst hj; simp
    · simp; omega
    · simp [List.getElem?_append_left elt]; exact eino
    · exact edest
    · simp [FS.setDir]; omega
  | unlinkPart =>
    simp only [EnvStep.apply]
    cases hd : fs.dir.part with
    | none => exact ⟨⟨wd, wp⟩, elt, eino, edest, epart⟩
    | some i =>
      refine ⟨⟨?_, ?_⟩, elt, eino, edest, ?_⟩
      · intro j hj; exact wd j hj
      · intro j hj; simp [FS.setDir] at hj
      · simp [FS.setDir]

/-! ### what a reader of the destination sees -/

structure View where
  bytes : Option Bytes
  mode : Option Nat
  umask : Nat
deriving DecidableEq, Repr

def viewOf (fs : FS) : View := ⟨fs.readDest, fs.destMode, fs.umask⟩

/-- the move of the world, on the view -/
def EnvStep.view (v : View) : EnvStep → View
  | .chmodDest md => { v with mode := v.mode.map (fun _ => md) }
  | .unlinkDest => { v with bytes := none, mode := none }
  | .putDest md data => ⟨some data, some md, v.umask⟩
  | .setUmask um => { v with umask := um }
  | .putPart _ _ => v
  | .unlinkPart => v

theorem EnvStep.view_apply (x : EnvStep) (fs : FS) (hwf : fs.WF) : viewOf (x.apply fs) = x.view (viewOf fs) := by
  cases x with
  | chmodDest md =>
    simp only [EnvStep.apply, EnvStep.view, viewOf]
    cases hd : fs.dir.dest with
    | none => simp [FS.readDest, FS.destMode, FS.inode?, hd]
    | some i =>
      have hlt := hwf.1 i hd
      simp only [FS.readDest, FS.destMode, FS.inode?, hd, modInode_get_eq]
      have : fs.inodes[i]? = some fs.inodes[i] := List.getElem?_eq_getElem hlt
      simp [this, Inode.cache]
  | unlinkDest =>
    simp only [EnvStep.apply, EnvStep.view, viewOf]
    cases hd : fs.dir.dest with
    | none => simp [FS.readDest, FS.destMode, FS.inode?, hd]
    | some i => simp [FS.readDest, FS.destMode, FS.inode?, FS.setDir]
  | putDest md data =>
    simp [EnvStep.apply, EnvStep.view, viewOf, FS.readDest, FS.destMode, FS.inode?, FS.setDir, Inode.cache]
  | setUmask um => simp [EnvStep.apply, EnvStep.view, viewOf, FS.readDest, FS.destMode, FS.inode?]
  | putPart md data =>
    simp only [EnvStep.apply, EnvStep.view, viewOf, FS.readDest, FS.destMode, FS.inode?, FS.setDir]
    cases hd : fs.dir.dest with
    | none => rfl
    | some i => simp [List.getElem?_append_left (hwf.1 i hd)]
  | unlinkPart =>
    simp only [EnvStep.apply, EnvStep.view, viewOf]
    cases hd : fs.dir.part with
    | none => rfl
    | some i => simp [FS.readDest, FS.destMode, FS.inode?, FS.setDir]

/-! ### a save never changes the umask of the abstract file system -/

theorem FS.step_umask (fs fs' : FS) (ev : Ev) (h : fs.step ev = .ok fs') : fs'.umask = fs.umask := by
  cases ev <;> simp only [FS.step, FS.openPart, FS.chmodPart, FS.write, FS.flush, FS.fsync, FS.close, FS.closeFd,
    FS.renamePartDest, FS.linkPartDest, FS.unlinkPart, FS.truncDest, FS.writeDest, FS.unlinkDest] at h
  all_goals (first
    | (cases h; rfl)
    | (split at h <;> first | (cases h; done) | (cases h; rfl) | (split at h <;> first | (cases h; done) | (cases h; rfl))))

theorem exe_umask (m m' : M) (ev : Ev) (r : Option Errno) (h : exe m ev = (r, m')) : m'.fs.umask = m.fs.umask := by
  unfold exe at h
  split at h
  · cases h; rfl
  · rename_i fs' hs; cases h; exact FS.step_umask _ _ _ hs

theorem env_umask (m : M) (a : Act) : (m.env a).fs.umask = m.fs.umask := by
  unfold M.env; split <;> simp [FS.setDir]

theorem replayStep_umask (m m' : M) (o : Obs) (h : replayStep m o = some m') : m'.fs.umask = m.fs.umask := by
  cases o with
  | ok ev =>
    simp only [replayStep] at h
    split at h
    · rename_i m4 hx; cases h; exact exe_umask _ _ _ _ hx
    · cases h
  | fail l i u => simp only [replayStep] at h; cases h; rfl
  | failClosed l =>
    simp only [replayStep] at h
    split at h
    · rename_i m4 hx; cases h; exact exe_umask m m4 _ _ hx
    · cases h
  | appear => simp only [replayStep] at h; cases h; exact env_umask m .appear

theorem replay_umask : ∀ (t : List Obs) (m m' : M), replay m t = some m' → m'.fs.umask = m.fs.umask
  | [], m, m', h => by simp [replay] at h; subst h; rfl
  | o :: t, m, m', h => by
    simp only [replay] at h
    cases h2 : replayStep m o with
    | none => simp [h2] at h
    | some m3 =>
      simp only [h2] at h
      rw [replay_umask t m3 m' h, replayStep_umask m m3 o h2]

theorem Observed.umask {cfg raises ok content fs0 e t m} (h : Observed cfg raises ok content fs0 e t m) :
    m.fs.umask = fs0.umask := by
  simpa [M.start] using replay_umask t _ m h.run

/-- permission bits of the destination after an accepted published save (no interference by another process while
    it runs): explicit, else those of the file it replaces, else `0o666 & ~umask` - all read in the state it starts from -/
theorem Observed.published_mode {cfg raises ok content fs0 e t m} (h : Observed cfg raises ok content fs0 e t m)
    (hpub : publishes (oks t) = true) (hne : hasAppear t = false) :
    m.fs.destMode = some (expectedMode cfg fs0.destMode fs0.umask) := by
  obtain ⟨a, ha, hend, r, htr, hp⟩ := h.rj
  have hsp : a.s.published = true := by rw [hp]; exact hpub
  have henv : a.env = false := by
    have := (A_run_flags cfg raises t A.init a ha).2.1
    simpa [A.init, hne] using this
  have hmode := (accEnd_spec _ _ _ _ _ _ _ _ hend).2.2.2 hsp henv
  have hph : a.s.phase ≠ .init := by intro h; simp [St.published, h] at hsp
  obtain ⟨x, hx, _⟩ := ginv_shape _ _ a.s _ _ r.j.inv hph
  have hm := r.j.mode hph x hx
  rw [htr, hmode] at hm
  have hdest : m.fs.dir.dest = some fs0.inodes.length := (ginv_pub _ _ _ _ r.j.inv hsp).1
  have : m.fs.destMode = some x.mode := by simp [FS.destMode, FS.inode?, hdest, hx]
  rw [this, hm]

/-! ### histories with moves of the world -/

inductive Step where
  | save (s : SaveObs)
  | env (x : EnvStep)

/-- any interleaving of accepted, executable saves (each started in the state its predecessor left; no other process
    acting WHILE a save runs) and moves of the world between them -/
inductive HistoryE (e : Nat) : FS → List Step → FS → Prop
  | nil (fs : FS) : HistoryE e fs [] fs
  | save (fs0 : FS) (s : SaveObs) (m : M) (rest : List Step) (fs2 : FS) :
      Observed s.cfg s.raises s.ok s.content fs0 e s.t m → hasAppear s.t = false → HistoryE e m.fs rest fs2 →
      HistoryE e fs0 (.save s :: rest) fs2
  | env (fs0 : FS) (x : EnvStep) (rest : List Step) (fs2 : FS) :
      HistoryE e (x.apply fs0) rest fs2 → HistoryE e fs0 (.env x :: rest) fs2

theorem HistoryE.start {e : Nat} {fs0 fs : FS} {l : List Step} (h : HistoryE e fs0 l fs) (hst : Start fs0 e) : Start fs e := by
  induction h with
  | nil fs => exact hst
  | save fs0 s m rest fs2 hobs hne _ ih => exact ih (hobs.next_start hst hne)
  | env fs0 x rest fs2 _ ih => exact ih (x.start fs0 e hst)

theorem HistoryE.split {e : Nat} : ∀ (p q : List Step) (fs0 fs : FS), HistoryE e fs0 (p ++ q) fs →
    ∃ mid, HistoryE e fs0 p mid ∧ HistoryE e mid q fs
  | [], q, fs0, fs, h => ⟨fs0, HistoryE.nil fs0, h⟩
  | .save s :: p, q, fs0, fs, h => by
    cases h with
    | save _ _ m _ _ hobs hne hrest =>
      obtain ⟨mid, h1, h2⟩ := HistoryE.split p q m.fs fs hrest
      exact ⟨mid, HistoryE.save fs0 s m p mid hobs hne h1, h2⟩
  | .env x :: p, q, fs0, fs, h => by
    cases h with
    | env _ _ _ _ hrest =>
      obtain ⟨mid, h1, h2⟩ := HistoryE.split p q (x.apply fs0) fs hrest
      exact ⟨mid, HistoryE.env fs0 x p mid h1, h2⟩

/-- the specification machine: what one step does to the view -/
def stepView (v : View) : Step → View
  | .env x => x.view v
  | .save s => if publishes (oks s.t) then ⟨some s.content, some (expectedMode s.cfg v.mode v.umask), v.umask⟩ else v

def viewRun (v : View) (l : List Step) : View := l.foldl stepView v

theorem Observed.view {cfg raises ok content fs0 e t m} (h : Observed cfg raises ok content fs0 e t m)
    (hst : Start fs0 e) (hne : hasAppear t = false) :
    viewOf m.fs = stepView (viewOf fs0) (.save ⟨cfg, raises, ok, content, t⟩) := by
  simp only [stepView]
  cases hp : publishes (oks t) with
  | false =>
    obtain ⟨h1, h2⟩ := h.unpublished_dest hst hne hp
    simp [viewOf, h1, h2, h.umask]
  | true =>
    simp [viewOf, h.published_dest hp, h.published_mode hp hne, h.umask]

theorem HistoryE.view {e : Nat} {fs0 fs : FS} {l : List Step} (h : HistoryE e fs0 l fs) (hst : Start fs0 e) :
    viewOf fs = viewRun (viewOf fs0) l := by
  induction h with
  | nil fs => rfl
  | save fs0 s m rest fs2 hobs hne _ ih =>
    rw [ih (hobs.next_start hst hne), hobs.view hst hne]
    rfl
  | env fs0 x rest fs2 _ ih =>
    rw [ih (x.start fs0 e hst), x.view_apply fs0 hst.wf]
    rfl

end C05
