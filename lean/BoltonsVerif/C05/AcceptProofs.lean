import BoltonsVerif.C05.Accept
import BoltonsVerif.C05.Proofs
/-
C05 — helper lemmas for the acceptance tie: the invariant `RJ` (the invariant `J` of Proofs.lean for
the machine that replays an observed trace + what the acceptance automaton's flags mean) is kept by
every accepted, executable observation.
-/
namespace C05
open C04

structure RJ (cfg : Cfg) (raises : Bool) (fs0 : FS) (m : M) (a : A) : Prop where
  j : J fs0 m a.s (allWrites m.tr)
  envd : m.envDone = true → a.env = true
  cf : m.cleanupFaulted = a.ufail
  nounlink : cfg.overwritePart = false → a.s.phase = .init → Ev.unlinkPart ∉ m.tr
  norename : cfg.overwrite = false → Ev.renamePartDest ∉ m.tr
  failed : a.failed = true → a.s.published = false
  raised : raises = true → a.s.published = false
  linked : Ev.linkPartDest ∈ m.tr → fs0.dir.dest = none
  stale : cfg.overwritePart = false → fs0.dir.part ≠ none → a.s.phase = .init

theorem RJ_start (cfg : Cfg) (raises : Bool) (fs0 : FS) (e : Nat) : RJ cfg raises fs0 (M.start fs0 e) A.init :=
  ⟨J_start fs0 e, by simp [M.start], rfl, by simp [M.start], by simp [M.start], fun _ => by decide, fun _ => by decide,
    by simp [M.start], fun _ _ => rfl⟩

theorem exe_envDone (m : M) (ev : Ev) : (exe m ev).2.envDone = m.envDone := by
  unfold exe; split <;> rfl

theorem allWrites_snoc (t : List Ev) (ev : Ev) : allWrites (t ++ [ev]) = allWrites t ++ evWrites ev := by
  rw [allWrites_append, allWrites_cons]; simp [allWrites]

theorem publishes_single (ev : Ev) : publishes [ev] = isPub ev := by
  cases ev <;> simp [publishes, isPub]

theorem init_closed (ino0 : List Inode) (s : St) (fs : FS) (W : Bytes) (hi : GInv PT ino0 s fs W)
    (h0 : s.phase = .init) : s.isOpen = false := by
  obtain ⟨ph, op, db, us⟩ := s
  simp at h0; subst h0; simp only [GInv] at hi; exact hi.2.2.2.2

theorem init_stays (s s' : St) (ev : Ev) (h0 : s.phase = .init) (hcl : s.isOpen = false) (hs : s.step ev = some s') :
    s'.phase = .init ∨ ∃ sd md, ev = .openPart true sd md := by
  obtain ⟨ph, op, db, us⟩ := s
  simp only at h0 hcl; subst h0; subst hcl
  cases ev with
  | noop => simp [St.step] at hs; subst hs; exact Or.inl rfl
  | openPart excl sd md =>
    simp only [St.step] at hs
    split at hs
    · rename_i hc
      obtain ⟨_, hex, _⟩ := hc
      subst hex
      exact Or.inr ⟨sd, md, rfl⟩
    · simp at hs
  | unlinkPart => simp [St.step] at hs; subst hs; exact Or.inl rfl
  | _ => simp [St.step] at hs

theorem RJ_ok_main (cfg : Cfg) (raises : Bool) (fs0 : FS) (m m' : M) (a : A) (ev : Ev) (s' : St)
    (h : RJ cfg raises fs0 m a) (hal : okAllowed cfg raises a ev = true) (hs : a.s.step ev = some s')
    (hx : exe m ev = (none, m')) (hj : J fs0 m' s' (allWrites m.tr ++ evWrites ev)) (htr : m'.tr = m.tr ++ [ev])
    (hcf : m'.cleanupFaulted = m.cleanupFaulted) : RJ cfg raises fs0 m' { a with s := s' } := by
  have hed : m'.envDone = m.envDone := by have := exe_envDone m ev; rw [hx] at this; exact this
  have hpub := (published_step a.s s' ev hs).1
  rw [publishes_single] at hpub
  refine ⟨by rw [htr, allWrites_snoc]; exact hj, fun he => h.envd (hed ▸ he), by rw [hcf]; exact h.cf, ?_, ?_, ?_, ?_, ?_, ?_⟩
  · intro hop hph
    simp only at hph
    obtain ⟨h0, hev⟩ := step_to_init a.s s' ev hs hph (init_closed fs0.inodes a.s m.fs _ h.j.inv)
    rw [htr]
    rcases hev with rfl | rfl
    · simpa using h.nounlink hop h0
    · simp [okAllowed, h0, hop] at hal
  · intro how
    rw [htr]
    simp only [List.mem_append, List.mem_singleton, not_or]
    refine ⟨h.norename how, ?_⟩
    intro he; subst he
    simp [okAllowed, how] at hal
  · intro hf
    simp only at hf ⊢
    rw [hpub, h.failed hf, Bool.false_or]
    cases ev <;> simp [isPub] <;> simp [okAllowed, hf] at hal
  · intro hr
    simp only
    rw [hpub, h.raised hr, Bool.false_or]
    cases ev <;> simp [isPub] <;> simp [okAllowed, hr] at hal
  · intro hl
    rw [htr] at hl
    simp only [List.mem_append, List.mem_singleton] at hl
    rcases hl with hl | hl
    · exact h.linked hl
    · subst hl
      have hf : ∃ fs', m.fs.step .linkPartDest = .ok fs' := by
        unfold exe at hx
        split at hx
        · simp at hx
        · rename_i fs' hf; exact ⟨fs', hf⟩
      obtain ⟨fs', hf⟩ := hf
      have hd : m.fs.dir.dest = none := by
        simp only [FS.step, FS.linkPartDest] at hf
        split at hf
        · simp at hf
        · split at hf
          · simp at hf
          · assumption
      have hsp : a.s.published = false := by
        have : a.s.phase = .part := by
          have hs' := hs
          simp only [St.step] at hs'
          split at hs'
          · rename_i hc; exact hc.1
          · simp at hs'
        simp [St.published, this]
      have := h.j.dest hsp
      rw [hd] at this
      cases hh : m.envDone <;> simp [hh] at this
      exact this.symm
  · intro hop hp0
    simp only
    have h0 := h.stale hop hp0
    have hcl := init_closed fs0.inodes a.s m.fs _ h.j.inv h0
    have hpart : m.fs.dir.part = fs0.dir.part := (h.j.pinit h0).1 (h.nounlink hop h0)
    rcases init_stays a.s s' ev h0 hcl hs with h1 | ⟨sd, md, rfl⟩
    · exact h1
    · exfalso
      cases hpp : fs0.dir.part with
      | none => exact hp0 hpp
      | some i =>
        rw [hpp] at hpart
        simp [exe, FS.step, FS.openPart, hpart] at hx

/-- a successful, allowed event -/
theorem RJ_ok (cfg : Cfg) (raises : Bool) (fs0 : FS) (m m' : M) (a : A) (ev : Ev) (s' : St)
    (h : RJ cfg raises fs0 m a) (hal : okAllowed cfg raises a ev = true) (hs : a.s.step ev = some s')
    (hx : exe m ev = (none, m')) : RJ cfg raises fs0 m' { a with s := s' } := by
  have hcp := J_exe fs0 m a.s s' (allWrites m.tr) ev h.j hs
  rw [hx] at hcp
  obtain ⟨hd, _, hcf, _⟩ := hcp
  rcases hd with ⟨_, hj, _, htr⟩ | ⟨hne, _⟩
  · exact RJ_ok_main cfg raises fs0 m m' a ev s' h hal hs hx hj htr hcf
  · exact absurd rfl hne

theorem RJ_step (cfg : Cfg) (raises : Bool) (fs0 : FS) (m m' : M) (a a' : A) (o : Obs)
    (h : RJ cfg raises fs0 m a) (ha : a.step cfg raises o = some a') (hm : replayStep m o = some m') :
    RJ cfg raises fs0 m' a' := by
  cases o with
  | ok ev =>
    simp only [A.step] at ha
    split at ha
    · rename_i hal
      cases hs : a.s.step ev with
      | none => simp [hs] at ha
      | some s' =>
        simp [hs] at ha; subst ha
        simp only [replayStep] at hm
        split at hm
        · rename_i m1 hx
          simp at hm; subst hm
          exact RJ_ok cfg raises fs0 m m1 a ev s' h hal hs hx
        · simp at hm
    · simp at ha
  | fail l i u =>
    simp [A.step] at ha; subst ha
    simp [replayStep] at hm; subst hm
    refine ⟨J_congr fs0 m _ a.s _ h.j rfl rfl rfl rfl, h.envd, by simp [h.cf], h.nounlink, h.norename, ?_, h.raised, h.linked, h.stale⟩
    intro hf
    simp only at hf ⊢
    cases hfa : a.failed with
    | true => exact h.failed hfa
    | false => cases hp : a.s.published <;> simp [hfa, hp] at hf ⊢
  | failClosed l =>
    simp only [A.step] at ha
    cases hs : a.s.step .close with
    | none => simp [hs] at ha
    | some s' =>
      simp [hs] at ha; subst ha
      simp only [replayStep] at hm
      split at hm
      · rename_i m1 hx
        simp at hm; subst hm
        have h1 := RJ_ok cfg raises fs0 m m1 a .close s' h (by simp [okAllowed]) hs hx
        have hpub := (published_step a.s s' .close hs).1
        simp [publishes] at hpub
        refine ⟨J_congr fs0 m1 _ s' _ h1.j rfl rfl rfl rfl, h1.envd, h1.cf, h1.nounlink, h1.norename, ?_, h1.raised, h1.linked, h1.stale⟩
        intro hf
        simp only at hf ⊢
        rw [hpub]
        cases hfa : a.failed with
        | true => exact h.failed hfa
        | false => cases hp : a.s.published <;> simp [hfa, hp] at hf ⊢
      · simp at hm
  | appear =>
    simp [A.step] at ha; subst ha
    simp [replayStep] at hm; subst hm
    obtain ⟨_, e2, _, e4, _⟩ := env_fields m .appear
    exact ⟨by rw [e2]; exact J_env fs0 m a.s _ _ h.j, fun _ => rfl, by rw [e4]; exact h.cf,
      by rw [e2]; exact h.nounlink, by rw [e2]; exact h.norename, h.failed, h.raised, by rw [e2]; exact h.linked, h.stale⟩

theorem RJ_run (cfg : Cfg) (raises : Bool) (fs0 : FS) : ∀ (t : List Obs) (m m' : M) (a a' : A),
    RJ cfg raises fs0 m a → a.run cfg raises t = some a' → replay m t = some m' → RJ cfg raises fs0 m' a'
  | [], m, m', a, a', h, ha, hm => by
    simp [A.run] at ha; simp [replay] at hm; subst ha; subst hm; exact h
  | o :: t, m, m', a, a', h, ha, hm => by
    simp only [A.run] at ha
    simp only [replay] at hm
    cases h1 : a.step cfg raises o with
    | none => simp [h1] at ha
    | some a1 =>
      cases h2 : replayStep m o with
      | none => simp [h2] at hm
      | some m1 =>
        simp only [h1] at ha
        simp only [h2] at hm
        exact RJ_run cfg raises fs0 t m1 m' a1 a' (RJ_step cfg raises fs0 m m1 a a1 o h h1 h2) ha hm

/-! ### what the recorded events of a replay are -/

theorem replayStep_tr (m m' : M) (o : Obs) (hm : replayStep m o = some m') : m'.tr = m.tr ++ oks [o] := by
  cases o with
  | ok ev =>
    simp only [replayStep] at hm
    split at hm
    · rename_i m1 hx
      simp at hm; subst hm
      unfold exe at hx
      split at hx
      · simp at hx
      · simp at hx; subst hx; simp [oks]
    · simp at hm
  | fail l i u => simp [replayStep] at hm; subst hm; simp [oks]
  | failClosed l =>
    simp only [replayStep] at hm
    split at hm
    · rename_i m1 hx
      simp at hm; subst hm
      unfold exe at hx
      split at hx
      · simp at hx
      · simp at hx; subst hx; simp [oks]
    · simp at hm
  | appear =>
    simp [replayStep] at hm; subst hm
    simp [oks, (env_fields m .appear).2.1]

theorem oks_cons (o : Obs) (t : List Obs) : oks (o :: t) = oks [o] ++ oks t := by
  cases o <;> simp [oks]

theorem replay_tr : ∀ (t : List Obs) (m m' : M), replay m t = some m' → m'.tr = m.tr ++ oks t
  | [], m, m', hm => by simp [replay] at hm; subst hm; simp [oks]
  | o :: t, m, m', hm => by
    simp only [replay] at hm
    cases h2 : replayStep m o with
    | none => simp [h2] at hm
    | some m1 =>
      simp only [h2] at hm
      rw [replay_tr t m1 m' hm, replayStep_tr m m1 o h2, oks_cons o t, List.append_assoc]

/-- the automaton's view of the successful events is C04's `St.run` -/
theorem A_run_st (cfg : Cfg) (raises : Bool) : ∀ (t : List Obs) (a a' : A),
    a.run cfg raises t = some a' → a.s.run (oks t) = some a'.s
  | [], a, a', ha => by simp [A.run] at ha; subst ha; simp [oks, St.run]
  | o :: t, a, a', ha => by
    simp only [A.run] at ha
    cases h1 : a.step cfg raises o with
    | none => simp [h1] at ha
    | some a1 =>
      simp only [h1] at ha
      have ih := A_run_st cfg raises t a1 a' ha
      cases o with
      | ok ev =>
        simp only [A.step] at h1
        split at h1
        · cases hs : a.s.step ev with
          | none => simp [hs] at h1
          | some s' => simp [hs] at h1; subst h1; simpa [oks, St.run, hs] using ih
        · simp at h1
      | fail l i u => simp [A.step] at h1; subst h1; simpa [oks] using ih
      | failClosed l =>
        simp only [A.step] at h1
        cases hs : a.s.step .close with
        | none => simp [hs] at h1
        | some s' => simp [hs] at h1; subst h1; simpa [oks, St.run, hs] using ih
      | appear => simp [A.step] at h1; subst h1; simpa [oks] using ih

/-- the flags of the automaton are what their names say -/
theorem A_run_flags (cfg : Cfg) (raises : Bool) : ∀ (t : List Obs) (a a' : A),
    a.run cfg raises t = some a' →
    a'.ufail = (a.ufail || unlinkFaulted t) ∧ a'.env = (a.env || hasAppear t) ∧
    (a.s.published = false → failedBefore t = true → a'.failed = true)
  | [], a, a', ha => by simp [A.run] at ha; subst ha; simp [unlinkFaulted, hasAppear, failedBefore]
  | o :: t, a, a', ha => by
    simp only [A.run] at ha
    cases h1 : a.step cfg raises o with
    | none => simp [h1] at ha
    | some a1 =>
      simp only [h1] at ha
      obtain ⟨i1, i2, i3⟩ := A_run_flags cfg raises t a1 a' ha
      -- a raised `failed` flag stays raised
      have keep : ∀ (t : List Obs) (b b' : A), b.run cfg raises t = some b' → b.failed = true → b'.failed = true := by
        intro t
        induction t with
        | nil => intro b b' hb hf; simp [A.run] at hb; subst hb; exact hf
        | cons o t ih =>
          intro b b' hb hf
          simp only [A.run] at hb
          cases hb1 : b.step cfg raises o with
          | none => simp [hb1] at hb
          | some b1 =>
            simp only [hb1] at hb
            refine ih b1 b' hb ?_
            cases o with
            | ok ev =>
              simp only [A.step] at hb1
              split at hb1
              · cases hs : b.s.step ev with
                | none => simp [hs] at hb1
                | some s' => simp [hs] at hb1; subst hb1; exact hf
              · simp at hb1
            | fail l i u => simp [A.step] at hb1; subst hb1; simp [hf]
            | failClosed l =>
              simp only [A.step] at hb1
              cases hs : b.s.step .close with
              | none => simp [hs] at hb1
              | some s' => simp [hs] at hb1; subst hb1; simp [hf]
            | appear => simp [A.step] at hb1; subst hb1; exact hf
      cases o with
      | ok ev =>
        simp only [A.step] at h1
        split at h1
        · cases hs : a.s.step ev with
          | none => simp [hs] at h1
          | some s' =>
            simp [hs] at h1; subst h1
            refine ⟨by simpa [unlinkFaulted] using i1, by simpa [hasAppear] using i2, ?_⟩
            intro hp hfb
            simp only [failedBefore] at hfb
            split at hfb
            · simp at hfb
            · rename_i hnp
              have hpub := (published_step a.s s' ev hs).1
              rw [publishes_single] at hpub
              refine i3 ?_ hfb
              simp only [hpub, hp, Bool.false_or]
              simpa using hnp
        · simp at h1
      | fail l i u =>
        simp [A.step] at h1; subst h1
        refine ⟨by simp [unlinkFaulted, i1, Bool.or_assoc], by simpa [hasAppear] using i2, ?_⟩
        intro hp hfb
        simp only [failedBefore, Bool.or_eq_true] at hfb
        rcases hfb with hl | hfb
        · exact keep t _ a' ha (by simp [hl, hp])
        · exact i3 hp hfb
      | failClosed l =>
        simp only [A.step] at h1
        cases hs : a.s.step .close with
        | none => simp [hs] at h1
        | some s' =>
          simp [hs] at h1; subst h1
          have hpub := (published_step a.s s' .close hs).1
          simp [publishes] at hpub
          refine ⟨by simpa [unlinkFaulted] using i1, by simpa [hasAppear] using i2, ?_⟩
          intro hp hfb
          simp only [failedBefore, Bool.or_eq_true] at hfb
          rcases hfb with hl | hfb
          · exact keep t _ a' ha (by simp [hl, hp])
          · exact i3 (by simp only [hpub]; exact hp) hfb
      | appear =>
        simp [A.step] at h1; subst h1
        refine ⟨by simpa [unlinkFaulted] using i1, by simp [hasAppear] at i2 ⊢; exact i2, ?_⟩
        intro hp hfb
        exact i3 hp (by simpa [failedBefore] using hfb)

/-! ### without interference the replayed file system is C04's `exec` of the successful events -/

theorem replayStep_X (fs0 : FS) (m m' : M) (o : Obs) (hno : hasAppear [o] = false) (h : X fs0 m)
    (hm : replayStep m o = some m') : X fs0 m' := by
  cases o with
  | ok ev =>
    simp only [replayStep] at hm
    split at hm
    · rename_i m1 hx
      simp at hm; subst hm
      have := exe_X fs0 m ev h
      rw [hx] at this; exact this
    · simp at hm
  | fail l i u => simp [replayStep] at hm; subst hm; exact h
  | failClosed l =>
    simp only [replayStep] at hm
    split at hm
    · rename_i m1 hx
      simp at hm; subst hm
      have := exe_X fs0 m .close h
      rw [hx] at this; exact this
    · simp at hm
  | appear => simp [hasAppear] at hno

theorem hasAppear_cons (o : Obs) (t : List Obs) : hasAppear (o :: t) = (hasAppear [o] || hasAppear t) := by
  cases o <;> simp [hasAppear]

theorem replay_X (fs0 : FS) : ∀ (t : List Obs) (m m' : M), hasAppear t = false → X fs0 m → replay m t = some m' → X fs0 m'
  | [], m, m', _, h, hm => by simp [replay] at hm; subst hm; exact h
  | o :: t, m, m', hno, h, hm => by
    simp only [replay] at hm
    rw [hasAppear_cons] at hno
    simp only [Bool.or_eq_false_iff] at hno
    cases h2 : replayStep m o with
    | none => simp [h2] at hm
    | some m1 =>
      simp only [h2] at hm
      exact replay_X fs0 t m1 m' hno.2 (replayStep_X fs0 m m1 o hno.1 h h2) hm

theorem publishes_mem (l : List Ev) (h : publishes l = true) : Ev.renamePartDest ∈ l ∨ Ev.linkPartDest ∈ l := by
  induction l with
  | nil => simp [publishes] at h
  | cons e t ih =>
    rw [publishes_cons] at h
    simp only [Bool.or_eq_true] at h
    rcases h with h | h
    · cases e <;> simp [publishes] at h <;> simp
    · rcases ih h with h | h
      · exact Or.inl (List.mem_cons_of_mem _ h)
      · exact Or.inr (List.mem_cons_of_mem _ h)

/-! ### reading the end conditions and the file-system invariant -/

theorem accEnd_spec (cfg : Cfg) (raises ok : Bool) (content : Bytes) (um : Nat) (dm0 : Option Nat) (t : List Obs) (a : A)
    (h : accEnd cfg raises ok content um dm0 t a = true) :
    (ok = true → a.s.phase = .done ∧ a.failed = false ∧ raises = false) ∧
    (ok = false → cfg.rmPartOnExc = true → a.ufail = false →
      a.s.phase = .init ∨ a.s.phase = .aborted ∨ a.s.phase = .done) ∧
    (a.s.published = true → allWrites (oks t) = content) ∧
    (a.s.published = true → a.env = false →
      (oks t).foldl (modeAfter um) none = some (expectedMode cfg dm0 um)) := by
  unfold accEnd at h
  simp only [Bool.and_eq_true, Bool.or_eq_true, Bool.not_eq_true', beq_iff_eq] at h
  obtain ⟨⟨⟨h1, h2⟩, h3⟩, h4⟩ := h
  refine ⟨?_, ?_, ?_, ?_⟩
  · intro hok
    rcases h1 with h1 | h1
    · rw [hok] at h1; cases h1
    · exact ⟨h1.1.1, h1.1.2, h1.2⟩
  · intro hok hrm huf
    rcases h2 with ((((h2 | h2) | h2) | h2) | h2) | h2
    · rw [hok] at h2; cases h2
    · rw [hrm] at h2; cases h2
    · rw [huf] at h2; cases h2
    · exact Or.inl h2
    · exact Or.inr (Or.inl h2)
    · exact Or.inr (Or.inr h2)
  · intro hp
    rcases h3 with h3 | h3
    · rw [hp] at h3; cases h3
    · exact h3
  · intro hp he
    rcases h4 with (h4 | h4) | h4
    · rw [hp] at h4; cases h4
    · rw [he] at h4; cases h4
    · exact h4

theorem ginv_init_inodes (ino0 : List Inode) (s : St) (fs : FS) (W : Bytes) (hi : GInv PT ino0 s fs W)
    (h0 : s.phase = .init) : fs.inodes = ino0 := by
  obtain ⟨ph, op, db, us⟩ := s
  simp only at h0; subst h0
  simp only [GInv] at hi; exact hi.1

theorem ginv_pub (ino0 : List Inode) (s : St) (fs : FS) (W : Bytes) (hi : GInv PT ino0 s fs W)
    (hp : s.published = true) :
    fs.dir.dest = some ino0.length ∧ ∃ x, fs.inodes = ino0 ++ [x] ∧ x.durable = W ∧ x.tail = [] := by
  obtain ⟨ph, op, db, us⟩ := s
  cases ph <;> simp [St.published] at hp <;> simp only [GInv] at hi
  · obtain ⟨d1, _, _, x, d4, d5, d6, _⟩ := hi
    exact ⟨d1, x, d4, d5, d6⟩
  · obtain ⟨d1, _, _, x, d4, d5, d6, _⟩ := hi
    exact ⟨d1, x, d4, d5, d6⟩

end C05
