import BoltonsVerif.C05.Model
import BoltonsVerif.C04.Proofs
/-
C05 — helper lemmas.  The invariant `J` ties the machine state of the transliterated saver to
(1) the state `s` of C04's acceptance automaton after the events recorded so far, (2) C04's
file-system invariant `GInv` (so the new bytes only ever live in one fresh inode), (3) the exact
destination entry before publication, (4) the part file's name before its creation and (5) the
permission bits of the fresh inode.  `J_call` shows that one instrumented call - whatever the plan
does to it - preserves `J`; the `*_spec` lemmas walk through `setup`, the body and `__exit__`.
-/
namespace C05
open C04

def umaskOf (um mode : Nat) : Nat := mode &&& (0o7777 ^^^ (um &&& 0o7777))

/-- the permission bits of the part file's inode as determined by the events so far -/
def modeAfter (um : Nat) (cur : Option Nat) : Ev → Option Nat
  | .openPart _ _ md => some (umaskOf um md)
  | .chmodPart md => some md
  | _ => cur

theorem append_singleton_inj {α} (l : List α) (x y : α) (h : l ++ [x] = l ++ [y]) : x = y := by
  simpa using h

theorem ginv_shape (P : Option Nat → Prop) (ino0 : List Inode) (s : St) (fs : FS) (W : Bytes)
    (hi : GInv P ino0 s fs W) (hph : s.phase ≠ .init) :
    ∃ x, fs.inodes = ino0 ++ [x] ∧ (s.isOpen = true → ∃ buf, fs.openf = some ⟨ino0.length, buf⟩) ∧
      (s.phase = .part → fs.dir.part = some ino0.length) := by
  obtain ⟨ph, op, db, us⟩ := s
  cases ph <;> simp at hph <;> simp only [GInv] at hi
  · obtain ⟨_, _, h3, x, h4, _, h6⟩ := hi
    refine ⟨x, h4, ?_, fun _ => h3⟩
    intro ho; simp at ho; subst ho
    simp only [if_true] at h6
    obtain ⟨buf, h7, _⟩ := h6
    exact ⟨buf, h7⟩
  · obtain ⟨_, _, _, x, h4, _, _, h7, _⟩ := hi
    exact ⟨x, h4, fun ho => ⟨[], h7 ho⟩, by simp⟩
  · obtain ⟨_, _, _, x, h4, _, _, h7, _⟩ := hi
    exact ⟨x, h4, fun ho => ⟨[], h7 ho⟩, by simp⟩
  · obtain ⟨_, _, _, x, h4, h6⟩ := hi
    exact ⟨x, h4, h6, by simp⟩

theorem mode_step (P : Option Nat → Prop) (ino0 : List Inode) (s s' : St) (fs fs' : FS) (W : Bytes) (e : Ev)
    (cur : Option Nat)
    (hi : GInv P ino0 s fs W) (hs : s.step e = some s') (hf : fs.step e = .ok fs')
    (hc : s.phase ≠ .init → ∀ x, fs.inodes = ino0 ++ [x] → some x.mode = cur) :
    ∀ x', fs'.inodes = ino0 ++ [x'] → some x'.mode = modeAfter fs.umask cur e := by
  obtain ⟨ph, op, db, us⟩ := s
  intro x' hx'
  cases e with
  | noop =>
    simp [FS.step] at hf; subst hf
    cases ph <;> simp only [GInv] at hi
    · obtain ⟨h1, _⟩ := hi; rw [h1] at hx'; simp at hx'
    all_goals exact hc (by simp) x' hx'
  | openPart a b c =>
    cases ph <;> simp [St.step] at hs
    simp only [GInv] at hi
    obtain ⟨h1, _⟩ := hi
    simp only [FS.step, FS.openPart] at hf
    split at hf
    · split at hf <;> simp at hf
      subst hf; rw [h1] at hx'; simp at hx'
    · simp at hf; subst hf
      simp [h1] at hx'
      subst hx'; simp [modeAfter, umaskOf]
  | chmodPart c =>
    cases ph <;> simp [St.step] at hs
    obtain ⟨x, h4, _, h3⟩ := ginv_shape P ino0 _ fs W hi (by simp)
    simp only [FS.step, FS.chmodPart, h3 rfl] at hf
    simp at hf; subst hf
    simp [h4, modInode_append_last] at hx'
    subst hx'; simp [modeAfter]
  | write d k =>
    have ho : op = true := by simp [St.step] at hs; exact hs.1.1
    have hph : ph ≠ .init := by intro h; subst h; simp [GInv, ho] at hi
    obtain ⟨x, h4, h5, _⟩ := ginv_shape P ino0 _ fs W hi hph
    obtain ⟨buf, h7⟩ := h5 ho
    simp only [FS.step, FS.write, h7] at hf
    simp at hf; subst hf
    simp [h4, modInode_append_last] at hx'
    subst hx'; simpa [modeAfter] using hc hph x h4
  | flush =>
    have ho : op = true := by simp [St.step] at hs; exact hs.1
    have hph : ph ≠ .init := by intro h; subst h; simp [GInv, ho] at hi
    obtain ⟨x, h4, h5, _⟩ := ginv_shape P ino0 _ fs W hi hph
    obtain ⟨buf, h7⟩ := h5 ho
    simp only [FS.step, FS.flush, h7] at hf
    simp at hf; subst hf
    simp [h4, modInode_append_last] at hx'
    subst hx'; simpa [modeAfter] using hc hph x h4
  | fsync =>
    have ho : op = true := by simp [St.step] at hs; exact hs.1
    have hph : ph ≠ .init := by intro h; subst h; simp [GInv, ho] at hi
    obtain ⟨x, h4, h5, _⟩ := ginv_shape P ino0 _ fs W hi hph
    obtain ⟨buf, h7⟩ := h5 ho
    simp only [FS.step, FS.fsync, h7] at hf
    simp at hf; subst hf
    simp [h4, modInode_append_last] at hx'
    subst hx'; simpa [modeAfter] using hc hph x h4
  | close =>
    have ho : op = true := by simp [St.step] at hs; exact hs.1
    have hph : ph ≠ .init := by intro h; subst h; simp [GInv, ho] at hi
    obtain ⟨x, h4, h5, _⟩ := ginv_shape P ino0 _ fs W hi hph
    obtain ⟨buf, h7⟩ := h5 ho
    simp only [FS.step, FS.close, h7] at hf
    simp at hf; subst hf
    simp [h4, modInode_append_last] at hx'
    subst hx'; simpa [modeAfter] using hc hph x h4
  | closeFd =>
    have ho : op = true := by simp [St.step] at hs; exact hs.1.1
    have hph : ph ≠ .init := by intro h; subst h; simp [GInv, ho] at hi
    simp only [FS.step, FS.closeFd] at hf
    split at hf <;> simp at hf
    subst hf
    simpa [modeAfter] using hc hph x' hx'
  | renamePartDest =>
    simp [St.step] at hs
    obtain ⟨⟨rfl, _⟩, _⟩ := hs
    simp only [FS.step, FS.renamePartDest] at hf
    split at hf <;> simp at hf
    subst hf
    simpa [modeAfter, FS.setDir] using hc (by simp) x' hx'
  | linkPartDest =>
    simp [St.step] at hs
    obtain ⟨⟨rfl, _⟩, _⟩ := hs
    simp only [FS.step, FS.linkPartDest] at hf
    split at hf
    · simp at hf
    · split at hf <;> simp at hf
      subst hf
      simpa [modeAfter, FS.setDir] using hc (by simp) x' hx'
  | unlinkPart =>
    simp only [FS.step, FS.unlinkPart] at hf
    split at hf <;> simp at hf
    subst hf
    cases ph <;> simp [St.step] at hs
    · simp only [GInv] at hi
      obtain ⟨h1, _⟩ := hi
      simp [FS.setDir, h1] at hx'
    all_goals simpa [modeAfter, FS.setDir] using hc (by simp) x' hx'
  | truncDest => simp [St.step] at hs
  | writeDest d => simp [St.step] at hs
  | unlinkDest => simp [St.step] at hs
  | unknown => simp [St.step] at hs

/-- what is known about the destination's entry before publication: the entry from the start, or -
    when there was none - the environment's file -/
def PD (d0 : Option Nat) (e : Nat) (d : Option Nat) : Prop := d = d0 ∨ (d0 = none ∧ d = some e)

/-- the standing assumptions about the state at the start: well-formed, nothing open, directory
    durable, and the environment's inode allocated but not linked -/
structure Start (fs0 : FS) (e : Nat) : Prop where
  wf : fs0.WF
  hist : fs0.hist = []
  elt : e < fs0.inodes.length
  eino : fs0.inodes[e]? = some envInode
  edest : fs0.dir.dest ≠ some e
  epart : fs0.dir.part ≠ some e

structure J (fs0 : FS) (m : M) (s : St) (W : Bytes) : Prop where
  run : St.init.run m.tr = some s
  inv : GInv (PD fs0.dir.dest m.envIno) fs0.inodes s m.fs W
  dest : s.published = false → m.fs.dir.dest = (if m.envDone then some m.envIno else fs0.dir.dest)
  envd : m.envDone = true → fs0.dir.dest = none
  pinit : s.phase = .init → (Ev.unlinkPart ∉ m.tr → m.fs.dir.part = fs0.dir.part) ∧
                            (Ev.unlinkPart ∈ m.tr → m.fs.dir.part = none)
  mode : s.phase ≠ .init → ∀ x, m.fs.inodes = fs0.inodes ++ [x] → some x.mode = m.tr.foldl (modeAfter fs0.umask) none
  um : m.fs.umask = fs0.umask
  lenv : Ev.linkPartDest ∈ m.tr → m.envDone = false

theorem publishes_of_mem_link (t : List Ev) (h : Ev.linkPartDest ∈ t) : publishes t = true := by
  induction t with
  | nil => simp at h
  | cons e t ih =>
    rw [publishes_cons]
    rcases List.mem_cons.1 h with rfl | h
    · simp [publishes]
    · simp [ih h]

theorem J_start (fs0 : FS) (e : Nat) (h : Start fs0 e) : J fs0 (M.start fs0 e) St.init [] := by
  refine ⟨by simp [M.start, St.run], ?_, by simp [M.start], by simp [M.start], by simp [M.start],
    by simp [St.init], by simp [M.start], by simp [M.start]⟩
  simp [GInv, St.init, M.start, h.hist, PD]

theorem J_env (fs0 : FS) (m : M) (s : St) (W : Bytes) (a : Act) (h : J fs0 m s W) : J fs0 (m.env a) s W := by
  unfold M.env
  split
  · rename_i hc
    obtain ⟨_, hd⟩ := hc
    obtain ⟨ph, op, db, us⟩ := s
    have hunp : St.published ⟨ph, op, db, us⟩ = false := by
      cases ph <;> simp [St.published] <;> have := h.inv <;> simp [GInv, hd] at this
    have h0 := h.dest hunp
    rw [hd] at h0
    have hed : m.envDone = false := by cases hh : m.envDone <;> simp [hh] at h0 ⊢
    have hd0 : fs0.dir.dest = none := by simp [hed] at h0; exact h0.symm
    refine ⟨h.run, ?_, by simp [FS.setDir], fun _ => hd0, by simpa [FS.setDir] using h.pinit,
      by simpa [FS.setDir] using h.mode, by simpa [FS.setDir] using h.um, ?_⟩
    · have hi := h.inv
      cases ph <;> simp [St.published] at hunp <;> simp only [GInv] at hi ⊢ <;> simp [FS.setDir, PD, hd0]
      · obtain ⟨h1, h2, h3, h4, h5⟩ := hi
        refine ⟨h1, ⟨by simp [hd], ?_⟩, h4, h5⟩
        intro d hdm; have := h3 d hdm; simpa [PD, hd0] using this
      · obtain ⟨h2, h3, h4, h5⟩ := hi
        refine ⟨⟨by simp [hd], ?_⟩, h4, h5⟩
        intro d hdm; have := h3 d hdm; simpa [PD, hd0] using this
      · obtain ⟨h2, h3, hp0, x, h5, h6⟩ := hi
        refine ⟨⟨by simp [hd], ?_⟩, hp0, ⟨x, h5⟩, h6⟩
        intro d hdm; have := h3 d hdm; simpa [PD, hd0] using this
    · intro hl
      exfalso
      have hp : St.published ⟨ph, op, db, us⟩ = true := by
        have := (published_run m.tr St.init _ h.run).1
        rw [this, publishes_of_mem_link _ hl]; simp
      rw [hunp] at hp; simp at hp
  · exact h

theorem step_dest (s s' : St) (fs fs' : FS) (ev : Ev) (hs : s.step ev = some s')
    (hp : s'.published = false) (hf : fs.step ev = .ok fs') : fs'.dir.dest = fs.dir.dest ∧ fs'.umask = fs.umask := by
  obtain ⟨ph, op, db, us⟩ := s
  cases ev with
  | noop => simp [FS.step] at hf; subst hf; exact ⟨rfl, rfl⟩
  | openPart a b c =>
    simp only [FS.step, FS.openPart] at hf
    split at hf
    · split at hf <;> simp at hf; subst hf; exact ⟨rfl, rfl⟩
    · simp at hf; subst hf; simp [FS.setDir]
  | chmodPart c =>
    simp only [FS.step, FS.chmodPart] at hf
    split at hf <;> simp at hf; subst hf; exact ⟨rfl, rfl⟩
  | write d k =>
    simp only [FS.step, FS.write] at hf
    split at hf <;> simp at hf; subst hf; exact ⟨rfl, rfl⟩
  | flush =>
    simp only [FS.step, FS.flush] at hf
    split at hf <;> simp at hf; subst hf; exact ⟨rfl, rfl⟩
  | fsync =>
    simp only [FS.step, FS.fsync] at hf
    split at hf <;> simp at hf; subst hf; exact ⟨rfl, rfl⟩
  | close =>
    simp only [FS.step, FS.close] at hf
    split at hf <;> simp at hf; subst hf; exact ⟨rfl, rfl⟩
  | closeFd =>
    simp only [FS.step, FS.closeFd] at hf
    split at hf <;> simp at hf; subst hf; exact ⟨rfl, rfl⟩
  | renamePartDest =>
    simp [St.step] at hs; obtain ⟨_, rfl⟩ := hs; simp [St.published] at hp
  | linkPartDest =>
    simp [St.step] at hs; obtain ⟨_, rfl⟩ := hs; simp [St.published] at hp
  | unlinkPart =>
    simp only [FS.step, FS.unlinkPart] at hf
    split at hf <;> simp at hf; subst hf; simp [FS.setDir]
  | truncDest => simp [St.step] at hs
  | writeDest d => simp [St.step] at hs
  | unlinkDest => simp [St.step] at hs
  | unknown => simp [St.step] at hs

theorem run_snoc (s s' s'' : St) (t : List Ev) (e : Ev) (h1 : s.run t = some s') (h2 : s'.step e = some s'') :
    s.run (t ++ [e]) = some s'' := by
  rw [run_append, h1]; simp [St.run, h2]

theorem env_fields (m : M) (a : Act) :
    (m.env a).n = m.n ∧ (m.env a).tr = m.tr ∧ (m.env a).errs = m.errs ∧
    (m.env a).cleanupFaulted = m.cleanupFaulted ∧ (m.env a).envIno = m.envIno := by
  unfold M.env; split <;> simp

theorem step_to_init (s s' : St) (e : Ev) (hs : s.step e = some s') (h : s'.phase = .init)
    (ho : s.phase = .init → s.isOpen = false) :
    s.phase = .init ∧ (e = .noop ∨ e = .unlinkPart) := by
  obtain ⟨ph, op, db, us⟩ := s
  cases e <;> cases ph <;> simp [St.step] at hs
  all_goals (try (obtain ⟨_, rfl⟩ := hs))
  all_goals (try subst hs)
  all_goals simp at h ⊢
  all_goals simp_all

theorem step_umask (fs fs' : FS) (e : Ev) (hf : fs.step e = .ok fs') : fs'.umask = fs.umask := by
  cases e <;> simp only [FS.step, FS.openPart, FS.chmodPart, FS.write, FS.flush, FS.fsync, FS.close, FS.closeFd,
    FS.renamePartDest, FS.linkPartDest, FS.unlinkPart, FS.truncDest, FS.writeDest, FS.unlinkDest] at hf
  all_goals (repeat' (split at hf))
  all_goals (simp at hf)
  all_goals (try subst hf)
  all_goals (try simp [FS.setDir])

/-- result of one call w.r.t. the invariant: on success the automaton and the written bytes
    advance; on failure nothing but counters (and a possible environment move) changes -/
def CallPost (fs0 : FS) (m : M) (s s' : St) (W : Bytes) (ev : Ev) (r : Option Errno × M) : Prop :=
  ((r.1 = none ∧ J fs0 r.2 s' (W ++ evWrites ev) ∧ r.2.errs = m.errs ∧ r.2.tr = m.tr ++ [ev]) ∨
   (r.1 ≠ none ∧ J fs0 r.2 s W ∧ r.2.errs = m.errs + 1 ∧ r.2.tr = m.tr)) ∧
  r.2.n = m.n + 1 ∧ r.2.cleanupFaulted = m.cleanupFaulted ∧ r.2.envIno = m.envIno

theorem J_exe (fs0 : FS) (m : M) (s s' : St) (W : Bytes) (ev : Ev)
    (h : J fs0 m s W) (hs : s.step ev = some s') : CallPost fs0 m s s' W ev (exe m ev) := by
  unfold exe CallPost
  split
  · exact ⟨Or.inr ⟨by simp, ⟨h.run, h.inv, h.dest, h.envd, h.pinit, h.mode, h.um, h.lenv⟩, rfl, rfl⟩, rfl, rfl, rfl⟩
  · rename_i fs' hf
    have hsd : s'.published = false → fs'.dir.dest = m.fs.dir.dest := fun hp => (step_dest s s' _ fs' ev hs hp hf).1
    refine ⟨Or.inl ⟨rfl, ⟨run_snoc _ _ _ _ _ h.run hs, ginv_step _ _ s s' _ fs' W ev h.inv hs hf, ?_, h.envd, ?_, ?_, ?_, ?_⟩, rfl, rfl⟩, rfl, rfl, rfl⟩
    · intro hp
      have hsp : s.published = false := by
        have := (published_step s s' ev hs).1
        rw [hp] at this
        cases hh : s.published <;> simp [hh] at this ⊢
      have := h.dest hsp
      simp only [hsd hp]
      exact this
    · intro hp
      obtain ⟨h0, hev⟩ := step_to_init s s' ev hs hp (fun h0 => by
        have := h.inv; obtain ⟨ph, op, db, us⟩ := s; simp at h0; subst h0; simp only [GInv] at this; exact this.2.2.2.2)
      obtain ⟨p1, p2⟩ := h.pinit h0
      rcases hev with rfl | rfl
      · simp [FS.step] at hf; subst hf
        simpa using And.intro p1 p2
      · simp only [FS.step, FS.unlinkPart] at hf
        split at hf <;> simp at hf
        subst hf; simp [FS.setDir]
    · intro hp x' hx'
      simp only [List.foldl_append, List.foldl_cons, List.foldl_nil]
      have := mode_step _ _ s s' m.fs fs' W ev _ h.inv hs hf h.mode x' hx'
      rw [h.um] at this; exact this
    · rw [step_umask _ _ ev hf]; exact h.um
    · intro hl
      simp only [List.mem_append, List.mem_singleton] at hl
      rcases hl with hl | hl
      · exact h.lenv hl
      · subst hl
        have hd : m.fs.dir.dest = none := by
          simp only [FS.step, FS.linkPartDest] at hf
          split at hf
          · simp at hf
          · split at hf
            · simp at hf
            · assumption
        have hsp : s.published = false := by
          obtain ⟨ph, op, db, us⟩ := s
          simp [St.step] at hs
          obtain ⟨⟨rfl, _⟩, _⟩ := hs
          simp [St.published]
        have := h.dest hsp
        rw [hd] at this
        cases hh : m.envDone <;> simp [hh] at this ⊢

theorem J_call (fs0 : FS) (plan : Plan) (m : M) (s s' : St) (W : Bytes) (ev : Ev)
    (h : J fs0 m s W) (hs : s.step ev = some s') : CallPost fs0 m s s' W ev (call plan m ev) := by
  unfold call
  cases hp : plan m.n with
  | fail e =>
    exact ⟨Or.inr ⟨by simp, ⟨h.run, h.inv, h.dest, h.envd, h.pinit, h.mode, h.um, h.lenv⟩, rfl, rfl⟩, rfl, rfl, rfl⟩
  | pass => exact J_exe fs0 m s s' W ev h hs
  | appear =>
    have := J_exe fs0 (m.env .appear) s s' W ev (J_env fs0 m s W _ h) hs
    obtain ⟨e1, e2, e3, e4, e5⟩ := env_fields m .appear
    simpa [CallPost, e1, e2, e3, e4, e5] using this

theorem ginv_part_some (P : Option Nat → Prop) (ino0 : List Inode) (s : St) (fs : FS) (W : Bytes)
    (hi : GInv P ino0 s fs W) (hph : s.phase = .part ∨ s.phase = .linked) : fs.dir.part = some ino0.length := by
  obtain ⟨ph, op, db, us⟩ := s
  cases ph <;> simp at hph <;> simp only [GInv] at hi
  · exact hi.2.2.1
  · exact hi.2.1

theorem ginv_part_none (P : Option Nat → Prop) (ino0 : List Inode) (s : St) (fs : FS) (W : Bytes)
    (hi : GInv P ino0 s fs W) (hph : s.phase = .aborted ∨ s.phase = .done) : fs.dir.part = none := by
  obtain ⟨ph, op, db, us⟩ := s
  cases ph <;> simp at hph <;> simp only [GInv] at hi
  · exact hi.2.1
  · exact hi.2.2.1

theorem J_congr (fs0 : FS) (m m' : M) (s : St) (W : Bytes) (h : J fs0 m s W)
    (h1 : m'.fs = m.fs) (h2 : m'.tr = m.tr) (h3 : m'.envIno = m.envIno) (h4 : m'.envDone = m.envDone) :
    J fs0 m' s W := by
  obtain ⟨a, b, c, d, e, f, g, i⟩ := h
  exact ⟨by rw [h2]; exact a, by rw [h1, h3]; exact b, by rw [h1, h3, h4]; exact c, by rw [h4]; exact d,
    by rw [h1, h2]; exact e, by rw [h1, h2]; exact f, by rw [h1]; exact g, by rw [h2, h4]; exact i⟩

theorem exe_unlink_ok (fs0 : FS) (m : M) (s : St) (W : Bytes) (h : J fs0 m s W)
    (hph : s.phase = .part ∨ s.phase = .linked) : (exe m .unlinkPart).1 = none := by
  have := ginv_part_some _ _ s m.fs W h.inv hph
  simp [exe, FS.step, FS.unlinkPart, this]

/-- `_rm_part_on_exc` in a state where the part file exists under its name: unless the plan makes
    the unlink fail (or `rm_part_on_exc` is off) the name is free afterwards -/
theorem rmPart_spec (cfg : Cfg) (fs0 : FS) (plan : Plan) (m : M) (s : St) (W : Bytes)
    (h : J fs0 m s W) (hph : s.phase = .part ∨ s.phase = .linked) :
    ∃ s', J fs0 (rmPart cfg plan m) s' W ∧ s'.published = s.published ∧ s'.phase ≠ .init ∧
      (cfg.rmPartOnExc = true → (rmPart cfg plan m).cleanupFaulted = false → (rmPart cfg plan m).fs.dir.part = none) ∧
      m.errs ≤ (rmPart cfg plan m).errs ∧ (rmPart cfg plan m).envIno = m.envIno ∧
      ((rmPart cfg plan m).tr = m.tr ∨ (rmPart cfg plan m).tr = m.tr ++ [Ev.unlinkPart]) := by
  unfold rmPart
  cases hrm : cfg.rmPartOnExc with
  | false =>
    simp only [Bool.false_eq_true, if_false]
    refine ⟨s, h, rfl, ?_, by simp, by simp, by simp, by simp⟩
    rcases hph with hph | hph <;> simp [hph]
  | true =>
    simp only [if_true]
    -- the automaton accepts the unlink
    obtain ⟨s', hs', hpub, hfin⟩ : ∃ s', s.step .unlinkPart = some s' ∧ s'.published = s.published ∧
        (s'.phase = .aborted ∨ s'.phase = .done) := by
      obtain ⟨ph, op, db, us⟩ := s
      rcases hph with hph | hph <;> simp at hph <;> subst hph
      · exact ⟨_, rfl, by simp [St.published]; decide, Or.inl rfl⟩
      · exact ⟨_, rfl, by simp [St.published], Or.inr rfl⟩
    obtain ⟨hc, hn, hcf', hei⟩ := J_call fs0 plan m s s' W .unlinkPart h hs'
    cases hp : plan m.n with
    | fail e =>
      rcases hc with ⟨hr, hj, he, ht⟩ | ⟨hr, hj, he, ht⟩
      · simp [call, hp] at hr
      · refine ⟨s, J_congr _ _ _ _ _ hj rfl rfl rfl rfl, rfl, ?_, by simp, by show m.errs ≤ (call plan m .unlinkPart).2.errs; omega, hei, Or.inl ht⟩
        rcases hph with hph | hph <;> simp [hph]
    | pass =>
      have hok : (call plan m .unlinkPart).1 = none := by
        simp only [call, hp]; exact exe_unlink_ok fs0 m s W h hph
      rcases hc with ⟨hr, hj, he, ht⟩ | ⟨hr, hj, he, ht⟩
      · simp only [evWrites, List.append_nil] at hj
        refine ⟨s', J_congr _ _ _ _ _ hj rfl rfl rfl rfl, hpub, ?_, ?_, by show m.errs ≤ (call plan m .unlinkPart).2.errs; omega, hei, Or.inr ht⟩
        · rcases hfin with hf | hf <;> simp [hf]
        · intro _ _; exact ginv_part_none _ _ s' _ W hj.inv hfin
      · exact absurd hok hr
    | appear =>
      have hok : (call plan m .unlinkPart).1 = none := by
        simp only [call, hp]; exact exe_unlink_ok fs0 (m.env .appear) s W (J_env fs0 m s W _ h) hph
      rcases hc with ⟨hr, hj, he, ht⟩ | ⟨hr, hj, he, ht⟩
      · simp only [evWrites, List.append_nil] at hj
        refine ⟨s', J_congr _ _ _ _ _ hj rfl rfl rfl rfl, hpub, ?_, ?_, by show m.errs ≤ (call plan m .unlinkPart).2.errs; omega, hei, Or.inr ht⟩
        · rcases hfin with hf | hf <;> simp [hf]
        · intro _ _; exact ginv_part_none _ _ s' _ W hj.inv hfin
      · exact absurd hok hr

theorem close_ok (fs0 : FS) (m : M) (s : St) (W : Bytes) (h : J fs0 m s W)
    (hopen : s.isOpen = true) (hph : s.phase ≠ .init) : ∃ fs', m.fs.step .close = .ok fs' := by
  obtain ⟨x, _, h5, _⟩ := ginv_shape _ _ s m.fs W h.inv hph
  obtain ⟨buf, h7⟩ := h5 hopen
  simp [FS.step, FS.close, h7]

/-- `file.close()` on the open part file always closes it (even when it is made to fail) -/
theorem callClose_spec (fs0 : FS) (plan : Plan) (m : M) (s s' : St) (W : Bytes)
    (h : J fs0 m s W) (hs : s.step .close = some s') (hopen : s.isOpen = true) (hph : s.phase ≠ .init) :
    J fs0 (callClose plan m).2 s' W ∧
    ((callClose plan m).1 = none → (callClose plan m).2.errs = m.errs) ∧
    ((callClose plan m).1 ≠ none → (callClose plan m).2.errs = m.errs + 1) ∧
    (callClose plan m).2.tr = m.tr ++ [Ev.close] ∧
    (callClose plan m).2.cleanupFaulted = m.cleanupFaulted ∧ (callClose plan m).2.envIno = m.envIno := by
  have key : ∀ m0 : M, J fs0 m0 s W → (exe m0 .close).1 = none ∧ J fs0 (exe m0 .close).2 s' W ∧
      (exe m0 .close).2.errs = m0.errs ∧ (exe m0 .close).2.tr = m0.tr ++ [Ev.close] ∧
      (exe m0 .close).2.cleanupFaulted = m0.cleanupFaulted ∧ (exe m0 .close).2.envIno = m0.envIno := by
    intro m0 h0
    obtain ⟨fs', hf⟩ := close_ok fs0 m0 s W h0 hopen hph
    obtain ⟨hc, _, c2, c3⟩ := J_exe fs0 m0 s s' W .close h0 hs
    have hr : (exe m0 .close).1 = none := by simp [exe, hf]
    rcases hc with ⟨_, hj, he, ht⟩ | ⟨hr', _⟩
    · simp only [evWrites, List.append_nil] at hj
      exact ⟨hr, hj, he, ht, c2, c3⟩
    · exact absurd hr hr'
  unfold callClose
  cases hp : plan m.n with
  | fail e =>
    obtain ⟨fs', hf⟩ := close_ok fs0 m s W h hopen hph
    obtain ⟨_, hj, _, _⟩ := key m h
    simp only [hf]
    have hx : (exe m .close).2 = { m with fs := fs', n := m.n + 1, tr := m.tr ++ [Ev.close] } := by simp [exe, hf]
    rw [hx] at hj
    exact ⟨J_congr _ _ _ _ _ hj rfl rfl rfl rfl, by simp, by simp, by simp, by simp, by simp⟩
  | pass =>
    obtain ⟨k1, k2, k3, k4, k5, k6⟩ := key m h
    exact ⟨k2, fun _ => k3, fun hn => absurd k1 hn, k4, k5, k6⟩
  | appear =>
    obtain ⟨k1, k2, k3, k4, k5, k6⟩ := key (m.env .appear) (J_env fs0 m s W _ h)
    obtain ⟨e1, e2, e3, e4, e5⟩ := env_fields m .appear
    exact ⟨k2, fun _ => by rw [k3, e3], fun hn => absurd k1 hn, by rw [k4, e2], by rw [k5, e4], by rw [k6, e5]⟩

end C05
