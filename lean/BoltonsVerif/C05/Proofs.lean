import BoltonsVerif.C05.Model
import BoltonsVerif.C04.Proofs
/-
C05 — helper lemmas.  The invariant `J` ties the machine state of the transliterated saver to
(1) the state `s` of C04's acceptance automaton after the events recorded so far, (2) C04's
file-system invariant `GInv` (so the new bytes only ever live in one fresh inode), (3) the exact
destination entry before publication, (4) the part file's name before its creation and (5) the
permission bits of the fresh inode.  `J_call` shows that one instrumented call - whatever the plan
does to it - preserves `J`; the `*_spec` lemmas walk through `setup`, the body and `__exit__`.
-/
namespace C05
open C04

theorem append_singleton_inj {α} (l : List α) (x y : α) (h : l ++ [x] = l ++ [y]) : x = y := by
  simpa using h

theorem ginv_shape (P : Option Nat → Prop) (ino0 : List Inode) (s : St) (fs : FS) (W : Bytes)
    (hi : GInv P ino0 s fs W) (hph : s.phase ≠ .init) :
    ∃ x, fs.inodes = ino0 ++ [x] ∧ (s.isOpen = true → ∃ buf, fs.openf = some ⟨ino0.length, buf⟩) ∧
      (s.phase = .part → fs.dir.part = some ino0.length) := by
  obtain ⟨ph, op, db, us⟩ := s
  cases ph <;> simp at hph <;> simp only [GInv] at hi
  · obtain ⟨_, _, h3, x, h4, _, h6⟩ := hi
    refine ⟨x, h4, ?_, fun _ => h3⟩
    intro ho; simp at ho; subst ho
    simp only [if_true] at h6
    obtain ⟨buf, h7, _⟩ := h6
    exact ⟨buf, h7⟩
  · obtain ⟨_, _, _, x, h4, _, _, h7, _⟩ := hi
    exact ⟨x, h4, fun ho => ⟨[], h7 ho⟩, by simp⟩
  · obtain ⟨_, _, _, x, h4, _, _, h7, _⟩ := hi
    exact ⟨x, h4, fun ho => ⟨[], h7 ho⟩, by simp⟩
  · obtain ⟨_, _, _, x, h4, h6⟩ := hi
    exact ⟨x, h4, h6, by simp⟩

theorem mode_step (P : Option Nat → Prop) (ino0 : List Inode) (s s' : St) (fs fs' : FS) (W : Bytes) (e : Ev)
    (cur : Option Nat)
    (hi : GInv P ino0 s fs W) (hs : s.step e = some s') (hf : fs.step e = .ok fs')
    (hc : s.phase ≠ .init → ∀ x, fs.inodes = ino0 ++ [x] → some x.mode = cur) :
    ∀ x', fs'.inodes = ino0 ++ [x'] → some x'.mode = modeAfter fs.umask cur e := by
  obtain ⟨ph, op, db, us⟩ := s
  intro x' hx'
  cases e with
  | noop =>
    simp [FS.step] at hf; subst hf
    cases ph <;> simp only [GInv] at hi
    · obtain ⟨h1, _⟩ := hi; rw [h1] at hx'; simp at hx'
    all_goals exact hc (by simp) x' hx'
  | openPart a b c =>
    cases ph <;> simp [St.step] at hs
    simp only [GInv] at hi
    obtain ⟨h1, _⟩ := hi
    simp only [FS.step, FS.openPart] at hf
    split at hf
    · split at hf <;> simp at hf
      subst hf; rw [h1] at hx'; simp at hx'
    · simp at hf; subst hf
      simp [h1] at hx'
      subst hx'; simp [modeAfter, umaskOf]
  | chmodPart c =>
    cases ph <;> simp [St.step] at hs
    obtain ⟨x, h4, _, h3⟩ := ginv_shape P ino0 _ fs W hi (by simp)
    simp only [FS.step, FS.chmodPart, h3 rfl] at hf
    simp at hf; subst hf
    simp [h4, modInode_append_last] at hx'
    subst hx'; simp [modeAfter]
  | write d k =>
    have ho : op = true := by simp [St.step] at hs; exact hs.1.1
    have hph : ph ≠ .init := by intro h; subst h; simp [GInv, ho] at hi
    obtain ⟨x, h4, h5, _⟩ := ginv_shape P ino0 _ fs W hi hph
    obtain ⟨buf, h7⟩ := h5 ho
    simp only [FS.step, FS.write, h7] at hf
    simp at hf; subst hf
    simp [h4, modInode_append_last] at hx'
    subst hx'; simpa [modeAfter] using hc hph x h4
  | flush =>
    have ho : op = true := by simp [St.step] at hs; exact hs.1
    have hph : ph ≠ .init := by intro h; subst h; simp [GInv, ho] at hi
    obtain ⟨x, h4, h5, _⟩ := ginv_shape P ino0 _ fs W hi hph
    obtain ⟨buf, h7⟩ := h5 ho
    simp only [FS.step, FS.flush, h7] at hf
    simp at hf; subst hf
    simp [h4, modInode_append_last] at hx'
    subst hx'; simpa [modeAfter] using hc hph x h4
  | fsync =>
    have ho : op = true := by simp [St.step] at hs; exact hs.1
    have hph : ph ≠ .init := by intro h; subst h; simp [GInv, ho] at hi
    obtain ⟨x, h4, h5, _⟩ := ginv_shape P ino0 _ fs W hi hph
    obtain ⟨buf, h7⟩ := h5 ho
    simp only [FS.step, FS.fsync, h7] at hf
    simp at hf; subst hf
    simp [h4, modInode_append_last] at hx'
    subst hx'; simpa [modeAfter] using hc hph x h4
  | close =>
    have ho : op = true := by simp [St.step] at hs; exact hs.1
    have hph : ph ≠ .init := by intro h; subst h; simp [GInv, ho] at hi
    obtain ⟨x, h4, h5, _⟩ := ginv_shape P ino0 _ fs W hi hph
    obtain ⟨buf, h7⟩ := h5 ho
    simp only [FS.step, FS.close, h7] at hf
    simp at hf; subst hf
    simp [h4, modInode_append_last] at hx'
    subst hx'; simpa [modeAfter] using hc hph x h4
  | closeFd =>
    have ho : op = true := by simp [St.step] at hs; exact hs.1.1
    have hph : ph ≠ .init := by intro h; subst h; simp [GInv, ho] at hi
    simp only [FS.step, FS.closeFd] at hf
    split at hf <;> simp at hf
    subst hf
    simpa [modeAfter] using hc hph x' hx'
  | renamePartDest =>
    simp [St.step] at hs
    obtain ⟨⟨rfl, _⟩, _⟩ := hs
    simp only [FS.step, FS.renamePartDest] at hf
    split at hf <;> simp at hf
    subst hf
    simpa [modeAfter, FS.setDir] using hc (by simp) x' hx'
  | linkPartDest =>
    simp [St.step] at hs
    obtain ⟨⟨rfl, _⟩, _⟩ := hs
    simp only [FS.step, FS.linkPartDest] at hf
    split at hf
    · simp at hf
    · split at hf <;> simp at hf
      subst hf
      simpa [modeAfter, FS.setDir] using hc (by simp) x' hx'
  | unlinkPart =>
    simp only [FS.step, FS.unlinkPart] at hf
    split at hf <;> simp at hf
    subst hf
    cases ph <;> simp [St.step] at hs
    · simp only [GInv] at hi
      obtain ⟨h1, _⟩ := hi
      simp [FS.setDir, h1] at hx'
    all_goals simpa [modeAfter, FS.setDir] using hc (by simp) x' hx'
  | truncDest => simp [St.step] at hs
  | writeDest d => simp [St.step] at hs
  | unlinkDest => simp [St.step] at hs
  | unknown => simp [St.step] at hs

/-- nothing is recorded about the destination's entry inside `GInv` (the exact entry is `J.dest`) -/
abbrev PT : Option Nat → Prop := fun _ => True

/-- assumptions about the state at the start used by the property theorems: well-formed, and the
    environment's inode allocated but not linked -/
structure Start (fs0 : FS) (e : Nat) : Prop where
  wf : fs0.WF
  elt : e < fs0.inodes.length
  eino : fs0.inodes[e]? = some envInode
  edest : fs0.dir.dest ≠ some e
  epart : fs0.dir.part ≠ some e

structure J (fs0 : FS) (m : M) (s : St) (W : Bytes) : Prop where
  run : St.init.run m.tr = some s
  inv : GInv PT fs0.inodes s m.fs W
  dest : s.published = false → m.fs.dir.dest = (if m.envDone then some m.envIno else fs0.dir.dest)
  envd : m.envDone = true → fs0.dir.dest = none
  pinit : s.phase = .init → (Ev.unlinkPart ∉ m.tr → m.fs.dir.part = fs0.dir.part) ∧
                            (Ev.unlinkPart ∈ m.tr → m.fs.dir.part = none)
  mode : s.phase ≠ .init → ∀ x, m.fs.inodes = fs0.inodes ++ [x] → some x.mode = m.tr.foldl (modeAfter fs0.umask) none
  um : m.fs.umask = fs0.umask
  lenv : Ev.linkPartDest ∈ m.tr → m.envDone = false

theorem publishes_of_mem_link (t : List Ev) (h : Ev.linkPartDest ∈ t) : publishes t = true := by
  induction t with
  | nil => simp at h
  | cons e t ih =>
    rw [publishes_cons]
    rcases List.mem_cons.1 h with rfl | h
    · simp [publishes]
    · simp [ih h]

theorem J_start (fs0 : FS) (e : Nat) : J fs0 (M.start fs0 e) St.init [] := by
  refine ⟨by simp [M.start, St.run], ?_, by simp [M.start], by simp [M.start], by simp [M.start],
    by simp [St.init], by simp [M.start], by simp [M.start]⟩
  simp [GInv, St.init, M.start, PT]

theorem J_env (fs0 : FS) (m : M) (s : St) (W : Bytes) (a : Act) (h : J fs0 m s W) : J fs0 (m.env a) s W := by
  unfold M.env
  split
  · rename_i hc
    obtain ⟨_, hd⟩ := hc
    obtain ⟨ph, op, db, us⟩ := s
    have hunp : St.published ⟨ph, op, db, us⟩ = false := by
      cases ph <;> simp [St.published] <;> have := h.inv <;> simp [GInv, hd] at this
    have h0 := h.dest hunp
    rw [hd] at h0
    have hed : m.envDone = false := by cases hh : m.envDone <;> simp [hh] at h0 ⊢
    have hd0 : fs0.dir.dest = none := by simp [hed] at h0; exact h0.symm
    refine ⟨h.run, ?_, by simp [FS.setDir], fun _ => hd0, by simpa [FS.setDir] using h.pinit,
      by simpa [FS.setDir] using h.mode, by simpa [FS.setDir] using h.um, ?_⟩
    · have hi := h.inv
      cases ph <;> simp [St.published] at hunp <;> simp only [GInv] at hi ⊢ <;> simpa [FS.setDir, PT] using hi
    · intro hl
      exfalso
      have hp : St.published ⟨ph, op, db, us⟩ = true := by
        have := (published_run m.tr St.init _ h.run).1
        rw [this, publishes_of_mem_link _ hl]; simp
      rw [hunp] at hp; simp at hp
  · exact h

theorem step_dest (s s' : St) (fs fs' : FS) (ev : Ev) (hs : s.step ev = some s')
    (hp : s'.published = false) (hf : fs.step ev = .ok fs') : fs'.dir.dest = fs.dir.dest ∧ fs'.umask = fs.umask := by
  obtain ⟨ph, op, db, us⟩ := s
  cases ev with
  | noop => simp [FS.step] at hf; subst hf; exact ⟨rfl, rfl⟩
  | openPart a b c =>
    simp only [FS.step, FS.openPart] at hf
    split at hf
    · split at hf <;> simp at hf; subst hf; exact ⟨rfl, rfl⟩
    · simp at hf; subst hf; simp [FS.setDir]
  | chmodPart c =>
    simp only [FS.step, FS.chmodPart] at hf
    split at hf <;> simp at hf; subst hf; exact ⟨rfl, rfl⟩
  | write d k =>
    simp only [FS.step, FS.write] at hf
    split at hf <;> simp at hf; subst hf; exact ⟨rfl, rfl⟩
  | flush =>
    simp only [FS.step, FS.flush] at hf
    split at hf <;> simp at hf; subst hf; exact ⟨rfl, rfl⟩
  | fsync =>
    simp only [FS.step, FS.fsync] at hf
    split at hf <;> simp at hf; subst hf; exact ⟨rfl, rfl⟩
  | close =>
    simp only [FS.step, FS.close] at hf
    split at hf <;> simp at hf; subst hf; exact ⟨rfl, rfl⟩
  | closeFd =>
    simp only [FS.step, FS.closeFd] at hf
    split at hf <;> simp at hf; subst hf; exact ⟨rfl, rfl⟩
  | renamePartDest =>
    simp [St.step] at hs; obtain ⟨_, rfl⟩ := hs; simp [St.published] at hp
  | linkPartDest =>
    simp [St.step] at hs; obtain ⟨_, rfl⟩ := hs; simp [St.published] at hp
  | unlinkPart =>
    simp only [FS.step, FS.unlinkPart] at hf
    split at hf <;> simp at hf; subst hf; simp [FS.setDir]
  | truncDest => simp [St.step] at hs
  | writeDest d => simp [St.step] at hs
  | unlinkDest => simp [St.step] at hs
  | unknown => simp [St.step] at hs

theorem run_snoc (s s' s'' : St) (t : List Ev) (e : Ev) (h1 : s.run t = some s') (h2 : s'.step e = some s'') :
    s.run (t ++ [e]) = some s'' := by
  rw [run_append, h1]; simp [St.run, h2]

theorem env_fields (m : M) (a : Act) :
    (m.env a).n = m.n ∧ (m.env a).tr = m.tr ∧ (m.env a).errs = m.errs ∧
    (m.env a).cleanupFaulted = m.cleanupFaulted ∧ (m.env a).envIno = m.envIno := by
  unfold M.env; split <;> simp

theorem step_to_init (s s' : St) (e : Ev) (hs : s.step e = some s') (h : s'.phase = .init)
    (ho : s.phase = .init → s.isOpen = false) :
    s.phase = .init ∧ (e = .noop ∨ e = .unlinkPart) := by
  obtain ⟨ph, op, db, us⟩ := s
  cases e <;> cases ph <;> simp [St.step] at hs
  all_goals (try (obtain ⟨_, rfl⟩ := hs))
  all_goals (try subst hs)
  all_goals simp at h ⊢
  all_goals simp_all

theorem step_umask (fs fs' : FS) (e : Ev) (hf : fs.step e = .ok fs') : fs'.umask = fs.umask := by
  cases e <;> simp only [FS.step, FS.openPart, FS.chmodPart, FS.write, FS.flush, FS.fsync, FS.close, FS.closeFd,
    FS.renamePartDest, FS.linkPartDest, FS.unlinkPart, FS.truncDest, FS.writeDest, FS.unlinkDest] at hf
  all_goals (repeat' (split at hf))
  all_goals (simp at hf)
  all_goals (try subst hf)
  all_goals (try simp [FS.setDir])

/-- result of one call w.r.t. the invariant: on success the automaton and the written bytes
    advance; on failure nothing but counters (and a possible environment move) changes -/
def CallPost (fs0 : FS) (m : M) (s s' : St) (W : Bytes) (ev : Ev) (r : Option Errno × M) : Prop :=
  ((r.1 = none ∧ J fs0 r.2 s' (W ++ evWrites ev) ∧ r.2.errs = m.errs ∧ r.2.tr = m.tr ++ [ev]) ∨
   (r.1 ≠ none ∧ J fs0 r.2 s W ∧ r.2.errs = m.errs + 1 ∧ r.2.tr = m.tr)) ∧
  r.2.n = m.n + 1 ∧ r.2.cleanupFaulted = m.cleanupFaulted ∧ r.2.envIno = m.envIno

theorem J_exe (fs0 : FS) (m : M) (s s' : St) (W : Bytes) (ev : Ev)
    (h : J fs0 m s W) (hs : s.step ev = some s') : CallPost fs0 m s s' W ev (exe m ev) := by
  unfold exe CallPost
  split
  · exact ⟨Or.inr ⟨by simp, ⟨h.run, h.inv, h.dest, h.envd, h.pinit, h.mode, h.um, h.lenv⟩, rfl, rfl⟩, rfl, rfl, rfl⟩
  · rename_i fs' hf
    have hsd : s'.published = false → fs'.dir.dest = m.fs.dir.dest := fun hp => (step_dest s s' _ fs' ev hs hp hf).1
    refine ⟨Or.inl ⟨rfl, ⟨run_snoc _ _ _ _ _ h.run hs, ginv_step _ _ s s' _ fs' W ev h.inv hs hf, ?_, h.envd, ?_, ?_, ?_, ?_⟩, rfl, rfl⟩, rfl, rfl, rfl⟩
    · intro hp
      have hsp : s.published = false := by
        have := (published_step s s' ev hs).1
        rw [hp] at this
        cases hh : s.published <;> simp [hh] at this ⊢
      have := h.dest hsp
      simp only [hsd hp]
      exact this
    · intro hp
      obtain ⟨h0, hev⟩ := step_to_init s s' ev hs hp (fun h0 => by
        have := h.inv; obtain ⟨ph, op, db, us⟩ := s; simp at h0; subst h0; simp only [GInv] at this; exact this.2.2.2.2)
      obtain ⟨p1, p2⟩ := h.pinit h0
      rcases hev with rfl | rfl
      · simp [FS.step] at hf; subst hf
        simpa using And.intro p1 p2
      · simp only [FS.step, FS.unlinkPart] at hf
        split at hf <;> simp at hf
        subst hf; simp [FS.setDir]
    · intro hp x' hx'
      simp only [List.foldl_append, List.foldl_cons, List.foldl_nil]
      have := mode_step _ _ s s' m.fs fs' W ev _ h.inv hs hf h.mode x' hx'
      rw [h.um] at this; exact this
    · rw [step_umask _ _ ev hf]; exact h.um
    · intro hl
      simp only [List.mem_append, List.mem_singleton] at hl
      rcases hl with hl | hl
      · exact h.lenv hl
      · subst hl
        have hd : m.fs.dir.dest = none := by
          simp only [FS.step, FS.linkPartDest] at hf
          split at hf
          · simp at hf
          · split at hf
            · simp at hf
            · assumption
        have hsp : s.published = false := by
          obtain ⟨ph, op, db, us⟩ := s
          simp [St.step] at hs
          obtain ⟨⟨rfl, _⟩, _⟩ := hs
          simp [St.published]
        have := h.dest hsp
        rw [hd] at this
        cases hh : m.envDone <;> simp [hh] at this ⊢

theorem J_call (fs0 : FS) (plan : Plan) (m : M) (s s' : St) (W : Bytes) (ev : Ev)
    (h : J fs0 m s W) (hs : s.step ev = some s') : CallPost fs0 m s s' W ev (call plan m ev) := by
  unfold call
  cases hp : plan m.n with
  | fail e =>
    exact ⟨Or.inr ⟨by simp, ⟨h.run, h.inv, h.dest, h.envd, h.pinit, h.mode, h.um, h.lenv⟩, rfl, rfl⟩, rfl, rfl, rfl⟩
  | pass => exact J_exe fs0 m s s' W ev h hs
  | appear =>
    have := J_exe fs0 (m.env .appear) s s' W ev (J_env fs0 m s W _ h) hs
    obtain ⟨e1, e2, e3, e4, e5⟩ := env_fields m .appear
    simpa [CallPost, e1, e2, e3, e4, e5] using this

theorem ginv_part_some (P : Option Nat → Prop) (ino0 : List Inode) (s : St) (fs : FS) (W : Bytes)
    (hi : GInv P ino0 s fs W) (hph : s.phase = .part ∨ s.phase = .linked) : fs.dir.part = some ino0.length := by
  obtain ⟨ph, op, db, us⟩ := s
  cases ph <;> simp at hph <;> simp only [GInv] at hi
  · exact hi.2.2.1
  · exact hi.2.1

theorem ginv_part_none (P : Option Nat → Prop) (ino0 : List Inode) (s : St) (fs : FS) (W : Bytes)
    (hi : GInv P ino0 s fs W) (hph : s.phase = .aborted ∨ s.phase = .done) : fs.dir.part = none := by
  obtain ⟨ph, op, db, us⟩ := s
  cases ph <;> simp at hph <;> simp only [GInv] at hi
  · exact hi.2.1
  · exact hi.2.2.1

theorem J_congr (fs0 : FS) (m m' : M) (s : St) (W : Bytes) (h : J fs0 m s W)
    (h1 : m'.fs = m.fs) (h2 : m'.tr = m.tr) (h3 : m'.envIno = m.envIno) (h4 : m'.envDone = m.envDone) :
    J fs0 m' s W := by
  obtain ⟨a, b, c, d, e, f, g, i⟩ := h
  exact ⟨by rw [h2]; exact a, by rw [h1]; exact b, by rw [h1, h3, h4]; exact c, by rw [h4]; exact d,
    by rw [h1, h2]; exact e, by rw [h1, h2]; exact f, by rw [h1]; exact g, by rw [h2, h4]; exact i⟩

theorem exe_unlink_ok (fs0 : FS) (m : M) (s : St) (W : Bytes) (h : J fs0 m s W)
    (hph : s.phase = .part ∨ s.phase = .linked) : (exe m .unlinkPart).1 = none := by
  have := ginv_part_some _ _ s m.fs W h.inv hph
  simp [exe, FS.step, FS.unlinkPart, this]

/-- `_rm_part_on_exc` in a state where the part file exists under its name: unless the plan makes
    the unlink fail (or `rm_part_on_exc` is off) the name is free afterwards -/
theorem rmPart_spec (cfg : Cfg) (fs0 : FS) (plan : Plan) (m : M) (s : St) (W : Bytes)
    (h : J fs0 m s W) (hph : s.phase = .part ∨ s.phase = .linked) :
    ∃ s', J fs0 (rmPart cfg plan m) s' W ∧ s'.published = s.published ∧ s'.phase ≠ .init ∧
      (cfg.rmPartOnExc = true → (rmPart cfg plan m).cleanupFaulted = false → (rmPart cfg plan m).fs.dir.part = none) ∧
      m.errs ≤ (rmPart cfg plan m).errs ∧ (rmPart cfg plan m).envIno = m.envIno ∧
      ((rmPart cfg plan m).tr = m.tr ∨ (rmPart cfg plan m).tr = m.tr ++ [Ev.unlinkPart]) := by
  unfold rmPart
  cases hrm : cfg.rmPartOnExc with
  | false =>
    simp only [Bool.false_eq_true, if_false]
    refine ⟨s, h, rfl, ?_, by simp, by simp, by simp, by simp⟩
    rcases hph with hph | hph <;> simp [hph]
  | true =>
    simp only [if_true]
    -- the automaton accepts the unlink
    obtain ⟨s', hs', hpub, hfin⟩ : ∃ s', s.step .unlinkPart = some s' ∧ s'.published = s.published ∧
        (s'.phase = .aborted ∨ s'.phase = .done) := by
      obtain ⟨ph, op, db, us⟩ := s
      rcases hph with hph | hph <;> simp at hph <;> subst hph
      · exact ⟨_, rfl, by simp [St.published]; decide, Or.inl rfl⟩
      · exact ⟨_, rfl, by simp [St.published], Or.inr rfl⟩
    obtain ⟨hc, hn, hcf', hei⟩ := J_call fs0 plan m s s' W .unlinkPart h hs'
    cases hp : plan m.n with
    | fail e =>
      rcases hc with ⟨hr, hj, he, ht⟩ | ⟨hr, hj, he, ht⟩
      · simp [call, hp] at hr
      · refine ⟨s, J_congr _ _ _ _ _ hj rfl rfl rfl rfl, rfl, ?_, by simp, by show m.errs ≤ (call plan m .unlinkPart).2.errs; omega, hei, Or.inl ht⟩
        rcases hph with hph | hph <;> simp [hph]
    | pass =>
      have hok : (call plan m .unlinkPart).1 = none := by
        simp only [call, hp]; exact exe_unlink_ok fs0 m s W h hph
      rcases hc with ⟨hr, hj, he, ht⟩ | ⟨hr, hj, he, ht⟩
      · simp only [evWrites, List.append_nil] at hj
        refine ⟨s', J_congr _ _ _ _ _ hj rfl rfl rfl rfl, hpub, ?_, ?_, by show m.errs ≤ (call plan m .unlinkPart).2.errs; omega, hei, Or.inr ht⟩
        · rcases hfin with hf | hf <;> simp [hf]
        · intro _ _; exact ginv_part_none _ _ s' _ W hj.inv hfin
      · exact absurd hok hr
    | appear =>
      have hok : (call plan m .unlinkPart).1 = none := by
        simp only [call, hp]; exact exe_unlink_ok fs0 (m.env .appear) s W (J_env fs0 m s W _ h) hph
      rcases hc with ⟨hr, hj, he, ht⟩ | ⟨hr, hj, he, ht⟩
      · simp only [evWrites, List.append_nil] at hj
        refine ⟨s', J_congr _ _ _ _ _ hj rfl rfl rfl rfl, hpub, ?_, ?_, by show m.errs ≤ (call plan m .unlinkPart).2.errs; omega, hei, Or.inr ht⟩
        · rcases hfin with hf | hf <;> simp [hf]
        · intro _ _; exact ginv_part_none _ _ s' _ W hj.inv hfin
      · exact absurd hok hr

theorem close_ok (fs0 : FS) (m : M) (s : St) (W : Bytes) (h : J fs0 m s W)
    (hopen : s.isOpen = true) (hph : s.phase ≠ .init) : ∃ fs', m.fs.step .close = .ok fs' := by
  obtain ⟨x, _, h5, _⟩ := ginv_shape _ _ s m.fs W h.inv hph
  obtain ⟨buf, h7⟩ := h5 hopen
  simp [FS.step, FS.close, h7]

/-- `file.close()` on the open part file always closes it (even when it is made to fail) -/
theorem callClose_spec (fs0 : FS) (plan : Plan) (m : M) (s s' : St) (W : Bytes)
    (h : J fs0 m s W) (hs : s.step .close = some s') (hopen : s.isOpen = true) (hph : s.phase ≠ .init) :
    J fs0 (callClose plan m).2 s' W ∧
    ((callClose plan m).1 = none → (callClose plan m).2.errs = m.errs) ∧
    ((callClose plan m).1 ≠ none → (callClose plan m).2.errs = m.errs + 1) ∧
    (callClose plan m).2.tr = m.tr ++ [Ev.close] ∧
    (callClose plan m).2.cleanupFaulted = m.cleanupFaulted ∧ (callClose plan m).2.envIno = m.envIno := by
  have key : ∀ m0 : M, J fs0 m0 s W → (exe m0 .close).1 = none ∧ J fs0 (exe m0 .close).2 s' W ∧
      (exe m0 .close).2.errs = m0.errs ∧ (exe m0 .close).2.tr = m0.tr ++ [Ev.close] ∧
      (exe m0 .close).2.cleanupFaulted = m0.cleanupFaulted ∧ (exe m0 .close).2.envIno = m0.envIno := by
    intro m0 h0
    obtain ⟨fs', hf⟩ := close_ok fs0 m0 s W h0 hopen hph
    obtain ⟨hc, _, c2, c3⟩ := J_exe fs0 m0 s s' W .close h0 hs
    have hr : (exe m0 .close).1 = none := by simp [exe, hf]
    rcases hc with ⟨_, hj, he, ht⟩ | ⟨hr', _⟩
    · simp only [evWrites, List.append_nil] at hj
      exact ⟨hr, hj, he, ht, c2, c3⟩
    · exact absurd hr hr'
  unfold callClose
  cases hp : plan m.n with
  | fail e =>
    obtain ⟨fs', hf⟩ := close_ok fs0 m s W h hopen hph
    obtain ⟨_, hj, _, _⟩ := key m h
    simp only [hf]
    have hx : (exe m .close).2 = { m with fs := fs', n := m.n + 1, tr := m.tr ++ [Ev.close], obs := m.obs ++ [.ok .close] } := by simp [exe, hf]
    rw [hx] at hj
    exact ⟨J_congr _ _ _ _ _ hj rfl rfl rfl rfl, by simp, by simp, by simp, by simp, by simp⟩
  | pass =>
    obtain ⟨k1, k2, k3, k4, k5, k6⟩ := key m h
    exact ⟨k2, fun _ => k3, fun hn => absurd k1 hn, k4, k5, k6⟩
  | appear =>
    obtain ⟨k1, k2, k3, k4, k5, k6⟩ := key (m.env .appear) (J_env fs0 m s W _ h)
    obtain ⟨e1, e2, e3, e4, e5⟩ := env_fields m .appear
    exact ⟨k2, fun _ => by rw [k3, e3], fun hn => absurd k1 hn, by rw [k4, e2], by rw [k5, e4], by rw [k6, e5]⟩

def modeEv : Ev → Bool
  | .openPart _ _ _ => true
  | .chmodPart _ => true
  | _ => false

/-- `m'` is a later state of the same save: its trace extends `m`'s by events that neither create
    nor chmod the part file; counters only grow -/
structure Ext (m m' : M) : Prop where
  tr : ∃ evs, m'.tr = m.tr ++ evs ∧ ∀ ev ∈ evs, modeEv ev = false
  errs : m.errs ≤ m'.errs
  envIno : m'.envIno = m.envIno

theorem Ext.refl (m : M) : Ext m m := ⟨⟨[], by simp, by simp⟩, Nat.le_refl _, rfl⟩

theorem Ext.trans {a b c : M} (h1 : Ext a b) (h2 : Ext b c) : Ext a c := by
  obtain ⟨⟨e1, t1, m1⟩, r1, i1⟩ := h1
  obtain ⟨⟨e2, t2, m2⟩, r2, i2⟩ := h2
  refine ⟨⟨e1 ++ e2, by rw [t2, t1, List.append_assoc], ?_⟩, by omega, by rw [i2, i1]⟩
  intro ev hev
  rcases List.mem_append.1 hev with h | h
  · exact m1 ev h
  · exact m2 ev h

theorem Ext.mode (um : Nat) {a b : M} (h : Ext a b) :
    b.tr.foldl (modeAfter um) none = a.tr.foldl (modeAfter um) none := by
  obtain ⟨⟨evs, t, hm⟩, _, _⟩ := h
  rw [t, List.foldl_append]
  clear t
  generalize a.tr.foldl (modeAfter um) none = cur
  induction evs generalizing cur with
  | nil => rfl
  | cons e evs ih =>
    have he : modeAfter um cur e = cur := by
      have := hm e (by simp)
      cases e <;> simp [modeEv] at this <;> rfl
    simp only [List.foldl_cons, he]
    exact ih (fun ev hev => hm ev (by simp [hev])) cur

theorem callPost_ext (fs0 : FS) (m : M) (s s' : St) (W : Bytes) (ev : Ev) (r : Option Errno × M)
    (h : CallPost fs0 m s s' W ev r) (hm : modeEv ev = false) : Ext m r.2 := by
  obtain ⟨hc, _, _, hei⟩ := h
  rcases hc with ⟨_, _, he, ht⟩ | ⟨_, _, he, ht⟩
  · exact ⟨⟨[ev], ht, by simp [hm]⟩, by omega, hei⟩
  · exact ⟨⟨[], by simp [ht], by simp⟩, by omega, hei⟩

theorem rmPart_ext (cfg : Cfg) (fs0 : FS) (plan : Plan) (m : M) (s : St) (W : Bytes)
    (h : J fs0 m s W) (hph : s.phase = .part ∨ s.phase = .linked) : Ext m (rmPart cfg plan m) := by
  obtain ⟨s', _, _, _, _, he, hi, ht⟩ := rmPart_spec cfg fs0 plan m s W h hph
  refine ⟨?_, he, hi⟩
  rcases ht with ht | ht
  · exact ⟨[], by simp [ht], by simp⟩
  · exact ⟨[.unlinkPart], ht, by simp [modeEv]⟩

theorem callClose_ext (fs0 : FS) (plan : Plan) (m : M) (s s' : St) (W : Bytes)
    (h : J fs0 m s W) (hs : s.step .close = some s') (hopen : s.isOpen = true) (hph : s.phase ≠ .init) :
    Ext m (callClose plan m).2 := by
  obtain ⟨_, a, b, c, _, e⟩ := callClose_spec fs0 plan m s s' W h hs hopen hph
  refine ⟨⟨[.close], c, by simp [modeEv]⟩, ?_, e⟩
  cases hr : (callClose plan m).1 with
  | none => rw [a hr]; exact Nat.le_refl _
  | some x => rw [b (by simp [hr])]; omega

/-- the inner try/finally of `__exit__`: afterwards the part file is closed; when no error leaves
    it everything written is flushed and synced -/
theorem syncClose_spec (fs0 : FS) (plan : Plan) (m : M) (db us : Bool) (W : Bytes)
    (h : J fs0 m ⟨.part, true, db, us⟩ W) :
    ∃ u, J fs0 (syncClose plan m).2 ⟨.part, false, false, u⟩ W ∧
      ((syncClose plan m).1 = none → u = false ∧ (syncClose plan m).2.errs = m.errs) ∧
      ((syncClose plan m).1 ≠ none → m.errs < (syncClose plan m).2.errs) ∧
      (syncClose plan m).2.cleanupFaulted = m.cleanupFaulted ∧ Ext m (syncClose plan m).2 := by
  unfold syncClose
  -- flush
  have hs1 : (St.mk .part true db us).step .flush = some ⟨.part, true, false, us || db⟩ := by simp [St.step]
  have c1 := J_call fs0 plan m _ _ W .flush h hs1
  have x1 := callPost_ext fs0 m _ _ W .flush _ c1 rfl
  obtain ⟨hc1, _, cf1, _⟩ := c1
  rcases hc1 with ⟨hr1, hj1, he1, _⟩ | ⟨hr1, hj1, he1, _⟩
  · -- flush succeeded: fsync
    simp only [evWrites, List.append_nil] at hj1
    simp only [hr1]
    have hs2 : (St.mk .part true false (us || db)).step .fsync = some ⟨.part, true, false, false⟩ := by simp [St.step]
    have c2 := J_call fs0 plan _ _ _ W .fsync hj1 hs2
    have x2 := callPost_ext fs0 _ _ _ W .fsync _ c2 rfl
    obtain ⟨hc2, _, cf2, _⟩ := c2
    rcases hc2 with ⟨hr2, hj2, he2, _⟩ | ⟨hr2, hj2, he2, _⟩
    · simp only [evWrites, List.append_nil] at hj2
      have hs3 : (St.mk .part true false false).step .close = some ⟨.part, false, false, false⟩ := by simp [St.step]
      obtain ⟨k1, k2, k3, _, k5, _⟩ := callClose_spec fs0 plan _ _ _ W hj2 hs3 rfl (by simp)
      have x3 := callClose_ext fs0 plan _ _ _ W hj2 hs3 rfl (by simp)
      refine ⟨false, k1, ?_, ?_, by rw [k5, cf2, cf1], x1.trans (x2.trans x3)⟩
      · intro hn
        have : (callClose plan (call plan (call plan m .flush).2 .fsync).2).1 = none := by
          cases hh : (callClose plan (call plan (call plan m .flush).2 .fsync).2).1 <;> simp [hh] at hn ⊢
        exact ⟨rfl, by rw [k2 this, he2, he1]⟩
      · intro hn
        have : (callClose plan (call plan (call plan m .flush).2 .fsync).2).1 ≠ none := by
          intro hh; apply hn; simp [hh, hr2]
        rw [k3 this, he2, he1]; omega
    · have hs3 : (St.mk .part true false (us || db)).step .close = some ⟨.part, false, false, (us || db) || false⟩ := by simp [St.step]
      obtain ⟨k1, k2, k3, _, k5, _⟩ := callClose_spec fs0 plan _ _ _ W hj2 hs3 rfl (by simp)
      have x3 := callClose_ext fs0 plan _ _ _ W hj2 hs3 rfl (by simp)
      refine ⟨_, k1, ?_, ?_, by rw [k5, cf2, cf1], x1.trans (x2.trans x3)⟩
      · intro hn
        exfalso
        cases hh : (callClose plan (call plan (call plan m .flush).2 .fsync).2).1 <;>
          cases hh2 : (call plan (call plan m .flush).2 .fsync).1 <;> simp [hh, hh2] at hn hr2
      · intro _
        have := x3.errs
        omega
  · -- flush failed: straight to close
    have hr1' : ∃ e, (call plan m .flush).1 = some e := by
      cases hh : (call plan m .flush).1 with
      | none => exact absurd hh hr1
      | some e => exact ⟨e, rfl⟩
    obtain ⟨e, hr1'⟩ := hr1'
    simp only [hr1']
    have hs3 : (St.mk .part true db us).step .close = some ⟨.part, false, false, us || db⟩ := by simp [St.step]
    obtain ⟨k1, k2, k3, _, k5, _⟩ := callClose_spec fs0 plan _ _ _ W hj1 hs3 rfl (by simp)
    have x3 := callClose_ext fs0 plan _ _ _ W hj1 hs3 rfl (by simp)
    refine ⟨_, k1, ?_, ?_, by rw [k5, cf1], x1.trans x3⟩
    · intro hn
      exfalso
      cases hh : (callClose plan (call plan m .flush).2).1 <;> simp [hh] at hn
    · intro _
      have := x3.errs
      omega

/-- the common postcondition of `publish` and `finish` -/
structure ExitPost (cfg : Cfg) (fs0 : FS) (m : M) (W : Bytes) (r : Outcome × M) (s' : St) : Prop where
  j : J fs0 r.2 s' W
  notinit : s'.phase ≠ .init
  ok : r.1 = .ok → s'.phase = .done ∧ r.2.errs = m.errs ∧ r.2.cleanupFaulted = m.cleanupFaulted
  failed : r.1 ≠ .ok → cfg.rmPartOnExc = true → r.2.cleanupFaulted = false → r.2.fs.dir.part = none
  link : s'.published = true → cfg.overwrite = false → Ev.linkPartDest ∈ r.2.tr
  ext : Ext m r.2

theorem publish_spec (cfg : Cfg) (fs0 : FS) (plan : Plan) (m : M) (W : Bytes)
    (h : J fs0 m ⟨.part, false, false, false⟩ W) :
    ∃ s', ExitPost cfg fs0 m W (publish cfg plan m) s' ∧
      (s'.published = true → (publish cfg plan m).1 = .ok ∨ cfg.overwrite = false) := by
  unfold publish
  cases how : cfg.overwrite with
  | true =>
    simp only [if_true]
    have hs1 : (St.mk .part false false false).step .renamePartDest = some ⟨.done, false, false, false⟩ := by simp [St.step]
    have c1 := J_call fs0 plan m _ _ W .renamePartDest h hs1
    have x1 := callPost_ext fs0 m _ _ W .renamePartDest _ c1 rfl
    obtain ⟨hc1, _, cf1, _⟩ := c1
    cases hcall : call plan m .renamePartDest with
    | mk r1 m1 =>
      rw [hcall] at hc1 x1 cf1
      rcases hc1 with ⟨hr1, hj1, he1, _⟩ | ⟨hr1, hj1, he1, _⟩
      · simp only at hr1 hj1 he1 cf1 x1
        subst hr1
        simp only [evWrites, List.append_nil] at hj1
        refine ⟨_, ⟨hj1, by simp, fun _ => ⟨rfl, he1, cf1⟩, fun hn => by simp at hn, fun _ hf => by rw [how] at hf; simp at hf, x1⟩, fun _ => Or.inl rfl⟩
      · simp only at hr1 hj1 he1 cf1 x1
        cases r1 with
        | none => simp at hr1
        | some e =>
          simp only
          obtain ⟨s', r1', r2, r3, r4, r5, _, _⟩ := rmPart_spec cfg fs0 plan m1 _ W hj1 (Or.inl rfl)
          have x2 := rmPart_ext cfg fs0 plan m1 _ W hj1 (Or.inl rfl)
          refine ⟨s', ⟨r1', r3, fun hn => by simp at hn, fun _ => r4, ?_, x1.trans x2⟩, ?_⟩
          · intro hp; rw [r2] at hp; simp [St.published] at hp
          · intro hp; rw [r2] at hp; simp [St.published] at hp
  | false =>
    simp only [Bool.false_eq_true, if_false]
    have hs1 : (St.mk .part false false false).step .linkPartDest = some ⟨.linked, false, false, false⟩ := by simp [St.step]
    have c1 := J_call fs0 plan m _ _ W .linkPartDest h hs1
    have x1 := callPost_ext fs0 m _ _ W .linkPartDest _ c1 rfl
    obtain ⟨hc1, _, cf1, _⟩ := c1
    cases hcall : call plan m .linkPartDest with
    | mk r1 m1 =>
      rw [hcall] at hc1 x1 cf1
      rcases hc1 with ⟨hr1, hj1, he1, ht1⟩ | ⟨hr1, hj1, he1, _⟩
      · simp only at hr1 hj1 he1 cf1 x1 ht1
        subst hr1
        simp only [evWrites, List.append_nil] at hj1
        simp only
        have hs2 : (St.mk .linked false false false).step .unlinkPart = some ⟨.done, false, false, false⟩ := by simp [St.step]
        have c2 := J_call fs0 plan m1 _ _ W .unlinkPart hj1 hs2
        have x2 := callPost_ext fs0 m1 _ _ W .unlinkPart _ c2 rfl
        obtain ⟨hc2, _, cf2, _⟩ := c2
        cases hcall2 : call plan m1 .unlinkPart with
        | mk r2 m2 =>
          rw [hcall2] at hc2 x2 cf2
          rcases hc2 with ⟨hr2, hj2, he2, ht2⟩ | ⟨hr2, hj2, he2, ht2⟩
          · simp only at hr2 hj2 he2 cf2 x2 ht2
            subst hr2
            simp only [evWrites, List.append_nil] at hj2
            refine ⟨_, ⟨hj2, by simp, fun _ => ⟨rfl, by rw [he2, he1], by rw [cf2, cf1]⟩, fun hn => by simp at hn, ?_, x1.trans x2⟩, fun _ => Or.inr (by simp [how])⟩
            intro _ _; simp [ht2, ht1]
          · simp only at hr2 hj2 he2 cf2 x2 ht2
            cases r2 with
            | none => simp at hr2
            | some e =>
              simp only
              obtain ⟨s', q1, q2, q3, q4, q5, _, q7⟩ := rmPart_spec cfg fs0 plan m2 _ W hj2 (Or.inr rfl)
              have x3 := rmPart_ext cfg fs0 plan m2 _ W hj2 (Or.inr rfl)
              refine ⟨s', ⟨q1, q3, fun hn => by simp at hn, fun _ => q4, ?_, x1.trans (x2.trans x3)⟩, fun _ => Or.inr (by simp [how])⟩
              intro _ _
              rcases q7 with q7 | q7 <;> simp [q7, ht2, ht1]
      · simp only at hr1 hj1 he1 cf1 x1
        cases r1 with
        | none => simp at hr1
        | some e =>
          simp only
          obtain ⟨s', r1', r2, r3, r4, r5, _, _⟩ := rmPart_spec cfg fs0 plan m1 _ W hj1 (Or.inl rfl)
          have x2 := rmPart_ext cfg fs0 plan m1 _ W hj1 (Or.inl rfl)
          refine ⟨s', ⟨r1', r3, fun hn => by simp at hn, fun _ => r4, ?_, x1.trans x2⟩, fun _ => Or.inr (by simp [how])⟩
          intro hp; rw [r2] at hp; simp [St.published] at hp

/-- `__exit__` from the state in which the body leaves the part file (open, possibly dirty) -/
theorem finish_spec (cfg : Cfg) (fs0 : FS) (plan : Plan) (m : M) (db us : Bool) (W : Bytes)
    (blockExc : Option Outcome) (h : J fs0 m ⟨.part, true, db, us⟩ W) (hb : blockExc ≠ some .ok) :
    ∃ s', ExitPost cfg fs0 m W (finish cfg plan m blockExc) s' ∧
      (s'.published = true → blockExc = none ∧ ((finish cfg plan m blockExc).1 = .ok ∨ cfg.overwrite = false)) ∧
      (∀ b, blockExc = some b → (finish cfg plan m blockExc).1 = b) := by
  unfold finish
  obtain ⟨u, hj, h1, h2, h3, x0⟩ := syncClose_spec fs0 plan m db us W h
  cases hsc : syncClose plan m with
  | mk r m3 =>
    rw [hsc] at hj h1 h2 h3 x0
    simp only at hj h1 h2 h3 x0
    cases r with
    | some e =>
      simp only
      obtain ⟨s', q1, q2, q3, q4, _, _, _⟩ := rmPart_spec cfg fs0 plan m3 _ W hj (Or.inl rfl)
      have x1 := rmPart_ext cfg fs0 plan m3 _ W hj (Or.inl rfl)
      have herr := h2 (by simp)
      have hunp : s'.published = false := by rw [q2]; simp [St.published]
      refine ⟨s', ⟨q1, q3, ?_, fun _ => q4, ?_, x0.trans x1⟩, ?_, ?_⟩
      · intro hok
        exfalso
        cases blockExc with
        | none => simp at hok
        | some b => simp at hok; subst hok; exact hb rfl
      · intro hp; rw [hunp] at hp; simp at hp
      · intro hp; rw [hunp] at hp; simp at hp
      · intro b hb; simp [hb]
    | none =>
      obtain ⟨hu, he⟩ := h1 rfl
      subst hu
      simp only
      cases blockExc with
      | some b =>
        simp only
        obtain ⟨s', q1, q2, q3, q4, _, _, _⟩ := rmPart_spec cfg fs0 plan m3 _ W hj (Or.inl rfl)
        have x1 := rmPart_ext cfg fs0 plan m3 _ W hj (Or.inl rfl)
        have hunp : s'.published = false := by rw [q2]; simp [St.published]
        refine ⟨s', ⟨q1, q3, ?_, fun _ => q4, ?_, x0.trans x1⟩, ?_, ?_⟩
        · intro hok; simp at hok; subst hok; exact absurd rfl hb
        · intro hp; rw [hunp] at hp; simp at hp
        · intro hp; rw [hunp] at hp; simp at hp
        · intro b' hb; simp at hb; simp [hb]
      | none =>
        simp only
        obtain ⟨s', ⟨p1, p2, p3, p4, p5, p6⟩, p7⟩ := publish_spec cfg fs0 plan m3 W hj
        refine ⟨s', ⟨p1, p2, ?_, ?_, p5, x0.trans p6⟩, fun hp => ⟨trivial, p7 hp⟩, by simp⟩
        · intro hok; obtain ⟨a, b, c⟩ := p3 hok; exact ⟨a, by rw [b, he], by rw [c, h3]⟩
        · exact p4

/-- the body's writes keep the part file open in the `part` phase; without a failure everything
    written is accounted for in `W` -/
theorem runWrites_spec (fs0 : FS) (plan : Plan) : ∀ (ws : List (Bytes × Nat)) (m : M) (db us : Bool) (W : Bytes),
    J fs0 m ⟨.part, true, db, us⟩ W →
    ∃ db' us' W', J fs0 (runWrites plan m ws).2 ⟨.part, true, db', us'⟩ W' ∧
      ((runWrites plan m ws).1 = none → W' = W ++ (ws.map (·.1)).flatten ∧ (runWrites plan m ws).2.errs = m.errs) ∧
      ((runWrites plan m ws).1 ≠ none → m.errs < (runWrites plan m ws).2.errs) ∧
      (runWrites plan m ws).2.cleanupFaulted = m.cleanupFaulted ∧ Ext m (runWrites plan m ws).2
  | [], m, db, us, W, h => ⟨db, us, W, by simpa [runWrites] using h, by simp [runWrites], by simp [runWrites],
      by simp [runWrites], by simpa [runWrites] using Ext.refl m⟩
  | w :: ws, m, db, us, W, h => by
    simp only [runWrites]
    have hs1 : (St.mk .part true db us).step (.write w.1 w.2) = some ⟨.part, true, true, true⟩ := by simp [St.step]
    have c1 := J_call fs0 plan m _ _ W (.write w.1 w.2) h hs1
    have x1 := callPost_ext fs0 m _ _ W (.write w.1 w.2) _ c1 rfl
    obtain ⟨hc1, _, cf1, _⟩ := c1
    cases hcall : call plan m (.write w.1 w.2) with
    | mk r1 m1 =>
      rw [hcall] at hc1 x1 cf1
      rcases hc1 with ⟨hr1, hj1, he1, _⟩ | ⟨hr1, hj1, he1, _⟩
      · simp only at hr1 hj1 he1 cf1 x1
        subst hr1
        simp only [evWrites] at hj1
        dsimp only
        obtain ⟨db', us', W', k1, k2, k3, k4, k5⟩ := runWrites_spec fs0 plan ws m1 true true _ hj1
        refine ⟨db', us', W', k1, ?_, ?_, by rw [k4, cf1], x1.trans k5⟩
        · intro hn; obtain ⟨a, b⟩ := k2 hn; exact ⟨by simp [a, List.append_assoc], by rw [b, he1]⟩
        · intro hn; have := k3 hn; omega
      · simp only at hr1 hj1 he1 cf1 x1
        cases r1 with
        | none => simp at hr1
        | some e =>
          dsimp only
          exact ⟨db, us, W, hj1, by simp, fun _ => by omega, cf1, x1⟩

/-- postcondition of a failed `setup()`: nothing published; either no part file was ever created
    (automaton still in `init`) or the cleanup ran -/
structure SetupFail (cfg : Cfg) (fs0 : FS) (m m' : M) : Prop where
  ex : ∃ s', J fs0 m' s' [] ∧ s'.published = false ∧
        ((s'.phase = .init ∧ m'.tr = m.tr) ∨
         (s'.phase ≠ .init ∧ (cfg.rmPartOnExc = true → m'.cleanupFaulted = false → m'.fs.dir.part = none)))
  errs : m.errs < m'.errs
  envIno : m'.envIno = m.envIno

theorem openPartFile_spec (cfg : Cfg) (fs0 : FS) (plan : Plan) (m : M) (perms : Nat) (doChmod : Bool)
    (h : J fs0 m St.init []) (hcf : m.cleanupFaulted = false) :
    ((openPartFile cfg plan m perms doChmod).1 = none →
      J fs0 (openPartFile cfg plan m perms doChmod).2 ⟨.part, true, false, false⟩ [] ∧
      (openPartFile cfg plan m perms doChmod).2.errs = m.errs ∧
      (openPartFile cfg plan m perms doChmod).2.cleanupFaulted = false ∧
      (openPartFile cfg plan m perms doChmod).2.envIno = m.envIno ∧
      (openPartFile cfg plan m perms doChmod).2.tr =
        m.tr ++ ([Ev.openPart true true perms, Ev.noop] ++ if doChmod then [Ev.chmodPart perms] else [])) ∧
    ((openPartFile cfg plan m perms doChmod).1 ≠ none →
      SetupFail cfg fs0 m (openPartFile cfg plan m perms doChmod).2) := by
  unfold openPartFile
  have hs1 : St.init.step (.openPart true true perms) = some ⟨.part, true, false, false⟩ := by simp [St.step, St.init]
  obtain ⟨hc1, _, cf1, ei1⟩ := J_call fs0 plan m _ _ [] (.openPart true true perms) h hs1
  cases hcall : call plan m (.openPart true true perms) with
  | mk r1 m1 =>
    rw [hcall] at hc1 cf1 ei1
    rcases hc1 with ⟨hr1, hj1, he1, ht1⟩ | ⟨hr1, hj1, he1, ht1⟩
    · simp only at hr1 hj1 he1 cf1 ht1 ei1
      subst hr1
      simp only [evWrites, List.append_nil] at hj1
      dsimp only
      -- fdopen
      have hs2 : (St.mk .part true false false).step .noop = some ⟨.part, true, false, false⟩ := by simp [St.step]
      obtain ⟨hc2, _, cf2, ei2⟩ := J_call fs0 plan m1 _ _ [] .noop hj1 hs2
      cases hcall2 : call plan m1 .noop with
      | mk r2 m2 =>
        rw [hcall2] at hc2 cf2 ei2
        rcases hc2 with ⟨hr2, hj2, he2, ht2⟩ | ⟨hr2, hj2, he2, ht2⟩
        · simp only at hr2 hj2 he2 cf2 ht2 ei2
          subst hr2
          simp only [evWrites, List.append_nil] at hj2
          dsimp only
          cases doChmod with
          | false =>
            simp only [Bool.false_eq_true, if_false]
            refine ⟨fun _ => ⟨hj2, by rw [he2, he1], by rw [cf2, cf1, hcf], by rw [ei2, ei1], by simp [ht2, ht1]⟩, fun hn => by simp at hn⟩
          | true =>
            simp only [if_true]
            have hs3 : (St.mk .part true false false).step (.chmodPart perms) = some ⟨.part, true, false, false⟩ := by simp [St.step]
            obtain ⟨hc3, _, cf3, ei3⟩ := J_call fs0 plan m2 _ _ [] (.chmodPart perms) hj2 hs3
            cases hcall3 : call plan m2 (.chmodPart perms) with
            | mk r3 m3 =>
              rw [hcall3] at hc3 cf3 ei3
              rcases hc3 with ⟨hr3, hj3, he3, ht3⟩ | ⟨hr3, hj3, he3, ht3⟩
              · simp only at hr3 hj3 he3 cf3 ht3 ei3
                subst hr3
                simp only [evWrites, List.append_nil] at hj3
                dsimp only
                refine ⟨fun _ => ⟨hj3, by rw [he3, he2, he1], by rw [cf3, cf2, cf1, hcf], by rw [ei3, ei2, ei1], by simp [ht3, ht2, ht1]⟩, fun hn => by simp at hn⟩
              · simp only at hr3 hj3 he3 cf3 ht3 ei3
                cases r3 with
                | none => simp at hr3
                | some e =>
                  dsimp only
                  -- except: part_file.close(); finally: _rm_part_on_exc(); raise
                  have hs4 : (St.mk .part true false false).step .close = some ⟨.part, false, false, false⟩ := by simp [St.step]
                  obtain ⟨k1, _, _, _, k5, k6⟩ := callClose_spec fs0 plan m3 _ _ [] hj3 hs4 rfl (by simp)
                  have x4 := callClose_ext fs0 plan m3 _ _ [] hj3 hs4 rfl (by simp)
                  obtain ⟨s', q1, q2, q3, q4, q5, q6, _⟩ := rmPart_spec cfg fs0 plan (callClose plan m3).2 _ [] k1 (Or.inl rfl)
                  refine ⟨fun hn => by simp at hn, fun _ => ⟨⟨s', q1, by rw [q2]; simp [St.published], Or.inr ⟨q3, q4⟩⟩, ?_, by rw [q6, k6, ei3, ei2, ei1]⟩⟩
                  have := x4.errs
                  omega
        · simp only at hr2 hj2 he2 cf2 ht2 ei2
          cases r2 with
          | none => simp at hr2
          | some e =>
            dsimp only
            -- except: os.close(fd); finally: _rm_part_on_exc(); raise
            have hs3 : (St.mk .part true false false).step .closeFd = some ⟨.part, false, false, false⟩ := by simp [St.step]
            obtain ⟨hc3, _, cf3, ei3⟩ := J_call fs0 plan m2 _ _ [] .closeFd hj2 hs3
            cases hcall3 : call plan m2 .closeFd with
            | mk r3 m3 =>
              rw [hcall3] at hc3 cf3 ei3
              have hj3 : ∃ s3 : St, J fs0 m3 s3 [] ∧ s3.phase = .part ∧ m2.errs ≤ m3.errs := by
                rcases hc3 with ⟨_, hj3, he3, _⟩ | ⟨_, hj3, he3, _⟩
                · simp only [evWrites, List.append_nil] at hj3
                  exact ⟨_, hj3, rfl, by simp only at he3; omega⟩
                · exact ⟨_, hj3, rfl, by simp only at he3; omega⟩
              obtain ⟨s3, hj3, hp3, he3⟩ := hj3
              dsimp only
              obtain ⟨s', q1, q2, q3, q4, q5, q6, _⟩ := rmPart_spec cfg fs0 plan m3 s3 [] hj3 (Or.inl hp3)
              refine ⟨fun hn => by simp at hn, fun _ => ⟨⟨s', q1, ?_, Or.inr ⟨q3, q4⟩⟩, by simp only at ei3; omega, by rw [q6]; simp only at ei3; rw [ei3, ei2, ei1]⟩⟩
              rw [q2]; obtain ⟨ph, _, _, _⟩ := s3; simp at hp3; subst hp3; simp [St.published]
    · simp only at hr1 hj1 he1 cf1 ht1 ei1
      cases r1 with
      | none => simp at hr1
      | some e =>
        dsimp only
        exact ⟨fun hn => by simp at hn, fun _ => ⟨⟨St.init, hj1, by decide, Or.inl ⟨rfl, ht1⟩⟩, by omega, ei1⟩⟩

theorem J_callStat (fs0 : FS) (plan : Plan) (m : M) (s : St) (W : Bytes) (h : J fs0 m s W) :
    J fs0 (callStat plan m).2 s W ∧ (callStat plan m).2.tr = m.tr ∧
    (callStat plan m).2.cleanupFaulted = m.cleanupFaulted ∧ (callStat plan m).2.envIno = m.envIno ∧
    ((∀ v, (callStat plan m).1 = .ok v → (callStat plan m).2.errs = m.errs) ∧
     (∀ e, (callStat plan m).1 = .error e → (callStat plan m).2.errs = m.errs + 1)) ∧
    ((∀ k, plan k ≠ .appear) → (∀ k, plan k ≠ .fail ENOENT) →
      ∀ v, (callStat plan m).1 = .ok v → v = m.fs.destMode) := by
  unfold callStat
  cases hp : plan m.n with
  | fail e =>
    by_cases he : e = ENOENT
    · simp only [he, if_true]
      refine ⟨J_congr _ _ _ _ _ h rfl rfl rfl rfl, trivial, trivial, trivial, ⟨by simp, by simp⟩, ?_⟩
      intro _ h2; exact absurd (he ▸ hp) (h2 m.n)
    · simp only [he, if_false]
      refine ⟨J_congr _ _ _ _ _ h rfl rfl rfl rfl, trivial, trivial, trivial, ⟨by simp, by simp⟩, by simp⟩
  | pass =>
    exact ⟨J_congr _ _ _ _ _ h rfl rfl rfl rfl, rfl, rfl, rfl, ⟨by simp, by simp⟩, by simp⟩
  | appear =>
    obtain ⟨e1, e2, e3, e4, e5⟩ := env_fields m .appear
    refine ⟨J_congr _ _ _ _ _ (J_env fs0 m s W .appear h) rfl rfl rfl rfl, e2, e4, e5, ⟨by simp [e3], by simp⟩, ?_⟩
    intro h1; exact absurd hp (h1 m.n)

theorem call_envDone (plan : Plan) (m : M) (ev : Ev) (hp : ∀ k, plan k ≠ .appear) :
    (call plan m ev).2.envDone = m.envDone := by
  unfold call
  cases h : plan m.n with
  | fail e => rfl
  | pass => simp only [exe]; split <;> rfl
  | appear => exact absurd h (hp m.n)

/-- what `setup()` leaves behind when it succeeds -/
structure SetupOk (cfg : Cfg) (fs0 : FS) (e : Nat) (plan : Plan) (m' : M) : Prop where
  j : J fs0 m' ⟨.part, true, false, false⟩ []
  errs : m'.errs = 0
  cf : m'.cleanupFaulted = false
  envIno : m'.envIno = e
  tr : ∃ p c, m'.tr = (if cfg.overwritePart && fs0.dir.part.isSome then [Ev.unlinkPart] else []) ++
          ([Ev.openPart true true p, Ev.noop] ++ if c then [Ev.chmodPart p] else []) ∧
        ((∀ k, plan k ≠ .appear) → (∀ k, plan k ≠ .fail ENOENT) → (p, c) = choosePerms cfg fs0)
  norefuse : fs0.dir.dest = none ∨ cfg.overwrite = true

/-- postcondition of a failed `setup()` -/
structure SetupFail0 (cfg : Cfg) (fs0 : FS) (e : Nat) (m' : M) : Prop where
  ex : ∃ s', J fs0 m' s' [] ∧ s'.published = false ∧
        ((s'.phase = .init ∧ (Ev.unlinkPart ∈ m'.tr → cfg.overwritePart = true)) ∨
         (s'.phase ≠ .init ∧ (cfg.rmPartOnExc = true → m'.cleanupFaulted = false → m'.fs.dir.part = none)))
  errs : 0 < m'.errs
  envIno : m'.envIno = e

theorem setup_spec (cfg : Cfg) (fs0 : FS) (e : Nat) (plan : Plan) :
    ((setup cfg plan (M.start fs0 e)).1 = none → SetupOk cfg fs0 e plan (setup cfg plan (M.start fs0 e)).2) ∧
    ((setup cfg plan (M.start fs0 e)).1 ≠ none →
      SetupFail0 cfg fs0 e (setup cfg plan (M.start fs0 e)).2) := by
  have h0 := J_start fs0 e
  unfold setup
  by_cases hrefuse : ((M.start fs0 e).fs.dir.dest.isSome && !cfg.overwrite) = true
  · simp only [hrefuse, if_true]
    refine ⟨fun hn => by simp at hn, fun _ => ⟨⟨St.init, J_congr _ _ _ _ _ h0 rfl rfl rfl rfl, by decide, Or.inl ⟨rfl, by simp [M.start]⟩⟩, by simp, rfl⟩⟩
  · simp only [hrefuse, Bool.false_eq_true, if_false]
    have hnr : fs0.dir.dest = none ∨ cfg.overwrite = true := by
      simp [M.start] at hrefuse
      cases hd : fs0.dir.dest with
      | none => exact Or.inl rfl
      | some i => right; cases ho : cfg.overwrite <;> simp_all
    -- the optional removal of a stale part file
    have stale : ∃ (r1 : Option Errno) (m1 : M),
        (if cfg.overwritePart && (M.start fs0 e).fs.dir.part.isSome then call plan (M.start fs0 e) .unlinkPart
          else (none, M.start fs0 e)) = (r1, m1) ∧
        J fs0 m1 St.init [] ∧ m1.cleanupFaulted = false ∧ m1.envIno = e ∧
        (r1 = none → m1.errs = 0 ∧ m1.tr = (if cfg.overwritePart && fs0.dir.part.isSome then [Ev.unlinkPart] else []) ∧
          ((∀ k, plan k ≠ .appear) → m1.envDone = false)) ∧
        (r1 ≠ none → m1.errs = 1 ∧ m1.tr = []) := by
      by_cases hc : (cfg.overwritePart && (M.start fs0 e).fs.dir.part.isSome) = true
      · simp only [hc, if_true]
        have hc' : (cfg.overwritePart && fs0.dir.part.isSome) = true := hc
        have hs1 : St.init.step .unlinkPart = some St.init := by simp [St.step, St.init]
        obtain ⟨hc1, _, cf1, ei1⟩ := J_call fs0 plan (M.start fs0 e) _ _ [] .unlinkPart h0 hs1
        have hed := call_envDone plan (M.start fs0 e) .unlinkPart
        cases hcall : call plan (M.start fs0 e) .unlinkPart with
        | mk r1 m1 =>
          rw [hcall] at hc1 cf1 ei1 hed
          refine ⟨r1, m1, rfl, ?_⟩
          rcases hc1 with ⟨hr1, hj1, he1, ht1⟩ | ⟨hr1, hj1, he1, ht1⟩
          · simp only [evWrites, List.append_nil] at hj1
            exact ⟨hj1, cf1, ei1, fun _ => ⟨he1, by simpa [hc', M.start] using ht1, fun hp => by simpa [M.start] using hed hp⟩,
              fun hn => absurd hr1 hn⟩
          · exact ⟨hj1, cf1, ei1, fun hn => absurd hn hr1, fun _ => ⟨he1, ht1⟩⟩
      · simp only [hc, if_false]
        have hc' : ¬ (cfg.overwritePart && fs0.dir.part.isSome) = true := hc
        exact ⟨none, M.start fs0 e, rfl, h0, rfl, rfl, fun _ => ⟨rfl, by simp [hc', M.start], fun _ => rfl⟩, fun hn => by simp at hn⟩
    obtain ⟨r1, m1, hst1, hj1, cf1, ei1, hok1, hbad1⟩ := stale
    rw [hst1]
    cases r1 with
    | some err =>
      dsimp only
      obtain ⟨b1, b2⟩ := hbad1 (by simp)
      exact ⟨fun hn => by simp at hn, fun _ => ⟨⟨St.init, hj1, by decide, Or.inl ⟨rfl, by simp [b2]⟩⟩, by simp [b1], ei1⟩⟩
    | none =>
      dsimp only
      obtain ⟨a1, a2, a3⟩ := hok1 rfl
      -- common continuation through _open_part_file
      have cont : ∀ (m2 : M) (p : Nat) (c : Bool), J fs0 m2 St.init [] → m2.cleanupFaulted = false → m2.envIno = e →
          m2.errs = 0 → m2.tr = m1.tr →
          ((∀ k, plan k ≠ .appear) → (∀ k, plan k ≠ .fail ENOENT) → (p, c) = choosePerms cfg fs0) →
          ((openPartFile cfg plan m2 p c).1 = none → SetupOk cfg fs0 e plan (openPartFile cfg plan m2 p c).2) ∧
          ((openPartFile cfg plan m2 p c).1 ≠ none → SetupFail0 cfg fs0 e (openPartFile cfg plan m2 p c).2) := by
        intro m2 p c hj2 cf2 ei2 he2 ht2 hpc
        obtain ⟨o1, o2⟩ := openPartFile_spec cfg fs0 plan m2 p c hj2 cf2
        refine ⟨fun hn => ?_, fun hn => ?_⟩
        · obtain ⟨k1, k2, k3, k4, k5⟩ := o1 hn
          exact ⟨k1, by rw [k2, he2], k3, by rw [k4, ei2], ⟨p, c, by rw [k5, ht2, a2], hpc⟩, hnr⟩
        · obtain ⟨⟨s', q1, q2, q3⟩, q4, q5⟩ := o2 hn
          refine ⟨⟨s', q1, q2, ?_⟩, by omega, by rw [q5, ei2]⟩
          rcases q3 with ⟨q3, q3'⟩ | q3
          · left; refine ⟨q3, ?_⟩
            rw [q3', ht2, a2]
            split <;> simp_all
          · exact Or.inr q3
      cases hperm : cfg.perms with
      | some p =>
        dsimp only
        refine cont m1 p true hj1 cf1 ei1 a1 rfl ?_
        intro _ _; simp [choosePerms, hperm]
      | none =>
        dsimp only
        obtain ⟨sj, st, scf, sei, ⟨serr_ok, serr_bad⟩, sval⟩ := J_callStat fs0 plan m1 St.init [] hj1
        cases hstat : callStat plan m1 with
        | mk rs m2 =>
          rw [hstat] at sj st scf sei serr_ok serr_bad sval
          simp only at sj st scf sei serr_ok serr_bad sval
          have hdm : (∀ k, plan k ≠ .appear) → m1.fs.destMode = fs0.destMode := by
            intro hp
            have hed := a3 hp
            have hd := hj1.dest (by decide)
            simp only [hed] at hd
            have hi := hj1.inv
            simp only [GInv, St.init] at hi
            simp [FS.destMode, FS.inode?, hd, hi.1]
          cases rs with
          | error err =>
            dsimp only
            exact ⟨fun hn => by simp at hn, fun _ => ⟨⟨St.init, sj, by decide, Or.inl ⟨rfl, by
              rw [st, a2]; split <;> simp_all⟩⟩, by rw [serr_bad err rfl, a1]; simp, by rw [sei, ei1]⟩⟩
          | ok v =>
            cases v with
            | some mode =>
              dsimp only
              refine cont m2 mode true sj (by rw [scf, cf1]) (by rw [sei, ei1]) (by rw [serr_ok _ rfl, a1]) st ?_
              intro hp1 hp2
              have := sval hp1 hp2 _ rfl
              rw [hdm hp1] at this
              simp [choosePerms, hperm, ← this]
            | none =>
              dsimp only
              refine cont m2 RW_PERMS false sj (by rw [scf, cf1]) (by rw [sei, ei1]) (by rw [serr_ok _ rfl, a1]) st ?_
              intro hp1 hp2
              have := sval hp1 hp2 _ rfl
              rw [hdm hp1] at this
              simp [choosePerms, hperm, ← this]


/-- the mode given to the part file by a successful `setup()` -/
def setupMode (um p : Nat) (c : Bool) : Nat := if c then p else umaskOf um p

theorem foldl_nomode (um : Nat) (evs : List Ev) (cur : Option Nat) (hm : ∀ ev ∈ evs, modeEv ev = false) :
    evs.foldl (modeAfter um) cur = cur := by
  induction evs generalizing cur with
  | nil => rfl
  | cons e evs ih =>
    have he : modeAfter um cur e = cur := by
      have := hm e (by simp)
      cases e <;> simp [modeEv] at this <;> rfl
    simp only [List.foldl_cons, he]
    exact ih cur (fun ev hev => hm ev (by simp [hev]))

theorem setup_mode (um : Nat) (pre : List Ev) (p : Nat) (c : Bool) (hpre : ∀ ev ∈ pre, modeEv ev = false) :
    (pre ++ ([Ev.openPart true true p, Ev.noop] ++ if c then [Ev.chmodPart p] else [])).foldl (modeAfter um) none
      = some (setupMode um p c) := by
  rw [List.foldl_append, foldl_nomode um pre none hpre]
  cases c <;> simp [modeAfter, setupMode]

/-- everything the property theorems need to know about the result of a save -/
structure Res (cfg : Cfg) (fs0 : FS) (e : Nat) (raises : Bool) (content : Bytes) (plan : Plan) (out : Outcome) (m : M) (s : St) (W : Bytes) : Prop where
  j : J fs0 m s W
  envIno : m.envIno = e
  ok : out = .ok → s.phase = .done ∧ m.errs = 0 ∧ raises = false
  pub : s.published = true → raises = false ∧ W = content ∧ (out = .ok ∨ cfg.overwrite = false) ∧
          (cfg.overwrite = false → Ev.linkPartDest ∈ m.tr) ∧
          ∃ p c, m.tr.foldl (modeAfter fs0.umask) none = some (setupMode fs0.umask p c) ∧
            ((∀ k, plan k ≠ .appear) → (∀ k, plan k ≠ .fail ENOENT) → (p, c) = choosePerms cfg fs0)
  failed : out ≠ .ok →
    (s.phase = .init ∧ (Ev.unlinkPart ∈ m.tr → cfg.overwritePart = true)) ∨
    (s.phase ≠ .init ∧ (cfg.rmPartOnExc = true → m.cleanupFaulted = false → m.fs.dir.part = none))
  refused : fs0.dir.dest ≠ none → cfg.overwrite = false → out = .osErr EEXIST ∧ m.fs = fs0 ∧ m.tr = []

theorem runSave_spec (cfg : Cfg) (fs0 : FS) (e : Nat) (body : Body) (plan : Plan) :
    ∃ s W, Res cfg fs0 e body.raises (newContent body) plan (runSave cfg body plan fs0 e).1 (runSave cfg body plan fs0 e).2 s W := by
  unfold runSave
  obtain ⟨sok, sfail⟩ := setup_spec cfg fs0 e plan
  have href : fs0.dir.dest ≠ none → cfg.overwrite = false →
      setup cfg plan (M.start fs0 e) = (some EEXIST, { M.start fs0 e with errs := (M.start fs0 e).errs + 1 }) := by
    intro hd ho
    unfold setup
    have : ((M.start fs0 e).fs.dir.dest.isSome && !cfg.overwrite) = true := by
      cases h : fs0.dir.dest with
      | none => exact absurd h hd
      | some i => simp [M.start, h, ho]
    simp only [this, if_true]
  cases hsetup : setup cfg plan (M.start fs0 e) with
  | mk r1 m1 =>
    rw [hsetup] at sok sfail
    simp only at sok sfail
    cases r1 with
    | some err =>
      dsimp only
      obtain ⟨⟨s', q1, q2, q3⟩, q4, q5⟩ := sfail (by simp)
      refine ⟨s', [], ⟨q1, q5, fun h => by simp at h, fun hp => by rw [q2] at hp; simp at hp, fun _ => q3, ?_⟩⟩
      intro hd ho
      have := href hd ho
      rw [hsetup] at this
      simp only [Prod.mk.injEq, Option.some.injEq] at this
      obtain ⟨rfl, rfl⟩ := this
      exact ⟨rfl, rfl, rfl⟩
    | none =>
      dsimp only
      obtain ⟨k1, k2, k3, k4, ⟨p, c, k5, k6⟩, k7⟩ := sok rfl
      obtain ⟨db', us', W', w1, w2, w3, w4, w5⟩ := runWrites_spec fs0 plan body.writes m1 false false [] k1
      have hb : blockOutcome body (runWrites plan m1 body.writes).1 ≠ some .ok := by
        unfold blockOutcome
        cases (runWrites plan m1 body.writes).1 <;> simp
      obtain ⟨s', ⟨f1, f2, f3, f4, f5, f6⟩, f7, f8⟩ := finish_spec cfg fs0 plan (runWrites plan m1 body.writes).2 db' us' W'
        (blockOutcome body (runWrites plan m1 body.writes).1) w1 hb
      -- a published save means the block ended normally: every write went through
      have hblock : blockOutcome body (runWrites plan m1 body.writes).1 = none →
          (runWrites plan m1 body.writes).1 = none ∧ body.raises = false := by
        unfold blockOutcome
        cases (runWrites plan m1 body.writes).1 <;> simp
      refine ⟨s', W', ⟨f1, by rw [f6.envIno, w5.envIno, k4], ?_, ?_, ?_, ?_⟩⟩
      · intro hok
        obtain ⟨a, b, _⟩ := f3 hok
        have hpub : s'.published = true := by simp [St.published, a]
        obtain ⟨hbn, _⟩ := f7 hpub
        obtain ⟨hw, hr⟩ := hblock hbn
        exact ⟨a, by rw [b, (w2 hw).2, k2], hr⟩
      · intro hpub
        obtain ⟨hbn, hok⟩ := f7 hpub
        obtain ⟨hw, hr⟩ := hblock hbn
        refine ⟨hr, by simpa [newContent] using (w2 hw).1, hok, f5 hpub, p, c, ?_, k6⟩
        rw [Ext.mode fs0.umask f6, Ext.mode fs0.umask w5, k5]
        apply setup_mode
        intro ev hev
        split at hev <;> simp at hev
        subst hev; rfl
      · intro hn
        exact Or.inr ⟨f2, f4 hn⟩
      · intro hd ho
        have := href hd ho
        rw [hsetup] at this
        simp at this


/-! ### progress without faults: every call of a save with nothing in its way succeeds -/

theorem call_pass_ok (plan : Plan) (m : M) (ev : Ev) (hp : plan m.n = .pass)
    (hf : ∃ fs', m.fs.step ev = .ok fs') : (call plan m ev).1 = none := by
  obtain ⟨fs', hf⟩ := hf
  simp [call, hp, exe, hf]

theorem step_ok_open (fs0 : FS) (m : M) (s : St) (W : Bytes) (h : J fs0 m s W) (ev : Ev)
    (ho : s.isOpen = true) (hph : s.phase ≠ .init)
    (hev : ev = .flush ∨ ev = .fsync ∨ ev = .close ∨ ev = .closeFd ∨ ∃ d k, ev = .write d k) :
    ∃ fs', m.fs.step ev = .ok fs' := by
  obtain ⟨x, _, h5, _⟩ := ginv_shape _ _ s m.fs W h.inv hph
  obtain ⟨buf, h7⟩ := h5 ho
  rcases hev with rfl | rfl | rfl | rfl | ⟨d, k, rfl⟩ <;>
    simp [FS.step, FS.flush, FS.fsync, FS.close, FS.closeFd, FS.write, h7]

theorem step_ok_part (fs0 : FS) (m : M) (s : St) (W : Bytes) (h : J fs0 m s W) (ev : Ev)
    (hph : s.phase = .part ∨ s.phase = .linked)
    (hev : ev = .unlinkPart ∨ ev = .renamePartDest ∨ (∃ p, ev = .chmodPart p) ∨ (ev = .linkPartDest ∧ m.fs.dir.dest = none)) :
    ∃ fs', m.fs.step ev = .ok fs' := by
  have hp := ginv_part_some _ _ s m.fs W h.inv hph
  rcases hev with rfl | rfl | ⟨p, rfl⟩ | ⟨rfl, hd⟩ <;>
    simp [FS.step, FS.unlinkPart, FS.renamePartDest, FS.chmodPart, FS.linkPartDest, hp, *]

theorem runWrites_ok (fs0 : FS) (plan : Plan) (hp : ∀ k, plan k = .pass) :
    ∀ (ws : List (Bytes × Nat)) (m : M) (db us : Bool) (W : Bytes),
    J fs0 m ⟨.part, true, db, us⟩ W → (runWrites plan m ws).1 = none
  | [], m, db, us, W, h => rfl
  | w :: ws, m, db, us, W, h => by
    simp only [runWrites]
    have hok := call_pass_ok plan m (.write w.1 w.2) (hp _)
      (step_ok_open fs0 m _ W h _ rfl (by simp) (Or.inr (Or.inr (Or.inr (Or.inr ⟨_, _, rfl⟩)))))
    have hs1 : (St.mk .part true db us).step (.write w.1 w.2) = some ⟨.part, true, true, true⟩ := by simp [St.step]
    obtain ⟨hc1, _⟩ := J_call fs0 plan m _ _ W (.write w.1 w.2) h hs1
    cases hcall : call plan m (.write w.1 w.2) with
    | mk r1 m1 =>
      rw [hcall] at hc1 hok
      simp only at hok; subst hok
      rcases hc1 with ⟨_, hj1, _⟩ | ⟨hr, _⟩
      · exact runWrites_ok fs0 plan hp ws m1 true true _ hj1
      · simp at hr

theorem exe_close_ok (m : M) (hf : ∃ fs', m.fs.step .close = .ok fs') : (exe m .close).1 = none := by
  obtain ⟨fs', hf⟩ := hf; simp [exe, hf]

theorem syncClose_ok (fs0 : FS) (plan : Plan) (hp : ∀ k, plan k = .pass) (m : M) (db us : Bool) (W : Bytes)
    (h : J fs0 m ⟨.part, true, db, us⟩ W) : (syncClose plan m).1 = none := by
  unfold syncClose
  have hs1 : (St.mk .part true db us).step .flush = some ⟨.part, true, false, us || db⟩ := by simp [St.step]
  have ok1 := call_pass_ok plan m .flush (hp _) (step_ok_open fs0 m _ W h _ rfl (by simp) (Or.inl rfl))
  obtain ⟨hc1, _⟩ := J_call fs0 plan m _ _ W .flush h hs1
  rcases hc1 with ⟨_, hj1, _⟩ | ⟨hr, _⟩
  · simp only [evWrites, List.append_nil] at hj1
    simp only [ok1]
    have hs2 : (St.mk .part true false (us || db)).step .fsync = some ⟨.part, true, false, false⟩ := by simp [St.step]
    have ok2 := call_pass_ok plan _ .fsync (hp _) (step_ok_open fs0 _ _ W hj1 _ rfl (by simp) (Or.inr (Or.inl rfl)))
    obtain ⟨hc2, _⟩ := J_call fs0 plan _ _ _ W .fsync hj1 hs2
    rcases hc2 with ⟨_, hj2, _⟩ | ⟨hr, _⟩
    · simp only [evWrites, List.append_nil] at hj2
      have ok3 : (callClose plan (call plan (call plan m .flush).2 .fsync).2).1 = none := by
        simp only [callClose, hp]
        exact exe_close_ok _ (step_ok_open fs0 _ _ W hj2 _ rfl (by simp) (Or.inr (Or.inr (Or.inl rfl))))
      simp [ok3, ok2]
    · exact absurd ok2 hr
  · exact absurd ok1 hr

theorem call_pass_dest (plan : Plan) (m : M) (ev : Ev) (hp : plan m.n = .pass) (s s' : St)
    (hs : s.step ev = some s') (hpub : s'.published = false) :
    (call plan m ev).2.fs.dir.dest = m.fs.dir.dest := by
  simp only [call, hp, exe]
  split
  · rfl
  · rename_i fs' hf
    exact (step_dest s s' m.fs fs' ev hs hpub hf).1

theorem publish_ok (cfg : Cfg) (fs0 : FS) (plan : Plan) (hp : ∀ k, plan k = .pass) (m : M) (W : Bytes)
    (h : J fs0 m ⟨.part, false, false, false⟩ W) (hd : cfg.overwrite = true ∨ m.fs.dir.dest = none) :
    (publish cfg plan m).1 = .ok := by
  unfold publish
  cases how : cfg.overwrite with
  | true =>
    simp only [if_true]
    have ok1 := call_pass_ok plan m .renamePartDest (hp _) (step_ok_part fs0 m _ W h _ (Or.inl rfl) (Or.inr (Or.inl rfl)))
    cases hcall : call plan m .renamePartDest with
    | mk r1 m1 => rw [hcall] at ok1; simp only at ok1; subst ok1; rfl
  | false =>
    simp only [Bool.false_eq_true, if_false]
    have hdn : m.fs.dir.dest = none := by
      rcases hd with h | h
      · simp [how] at h
      · exact h
    have ok1 := call_pass_ok plan m .linkPartDest (hp _) (step_ok_part fs0 m _ W h _ (Or.inl rfl) (Or.inr (Or.inr (Or.inr ⟨rfl, hdn⟩))))
    have hs1 : (St.mk .part false false false).step .linkPartDest = some ⟨.linked, false, false, false⟩ := by simp [St.step]
    obtain ⟨hc1, _⟩ := J_call fs0 plan m _ _ W .linkPartDest h hs1
    cases hcall : call plan m .linkPartDest with
    | mk r1 m1 =>
      rw [hcall] at ok1 hc1; simp only at ok1; subst ok1
      rcases hc1 with ⟨_, hj1, _⟩ | ⟨hr, _⟩
      · simp only [evWrites, List.append_nil] at hj1
        dsimp only
        have ok2 := call_pass_ok plan m1 .unlinkPart (hp _) (step_ok_part fs0 m1 _ W hj1 _ (Or.inr rfl) (Or.inl rfl))
        cases hcall2 : call plan m1 .unlinkPart with
        | mk r2 m2 => rw [hcall2] at ok2; simp only at ok2; subst ok2; rfl
      · simp at hr

/-! ### a plan without `appear` never lets the environment act -/

def NoEnv (plan : Plan) : Prop := ∀ k, plan k ≠ .appear

theorem callClose_envDone (plan : Plan) (m : M) (hp : NoEnv plan) : (callClose plan m).2.envDone = m.envDone := by
  unfold callClose
  cases h : plan m.n with
  | fail e => dsimp only; split <;> rfl
  | pass => simp only [exe]; split <;> rfl
  | appear => exact absurd h (hp m.n)

theorem callStat_envDone (plan : Plan) (m : M) (hp : NoEnv plan) : (callStat plan m).2.envDone = m.envDone := by
  unfold callStat
  cases h : plan m.n with
  | fail e => dsimp only; split <;> rfl
  | pass => rfl
  | appear => exact absurd h (hp m.n)

theorem rmPart_envDone (cfg : Cfg) (plan : Plan) (m : M) (hp : NoEnv plan) : (rmPart cfg plan m).envDone = m.envDone := by
  unfold rmPart
  split
  · exact call_envDone plan m _ hp
  · rfl

theorem openPartFile_envDone (cfg : Cfg) (plan : Plan) (m : M) (p : Nat) (c : Bool) (hp : NoEnv plan) :
    (openPartFile cfg plan m p c).2.envDone = m.envDone := by
  unfold openPartFile
  have e1 := call_envDone plan m (.openPart true true p) hp
  cases h1 : call plan m (.openPart true true p) with
  | mk r1 m1 =>
    rw [h1] at e1
    cases r1 with
    | some e => exact e1
    | none =>
      dsimp only
      have e2 := call_envDone plan m1 .noop hp
      cases h2 : call plan m1 .noop with
      | mk r2 m2 =>
        rw [h2] at e2
        cases r2 with
        | some e =>
          dsimp only
          rw [rmPart_envDone cfg plan _ hp, call_envDone plan m2 _ hp, e2, e1]
        | none =>
          dsimp only
          cases c with
          | false => simp only [Bool.false_eq_true, if_false]; rw [e2, e1]
          | true =>
            simp only [if_true]
            have e3 := call_envDone plan m2 (.chmodPart p) hp
            cases h3 : call plan m2 (.chmodPart p) with
            | mk r3 m3 =>
              rw [h3] at e3
              cases r3 with
              | some e =>
                dsimp only
                rw [rmPart_envDone cfg plan _ hp, callClose_envDone plan m3 hp, e3, e2, e1]
              | none => dsimp only; rw [e3, e2, e1]

theorem setup_envDone (cfg : Cfg) (plan : Plan) (m : M) (hp : NoEnv plan) :
    (setup cfg plan m).2.envDone = m.envDone := by
  unfold setup
  split
  · rfl
  · have key : ∀ (r1 : Option Errno) (m1 : M), m1.envDone = m.envDone →
        (match r1 with
          | some e => (some e, m1)
          | none =>
            match cfg.perms with
            | some p => openPartFile cfg plan m1 p true
            | none =>
              match callStat plan m1 with
              | (.error e, m2) => (some e, m2)
              | (.ok (some mode), m2) => openPartFile cfg plan m2 mode true
              | (.ok none, m2) => openPartFile cfg plan m2 RW_PERMS false).2.envDone = m.envDone := by
      intro r1 m1 h1
      cases r1 with
      | some e => exact h1
      | none =>
        dsimp only
        cases cfg.perms with
        | some p => dsimp only; rw [openPartFile_envDone cfg plan _ _ _ hp, h1]
        | none =>
          dsimp only
          have e2 := callStat_envDone plan m1 hp
          cases h2 : callStat plan m1 with
          | mk rs m2 =>
            rw [h2] at e2
            cases rs with
            | error e => exact e2.trans h1
            | ok v =>
              cases v with
              | some md => dsimp only; rw [openPartFile_envDone cfg plan _ _ _ hp, e2, h1]
              | none => dsimp only; rw [openPartFile_envDone cfg plan _ _ _ hp, e2, h1]
    have hx : ((if cfg.overwritePart && m.fs.dir.part.isSome then call plan m .unlinkPart else (none, m)) : Option Errno × M).2.envDone = m.envDone := by
      split
      · exact call_envDone plan m .unlinkPart hp
      · rfl
    generalize (if cfg.overwritePart && m.fs.dir.part.isSome then call plan m .unlinkPart else (none, m) : Option Errno × M) = x at hx
    obtain ⟨r1, m1⟩ := x
    exact key r1 m1 hx

theorem runWrites_envDone (plan : Plan) (hp : NoEnv plan) : ∀ (ws : List (Bytes × Nat)) (m : M),
    (runWrites plan m ws).2.envDone = m.envDone
  | [], m => rfl
  | w :: ws, m => by
    simp only [runWrites]
    have e1 := call_envDone plan m (.write w.1 w.2) hp
    cases h1 : call plan m (.write w.1 w.2) with
    | mk r1 m1 =>
      rw [h1] at e1
      cases r1 with
      | some e => exact e1
      | none => dsimp only; rw [runWrites_envDone plan hp ws m1, e1]

theorem syncClose_envDone (plan : Plan) (m : M) (hp : NoEnv plan) : (syncClose plan m).2.envDone = m.envDone := by
  unfold syncClose
  dsimp only
  rw [callClose_envDone plan _ hp]
  have e1 := call_envDone plan m .flush hp
  cases h1 : (call plan m .flush).1 with
  | some e => exact e1
  | none => dsimp only; rw [call_envDone plan _ _ hp, e1]

theorem publish_envDone (cfg : Cfg) (plan : Plan) (m : M) (hp : NoEnv plan) : (publish cfg plan m).2.envDone = m.envDone := by
  unfold publish
  split
  · have e1 := call_envDone plan m .renamePartDest hp
    cases h1 : call plan m .renamePartDest with
    | mk r1 m1 =>
      rw [h1] at e1
      cases r1 with
      | some e => dsimp only; rw [rmPart_envDone cfg plan _ hp, e1]
      | none => exact e1
  · have e1 := call_envDone plan m .linkPartDest hp
    cases h1 : call plan m .linkPartDest with
    | mk r1 m1 =>
      rw [h1] at e1
      cases r1 with
      | some e => dsimp only; rw [rmPart_envDone cfg plan _ hp, e1]
      | none =>
        dsimp only
        have e2 := call_envDone plan m1 .unlinkPart hp
        cases h2 : call plan m1 .unlinkPart with
        | mk r2 m2 =>
          rw [h2] at e2
          cases r2 with
          | some e => dsimp only; rw [rmPart_envDone cfg plan _ hp, e2, e1]
          | none => exact e2.trans e1

theorem finish_envDone (cfg : Cfg) (plan : Plan) (m : M) (b : Option Outcome) (hp : NoEnv plan) :
    (finish cfg plan m b).2.envDone = m.envDone := by
  unfold finish
  have e1 := syncClose_envDone plan m hp
  cases h1 : syncClose plan m with
  | mk r1 m1 =>
    rw [h1] at e1
    cases r1 with
    | some e => dsimp only; rw [rmPart_envDone cfg plan _ hp, e1]
    | none =>
      dsimp only
      cases b with
      | some x => dsimp only; rw [rmPart_envDone cfg plan _ hp, e1]
      | none => dsimp only; rw [publish_envDone cfg plan _ hp, e1]

theorem runSave_envDone (cfg : Cfg) (body : Body) (plan : Plan) (fs0 : FS) (e : Nat) (hp : NoEnv plan) :
    (runSave cfg body plan fs0 e).2.envDone = false := by
  unfold runSave
  have e1 := setup_envDone cfg plan (M.start fs0 e) hp
  cases h1 : setup cfg plan (M.start fs0 e) with
  | mk r1 m1 =>
    rw [h1] at e1
    cases r1 with
    | some x => exact e1
    | none =>
      dsimp only
      rw [finish_envDone cfg plan _ _ hp, runWrites_envDone plan hp, e1]
      rfl

theorem noEnv_of_pass (plan : Plan) (hp : ∀ k, plan k = .pass) : NoEnv plan := by
  intro k h; rw [hp k] at h; cases h

theorem finish_ok (cfg : Cfg) (fs0 : FS) (plan : Plan) (hp : ∀ k, plan k = .pass) (m : M) (db us : Bool) (W : Bytes)
    (h : J fs0 m ⟨.part, true, db, us⟩ W) (hd : cfg.overwrite = true ∨ fs0.dir.dest = none) (he : m.envDone = false) :
    (finish cfg plan m none).1 = .ok := by
  unfold finish
  have ok1 := syncClose_ok fs0 plan hp m db us W h
  obtain ⟨u, hj, h1, _⟩ := syncClose_spec fs0 plan m db us W h
  have e1 := syncClose_envDone plan m (noEnv_of_pass plan hp)
  cases hsc : syncClose plan m with
  | mk r m3 =>
    rw [hsc] at ok1 hj h1 e1
    simp only at ok1 hj h1 e1
    subst ok1
    obtain ⟨rfl, _⟩ := h1 rfl
    dsimp only
    apply publish_ok cfg fs0 plan hp m3 W hj
    rcases hd with hd | hd
    · exact Or.inl hd
    · right
      have := hj.dest (by simp [St.published])
      rw [this, e1, he]; simpa using hd

theorem openPartFile_ok (cfg : Cfg) (fs0 : FS) (plan : Plan) (hp : ∀ k, plan k = .pass) (m : M) (p : Nat) (c : Bool)
    (h : J fs0 m St.init []) (hpart : m.fs.dir.part = none) : (openPartFile cfg plan m p c).1 = none := by
  unfold openPartFile
  have ok1 := call_pass_ok plan m (.openPart true true p) (hp _) (by simp [FS.step, FS.openPart, hpart])
  have hs1 : St.init.step (.openPart true true p) = some ⟨.part, true, false, false⟩ := by simp [St.step, St.init]
  obtain ⟨hc1, _⟩ := J_call fs0 plan m _ _ [] (.openPart true true p) h hs1
  cases hcall : call plan m (.openPart true true p) with
  | mk r1 m1 =>
    rw [hcall] at ok1 hc1; simp only at ok1; subst ok1
    rcases hc1 with ⟨_, hj1, _⟩ | ⟨hr, _⟩
    · simp only [evWrites, List.append_nil] at hj1
      dsimp only
      have ok2 := call_pass_ok plan m1 .noop (hp _) ⟨_, rfl⟩
      have hs2 : (St.mk .part true false false).step .noop = some ⟨.part, true, false, false⟩ := by simp [St.step]
      obtain ⟨hc2, _⟩ := J_call fs0 plan m1 _ _ [] .noop hj1 hs2
      cases hcall2 : call plan m1 .noop with
      | mk r2 m2 =>
        rw [hcall2] at ok2 hc2; simp only at ok2; subst ok2
        rcases hc2 with ⟨_, hj2, _⟩ | ⟨hr, _⟩
        · simp only [evWrites, List.append_nil] at hj2
          dsimp only
          cases c with
          | false => rfl
          | true =>
            simp only [if_true]
            have ok3 := call_pass_ok plan m2 (.chmodPart p) (hp _) (step_ok_part fs0 m2 _ [] hj2 _ (Or.inl rfl) (Or.inr (Or.inr (Or.inl ⟨p, rfl⟩))))
            cases hcall3 : call plan m2 (.chmodPart p) with
            | mk r3 m3 => rw [hcall3] at ok3; simp only at ok3; subst ok3; rfl
        · simp at hr
    · simp at hr

theorem setup_ok (cfg : Cfg) (fs0 : FS) (e : Nat) (plan : Plan) (hp : ∀ k, plan k = .pass)
    (hpart : fs0.dir.part = none ∨ cfg.overwritePart = true)
    (hdest : fs0.dir.dest = none ∨ cfg.overwrite = true) :
    (setup cfg plan (M.start fs0 e)).1 = none := by
  have h0 := J_start fs0 e
  unfold setup
  have hnr : ((M.start fs0 e).fs.dir.dest.isSome && !cfg.overwrite) = false := by
    rcases hdest with h | h <;> simp [M.start, h]
  simp only [hnr, Bool.false_eq_true, if_false]
  -- state after the optional removal of a stale part file
  have stale : ∃ m1, (if cfg.overwritePart && (M.start fs0 e).fs.dir.part.isSome then call plan (M.start fs0 e) .unlinkPart
        else (none, M.start fs0 e)) = (none, m1) ∧ J fs0 m1 St.init [] ∧ m1.fs.dir.part = none := by
    by_cases hc : (cfg.overwritePart && (M.start fs0 e).fs.dir.part.isSome) = true
    · simp only [hc, if_true]
      have hsome : ∃ i, (M.start fs0 e).fs.dir.part = some i := by
        simp at hc; cases h : (M.start fs0 e).fs.dir.part with
        | none => simp [h] at hc
        | some i => exact ⟨i, rfl⟩
      obtain ⟨i, hi⟩ := hsome
      have ok1 := call_pass_ok plan (M.start fs0 e) .unlinkPart (hp _) (by simp [FS.step, FS.unlinkPart, hi])
      have hs1 : St.init.step .unlinkPart = some St.init := by simp [St.step, St.init]
      obtain ⟨hc1, _⟩ := J_call fs0 plan (M.start fs0 e) _ _ [] .unlinkPart h0 hs1
      cases hcall : call plan (M.start fs0 e) .unlinkPart with
      | mk r1 m1 =>
        rw [hcall] at ok1 hc1; simp only at ok1; subst ok1
        rcases hc1 with ⟨_, hj1, _, ht1⟩ | ⟨hr, _⟩
        · simp only [evWrites, List.append_nil] at hj1
          exact ⟨m1, rfl, hj1, (hj1.pinit rfl).2 (by simp only at ht1; simp [ht1])⟩
        · simp at hr
    · simp only [hc, if_false]
      refine ⟨_, rfl, h0, ?_⟩
      rcases hpart with h | h
      · exact h
      · simp [h] at hc; simpa [M.start] using hc
  obtain ⟨m1, hst1, hj1, hp1⟩ := stale
  rw [hst1]
  dsimp only
  cases cfg.perms with
  | some p => exact openPartFile_ok cfg fs0 plan hp m1 p true hj1 hp1
  | none =>
    dsimp only
    have hstat : callStat plan m1 = (.ok m1.fs.destMode, (callStat plan m1).2) := by
      simp [callStat, hp]
    have hfs : (callStat plan m1).2.fs = m1.fs := by simp [callStat, hp]
    have hj2 : J fs0 (callStat plan m1).2 St.init [] :=
      J_congr _ _ _ _ _ hj1 hfs (by simp [callStat, hp]) (by simp [callStat, hp]) (by simp [callStat, hp])
    have hp2 : (callStat plan m1).2.fs.dir.part = none := by rw [hfs]; exact hp1
    rw [hstat]
    cases m1.fs.destMode with
    | some md => exact openPartFile_ok cfg fs0 plan hp _ md true hj2 hp2
    | none => exact openPartFile_ok cfg fs0 plan hp _ RW_PERMS false hj2 hp2

/-- a save with nothing in its way and no fault completes -/
theorem runSave_nofault_ok (cfg : Cfg) (fs0 : FS) (e : Nat) (body : Body) (plan : Plan) (hp : ∀ k, plan k = .pass)
    (hpart : fs0.dir.part = none ∨ cfg.overwritePart = true)
    (hdest : fs0.dir.dest = none ∨ cfg.overwrite = true) (hr : body.raises = false) :
    (runSave cfg body plan fs0 e).1 = .ok := by
  unfold runSave
  have ok1 := setup_ok cfg fs0 e plan hp hpart hdest
  obtain ⟨sok, _⟩ := setup_spec cfg fs0 e plan
  have e1 := setup_envDone cfg plan (M.start fs0 e) (noEnv_of_pass plan hp)
  cases hsetup : setup cfg plan (M.start fs0 e) with
  | mk r1 m1 =>
    rw [hsetup] at ok1 sok e1
    simp only at ok1 sok e1
    subst ok1
    dsimp only
    obtain ⟨k1, _⟩ := sok rfl
    have ok2 := runWrites_ok fs0 plan hp body.writes m1 false false [] k1
    obtain ⟨db', us', W', w1, _⟩ := runWrites_spec fs0 plan body.writes m1 false false [] k1
    have e2 := runWrites_envDone plan (noEnv_of_pass plan hp) body.writes m1
    have hb : blockOutcome body (runWrites plan m1 body.writes).1 = none := by simp [blockOutcome, ok2, hr]
    rw [hb]
    exact finish_ok cfg fs0 plan hp _ db' us' W' w1 (by rcases hdest with h | h; exact Or.inr h; exact Or.inl h)
      (by rw [e2, e1]; rfl)

/-! ### without faults the recorded trace is exactly C04's `saverTrace` -/

/-- a call that the plan lets through and the kernel accepts: success, event appended -/
theorem call_pass_tr (fs0 : FS) (plan : Plan) (m : M) (s s' : St) (W : Bytes) (ev : Ev) (hp : plan m.n = .pass)
    (h : J fs0 m s W) (hs : s.step ev = some s') (hf : ∃ fs', m.fs.step ev = .ok fs') :
    (call plan m ev).1 = none ∧ J fs0 (call plan m ev).2 s' (W ++ evWrites ev) ∧ (call plan m ev).2.tr = m.tr ++ [ev] := by
  have ok := call_pass_ok plan m ev hp hf
  obtain ⟨hc, _⟩ := J_call fs0 plan m s s' W ev h hs
  rcases hc with ⟨_, hj, _, ht⟩ | ⟨hr, _⟩
  · exact ⟨ok, hj, ht⟩
  · exact absurd ok hr

theorem runWrites_tr (fs0 : FS) (plan : Plan) (hp : ∀ k, plan k = .pass) :
    ∀ (ws : List (Bytes × Nat)) (m : M) (db us : Bool) (W : Bytes), J fs0 m ⟨.part, true, db, us⟩ W →
    (runWrites plan m ws).2.tr = m.tr ++ ws.map (fun w => Ev.write w.1 w.2)
  | [], m, db, us, W, h => by simp [runWrites]
  | w :: ws, m, db, us, W, h => by
    simp only [runWrites]
    have hs1 : (St.mk .part true db us).step (.write w.1 w.2) = some ⟨.part, true, true, true⟩ := by simp [St.step]
    obtain ⟨a, b, c⟩ := call_pass_tr fs0 plan m _ _ W (.write w.1 w.2) (hp _) h hs1
      (step_ok_open fs0 m _ W h _ rfl (by simp) (Or.inr (Or.inr (Or.inr (Or.inr ⟨_, _, rfl⟩)))))
    cases hcall : call plan m (.write w.1 w.2) with
    | mk r1 m1 =>
      rw [hcall] at a b c
      simp only at a b c; subst a
      dsimp only
      rw [runWrites_tr fs0 plan hp ws m1 true true _ b, c]
      simp

theorem callClose_pass (plan : Plan) (m : M) (hp : plan m.n = .pass) : callClose plan m = call plan m .close := by
  simp [callClose, call, hp]

theorem syncClose_tr (fs0 : FS) (plan : Plan) (hp : ∀ k, plan k = .pass) (m : M) (db us : Bool) (W : Bytes)
    (h : J fs0 m ⟨.part, true, db, us⟩ W) :
    (syncClose plan m).2.tr = m.tr ++ [Ev.flush, Ev.fsync, Ev.close] := by
  unfold syncClose
  have hs1 : (St.mk .part true db us).step .flush = some ⟨.part, true, false, us || db⟩ := by simp [St.step]
  obtain ⟨a1, b1, c1⟩ := call_pass_tr fs0 plan m _ _ W .flush (hp _) h hs1 (step_ok_open fs0 m _ W h _ rfl (by simp) (Or.inl rfl))
  simp only [evWrites, List.append_nil] at b1
  have hs2 : (St.mk .part true false (us || db)).step .fsync = some ⟨.part, true, false, false⟩ := by simp [St.step]
  obtain ⟨a2, b2, c2⟩ := call_pass_tr fs0 plan _ _ _ W .fsync (hp _) b1 hs2 (step_ok_open fs0 _ _ W b1 _ rfl (by simp) (Or.inr (Or.inl rfl)))
  simp only [evWrites, List.append_nil] at b2
  have hs3 : (St.mk .part true false false).step .close = some ⟨.part, false, false, false⟩ := by simp [St.step]
  obtain ⟨a3, b3, c3⟩ := call_pass_tr fs0 plan _ _ _ W .close (hp _) b2 hs3 (step_ok_open fs0 _ _ W b2 _ rfl (by simp) (Or.inr (Or.inr (Or.inl rfl))))
  simp only [a1]
  rw [callClose_pass plan _ (hp _), c3, c2, c1]
  simp

theorem publish_tr (cfg : Cfg) (fs0 : FS) (plan : Plan) (hp : ∀ k, plan k = .pass) (m : M) (W : Bytes)
    (h : J fs0 m ⟨.part, false, false, false⟩ W) (hd : cfg.overwrite = true ∨ m.fs.dir.dest = none) :
    (publish cfg plan m).2.tr = m.tr ++ (if cfg.overwrite then [Ev.renamePartDest] else [Ev.linkPartDest, Ev.unlinkPart]) := by
  unfold publish
  cases how : cfg.overwrite with
  | true =>
    simp only [if_true]
    have hs1 : (St.mk .part false false false).step .renamePartDest = some ⟨.done, false, false, false⟩ := by simp [St.step]
    obtain ⟨a1, b1, c1⟩ := call_pass_tr fs0 plan m _ _ W .renamePartDest (hp _) h hs1 (step_ok_part fs0 m _ W h _ (Or.inl rfl) (Or.inr (Or.inl rfl)))
    cases hcall : call plan m .renamePartDest with
    | mk r1 m1 => rw [hcall] at a1 c1; simp only at a1 c1; subst a1; exact c1
  | false =>
    simp only [Bool.false_eq_true, if_false]
    have hdn : m.fs.dir.dest = none := by
      rcases hd with h | h
      · simp [how] at h
      · exact h
    have hs1 : (St.mk .part false false false).step .linkPartDest = some ⟨.linked, false, false, false⟩ := by simp [St.step]
    obtain ⟨a1, b1, c1⟩ := call_pass_tr fs0 plan m _ _ W .linkPartDest (hp _) h hs1
      (step_ok_part fs0 m _ W h _ (Or.inl rfl) (Or.inr (Or.inr (Or.inr ⟨rfl, hdn⟩))))
    simp only [evWrites, List.append_nil] at b1
    cases hcall : call plan m .linkPartDest with
    | mk r1 m1 =>
      rw [hcall] at a1 b1 c1; simp only at a1 b1 c1; subst a1
      dsimp only
      have hs2 : (St.mk .linked false false false).step .unlinkPart = some ⟨.done, false, false, false⟩ := by simp [St.step]
      obtain ⟨a2, b2, c2⟩ := call_pass_tr fs0 plan m1 _ _ W .unlinkPart (hp _) b1 hs2 (step_ok_part fs0 m1 _ W b1 _ (Or.inr rfl) (Or.inl rfl))
      cases hcall2 : call plan m1 .unlinkPart with
      | mk r2 m2 => rw [hcall2] at a2 c2; simp only at a2 c2; subst a2; dsimp only; rw [c2, c1]; simp

theorem rmPart_tr (cfg : Cfg) (fs0 : FS) (plan : Plan) (hp : ∀ k, plan k = .pass) (m : M) (s : St) (W : Bytes)
    (h : J fs0 m s W) (hph : s.phase = .part) :
    (rmPart cfg plan m).tr = m.tr ++ (if cfg.rmPartOnExc then [Ev.unlinkPart] else []) := by
  unfold rmPart
  cases cfg.rmPartOnExc with
  | false => simp
  | true =>
    simp only [if_true]
    obtain ⟨ph, op, db, us⟩ := s
    simp at hph; subst hph
    have hs1 : (St.mk .part op db us).step .unlinkPart = some ⟨.aborted, op, db, us⟩ := by simp [St.step]
    obtain ⟨_, _, c1⟩ := call_pass_tr fs0 plan m _ _ W .unlinkPart (hp _) h hs1 (step_ok_part fs0 m _ W h _ (Or.inl rfl) (Or.inl rfl))
    exact c1

/-- **Without faults the saver performs exactly C04's `saverTrace`** (so C04's theorems about
    `saverTrace` are theorems about the fault-free runs of the model that the C05 correspondence
    compares with the real code) -/
theorem runSave_nofault_trace (cfg : Cfg) (fs0 : FS) (e : Nat) (body : Body) (plan : Plan) (hp : ∀ k, plan k = .pass)
    (hpart : fs0.dir.part = none ∨ cfg.overwritePart = true)
    (hdest : fs0.dir.dest = none ∨ cfg.overwrite = true) :
    (runSave cfg body plan fs0 e).2.tr = saverTrace cfg fs0 body := by
  unfold runSave
  have ok1 := setup_ok cfg fs0 e plan hp hpart hdest
  obtain ⟨sok, _⟩ := setup_spec cfg fs0 e plan
  have e1 := setup_envDone cfg plan (M.start fs0 e) (noEnv_of_pass plan hp)
  cases hsetup : setup cfg plan (M.start fs0 e) with
  | mk r1 m1 =>
    rw [hsetup] at ok1 sok e1
    simp only at ok1 sok e1
    subst ok1
    dsimp only
    obtain ⟨k1, _, _, _, ⟨p, c, k5, k6⟩, _⟩ := sok rfl
    have hpc := k6 (noEnv_of_pass plan hp) (fun k h => by rw [hp k] at h; cases h)
    have hpp : p = (choosePerms cfg fs0).1 := by rw [← hpc]
    have hcc : c = (choosePerms cfg fs0).2 := by rw [← hpc]
    subst hpp; subst hcc
    have ok2 := runWrites_ok fs0 plan hp body.writes m1 false false [] k1
    have t2 := runWrites_tr fs0 plan hp body.writes m1 false false [] k1
    obtain ⟨db', us', W', w1, _⟩ := runWrites_spec fs0 plan body.writes m1 false false [] k1
    have e2 := runWrites_envDone plan (noEnv_of_pass plan hp) body.writes m1
    have t3 := syncClose_tr fs0 plan hp _ db' us' W' w1
    have ok3 := syncClose_ok fs0 plan hp _ db' us' W' w1
    obtain ⟨u, hj3, h31, _⟩ := syncClose_spec fs0 plan _ db' us' W' w1
    have e3 := syncClose_envDone plan (runWrites plan m1 body.writes).2 (noEnv_of_pass plan hp)
    unfold finish
    cases hsc : syncClose plan (runWrites plan m1 body.writes).2 with
    | mk r3 m3 =>
      rw [hsc] at t3 ok3 hj3 h31 e3
      simp only at t3 ok3 hj3 h31 e3
      subst ok3
      obtain ⟨rfl, _⟩ := h31 rfl
      dsimp only
      simp only [blockOutcome, ok2]
      cases hr : body.raises with
      | true =>
        simp only [if_true]
        rw [rmPart_tr cfg fs0 plan hp m3 _ W' hj3 rfl, t3, t2, k5]
        simp [saverTrace, hr, List.append_assoc]
      | false =>
        simp only [Bool.false_eq_true, if_false]
        have hd3 : cfg.overwrite = true ∨ m3.fs.dir.dest = none := by
          rcases hdest with hd | hd
          · right
            have := hj3.dest (by simp [St.published])
            rw [this, e3, e2, e1]; simpa [M.start] using hd
          · exact Or.inl hd
        rw [publish_tr cfg fs0 plan hp m3 W' hj3 hd3, t3, t2, k5]
        simp [saverTrace, hr, List.append_assoc]

/-! ### the file system of a run (no interference) is C04's `exec` of the recorded trace -/

/-- the machine's file system is what C04's `exec` makes of the recorded events -/
def X (fs0 : FS) (m : M) : Prop := exec fs0 m.tr = some m.fs

theorem exe_X (fs0 : FS) (m : M) (ev : Ev) (h : X fs0 m) : X fs0 (exe m ev).2 := by
  unfold exe
  split
  · exact h
  · rename_i fs' hf
    show exec fs0 (m.tr ++ [ev]) = some fs'
    rw [exec_append, h]
    simp [exec, hf]

theorem call_X (fs0 : FS) (plan : Plan) (m : M) (ev : Ev) (hp : NoEnv plan) (h : X fs0 m) : X fs0 (call plan m ev).2 := by
  unfold call
  cases hpl : plan m.n with
  | fail e => exact h
  | pass => exact exe_X fs0 m ev h
  | appear => exact absurd hpl (hp m.n)

theorem callClose_X (fs0 : FS) (plan : Plan) (m : M) (hp : NoEnv plan) (h : X fs0 m) : X fs0 (callClose plan m).2 := by
  unfold callClose
  cases hpl : plan m.n with
  | fail e =>
    dsimp only
    split
    · rename_i fs' hf
      show exec fs0 (m.tr ++ [Ev.close]) = some fs'
      rw [exec_append, h]
      simp [exec, hf]
    · exact h
  | pass => exact exe_X fs0 m _ h
  | appear => exact absurd hpl (hp m.n)

theorem callStat_X (fs0 : FS) (plan : Plan) (m : M) (hp : NoEnv plan) (h : X fs0 m) : X fs0 (callStat plan m).2 := by
  unfold callStat
  cases hpl : plan m.n with
  | fail e => dsimp only; split <;> exact h
  | pass => exact h
  | appear => exact absurd hpl (hp m.n)

theorem rmPart_X (fs0 : FS) (cfg : Cfg) (plan : Plan) (m : M) (hp : NoEnv plan) (h : X fs0 m) : X fs0 (rmPart cfg plan m) := by
  unfold rmPart
  split
  · exact call_X fs0 plan m _ hp h
  · exact h

theorem openPartFile_X (fs0 : FS) (cfg : Cfg) (plan : Plan) (m : M) (p : Nat) (c : Bool) (hp : NoEnv plan) (h : X fs0 m) :
    X fs0 (openPartFile cfg plan m p c).2 := by
  unfold openPartFile
  have e1 := call_X fs0 plan m (.openPart true true p) hp h
  cases h1 : call plan m (.openPart true true p) with
  | mk r1 m1 =>
    rw [h1] at e1
    cases r1 with
    | some e => exact e1
    | none =>
      dsimp only
      have e2 := call_X fs0 plan m1 .noop hp e1
      cases h2 : call plan m1 .noop with
      | mk r2 m2 =>
        rw [h2] at e2
        cases r2 with
        | some e =>
          dsimp only
          exact rmPart_X fs0 cfg plan _ hp (call_X fs0 plan m2 _ hp e2)
        | none =>
          dsimp only
          cases c with
          | false => simp only [Bool.false_eq_true, if_false]; exact e2
          | true =>
            simp only [if_true]
            have e3 := call_X fs0 plan m2 (.chmodPart p) hp e2
            cases h3 : call plan m2 (.chmodPart p) with
            | mk r3 m3 =>
              rw [h3] at e3
              cases r3 with
              | some e =>
                dsimp only
                exact rmPart_X fs0 cfg plan _ hp (callClose_X fs0 plan m3 hp e3)
              | none => exact e3

theorem setup_X (fs0 : FS) (cfg : Cfg) (plan : Plan) (m : M) (hp : NoEnv plan) (h : X fs0 m) :
    X fs0 (setup cfg plan m).2 := by
  unfold setup
  split
  · exact h
  · have key : ∀ (r1 : Option Errno) (m1 : M), X fs0 m1 →
        X fs0 (match r1 with
          | some e => (some e, m1)
          | none =>
            match cfg.perms with
            | some p => openPartFile cfg plan m1 p true
            | none =>
              match callStat plan m1 with
              | (.error e, m2) => (some e, m2)
              | (.ok (some mode), m2) => openPartFile cfg plan m2 mode true
              | (.ok none, m2) => openPartFile cfg plan m2 RW_PERMS false).2 := by
      intro r1 m1 h1
      cases r1 with
      | some e => exact h1
      | none =>
        dsimp only
        cases cfg.perms with
        | some p => exact openPartFile_X fs0 cfg plan _ _ _ hp h1
        | none =>
          dsimp only
          have e2 := callStat_X fs0 plan m1 hp h1
          cases h2 : callStat plan m1 with
          | mk rs m2 =>
            rw [h2] at e2
            cases rs with
            | error e => exact e2
            | ok v =>
              cases v with
              | some md => exact openPartFile_X fs0 cfg plan _ _ _ hp e2
              | none => exact openPartFile_X fs0 cfg plan _ _ _ hp e2
    have hx : X fs0 ((if cfg.overwritePart && m.fs.dir.part.isSome then call plan m .unlinkPart else (none, m)) : Option Errno × M).2 := by
      split
      · exact call_X fs0 plan m .unlinkPart hp h
      · exact h
    generalize (if cfg.overwritePart && m.fs.dir.part.isSome then call plan m .unlinkPart else (none, m) : Option Errno × M) = x at hx
    obtain ⟨r1, m1⟩ := x
    exact key r1 m1 hx

theorem runWrites_X (fs0 : FS) (plan : Plan) (hp : NoEnv plan) : ∀ (ws : List (Bytes × Nat)) (m : M),
    X fs0 m → X fs0 (runWrites plan m ws).2
  | [], m, h => h
  | w :: ws, m, h => by
    simp only [runWrites]
    have e1 := call_X fs0 plan m (.write w.1 w.2) hp h
    cases h1 : call plan m (.write w.1 w.2) with
    | mk r1 m1 =>
      rw [h1] at e1
      cases r1 with
      | some e => exact e1
      | none => exact runWrites_X fs0 plan hp ws m1 e1

theorem syncClose_X (fs0 : FS) (plan : Plan) (m : M) (hp : NoEnv plan) (h : X fs0 m) : X fs0 (syncClose plan m).2 := by
  unfold syncClose
  dsimp only
  apply callClose_X fs0 plan _ hp
  have e1 := call_X fs0 plan m .flush hp h
  cases h1 : (call plan m .flush).1 with
  | some e => exact e1
  | none => exact call_X fs0 plan _ _ hp e1

theorem publish_X (fs0 : FS) (cfg : Cfg) (plan : Plan) (m : M) (hp : NoEnv plan) (h : X fs0 m) : X fs0 (publish cfg plan m).2 := by
  unfold publish
  split
  · have e1 := call_X fs0 plan m .renamePartDest hp h
    cases h1 : call plan m .renamePartDest with
    | mk r1 m1 =>
      rw [h1] at e1
      cases r1 with
      | some e => exact rmPart_X fs0 cfg plan _ hp e1
      | none => exact e1
  · have e1 := call_X fs0 plan m .linkPartDest hp h
    cases h1 : call plan m .linkPartDest with
    | mk r1 m1 =>
      rw [h1] at e1
      cases r1 with
      | some e => exact rmPart_X fs0 cfg plan _ hp e1
      | none =>
        dsimp only
        have e2 := call_X fs0 plan m1 .unlinkPart hp e1
        cases h2 : call plan m1 .unlinkPart with
        | mk r2 m2 =>
          rw [h2] at e2
          cases r2 with
          | some e => exact rmPart_X fs0 cfg plan _ hp e2
          | none => exact e2

theorem finish_X (fs0 : FS) (cfg : Cfg) (plan : Plan) (m : M) (b : Option Outcome) (hp : NoEnv plan) (h : X fs0 m) :
    X fs0 (finish cfg plan m b).2 := by
  unfold finish
  have e1 := syncClose_X fs0 plan m hp h
  cases h1 : syncClose plan m with
  | mk r1 m1 =>
    rw [h1] at e1
    cases r1 with
    | some e => exact rmPart_X fs0 cfg plan _ hp e1
    | none =>
      dsimp only
      cases b with
      | some x => exact rmPart_X fs0 cfg plan _ hp e1
      | none => exact publish_X fs0 cfg plan _ hp e1

theorem runSave_X (cfg : Cfg) (body : Body) (plan : Plan) (fs0 : FS) (e : Nat) (hp : NoEnv plan) :
    exec fs0 (runSave cfg body plan fs0 e).2.tr = some (runSave cfg body plan fs0 e).2.fs := by
  unfold runSave
  have e1 := setup_X fs0 cfg plan (M.start fs0 e) hp (by simp [X, M.start, exec])
  cases h1 : setup cfg plan (M.start fs0 e) with
  | mk r1 m1 =>
    rw [h1] at e1
    cases r1 with
    | some x => exact e1
    | none => exact finish_X fs0 cfg plan _ _ hp (runWrites_X fs0 plan hp _ _ e1)

/-! ### small facts used by the property theorems -/

theorem res_pub {cfg fs0 e rs ct plan o m s W} (r : Res cfg fs0 e rs ct plan o m s W) :
    s.published = m.published := by
  have := (published_run m.tr St.init s r.j.run).1
  have hinit : St.init.published = false := by decide
  rw [hinit, Bool.false_or] at this
  exact this

theorem old_inode {fs0 : FS} {m : M} {s : St} {W : Bytes} (h : J fs0 m s W) (i : Nat)
    (hi : i < fs0.inodes.length) : m.fs.inodes[i]? = fs0.inodes[i]? := by
  obtain ⟨ph, op, db, us⟩ := s
  have hinv := h.inv
  cases ph
  · simp only [GInv] at hinv; rw [hinv.1]
  all_goals
    obtain ⟨x, hx, _⟩ := ginv_shape _ _ _ m.fs W hinv (by simp)
    rw [hx, List.getElem?_append_left hi]

theorem call_open_blocked (plan : Plan) (m : M) (p : Nat) (i : Nat) (h : m.fs.dir.part = some i) :
    (call plan m (.openPart true true p)).1 ≠ none ∧ (call plan m (.openPart true true p)).2.tr = m.tr ∧
    (plan m.n = .pass → (call plan m (.openPart true true p)).1 = some EEXIST) := by
  unfold call
  cases hp : plan m.n with
  | fail x => simp
  | pass => simp [exe, FS.step, FS.openPart, h]
  | appear =>
    have : (m.env .appear).fs.dir.part = some i := by
      unfold M.env; split <;> simp [FS.setDir, h]
    have ht : (m.env .appear).tr = m.tr := (env_fields m .appear).2.1
    simp [exe, FS.step, FS.openPart, this, ht]

theorem openPartFile_blocked (cfg : Cfg) (plan : Plan) (m : M) (p : Nat) (c : Bool) (i : Nat)
    (h : m.fs.dir.part = some i) :
    (openPartFile cfg plan m p c).1 ≠ none ∧ (openPartFile cfg plan m p c).2.tr = m.tr ∧
    (plan m.n = .pass → (openPartFile cfg plan m p c).1 = some EEXIST) := by
  obtain ⟨a, b, c'⟩ := call_open_blocked plan m p i h
  unfold openPartFile
  cases hc : call plan m (.openPart true true p) with
  | mk r1 m1 =>
    rw [hc] at a b c'
    cases r1 with
    | none => simp at a
    | some x => exact ⟨by simp, b, c'⟩

end C05
