import BoltonsVerif.Common
import BoltonsVerif.C05.Model
/-
C05 line protocol.  One line = one whole case (initial state, configuration, body, plan):

  <flags> <perms> <umask> <dest> <part> <raises> <writes> <plan>
    flags   four digits 0/1: overwrite, overwrite_part, rm_part_on_exc, text_mode
    perms   `-` or decimal permission bits
    umask   decimal
    dest    `-` (absent) or `<mode>:<hex content>` (`<mode>:-` = empty file)
    part    idem
    raises  0/1: the with-block ends by raising
    writes  `-` or the `,`-separated calls of the with-block on the file object: a hex string = one
            write call, `F` = flush(), `C` = close()
    plan    `-` or `,`-separated `<call index>:<errno>` (that call fails; numbers from 1000 on name
            exception classes that are not errno-carrying OSErrors) / `<call index>:A`
            (the destination appears just before that call)

Output: `<first save> | <retry>` where the retry is the same save run again on the resulting
file system with no fault and a body that only writes and does not raise; each half is
  out=<ok|body|os:<errno>> calls=<n> dest=<-|mode:hex> part=<-|mode:hex>
-/
namespace C05.Driver
open BV C04 C05

def bytesOfHex? (s : String) : Option Bytes :=
  if s = "-" then some [] else (hexToBytes? s).map (·.map UInt8.toNat)

def hexOfBytes (b : Bytes) : String :=
  if b.isEmpty then "-" else bytesToHex (b.map UInt8.ofNat)

def parseFile? (s : String) : Option (Option Inode) :=
  if s = "-" then some none else
  match splitOnChar s ':' with
  | [m, c] => match m.toNat?, bytesOfHex? c with
    | some m, some c => some (some ⟨c, [], m⟩)
    | _, _ => none
  | _ => none

def parseOp? (w : String) : Option Op :=
  if w = "F" then some .flush else if w = "C" then some .close else
  (bytesOfHex? w).map (fun b => Op.write b 0)

def parseWrites? (s : String) : Option (List Op) :=
  if s = "-" then some [] else
  (splitOnChar s ',').foldr (fun w acc =>
    match acc, parseOp? w with
    | some l, some o => some (o :: l)
    | _, _ => none) (some [])

def parsePlan? (s : String) : Option (List (Nat × Act)) :=
  if s = "-" then some [] else
  (splitOnChar s ',').foldr (fun w acc =>
    match acc, splitOnChar w ':' with
    | some l, [i, a] => match i.toNat? with
      | some i => if a = "A" then some ((i, Act.appear) :: l) else
        match a.toNat? with
        | some e => some ((i, Act.fail e) :: l)
        | none => none
      | none => none
    | _, _ => none) (some [])

def planOf (l : List (Nat × Act)) : Plan := fun n =>
  match l.find? (fun p => p.1 = n) with
  | some p => p.2
  | none => .pass

def bit? (c : Char) : Option Bool := if c = '0' then some false else if c = '1' then some true else none

/-- inode table: [dest?] ++ [part?] ++ [the environment's unlinked inode]; returns the latter's index -/
def mkFS (dest part : Option Inode) (umask : Nat) : FS × Nat :=
  match dest, part with
  | none, none => (⟨[envInode], ⟨none, none⟩, [], none, umask⟩, 0)
  | some d, none => (⟨[d, envInode], ⟨some 0, none⟩, [], none, umask⟩, 1)
  | none, some p => (⟨[p, envInode], ⟨none, some 0⟩, [], none, umask⟩, 1)
  | some d, some p => (⟨[d, p, envInode], ⟨some 0, some 1⟩, [], none, umask⟩, 2)

def showFile (fs : FS) (o : Option Nat) : String :=
  match fs.inode? o with
  | none => "-"
  | some i => s!"{i.mode}:{hexOfBytes i.cache}"

def showOut : Outcome → String
  | .ok => "ok"
  | .bodyExc => "body"
  | .osErr e => s!"os:{e}"

def showRes (r : Outcome × M) : String :=
  s!"out={showOut r.1} calls={r.2.n} dest={showFile r.2.fs r.2.fs.dir.dest} part={showFile r.2.fs r.2.fs.dir.part}"

def handle (line : String) : String :=
  match words line with
  | [flags, perms, umask, dest, part, raises, writes, plan] =>
    match flags.toList.map bit?, (if perms = "-" then some none else perms.toNat?.map some),
          umask.toNat?, parseFile? dest, parseFile? part, raises.toList.map bit?,
          parseWrites? writes, parsePlan? plan with
    | [some ow, some owp, some rm, some txt], some perms, some umask, some dest, some part,
      [some raises], some writes, some plan =>
      let cfg : Cfg := ⟨ow, owp, rm, txt, perms⟩
      let (fs0, e) := mkFS dest part umask
      let r := runScript cfg ⟨writes, raises⟩ (planOf plan) fs0 e
      -- the retry writes the same data (it neither flushes nor closes the file itself)
      let r2 := runScript cfg ⟨writes.filter (fun o => o matches Op.write _ _), false⟩ noFaults r.2.fs e
      s!"{showRes r} | {showRes r2}"
    | _, _, _, _, _, _, _, _ => "bad-op"
  | _ => "bad-op"

end C05.Driver
