import BoltonsVerif.Common
import BoltonsVerif.C05.Model
import BoltonsVerif.C05.Accept
import BoltonsVerif.C05.Env
import BoltonsVerif.C05.Classify
/-
C05 line protocol.  One line = one whole case.

1. THE TIE (acceptance): the trace OBSERVED on the real `atomic_save` (first save + immediate retry)

  <flags> <perms> <umask> <dest> <part> <raises> <content> <ok1> <trace1> <ok2> <trace2> <raw1> <raw2>
    flags   four digits 0/1: overwrite, overwrite_part, rm_part_on_exc, text_mode
    perms   `-` or decimal permission bits
    umask   decimal
    dest    `-` (absent) or `<mode>:<hex content>` (`<mode>:-` = empty file)
    part    idem
    raises  0/1: the with-block of the first save ended by raising
    content hex of all bytes the block writes (`-` = none)
    ok1/2   0/1: the caller saw no exception from the first save / the retry
    trace   `-` or `,`-separated observations, one per counted call:
              A            another process creates the destination (just before the next call)
              F<l><i><u>   the call reported an error (three digits 0/1: listed step, injected, unlink of the part file);
                           a failure that was NOT injected may carry `:<event>` = what the call would have been - the
                           abstract file system must refuse that event too (`nat=`)
              X<l>         a file.close() that reported an error but closed
              n            a successful call without effect (probe, fdopen, unrelated path, close of a closed object)
              o<excl><samedir>:<mode>   part file created        c<mode>   chmod / fchmod of the part file
              w<hex>  f  s  x  xf       write, flush, fsync, close of the file object, os.close of the descriptor
              R  L  U                   rename-or-replace part->dest, link part->dest, unlink of the part file
              T  W<hex>  D  ?           truncation of / write to / unlink of the destination, unclassified mutating call

    raw1/2  the recorder's raw facts about the same calls (format below: `parseRaw?`)

  Output: `<first> | <retry>`, each half `acc=<code> exec=<ok|stuck@k> nat=<ok|bad@k> cls=<ok|bad@k> dest=<-|mode:hex> part=<-|mode:hex>`
    code 0 = `C05.Accept` holds; 9@k = the automaton refuses observation k; 1-4 = end condition 1-4 fails
    exec  = `C05.replay` of the trace on the abstract file system (the retry starts from the first save's result)
    nat   = every failure the real file system produced on its own is a failure of the abstract one as well
    cls   = `C05.classify` of the raw records is exactly the trace sent (the Lean classification of the recorded facts)

2. THE REFERENCE TRANSLITERATION (statistics only, never an alarm): `REF ` followed by

  <flags> <perms> <umask> <dest> <part> <raises> <writes> <plan>
    writes  `-` or the `,`-separated calls of the with-block on the file object: a hex string = one
            write call, `F` = flush(), `C` = close()
    plan    `-` or `,`-separated `<call index>:<errno>` (that call fails; numbers from 1000 on name
            exception classes that are not errno-carrying OSErrors) / `<call index>:A`
            (the destination appears just before that call)

  Output: `<first save> | <retry>` of `runScript`, each half
  out=<ok|body|os:<errno>> calls=<n> dest=<-|mode:hex> part=<-|mode:hex> obs=<what a recorder of its calls observes, in the tokens of protocol 1>
-/
namespace C05.Driver
open BV C04 C05

def bytesOfHex? (s : String) : Option Bytes :=
  if s = "-" then some [] else (hexToBytes? s).map (·.map UInt8.toNat)

def hexOfBytes (b : Bytes) : String :=
  if b.isEmpty then "-" else bytesToHex (b.map UInt8.ofNat)

def parseFile? (s : String) : Option (Option Inode) :=
  if s = "-" then some none else
  match splitOnChar s ':' with
  | [m, c] => match m.toNat?, bytesOfHex? c with
    | some m, some c => some (some ⟨c, [], m⟩)
    | _, _ => none
  | _ => none

def parseOp? (w : String) : Option Op :=
  if w = "F" then some .flush else if w = "C" then some .close else
  (bytesOfHex? w).map (fun b => Op.write b 0)

def parseWrites? (s : String) : Option (List Op) :=
  if s = "-" then some [] else
  (splitOnChar s ',').foldr (fun w acc =>
    match acc, parseOp? w with
    | some l, some o => some (o :: l)
    | _, _ => none) (some [])

def parsePlan? (s : String) : Option (List (Nat × Act)) :=
  if s = "-" then some [] else
  (splitOnChar s ',').foldr (fun w acc =>
    match acc, splitOnChar w ':' with
    | some l, [i, a] => match i.toNat? with
      | some i => if a = "A" then some ((i, Act.appear) :: l) else
        match a.toNat? with
        | some e => some ((i, Act.fail e) :: l)
        | none => none
      | none => none
    | _, _ => none) (some [])

def planOf (l : List (Nat × Act)) : Plan := fun n =>
  match l.find? (fun p => p.1 = n) with
  | some p => p.2
  | none => .pass

def bit? (c : Char) : Option Bool := if c = '0' then some false else if c = '1' then some true else none

/-- inode table: [dest?] ++ [part?] ++ [the environment's unlinked inode]; returns the latter's index -/
def mkFS (dest part : Option Inode) (umask : Nat) : FS × Nat :=
  match dest, part with
  | none, none => (⟨[envInode], ⟨none, none⟩, [], none, umask⟩, 0)
  | some d, none => (⟨[d, envInode], ⟨some 0, none⟩, [], none, umask⟩, 1)
  | none, some p => (⟨[p, envInode], ⟨none, some 0⟩, [], none, umask⟩, 1)
  | some d, some p => (⟨[d, p, envInode], ⟨some 0, some 1⟩, [], none, umask⟩, 2)

def showFile (fs : FS) (o : Option Nat) : String :=
  match fs.inode? o with
  | none => "-"
  | some i => s!"{i.mode}:{hexOfBytes i.cache}"

def showOut : Outcome → String
  | .ok => "ok"
  | .bodyExc => "body"
  | .osErr e => s!"os:{e}"

def showEv : Ev → String
  | .noop => "n"
  | .openPart ex sd md => s!"o{if ex then 1 else 0}{if sd then 1 else 0}:{md}"
  | .chmodPart md => s!"c{md}"
  | .write d _ => "w" ++ (if d.isEmpty then "" else hexOfBytes d)
  | .flush => "f"
  | .fsync => "s"
  | .close => "x"
  | .closeFd => "xf"
  | .renamePartDest => "R"
  | .linkPartDest => "L"
  | .unlinkPart => "U"
  | .truncDest => "T"
  | .writeDest d => "W" ++ (if d.isEmpty then "" else hexOfBytes d)
  | .unlinkDest => "D"
  | .unknown => "?"

def b01 (b : Bool) : String := if b then "1" else "0"

def showObs : Obs → String
  | .ok ev => showEv ev
  | .fail l i u => s!"F{b01 l}{b01 i}{b01 u}"
  | .failClosed l => s!"X{b01 l}"
  | .appear => "A"

/-- what a recorder of the transliteration's calls observes (same tokens as the observed-trace protocol) -/
def showObsList (t : List Obs) : String :=
  if t.isEmpty then "-" else ",".intercalate (t.map showObs)

def showRes (r : Outcome × M) : String :=
  s!"out={showOut r.1} calls={r.2.n} dest={showFile r.2.fs r.2.fs.dir.dest} part={showFile r.2.fs r.2.fs.dir.part} obs={showObsList r.2.obs}"

def handleRef (ws : List String) : String :=
  match ws with
  | [flags, perms, umask, dest, part, raises, writes, plan] =>
    match flags.toList.map bit?, (if perms = "-" then some none else perms.toNat?.map some),
          umask.toNat?, parseFile? dest, parseFile? part, raises.toList.map bit?,
          parseWrites? writes, parsePlan? plan with
    | [some ow, some owp, some rm, some txt], some perms, some umask, some dest, some part,
      [some raises], some writes, some plan =>
      let cfg : Cfg := ⟨ow, owp, rm, txt, perms⟩
      let (fs0, e) := mkFS dest part umask
      let r := runScript cfg ⟨writes, raises⟩ (planOf plan) fs0 e
      -- the retry writes the same data (it neither flushes nor closes the file itself)
      let r2 := runScript cfg ⟨writes.filter (fun o => o matches Op.write _ _), false⟩ noFaults r.2.fs e
      s!"{showRes r} | {showRes r2}"
    | _, _, _, _, _, _, _, _ => "bad-op"
  | _ => "bad-op"

/-! ### the acceptance tie -/

def parseObs? (w : String) : Option Obs :=
  match w.toList with
  | ['A'] => some .appear
  | ['F', l, i, u] => match bit? l, bit? i, bit? u with
    | some l, some i, some u => some (.fail l i u)
    | _, _, _ => none
  | ['X', l] => (bit? l).map Obs.failClosed
  | ['n'] => some (.ok .noop)
  | ['f'] => some (.ok .flush)
  | ['s'] => some (.ok .fsync)
  | ['x'] => some (.ok .close)
  | ['x', 'f'] => some (.ok .closeFd)
  | ['R'] => some (.ok .renamePartDest)
  | ['L'] => some (.ok .linkPartDest)
  | ['U'] => some (.ok .unlinkPart)
  | ['T'] => some (.ok .truncDest)
  | ['D'] => some (.ok .unlinkDest)
  | ['?'] => some (.ok .unknown)
  | 'o' :: ex :: sd :: ':' :: md => match bit? ex, bit? sd, (String.ofList md).toNat? with
    | some ex, some sd, some md => some (.ok (.openPart ex sd md))
    | _, _, _ => none
  | 'c' :: md => (String.ofList md).toNat?.map (fun md => Obs.ok (.chmodPart md))
  | 'w' :: hx => (bytesOfHex? (if hx.isEmpty then "-" else String.ofList hx)).map (fun b => Obs.ok (.write b 0))
  | 'W' :: hx => (bytesOfHex? (if hx.isEmpty then "-" else String.ofList hx)).map (fun b => Obs.ok (.writeDest b))
  | _ => none

/-- an observation, and for a failure that was not injected the event the call would have been -/
def parseObsX? (w : String) : Option (Obs × Option Ev) :=
  match splitOnChar w ':' with
  | [f, e] =>
    if f.startsWith "F" then
      match parseObs? f, parseObs? e with
      | some o, some (.ok ev) => some (o, some ev)
      | _, _ => none
    else (parseObs? w).map (fun o => (o, none))
  | [f, e1, e2] =>      -- the event token itself contains a colon (o11:420)
    if f.startsWith "F" then
      match parseObs? f, parseObs? (e1 ++ ":" ++ e2) with
      | some o, some (.ok ev) => some (o, some ev)
      | _, _ => none
    else none
  | _ => (parseObs? w).map (fun o => (o, none))

def parseTrace? (s : String) : Option (List (Obs × Option Ev)) :=
  if s = "-" then some [] else
  (splitOnChar s ',').foldr (fun w acc =>
    match acc, parseObsX? w with
    | some l, some o => some (o :: l)
    | _, _ => none) (some [])

/-- index of the first natural failure that the abstract file system would have let through -/
def natCheck : M → List (Obs × Option Ev) → Nat → Option Nat
  | _, [], _ => none
  | m, (o, x) :: t, k =>
    let bad := match x with
      | some ev => (match m.fs.step ev with | .ok _ => true | .error _ => false)
      | none => false
    if bad then some k else
    match replayStep m o with
    | some m' => natCheck m' t (k + 1)
    | none => none

def showAcc (cfg : Cfg) (raises ok : Bool) (content : Bytes) (fs : FS) (t : List Obs) : String :=
  match acceptCode cfg raises ok content fs.umask fs.destMode t with
  | 9 => match stuckAt cfg raises A.init t 0 with
    | some k => s!"9@{k}"
    | none => "9"
  | c => toString c

/-! ### the raw records of the recorder: `<call>;<roles>;<bits>;<mode>;<data>` joined by `,` (`-` = none)
    roles  one letter per path argument (or for the descriptor / file object): d = destination, p = part file, o = other
    bits   twelve digits 0/1: ok, injected, open-for-writing, O_CREAT, O_EXCL, O_TRUNC, name did not exist before, same
           directory as the destination, builtin open on a descriptor, close() of a closed object, failing close() that
           closed, the other process created the destination just before the call
    The driver classifies them itself (`C05.classify`) and reports `cls=ok` when that equals the trace sent. -/

def parseRole? (c : Char) : Option Role :=
  if c = 'd' then some .dest else if c = 'p' then some .part else if c = 'o' then some .other else none

def parseRaw? (w : String) : Option Raw :=
  match splitOnChar w ';' with
  | [call, roles, bits, mode, data] =>
    match roles.toList.map parseRole?, bits.toList.map bit?, mode.toNat?, bytesOfHex? data with
    | rs, [some ok, some inj, some wr, some creat, some excl, some trunc, some created, some samedir, some onFd,
           some wasClosed, some performed, some appeared], some mode, some data =>
      if rs.all Option.isSome then
        some ⟨kindOf call, rs.filterMap id, ok, inj, wr, creat, excl, trunc, created, samedir, onFd, wasClosed, performed,
              appeared, mode, data⟩
      else none
    | _, _, _, _ => none
  | _ => none

def parseRaws? (s : String) : Option (List Raw) :=
  if s = "-" then some [] else
  (splitOnChar s ',').foldr (fun w acc =>
    match acc, parseRaw? w with
    | some l, some o => some (o :: l)
    | _, _ => none) (some [])

/-- one half of the answer, and the file system the next save starts from -/
def showHalf (cfg : Cfg) (raises ok : Bool) (content : Bytes) (fs : FS) (e : Nat) (tx : List (Obs × Option Ev))
    (raws : Option (List Raw) := none) : String × Option FS :=
  let t := tx.map (·.1)
  let acc := showAcc cfg raises ok content fs t
  let nat := match natCheck (M.start fs e) tx 0 with
    | some k => s!"bad@{k}"
    | none => "ok"
  let cls := match raws with
    | none => ""
    | some rs => match firstDiff (rs.flatMap classify) tx 0 with
      | none => " cls=ok"
      | some k => s!" cls=bad@{k}"
  match replay (M.start fs e) t with
  | some m => (s!"acc={acc} exec=ok nat={nat}{cls} dest={showFile m.fs m.fs.dir.dest} part={showFile m.fs m.fs.dir.part}", some m.fs)
  | none =>
    let k := (replayStuck (M.start fs e) t 0).getD 0
    (s!"acc={acc} exec=stuck@{k} nat={nat}{cls} dest=? part=?", none)

def handleAcc (ws : List String) : String :=
  match ws with
  | [flags, perms, umask, dest, part, raises, content, ok1, t1, ok2, t2, r1, r2] =>
    match flags.toList.map bit?, (if perms = "-" then some none else perms.toNat?.map some),
          umask.toNat?, parseFile? dest, parseFile? part, raises.toList.map bit?,
          bytesOfHex? content, ok1.toList.map bit?, parseTrace? t1, ok2.toList.map bit?, parseTrace? t2,
          parseRaws? r1, parseRaws? r2 with
    | [some ow, some owp, some rm, some txt], some perms, some umask, some dest, some part,
      [some raises], some content, [some ok1], some t1, [some ok2], some t2, some r1, some r2 =>
      let cfg : Cfg := ⟨ow, owp, rm, txt, perms⟩
      let (fs0, e) := mkFS dest part umask
      let (h1, fs1) := showHalf cfg raises ok1 content fs0 e t1 (some r1)
      match fs1 with
      | some fs1 => s!"{h1} | {(showHalf cfg false ok2 content fs1 e t2 (some r2)).1}"
      | none => s!"{h1} | -"
    | _, _, _, _, _, _, _, _, _, _, _, _, _ => "bad-op"
  | _ => "bad-op"

/-! ### histories: several saves on the same directory, the world changing in between

  HIST <umask> <dest> <part> <step> ...
    step   S/<flags>/<perms>/<raises>/<content>/<ok>/<trace>/<raw records>   one save with ITS configuration and observed trace
           E/c<mode>  E/d  E/p<mode>:<hex>  E/u<umask>          the destination is chmod-ed / deleted / replaced by another
                                                                writer's file, the process umask changes (`C05.EnvStep`)
           E/P<mode>:<hex>  E/Q                                 a part file appears under the part name / is removed
  Output: one half per step joined by ` | `: a save as in protocol 1 (judged by `C05.Accept` with the umask and the
  destination's permission bits of the state THAT save starts from), an environment step as `env dest=… part=…`. -/

def parseEnvStep? (w : String) : Option EnvStep :=
  match w.toList with
  | ['d'] => some .unlinkDest
  | 'c' :: md => (String.ofList md).toNat?.map EnvStep.chmodDest
  | 'u' :: um => (String.ofList um).toNat?.map EnvStep.setUmask
  | 'p' :: rest => match splitOnChar (String.ofList rest) ':' with
    | [md, hx] => match md.toNat?, bytesOfHex? hx with
      | some md, some b => some (.putDest md b)
      | _, _ => none
    | _ => none
  | ['Q'] => some .unlinkPart
  | 'P' :: rest => match splitOnChar (String.ofList rest) ':' with
    | [md, hx] => match md.toNat?, bytesOfHex? hx with
      | some md, some b => some (.putPart md b)
      | _, _ => none
    | _ => none
  | _ => none

def histLoop (e : Nat) : FS → List String → List String → String
  | _, [], acc => " | ".intercalate acc.reverse
  | fs, w :: ws, acc =>
    match splitOnChar w '/' with
    | ["E", x] => match parseEnvStep? x with
      | some st =>
        let fs' := st.apply fs
        histLoop e fs' ws (s!"env dest={showFile fs' fs'.dir.dest} part={showFile fs' fs'.dir.part}" :: acc)
      | none => "bad-op"
    | ["S", flags, perms, raises, content, ok, t, rw] =>
      match flags.toList.map bit?, (if perms = "-" then some none else perms.toNat?.map some), raises.toList.map bit?,
            bytesOfHex? content, ok.toList.map bit?, parseTrace? t, parseRaws? rw with
      | [some ow, some owp, some rm, some txt], some perms, [some raises], some content, [some ok], some t, some rw =>
        let cfg : Cfg := ⟨ow, owp, rm, txt, perms⟩
        match showHalf cfg raises ok content fs e t (some rw) with
        | (h, some fs') => histLoop e fs' ws (h :: acc)
        | (h, none) => " | ".intercalate (h :: acc).reverse
      | _, _, _, _, _, _, _ => "bad-op"
    | _ => "bad-op"

def handleHist (ws : List String) : String :=
  match ws with
  | umask :: dest :: part :: steps =>
    match umask.toNat?, parseFile? dest, parseFile? part with
    | some umask, some dest, some part =>
      let (fs0, e) := mkFS dest part umask
      histLoop e fs0 steps []
    | _, _, _ => "bad-op"
  | _ => "bad-op"

def handle (line : String) : String :=
  match words line with
  | "REF" :: ws => handleRef ws
  | "HIST" :: ws => handleHist ws
  | ws => handleAcc ws

end C05.Driver
