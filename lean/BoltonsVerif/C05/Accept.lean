import BoltonsVerif.C05.Model
import BoltonsVerif.C04.Proofs
/-
C05 — the ACCEPTANCE tie.  Instead of demanding that the real `AtomicSaver` performs exactly the call
sequence of the transliteration (`runScript`), the check records what the real code does under a
fault plan as a trace of *abstract observations* and asks the decidable predicate `Accept` about it:

  * `ok ev`            a call that went through, classified by its EFFECT on the two names that matter
                       (`C04.Ev`: exclusive creation of the part file, chmod of the part file - by path
                       or by descriptor -, write / flush / fsync / close, rename-or-replace of the part
                       file onto the destination, link, unlink of the part file ...).  Probes (stat,
                       lstat, lexists) and `os.fdopen` have no effect (`Ev.noop`) - their number and
                       position are irrelevant;
  * `fail l i u`       a call that reported an error (no effect): `l` = it is one of the steps the
                       property lists (creating or chmod-ing the part file, write, flush, fsync, close,
                       link / rename), `i` = the failure was injected by the plan, `u` = it was an
                       unlink of the part file;
  * `failClosed l`     a `file.close()` that reported an error but closed the descriptor all the same;
  * `appear`           another process creates the destination (no-op when it exists).

`Accept` = an automaton over such traces (C04's `St` on the successful events + three flags) plus
end conditions.  `replay` executes a trace on the abstract file system (`C05.M`, the same machine the
transliteration runs on).  Props.lean proves: every accepted trace that is executable from ANY initial
state has the C05 guarantees.  Which call sequence the implementation uses to get there is free.

Core Lean only.
-/
namespace C05
open C04

-- (`Obs` itself is defined in Model.lean: the transliteration records what a recorder would observe)

def isPub : Ev → Bool
  | .renamePartDest => true
  | .linkPartDest => true
  | _ => false

/-- the successful events of an observed trace (a failing `close()` that closed is one) -/
def oks : List Obs → List Ev
  | [] => []
  | .ok ev :: t => ev :: oks t
  | .failClosed _ :: t => Ev.close :: oks t
  | _ :: t => oks t

/-- a listed step reported an error before any publication -/
def failedBefore : List Obs → Bool
  | [] => false
  | .ok ev :: t => if isPub ev then false else failedBefore t
  | .fail l _ _ :: t => l || failedBefore t
  | .failClosed l :: t => l || failedBefore t
  | .appear :: t => failedBefore t

/-- the plan made an unlink of the part file fail -/
def unlinkFaulted : List Obs → Bool
  | [] => false
  | .fail _ i u :: t => (i && u) || unlinkFaulted t
  | _ :: t => unlinkFaulted t

/-- another process acted -/
def hasAppear : List Obs → Bool
  | [] => false
  | .appear :: _ => true
  | _ :: t => hasAppear t

/-- state of the acceptance automaton -/
structure A where
  s : St                 -- C04's automaton on the successful events
  failed : Bool          -- a listed step reported an error while the save was unpublished
  ufail : Bool           -- the plan made an unlink of the part file fail
  env : Bool             -- another process acted
deriving DecidableEq, Repr

def A.init : A := ⟨St.init, false, false, false⟩

/-- what the configuration and the course of the save so far allow a successful call to be:
    * publication only when no listed step has failed and the with-block did not raise;
    * `rename` (which replaces whatever is there) only with `overwrite`;
    * a part file that this save did not create is only removed with `overwrite_part`. -/
def okAllowed (cfg : Cfg) (raises : Bool) (a : A) : Ev → Bool
  | .renamePartDest => !a.failed && !raises && cfg.overwrite
  | .linkPartDest => !a.failed && !raises
  | .unlinkPart => match a.s.phase with
    | .init => cfg.overwritePart
    | _ => true
  | _ => true

def A.step (cfg : Cfg) (raises : Bool) (a : A) : Obs → Option A
  | .ok ev => if okAllowed cfg raises a ev then (a.s.step ev).map (fun s' => { a with s := s' }) else none
  | .fail l i u => some { a with failed := a.failed || (l && !a.s.published), ufail := a.ufail || (i && u) }
  | .failClosed l => (a.s.step .close).map (fun s' => { a with s := s', failed := a.failed || (l && !a.s.published) })
  | .appear => some { a with env := true }

def A.run (cfg : Cfg) (raises : Bool) (a : A) : List Obs → Option A
  | [] => some a
  | o :: t => match a.step cfg raises o with
    | some a' => a'.run cfg raises t
    | none => none

/-- the permission bits a completed save must give the destination: explicit, else those of the
    file it replaces (`dm0`), else `0o666 & ~umask` -/
def expectedMode (cfg : Cfg) (dm0 : Option Nat) (um : Nat) : Nat :=
  match cfg.perms with
  | some p => p
  | none => match dm0 with
    | some md => md
    | none => umaskOf um RW_PERMS

/-- end conditions: `ok` = the caller saw no exception; `content` = the bytes the with-block wrote;
    `um`, `dm0` = umask and the destination's permission bits at the start.
    1. no exception only for a completed save (published, part name gone, nothing failed, block did not raise);
    2. after an exception, with `rm_part_on_exc` and no cleanup unlink made to fail, no part file of
       this save is left under its name;
    3. a published destination holds exactly the block's bytes;
    4. ... with the required permission bits (when no other process interfered). -/
def accEnd (cfg : Cfg) (raises ok : Bool) (content : Bytes) (um : Nat) (dm0 : Option Nat) (t : List Obs) (a : A) : Bool :=
  (!ok || (a.s.phase == .done && !a.failed && !raises)) &&
  (ok || !cfg.rmPartOnExc || a.ufail || a.s.phase == .init || a.s.phase == .aborted || a.s.phase == .done) &&
  (!a.s.published || allWrites (oks t) == content) &&
  (!a.s.published || a.env || (oks t).foldl (modeAfter um) none == some (expectedMode cfg dm0 um))

/-- which of the conditions fails first (for the driver's report): 0 = accepted, 9 = the automaton is stuck -/
def acceptCode (cfg : Cfg) (raises ok : Bool) (content : Bytes) (um : Nat) (dm0 : Option Nat) (t : List Obs) : Nat :=
  match A.init.run cfg raises t with
  | none => 9
  | some a =>
    if !(!ok || (a.s.phase == .done && !a.failed && !raises)) then 1
    else if !(ok || !cfg.rmPartOnExc || a.ufail || a.s.phase == .init || a.s.phase == .aborted || a.s.phase == .done) then 2
    else if !(!a.s.published || allWrites (oks t) == content) then 3
    else if !(!a.s.published || a.env || (oks t).foldl (modeAfter um) none == some (expectedMode cfg dm0 um)) then 4
    else 0

def Accept (cfg : Cfg) (raises ok : Bool) (content : Bytes) (um : Nat) (dm0 : Option Nat) (t : List Obs) : Bool :=
  match A.init.run cfg raises t with
  | some a => accEnd cfg raises ok content um dm0 t a
  | none => false

/-- index of the first observation the automaton refuses -/
def stuckAt (cfg : Cfg) (raises : Bool) : A → List Obs → Nat → Option Nat
  | _, [], _ => none
  | a, o :: t, k => match a.step cfg raises o with
    | some a' => stuckAt cfg raises a' t (k + 1)
    | none => some k

/-! ### executing an observed trace on the abstract file system -/

def replayStep (m : M) : Obs → Option M
  | .ok ev => match exe m ev with
    | (none, m') => some m'
    | (some _, _) => none
  | .fail _ i u => some { m with n := m.n + 1, errs := m.errs + 1, cleanupFaulted := m.cleanupFaulted || (i && u) }
  | .failClosed _ => match exe m .close with
    | (none, m') => some { m' with errs := m'.errs + 1 }
    | (some _, _) => none
  | .appear => some (m.env .appear)

def replay (m : M) : List Obs → Option M
  | [] => some m
  | o :: t => match replayStep m o with
    | some m' => replay m' t
    | none => none

/-- index of the first observation that cannot have happened on the abstract file system -/
def replayStuck : M → List Obs → Nat → Option Nat
  | _, [], _ => none
  | m, o :: t, k => match replayStep m o with
    | some m' => replayStuck m' t (k + 1)
    | none => some k

end C05
