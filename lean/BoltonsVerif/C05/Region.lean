import BoltonsVerif.C05.Frame
import BoltonsVerif.C05.AcceptProofs
/-
C05 — no listed step fails before a publication of the transliteration.  For every plan without
interference: if what `runScript` records of its own calls contains a publication, then no listed step
(creating / chmod-ing the part file, write, flush, fsync, close, link / rename) reported an error BEFORE
it (`failedBefore = false`) - the publication is only attempted when everything before it went through.
This is what closes the region formerly excluded from `transliteration_runs_are_accepted` (overwrite=False:
the `link` succeeded, the `unlink` of the part file after it failed - an exception although published).

The walk through `setup` / the block / `__exit__` / `atomic_rename` is done once with a result-dependent
invariant: `CU b m` = nothing is published yet, and if `b` (no call has reported an error so far) no
listed failure is recorded.
-/
namespace C05
open C04

theorem oks_app (a b : List Obs) : oks (a ++ b) = oks a ++ oks b := by
  induction a with
  | nil => rfl
  | cons o t ih => rw [List.cons_append, oks_cons, oks_cons o t, ih, List.append_assoc]

theorem publishes_app (a b : List Ev) : publishes (a ++ b) = (publishes a || publishes b) := by
  induction a with
  | nil => simp [publishes]
  | cons e t ih => rw [List.cons_append, publishes_cons, publishes_cons e t, ih, Bool.or_assoc]

theorem failedBefore_app (a b : List Obs) :
    failedBefore (a ++ b) = (failedBefore a || (!publishes (oks a) && failedBefore b)) := by
  induction a with
  | nil => simp [failedBefore, oks, publishes]
  | cons o t ih =>
    cases o with
    | ok ev =>
      simp only [List.cons_append, failedBefore, oks]
      rw [publishes_cons, publishes_single]
      cases isPub ev <;> simp [ih]
    | fail l i u => simp only [List.cons_append, failedBefore, oks, ih, Bool.or_assoc]
    | failClosed l =>
      simp only [List.cons_append, failedBefore, oks, ih, Bool.or_assoc]
      rw [publishes_cons]; simp [publishes]
    | appear => simp only [List.cons_append, failedBefore, oks, ih]

/-- the observation is not a listed failure -/
def quiet : Obs → Bool
  | .fail l _ _ => !l
  | .failClosed l => !l
  | _ => true

/-- the observation is not a publication -/
def nonPub : Obs → Bool
  | .ok ev => !isPub ev
  | _ => true

theorem pub_single (o : Obs) : publishes (oks [o]) = !nonPub o := by
  cases o with
  | ok ev => simp [oks, publishes_single, nonPub]
  | fail l i u => simp [oks, publishes, nonPub]
  | failClosed l => simp [oks, publishes, nonPub]
  | appear => simp [oks, publishes, nonPub]

theorem fb_single (o : Obs) : failedBefore [o] = !quiet o := by
  cases o with
  | ok ev => simp [failedBefore, quiet]
  | fail l i u => simp [failedBefore, quiet]
  | failClosed l => simp [failedBefore, quiet]
  | appear => simp [failedBefore, quiet]

/-- nothing published yet; and if `b` (no call has reported an error so far) no listed failure recorded -/
structure CU (b : Bool) (m : M) : Prop where
  clean : b = true → failedBefore m.obs = false
  unpub : publishes (oks m.obs) = false

theorem CU.weaken {b : Bool} {m : M} (h : CU b m) : CU false m := ⟨fun hb => (by cases hb), h.unpub⟩

theorem CU_snoc {b b' : Bool} {m m' : M} {o : Obs} (h : CU b m) (ho : m'.obs = m.obs ++ [o]) (hn : nonPub o = true)
    (hb : b' = true → b = true ∧ quiet o = true) : CU b' m' := by
  refine ⟨fun hb' => ?_, ?_⟩
  · obtain ⟨h1, h2⟩ := hb hb'
    rw [ho, failedBefore_app, h.clean h1, fb_single, h2]; simp
  · rw [ho, oks_app, publishes_app, h.unpub, pub_single, hn]; rfl

theorem CU_same {b : Bool} {m m' : M} (h : CU b m) (ho : m'.obs = m.obs) : CU b m' :=
  ⟨fun hb => by rw [ho]; exact h.clean hb, by rw [ho]; exact h.unpub⟩

/-- published, and no listed failure before the publication: kept by everything that follows -/
structure PubDone (m : M) : Prop where
  pub : publishes (oks m.obs) = true
  nofail : failedBefore m.obs = false

theorem PubDone_snoc {m m' : M} {o : Obs} (h : PubDone m) (ho : m'.obs = m.obs ++ [o]) : PubDone m' :=
  ⟨by rw [ho, oks_app, publishes_app, h.pub]; rfl, by rw [ho, failedBefore_app, h.nofail, h.pub]; rfl⟩

/-- the goal: a publication in the record means no listed failure before it -/
def PubClean (m : M) : Prop := publishes (oks m.obs) = true → failedBefore m.obs = false

theorem CU.goal {b : Bool} {m : M} (h : CU b m) : PubClean m := fun hp => by rw [h.unpub] at hp; cases hp
theorem PubDone.goal {m : M} (h : PubDone m) : PubClean m := fun _ => h.nofail

variable {plan : Plan}

/-! ### the primitive calls -/

theorem call_obs (hp : NoEnv plan) (m : M) (ev : Ev) :
    ((call plan m ev).1 = none ∧ (call plan m ev).2.obs = m.obs ++ [.ok ev]) ∨
    ((call plan m ev).1 ≠ none ∧ ∃ l i u, (call plan m ev).2.obs = m.obs ++ [.fail l i u]) := by
  unfold call
  cases h : plan m.n with
  | fail e => exact Or.inr ⟨by simp, _, _, _, rfl⟩
  | pass =>
    simp only [exe]
    split
    · exact Or.inr ⟨by simp, _, _, _, rfl⟩
    · exact Or.inl ⟨rfl, rfl⟩
  | appear => exact absurd h (hp m.n)

theorem call_CU (hp : NoEnv plan) (m : M) (ev : Ev) (b : Bool) (hev : isPub ev = false) (h : CU b m) :
    CU (b && (call plan m ev).1.isNone) (call plan m ev).2 := by
  rcases call_obs hp m ev with ⟨h1, h2⟩ | ⟨h1, l, i, u, h2⟩
  · exact CU_snoc h h2 (by simp [nonPub, hev]) (fun hb => by simp [h1] at hb; exact ⟨hb, rfl⟩)
  · refine CU_snoc h h2 rfl (fun hb => ?_)
    cases hc : (call plan m ev).1 with
    | none => exact absurd hc h1
    | some e => simp [hc] at hb

theorem call_PubDone (hp : NoEnv plan) (m : M) (ev : Ev) (h : PubDone m) : PubDone (call plan m ev).2 := by
  rcases call_obs hp m ev with ⟨_, h2⟩ | ⟨_, l, i, u, h2⟩
  · exact PubDone_snoc h h2
  · exact PubDone_snoc h h2

theorem callClose_obs (hp : NoEnv plan) (m : M) :
    ((callClose plan m).1 = none ∧ (callClose plan m).2.obs = m.obs ++ [.ok .close]) ∨
    ((callClose plan m).1 ≠ none ∧ ∃ o, nonPub o = true ∧ (callClose plan m).2.obs = m.obs ++ [o]) := by
  unfold callClose
  cases h : plan m.n with
  | fail e =>
    simp only
    split
    · exact Or.inr ⟨by simp, _, rfl, rfl⟩
    · exact Or.inr ⟨by simp, _, rfl, rfl⟩
  | pass =>
    simp only [exe]
    split
    · exact Or.inr ⟨by simp, _, rfl, rfl⟩
    · exact Or.inl ⟨rfl, rfl⟩
  | appear => exact absurd h (hp m.n)

theorem callClose_CU (hp : NoEnv plan) (m : M) (b : Bool) (h : CU b m) :
    CU (b && (callClose plan m).1.isNone) (callClose plan m).2 := by
  rcases callClose_obs hp m with ⟨h1, h2⟩ | ⟨h1, o, hn, h2⟩
  · exact CU_snoc h h2 (by simp [nonPub, isPub]) (fun hb => by simp [h1] at hb; exact ⟨hb, rfl⟩)
  · refine CU_snoc h h2 hn (fun hb => ?_)
    cases hc : (callClose plan m).1 with
    | none => exact absurd hc h1
    | some e => simp [hc] at hb

theorem callStat_CU (hp : NoEnv plan) (m : M) (b : Bool) (h : CU b m) : CU b (callStat plan m).2 := by
  unfold callStat
  cases hpl : plan m.n with
  | fail e =>
    simp only
    split
    · exact CU_snoc h (o := .fail false true false) rfl rfl (fun hb => ⟨hb, rfl⟩)
    · exact CU_snoc h (o := .fail false true false) rfl rfl (fun hb => ⟨hb, rfl⟩)
  | pass =>
    simp only
    split
    · exact CU_snoc h (o := .ok .noop) rfl rfl (fun hb => ⟨hb, rfl⟩)
    · exact CU_snoc h (o := .fail false false false) rfl rfl (fun hb => ⟨hb, rfl⟩)
  | appear => exact absurd hpl (hp m.n)

theorem fcall_CU (hp : NoEnv plan) (m : M) (ev : Ev) (b : Bool) (hev : isPub ev = false) (h : CU b m) :
    CU (b && (fcall plan m ev).1.isNone) (fcall plan m ev).2 := by
  unfold fcall
  split
  · exact call_CU hp m ev b hev h
  · cases hpl : plan m.n with
    | fail e => simp only; exact CU_snoc h (o := .fail true true false) rfl rfl (fun hb => by simp at hb)
    | pass => simp only; exact CU_snoc h (o := .fail true false false) rfl rfl (fun hb => by simp at hb)
    | appear => exact absurd hpl (hp m.n)

theorem fclose_CU (hp : NoEnv plan) (m : M) (b : Bool) (h : CU b m) :
    CU (b && (fclose plan m).1.isNone) (fclose plan m).2 := by
  unfold fclose
  split
  · exact callClose_CU hp m b h
  · cases hpl : plan m.n with
    | fail e => simp only; exact CU_snoc h (o := .fail true true false) rfl rfl (fun hb => by simp at hb)
    | pass => simp only; exact CU_snoc h (o := .ok .noop) rfl rfl (fun hb => by simp at hb; exact ⟨hb, rfl⟩)
    | appear => exact absurd hpl (hp m.n)

theorem rmPart_CU (hp : NoEnv plan) (cfg : Cfg) (m : M) (b : Bool) (h : CU b m) : CU false (rmPart cfg plan m) := by
  unfold rmPart
  split
  · exact CU_same (call_CU hp m .unlinkPart b rfl h).weaken rfl
  · exact h.weaken

theorem rmPart_PubDone (hp : NoEnv plan) (cfg : Cfg) (m : M) (h : PubDone m) : PubDone (rmPart cfg plan m) := by
  unfold rmPart
  split
  · exact ⟨(call_PubDone hp m .unlinkPart h).pub, (call_PubDone hp m .unlinkPart h).nofail⟩
  · exact h

/-! ### the walk -/

theorem openPartFile_CU (hp : NoEnv plan) (cfg : Cfg) (m : M) (p : Nat) (c : Bool) (b : Bool) (h : CU b m) :
    CU (b && (openPartFile cfg plan m p c).1.isNone) (openPartFile cfg plan m p c).2 := by
  unfold openPartFile
  have e1 := call_CU hp m (.openPart true true p) b rfl h
  cases h1 : call plan m (.openPart true true p) with
  | mk r1 m1 =>
    rw [h1] at e1
    cases r1 with
    | some e => simpa using e1
    | none =>
      simp only [Option.isNone_none, Bool.and_true] at e1
      dsimp only
      have e2 := call_CU hp m1 .noop b rfl e1
      cases h2 : call plan m1 .noop with
      | mk r2 m2 =>
        rw [h2] at e2
        cases r2 with
        | some e =>
          dsimp only
          simpa using rmPart_CU hp cfg _ _ (call_CU hp m2 .closeFd _ rfl e2)
        | none =>
          simp only [Option.isNone_none, Bool.and_true] at e2
          dsimp only
          cases c with
          | false => simpa using e2
          | true =>
            simp only [if_true]
            have e3 := call_CU hp m2 (.chmodPart p) b rfl e2
            cases h3 : call plan m2 (.chmodPart p) with
            | mk r3 m3 =>
              rw [h3] at e3
              cases r3 with
              | some e =>
                dsimp only
                simpa using rmPart_CU hp cfg _ _ (callClose_CU hp m3 _ e3)
              | none => simpa using e3

theorem setup_CU (hp : NoEnv plan) (cfg : Cfg) (m : M) (h : CU true m) :
    CU (setup cfg plan m).1.isNone (setup cfg plan m).2 := by
  unfold setup
  split
  · exact CU_same h.weaken rfl
  · have key : ∀ (r1 : Option Errno) (m1 : M), CU r1.isNone m1 →
        CU (match r1 with
          | some e => ((some e, m1) : Option Errno × M)
          | none =>
            match cfg.perms with
            | some p => openPartFile cfg plan m1 p true
            | none =>
              match callStat plan m1 with
              | (.error e, m2) => (some e, m2)
              | (.ok (some mode), m2) => openPartFile cfg plan m2 mode true
              | (.ok none, m2) => openPartFile cfg plan m2 RW_PERMS false).1.isNone
          (match r1 with
          | some e => ((some e, m1) : Option Errno × M)
          | none =>
            match cfg.perms with
            | some p => openPartFile cfg plan m1 p true
            | none =>
              match callStat plan m1 with
              | (.error e, m2) => (some e, m2)
              | (.ok (some mode), m2) => openPartFile cfg plan m2 mode true
              | (.ok none, m2) => openPartFile cfg plan m2 RW_PERMS false).2 := by
      intro r1 m1 h1
      cases r1 with
      | some e => exact h1
      | none =>
        dsimp only
        cases cfg.perms with
        | some p => simpa using openPartFile_CU hp cfg m1 p true true h1
        | none =>
          dsimp only
          have e2 := callStat_CU hp m1 true h1
          cases h2 : callStat plan m1 with
          | mk rs m2 =>
            rw [h2] at e2
            cases rs with
            | error e => exact e2.weaken
            | ok v =>
              cases v with
              | some md => simpa using openPartFile_CU hp cfg m2 md true true e2
              | none => simpa using openPartFile_CU hp cfg m2 RW_PERMS false true e2
    have hx : CU ((if cfg.overwritePart && m.fs.dir.part.isSome then call plan m .unlinkPart else (none, m)) : Option Errno × M).1.isNone
        ((if cfg.overwritePart && m.fs.dir.part.isSome then call plan m .unlinkPart else (none, m)) : Option Errno × M).2 := by
      split
      · simpa using call_CU hp m .unlinkPart true rfl h
      · exact h
    generalize (if cfg.overwritePart && m.fs.dir.part.isSome then call plan m .unlinkPart else (none, m) : Option Errno × M) = x at hx
    obtain ⟨r1, m1⟩ := x
    exact key r1 m1 hx

theorem runOps_CU (hp : NoEnv plan) : ∀ (ops : List Op) (m : M) (b : Bool), CU b m →
    CU (b && (runOps plan m ops).1.isNone) (runOps plan m ops).2
  | [], m, b, h => by simpa [runOps] using h
  | .write d k :: ops, m, b, h => by
    simp only [runOps]
    have e1 := fcall_CU hp m (.write d k) b rfl h
    cases h1 : fcall plan m (.write d k) with
    | mk r1 m1 =>
      rw [h1] at e1
      cases r1 with
      | some e => simpa using e1
      | none => simpa using runOps_CU hp ops m1 _ e1
  | .flush :: ops, m, b, h => by
    simp only [runOps]
    have e1 := fcall_CU hp m .flush b rfl h
    cases h1 : fcall plan m .flush with
    | mk r1 m1 =>
      rw [h1] at e1
      cases r1 with
      | some e => simpa using e1
      | none => simpa using runOps_CU hp ops m1 _ e1
  | .close :: ops, m, b, h => by
    simp only [runOps]
    have e1 := fclose_CU hp m b h
    cases h1 : fclose plan m with
    | mk r1 m1 =>
      rw [h1] at e1
      cases r1 with
      | some e => simpa using e1
      | none => simpa using runOps_CU hp ops m1 _ e1

theorem syncCloseG_CU (hp : NoEnv plan) (m : M) (b : Bool) (h : CU b m) :
    CU (b && (syncCloseG plan m).1.isNone) (syncCloseG plan m).2 := by
  unfold syncCloseG
  dsimp only
  have e1 := fcall_CU hp m .flush b rfl h
  cases h1 : fcall plan m .flush with
  | mk r1 m1 =>
    rw [h1] at e1
    cases r1 with
    | some e =>
      dsimp only
      have e3 := fclose_CU hp m1 _ e1
      cases h3 : fclose plan m1 with
      | mk r3 m3 =>
        rw [h3] at e3
        cases r3 <;> simpa using e3.weaken
    | none =>
      dsimp only
      have e2 := call_CU hp m1 .fsync _ rfl e1
      cases h2 : call plan m1 .fsync with
      | mk r2 m2 =>
        rw [h2] at e2
        have e3 := fclose_CU hp m2 _ e2
        cases h3 : fclose plan m2 with
        | mk r3 m3 =>
          rw [h3] at e3
          cases r2 <;> cases r3 <;> simpa using e3

theorem publish_goal (hp : NoEnv plan) (cfg : Cfg) (m : M) (h : CU true m) : PubClean (publish cfg plan m).2 := by
  unfold publish
  have first : ∀ ev, isPub ev = true →
      ((call plan m ev).1 = none ∧ PubDone (call plan m ev).2) ∨ ((call plan m ev).1 ≠ none ∧ CU false (call plan m ev).2) := by
    intro ev hev
    rcases call_obs hp m ev with ⟨h1, h2⟩ | ⟨h1, l, i, u, h2⟩
    · refine Or.inl ⟨h1, ?_, ?_⟩
      · rw [h2, oks_app, publishes_app, pub_single]; simp [nonPub, hev]
      · rw [h2, failedBefore_app, h.clean rfl, fb_single]; simp [quiet]
    · exact Or.inr ⟨h1, CU_snoc h h2 rfl (fun hb => by cases hb)⟩
  split
  · rcases first .renamePartDest rfl with ⟨h1, h2⟩ | ⟨h1, h2⟩
    · cases hc : call plan m .renamePartDest with
      | mk r1 m1 =>
        rw [hc] at h1 h2
        simp only at h1; subst h1
        exact h2.goal
    · cases hc : call plan m .renamePartDest with
      | mk r1 m1 =>
        rw [hc] at h1 h2
        cases r1 with
        | none => exact absurd rfl h1
        | some e => exact (rmPart_CU hp cfg _ _ h2).goal
  · rcases first .linkPartDest rfl with ⟨h1, h2⟩ | ⟨h1, h2⟩
    · cases hc : call plan m .linkPartDest with
      | mk r1 m1 =>
        rw [hc] at h1 h2
        simp only at h1; subst h1
        dsimp only
        have e2 := call_PubDone hp m1 .unlinkPart h2
        cases hc2 : call plan m1 .unlinkPart with
        | mk r2 m2 =>
          rw [hc2] at e2
          cases r2 with
          | none => exact e2.goal
          | some e => exact (rmPart_PubDone hp cfg _ e2).goal
    · cases hc : call plan m .linkPartDest with
      | mk r1 m1 =>
        rw [hc] at h1 h2
        cases r1 with
        | none => exact absurd rfl h1
        | some e => exact (rmPart_CU hp cfg _ _ h2).goal

theorem finishG_goal (hp : NoEnv plan) (cfg : Cfg) (m : M) (bx : Option Outcome) (b : Bool) (h : CU b m)
    (hb : bx = none → b = true) : PubClean (finishG cfg plan m bx).2 := by
  unfold finishG
  have e1 := syncCloseG_CU hp m b h
  cases h1 : syncCloseG plan m with
  | mk r1 m1 =>
    rw [h1] at e1
    cases r1 with
    | some e => exact (rmPart_CU hp cfg _ _ e1).goal
    | none =>
      dsimp only
      cases bx with
      | some x => exact (rmPart_CU hp cfg _ _ e1).goal
      | none =>
        have : b = true := hb rfl
        subst this
        exact publish_goal hp cfg m1 (by simpa using e1)

/-- **No listed step fails before a publication**: in what `runScript` records of its own calls (no interference) -/
theorem runScript_pubClean (cfg : Cfg) (sc : Script) (plan : Plan) (fs0 : FS) (e : Nat) (hp : NoEnv plan) :
    publishes (oks (runScript cfg sc plan fs0 e).2.obs) = true → failedBefore (runScript cfg sc plan fs0 e).2.obs = false := by
  unfold runScript
  have e1 := setup_CU hp cfg (M.start fs0 e) ⟨fun _ => rfl, rfl⟩
  cases h1 : setup cfg plan (M.start fs0 e) with
  | mk r1 m1 =>
    rw [h1] at e1
    cases r1 with
    | some x => exact e1.goal
    | none =>
      dsimp only
      have e2 := runOps_CU hp sc.ops m1 true (by simpa using e1)
      cases h2 : runOps plan m1 sc.ops with
      | mk rw m2 =>
        rw [h2] at e2
        dsimp only
        refine finishG_goal hp cfg m2 (scriptOutcome sc rw) _ e2 (fun hn => ?_)
        unfold scriptOutcome at hn
        cases rw with
        | some x => simp at hn
        | none => rfl

end C05
