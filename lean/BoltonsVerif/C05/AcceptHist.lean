import BoltonsVerif.C05.AcceptProofs
/-
C05 — histories of saves.  The state an accepted, executable trace leaves behind is again a legitimate
starting state (`Start`), so the `accepted_*` theorems apply to the next save on the same directory -
the retry, a second use of the same `AtomicSaver` object, another saver - and so on for any number of saves.
-/
namespace C05
open C04

/-- the file system reached by an accepted replay is well-formed, the environment's inode is still
    allocated and (if the other process did not act) still unlinked -/
theorem RJ_start_next (cfg : Cfg) (raises : Bool) (fs0 : FS) (e : Nat) (m : M) (a : A)
    (hst : Start fs0 e) (r : RJ cfg raises fs0 m a) (hei : m.envIno = e) (hne : m.envDone = false) : Start m.fs e := by
  have hold := old_inode r.j e hst.elt
  have hj := r.j
  obtain ⟨s, fl, uf, en⟩ := a
  simp only at hj
  by_cases h0 : s.phase = .init
  · -- nothing created: same inode table; the part name as at the start or removed; destination as at the start
    have hino : m.fs.inodes = fs0.inodes := ginv_init_inodes _ _ _ _ hj.inv h0
    have hunp : s.published = false := by simp [St.published, h0]
    have hd := hj.dest hunp
    simp only [hne, Bool.false_eq_true, if_false] at hd
    have hp : m.fs.dir.part = fs0.dir.part ∨ m.fs.dir.part = none := by
      by_cases hu : Ev.unlinkPart ∈ m.tr
      · exact Or.inr ((hj.pinit h0).2 hu)
      · exact Or.inl ((hj.pinit h0).1 hu)
    refine ⟨⟨?_, ?_⟩, by rw [hino]; exact hst.elt, by rw [hold]; exact hst.eino, by rw [hd]; exact hst.edest, ?_⟩
    · intro i hi; rw [hino]; rw [hd] at hi; exact hst.wf.1 i hi
    · intro i hi; rw [hino]
      rcases hp with hp | hp
      · rw [hp] at hi; exact hst.wf.2 i hi
      · rw [hp] at hi; cases hi
    · rcases hp with hp | hp
      · rw [hp]; exact hst.epart
      · rw [hp]; simp
  · obtain ⟨x, hx, _, _⟩ := ginv_shape _ _ s m.fs _ hj.inv h0
    have hlen : m.fs.inodes.length = fs0.inodes.length + 1 := by rw [hx]; simp
    have hne' : fs0.inodes.length ≠ e := fun h => by have := hst.elt; omega
    -- the destination: as at the start, or the fresh inode
    have hdest : m.fs.dir.dest = fs0.dir.dest ∨ m.fs.dir.dest = some fs0.inodes.length := by
      cases hp : s.published with
      | false =>
        have hd := hj.dest hp
        simp only [hne, Bool.false_eq_true, if_false] at hd
        exact Or.inl hd
      | true => exact Or.inr (ginv_pub _ _ _ _ hj.inv hp).1
    -- the part name: the fresh inode, or free
    have hpart : m.fs.dir.part = some fs0.inodes.length ∨ m.fs.dir.part = none := by
      obtain ⟨ph, op, db, us⟩ := s
      cases ph
      · exact absurd rfl h0
      · exact Or.inl (ginv_part_some _ _ _ _ _ hj.inv (Or.inl rfl))
      · exact Or.inl (ginv_part_some _ _ _ _ _ hj.inv (Or.inr rfl))
      · exact Or.inr (ginv_part_none _ _ _ _ _ hj.inv (Or.inr rfl))
      · exact Or.inr (ginv_part_none _ _ _ _ _ hj.inv (Or.inl rfl))
    refine ⟨⟨?_, ?_⟩, by rw [hlen]; have := hst.elt; omega, by rw [hold]; exact hst.eino, ?_, ?_⟩
    · intro i hi
      rcases hdest with hd | hd
      · rw [hd] at hi; have := hst.wf.1 i hi; omega
      · rw [hd] at hi; cases hi; omega
    · intro i hi
      rcases hpart with hp | hp
      · rw [hp] at hi; cases hi; omega
      · rw [hp] at hi; cases hi
    · rcases hdest with hd | hd
      · rw [hd]; exact hst.edest
      · rw [hd]; intro h; cases h; exact hne' rfl
    · rcases hpart with hp | hp
      · rw [hp]; intro h; cases h; exact hne' rfl
      · rw [hp]; simp

theorem replay_envIno : ∀ (t : List Obs) (m1 m2 : M), replay m1 t = some m2 → m2.envIno = m1.envIno := by
  intro t
  induction t with
  | nil => intro m1 m2 hm; simp [replay] at hm; subst hm; rfl
  | cons o t ih =>
    intro m1 m2 hm
    simp only [replay] at hm
    cases h2 : replayStep m1 o with
    | none => simp [h2] at hm
    | some m3 =>
      simp only [h2] at hm
      rw [ih m3 m2 hm]
      cases o with
      | ok ev =>
        simp only [replayStep] at h2
        split at h2
        · rename_i m4 hx
          simp at h2; subst h2
          unfold exe at hx
          split at hx <;> simp at hx
          subst hx; rfl
        · simp at h2
      | fail l i u => simp [replayStep] at h2; subst h2; rfl
      | failClosed l =>
        simp only [replayStep] at h2
        split at h2
        · rename_i m4 hx
          simp at h2; subst h2
          unfold exe at hx
          split at hx <;> simp at hx
          subst hx; rfl
        · simp at h2
      | appear => simp [replayStep] at h2; subst h2; exact (env_fields m1 .appear).2.2.2.2

/-- `t` is the observed trace of a save (configuration `cfg`, `raises` = the with-block ended by raising, `ok` = the caller
    saw no exception, `content` = the bytes the block wrote) started in `fs0`: it is accepted, and executable, ending in `m` -/
structure Observed (cfg : Cfg) (raises ok : Bool) (content : Bytes) (fs0 : FS) (e : Nat) (t : List Obs) (m : M) : Prop where
  acc : Accept cfg raises ok content fs0.umask fs0.destMode t = true
  run : replay (M.start fs0 e) t = some m

theorem Observed.rj {cfg raises ok content fs0 e t m} (h : Observed cfg raises ok content fs0 e t m) :
    ∃ a, A.init.run cfg raises t = some a ∧ accEnd cfg raises ok content fs0.umask fs0.destMode t a = true ∧
      RJ cfg raises fs0 m a ∧ m.tr = oks t ∧ a.s.published = publishes (oks t) := by
  have hacc := h.acc
  unfold Accept at hacc
  cases ha : A.init.run cfg raises t with
  | none => simp [ha] at hacc
  | some a =>
    simp only [ha] at hacc
    have htr : m.tr = oks t := by simpa [M.start] using replay_tr t _ m h.run
    have hst := A_run_st cfg raises t A.init a ha
    have hp := (published_run (oks t) St.init a.s hst).1
    have hinit : St.init.published = false := by decide
    rw [hinit, Bool.false_or] at hp
    exact ⟨a, rfl, hacc, RJ_run cfg raises fs0 t _ m A.init a (RJ_start cfg raises fs0 e) ha h.run, htr, hp⟩

/-- without an `appear` observation the other process has not acted -/
theorem Observed.noenv {cfg raises ok content fs0 e t m} (h : Observed cfg raises ok content fs0 e t m)
    (hne : hasAppear t = false) : m.envDone = false := by
  obtain ⟨a, ha, _, r, _, _⟩ := h.rj
  have henv : a.env = false := by
    have := (A_run_flags cfg raises t A.init a ha).2.1
    simpa [A.init, hne] using this
  cases hh : m.envDone with
  | false => rfl
  | true => have := r.envd hh; rw [henv] at this; cases this

/-- **The state an accepted save leaves behind is a legitimate starting state** for the next save -/
theorem Observed.next_start {cfg raises ok content fs0 e t m} (h : Observed cfg raises ok content fs0 e t m)
    (hst : Start fs0 e) (hne : hasAppear t = false) : Start m.fs e := by
  obtain ⟨a, _, _, r, _, _⟩ := h.rj
  have hei : m.envIno = e := by simpa [M.start] using replay_envIno t _ m h.run
  exact RJ_start_next cfg raises fs0 e m a hst r hei (h.noenv hne)

/-- one save of a history -/
structure SaveObs where
  cfg : Cfg
  raises : Bool
  ok : Bool
  content : Bytes
  t : List Obs

/-- a history of saves on the same directory (a retry, the same `AtomicSaver` object used again, other
    savers ...): each one accepted and executable from the state its predecessor left, no other process interfering -/
inductive History (e : Nat) : FS → List SaveObs → FS → Prop
  | nil (fs : FS) : History e fs [] fs
  | cons (fs0 : FS) (s : SaveObs) (m : M) (rest : List SaveObs) (fs2 : FS) :
      Observed s.cfg s.raises s.ok s.content fs0 e s.t m → hasAppear s.t = false → History e m.fs rest fs2 →
      History e fs0 (s :: rest) fs2

theorem History.start {e : Nat} {fs0 fs : FS} {l : List SaveObs} (h : History e fs0 l fs) (hst : Start fs0 e) : Start fs e := by
  induction h with
  | nil fs => exact hst
  | cons fs0 s m rest fs2 hobs hne _ ih => exact ih (hobs.next_start hst hne)

theorem History.split {e : Nat} : ∀ (p q : List SaveObs) (fs0 fs : FS), History e fs0 (p ++ q) fs →
    ∃ mid, History e fs0 p mid ∧ History e mid q fs
  | [], q, fs0, fs, h => ⟨fs0, History.nil fs0, h⟩
  | s :: p, q, fs0, fs, h => by
    cases h with
    | cons _ _ m _ _ hobs hne hrest =>
      obtain ⟨mid, h1, h2⟩ := History.split p q m.fs fs hrest
      exact ⟨mid, History.cons fs0 s m p mid hobs hne h1, h2⟩

/-- an unpublished accepted save (no interference) leaves bytes and mode of the destination as they were -/
theorem Observed.unpublished_dest {cfg raises ok content fs0 e t m} (h : Observed cfg raises ok content fs0 e t m)
    (hst : Start fs0 e) (hne : hasAppear t = false) (hnp : publishes (oks t) = false) :
    m.fs.readDest = fs0.readDest ∧ m.fs.destMode = fs0.destMode := by
  obtain ⟨a, _, _, r, _, hp⟩ := h.rj
  have hd := r.j.dest (by rw [hp]; exact hnp)
  simp only [h.noenv hne, Bool.false_eq_true, if_false] at hd
  have : m.fs.inode? m.fs.dir.dest = fs0.inode? fs0.dir.dest := by
    simp only [hd, FS.inode?]
    cases hdd : fs0.dir.dest with
    | none => rfl
    | some i => exact old_inode r.j i (hst.wf.1 i hdd)
  simp only [FS.readDest, FS.destMode, this, and_self]

theorem History.unpublished_dest {e : Nat} {fs0 fs : FS} {l : List SaveObs} (h : History e fs0 l fs) (hst : Start fs0 e)
    (hnp : ∀ s ∈ l, publishes (oks s.t) = false) : fs.readDest = fs0.readDest ∧ fs.destMode = fs0.destMode := by
  induction h with
  | nil fs => exact ⟨rfl, rfl⟩
  | cons fs0 s m rest fs2 hobs hne _ ih =>
    have h1 := hobs.unpublished_dest hst hne (hnp s (by simp))
    have h2 := ih (hobs.next_start hst hne) (fun x hx => hnp x (by simp [hx]))
    exact ⟨h2.1.trans h1.1, h2.2.trans h1.2⟩

/-- a published accepted save leaves exactly the block's bytes at the destination -/
theorem Observed.published_dest {cfg raises ok content fs0 e t m} (h : Observed cfg raises ok content fs0 e t m)
    (hpub : publishes (oks t) = true) : m.fs.readDest = some content := by
  obtain ⟨a, _, hend, r, htr, hp⟩ := h.rj
  have hsp : a.s.published = true := by rw [hp]; exact hpub
  have hcontent := (accEnd_spec _ _ _ _ _ _ _ _ hend).2.2.1 hsp
  have hi := r.j.inv
  rw [htr, hcontent] at hi
  obtain ⟨d1, x, d4, d5, d6⟩ := ginv_pub _ _ _ _ hi hsp
  simp [FS.readDest, FS.inode?, d1, d4, Inode.cache, d5, d6]

end C05
