import BoltonsVerif.C05.Driver
def main : IO Unit := BV.mainLoop C05.Driver.handle
