import BoltonsVerif.C04.Model
/-
C05 — the transliterated `AtomicSaver` (`__init__`, `setup`, `_open_part_file`, `__enter__`,
the body, `__exit__`, `_rm_part_on_exc`, `atomic_rename`) running on the abstract file system of
`C04.Model` under a *plan*: for the n-th instrumented call (os.stat, os.open, os.fdopen, os.close,
os.chmod, os.unlink, file.write, file.flush, os.fsync, file.close, os.rename, os.link) the plan
says whether it goes through, fails with an errno (the call then has no effect, except that a
failing `file.close()` still closes the descriptor), or whether, just before it, another process
creates the destination (`appear`).

The model follows the code after the three `fix:` commits (errors in flush/fsync/close and in
fdopen/chmod go through the cleanup; only ENOENT from `os.stat` means "destination absent").

Core Lean only.
-/
namespace C05
open C04

inductive Act where
  | pass
  | fail (e : Errno)
  | appear
deriving DecidableEq, Repr

abbrev Plan := Nat → Act

/-- what the environment creates when the destination "appears" -/
def envBytes : Bytes := [79, 84, 72, 69, 82]
def envMode : Nat := 0o640

def envCreate (fs : FS) : FS :=
  match fs.dir.dest with
  | some _ => fs
  | none => { (fs.setDir { fs.dir with dest := some fs.inodes.length }) with
              inodes := fs.inodes ++ [⟨envBytes, [], envMode⟩] }

inductive Outcome where
  | ok
  | bodyExc            -- the exception raised by the with-block itself
  | osErr (e : Errno)
deriving DecidableEq, Repr

/-- machine state threaded through the save -/
structure M where
  fs : FS
  n : Nat                    -- instrumented calls made so far
  tr : List Ev               -- successful events so far, oldest first
  created : Bool             -- os.open of the part file succeeded
  published : Bool           -- rename / link onto the destination succeeded
  cleanupFaulted : Bool      -- the plan made a cleanup unlink fail
  envIno : Option Nat        -- the inode created by the environment, if it did create one
deriving Repr

/-- the environment's move just before a call -/
def M.env (m : M) (a : Act) : M :=
  if a = .appear ∧ m.fs.dir.dest = none then
    { m with fs := envCreate m.fs, envIno := some m.fs.inodes.length }
  else m

/-- one instrumented call: `op` is the kernel's behaviour, `ev` the event recorded on success -/
def call (plan : Plan) (m : M) (op : FS → Except Errno FS) (ev : Ev) : Option Errno × M :=
  match plan m.n with
  | .fail e => (some e, { m with n := m.n + 1 })
  | a =>
    match op (m.env a).fs with
    | .error e => (some e, { m.env a with n := m.n + 1 })
    | .ok fs' => (none, { m.env a with fs := fs', n := m.n + 1, tr := m.tr ++ [ev] })

/-- `file.close()`: when it is made to fail the descriptor is closed all the same -/
def callClose (plan : Plan) (m : M) : Option Errno × M :=
  match plan m.n with
  | .fail e =>
    match m.fs.close with
    | .ok fs' => (some e, { m with fs := fs', n := m.n + 1, tr := m.tr ++ [Ev.close] })
    | .error _ => (some e, { m with n := m.n + 1 })
  | _ => call plan m FS.close .close

/-- `os.stat(dest)`: `ok (some mode)`, `ok none` for ENOENT, `error e` otherwise -/
def callStat (plan : Plan) (m : M) : Except Errno (Option Nat) × M :=
  match plan m.n with
  | .fail e => (if e = ENOENT then .ok none else .error e, { m with n := m.n + 1 })
  | a => (.ok (m.env a).fs.destMode, { m.env a with n := m.n + 1 })

/-- `_rm_part_on_exc`: best-effort unlink of the part file, errors swallowed -/
def rmPart (cfg : Cfg) (plan : Plan) (m : M) : M :=
  if cfg.rmPartOnExc then
    let faulted := match plan m.n with | .fail _ => true | _ => false
    let m1 := (call plan m FS.unlinkPart .unlinkPart).2
    { m1 with cleanupFaulted := m1.cleanupFaulted || faulted }
  else m

/-- `_open_part_file` after the permissions have been chosen -/
def openPartFile (cfg : Cfg) (plan : Plan) (m : M) (perms : Nat) (doChmod : Bool) : Option Errno × M :=
  match call plan m (fun fs => fs.openPart true perms) (.openPart true true perms) with
  | (some e, m1) => (some e, m1)
  | (none, m1) =>
    let m1 := { m1 with created := true }
    -- os.fdopen(fd, mode, buffering): no effect on the file system
    match call plan m1 (fun fs => .ok fs) .noop with
    | (some e, m2) =>
      -- except: os.close(fd) / finally: _rm_part_on_exc() / raise
      let (r3, m3) := call plan m2 FS.closeFd .closeFd
      (some (r3.getD e), rmPart cfg plan m3)
    | (none, m2) =>
      if doChmod then
        match call plan m2 (fun fs => fs.chmodPart perms) (.chmodPart perms) with
        | (some e, m3) =>
          let (r4, m4) := callClose plan m3
          (some (r4.getD e), rmPart cfg plan m4)
        | (none, m3) => (none, m3)
      else (none, m2)

/-- `setup()` = refusal check, removal of a stale part file, `_open_part_file` -/
def setup (cfg : Cfg) (plan : Plan) (m : M) : Option Errno × M :=
  if m.fs.dir.dest.isSome && !cfg.overwrite then (some EEXIST, m) else
  let (r1, m1) := if cfg.overwritePart && m.fs.dir.part.isSome then call plan m FS.unlinkPart .unlinkPart else (none, m)
  match r1 with
  | some e => (some e, m1)
  | none =>
    match cfg.perms with
    | some p => openPartFile cfg plan m1 p true
    | none =>
      match callStat plan m1 with
      | (.error e, m2) => (some e, m2)
      | (.ok (some mode), m2) => openPartFile cfg plan m2 mode true
      | (.ok none, m2) => openPartFile cfg plan m2 RW_PERMS false

/-- the body's writes; the first failing write raises out of the block -/
def runWrites (plan : Plan) (m : M) : List (Bytes × Nat) → Option Errno × M
  | [] => (none, m)
  | w :: ws =>
    match call plan m (fun fs => fs.write w.1 w.2) (.write w.1 w.2) with
    | (some e, m1) => (some e, m1)
    | (none, m1) => runWrites plan m1 ws

/-- `atomic_rename(part, dest, overwrite)` inside `__exit__`'s try, with its error handling -/
def publish (cfg : Cfg) (plan : Plan) (m : M) : Outcome × M :=
  if cfg.overwrite then
    match call plan m FS.renamePartDest .renamePartDest with
    | (some e, m1) => (.osErr e, rmPart cfg plan m1)
    | (none, m1) => (.ok, { m1 with published := true })
  else
    match call plan m FS.linkPartDest .linkPartDest with
    | (some e, m1) => (.osErr e, rmPart cfg plan m1)
    | (none, m1) =>
      match call plan { m1 with published := true } FS.unlinkPart .unlinkPart with
      | (some e, m2) => (.osErr e, rmPart cfg plan m2)
      | (none, m2) => (.ok, m2)

/-- `__exit__`: `blockExc` is the exception leaving the with-block, if any -/
def finish (cfg : Cfg) (plan : Plan) (m : M) (blockExc : Option Outcome) : Outcome × M :=
  let (rf, m1) := call plan m FS.flush .flush
  let (rs, m2) := match rf with
    | none => call plan m1 FS.fsync .fsync
    | some _ => (none, m1)
  let (rc, m3) := callClose plan m2          -- finally
  match (rc <|> rf <|> rs) with
  | some e => (blockExc.getD (.osErr e), rmPart cfg plan m3)
  | none =>
    match blockExc with
    | some b => (b, rmPart cfg plan m3)
    | none => publish cfg plan m3

def blockOutcome (body : Body) (rw : Option Errno) : Option Outcome :=
  match rw with
  | some e => some (.osErr e)
  | none => if body.raises then some .bodyExc else none

def M.start (fs : FS) : M := ⟨fs, 0, [], false, false, false, none⟩

/-- `with atomic_save(dest, **cfg) as f: body` -/
def runSave (cfg : Cfg) (body : Body) (plan : Plan) (fs : FS) : Outcome × M :=
  match setup cfg plan (M.start fs) with
  | (some e, m1) => (.osErr e, m1)
  | (none, m1) =>
    let (rw, m2) := runWrites plan m1 body.writes
    finish cfg plan m2 (blockOutcome body rw)

def noFaults : Plan := fun _ => .pass

/-- the bytes a complete save puts at the destination -/
def newContent (body : Body) : Bytes := (body.writes.map (·.1)).flatten

end C05
