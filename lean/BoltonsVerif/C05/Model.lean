import BoltonsVerif.C04.Model
/-
C05 — the transliterated `AtomicSaver` (`__init__`, `setup`, `_open_part_file`, `__enter__`,
the body, `__exit__`, `_rm_part_on_exc`, `atomic_rename`) running on the abstract file system of
`C04.Model` under a *plan*: for the n-th instrumented call (os.stat, os.open, os.fdopen, os.close,
os.chmod, os.unlink, file.write, file.flush, os.fsync, file.close, os.rename, os.link) the plan
says whether it goes through, fails with an errno (the call then has no effect, except that a
failing `file.close()` still closes the descriptor), or whether, just before it, another process
creates the destination (`appear`).

The model follows the code after the three `fix:` commits (errors in flush/fsync/close and in
fdopen/chmod go through the cleanup; only ENOENT from `os.stat` means "destination absent").

`runSave` takes C04's `Body` (writes only); `runScript` (end of this file) is the same saver under a
with-block that may also flush and close the file object itself, and is what the driver runs.

Core Lean only.
-/
namespace C05
open C04

inductive Act where
  | pass
  | fail (e : Errno)
  | appear
deriving DecidableEq, Repr

abbrev Plan := Nat → Act

/-- what the environment's file holds when the destination "appears".  The inode exists from the
    start, unlinked (inode numbers are arbitrary, so this is the same as allocating it later) -/
def envBytes : Bytes := [79, 84, 72, 69, 82]
def envMode : Nat := 0o640
def envInode : Inode := ⟨envBytes, [], envMode⟩

inductive Outcome where
  | ok
  | bodyExc            -- the exception raised by the with-block itself
  | osErr (e : Errno)
deriving DecidableEq, Repr

/-- what the recorder sees of one instrumented call (the vocabulary of the acceptance tie, Accept.lean):
    a call that went through, with its effect; a call that reported an error (`listed` = one of the steps
    the property lists, `injected` = made to fail by the plan, `unlink` = an unlink of the part file);
    a `file.close()` that reported an error but closed; the other process creating the destination -/
inductive Obs where
  | ok (ev : Ev)
  | fail (listed injected unlink : Bool)
  | failClosed (listed : Bool)
  | appear
deriving DecidableEq, Repr

/-- is a failure of this call a failure of one of the listed steps (creating or chmod-ing the part file -
    `noop` is `os.fdopen` here -, write, flush, fsync, close, link / rename) -/
def listedEv : Ev → Bool
  | .unlinkPart => false
  | .closeFd => false
  | _ => true

def isUnlinkEv : Ev → Bool
  | .unlinkPart => true
  | _ => false

/-- machine state threaded through the save -/
structure M where
  fs : FS
  n : Nat                    -- instrumented calls made so far
  tr : List Ev               -- successful events so far, oldest first
  errs : Nat                 -- ghost: calls that reported an error (ENOENT from os.stat is not one)
  cleanupFaulted : Bool      -- ghost: the plan made a cleanup unlink fail
  envIno : Nat               -- constant: the environment's inode
  envDone : Bool             -- ghost: the environment did create the destination
  obs : List Obs := []       -- ghost: what a recorder of the calls observes, oldest first
deriving Repr

/-- ghost: the destination has been published by this save -/
def M.published (m : M) : Bool := publishes m.tr

def isOpenPart : Ev → Bool
  | .openPart _ _ _ => true
  | _ => false

/-- ghost: this save created a part file -/
def M.created (m : M) : Bool := m.tr.any isOpenPart

/-- the environment's move just before a call -/
def M.env (m : M) (a : Act) : M :=
  if a = .appear ∧ m.fs.dir.dest = none then
    { m with fs := m.fs.setDir { m.fs.dir with dest := some m.envIno }, envDone := true, obs := m.obs ++ [.appear] }
  else m

/-- perform a call that the plan lets through -/
def exe (m : M) (ev : Ev) : Option Errno × M :=
  match m.fs.step ev with
  | .error e => (some e, { m with n := m.n + 1, errs := m.errs + 1, obs := m.obs ++ [.fail (listedEv ev) false (isUnlinkEv ev)] })
  | .ok fs' => (none, { m with fs := fs', n := m.n + 1, tr := m.tr ++ [ev], obs := m.obs ++ [.ok ev] })

/-- one instrumented call: the kernel's behaviour is `FS.step ev`; `ev` is recorded on success -/
def call (plan : Plan) (m : M) (ev : Ev) : Option Errno × M :=
  match plan m.n with
  | .fail e => (some e, { m with n := m.n + 1, errs := m.errs + 1, obs := m.obs ++ [.fail (listedEv ev) true (isUnlinkEv ev)] })
  | .pass => exe m ev
  | .appear => exe (m.env .appear) ev

/-- `file.close()`: when it is made to fail the descriptor is closed all the same -/
def callClose (plan : Plan) (m : M) : Option Errno × M :=
  match plan m.n with
  | .fail e =>
    match m.fs.step .close with
    | .ok fs' => (some e, { m with fs := fs', n := m.n + 1, errs := m.errs + 1, tr := m.tr ++ [Ev.close], obs := m.obs ++ [.failClosed true] })
    | .error _ => (some e, { m with n := m.n + 1, errs := m.errs + 1, obs := m.obs ++ [.fail true true false] })
  | .pass => exe m .close
  | .appear => exe (m.env .appear) .close

/-- `os.stat(dest)`: `ok (some mode)`, `ok none` for ENOENT, `error e` otherwise -/
def callStat (plan : Plan) (m : M) : Except Errno (Option Nat) × M :=
  match plan m.n with
  | .fail e =>
    if e = ENOENT then (.ok none, { m with n := m.n + 1, obs := m.obs ++ [.fail false true false] })
    else (.error e, { m with n := m.n + 1, errs := m.errs + 1, obs := m.obs ++ [.fail false true false] })
  | .pass => (.ok m.fs.destMode, { m with n := m.n + 1, obs := m.obs ++ [if m.fs.destMode.isSome then .ok .noop else .fail false false false] })
  | .appear => (.ok (m.env .appear).fs.destMode,
      { m.env .appear with n := m.n + 1, obs := (m.env .appear).obs ++ [if (m.env .appear).fs.destMode.isSome then .ok .noop else .fail false false false] })

/-- `_rm_part_on_exc`: best-effort unlink of the part file, errors swallowed -/
def rmPart (cfg : Cfg) (plan : Plan) (m : M) : M :=
  if cfg.rmPartOnExc then
    let faulted := match plan m.n with | .fail _ => true | _ => false
    let m1 := (call plan m .unlinkPart).2
    { m1 with cleanupFaulted := m1.cleanupFaulted || faulted }
  else m

/-- `_open_part_file` after the permissions have been chosen -/
def openPartFile (cfg : Cfg) (plan : Plan) (m : M) (perms : Nat) (doChmod : Bool) : Option Errno × M :=
  match call plan m (.openPart true true perms) with
  | (some e, m1) => (some e, m1)
  | (none, m1) =>
    -- os.fdopen(fd, mode, buffering): no effect on the file system
    match call plan m1 .noop with
    | (some e, m2) =>
      -- except: os.close(fd) / finally: _rm_part_on_exc() / raise
      let (r3, m3) := call plan m2 .closeFd
      (some (r3.getD e), rmPart cfg plan m3)
    | (none, m2) =>
      if doChmod then
        match call plan m2 (.chmodPart perms) with
        | (some e, m3) =>
          -- except: self.part_file.close() / finally: _rm_part_on_exc() / raise
          let (r4, m4) := callClose plan m3
          (some (r4.getD e), rmPart cfg plan m4)
        | (none, m3) => (none, m3)
      else (none, m2)

/-- `setup()` = refusal check, removal of a stale part file, `_open_part_file` -/
def setup (cfg : Cfg) (plan : Plan) (m : M) : Option Errno × M :=
  if m.fs.dir.dest.isSome && !cfg.overwrite then (some EEXIST, { m with errs := m.errs + 1 }) else
  let (r1, m1) := if cfg.overwritePart && m.fs.dir.part.isSome then call plan m .unlinkPart else (none, m)
  match r1 with
  | some e => (some e, m1)
  | none =>
    match cfg.perms with
    | some p => openPartFile cfg plan m1 p true
    | none =>
      match callStat plan m1 with
      | (.error e, m2) => (some e, m2)
      | (.ok (some mode), m2) => openPartFile cfg plan m2 mode true
      | (.ok none, m2) => openPartFile cfg plan m2 RW_PERMS false

/-- the body's writes; the first failing write raises out of the block -/
def runWrites (plan : Plan) (m : M) : List (Bytes × Nat) → Option Errno × M
  | [] => (none, m)
  | w :: ws =>
    match call plan m (.write w.1 w.2) with
    | (some e, m1) => (some e, m1)
    | (none, m1) => runWrites plan m1 ws

/-- `atomic_rename(part, dest, overwrite)` inside `__exit__`'s try, with its error handling -/
def publish (cfg : Cfg) (plan : Plan) (m : M) : Outcome × M :=
  if cfg.overwrite then
    match call plan m .renamePartDest with
    | (some e, m1) => (.osErr e, rmPart cfg plan m1)
    | (none, m1) => (.ok, m1)
  else
    match call plan m .linkPartDest with
    | (some e, m1) => (.osErr e, rmPart cfg plan m1)
    | (none, m1) =>
      match call plan m1 .unlinkPart with
      | (some e, m2) => (.osErr e, rmPart cfg plan m2)
      | (none, m2) => (.ok, m2)

/-- the inner `try: flush(); fsync() finally: close()` of `__exit__`; the error is the exception
    leaving it (an exception raised by `close()` in the `finally` clause replaces an earlier one) -/
def syncClose (plan : Plan) (m : M) : Option Errno × M :=
  let r1 := call plan m .flush
  let r2 := match r1.1 with
    | none => call plan r1.2 .fsync
    | some _ => (none, r1.2)
  let r3 := callClose plan r2.2
  (r3.1 <|> r1.1 <|> r2.1, r3.2)

/-- `__exit__`: `blockExc` is the exception leaving the with-block, if any -/
def finish (cfg : Cfg) (plan : Plan) (m : M) (blockExc : Option Outcome) : Outcome × M :=
  match syncClose plan m with
  | (some e, m3) => (blockExc.getD (.osErr e), rmPart cfg plan m3)
  | (none, m3) =>
    match blockExc with
    | some b => (b, rmPart cfg plan m3)
    | none => publish cfg plan m3

def blockOutcome (body : Body) (rw : Option Errno) : Option Outcome :=
  match rw with
  | some e => some (.osErr e)
  | none => if body.raises then some .bodyExc else none

def M.start (fs : FS) (envIno : Nat) : M := ⟨fs, 0, [], 0, false, envIno, false, []⟩

/-- `with atomic_save(dest, **cfg) as f: body` -/
def runSave (cfg : Cfg) (body : Body) (plan : Plan) (fs : FS) (envIno : Nat) : Outcome × M :=
  match setup cfg plan (M.start fs envIno) with
  | (some e, m1) => (.osErr e, m1)
  | (none, m1) =>
    let (rw, m2) := runWrites plan m1 body.writes
    finish cfg plan m2 (blockOutcome body rw)

def noFaults : Plan := fun _ => .pass

/-- `mode & ~umask` on the 12 permission bits -/
def umaskOf (um mode : Nat) : Nat := mode &&& (0o7777 ^^^ (um &&& 0o7777))

/-- the permission bits of the part file's inode as determined by the events so far -/
def modeAfter (um : Nat) (cur : Option Nat) : Ev → Option Nat
  | .openPart _ _ md => some (umaskOf um md)
  | .chmodPart md => some md
  | _ => cur

/-- the bytes a complete save puts at the destination -/
def newContent (body : Body) : Bytes := (body.writes.map (·.1)).flatten

/-! ### with-blocks that do more than write: the block may flush and close the file object itself

An error is an opaque number for the saver (`except Exception`): an `Errno` below 1000 is the errno
of an `OSError`; the numbers from 1000 on name exception classes that are not errno-carrying
`OSError`s (1001 = `ValueError`, 1002 = `MemoryError`, ... - the table is `EXC_CODES` in
harness/bv/props/c05.py).  Every theorem quantifies over all plans, hence over failures of every
class at every call.  `EVALUE` is what Python itself raises for I/O on a closed file object. -/

def EVALUE : Errno := 1001

/-- one statement of the with-block acting on the file object -/
inductive Op where
  | write (data : Bytes) (spill : Nat)
  | flush
  | close
deriving DecidableEq, Repr

/-- the with-block: its calls on the file object, in order, and whether it then ends by raising -/
structure Script where
  ops : List Op
  raises : Bool
deriving DecidableEq, Repr

def opData : Op → Bytes
  | .write d _ => d
  | _ => []

/-- all bytes the block writes -/
def Script.content (sc : Script) : Bytes := (sc.ops.map opData).flatten

def Script.ofBody (body : Body) : Script := ⟨body.writes.map (fun w => Op.write w.1 w.2), body.raises⟩

/-- `write` / `flush` on the part file OBJECT: once the object is closed Python refuses the call
    with `ValueError` (nothing reaches the operating system); it is an instrumented call all the same -/
def fcall (plan : Plan) (m : M) (ev : Ev) : Option Errno × M :=
  if m.fs.openf.isSome then call plan m ev else
  match plan m.n with
  | .fail e => (some e, { m with n := m.n + 1, errs := m.errs + 1, obs := m.obs ++ [.fail true true false] })
  | .pass => (some EVALUE, { m with n := m.n + 1, errs := m.errs + 1, obs := m.obs ++ [.fail true false false] })
  | .appear => (some EVALUE, { m.env .appear with n := m.n + 1, errs := m.errs + 1, obs := (m.env .appear).obs ++ [.fail true false false] })

/-- `close()` on the part file object: closing a closed object is a no-op -/
def fclose (plan : Plan) (m : M) : Option Errno × M :=
  if m.fs.openf.isSome then callClose plan m else
  match plan m.n with
  | .fail e => (some e, { m with n := m.n + 1, errs := m.errs + 1, obs := m.obs ++ [.fail true true false] })
  | .pass => (none, { m with n := m.n + 1, obs := m.obs ++ [.ok .noop] })
  | .appear => (none, { m.env .appear with n := m.n + 1, obs := (m.env .appear).obs ++ [.ok .noop] })

/-- the block's calls; the first failing one raises out of the block -/
def runOps (plan : Plan) (m : M) : List Op → Option Errno × M
  | [] => (none, m)
  | .write d k :: ops =>
    match fcall plan m (.write d k) with
    | (some e, m1) => (some e, m1)
    | (none, m1) => runOps plan m1 ops
  | .flush :: ops =>
    match fcall plan m .flush with
    | (some e, m1) => (some e, m1)
    | (none, m1) => runOps plan m1 ops
  | .close :: ops =>
    match fclose plan m with
    | (some e, m1) => (some e, m1)
    | (none, m1) => runOps plan m1 ops

/-- the inner `try: flush(); fsync() finally: close()` of `__exit__` on a file object that the
    block may have closed (`os.fsync(self.part_file.fileno())` is only reached after a successful
    `flush()`, i.e. with the object open) -/
def syncCloseG (plan : Plan) (m : M) : Option Errno × M :=
  let r1 := fcall plan m .flush
  let r2 := match r1.1 with
    | none => call plan r1.2 .fsync
    | some _ => (none, r1.2)
  let r3 := fclose plan r2.2
  (r3.1 <|> r1.1 <|> r2.1, r3.2)

/-- `__exit__` -/
def finishG (cfg : Cfg) (plan : Plan) (m : M) (blockExc : Option Outcome) : Outcome × M :=
  match syncCloseG plan m with
  | (some e, m3) => (blockExc.getD (.osErr e), rmPart cfg plan m3)
  | (none, m3) =>
    match blockExc with
    | some b => (b, rmPart cfg plan m3)
    | none => publish cfg plan m3

def scriptOutcome (sc : Script) (rw : Option Errno) : Option Outcome :=
  match rw with
  | some e => some (.osErr e)
  | none => if sc.raises then some .bodyExc else none

/-- `with atomic_save(dest, **cfg) as f: <script>` -/
def runScript (cfg : Cfg) (sc : Script) (plan : Plan) (fs : FS) (envIno : Nat) : Outcome × M :=
  match setup cfg plan (M.start fs envIno) with
  | (some e, m1) => (.osErr e, m1)
  | (none, m1) =>
    let (rw, m2) := runOps plan m1 sc.ops
    finishG cfg plan m2 (scriptOutcome sc rw)

end C05
