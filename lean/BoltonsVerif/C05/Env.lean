import BoltonsVerif.C05.Accept
/-
C05 — the world between two saves.  Between two uses of a saver (the same long-lived `AtomicSaver`
object, or another one) other actors change what the next save will find: the destination is
chmod-ed, deleted, replaced by another writer's file (a new inode with its own permission bits),
the process umask changes.  `EnvStep.apply` is that move on the abstract file system.  Core Lean only
(the driver executes it); the theorems about it are in AcceptEnv.lean.
-/
namespace C05
open C04

inductive EnvStep where
  | chmodDest (mode : Nat)                 -- `chmod <mode> dest` (nothing happens when there is no destination)
  | unlinkDest                             -- `rm -f dest`
  | putDest (mode : Nat) (data : Bytes)    -- another writer replaces the destination by its own new file
  | setUmask (um : Nat)                    -- `os.umask(um)` in the saving process
  | putPart (mode : Nat) (data : Bytes)    -- a part file appears under the part name (left behind by another, crashed saver)
  | unlinkPart                             -- somebody removes the part file
deriving DecidableEq, Repr

def EnvStep.apply (fs : FS) : EnvStep → FS
  | .chmodDest md => match fs.dir.dest with
    | some i => { fs with inodes := modInode fs.inodes i (fun x => { x with mode := md }) }
    | none => fs
  | .unlinkDest => match fs.dir.dest with
    | some _ => fs.setDir { fs.dir with dest := none }
    | none => fs
  | .putDest md data =>
    { (fs.setDir { fs.dir with dest := some fs.inodes.length }) with inodes := fs.inodes ++ [⟨data, [], md⟩] }
  | .setUmask um => { fs with umask := um }
  | .putPart md data =>
    { (fs.setDir { fs.dir with part := some fs.inodes.length }) with inodes := fs.inodes ++ [⟨data, [], md⟩] }
  | .unlinkPart => match fs.dir.part with
    | some _ => fs.setDir { fs.dir with part := none }
    | none => fs

end C05
