import BoltonsVerif.C05.Script
/-
C05 — a generic frame principle for the transliteration: a predicate on the machine state that every
primitive instrumented call preserves (`call`, `callClose`, `callStat`, `fcall`, `fclose`, the
bookkeeping of `rmPart`, the early refusal) is preserved by `setup`, the with-block, `__exit__` and
the whole `runScript` - whatever the plan and the control flow.
-/
namespace C05
open C04

structure Frame (P : M → Prop) (plan : Plan) : Prop where
  call : ∀ m ev, P m → P (call plan m ev).2
  callClose : ∀ m, P m → P (callClose plan m).2
  callStat : ∀ m, P m → P (callStat plan m).2
  fcall : ∀ m ev, P m → P (fcall plan m ev).2
  fclose : ∀ m, P m → P (fclose plan m).2
  rm : ∀ cfg m, P m → P (rmPart cfg plan m)
  refuse : ∀ m, P m → P { m with errs := m.errs + 1 }

variable {P : M → Prop} {plan : Plan}

theorem frame_openPartFile (F : Frame P plan) (cfg : Cfg) (m : M) (p : Nat) (c : Bool) (h : P m) :
    P (openPartFile cfg plan m p c).2 := by
  unfold openPartFile
  have e1 := F.call m (.openPart true true p) h
  cases h1 : call plan m (.openPart true true p) with
  | mk r1 m1 =>
    rw [h1] at e1
    cases r1 with
    | some e => exact e1
    | none =>
      dsimp only
      have e2 := F.call m1 .noop e1
      cases h2 : call plan m1 .noop with
      | mk r2 m2 =>
        rw [h2] at e2
        cases r2 with
        | some e =>
          dsimp only
          exact F.rm cfg _ (F.call m2 _ e2)
        | none =>
          dsimp only
          cases c with
          | false => simp only [Bool.false_eq_true, if_false]; exact e2
          | true =>
            simp only [if_true]
            have e3 := F.call m2 (.chmodPart p) e2
            cases h3 : call plan m2 (.chmodPart p) with
            | mk r3 m3 =>
              rw [h3] at e3
              cases r3 with
              | some e =>
                dsimp only
                exact F.rm cfg _ (F.callClose m3 e3)
              | none => exact e3

theorem frame_setup (F : Frame P plan) (cfg : Cfg) (m : M) (h : P m) : P (setup cfg plan m).2 := by
  unfold setup
  split
  · exact F.refuse m h
  · have key : ∀ (r1 : Option Errno) (m1 : M), P m1 →
        P (match r1 with
          | some e => (some e, m1)
          | none =>
            match cfg.perms with
            | some p => openPartFile cfg plan m1 p true
            | none =>
              match callStat plan m1 with
              | (.error e, m2) => (some e, m2)
              | (.ok (some mode), m2) => openPartFile cfg plan m2 mode true
              | (.ok none, m2) => openPartFile cfg plan m2 RW_PERMS false).2 := by
      intro r1 m1 h1
      cases r1 with
      | some e => exact h1
      | none =>
        dsimp only
        cases cfg.perms with
        | some p => exact frame_openPartFile F cfg _ _ _ h1
        | none =>
          dsimp only
          have e2 := F.callStat m1 h1
          cases h2 : callStat plan m1 with
          | mk rs m2 =>
            rw [h2] at e2
            cases rs with
            | error e => exact e2
            | ok v =>
              cases v with
              | some md => exact frame_openPartFile F cfg _ _ _ e2
              | none => exact frame_openPartFile F cfg _ _ _ e2
    have hx : P ((if cfg.overwritePart && m.fs.dir.part.isSome then call plan m .unlinkPart else (none, m)) : Option Errno × M).2 := by
      split
      · exact F.call m .unlinkPart h
      · exact h
    generalize (if cfg.overwritePart && m.fs.dir.part.isSome then call plan m .unlinkPart else (none, m) : Option Errno × M) = x at hx
    obtain ⟨r1, m1⟩ := x
    exact key r1 m1 hx

theorem frame_runOps (F : Frame P plan) : ∀ (ops : List Op) (m : M), P m → P (runOps plan m ops).2
  | [], m, h => h
  | .write d k :: ops, m, h => by
    simp only [runOps]
    have e1 := F.fcall m (.write d k) h
    cases h1 : fcall plan m (.write d k) with
    | mk r1 m1 =>
      rw [h1] at e1
      cases r1 with
      | some e => exact e1
      | none => exact frame_runOps F ops m1 e1
  | .flush :: ops, m, h => by
    simp only [runOps]
    have e1 := F.fcall m .flush h
    cases h1 : fcall plan m .flush with
    | mk r1 m1 =>
      rw [h1] at e1
      cases r1 with
      | some e => exact e1
      | none => exact frame_runOps F ops m1 e1
  | .close :: ops, m, h => by
    simp only [runOps]
    have e1 := F.fclose m h
    cases h1 : fclose plan m with
    | mk r1 m1 =>
      rw [h1] at e1
      cases r1 with
      | some e => exact e1
      | none => exact frame_runOps F ops m1 e1

theorem frame_syncCloseG (F : Frame P plan) (m : M) (h : P m) : P (syncCloseG plan m).2 := by
  unfold syncCloseG
  dsimp only
  apply F.fclose
  have e1 := F.fcall m .flush h
  cases h1 : (fcall plan m .flush).1 with
  | some e => exact e1
  | none => exact F.call _ _ e1

theorem frame_publish (F : Frame P plan) (cfg : Cfg) (m : M) (h : P m) : P (publish cfg plan m).2 := by
  unfold publish
  split
  · have e1 := F.call m .renamePartDest h
    cases h1 : call plan m .renamePartDest with
    | mk r1 m1 =>
      rw [h1] at e1
      cases r1 with
      | some e => exact F.rm cfg _ e1
      | none => exact e1
  · have e1 := F.call m .linkPartDest h
    cases h1 : call plan m .linkPartDest with
    | mk r1 m1 =>
      rw [h1] at e1
      cases r1 with
      | some e => exact F.rm cfg _ e1
      | none =>
        dsimp only
        have e2 := F.call m1 .unlinkPart e1
        cases h2 : call plan m1 .unlinkPart with
        | mk r2 m2 =>
          rw [h2] at e2
          cases r2 with
          | some e => exact F.rm cfg _ e2
          | none => exact e2

theorem frame_finishG (F : Frame P plan) (cfg : Cfg) (m : M) (b : Option Outcome) (h : P m) :
    P (finishG cfg plan m b).2 := by
  unfold finishG
  have e1 := frame_syncCloseG F m h
  cases h1 : syncCloseG plan m with
  | mk r1 m1 =>
    rw [h1] at e1
    cases r1 with
    | some e => exact F.rm cfg _ e1
    | none =>
      dsimp only
      cases b with
      | some x => exact F.rm cfg _ e1
      | none => exact frame_publish F cfg _ e1

/-- **Frame principle**: what every primitive call preserves holds for the final state of `runScript` -/
theorem frame_runScript (F : Frame P plan) (cfg : Cfg) (sc : Script) (fs0 : FS) (e : Nat) (h : P (M.start fs0 e)) :
    P (runScript cfg sc plan fs0 e).2 := by
  unfold runScript
  have e1 := frame_setup F cfg (M.start fs0 e) h
  cases h1 : setup cfg plan (M.start fs0 e) with
  | mk r1 m1 =>
    rw [h1] at e1
    cases r1 with
    | some x => exact e1
    | none => exact frame_finishG F cfg _ _ (frame_runOps F _ _ e1)

end C05
