import BoltonsVerif.C05.AcceptProofs
import BoltonsVerif.C04.Closed
/-
C05 — robustness of the acceptance predicate: probes are free.  Observations without effect on the
acceptance automaton - successful calls without effect on the two names (`Ev.noop`: stat, lstat,
fdopen, fcntl, calls on unrelated paths, close of a closed object) and calls that failed on their own
without being a listed step (an `unlink` or `stat` answering ENOENT ...) - can be inserted or removed
anywhere in a trace without changing the verdict of `Accept`.
-/
namespace C05
open C04

def isProbe : Obs → Bool
  | .ok .noop => true
  | .fail false false _ => true
  | _ => false

def dropProbes (t : List Obs) : List Obs := t.filter (fun o => !isProbe o)

theorem A_step_probe (cfg : Cfg) (raises : Bool) (a : A) (o : Obs) (h : isProbe o = true) :
    a.step cfg raises o = some a := by
  cases o with
  | ok ev => cases ev <;> simp [isProbe] at h; simp [A.step, okAllowed, St.step]
  | fail l i u =>
    cases l <;> cases i <;> simp [isProbe] at h
    simp [A.step]
  | failClosed l => simp [isProbe] at h
  | appear => simp [isProbe] at h

theorem A_run_dropProbes (cfg : Cfg) (raises : Bool) : ∀ (t : List Obs) (a : A),
    a.run cfg raises (dropProbes t) = a.run cfg raises t
  | [], a => rfl
  | o :: t, a => by
    cases hp : isProbe o with
    | true =>
      have : dropProbes (o :: t) = dropProbes t := by simp [dropProbes, hp]
      rw [this, A_run_dropProbes cfg raises t a]
      simp [A.run, A_step_probe cfg raises a o hp]
    | false =>
      have : dropProbes (o :: t) = o :: dropProbes t := by simp [dropProbes, hp]
      rw [this]
      simp only [A.run]
      cases a.step cfg raises o with
      | none => rfl
      | some a' => exact A_run_dropProbes cfg raises t a'

theorem oks_dropProbes_writes : ∀ (t : List Obs), allWrites (oks (dropProbes t)) = allWrites (oks t)
  | [] => rfl
  | o :: t => by
    cases hp : isProbe o with
    | true =>
      have : dropProbes (o :: t) = dropProbes t := by simp [dropProbes, hp]
      rw [this, oks_dropProbes_writes t]
      cases o with
      | ok ev => cases ev <;> simp [isProbe] at hp; simp [oks, allWrites]
      | fail l i u => simp [oks]
      | failClosed l => simp [isProbe] at hp
      | appear => simp [isProbe] at hp
    | false =>
      have : dropProbes (o :: t) = o :: dropProbes t := by simp [dropProbes, hp]
      rw [this, oks_cons o (dropProbes t), oks_cons o t, allWrites_append, allWrites_append, oks_dropProbes_writes t]

theorem oks_dropProbes_mode (um : Nat) : ∀ (t : List Obs) (cur : Option Nat),
    (oks (dropProbes t)).foldl (modeAfter um) cur = (oks t).foldl (modeAfter um) cur
  | [], _ => rfl
  | o :: t, cur => by
    cases hp : isProbe o with
    | true =>
      have : dropProbes (o :: t) = dropProbes t := by simp [dropProbes, hp]
      rw [this, oks_dropProbes_mode um t cur]
      cases o with
      | ok ev => cases ev <;> simp [isProbe] at hp; simp [oks, modeAfter]
      | fail l i u => simp [oks]
      | failClosed l => simp [isProbe] at hp
      | appear => simp [isProbe] at hp
    | false =>
      have : dropProbes (o :: t) = o :: dropProbes t := by simp [dropProbes, hp]
      rw [this, oks_cons o (dropProbes t), oks_cons o t, List.foldl_append, List.foldl_append, oks_dropProbes_mode um t]

theorem accept_dropProbes (cfg : Cfg) (raises ok : Bool) (content : Bytes) (um : Nat) (dm0 : Option Nat) (t : List Obs) :
    Accept cfg raises ok content um dm0 (dropProbes t) = Accept cfg raises ok content um dm0 t := by
  unfold Accept
  rw [A_run_dropProbes cfg raises t A.init]
  cases A.init.run cfg raises t with
  | none => rfl
  | some a =>
    simp only [accEnd, oks_dropProbes_writes, oks_dropProbes_mode]

/-! ### the fault-free runs of the transliteration are accepted -/

theorem oks_map_ok (l : List Ev) : oks (l.map Obs.ok) = l := by
  induction l with
  | nil => rfl
  | cons e t ih => simp [oks, ih]

/-- a trace of successful events that C04's automaton accepts is accepted by the C05 automaton as well when
    nothing has failed, no publication occurs after a raising block, `rename` is only used with
    `overwrite`, and no part file of another save is removed without `overwrite_part` -/
theorem A_run_map_ok (cfg : Cfg) (raises : Bool) : ∀ (l : List Ev) (a : A) (s' : St), a.s.run l = some s' →
    a.failed = false → (raises = true → publishes l = false) → (cfg.overwrite = false → Ev.renamePartDest ∉ l) →
    (cfg.overwritePart = true ∨ a.s.phase ≠ .init) →
    a.run cfg raises (l.map Obs.ok) = some { a with s := s' }
  | [], a, s', h, _, _, _, _ => by simp [St.run] at h; subst h; rfl
  | ev :: t, a, s', h, hf, hr, hn, hu => by
    simp only [St.run] at h
    cases hs : a.s.step ev with
    | none => simp [hs] at h
    | some s1 =>
      simp only [hs] at h
      have hpc := publishes_cons ev t
      have hal : okAllowed cfg raises a ev = true := by
        have hrf : isPub ev = true → raises = false := by
          intro hp
          cases hh : raises with
          | false => rfl
          | true =>
            have := hr hh
            rw [hpc, publishes_single, hp] at this
            simp at this
        cases ev with
        | renamePartDest =>
          have how : cfg.overwrite = true := by
            cases hh : cfg.overwrite with
            | true => rfl
            | false => exact absurd (List.mem_cons_self) (hn hh)
          simp [okAllowed, hf, hrf rfl, how]
        | linkPartDest => simp [okAllowed, hf, hrf rfl]
        | unlinkPart =>
          simp only [okAllowed]
          split
          · rename_i h0
            rcases hu with hu | hu
            · exact hu
            · exact absurd h0 hu
          · rfl
        | _ => simp [okAllowed]
      have ih := A_run_map_ok cfg raises t { a with s := s1 } s' h hf
        (fun hh => by have := hr hh; rw [hpc] at this; simp only [Bool.or_eq_false_iff] at this; exact this.2)
        (fun hh => fun hm => hn hh (List.mem_cons_of_mem _ hm))
        (by
          rcases hu with hu | hu
          · exact Or.inl hu
          · exact Or.inr (step_not_init a.s s1 ev hs hu))
      simp only [List.map_cons, A.run, A.step, hal, if_true, hs, Option.map_some]
      exact ih

theorem publishes_writes (ws : List (Bytes × Nat)) : publishes (ws.map fun w => Ev.write w.1 w.2) = false := by
  induction ws with
  | nil => rfl
  | cons w ws ih => simp [publishes, ih]

theorem rename_not_mem_writes (ws : List (Bytes × Nat)) : Ev.renamePartDest ∉ ws.map fun w => Ev.write w.1 w.2 := by
  simp

theorem setupMode_choose (cfg : Cfg) (fs0 : FS) :
    setupMode fs0.umask (choosePerms cfg fs0).1 (choosePerms cfg fs0).2 = expectedMode cfg fs0.destMode fs0.umask := by
  obtain ⟨ow, owp, rm, txt, perms⟩ := cfg
  unfold choosePerms expectedMode setupMode
  generalize fs0.destMode = dm
  cases perms with
  | some p => simp
  | none => cases dm <;> simp

/-- **The fault-free runs of the transliteration are accepted**: for every configuration, initial state
    and with-block (writes only), the events of C04's `saverTrace` - which `nofault_trace_is_saverTrace`
    shows to be what `runScript` performs without faults - form an accepted trace, as a completed save
    when the block does not raise and as a failed one when it does -/
theorem saverTrace_accepted (cfg : Cfg) (fs0 : FS) (body : Body) :
    Accept cfg body.raises (!body.raises) (newContent body) fs0.umask fs0.destMode
      ((saverTrace cfg fs0 body).map Obs.ok) = true := by
  have hraise : body.raises = true → publishes (saverTrace cfg fs0 body) = false := by
    intro hr
    simp only [saverTrace, hr, publishes_append, publishes_writes]
    cases cfg.rmPartOnExc <;> cases (choosePerms cfg fs0).2 <;> cases (cfg.overwritePart && fs0.dir.part.isSome) <;>
      simp [publishes]
  have hren : cfg.overwrite = false → Ev.renamePartDest ∉ saverTrace cfg fs0 body := by
    intro ho
    simp only [saverTrace, ho, List.mem_append, not_or]
    cases body.raises <;> cases cfg.rmPartOnExc <;> cases (choosePerms cfg fs0).2 <;>
      cases (cfg.overwritePart && fs0.dir.part.isSome) <;> simp
  have hrun : A.init.run cfg body.raises ((saverTrace cfg fs0 body).map Obs.ok) =
      some { A.init with s := saverFinal cfg body } := by
    cases hpre : (cfg.overwritePart && fs0.dir.part.isSome) with
    | true =>
      have hop : cfg.overwritePart = true := by
        cases hh : cfg.overwritePart <;> simp [hh] at hpre ⊢
      exact A_run_map_ok cfg body.raises _ A.init _ (saver_run cfg fs0 body) rfl hraise hren (Or.inl hop)
    | false =>
      have hsplit := saverTrace_split cfg fs0 body
      have hp : saverPre cfg fs0 = [] := by simp [saverPre, hpre]
      rw [hp, List.nil_append, List.singleton_append] at hsplit
      rw [hsplit]
      have h1 : (St.mk .part true false false).run (saverRest cfg fs0 body) = some (saverFinal cfg body) :=
        saverRest_run cfg fs0 body
      have hraise' : body.raises = true → publishes (saverRest cfg fs0 body) = false := by
        intro hr
        have := hraise hr
        rw [hsplit, publishes_cons] at this
        simp only [Bool.or_eq_false_iff] at this
        exact this.2
      have hren' : cfg.overwrite = false → Ev.renamePartDest ∉ saverRest cfg fs0 body := by
        intro ho hm
        exact hren ho (by rw [hsplit]; exact List.mem_cons_of_mem _ hm)
      have := A_run_map_ok cfg body.raises (saverRest cfg fs0 body) ⟨⟨.part, true, false, false⟩, false, false, false⟩ _ h1 rfl
        hraise' hren' (Or.inr (by simp))
      simp only [List.map_cons, A.run, A.step, okAllowed, if_true, A.init, St.init, St.step]
      simpa [A.init] using this
  unfold Accept
  rw [hrun]
  have hmode : (saverTrace cfg fs0 body).foldl (modeAfter fs0.umask) none =
      some (setupMode fs0.umask (choosePerms cfg fs0).1 (choosePerms cfg fs0).2) := by
    have htail : ∀ ev ∈ (if body.raises then (if cfg.rmPartOnExc then [Ev.unlinkPart] else [])
         else if cfg.overwrite then [Ev.renamePartDest] else [Ev.linkPartDest, Ev.unlinkPart]), modeEv ev = false := by
      have hall : (if body.raises then (if cfg.rmPartOnExc then [Ev.unlinkPart] else [])
         else if cfg.overwrite then [Ev.renamePartDest] else [Ev.linkPartDest, Ev.unlinkPart]).all (fun ev => !modeEv ev) = true := by
        cases body.raises <;> cases cfg.rmPartOnExc <;> cases cfg.overwrite <;> rfl
      intro ev hev
      have := List.all_eq_true.1 hall ev hev
      simpa using this
    have hw : ∀ ev ∈ (body.writes.map (fun w => Ev.write w.1 w.2) ++ ([Ev.flush, Ev.fsync, Ev.close] ++
        (if body.raises then (if cfg.rmPartOnExc then [Ev.unlinkPart] else [])
         else if cfg.overwrite then [Ev.renamePartDest] else [Ev.linkPartDest, Ev.unlinkPart]))), modeEv ev = false := by
      intro ev hev
      simp only [List.mem_append, List.mem_map] at hev
      rcases hev with ⟨w, _, rfl⟩ | hev | hev
      · rfl
      · simp at hev; rcases hev with rfl | rfl | rfl <;> rfl
      · exact htail ev hev
    have hpre : ∀ ev ∈ (if cfg.overwritePart && fs0.dir.part.isSome then [Ev.unlinkPart] else []), modeEv ev = false := by
      intro ev hev
      split at hev <;> simp at hev
      subst hev; rfl
    have hl : saverTrace cfg fs0 body =
        ((if cfg.overwritePart && fs0.dir.part.isSome then [Ev.unlinkPart] else []) ++
          ([Ev.openPart true true (choosePerms cfg fs0).1, Ev.noop] ++
            if (choosePerms cfg fs0).2 then [Ev.chmodPart (choosePerms cfg fs0).1] else [])) ++
        (body.writes.map (fun w => Ev.write w.1 w.2) ++ ([Ev.flush, Ev.fsync, Ev.close] ++
          (if body.raises then (if cfg.rmPartOnExc then [Ev.unlinkPart] else [])
           else if cfg.overwrite then [Ev.renamePartDest] else [Ev.linkPartDest, Ev.unlinkPart]))) := by
      simp only [saverTrace, List.append_assoc]
    rw [hl, List.foldl_append, setup_mode fs0.umask _ _ _ hpre]
    exact foldl_nomode fs0.umask _ _ hw
  simp only [accEnd, oks_map_ok, allWrites_saverTrace, hmode, setupMode_choose, newContent, A.init, saverFinal, St.published]
  cases hr : body.raises <;> cases hm : cfg.rmPartOnExc <;> simp

end C05
