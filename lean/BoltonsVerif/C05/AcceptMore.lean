import BoltonsVerif.C05.AcceptProofs
/-
C05 — robustness of the acceptance predicate: probes are free.  Observations without effect on the
acceptance automaton - successful calls without effect on the two names (`Ev.noop`: stat, lstat,
fdopen, fcntl, calls on unrelated paths, close of a closed object) and calls that failed on their own
without being a listed step (an `unlink` or `stat` answering ENOENT ...) - can be inserted or removed
anywhere in a trace without changing the verdict of `Accept`.
-/
namespace C05
open C04

def isProbe : Obs → Bool
  | .ok .noop => true
  | .fail false false _ => true
  | _ => false

def dropProbes (t : List Obs) : List Obs := t.filter (fun o => !isProbe o)

theorem A_step_probe (cfg : Cfg) (raises : Bool) (a : A) (o : Obs) (h : isProbe o = true) :
    a.step cfg raises o = some a := by
  cases o with
  | ok ev => cases ev <;> simp [isProbe] at h; simp [A.step, okAllowed, St.step]
  | fail l i u =>
    cases l <;> cases i <;> simp [isProbe] at h
    simp [A.step]
  | failClosed l => simp [isProbe] at h
  | appear => simp [isProbe] at h

theorem A_run_dropProbes (cfg : Cfg) (raises : Bool) : ∀ (t : List Obs) (a : A),
    a.run cfg raises (dropProbes t) = a.run cfg raises t
  | [], a => rfl
  | o :: t, a => by
    cases hp : isProbe o with
    | true =>
      have : dropProbes (o :: t) = dropProbes t := by simp [dropProbes, hp]
      rw [this, A_run_dropProbes cfg raises t a]
      simp [A.run, A_step_probe cfg raises a o hp]
    | false =>
      have : dropProbes (o :: t) = o :: dropProbes t := by simp [dropProbes, hp]
      rw [this]
      simp only [A.run]
      cases a.step cfg raises o with
      | none => rfl
      | some a' => exact A_run_dropProbes cfg raises t a'

theorem oks_dropProbes_writes : ∀ (t : List Obs), allWrites (oks (dropProbes t)) = allWrites (oks t)
  | [] => rfl
  | o :: t => by
    cases hp : isProbe o with
    | true =>
      have : dropProbes (o :: t) = dropProbes t := by simp [dropProbes, hp]
      rw [this, oks_dropProbes_writes t]
      cases o with
      | ok ev => cases ev <;> simp [isProbe] at hp; simp [oks, allWrites]
      | fail l i u => simp [oks]
      | failClosed l => simp [isProbe] at hp
      | appear => simp [isProbe] at hp
    | false =>
      have : dropProbes (o :: t) = o :: dropProbes t := by simp [dropProbes, hp]
      rw [this, oks_cons o (dropProbes t), oks_cons o t, allWrites_append, allWrites_append, oks_dropProbes_writes t]

theorem oks_dropProbes_mode (um : Nat) : ∀ (t : List Obs) (cur : Option Nat),
    (oks (dropProbes t)).foldl (modeAfter um) cur = (oks t).foldl (modeAfter um) cur
  | [], _ => rfl
  | o :: t, cur => by
    cases hp : isProbe o with
    | true =>
      have : dropProbes (o :: t) = dropProbes t := by simp [dropProbes, hp]
      rw [this, oks_dropProbes_mode um t cur]
      cases o with
      | ok ev => cases ev <;> simp [isProbe] at hp; simp [oks, modeAfter]
      | fail l i u => simp [oks]
      | failClosed l => simp [isProbe] at hp
      | appear => simp [isProbe] at hp
    | false =>
      have : dropProbes (o :: t) = o :: dropProbes t := by simp [dropProbes, hp]
      rw [this, oks_cons o (dropProbes t), oks_cons o t, List.foldl_append, List.foldl_append, oks_dropProbes_mode um t]

theorem accept_dropProbes (cfg : Cfg) (raises ok : Bool) (content : Bytes) (um : Nat) (dm0 : Option Nat) (t : List Obs) :
    Accept cfg raises ok content um dm0 (dropProbes t) = Accept cfg raises ok content um dm0 t := by
  unfold Accept
  rw [A_run_dropProbes cfg raises t A.init]
  cases A.init.run cfg raises t with
  | none => rfl
  | some a =>
    simp only [accEnd, oks_dropProbes_writes, oks_dropProbes_mode]

end C05
