import BoltonsVerif.C05.Script
import BoltonsVerif.C05.AcceptProofs
import BoltonsVerif.C05.AcceptMore
import BoltonsVerif.C05.AcceptHist
import BoltonsVerif.C05.AcceptEnv
import BoltonsVerif.C05.Classify
import BoltonsVerif.C05.AcceptRef
import BoltonsVerif.C04.Props
import BoltonsVerif.Generated.C05_Consts
/-
C05 — property theorems about `runScript cfg sc plan fs0 e` (the transliterated `AtomicSaver` after
the three `fix:` commits) for EVERY plan (any number of failing calls, at any call sites, failing with
any errno or any other exception class - an error is an opaque number, see Model.lean -, and the
destination appearing before any call), every configuration, every with-block `sc` (any sequence of
write / flush / close calls on the file object, ending normally or by raising) and initial state.

`out` is what the caller sees, `fin` the final machine state (`fin.fs` the file system, and the ghost
observers `fin.published` - a rename/link onto the destination succeeded -, `fin.errs` - how many calls
reported an error -, `fin.envDone` - the environment created the destination during the save -,
`fin.cleanupFaulted` - the plan made a cleanup unlink fail).
-/
namespace C05
open C04

abbrev out (cfg : Cfg) (sc : Script) (plan : Plan) (fs0 : FS) (e : Nat) : Outcome := (runScript cfg sc plan fs0 e).1
abbrev fin (cfg : Cfg) (sc : Script) (plan : Plan) (fs0 : FS) (e : Nat) : M := (runScript cfg sc plan fs0 e).2

/-- the permission bits a completed save must give the destination: explicit, else those of the
    file it replaces, else `0o666 & ~umask` -/
def expectedPerms (cfg : Cfg) (fs0 : FS) : Nat :=
  match cfg.perms with
  | some p => p
  | none => match fs0.destMode with
    | some md => md
    | none => umaskOf fs0.umask RW_PERMS

/-- **A save that is not published leaves the destination exactly as it was** - same directory
    entry, same inode, hence same bytes and same permission bits - whatever failed and wherever.
    If meanwhile another process created the destination (`envDone`; only possible when it was
    absent), the destination is exactly that other process's file. -/
theorem failed_save_preserves_dest (cfg : Cfg) (sc : Script) (plan : Plan) (fs0 : FS) (e : Nat)
    (hst : Start fs0 e) (hnp : (fin cfg sc plan fs0 e).published = false) :
    ((fin cfg sc plan fs0 e).envDone = false →
      (fin cfg sc plan fs0 e).fs.readDest = fs0.readDest ∧ (fin cfg sc plan fs0 e).fs.destMode = fs0.destMode) ∧
    ((fin cfg sc plan fs0 e).envDone = true →
      fs0.dir.dest = none ∧ (fin cfg sc plan fs0 e).fs.readDest = some envBytes ∧
      (fin cfg sc plan fs0 e).fs.destMode = some envMode) := by
  obtain ⟨s, W, r⟩ := runScript_spec cfg fs0 e sc plan
  have hd := r.j.dest (by rw [res_pub r]; exact hnp)
  constructor
  · intro he
    simp only [fin] at he
    simp only [he, Bool.false_eq_true, if_false] at hd
    have : (fin cfg sc plan fs0 e).fs.inode? (fin cfg sc plan fs0 e).fs.dir.dest = fs0.inode? fs0.dir.dest := by
      simp only [fin, hd, FS.inode?]
      cases hdd : fs0.dir.dest with
      | none => rfl
      | some i => exact old_inode r.j i (hst.wf.1 i hdd)
    simp only [FS.readDest, FS.destMode, this, and_self]
  · intro he
    simp only [fin] at he
    simp only [he, if_true] at hd
    have h1 : (fin cfg sc plan fs0 e).fs.inode? (fin cfg sc plan fs0 e).fs.dir.dest = some envInode := by
      simp only [fin, hd, FS.inode?, r.envIno]
      rw [old_inode r.j e hst.elt, hst.eino]
    refine ⟨r.j.envd he, ?_, ?_⟩
    · simp [FS.readDest, h1, envInode, Inode.cache]
    · simp [FS.destMode, h1, envInode]

/-- the same for plans in which no other process interferes -/
theorem failed_save_preserves_dest_noenv (cfg : Cfg) (sc : Script) (plan : Plan) (fs0 : FS) (e : Nat)
    (hst : Start fs0 e) (hne : ∀ k, plan k ≠ .appear) (hnp : (fin cfg sc plan fs0 e).published = false) :
    (fin cfg sc plan fs0 e).fs.readDest = fs0.readDest ∧ (fin cfg sc plan fs0 e).fs.destMode = fs0.destMode :=
  (failed_save_preserves_dest cfg sc plan fs0 e hst hnp).1 (runScript_envDone cfg sc plan fs0 e hne)

/-- **Failure is reported.**  If the caller sees no exception then the save was published, no call
    reported an error and the block did not raise.  (Contrapositive: a raising block, any failing
    call, or a missing publication reaches the caller as an exception - never a silent failure.) -/
theorem failure_is_reported (cfg : Cfg) (sc : Script) (plan : Plan) (fs0 : FS) (e : Nat)
    (hok : out cfg sc plan fs0 e = .ok) :
    (fin cfg sc plan fs0 e).published = true ∧ (fin cfg sc plan fs0 e).errs = 0 ∧ sc.raises = false ∧
    (fin cfg sc plan fs0 e).fs.dir.part = none := by
  obtain ⟨s, W, r⟩ := runScript_spec cfg fs0 e sc plan
  obtain ⟨h1, h2, h3⟩ := r.ok hok
  refine ⟨by rw [← res_pub r]; simp [St.published, h1], h2, h3, ginv_part_none _ _ s _ W r.j.inv (Or.inr h1)⟩

/-- with `overwrite=True` the converse also holds: an exception means nothing was published -/
theorem raised_means_unpublished (cfg : Cfg) (sc : Script) (plan : Plan) (fs0 : FS) (e : Nat)
    (how : cfg.overwrite = true) (hne : out cfg sc plan fs0 e ≠ .ok) :
    (fin cfg sc plan fs0 e).published = false := by
  obtain ⟨s, W, r⟩ := runScript_spec cfg fs0 e sc plan
  cases hp : (fin cfg sc plan fs0 e).published with
  | false => rfl
  | true =>
    have := (r.pub (by rw [res_pub r]; exact hp)).2.2.1
    rcases this with h | h
    · exact absurd h hne
    · rw [how] at h; cases h

/-- the only way to get an exception from a save that IS published: `overwrite=False`, the `link`
    onto the destination succeeded and a later call (the `unlink` of the part file) failed -/
theorem raised_but_published_only_after_link (cfg : Cfg) (sc : Script) (plan : Plan) (fs0 : FS) (e : Nat)
    (hne : out cfg sc plan fs0 e ≠ .ok) (hp : (fin cfg sc plan fs0 e).published = true) :
    cfg.overwrite = false ∧ Ev.linkPartDest ∈ (fin cfg sc plan fs0 e).tr := by
  obtain ⟨s, W, r⟩ := runScript_spec cfg fs0 e sc plan
  obtain ⟨_, _, h3, h4, _⟩ := r.pub (by rw [res_pub r]; exact hp)
  rcases h3 with h | h
  · exact absurd h hne
  · exact ⟨h, h4 h⟩

/-- **Early refusal.**  `overwrite=False` and the destination exists at entry: `OSError(EEXIST)`,
    and the file system is not touched at all. -/
theorem refused_when_dest_exists (cfg : Cfg) (sc : Script) (plan : Plan) (fs0 : FS) (e : Nat)
    (hd : fs0.dir.dest ≠ none) (how : cfg.overwrite = false) :
    out cfg sc plan fs0 e = .osErr EEXIST ∧ (fin cfg sc plan fs0 e).fs = fs0 := by
  obtain ⟨s, W, r⟩ := runScript_spec cfg fs0 e sc plan
  obtain ⟨a, b, _⟩ := r.refused hd how
  exact ⟨a, b⟩

/-- **Late refusal.**  `overwrite=False` and the destination appears at any point before completion:
    the caller gets an exception, nothing is published (so, by `failed_save_preserves_dest`, the
    destination is exactly the other process's file). -/
theorem refused_when_dest_appears (cfg : Cfg) (sc : Script) (plan : Plan) (fs0 : FS) (e : Nat)
    (how : cfg.overwrite = false) (henv : (fin cfg sc plan fs0 e).envDone = true) :
    out cfg sc plan fs0 e ≠ .ok ∧ (fin cfg sc plan fs0 e).published = false := by
  obtain ⟨s, W, r⟩ := runScript_spec cfg fs0 e sc plan
  have hunp : (fin cfg sc plan fs0 e).published = false := by
    cases hp : (fin cfg sc plan fs0 e).published with
    | false => rfl
    | true =>
      have hl := (r.pub (by rw [res_pub r]; exact hp)).2.2.2.1 how
      have := r.j.lenv hl
      simp only [fin] at henv
      rw [henv] at this; cases this
  refine ⟨?_, hunp⟩
  intro hok
  have := (failure_is_reported cfg sc plan fs0 e hok).1
  rw [hunp] at this; cases this

/-- `__exit__` never masks the exception raised by the with-block: whatever fails during
    flush / fsync / close / cleanup, the caller sees the block's own exception -/
theorem exit_never_masks_block_exception (cfg : Cfg) (plan : Plan) (m : M) (b : Outcome) :
    (finishG cfg plan m (some b)).1 = b := by
  unfold finishG
  cases syncCloseG plan m with
  | mk r m3 => cases r <;> rfl

/-- **Cleanup.**  After a failed save with `rm_part_on_exc`, unless the plan made the cleanup
    `unlink` itself fail, either no part file is left, or this save never created one (then the
    inode table is untouched and the part name is as at the start - or removed by `overwrite_part`). -/
theorem part_removed (cfg : Cfg) (sc : Script) (plan : Plan) (fs0 : FS) (e : Nat)
    (hne : out cfg sc plan fs0 e ≠ .ok) (hrm : cfg.rmPartOnExc = true)
    (hcf : (fin cfg sc plan fs0 e).cleanupFaulted = false) :
    (fin cfg sc plan fs0 e).fs.dir.part = none ∨
    ((fin cfg sc plan fs0 e).fs.inodes = fs0.inodes ∧
      ((fin cfg sc plan fs0 e).fs.dir.part = fs0.dir.part ∨ cfg.overwritePart = true)) := by
  obtain ⟨s, W, r⟩ := runScript_spec cfg fs0 e sc plan
  rcases r.failed hne with ⟨h1, h2⟩ | ⟨_, h2⟩
  · right
    obtain ⟨ph, op, db, us⟩ := s
    simp at h1; subst h1
    have hi := r.j.inv
    simp only [GInv] at hi
    refine ⟨hi.1, ?_⟩
    by_cases hu : Ev.unlinkPart ∈ (fin cfg sc plan fs0 e).tr
    · exact Or.inr (h2 hu)
    · exact Or.inl ((r.j.pinit rfl).1 hu)
  · exact Or.inl (h2 hrm hcf)

/-- **A completed save holds exactly the new content**, and the block cannot have raised -/
theorem published_content (cfg : Cfg) (sc : Script) (plan : Plan) (fs0 : FS) (e : Nat)
    (hp : (fin cfg sc plan fs0 e).published = true) :
    (fin cfg sc plan fs0 e).fs.readDest = some sc.content ∧ sc.raises = false := by
  obtain ⟨s, W, r⟩ := runScript_spec cfg fs0 e sc plan
  have hsp : s.published = true := by rw [res_pub r]; exact hp
  obtain ⟨h1, h2, _⟩ := r.pub hsp
  refine ⟨?_, h1⟩
  subst h2
  obtain ⟨ph, op, db, us⟩ := s
  have hi := r.j.inv
  cases ph <;> simp [St.published] at hsp <;> simp only [GInv] at hi
  · obtain ⟨d1, _, _, x, d4, d5, d6, _⟩ := hi
    simp [fin, FS.readDest, FS.inode?, d1, d4, Inode.cache, d5, d6]
  · obtain ⟨d1, _, _, x, d4, d5, d6, _⟩ := hi
    simp [fin, FS.readDest, FS.inode?, d1, d4, Inode.cache, d5, d6]

/-- **Permissions of a completed save**: explicit `file_perms`, else those of the replaced file,
    else `0o666 & ~umask` (no interference by another process, `os.stat` not made to claim ENOENT) -/
theorem perms (cfg : Cfg) (sc : Script) (plan : Plan) (fs0 : FS) (e : Nat)
    (hne : ∀ k, plan k ≠ .appear) (hnn : ∀ k, plan k ≠ .fail ENOENT)
    (hp : (fin cfg sc plan fs0 e).published = true) :
    (fin cfg sc plan fs0 e).fs.destMode = some (expectedPerms cfg fs0) := by
  obtain ⟨s, W, r⟩ := runScript_spec cfg fs0 e sc plan
  have hsp : s.published = true := by rw [res_pub r]; exact hp
  obtain ⟨_, _, _, _, p, c, hm, hpc⟩ := r.pub hsp
  have hpc := hpc hne hnn
  have hph : s.phase ≠ .init := by intro h; simp [St.published, h] at hsp
  obtain ⟨x, hx, _⟩ := ginv_shape _ _ s _ W r.j.inv hph
  have hmode := r.j.mode hph x hx
  rw [hm] at hmode
  have hdest : (fin cfg sc plan fs0 e).fs.dir.dest = some fs0.inodes.length := by
    obtain ⟨ph, op, db, us⟩ := s
    have hi := r.j.inv
    cases ph <;> simp [St.published] at hsp <;> simp only [GInv] at hi <;> exact hi.1
  have : (fin cfg sc plan fs0 e).fs.destMode = some x.mode := by
    simp only [fin] at hdest hx ⊢
    simp [FS.destMode, FS.inode?, hdest, hx]
  rw [this]
  simp only [Option.some.injEq] at hmode ⊢
  rw [hmode]
  unfold expectedPerms choosePerms at *
  cases hcp : cfg.perms with
  | some q => simp [hcp] at hpc; simp [setupMode, hpc.1, hpc.2]
  | none =>
    simp only [hcp] at hpc
    cases hdm : fs0.destMode with
    | some md => simp [hdm] at hpc; simp [setupMode, hpc.1, hpc.2]
    | none => simp [hdm] at hpc; simp [setupMode, hpc.1, hpc.2]

/-- **Crash safety under faults**: whatever fails, the events the saver performs form a trace
    accepted by C04's `SafeTrace` (so `C04.safeTrace_crash_safe` applies to every faulty run too) -/
theorem trace_is_safe (cfg : Cfg) (sc : Script) (plan : Plan) (fs0 : FS) (e : Nat) :
    SafeTrace (fin cfg sc plan fs0 e).tr = true := by
  obtain ⟨s, W, r⟩ := runScript_spec cfg fs0 e sc plan
  simp [SafeTrace, r.j.run]

/-- **Retry.**  After a failed save with `rm_part_on_exc` (cleanup unlink not made to fail), started
    with the part name free (or `overwrite_part`), an immediate fault-free retry of a non-raising
    block (one that does not close the file object itself) succeeds - provided the destination may
    be written (`overwrite`, or it is still absent) - and leaves the complete new content and no part file. -/
theorem retry_succeeds (cfg : Cfg) (sc sc2 : Script) (plan : Plan) (fs0 : FS) (e : Nat)
    (hne : out cfg sc plan fs0 e ≠ .ok) (hrm : cfg.rmPartOnExc = true)
    (hcf : (fin cfg sc plan fs0 e).cleanupFaulted = false)
    (hpart : fs0.dir.part = none ∨ cfg.overwritePart = true)
    (hdest : (fin cfg sc plan fs0 e).fs.dir.dest = none ∨ cfg.overwrite = true)
    (hr2 : sc2.raises = false) (hnc2 : noCloseOps sc2.ops = true) :
    out cfg sc2 noFaults (fin cfg sc plan fs0 e).fs e = .ok ∧
    (fin cfg sc2 noFaults (fin cfg sc plan fs0 e).fs e).fs.readDest = some sc2.content ∧
    (fin cfg sc2 noFaults (fin cfg sc plan fs0 e).fs e).fs.dir.part = none := by
  have hp2 : (fin cfg sc plan fs0 e).fs.dir.part = none ∨ cfg.overwritePart = true := by
    rcases part_removed cfg sc plan fs0 e hne hrm hcf with h | ⟨_, h | h⟩
    · exact Or.inl h
    · rcases hpart with hp | hp
      · exact Or.inl (h.trans hp)
      · exact Or.inr hp
    · exact Or.inr h
  have hok := runScript_nofault_ok cfg (fin cfg sc plan fs0 e).fs e sc2 noFaults (fun _ => rfl) hp2 hdest hr2 hnc2
  obtain ⟨h1, _, _, h4⟩ := failure_is_reported cfg sc2 noFaults _ e hok
  exact ⟨hok, (published_content cfg sc2 noFaults _ e h1).1, h4⟩

/-- **A pre-existing part file is never reused or overwritten unless `overwrite_part` is set**: the
    save fails, records no event at all (nothing was created, removed, written or renamed), the
    part name still points to the same inode and the inode table is untouched. -/
theorem existing_part_untouched (cfg : Cfg) (sc : Script) (plan : Plan) (fs0 : FS) (e : Nat) (i : Nat)
    (hop : cfg.overwritePart = false) (hpart : fs0.dir.part = some i) :
    out cfg sc plan fs0 e ≠ .ok ∧ (fin cfg sc plan fs0 e).tr = [] ∧
    (fin cfg sc plan fs0 e).fs.dir.part = some i ∧ (fin cfg sc plan fs0 e).fs.inodes = fs0.inodes := by
  obtain ⟨s, W, r⟩ := runScript_spec cfg fs0 e sc plan
  have htr : (fin cfg sc plan fs0 e).tr = [] := by
    simp only [fin, runScript]
    have hs : (setup cfg plan (M.start fs0 e)).1 ≠ none ∧ (setup cfg plan (M.start fs0 e)).2.tr = [] := by
      unfold setup
      split
      · exact ⟨by simp, rfl⟩
      · simp only [hop, Bool.false_and, Bool.false_eq_true, if_false]
        cases cfg.perms with
        | some p =>
          dsimp only
          obtain ⟨a, b, _⟩ := openPartFile_blocked cfg plan (M.start fs0 e) p true i (by simpa [M.start] using hpart)
          exact ⟨a, by rw [b]; rfl⟩
        | none =>
          dsimp only
          have hst : (callStat plan (M.start fs0 e)).2.tr = [] ∧ (callStat plan (M.start fs0 e)).2.fs.dir.part = some i := by
            unfold callStat
            cases plan (M.start fs0 e).n with
            | fail x => dsimp only; split <;> exact ⟨rfl, by simpa [M.start] using hpart⟩
            | pass => exact ⟨rfl, by simpa [M.start] using hpart⟩
            | appear =>
              refine ⟨(env_fields _ _).2.1, ?_⟩
              show ((M.start fs0 e).env .appear).fs.dir.part = some i
              unfold M.env; split <;> simp [FS.setDir, M.start, hpart]
          cases hcs : callStat plan (M.start fs0 e) with
          | mk rs m2 =>
            rw [hcs] at hst
            cases rs with
            | error x => exact ⟨by simp, hst.1⟩
            | ok v =>
              cases v with
              | some md =>
                obtain ⟨a, b, _⟩ := openPartFile_blocked cfg plan m2 md true i hst.2
                exact ⟨a, by rw [b]; exact hst.1⟩
              | none =>
                obtain ⟨a, b, _⟩ := openPartFile_blocked cfg plan m2 RW_PERMS false i hst.2
                exact ⟨a, by rw [b]; exact hst.1⟩
    cases hsetup : setup cfg plan (M.start fs0 e) with
    | mk r1 m1 =>
      rw [hsetup] at hs
      cases r1 with
      | none => simp at hs
      | some x => exact hs.2
  have hs : s = St.init := by
    have := r.j.run
    simp only [fin] at htr
    rw [htr] at this
    simpa [St.run] using this.symm
  subst hs
  have hi := r.j.inv
  simp only [GInv, St.init] at hi
  refine ⟨?_, htr, ?_, hi.1⟩
  · intro hok
    have := (r.ok hok).1
    simp [St.init] at this
  · have := (r.j.pinit rfl).1 (by simp only [fin] at htr; rw [htr]; simp)
    rw [this, hpart]

/-- **The two semantics agree**: when no other process interferes, the file system the saver ends
    with - whatever failed - is exactly what C04's `exec` makes of the events it recorded (a failed call
    changes nothing; a failing `close()` still closes and is recorded) -/
theorem run_is_exec (cfg : Cfg) (sc : Script) (plan : Plan) (fs0 : FS) (e : Nat) (hne : ∀ k, plan k ≠ .appear) :
    exec fs0 (fin cfg sc plan fs0 e).tr = some (fin cfg sc plan fs0 e).fs :=
  runScript_X cfg sc plan fs0 e hne

/-- hence a crash at ANY point of ANY faulty run is safe: for every plan, every prefix of the events
    performed and both crash semantics, the destination reads the old state or the complete new content
    (`C04.safeTrace_crash_safe` applied to `trace_is_safe`) -/
theorem faulty_run_crash_safe (cfg : Cfg) (sc : Script) (plan : Plan) (fs0 : FS) (e : Nat)
    (hwf : fs0.WF) (hh : fs0.hist = []) (hsy : DestSynced fs0) :
    ∀ p q fs, (fin cfg sc plan fs0 e).tr = p ++ q → exec fs0 p = some fs →
      (fs.destAfterProcCrash = fs0.readDest ∨ fs.destAfterProcCrash = some (allWrites (fin cfg sc plan fs0 e).tr)) ∧
      (∀ r, fs.PowerDest r → r = fs0.readDest ∨ r = some (allWrites (fin cfg sc plan fs0 e).tr)) ∧
      (publishes p = false → fs.destAfterProcCrash = fs0.readDest ∧ ∀ r, fs.PowerDest r → r = fs0.readDest) := by
  intro p q fs ht hx
  have := safeTrace_crash_safe fs0 _ hwf hh hsy (trace_is_safe cfg sc plan fs0 e) p q fs ht hx
  exact ⟨this.1, this.2.1, this.2.2.1⟩

/-- translator obligation (regenerated from the current source on every run): `RW_PERMS` and
    `AtomicSaver._default_file_perms` are the model's `RW_PERMS` (0o666) -/
theorem source_default_perms : Gen.rwPerms = RW_PERMS ∧ Gen.defaultFilePerms = RW_PERMS := by decide

/-- **A fault-free save with nothing in its way completes** (the block may write and flush; it must
    not close the file object itself): no exception (hence, by
    `failure_is_reported` / `published_content` / `perms`: published, new content, right mode, no part file) -/
theorem nofault_save_completes (cfg : Cfg) (sc : Script) (fs0 : FS) (e : Nat)
    (hpart : fs0.dir.part = none ∨ cfg.overwritePart = true)
    (hdest : fs0.dir.dest = none ∨ cfg.overwrite = true) (hr : sc.raises = false)
    (hnc : noCloseOps sc.ops = true) :
    out cfg sc noFaults fs0 e = .ok :=
  runScript_nofault_ok cfg fs0 e sc noFaults (fun _ => rfl) hpart hdest hr hnc

/-- **The fault-free runs of this model are C04's `saverTrace`**: the events recorded by `runSave`
    without faults are exactly the trace C04's theorems speak about -/
theorem nofault_trace_is_saverTrace (cfg : Cfg) (body : Body) (fs0 : FS) (e : Nat)
    (hpart : fs0.dir.part = none ∨ cfg.overwritePart = true)
    (hdest : fs0.dir.dest = none ∨ cfg.overwrite = true) :
    (fin cfg (Script.ofBody body) noFaults fs0 e).tr = saverTrace cfg fs0 body := by
  simp only [fin, runScript_ofBody]
  exact runSave_nofault_trace cfg fs0 e body noFaults (fun _ => rfl) hpart hdest

/-- **The block closes the file object itself** (anywhere among its calls): whatever else happens -
    any plan - the save is never published and the caller gets an exception: Python refuses
    `flush()` on the closed object (`ValueError`, not an `OSError`), which `__exit__` must treat like
    any other failure.  With `failed_save_preserves_dest`, `part_removed` and `retry_succeeds`
    this is the full C05 guarantee for such a block. -/
theorem closed_by_block_not_published (cfg : Cfg) (sc : Script) (plan : Plan) (fs0 : FS) (e : Nat)
    (hcl : noCloseOps sc.ops = false) :
    out cfg sc plan fs0 e ≠ .ok ∧ (fin cfg sc plan fs0 e).published = false :=
  runScript_closed cfg sc plan fs0 e hcl

/-! ### non-vacuity: concrete states and plans satisfying the hypotheses above -/

/-- destination `OLD` (0o640), no part file, the environment's inode unlinked at index 1 -/
def fsEx : FS := ⟨[⟨[79, 76, 68], [], 0o640⟩, envInode], ⟨some 0, none⟩, [], none, 0o022⟩
/-- no destination, a stale part file -/
def fsEx2 : FS := ⟨[⟨[9, 9], [], 0o600⟩, envInode], ⟨none, some 0⟩, [], none, 0o022⟩
def bodyEx : Script := ⟨[.write [78, 69] 0, .write [87] 0], false⟩
/-- calls of a plain save: 0 stat, 1 open, 2 fdopen, 3 chmod, 4-5 write, 6 flush, 7 fsync, 8 close, 9 rename -/
def failAt (k : Nat) (errno : Errno) : Plan := fun n => if n = k then .fail errno else .pass

example : Start fsEx 1 := ⟨by decide, by decide, by decide, by decide, by decide⟩
example : Start fsEx2 1 := ⟨by decide, by decide, by decide, by decide, by decide⟩
-- fsync fails: reported, destination intact, part removed, retry succeeds
example : out {} bodyEx (failAt 7 5) fsEx 1 = .osErr 5 ∧ (fin {} bodyEx (failAt 7 5) fsEx 1).published = false ∧
    (fin {} bodyEx (failAt 7 5) fsEx 1).fs.readDest = some [79, 76, 68] ∧
    (fin {} bodyEx (failAt 7 5) fsEx 1).fs.dir.part = none ∧
    (fin {} bodyEx (failAt 7 5) fsEx 1).cleanupFaulted = false ∧
    out {} bodyEx noFaults (fin {} bodyEx (failAt 7 5) fsEx 1).fs 1 = .ok := by decide
-- a completed save: content, permissions of the replaced file
example : out {} bodyEx noFaults fsEx 1 = .ok ∧ (fin {} bodyEx noFaults fsEx 1).published = true ∧
    (fin {} bodyEx noFaults fsEx 1).fs.readDest = some [78, 69, 87] ∧
    (fin {} bodyEx noFaults fsEx 1).fs.destMode = some 0o640 ∧ expectedPerms {} fsEx = 0o640 := by decide
-- overwrite=False, destination appears just before the link (call 9 of that save): refused, part removed
example : out { overwrite := false, overwritePart := true } bodyEx (fun n => if n = 9 then .appear else .pass) fsEx2 1 = .osErr EEXIST ∧
    (fin { overwrite := false, overwritePart := true } bodyEx (fun n => if n = 9 then .appear else .pass) fsEx2 1).envDone = true ∧
    (fin { overwrite := false, overwritePart := true } bodyEx (fun n => if n = 9 then .appear else .pass) fsEx2 1).fs.readDest = some envBytes := by
  decide
-- pre-existing part file without overwrite_part: EEXIST, untouched
example : out {} bodyEx noFaults fsEx2 1 = .osErr EEXIST ∧ (fin {} bodyEx noFaults fsEx2 1).fs.readPart = some [9, 9] := by decide
-- the unlink after a successful link fails: the caller gets an exception although the save IS published
-- (the exclusion in `raised_means_unpublished`)
example : out { overwrite := false, overwritePart := true } bodyEx (failAt 10 1) fsEx2 1 = .osErr 1 ∧
    (fin { overwrite := false, overwritePart := true } bodyEx (failAt 10 1) fsEx2 1).published = true := by decide

-- the block writes, then closes the file itself (calls: 0 stat, 1 open, 2 fdopen, 3 chmod, 4 write, 5 close, then
-- 6 flush - refused by Python: ValueError -, 7 close, 8 unlink): reported as EVALUE, destination intact, part file
-- removed, and the retry succeeds; the same with a block that raises afterwards: the block's exception is not masked
def closingEx : Script := ⟨[.write [78, 69] 0, .close], false⟩
example : noCloseOps closingEx.ops = false := by decide
example : out {} closingEx noFaults fsEx 1 = .osErr EVALUE ∧ (fin {} closingEx noFaults fsEx 1).n = 9 ∧
    (fin {} closingEx noFaults fsEx 1).fs.readDest = some [79, 76, 68] ∧
    (fin {} closingEx noFaults fsEx 1).fs.dir.part = none ∧
    out {} bodyEx noFaults (fin {} closingEx noFaults fsEx 1).fs 1 = .ok := by decide
example : out {} { closingEx with raises := true } noFaults fsEx 1 = .bodyExc ∧
    (fin {} { closingEx with raises := true } noFaults fsEx 1).fs.dir.part = none := by decide
-- a failure that is not an OSError (code 1002 = MemoryError) at fsync: same guarantees
example : out {} bodyEx (failAt 7 1002) fsEx 1 = .osErr 1002 ∧ (fin {} bodyEx (failAt 7 1002) fsEx 1).fs.dir.part = none := by decide
-- a block that flushes in between completes
example : out {} ⟨[.write [78] 0, .flush, .write [69] 0], false⟩ noFaults fsEx 1 = .ok ∧
    noCloseOps [Op.write [78] 0, .flush, .write [69] 0] = true := by decide

/-! ## The acceptance tie: every ACCEPTED observed trace has the C05 guarantees

The theorems above are about the transliteration `runScript`.  The theorems below do not mention it:
they are about ANY trace of observations (`Obs`: successful calls classified by their effect, calls
that reported an error, the other process's move) that the decidable predicate `Accept` accepts and
that can be executed (`replay`) from an arbitrary initial state `fs0` - whatever sequence of calls
the implementation chose.  The check evaluates `Accept` and `replay` on the trace recorded from the
real `atomic_save` in every case (C05.Driver) and compares the replayed file system with the real one.

`t` the observed trace, `raises` = the with-block ended by raising, `ok` = the caller saw no
exception, `content` = the bytes the block wrote, `m` = the machine state after the replay. -/

-- (`Observed cfg raises ok content fs0 e t m` := `Accept … t = true` ∧ `replay (M.start fs0 e) t = some m`, see AcceptHist.lean)

/-- **An accepted save that is not published leaves the destination exactly as it was** (or, if another
    process created it meanwhile, exactly that process's file) -/
theorem accepted_preserves_dest (cfg : Cfg) (raises ok : Bool) (content : Bytes) (fs0 : FS) (e : Nat) (t : List Obs) (m : M)
    (hst : Start fs0 e) (h : Observed cfg raises ok content fs0 e t m) (hnp : publishes (oks t) = false) :
    (m.envDone = false → m.fs.readDest = fs0.readDest ∧ m.fs.destMode = fs0.destMode) ∧
    (m.envDone = true → fs0.dir.dest = none ∧ m.fs.readDest = some envBytes ∧ m.fs.destMode = some envMode) := by
  obtain ⟨a, _, _, r, _, hp⟩ := h.rj
  have hei : m.envIno = e := by
    have : ∀ (t : List Obs) (m1 m2 : M), replay m1 t = some m2 → m2.envIno = m1.envIno := by
      intro t
      induction t with
      | nil => intro m1 m2 hm; simp [replay] at hm; subst hm; rfl
      | cons o t ih =>
        intro m1 m2 hm
        simp only [replay] at hm
        cases h2 : replayStep m1 o with
        | none => simp [h2] at hm
        | some m3 =>
          simp only [h2] at hm
          rw [ih m3 m2 hm]
          cases o with
          | ok ev =>
            simp only [replayStep] at h2
            split at h2
            · rename_i m4 hx
              simp at h2; subst h2
              unfold exe at hx
              split at hx <;> simp at hx
              subst hx; rfl
            · simp at h2
          | fail l i u => simp [replayStep] at h2; subst h2; rfl
          | failClosed l =>
            simp only [replayStep] at h2
            split at h2
            · rename_i m4 hx
              simp at h2; subst h2
              unfold exe at hx
              split at hx <;> simp at hx
              subst hx; rfl
            · simp at h2
          | appear => simp [replayStep] at h2; subst h2; exact (env_fields m1 .appear).2.2.2.2
    simpa [M.start] using this t _ m h.run
  have hd := r.j.dest (by rw [hp]; exact hnp)
  constructor
  · intro he
    simp only [he, Bool.false_eq_true, if_false] at hd
    have : m.fs.inode? m.fs.dir.dest = fs0.inode? fs0.dir.dest := by
      simp only [hd, FS.inode?]
      cases hdd : fs0.dir.dest with
      | none => rfl
      | some i => exact old_inode r.j i (hst.wf.1 i hdd)
    simp only [FS.readDest, FS.destMode, this, and_self]
  · intro he
    simp only [he, if_true] at hd
    have h1 : m.fs.inode? m.fs.dir.dest = some envInode := by
      simp only [hd, FS.inode?, hei]
      rw [old_inode r.j e hst.elt, hst.eino]
    refine ⟨r.j.envd he, ?_, ?_⟩
    · simp [FS.readDest, h1, envInode, Inode.cache]
    · simp [FS.destMode, h1, envInode]

/-- **Failure is reported**: an accepted trace whose caller saw no exception is a completed save -
    published, no listed step failed before the publication, the block did not raise, and the part
    name is gone -/
theorem accepted_failure_reported (cfg : Cfg) (raises : Bool) (content : Bytes) (fs0 : FS) (e : Nat) (t : List Obs) (m : M)
    (h : Observed cfg raises true content fs0 e t m) :
    publishes (oks t) = true ∧ failedBefore t = false ∧ raises = false ∧ m.fs.dir.part = none := by
  obtain ⟨a, ha, hend, r, _, hp⟩ := h.rj
  obtain ⟨hdone, hnf, hnr⟩ := (accEnd_spec _ _ _ _ _ _ _ _ hend).1 rfl
  have hpub : a.s.published = true := by simp [St.published, hdone]
  refine ⟨by rw [← hp]; exact hpub, ?_, hnr, ginv_part_none _ _ a.s _ _ r.j.inv (Or.inr hdone)⟩
  cases hfb : failedBefore t with
  | false => rfl
  | true =>
    have := (A_run_flags cfg raises t A.init a ha).2.2 (by decide) hfb
    rw [hnf] at this; cases this

/-- **Every trigger blocks the publication**: if the with-block raised, or one of the listed steps
    (creating or chmod-ing the part file, write, flush, fsync, close, link / rename) reported an
    error, an accepted trace contains no publication and the caller saw an exception -/
theorem accepted_trigger_unpublished (cfg : Cfg) (raises ok : Bool) (content : Bytes) (fs0 : FS) (e : Nat) (t : List Obs) (m : M)
    (h : Observed cfg raises ok content fs0 e t m) (htrig : raises = true ∨ failedBefore t = true) :
    publishes (oks t) = false ∧ ok = false := by
  obtain ⟨a, ha, hend, r, _, hp⟩ := h.rj
  have hunp : a.s.published = false := by
    rcases htrig with hr | hf
    · exact r.raised hr
    · exact r.failed ((A_run_flags cfg raises t A.init a ha).2.2 (by decide) hf)
  refine ⟨by rw [← hp]; exact hunp, ?_⟩
  cases hok : ok with
  | false => rfl
  | true =>
    subst hok
    have := (accepted_failure_reported cfg raises content fs0 e t m h).1
    rw [← hp, hunp] at this; cases this

/-- **Refusal** (`overwrite=False`): if the destination exists at entry, or another process creates it
    at any point before completion, an accepted trace contains no publication and the caller saw an
    exception (so, by `accepted_preserves_dest`, the destination is untouched / the other process's file) -/
theorem accepted_refusal (cfg : Cfg) (raises ok : Bool) (content : Bytes) (fs0 : FS) (e : Nat) (t : List Obs) (m : M)
    (h : Observed cfg raises ok content fs0 e t m) (how : cfg.overwrite = false)
    (hd : fs0.dir.dest ≠ none ∨ m.envDone = true) :
    publishes (oks t) = false ∧ ok = false := by
  obtain ⟨a, ha, hend, r, htr, hp⟩ := h.rj
  have hunp : publishes (oks t) = false := by
    cases hpp : publishes (oks t) with
    | false => rfl
    | true =>
      exfalso
      rcases publishes_mem _ hpp with hm | hm
      · exact r.norename how (by rw [htr]; exact hm)
      · have hl : Ev.linkPartDest ∈ m.tr := by rw [htr]; exact hm
        rcases hd with hd | hd
        · exact hd (r.linked hl)
        · have := r.j.lenv hl
          rw [hd] at this; cases this
  refine ⟨hunp, ?_⟩
  cases hok : ok with
  | false => rfl
  | true =>
    subst hok
    have := (accepted_failure_reported cfg raises content fs0 e t m h).1
    rw [hunp] at this; cases this

/-- **No-clobber publication is a link, whatever happened before it** (round 5).  In an accepted trace of a save with
    `overwrite=False` that IS published: the publishing event is the `link` - never a `rename` / `replace`, not even as a
    fall-back after an earlier attempt failed ("no hard links here: check, then rename" leaves a window one call wide) -,
    the destination did not exist at entry, no other process created it at ANY point of the schedule, the block did not
    raise and no listed step - in particular no earlier attempt to publish, whatever its errno - reported an error before it -/
theorem accepted_noclobber_publication_is_link (cfg : Cfg) (raises ok : Bool) (content : Bytes) (fs0 : FS) (e : Nat)
    (t : List Obs) (m : M) (h : Observed cfg raises ok content fs0 e t m) (how : cfg.overwrite = false)
    (hpub : publishes (oks t) = true) :
    Ev.linkPartDest ∈ oks t ∧ Ev.renamePartDest ∉ oks t ∧ fs0.dir.dest = none ∧ m.envDone = false ∧
    failedBefore t = false ∧ raises = false := by
  obtain ⟨a, ha, hend, r, htr, hp⟩ := h.rj
  have hnr : Ev.renamePartDest ∉ oks t := by rw [← htr]; exact r.norename how
  have hl : Ev.linkPartDest ∈ oks t := by
    rcases publishes_mem _ hpub with hm | hm
    · exact absurd hm hnr
    · exact hm
  have hl' : Ev.linkPartDest ∈ m.tr := by rw [htr]; exact hl
  refine ⟨hl, hnr, r.linked hl', r.j.lenv hl', ?_, ?_⟩
  · cases hf : failedBefore t with
    | false => rfl
    | true =>
      have := (accepted_trigger_unpublished cfg raises ok content fs0 e t m h (Or.inr hf)).1
      rw [hpub] at this; cases this
  · cases hr : raises with
    | false => rfl
    | true =>
      have := (accepted_trigger_unpublished cfg raises ok content fs0 e t m h (Or.inl hr)).1
      rw [hpub] at this; cases this

/-- **Cleanup**: after an accepted failed save with `rm_part_on_exc`, unless the plan made an unlink of
    the part file fail, either no part file is left, or this save never created one (inode table
    untouched, the part name as at the start - or removed by `overwrite_part`) -/
theorem accepted_part_removed (cfg : Cfg) (raises : Bool) (content : Bytes) (fs0 : FS) (e : Nat) (t : List Obs) (m : M)
    (h : Observed cfg raises false content fs0 e t m) (hrm : cfg.rmPartOnExc = true) (hcf : unlinkFaulted t = false) :
    m.fs.dir.part = none ∨ (m.fs.inodes = fs0.inodes ∧ (m.fs.dir.part = fs0.dir.part ∨ cfg.overwritePart = true)) := by
  obtain ⟨a, ha, hend, r, _, _⟩ := h.rj
  have huf : a.ufail = false := by
    have := (A_run_flags cfg raises t A.init a ha).1
    simpa [A.init, hcf] using this
  have hph := (accEnd_spec _ _ _ _ _ _ _ _ hend).2.1 rfl hrm huf
  rcases hph with h0 | hab | hdn
  · right
    have hino : m.fs.inodes = fs0.inodes := ginv_init_inodes _ _ _ _ r.j.inv h0
    refine ⟨hino, ?_⟩
    by_cases hu : Ev.unlinkPart ∈ m.tr
    · right
      cases hop : cfg.overwritePart with
      | true => rfl
      | false => exact absurd hu (r.nounlink hop h0)
    · exact Or.inl ((r.j.pinit h0).1 hu)
  · exact Or.inl (ginv_part_none _ _ a.s _ _ r.j.inv (Or.inl hab))
  · exact Or.inl (ginv_part_none _ _ a.s _ _ r.j.inv (Or.inr hdn))

/-- **A pre-existing part file is never reused or overwritten unless `overwrite_part` is set**: in an
    accepted trace the caller saw an exception, the part name still points to the same inode and the
    inode table is untouched (nothing was created or written) -/
theorem accepted_existing_part_untouched (cfg : Cfg) (raises ok : Bool) (content : Bytes) (fs0 : FS) (e : Nat) (t : List Obs) (m : M)
    (i : Nat) (h : Observed cfg raises ok content fs0 e t m) (hop : cfg.overwritePart = false) (hpart : fs0.dir.part = some i) :
    ok = false ∧ m.fs.dir.part = some i ∧ m.fs.inodes = fs0.inodes ∧ publishes (oks t) = false := by
  obtain ⟨a, ha, hend, r, _, hp⟩ := h.rj
  have h0 : a.s.phase = .init := r.stale hop (by rw [hpart]; simp)
  have hunp : a.s.published = false := by simp [St.published, h0]
  have hino : m.fs.inodes = fs0.inodes := ginv_init_inodes _ _ _ _ r.j.inv h0
  refine ⟨?_, by rw [(r.j.pinit h0).1 (r.nounlink hop h0), hpart], hino, by rw [← hp]; exact hunp⟩
  cases hok : ok with
  | false => rfl
  | true =>
    subst hok
    have := (accepted_failure_reported cfg raises content fs0 e t m h).1
    rw [← hp, hunp] at this; cases this

/-- **A published destination holds exactly the bytes the block wrote** -/
theorem accepted_content (cfg : Cfg) (raises ok : Bool) (content : Bytes) (fs0 : FS) (e : Nat) (t : List Obs) (m : M)
    (h : Observed cfg raises ok content fs0 e t m) (hpub : publishes (oks t) = true) :
    m.fs.readDest = some content ∧ raises = false := by
  obtain ⟨a, ha, hend, r, htr, hp⟩ := h.rj
  have hsp : a.s.published = true := by rw [hp]; exact hpub
  have hr : raises = false := by
    cases hh : raises with
    | false => rfl
    | true => have := r.raised hh; rw [hsp] at this; cases this
  have hcontent := (accEnd_spec _ _ _ _ _ _ _ _ hend).2.2.1 hsp
  refine ⟨?_, hr⟩
  have hi := r.j.inv
  rw [htr, hcontent] at hi
  obtain ⟨d1, x, d4, d5, d6⟩ := ginv_pub _ _ _ _ hi hsp
  simp [FS.readDest, FS.inode?, d1, d4, Inode.cache, d5, d6]

/-- **Permissions of a published destination**: explicit `file_perms`, else those of the replaced
    file, else `0o666 & ~umask` (no interference by another process) -/
theorem accepted_perms (cfg : Cfg) (raises ok : Bool) (content : Bytes) (fs0 : FS) (e : Nat) (t : List Obs) (m : M)
    (h : Observed cfg raises ok content fs0 e t m) (hpub : publishes (oks t) = true) (hne : hasAppear t = false) :
    m.fs.destMode = some (expectedPerms cfg fs0) := by
  obtain ⟨a, ha, hend, r, htr, hp⟩ := h.rj
  have hsp : a.s.published = true := by rw [hp]; exact hpub
  have henv : a.env = false := by
    have := (A_run_flags cfg raises t A.init a ha).2.1
    simpa [A.init, hne] using this
  have hmode := (accEnd_spec _ _ _ _ _ _ _ _ hend).2.2.2 hsp henv
  have hph : a.s.phase ≠ .init := by intro h; simp [St.published, h] at hsp
  obtain ⟨x, hx, _⟩ := ginv_shape _ _ a.s _ _ r.j.inv hph
  have hm := r.j.mode hph x hx
  rw [htr, hmode] at hm
  have hdest : m.fs.dir.dest = some fs0.inodes.length := (ginv_pub _ _ _ _ r.j.inv hsp).1
  have : m.fs.destMode = some x.mode := by simp [FS.destMode, FS.inode?, hdest, hx]
  rw [this, hm]
  rfl

/-- **Crash safety of what was observed**: the successful events of an accepted trace satisfy C04's
    `SafeTrace` (so `C04.safeTrace_crash_safe` applies to every observed faulty run) -/
theorem accepted_trace_safe (cfg : Cfg) (raises ok : Bool) (content : Bytes) (um : Nat) (dm0 : Option Nat) (t : List Obs)
    (h : Accept cfg raises ok content um dm0 t = true) : SafeTrace (oks t) = true := by
  unfold Accept at h
  cases ha : A.init.run cfg raises t with
  | none => simp [ha] at h
  | some a =>
    have := A_run_st cfg raises t A.init a ha
    simp only [A.init] at this
    simp [SafeTrace, this]

/-- **The replay is C04's `exec`**: without interference the file system reached by replaying an
    observed trace is `C04.exec` of its successful events (calls that reported an error change nothing) -/
theorem accepted_replay_is_exec (fs0 : FS) (e : Nat) (t : List Obs) (m : M)
    (hne : hasAppear t = false) (hrun : replay (M.start fs0 e) t = some m) :
    exec fs0 (oks t) = some m.fs := by
  have := replay_X fs0 t _ m hne (by simp [X, M.start, exec]) hrun
  have htr : m.tr = oks t := by simpa [M.start] using replay_tr t _ m hrun
  rw [← htr]; exact this

/-- **Retry**: the state an accepted failed save leaves behind (with `rm_part_on_exc`, no unlink of the
    part file made to fail, the part name free at the start or `overwrite_part`, and the destination
    writable) is one from which a fault-free save completes with the full new content and no part file -/
theorem accepted_retry_ready (cfg : Cfg) (raises : Bool) (content : Bytes) (fs0 : FS) (e : Nat) (t : List Obs) (m : M)
    (sc2 : Script) (h : Observed cfg raises false content fs0 e t m) (hrm : cfg.rmPartOnExc = true)
    (hcf : unlinkFaulted t = false) (hpart : fs0.dir.part = none ∨ cfg.overwritePart = true)
    (hdest : m.fs.dir.dest = none ∨ cfg.overwrite = true) (hr2 : sc2.raises = false) (hnc2 : noCloseOps sc2.ops = true) :
    out cfg sc2 noFaults m.fs e = .ok ∧ (fin cfg sc2 noFaults m.fs e).fs.readDest = some sc2.content ∧
    (fin cfg sc2 noFaults m.fs e).fs.dir.part = none := by
  have hp2 : m.fs.dir.part = none ∨ cfg.overwritePart = true := by
    rcases accepted_part_removed cfg raises content fs0 e t m h hrm hcf with h | ⟨_, h | h⟩
    · exact Or.inl h
    · rcases hpart with hp | hp
      · exact Or.inl (h.trans hp)
      · exact Or.inr hp
    · exact Or.inr h
  have hok := runScript_nofault_ok cfg m.fs e sc2 noFaults (fun _ => rfl) hp2 hdest hr2 hnc2
  obtain ⟨h1, _, _, h4⟩ := failure_is_reported cfg sc2 noFaults _ e hok
  exact ⟨hok, (published_content cfg sc2 noFaults _ e h1).1, h4⟩


/-- hence a crash at ANY point of ANY accepted observed run is safe: for every prefix of the successful
    events and both crash semantics the destination reads the old state or the complete new content
    (`C04.safeTrace_crash_safe` applied to `accepted_trace_safe`) -/
theorem accepted_crash_safe (cfg : Cfg) (raises ok : Bool) (content : Bytes) (fs0 : FS) (t : List Obs)
    (hacc : Accept cfg raises ok content fs0.umask fs0.destMode t = true)
    (hwf : fs0.WF) (hh : fs0.hist = []) (hsy : DestSynced fs0) :
    ∀ p q fs, oks t = p ++ q → exec fs0 p = some fs →
      (fs.destAfterProcCrash = fs0.readDest ∨ fs.destAfterProcCrash = some (allWrites (oks t))) ∧
      (∀ r, fs.PowerDest r → r = fs0.readDest ∨ r = some (allWrites (oks t))) ∧
      (publishes p = false → fs.destAfterProcCrash = fs0.readDest ∧ ∀ r, fs.PowerDest r → r = fs0.readDest) := by
  intro p q fs ht hx
  have := safeTrace_crash_safe fs0 _ hwf hh hsy (accepted_trace_safe cfg raises ok content _ _ t hacc) p q fs ht hx
  exact ⟨this.1, this.2.1, this.2.2.1⟩

/-- **The fault-free runs of the transliteration are accepted**: for every configuration, initial state
    and write-only with-block, the events `runScript` performs without faults (`nofault_trace_is_saverTrace`)
    form an accepted trace - as a completed save when the block does not raise, as a failed one when it
    does.  (`Accept` is satisfiable in every configuration, and the theorems about `runScript` and the
    `accepted_*` theorems speak about the same runs there.) -/
theorem nofault_runs_are_accepted (cfg : Cfg) (fs0 : FS) (body : Body) :
    Accept cfg body.raises (!body.raises) (newContent body) fs0.umask fs0.destMode
      ((saverTrace cfg fs0 body).map Obs.ok) = true :=
  saverTrace_accepted cfg fs0 body

/-! ### histories of saves on the same directory -/

/-- **The state an accepted save leaves behind is a legitimate starting state**: well-formed, the
    bookkeeping inode untouched - so every `accepted_*` theorem applies to the NEXT save on the same
    directory (the retry, the same `AtomicSaver` object used again, another saver) -/
theorem accepted_next_start (cfg : Cfg) (raises ok : Bool) (content : Bytes) (fs0 : FS) (e : Nat) (t : List Obs) (m : M)
    (hst : Start fs0 e) (h : Observed cfg raises ok content fs0 e t m) (hne : hasAppear t = false) : Start m.fs e :=
  h.next_start hst hne

/-- **Any number of failed saves in a row leave the destination as it was**: in a history of accepted
    saves (each started in the state its predecessor left; any configurations, any faults) none of which
    is published, the destination has at the end exactly the bytes and mode it had at the start -/
theorem history_of_failures_preserves_dest (e : Nat) (fs0 fs : FS) (saves : List SaveObs)
    (hst : Start fs0 e) (h : History e fs0 saves fs) (hnp : ∀ s ∈ saves, publishes (oks s.t) = false) :
    fs.readDest = fs0.readDest ∧ fs.destMode = fs0.destMode :=
  h.unpublished_dest hst hnp

/-- **The destination always holds the content of the last completed save**: in a history of accepted
    saves `pre ++ [s] ++ post` where `s` is published and none of `post` is, the destination holds at the
    end exactly the bytes written by `s`'s block - whatever failed in the saves after it -/
theorem history_last_completed_save_wins (e : Nat) (fs0 fs : FS) (pre post : List SaveObs) (s : SaveObs)
    (hst : Start fs0 e) (h : History e fs0 (pre ++ s :: post) fs) (hpub : publishes (oks s.t) = true)
    (hnp : ∀ x ∈ post, publishes (oks x.t) = false) : fs.readDest = some s.content := by
  obtain ⟨mid, h1, h2⟩ := History.split pre (s :: post) fs0 fs h
  have hmid := h1.start hst
  cases h2 with
  | cons _ _ m _ _ hobs hne hrest =>
    have hs := hobs.next_start hmid hne
    rw [(hrest.unpublished_dest hs hnp).1]
    exact hobs.published_dest hpub

/-! ### histories in a changing world: one saver object, several saves, the world moves in between

`HistoryE e fs0 steps fs` = any interleaving of accepted, executable saves (`Step.save`: each with its own
configuration, judged by `Accept` with the umask and the destination's permission bits of the state THAT
save starts from) and moves of the world between them (`Step.env`: the destination chmod-ed, deleted,
replaced by another writer's file with its own permission bits, the process umask changed).  The check
sends such histories, recorded on ONE long-lived `AtomicSaver` object (and on two objects taking turns),
to the driver, which judges every save exactly like this. -/

/-- **A move of the world between two saves keeps the state a legitimate starting state**, and so does
    every history: all `accepted_*` theorems apply to every save of a history -/
theorem history_env_next_start (e : Nat) (fs0 fs : FS) (steps : List Step)
    (hst : Start fs0 e) (h : HistoryE e fs0 steps fs) : Start fs e :=
  h.start hst

/-- **What a reader finds at the destination after ANY history is what the trivial specification machine says**
    (`viewRun` = fold of `stepView`): a move of the world acts on (bytes, permission bits, umask) as such; a save that
    is not published leaves all three as they are - whatever failed in it, and wherever; a published save puts the
    block's bytes there with the permission bits `expectedMode cfg <mode of the destination NOW> <umask NOW>` -/
theorem history_view_is_spec (e : Nat) (fs0 fs : FS) (steps : List Step)
    (hst : Start fs0 e) (h : HistoryE e fs0 steps fs) : viewOf fs = viewRun (viewOf fs0) steps :=
  h.view hst

/-- **The permissions of each completed save are a function of the state THAT save starts from only** - explicit
    `file_perms`, else the permission bits the destination has at the time of that save (after whatever chmod /
    replacement / deletion happened since the saver object was created or last used), else `0o666 & ~umask` with the
    umask in force at the time of that save.  In a history `pre ++ [save s] ++ post` with `s` published: there is the
    state `mid` reached by `pre` in which `s` starts, and the destination has right after `s` the mode
    `expectedMode s.cfg mid.destMode mid.umask`, where `(mid.destMode, mid.umask)` is what the specification machine
    computes from `pre` - nothing remembered from an earlier use enters -/
theorem perms_depend_on_current_start_only (e : Nat) (fs0 fs : FS) (pre post : List Step) (s : SaveObs)
    (hst : Start fs0 e) (h : HistoryE e fs0 (pre ++ .save s :: post) fs) (hpub : publishes (oks s.t) = true) :
    ∃ mid m, HistoryE e fs0 pre mid ∧ Observed s.cfg s.raises s.ok s.content mid e s.t m ∧ HistoryE e m.fs post fs ∧
      m.fs.destMode = some (expectedMode s.cfg mid.destMode mid.umask) ∧
      m.fs.readDest = some s.content ∧
      viewOf mid = viewRun (viewOf fs0) pre := by
  obtain ⟨mid, h1, h2⟩ := HistoryE.split pre (.save s :: post) fs0 fs h
  cases h2 with
  | save _ _ m _ _ hobs hne hrest =>
    exact ⟨mid, m, h1, hobs, hrest, hobs.published_mode hpub hne, hobs.published_dest hpub, h1.view hst⟩

/-- hence: two completed saves with the same `file_perms` that start in states with the same destination mode and
    the same umask give the destination the same permission bits - whatever histories (other saves through the same
    object, failures, moves of the world) led to those two states, and whatever call sequences the two saves used -/
theorem perms_same_start_same_result (cfg1 cfg2 : Cfg) (r1 r2 ok1 ok2 : Bool) (c1 c2 : Bytes) (fs1 fs2 : FS) (e1 e2 : Nat)
    (t1 t2 : List Obs) (m1 m2 : M)
    (h1 : Observed cfg1 r1 ok1 c1 fs1 e1 t1 m1) (h2 : Observed cfg2 r2 ok2 c2 fs2 e2 t2 m2)
    (hp1 : publishes (oks t1) = true) (hp2 : publishes (oks t2) = true)
    (hn1 : hasAppear t1 = false) (hn2 : hasAppear t2 = false)
    (hcfg : cfg1.perms = cfg2.perms) (hmode : fs1.destMode = fs2.destMode) (hum : fs1.umask = fs2.umask) :
    m1.fs.destMode = m2.fs.destMode := by
  rw [h1.published_mode hp1 hn1, h2.published_mode hp2 hn2]
  simp [expectedMode, hcfg, hmode, hum]

/-- a history in which nothing is published shows a reader exactly what the moves of the world alone produce -/
theorem history_failed_saves_invisible (e : Nat) (fs0 fs : FS) (steps : List Step)
    (hst : Start fs0 e) (h : HistoryE e fs0 steps fs)
    (hnp : ∀ s, Step.save s ∈ steps → publishes (oks s.t) = false) :
    viewOf fs = viewRun (viewOf fs0) (steps.filter (fun st => match st with | .env _ => true | .save _ => false)) := by
  rw [h.view hst]
  clear h hst
  generalize viewOf fs0 = v
  induction steps generalizing v with
  | nil => rfl
  | cons st rest ih =>
    cases st with
    | env x =>
      simp only [viewRun, List.foldl_cons, List.filter_cons, if_true] at ih ⊢
      exact ih (fun s hs => hnp s (by simp [hs])) _
    | save s =>
      have hs := hnp s (by simp)
      simp only [viewRun, List.foldl_cons, List.filter_cons, stepView, hs] at ih ⊢
      exact ih (fun s hs => hnp s (by simp [hs])) _

/-! ### the two layers meet -/

/-- **Every run of the transliteration is an accepted trace.**  For every configuration, initial state,
    with-block script (any sequence of write / flush / close calls, raising or not) and EVERY fault plan
    (any number of failing calls, any errno or exception class; no other process interfering, no injected
    ENOENT - which `os.stat` answers by "absent"): what `runScript` records of its own calls (`M.obs`: every
    call that went through with its effect, every call that reported an error with its flags) is a trace
    that `Accept` accepts - with NO excluded region (round 3b): also the runs with overwrite=False in which the
    `link` succeeded and the `unlink` of the part file after it failed, i.e. an exception although published
    (excluded until `no_listed_failure_before_publication` below was proved).
    So `Accept` is satisfiable under arbitrary faults, and the `accepted_*` theorems apply to the very runs
    the theorems about `runScript` speak of.  (The check compares `M.obs` token by token with the trace
    recorded on the real code in every case.) -/
theorem transliteration_runs_are_accepted (cfg : Cfg) (sc : Script) (plan : Plan) (fs0 : FS) (e : Nat)
    (hne : ∀ k, plan k ≠ .appear) (hnn : ∀ k, plan k ≠ .fail ENOENT) :
    Accept cfg sc.raises (decide (out cfg sc plan fs0 e = .ok)) sc.content fs0.umask fs0.destMode
      (fin cfg sc plan fs0 e).obs = true :=
  runScript_accepted cfg sc plan fs0 e hne hnn

/-- **The transliteration attempts the publication only when everything before it went through**: under every plan
    without interference, if its record contains a publication (rename / link onto the destination) then no listed
    step (creating or chmod-ing the part file, write, flush, fsync, close, link / rename) reported an error before it.
    (Proved by a walk through `setup` / the block / `__exit__` / `atomic_rename` with a result-dependent invariant,
    Region.lean; it is what closes the formerly excluded region of `transliteration_runs_are_accepted`.) -/
theorem no_listed_failure_before_publication (cfg : Cfg) (sc : Script) (plan : Plan) (fs0 : FS) (e : Nat)
    (hne : ∀ k, plan k ≠ .appear) (hpub : publishes (oks (fin cfg sc plan fs0 e).obs) = true) :
    failedBefore (fin cfg sc plan fs0 e).obs = false :=
  runScript_pubClean cfg sc plan fs0 e hne hpub

/-- for EVERY plan (interference included) the recorded observations are faithful bookkeeping: their
    successful events are the recorded events (up to calls without effect), a listed failure is counted
    as an error, a cleanup unlink that the plan made fail shows as such, and `appear` is recorded exactly
    when the other process acted -/
theorem transliteration_observations_faithful (cfg : Cfg) (sc : Script) (plan : Plan) (fs0 : FS) (e : Nat) :
    (oks (fin cfg sc plan fs0 e).obs).filter notNoop = (fin cfg sc plan fs0 e).tr.filter notNoop ∧
    (listedFailed (fin cfg sc plan fs0 e).obs = true → 0 < (fin cfg sc plan fs0 e).errs) ∧
    ((fin cfg sc plan fs0 e).cleanupFaulted = true → unlinkFaulted (fin cfg sc plan fs0 e).obs = true) ∧
    hasAppear (fin cfg sc plan fs0 e).obs = (fin cfg sc plan fs0 e).envDone :=
  let t := runScript_T cfg sc plan fs0 e
  ⟨t.oks, t.lf, t.cf, t.env⟩

/-- **Without `overwrite_part` the transliteration never removes a part file it did not create**: under
    every plan no unlink of the part file precedes its creation -/
theorem no_unlink_before_creation (cfg : Cfg) (sc : Script) (plan : Plan) (fs0 : FS) (e : Nat)
    (hop : cfg.overwritePart = false) : headUnlink (fin cfg sc plan fs0 e).tr = false :=
  runScript_headUnlink cfg sc plan fs0 e hop

/-- **Probes are free**: observations without effect on the automaton - successful calls without effect
    on the two names (stat, lstat, fdopen, fcntl, close of a closed object ...) and calls that failed on
    their own without being a listed step (an `unlink` / `stat` answering ENOENT) - can be inserted or
    removed anywhere without changing the verdict: how many probes an implementation makes, and where,
    is not constrained -/
theorem accept_ignores_probes (cfg : Cfg) (raises ok : Bool) (content : Bytes) (um : Nat) (dm0 : Option Nat) (t : List Obs) :
    Accept cfg raises ok content um dm0 (dropProbes t) = Accept cfg raises ok content um dm0 t :=
  accept_dropProbes cfg raises ok content um dm0 t

/-- translator obligation (regenerated from the current source on every run): inside `AtomicSaver`,
    `atomic_save`, `atomic_rename`, `replace` and `set_cloexec` there is no call by which the file
    system or the process state could be changed behind the recorder's back (os.sendfile, os.umask,
    os.chdir, shutil.*, pathlib.*, tempfile.*, subprocess.* ...): the observed traces are complete -/
theorem source_calls_are_recorded : Gen.unseenCalls = [] := by decide

/-! ### the classification of recorded calls (`C05.classify`, Classify.lean)

The driver evaluates `Accept` / `replay` on a trace that equals `classify` of the raw facts the recorder noted about
every call (checked on every case: `cls=ok`).  What the reading of the `accepted_*` theorems relies on: -/

/-- **"Listed step" means the same thing on both sides**: when a recorded call acts on the part file (its event is
    one of: create, chmod, write, flush, fsync, close, os.close, rename / link onto the destination, unlink), the flag
    `listed` with which a FAILURE of that call is recorded (`listedKind`: the call's NAME is one of those under which the
    steps "creating or chmod-ing the part file, write, flush, fsync, close, link/rename" appear) is the model's `listedEv`
    of the event the call performs when it goes through - the flag the transliteration uses for its own failures -/
theorem classify_listed_is_model_listed (r : Raw) (hn : eventOf r ≠ .noop) (hu : eventOf r ≠ .unknown)
    (hd : ∀ d, eventOf r ≠ .writeDest d) (ht : eventOf r ≠ .truncDest) (hud : eventOf r ≠ .unlinkDest) :
    listedKind r.kind = listedEv (eventOf r) := by
  obtain ⟨k, roles, ok, inj, wr, creat, excl, trunc, created, samedir, onFd, wasClosed, performed, appeared, mode, data⟩ := r
  have hd' := hd data
  revert hn hu hd' ht hud
  clear hd
  cases k <;> simp only [eventOf, listedKind, listedEv] <;> (repeat' split) <;> simp_all

/-- **A publication is a rename / replace / link of the part name onto the destination name, and nothing else is** -/
theorem classify_publication_iff (r : Raw) :
    isPub (eventOf r) = true ↔ ((r.kind = .rename ∨ r.kind = .link) ∧ r.roles = [.part, .dest]) := by
  obtain ⟨k, roles, ok, inj, wr, creat, excl, trunc, created, samedir, onFd, wasClosed, performed, appeared, mode, data⟩ := r
  constructor
  · intro h
    have key : ∀ ev, isPub ev = true → ev = .renamePartDest ∨ ev = .linkPartDest := by
      intro ev hev; cases ev <;> simp [isPub] at hev ⊢
    rcases key _ h with h | h <;>
      (cases k <;> simp only [eventOf] at h <;> (repeat' (split at h)) <;> simp_all)
  · rintro ⟨hk | hk, hr⟩ <;> simp only at hk hr <;> subst hk <;> subst hr <;>
      simp [eventOf, isPub, Raw.touches]

/-- **A call on an unrelated path is a probe**: whatever it is called, a call that touches neither the destination nor
    the part file name is observed as a successful call without effect - or, when it failed on its own, as an unlisted
    failure... only if its name is not one of the listed steps; either way it has no effect on the abstract file system -/
theorem classify_unrelated_no_effect (r : Raw) (m : M) (ht : r.touches = false) (hc : r.closedAnyway = false) :
    ∃ m', replayStep m (classify1 r).1 = some m' ∧ m'.fs = m.fs ∧ m'.tr = m.tr ++ (if r.ok then [.noop] else []) := by
  have hev : eventOf r = .noop := by
    unfold eventOf
    split; · rfl
    split; · rfl
    split; · rfl
    simp [ht]
  unfold classify1
  cases hok : r.ok with
  | true => simp [hev, replayStep, exe, FS.step]
  | false => simp [hc, replayStep]

/-- **A call that reported an error changes nothing** on the abstract file system (except the `close()` that closed all the same) -/
theorem classify_failure_no_effect (r : Raw) (m : M) (hok : r.ok = false) (hc : r.closedAnyway = false) :
    ∃ m', replayStep m (classify1 r).1 = some m' ∧ m'.fs = m.fs ∧ m'.tr = m.tr := by
  simp [classify1, hok, hc, replayStep]

-- the records of a plain save over an existing file whose fsync is made to fail classify to `obsFsyncFails`
def rawBase : Raw := ⟨.other, [], true, false, false, false, false, false, false, true, false, false, false, false, 0, []⟩
def rawFsyncFails : List Raw :=
  [{ rawBase with kind := kindOf "os.stat", roles := [.dest] },
   { rawBase with kind := kindOf "os.open", roles := [.part], wr := true, creat := true, excl := true, created := true, mode := 0o640 },
   { rawBase with kind := kindOf "os.fdopen", roles := [.part] },
   { rawBase with kind := kindOf "os.chmod", roles := [.part], mode := 0o640 },
   { rawBase with kind := kindOf "file.write", roles := [.part], wr := true, data := [78, 69] },
   { rawBase with kind := kindOf "file.write", roles := [.part], wr := true, data := [87] },
   { rawBase with kind := kindOf "file.flush", roles := [.part], wr := true },
   { rawBase with kind := kindOf "os.fsync", roles := [.part], ok := false, inj := true },
   { rawBase with kind := kindOf "file.close", roles := [.part], wr := true },
   { rawBase with kind := kindOf "os.unlink", roles := [.part] }]
-- the same steps under their other names classify to the same observations
example : eventOf { rawBase with kind := kindOf "os.replace", roles := [.part, .dest] } = .renamePartDest ∧
    eventOf { rawBase with kind := kindOf "os.fchmod", roles := [.part], mode := 0o600 } = .chmodPart 0o600 ∧
    eventOf { rawBase with kind := kindOf "os.remove", roles := [.part] } = .unlinkPart ∧
    eventOf { rawBase with kind := kindOf "os.rename", roles := [.dest, .part] } = .unknown ∧
    eventOf { rawBase with kind := kindOf "os.chmod", roles := [.dest], mode := 0o600 } = .unknown ∧
    listedKind (kindOf "os.replace") = true ∧ listedKind (kindOf "os.unlink") = false ∧ listedKind (kindOf "os.stat") = false := by decide

/-! ### non-vacuity of the acceptance theorems: concrete observed traces -/

/-- what the code does for a plain save over an existing file (mode 0o640) when `os.fsync` is made to fail:
    stat, open, fdopen, chmod, two writes, flush, fsync FAILS, close, unlink of the part file -/
def obsFsyncFails : List Obs :=
  [.ok .noop, .ok (.openPart true true 0o640), .ok .noop, .ok (.chmodPart 0o640), .ok (.write [78, 69] 0),
   .ok (.write [87] 0), .ok .flush, .fail true true false, .ok .close, .ok .unlinkPart]
/-- a completed save written differently: no probe at all, the permissions set through the descriptor
    BEFORE `fdopen`, an extra (failing, tolerated) unlink of a part file that is not there -/
def obsOtherOrder : List Obs :=
  [.fail false false true, .ok (.openPart true true 0o640), .ok (.chmodPart 0o640), .ok .noop, .ok (.write [78, 69] 0),
   .ok (.write [87] 0), .ok .flush, .ok .fsync, .ok .close, .ok .renamePartDest]

example : Accept {} false false [78, 69, 87] 0o022 (some 0o640) obsFsyncFails = true := by decide
example : dropProbes obsFsyncFails = [.ok (.openPart true true 0o640), .ok (.chmodPart 0o640), .ok (.write [78, 69] 0),
   .ok (.write [87] 0), .ok .flush, .fail true true false, .ok .close, .ok .unlinkPart] := by decide
example : (replay (M.start fsEx 1) obsFsyncFails).isSome = true ∧ failedBefore obsFsyncFails = true ∧
    unlinkFaulted obsFsyncFails = false ∧ publishes (oks obsFsyncFails) = false := by decide
example : Accept {} false true [78, 69, 87] 0o022 (some 0o640) obsOtherOrder = true ∧
    (replay (M.start fsEx 1) obsOtherOrder).isSome = true ∧ publishes (oks obsOtherOrder) = true ∧
    hasAppear obsOtherOrder = false := by decide
-- the transliteration's own record of the run in which fsync fails (fsEx: destination present, mode 0o640) is the
-- trace `obsFsyncFails` above - and it is accepted; the formerly excluded region is not empty
example : (fin {} bodyEx (failAt 7 5) fsEx 1).obs = obsFsyncFails ∧
    (fin {} bodyEx (failAt 7 5) fsEx 1).published = false := by decide
example : out { overwrite := false, overwritePart := true } bodyEx (failAt 10 1) fsEx2 1 ≠ .ok ∧
    (fin { overwrite := false, overwritePart := true } bodyEx (failAt 10 1) fsEx2 1).published = true := by decide
-- ... and that run (the formerly excluded region: exception although published) is accepted as well; its record ends
-- with the link, the unlink that the plan made fail, and the cleanup unlink that went through
example : Accept { overwrite := false, overwritePart := true } false false [78, 69, 87] fsEx2.umask fsEx2.destMode
      (fin { overwrite := false, overwritePart := true } bodyEx (failAt 10 1) fsEx2 1).obs = true ∧
    (fin { overwrite := false, overwritePart := true } bodyEx (failAt 10 1) fsEx2 1).obs.drop 9 =
      [.ok .linkPartDest, .fail false true true, .ok .unlinkPart] ∧
    failedBefore (fin { overwrite := false, overwritePart := true } bodyEx (failAt 10 1) fsEx2 1).obs = false := by decide
-- a history: the save whose fsync fails, then the completed one (from the state the first left)
def mEx1 : M := (replay (M.start fsEx 1) obsFsyncFails).get (by decide)
def mEx2 : M := (replay (M.start mEx1.fs 1) obsOtherOrder).get (by decide)
example : History 1 fsEx [⟨{}, false, false, [78, 69, 87], obsFsyncFails⟩, ⟨{}, false, true, [78, 69, 87], obsOtherOrder⟩] mEx2.fs :=
  History.cons fsEx _ mEx1 _ _ ⟨by decide, by simp [mEx1]⟩ (by decide)
    (History.cons mEx1.fs _ mEx2 _ _ ⟨by decide, by simp [mEx2]⟩ (by decide) (History.nil _))
example : mEx1.fs.readDest = some [79, 76, 68] ∧ mEx2.fs.readDest = some [78, 69, 87] ∧ mEx2.fs.destMode = some 0o640 := by decide
-- a history in a changing world: a new file (umask 022 -> 0o644), the administrator tightens it to 0o600, the SAME saver
-- saves again: the second save must produce 0o600.  The trace of a saver that remembers the permissions it resolved at
-- its first use (creates the part file with 0o666 under the umask, no chmod -> 0o644) is NOT accepted for the second save
def fsNew : FS := ⟨[envInode], ⟨none, none⟩, [], none, 0o022⟩
def obsFirst : List Obs :=
  [.fail false false false, .ok (.openPart true true 0o666), .ok .noop, .ok (.write [86, 49] 0), .ok .flush, .ok .fsync, .ok .close,
   .ok .renamePartDest]
def obsSecond : List Obs :=
  [.ok .noop, .ok (.openPart true true 0o600), .ok .noop, .ok (.chmodPart 0o600), .ok (.write [86, 50] 0), .ok .flush, .ok .fsync,
   .ok .close, .ok .renamePartDest]
def obsSecondStale : List Obs :=
  [.ok (.openPart true true 0o666), .ok .noop, .ok (.write [86, 50] 0), .ok .flush, .ok .fsync, .ok .close, .ok .renamePartDest]
def mH1 : M := (replay (M.start fsNew 0) obsFirst).get (by decide)
def fsH2 : FS := (EnvStep.chmodDest 0o600).apply mH1.fs
def mH3 : M := (replay (M.start fsH2 0) obsSecond).get (by decide)
example : Start fsNew 0 := ⟨by decide, by decide, by decide, by decide, by decide⟩
example : HistoryE 0 fsNew [.save ⟨{}, false, true, [86, 49], obsFirst⟩, .env (.chmodDest 0o600), .save ⟨{}, false, true, [86, 50], obsSecond⟩] mH3.fs :=
  HistoryE.save fsNew _ mH1 _ _ ⟨by decide, by simp [mH1]⟩ (by decide)
    (HistoryE.env mH1.fs _ _ _ (HistoryE.save fsH2 _ mH3 _ _ ⟨by decide, by simp [mH3]⟩ (by decide) (HistoryE.nil _)))
example : viewOf mH1.fs = ⟨some [86, 49], some 0o644, 0o022⟩ ∧ viewOf fsH2 = ⟨some [86, 49], some 0o600, 0o022⟩ ∧
    viewOf mH3.fs = ⟨some [86, 50], some 0o600, 0o022⟩ := by decide
example : viewRun (viewOf fsNew) [.save ⟨{}, false, true, [86, 49], obsFirst⟩, .env (.chmodDest 0o600),
    .save ⟨{}, false, true, [86, 50], obsSecond⟩] = ⟨some [86, 50], some 0o600, 0o022⟩ := by decide
example : Accept {} false true [86, 50] fsH2.umask fsH2.destMode obsSecondStale = false ∧
    acceptCode {} false true [86, 50] fsH2.umask fsH2.destMode obsSecondStale = 4 ∧
    (replay (M.start fsH2 0) obsSecondStale).isSome = true := by decide
-- the destination deleted and the umask changed between two uses: umask default of the umask NOW
example : viewRun ⟨some [1], some 0o777, 0o022⟩ [.env .unlinkDest, .env (.setUmask 0o027),
    .save ⟨{}, false, true, [86, 50], obsSecondStale⟩] = ⟨some [86, 50], some 0o640, 0o027⟩ := by decide
-- rejected: publication after the failed fsync; a silent failure; the part file left behind; a `rename` with
-- overwrite=False; a stale part file removed without overwrite_part; wrong permission bits; content that is not the block's
example : Accept {} false true [78, 69, 87] 0o022 (some 0o640)
    (obsFsyncFails.take 9 ++ [.ok .renamePartDest]) = false := by decide
example : Accept {} false true [78, 69, 87] 0o022 (some 0o640) obsFsyncFails = false := by decide
example : Accept {} false false [78, 69, 87] 0o022 (some 0o640) (obsFsyncFails.take 9) = false := by decide
example : Accept { overwrite := false } false true [78, 69, 87] 0o022 none obsOtherOrder = false := by decide
example : Accept {} false true [78, 69, 87] 0o022 (some 0o640) (.ok .unlinkPart :: obsOtherOrder) = false ∧
    Accept { overwritePart := true } false true [78, 69, 87] 0o022 (some 0o640) (.ok .unlinkPart :: obsOtherOrder) = true := by decide
example : Accept {} false true [78, 69, 87] 0o022 (some 0o600) obsOtherOrder = false ∧
    Accept {} false true [78, 69] 0o022 (some 0o640) obsOtherOrder = false := by decide
-- overwrite=False: the destination appears just before the link, which then fails (EEXIST, a listed step): accepted
-- as a FAILED save only
example : Accept { overwrite := false } false false [78] 0o022 none
    [.ok .noop, .ok (.openPart true true 0o666), .ok .noop, .ok (.write [78] 0), .ok .flush, .ok .fsync, .ok .close,
     .appear, .fail true false false, .ok .unlinkPart] = true := by decide

-- (round 5) `overwrite=False`, the publishing `os.link` reports "no hard links here" (EPERM / ENOTSUP / ENOSYS - an errno is an
-- opaque number for the model), and the code falls back on "check, then rename": `obsFallback w` is what a recorder sees when
-- the other process creates the destination in the window `w` calls after the failed link (the check itself is a probe)
def obsLinkFails : List Obs :=
  [.fail false false false, .ok (.openPart true true 0o666), .ok .noop, .ok (.write [78] 0), .ok .flush, .ok .fsync, .ok .close,
   .fail true true false]
def obsFallback (appearFirst : Bool) : List Obs :=
  obsLinkFails ++ (if appearFirst then [.ok .noop, .appear, .ok .renamePartDest] else [.ok .noop, .ok .renamePartDest])
-- the abstract file system EXECUTES the schedule with the interference - the other process's file (inode `envIno`, bytes
-- `envInode`) is replaced by the block's bytes and the caller sees no exception: the clobbering is real ...
example : ((replay (M.start fsNew 0) (obsFallback true)).map fun m => (m.fs.readDest, m.envDone)) = some (some [78], true) := by decide
-- ... and `Accept` refuses the trace, with or without the interference, at the rename (observation 9 / 10); so does it when
-- the caller is told (ok = false)
example : Accept { overwrite := false } false true [78] 0o022 none (obsFallback true) = false ∧
    Accept { overwrite := false } false true [78] 0o022 none (obsFallback false) = false ∧
    Accept { overwrite := false } false false [78] 0o022 none (obsFallback true) = false ∧
    stuckAt { overwrite := false } false A.init (obsFallback true) 0 = some 10 ∧
    stuckAt { overwrite := false } false A.init (obsFallback false) 0 = some 9 := by decide
-- what the code must do instead: clean up and raise; the destination appearing at any boundary after the failed link changes nothing
example : Accept { overwrite := false } false false [78] 0o022 none (obsLinkFails ++ [.ok .unlinkPart]) = true ∧
    Accept { overwrite := false } false false [78] 0o022 none (obsLinkFails ++ [.appear, .ok .unlinkPart]) = true ∧
    Accept { overwrite := false } false false [78] 0o022 none (obsLinkFails ++ [.ok .unlinkPart, .appear]) = true ∧
    ((replay (M.start fsNew 0) (obsLinkFails ++ [.appear, .ok .unlinkPart])).map fun m => (m.fs.readDest, m.fs.dir.part)) =
      some (some envBytes, none) := by decide
-- non-vacuity of `accepted_noclobber_publication_is_link`: the ordinary completed no-clobber save (link, unlink)
example : Accept { overwrite := false } false true [78] 0o022 none
      (obsLinkFails.take 7 ++ [.ok .linkPartDest, .ok .unlinkPart]) = true ∧
    (replay (M.start fsNew 0) (obsLinkFails.take 7 ++ [.ok .linkPartDest, .ok .unlinkPart])).isSome = true ∧
    publishes (oks (obsLinkFails.take 7 ++ [.ok .linkPartDest, .ok .unlinkPart])) = true := by decide

-- the raw records of the run in which fsync fails classify to `obsFsyncFails`
example : (rawFsyncFails.flatMap classify).map Prod.fst = obsFsyncFails := by decide

end C05
