import Lean
import BoltonsVerif.C05.Model
/-
Proof automation for C05/SrcTie.lean (not trusted: it only produces proof terms the kernel checks).

`tie_case`: find an INNERMOST closed application of one of the model's instrumented calls (`C05.call`, `callClose`,
`fcall`, `fclose`: results of type `Option Errno × M`) in the goal, abstract every occurrence of it and split on its
result (`(none, m')` / `(some e, m')`).  Fails when no such call is left.  (The `generalize` tactic with a pattern
full of holes does not fail when nothing matches, and matches outermost-first; hence this small tactic.)
-/
namespace C05
open Lean Meta Elab Tactic

def tieHeads : List (Name × Nat) :=
  [(``C05.call, 3), (``C05.callClose, 2), (``C05.fcall, 3), (``C05.fclose, 2)]

partial def findInnermostCall (e : Expr) : Option Expr :=
  let self : Option Expr :=
    if !e.hasLooseBVars && tieHeads.any (fun hn => e.isAppOfArity hn.1 hn.2) then some e else none
  match e with
  | .app f a => (findInnermostCall f) <|> (findInnermostCall a) <|> self
  | .lam _ t b _ => (findInnermostCall t) <|> (findInnermostCall b)
  | .forallE _ t b _ => (findInnermostCall t) <|> (findInnermostCall b)
  | .letE _ t v b _ => (findInnermostCall t) <|> (findInnermostCall v) <|> (findInnermostCall b)
  | .mdata _ b => findInnermostCall b
  | .proj _ _ b => findInnermostCall b
  | _ => none

elab "tie_case" : tactic => withMainContext do
  let g ← getMainGoal
  let t ← instantiateMVars (← g.getType)
  match findInnermostCall t with
  | none => throwError "tie_case: no instrumented call left in the goal"
  | some e =>
    let stx ← Term.exprToSyntax e
    let r := mkIdent `tie_r
    evalTactic (← `(tactic| (generalize $stx = $r:ident at *; rcases $r:ident with ⟨_ | _, _⟩)))


/-- a closed, fully applied call of a translated method (`Src.fileutils.AtomicSaver.<m> sys self … w`: its type is a
    triple) that is still in the goal -/
partial def findCallee (e : Expr) : MetaM (Option Expr) := do
  let sub : Option Expr → MetaM (Option Expr) := fun o => pure o
  match e with
  | .app f a =>
    if let some r ← findCallee f then return some r
    if let some r ← findCallee a then return some r
    if e.hasLooseBVars then return none
    match e.getAppFn with
    | .const n _ =>
      if (`Src.fileutils.AtomicSaver).isPrefixOf n && !(n.toString.endsWith ".body") then
        let t ← whnfR (← inferType e)
        if t.isAppOf ``Prod then return some e else return none
      else return none
    | _ => return none
  | .lam _ t b _ => do
    if let some r ← findCallee t then return some r
    findCallee b
  | .forallE _ t b _ => do
    if let some r ← findCallee t then return some r
    findCallee b
  | .letE _ t v b _ => do
    if let some r ← findCallee t then return some r
    if let some r ← findCallee v then return some r
    findCallee b
  | .mdata _ b => findCallee b
  | .proj _ _ b => findCallee b
  | _ => sub none

/-- `tie_callee`: name the result of the translated method call that is stuck in the goal (everywhere, also in the
    hypotheses: its tie theorem is one of them) and split it into value, object state and world -/
elab "tie_callee" : tactic => withMainContext do
  let g ← getMainGoal
  let t ← instantiateMVars (← g.getType)
  match ← findCallee t with
  | none => throwError "tie_callee: no call of a translated method left in the goal"
  | some e =>
    let stx ← Term.exprToSyntax e
    let r := mkIdent `tie_res
    let a := mkIdent `tie_val
    let b := mkIdent `tie_st
    let c := mkIdent `tie_w
    evalTactic (← `(tactic| (generalize $stx = $r:ident at *; obtain ⟨$a, $b, $c⟩ := $r:ident)))

end C05
