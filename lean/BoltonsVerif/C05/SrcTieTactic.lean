import Lean
import BoltonsVerif.C05.Model
/-
Proof automation for C05/SrcTie.lean (not trusted: it only produces proof terms the kernel checks).

`tie_case`: find an INNERMOST closed application of one of the model's instrumented calls (`C05.call`, `callClose`,
`fcall`, `fclose`: results of type `Option Errno × M`) in the goal, abstract every occurrence of it and split on its
result (`(none, m')` / `(some e, m')`).  Fails when no such call is left.  (The `generalize` tactic with a pattern
full of holes does not fail when nothing matches, and matches outermost-first; hence this small tactic.)
-/
namespace C05
open Lean Meta Elab Tactic

def tieHeads : List (Name × Nat) :=
  [(``C05.call, 3), (``C05.callClose, 2), (``C05.fcall, 3), (``C05.fclose, 2)]

partial def findInnermostCall (e : Expr) : Option Expr :=
  let self : Option Expr :=
    if !e.hasLooseBVars && tieHeads.any (fun hn => e.isAppOfArity hn.1 hn.2) then some e else none
  match e with
  | .app f a => (findInnermostCall f) <|> (findInnermostCall a) <|> self
  | .lam _ t b _ => (findInnermostCall t) <|> (findInnermostCall b)
  | .forallE _ t b _ => (findInnermostCall t) <|> (findInnermostCall b)
  | .letE _ t v b _ => (findInnermostCall t) <|> (findInnermostCall v) <|> (findInnermostCall b)
  | .mdata _ b => findInnermostCall b
  | .proj _ _ b => findInnermostCall b
  | _ => none

elab "tie_case" : tactic => withMainContext do
  let g ← getMainGoal
  let t ← instantiateMVars (← g.getType)
  match findInnermostCall t with
  | none => throwError "tie_case: no instrumented call left in the goal"
  | some e =>
    let (_, g') ← g.generalize #[{ expr := e, xName? := some `tie_r }]
    replaceMainGoal [g']
    let r := mkIdent `tie_r
    evalTactic (← `(tactic| rcases $r:ident with ⟨_ | _, _⟩))

end C05
