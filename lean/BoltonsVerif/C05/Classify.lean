import BoltonsVerif.C05.Accept
/-
C05 — the CLASSIFICATION of recorded calls into observations, as a Lean definition.

The recorder (harness/bv/props/fsspy.py + c05.Spy5) notes FACTS about every counted call the real
`atomic_save` makes: under which name it was called (`os.rename`, `os.replace`, `file.flush`, ...), which
of the two names that matter its path arguments / descriptor / file object refer to (`Role`), whether it
went through, whether the plan made it fail, and the arguments that matter (open flags decoded into
creat / excl / trunc, the mode argument, the bytes of a write ...).  `classify` turns such a record into
the observation(s) of `C05.Obs` that the acceptance predicate is about - by the EFFECT of the call on the
two names, whatever it is called.  The check sends the raw records along with the trace the Python side
classified; the driver demands that both classifications agree on every call of every case (`cls=ok`),
so what `Accept` and `replay` are evaluated on is `classify` of the recorded facts.  Props.lean proves the
facts about `classify` that the reading of the theorems relies on.

Core Lean only.
-/
namespace C05
open C04

inductive Role where
  | dest | part | other
deriving DecidableEq, Repr

/-- the kinds of calls the recorder counts, whatever their spelling -/
inductive Kind where
  | osOpen         -- os.open
  | builtinOpen    -- open(path | fd, mode)
  | fdopen         -- os.fdopen
  | stat           -- os.stat
  | chmod          -- os.chmod, os.fchmod
  | fileWrite      -- f.write, f.writelines
  | fileFlush      -- f.flush
  | fileClose      -- f.close
  | fileOther      -- f.truncate
  | fsync          -- os.fsync, os.fdatasync
  | osClose        -- os.close
  | rename         -- os.rename, os.replace
  | link           -- os.link
  | unlink         -- os.unlink, os.remove
  | fcntl          -- fcntl.fcntl (descriptor flags)
  | other          -- any other counted call (os.mkdir, os.truncate, os.symlink, os.write ...)
deriving DecidableEq, Repr

def kindOf (call : String) : Kind :=
  if call = "os.open" then .osOpen
  else if call = "open" then .builtinOpen
  else if call = "os.fdopen" then .fdopen
  else if call = "os.stat" then .stat
  else if call = "os.chmod" || call = "os.fchmod" then .chmod
  else if call = "file.write" || call = "file.writelines" then .fileWrite
  else if call = "file.flush" then .fileFlush
  else if call = "file.close" then .fileClose
  else if call = "file.truncate" then .fileOther
  else if call = "os.fsync" || call = "os.fdatasync" then .fsync
  else if call = "os.close" then .osClose
  else if call = "os.rename" || call = "os.replace" then .rename
  else if call = "os.link" then .link
  else if call = "os.unlink" || call = "os.remove" then .unlink
  else if call.startsWith "fcntl." then .fcntl
  else .other

/-- is a failure of a call of this kind a failure of one of the steps the property lists: "creating or chmod-ing
    the part file, write, flush, fsync, close, link/rename" -/
def listedKind : Kind → Bool
  | .osOpen | .builtinOpen | .fdopen | .chmod | .fileWrite | .fileFlush | .fileClose | .fsync | .rename | .link => true
  | _ => false

def isUnlinkKind : Kind → Bool
  | .unlink => true
  | _ => false

/-- the facts recorded about one counted call -/
structure Raw where
  kind : Kind
  roles : List Role        -- what the path arguments (or the descriptor / file object) refer to
  ok : Bool                -- the call went through
  inj : Bool               -- the plan made it fail
  wr : Bool                -- the file (object) is / would be open for writing
  creat : Bool             -- open flags: O_CREAT (`w`, `a`, `x` for the builtin)
  excl : Bool              -- O_EXCL (`x`)
  trunc : Bool             -- O_TRUNC (`w`)
  created : Bool           -- the name did not exist before the call
  samedir : Bool           -- the path is in the destination's directory
  onFd : Bool              -- builtin `open` on a descriptor (= fdopen)
  wasClosed : Bool         -- `close()` of an already closed file object
  performed : Bool         -- a `close()` made to fail that closed all the same
  appeared : Bool          -- just before the call the other process created the destination
  mode : Nat               -- the mode argument of open / chmod
  data : Bytes             -- the bytes of a write
deriving DecidableEq, Repr

def Raw.touches (r : Raw) : Bool := r.roles.any (fun x => x == .dest || x == .part)
def Raw.r0 (r : Raw) : Role := r.roles.headD .other

/-- the event a call IS when it goes through: its effect on the destination / part file names -/
def eventOf (r : Raw) : Ev :=
  if r.kind = .fcntl then .noop                                   -- descriptor flags
  else if r.kind = .builtinOpen && r.onFd then .noop              -- wraps a descriptor
  else if r.kind = .stat then .noop                               -- a probe
  else if !r.touches then .noop                                   -- an unrelated path
  else match r.kind with
    | .osOpen | .builtinOpen =>
      if !r.wr then .noop                                         -- read-only open
      else if r.r0 = .dest then (if r.trunc || (r.creat && r.created) then .truncDest else .unknown)
      else if !r.creat || r.trunc then .unknown
      else .openPart r.excl r.samedir r.mode
    | .fdopen => .noop
    | .fileWrite => if !r.wr then .noop else if r.r0 = .part then .write r.data 0 else .writeDest r.data
    | .fileFlush => if !r.wr then .noop else if r.r0 = .part then .flush else .noop
    | .fileClose => if !r.wr then .noop else if r.wasClosed then .noop else if r.r0 = .part then .close else .noop
    | .fileOther => if !r.wr then .noop else .unknown
    | .fsync => if r.r0 = .part then .fsync else .noop
    | .osClose => if r.r0 = .part then .closeFd else .noop
    | .chmod => if r.r0 = .part then .chmodPart r.mode else .unknown
    | .rename => if r.roles = [.part, .dest] then .renamePartDest else .unknown
    | .link => if r.roles = [.part, .dest] then .linkPartDest else .unknown
    | .unlink => if r.r0 = .part then .unlinkPart else .unlinkDest
    | _ => .unknown

/-- for a failure the real file system produced on its own: the event the call would have been, when the abstract
    file system is expected to refuse it as well (events on the part file) -/
def natAnn : Ev → Option Ev
  | .noop | .unknown | .truncDest | .unlinkDest | .writeDest _ => none
  | ev => some ev

/-- a `close()` of the part file object that reported an error but closed the descriptor all the same -/
def Raw.closedAnyway (r : Raw) : Bool :=
  r.kind = .fileClose && r.performed && !r.wasClosed && r.wr && r.r0 = .part

/-- the observation (with the annotation of a natural failure) a recorded call is -/
def classify1 (r : Raw) : Obs × Option Ev :=
  if r.ok then (.ok (eventOf r), none)
  else if r.closedAnyway then (.failClosed (listedKind r.kind), none)
  else (.fail (listedKind r.kind) r.inj (isUnlinkKind r.kind), if r.inj then none else natAnn (eventOf r))

def classify (r : Raw) : List (Obs × Option Ev) :=
  (if r.appeared then [(Obs.appear, none)] else []) ++ [classify1 r]

/-- index of the first observation on which the two classifications differ -/
def firstDiff : List (Obs × Option Ev) → List (Obs × Option Ev) → Nat → Option Nat
  | [], [], _ => none
  | a :: s, b :: t, k => if a = b then firstDiff s t (k + 1) else some k
  | _, _, k => some k

end C05
