import BoltonsVerif.Generated.Src_fileutils
import BoltonsVerif.C05.Props
import BoltonsVerif.C04.Props
/-
C05 — source-translator tie (round 3c, effect mode: notes/SRCTIE.md §1f).

`Generated/Src_fileutils.lean` holds `set_cloexec`, `replace`, `atomic_rename` and `AtomicSaver._rm_part_on_exc`,
`_open_part_file`, `setup`, `__enter__`, `__exit__` as regenerated from boltons/fileutils.py on every run; every
`os.*` / `fcntl.fcntl` / file-object call in them is a field of the record `Src.fileutils.Sys W …` over an abstract
world.  This file instantiates the record with the hand model of C05 (`msys plan`: the abstract file system of
C04/Model.lean under a fault plan - each operation IS the model's instrumented call `C05.call` / `callClose` /
`callStat` / `fcall` / `fclose` on the event the call stands for) and proves that the generated definitions compute
what the transliteration (`C05.rmPart`, `publish`, `openPartFile`, `setup`, `finishG`, `runScript`) computes.

What the instance assumes is exactly what the transliteration assumes (C05/Model.lean):
  * the n-th instrumented call goes through (its effect is `FS.step ev`), fails with the plan's error (no effect,
    except that a failing `file.close()` still closes), or is preceded by the other process creating the destination;
  * `os.path.lexists` is a probe that cannot fail and is not counted; `fcntl.fcntl` (set_cloexec) and `fileno()` have
    no effect on the two names, cannot fail and are not counted;
  * an error is an opaque number for the saver: `excOf` turns the model's `Errno` into the exception value the code
    sees (below 1000: an `OSError` with that errno; 1000: an `OSError` without errno; above: another `Exception`).
The two ghost counters of `C05.M` that no model function reads (`errs`, `cleanupFaulted`) are not computed by the
source; the tie is stated up to them (`erase`).

Proof style: both sides are evaluated symbolically.  The combinators of PyRtC05 and the generated bodies are unfolded
by `simp`, the operations of `msys` are rewritten by their specification lemmas into the model's calls, and the
remaining goal is closed by case analysis on the RESULTS of those calls (`tie_cases`), never by following the order
of the statements of the source.
-/
namespace C05
open C04 PyRtC05 Src.fileutils

/-! ## the instance -/

/-- paths are the roles of Classify.lean: the two names of the model's directory (and anything else) -/
instance : Inhabited Role := ⟨.other⟩

/-- the exception value the code sees for the model's error number -/
def excOf (e : Errno) : Exc :=
  if e < 1000 then ⟨.osError, some e, 0⟩ else if e = 1000 then ⟨.osError, none, 1000⟩ else ⟨.exception, none, e⟩

/-- … and back -/
def codeOf (x : Exc) : Errno :=
  match x.kind, x.errno with
  | .osError, some n => n
  | _, _ => x.tag

/-- forget the ghost counters -/
def erase (m : M) : M := { m with errs := 0, cleanupFaulted := false }

def liftU (r : Option Errno × M) : Except Exc Unit × M :=
  match r with
  | (some e, m) => (.error (excOf e), erase m)
  | (none, m) => (.ok (), erase m)

def O_EXCL : Nat := 0o200

/-- the model's file system under a fault plan as the operating system of the translated code -/
def msys (plan : Plan) : Sys M Role Unit Unit Unit Unit where
  os_stat p m :=
    match p with
    | .dest =>
      (match callStat plan m with
       | (.ok (some mode), m1) => (.ok ⟨0o100000 + mode⟩, erase m1)
       | (.ok none, m1) => (.error (excOf ENOENT), erase m1)
       | (.error e, m1) => (.error (excOf e), erase m1))
    | _ => (.error (excOf 1001), m)
  os_path_lexists p m :=
    (.ok (match p with | .dest => m.fs.dir.dest.isSome | .part => m.fs.dir.part.isSome | .other => false), m)
  os_open p flags mode m :=
    liftU (call plan m (match p with | .part => .openPart (flags &&& O_EXCL != 0) true mode | _ => .unknown))
  os_fdopen _ _ _ m := liftU (call plan m .noop)
  os_chmod p mode m := liftU (call plan m (match p with | .part => .chmodPart mode | _ => .unknown))
  os_unlink p m := liftU (call plan m (match p with | .part => .unlinkPart | .dest => .unlinkDest | .other => .unknown))
  os_close _ m := liftU (call plan m .closeFd)
  os_fsync _ m := liftU (call plan m .fsync)
  os_rename a b m := liftU (call plan m (match a, b with | .part, .dest => .renamePartDest | _, _ => .unknown))
  os_link a b m := liftU (call plan m (match a, b with | .part, .dest => .linkPartDest | _, _ => .unknown))
  fcntl_fcntl _ _ _ m := (.ok 0, m)
  file_flush _ m := liftU (fcall plan m .flush)
  file_close _ m := liftU (fclose plan m)
  file_fileno _ m := (.ok (), m)

/-- the attributes `__init__` leaves for a configuration (`part_file`: whatever an earlier use left) -/
def conc (cfg : Cfg) (pf : Option Unit) : AtomicSaver.St Role Unit Unit Unit Unit where
  dest_path := .dest
  part_path := .part
  overwrite := cfg.overwrite
  file_perms := cfg.perms
  overwrite_part := cfg.overwritePart
  rm_part_on_exc := cfg.rmPartOnExc
  mode := ()
  buffering := -1
  open_flags := 0o400302      -- O_RDWR | O_CREAT | O_EXCL | O_NOFOLLOW
  part_file := pf

/-! ## the ghost counters are never read -/

theorem erase_erase (m : M) : erase (erase m) = erase m := rfl
@[simp] theorem erase_fs (m : M) : (erase m).fs = m.fs := rfl
@[simp] theorem erase_n (m : M) : (erase m).n = m.n := rfl
@[simp] theorem erase_tr (m : M) : (erase m).tr = m.tr := rfl
@[simp] theorem erase_obs (m : M) : (erase m).obs = m.obs := rfl
@[simp] theorem erase_envDone (m : M) : (erase m).envDone = m.envDone := rfl
@[simp] theorem erase_envIno (m : M) : (erase m).envIno = m.envIno := rfl

theorem env_erase (m : M) (a : Act) : (erase m).env a = erase (m.env a) := by
  by_cases h : a = .appear ∧ m.fs.dir.dest = none <;> simp [M.env, erase, h]

theorem exe_erase (m : M) (ev : Ev) :
    (exe (erase m) ev).1 = (exe m ev).1 ∧ erase (exe (erase m) ev).2 = erase (exe m ev).2 := by
  unfold exe; simp only [erase_fs]; split <;> exact ⟨rfl, rfl⟩

theorem call_erase (plan : Plan) (m : M) (ev : Ev) :
    (call plan (erase m) ev).1 = (call plan m ev).1 ∧ erase (call plan (erase m) ev).2 = erase (call plan m ev).2 := by
  unfold call; simp only [erase_n]
  split
  · exact ⟨rfl, rfl⟩
  · exact exe_erase m ev
  · rw [env_erase]; exact exe_erase (m.env .appear) ev

theorem callClose_erase (plan : Plan) (m : M) :
    (callClose plan (erase m)).1 = (callClose plan m).1 ∧ erase (callClose plan (erase m)).2 = erase (callClose plan m).2 := by
  unfold callClose; simp only [erase_n, erase_fs]
  generalize plan m.n = a
  cases a with
  | fail e => cases m.fs.step .close <;> exact ⟨rfl, rfl⟩
  | pass => exact exe_erase m .close
  | appear => simp only [env_erase]; exact exe_erase (m.env .appear) .close

theorem fcall_erase (plan : Plan) (m : M) (ev : Ev) :
    (fcall plan (erase m) ev).1 = (fcall plan m ev).1 ∧ erase (fcall plan (erase m) ev).2 = erase (fcall plan m ev).2 := by
  unfold fcall; simp only [erase_n, erase_fs]
  by_cases h : m.fs.openf.isSome = true
  · simp only [h, if_true]; exact call_erase plan m ev
  · simp only [h, if_false]
    generalize plan m.n = a
    cases a with
    | fail e => exact ⟨rfl, rfl⟩
    | pass => exact ⟨rfl, rfl⟩
    | appear => simp only [env_erase]; exact ⟨rfl, rfl⟩

theorem fclose_erase (plan : Plan) (m : M) :
    (fclose plan (erase m)).1 = (fclose plan m).1 ∧ erase (fclose plan (erase m)).2 = erase (fclose plan m).2 := by
  unfold fclose; simp only [erase_n, erase_fs]
  by_cases h : m.fs.openf.isSome = true
  · simp only [h, if_true]; exact callClose_erase plan m
  · simp only [h, if_false]
    generalize plan m.n = a
    cases a with
    | fail e => exact ⟨rfl, rfl⟩
    | pass => exact ⟨rfl, rfl⟩
    | appear => simp only [env_erase]; exact ⟨rfl, rfl⟩

theorem callStat_erase (plan : Plan) (m : M) :
    (callStat plan (erase m)).1 = (callStat plan m).1 ∧ erase (callStat plan (erase m)).2 = erase (callStat plan m).2 := by
  unfold callStat; simp only [erase_n, erase_fs]
  generalize plan m.n = a
  cases a with
  | fail e => by_cases h : e = ENOENT <;> simp only [h, if_true, if_false] <;> constructor <;> first | rfl | trivial
  | pass => exact ⟨rfl, rfl⟩
  | appear => simp only [env_erase]; exact ⟨rfl, rfl⟩

theorem liftU_congr {r r2 : Option Errno × M} (h : r.1 = r2.1 ∧ erase r.2 = erase r2.2) : liftU r = liftU r2 := by
  obtain ⟨a, b⟩ := r; obtain ⟨c, d⟩ := r2
  simp only at h; obtain ⟨rfl, h2⟩ := h
  cases a <;> simp [liftU, h2]

/-! ## specification of the instance's operations on (ghost-erased) model states -/

@[simp] theorem msys_unlink_part (plan : Plan) (m : M) :
    (msys plan).os_unlink .part (erase m) = liftU (call plan m .unlinkPart) := liftU_congr (call_erase plan m _)
@[simp] theorem msys_rename (plan : Plan) (m : M) :
    (msys plan).os_rename .part .dest (erase m) = liftU (call plan m .renamePartDest) := liftU_congr (call_erase plan m _)
@[simp] theorem msys_link (plan : Plan) (m : M) :
    (msys plan).os_link .part .dest (erase m) = liftU (call plan m .linkPartDest) := liftU_congr (call_erase plan m _)
@[simp] theorem msys_open (plan : Plan) (m : M) (flags mode : Nat) :
    (msys plan).os_open .part flags mode (erase m) = liftU (call plan m (.openPart (flags &&& O_EXCL != 0) true mode)) :=
  liftU_congr (call_erase plan m _)
@[simp] theorem msys_fdopen (plan : Plan) (m : M) (fd md : Unit) (b : Int) :
    (msys plan).os_fdopen fd md b (erase m) = liftU (call plan m .noop) := liftU_congr (call_erase plan m _)
@[simp] theorem msys_chmod (plan : Plan) (m : M) (mode : Nat) :
    (msys plan).os_chmod .part mode (erase m) = liftU (call plan m (.chmodPart mode)) := liftU_congr (call_erase plan m _)
@[simp] theorem msys_close (plan : Plan) (m : M) (fd : Unit) :
    (msys plan).os_close fd (erase m) = liftU (call plan m .closeFd) := liftU_congr (call_erase plan m _)
@[simp] theorem msys_fsync (plan : Plan) (m : M) (fd : Unit) :
    (msys plan).os_fsync fd (erase m) = liftU (call plan m .fsync) := liftU_congr (call_erase plan m _)
@[simp] theorem msys_flush (plan : Plan) (m : M) (f : Unit) :
    (msys plan).file_flush f (erase m) = liftU (fcall plan m .flush) := liftU_congr (fcall_erase plan m _)
@[simp] theorem msys_fclose (plan : Plan) (m : M) (f : Unit) :
    (msys plan).file_close f (erase m) = liftU (fclose plan m) := liftU_congr (fclose_erase plan m)
@[simp] theorem msys_lexists_dest (plan : Plan) (m : M) :
    (msys plan).os_path_lexists .dest (erase m) = (.ok m.fs.dir.dest.isSome, erase m) := rfl
@[simp] theorem msys_lexists_part (plan : Plan) (m : M) :
    (msys plan).os_path_lexists .part (erase m) = (.ok m.fs.dir.part.isSome, erase m) := rfl
@[simp] theorem msys_fcntl (plan : Plan) (m : M) (fd : Unit) (a b : Nat) :
    (msys plan).fcntl_fcntl fd a b m = (.ok 0, m) := rfl
@[simp] theorem msys_fileno (plan : Plan) (m : M) (f : Unit) : (msys plan).file_fileno f m = (.ok (), m) := rfl

/-- unfold the combinators of the runtime (the semantics of the statements) -/
macro "blk_simp" " [" ds:Lean.Parser.Tactic.simpLemma,* "]" : tactic =>
  `(tactic| simp only [runMethod, runFunction, Blk.seq, Blk.ite, Blk.tryExcept, Blk.tryFinally, Blk.call, Blk.callm, Blk.skip,
      Blk.assign, Blk.ret, Blk.raise, Blk.result, $ds,*])

/-- … and finish: full `simp` with the same unfoldings -/
macro "blk_done" " [" ds:Lean.Parser.Tactic.simpLemma,* "]" : tactic =>
  `(tactic| simp [runMethod, runFunction, Blk.seq, Blk.ite, Blk.tryExcept, Blk.tryFinally, Blk.call, Blk.callm, Blk.skip,
      Blk.assign, Blk.ret, Blk.raise, Blk.result, $ds,*])

/-- what an operation's result looks like to the code -/
def liftR (r : Option Errno) : Except Exc Unit :=
  match r with
  | some e => .error (excOf e)
  | none => .ok ()

theorem liftU_eq (r : Option Errno × M) : liftU r = (liftR r.1, erase r.2) := by
  obtain ⟨a, b⟩ := r; cases a <;> rfl

/-! ## `_rm_part_on_exc` -/

theorem excOf_isException (e : Errno) : (excOf e).isException = true := by
  unfold excOf Exc.isException; split
  · simp
  · split <;> simp

/-- **`AtomicSaver._rm_part_on_exc`** as regenerated from the source = the model's `rmPart`: never raises, leaves the
    object alone, and the world is the model's (the unlink is the model's instrumented call; its failure is swallowed) -/
theorem src_rm_part_on_exc_eq_model (cfg : Cfg) (pf : Option Unit) (plan : Plan) (m : M) :
    AtomicSaver.rm_part_on_exc (msys plan) (conc cfg pf) (erase m)
      = (.ok (), conc cfg pf, erase (rmPart cfg plan m)) := by
  blk_simp [AtomicSaver.rm_part_on_exc, AtomicSaver.rm_part_on_exc.body]
  simp only [conc, msys_unlink_part, liftU_eq, rmPart]
  cases cfg.rmPartOnExc
  · simp
  · rcases call plan m .unlinkPart with ⟨_ | e, m1⟩ <;> blk_done [liftR, excOf_isException, erase]

end C05
