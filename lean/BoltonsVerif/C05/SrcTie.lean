import BoltonsVerif.Generated.Src_fileutils
import BoltonsVerif.C05.Props
import BoltonsVerif.C04.Props
import BoltonsVerif.C05.SrcTieTactic
/-
C05 — source-translator tie (round 3c, effect mode: notes/SRCTIE.md §1f).

`Generated/Src_fileutils.lean` holds `set_cloexec`, `replace`, `atomic_rename` and `AtomicSaver._rm_part_on_exc`,
`_open_part_file`, `setup`, `__enter__`, `__exit__` as regenerated from boltons/fileutils.py on every run; every
`os.*` / `fcntl.fcntl` / file-object call in them is a field of the record `Src.fileutils.Sys W …` over an abstract
world.  This file instantiates the record with the hand model of C05 (`msys plan`: the abstract file system of
C04/Model.lean under a fault plan - each operation IS the model's instrumented call `C05.call` / `callClose` /
`callStat` / `fcall` / `fclose` on the event the call stands for) and proves that the generated definitions compute
what the transliteration (`C05.rmPart`, `publish`, `openPartFile`, `setup`, `finishG`, `runScript`) computes.

What the instance assumes is exactly what the transliteration assumes (C05/Model.lean):
  * the n-th instrumented call goes through (its effect is `FS.step ev`), fails with the plan's error (no effect,
    except that a failing `file.close()` still closes), or is preceded by the other process creating the destination;
  * `os.path.lexists` is a probe that cannot fail and is not counted; `fcntl.fcntl` (set_cloexec) and `fileno()` have
    no effect on the two names, cannot fail and are not counted;
  * an error is an opaque number for the saver: `excOf` turns the model's `Errno` into the exception value the code
    sees (below 1000: an `OSError` with that errno; 1000: an `OSError` without errno; above: another `Exception`).
The two ghost counters of `C05.M` that no model function reads (`errs`, `cleanupFaulted`) are not computed by the
source; the tie is stated up to them (`erase`).

Proof style: both sides are evaluated symbolically.  The combinators of PyRtC05 and the generated bodies are unfolded
by `simp`, the operations of `msys` are rewritten by their specification lemmas into the model's calls, and the
remaining goal is closed by case analysis on the RESULTS of those calls (`tie_cases`), never by following the order
of the statements of the source.
-/
namespace C05
open C04 PyRtC05 Src.fileutils

/-! ## the instance -/

/-- paths are the roles of Classify.lean: the two names of the model's directory (and anything else) -/
instance : Inhabited Role := ⟨.other⟩

/-- the exception value the code sees for the model's error number -/
def excOf (e : Errno) : Exc :=
  if e < 1000 then ⟨.osError, some e, 0⟩ else if e = 1000 then ⟨.osError, none, 1000⟩ else ⟨.exception, none, e⟩

/-- … and back -/
def codeOf (x : Exc) : Errno :=
  match x.kind, x.errno with
  | .osError, some n => n
  | _, _ => x.tag

/-- forget the ghost counters -/
def erase (m : M) : M := { m with errs := 0, cleanupFaulted := false }

def liftU (r : Option Errno × M) : Except Exc Unit × M :=
  match r with
  | (some e, m) => (.error (excOf e), erase m)
  | (none, m) => (.ok (), erase m)

def O_EXCL : Nat := 0o200
@[simp] theorem conc_flags_excl : (131266 &&& O_EXCL != 0) = true := by decide

/-- the model's file system under a fault plan as the operating system of the translated code -/
def msys (plan : Plan) : Sys M Role Unit Unit Unit Unit where
  os_stat p m :=
    match p with
    | .dest =>
      (match callStat plan m with
       | (.ok (some mode), m1) => (.ok ⟨0o100000 + mode⟩, erase m1)
       | (.ok none, m1) => (.error (excOf ENOENT), erase m1)
       | (.error e, m1) => (.error (excOf e), erase m1))
    | _ => (.error (excOf 1001), m)
  os_path_lexists p m :=
    (.ok (match p with | .dest => m.fs.dir.dest.isSome | .part => m.fs.dir.part.isSome | .other => false), m)
  os_open p flags mode m :=
    liftU (call plan m (match p with | .part => .openPart (flags &&& O_EXCL != 0) true mode | _ => .unknown))
  os_fdopen _ _ _ m := liftU (call plan m .noop)
  os_chmod p mode m := liftU (call plan m (match p with | .part => .chmodPart mode | _ => .unknown))
  os_unlink p m := liftU (call plan m (match p with | .part => .unlinkPart | .dest => .unlinkDest | .other => .unknown))
  os_close _ m := liftU (call plan m .closeFd)
  os_fsync _ m := liftU (call plan m .fsync)
  os_rename a b m := liftU (call plan m (match a, b with | .part, .dest => .renamePartDest | _, _ => .unknown))
  os_link a b m := liftU (call plan m (match a, b with | .part, .dest => .linkPartDest | _, _ => .unknown))
  fcntl_fcntl _ _ _ m := (.ok 0, m)
  file_flush _ m := liftU (fcall plan m .flush)
  file_close _ m := liftU (fclose plan m)
  file_fileno _ m := (.ok (), m)

/-- the attributes `__init__` leaves for a configuration (`part_file`: whatever an earlier use left) -/
@[reducible] def conc (cfg : Cfg) (pf : Option Unit) : AtomicSaver.St Role Unit Unit Unit Unit where
  dest_path := .dest
  part_path := .part
  overwrite := cfg.overwrite
  file_perms := cfg.perms
  overwrite_part := cfg.overwritePart
  rm_part_on_exc := cfg.rmPartOnExc
  mode := ()
  buffering := -1
  open_flags := 0o400302      -- O_RDWR | O_CREAT | O_EXCL | O_NOFOLLOW
  part_file := pf

/-! ## the ghost counters are never read -/

theorem erase_erase (m : M) : erase (erase m) = erase m := rfl
@[simp] theorem erase_fs (m : M) : (erase m).fs = m.fs := rfl
@[simp] theorem erase_n (m : M) : (erase m).n = m.n := rfl
@[simp] theorem erase_tr (m : M) : (erase m).tr = m.tr := rfl
@[simp] theorem erase_obs (m : M) : (erase m).obs = m.obs := rfl
@[simp] theorem erase_envDone (m : M) : (erase m).envDone = m.envDone := rfl
@[simp] theorem erase_envIno (m : M) : (erase m).envIno = m.envIno := rfl

theorem env_erase (m : M) (a : Act) : (erase m).env a = erase (m.env a) := by
  by_cases h : a = .appear ∧ m.fs.dir.dest = none <;> simp [M.env, erase, h]

theorem exe_erase (m : M) (ev : Ev) :
    (exe (erase m) ev).1 = (exe m ev).1 ∧ erase (exe (erase m) ev).2 = erase (exe m ev).2 := by
  unfold exe; simp only [erase_fs]; split <;> exact ⟨rfl, rfl⟩

theorem call_erase (plan : Plan) (m : M) (ev : Ev) :
    (call plan (erase m) ev).1 = (call plan m ev).1 ∧ erase (call plan (erase m) ev).2 = erase (call plan m ev).2 := by
  unfold call; simp only [erase_n]
  split
  · exact ⟨rfl, rfl⟩
  · exact exe_erase m ev
  · rw [env_erase]; exact exe_erase (m.env .appear) ev

theorem callClose_erase (plan : Plan) (m : M) :
    (callClose plan (erase m)).1 = (callClose plan m).1 ∧ erase (callClose plan (erase m)).2 = erase (callClose plan m).2 := by
  unfold callClose; simp only [erase_n, erase_fs]
  generalize plan m.n = a
  cases a with
  | fail e => cases m.fs.step .close <;> exact ⟨rfl, rfl⟩
  | pass => exact exe_erase m .close
  | appear => simp only [env_erase]; exact exe_erase (m.env .appear) .close

theorem fcall_erase (plan : Plan) (m : M) (ev : Ev) :
    (fcall plan (erase m) ev).1 = (fcall plan m ev).1 ∧ erase (fcall plan (erase m) ev).2 = erase (fcall plan m ev).2 := by
  unfold fcall; simp only [erase_n, erase_fs]
  by_cases h : m.fs.openf.isSome = true
  · simp only [h, if_true]; exact call_erase plan m ev
  · simp only [h, if_false]
    generalize plan m.n = a
    cases a with
    | fail e => exact ⟨rfl, rfl⟩
    | pass => exact ⟨rfl, rfl⟩
    | appear => simp only [env_erase]; exact ⟨rfl, rfl⟩

theorem fclose_erase (plan : Plan) (m : M) :
    (fclose plan (erase m)).1 = (fclose plan m).1 ∧ erase (fclose plan (erase m)).2 = erase (fclose plan m).2 := by
  unfold fclose; simp only [erase_n, erase_fs]
  by_cases h : m.fs.openf.isSome = true
  · simp only [h, if_true]; exact callClose_erase plan m
  · simp only [h, if_false]
    generalize plan m.n = a
    cases a with
    | fail e => exact ⟨rfl, rfl⟩
    | pass => exact ⟨rfl, rfl⟩
    | appear => simp only [env_erase]; exact ⟨rfl, rfl⟩

theorem callStat_erase (plan : Plan) (m : M) :
    (callStat plan (erase m)).1 = (callStat plan m).1 ∧ erase (callStat plan (erase m)).2 = erase (callStat plan m).2 := by
  unfold callStat; simp only [erase_n, erase_fs]
  generalize plan m.n = a
  cases a with
  | fail e => by_cases h : e = ENOENT <;> simp only [h, if_true, if_false] <;> constructor <;> first | rfl | trivial
  | pass => exact ⟨rfl, rfl⟩
  | appear => simp only [env_erase]; exact ⟨rfl, rfl⟩

theorem liftU_congr {r r2 : Option Errno × M} (h : r.1 = r2.1 ∧ erase r.2 = erase r2.2) : liftU r = liftU r2 := by
  obtain ⟨a, b⟩ := r; obtain ⟨c, d⟩ := r2
  simp only at h; obtain ⟨rfl, h2⟩ := h
  cases a <;> simp [liftU, h2]

/-! ## specification of the instance's operations on (ghost-erased) model states -/

@[simp] theorem msys_unlink_part (plan : Plan) (m : M) :
    (msys plan).os_unlink .part (erase m) = liftU (call plan m .unlinkPart) := liftU_congr (call_erase plan m _)
@[simp] theorem msys_rename (plan : Plan) (m : M) :
    (msys plan).os_rename .part .dest (erase m) = liftU (call plan m .renamePartDest) := liftU_congr (call_erase plan m _)
@[simp] theorem msys_link (plan : Plan) (m : M) :
    (msys plan).os_link .part .dest (erase m) = liftU (call plan m .linkPartDest) := liftU_congr (call_erase plan m _)
@[simp] theorem msys_open (plan : Plan) (m : M) (flags mode : Nat) :
    (msys plan).os_open .part flags mode (erase m) = liftU (call plan m (.openPart (flags &&& O_EXCL != 0) true mode)) :=
  liftU_congr (call_erase plan m _)
@[simp] theorem msys_fdopen (plan : Plan) (m : M) (fd md : Unit) (b : Int) :
    (msys plan).os_fdopen fd md b (erase m) = liftU (call plan m .noop) := liftU_congr (call_erase plan m _)
@[simp] theorem msys_chmod (plan : Plan) (m : M) (mode : Nat) :
    (msys plan).os_chmod .part mode (erase m) = liftU (call plan m (.chmodPart mode)) := liftU_congr (call_erase plan m _)
@[simp] theorem msys_close (plan : Plan) (m : M) (fd : Unit) :
    (msys plan).os_close fd (erase m) = liftU (call plan m .closeFd) := liftU_congr (call_erase plan m _)
@[simp] theorem msys_fsync (plan : Plan) (m : M) (fd : Unit) :
    (msys plan).os_fsync fd (erase m) = liftU (call plan m .fsync) := liftU_congr (call_erase plan m _)
@[simp] theorem msys_flush (plan : Plan) (m : M) (f : Unit) :
    (msys plan).file_flush f (erase m) = liftU (fcall plan m .flush) := liftU_congr (fcall_erase plan m _)
@[simp] theorem msys_fclose (plan : Plan) (m : M) (f : Unit) :
    (msys plan).file_close f (erase m) = liftU (fclose plan m) := liftU_congr (fclose_erase plan m)
@[simp] theorem msys_lexists_dest (plan : Plan) (m : M) :
    (msys plan).os_path_lexists .dest (erase m) = (.ok m.fs.dir.dest.isSome, erase m) := rfl
@[simp] theorem msys_lexists_part (plan : Plan) (m : M) :
    (msys plan).os_path_lexists .part (erase m) = (.ok m.fs.dir.part.isSome, erase m) := rfl
@[simp] theorem msys_fcntl (plan : Plan) (m : M) (fd : Unit) (a b : Nat) :
    (msys plan).fcntl_fcntl fd a b m = (.ok 0, m) := rfl
@[simp] theorem msys_fileno (plan : Plan) (m : M) (f : Unit) : (msys plan).file_fileno f m = (.ok (), m) := rfl

/-- unfold the combinators of the runtime (the semantics of the statements) -/
macro "blk_simp" " [" ds:Lean.Parser.Tactic.simpLemma,* "]" : tactic =>
  `(tactic| simp only [runMethod, runFunction, finishMethod, finishFunction, Blk.seq, Blk.ite, Blk.tryExcept, Blk.tryFinally, Blk.tryFinally.after, Blk.call, Blk.callm, Blk.skip,
      Blk.assign, Blk.ret, Blk.raise, Blk.result, $ds,*])

/-- … and finish: full `simp` with the same unfoldings -/
macro "blk_done" " [" ds:Lean.Parser.Tactic.simpLemma,* "]" : tactic =>
  `(tactic| simp [runMethod, runFunction, finishMethod, finishFunction, Blk.seq, Blk.ite, Blk.tryExcept, Blk.tryFinally, Blk.tryFinally.after, Blk.call, Blk.callm, Blk.skip,
      Blk.assign, Blk.ret, Blk.raise, Blk.result, $ds,*])

/-- what an operation's result looks like to the code -/
def liftR (r : Option Errno) : Except Exc Unit :=
  match r with
  | some e => .error (excOf e)
  | none => .ok ()

theorem liftU_eq (r : Option Errno × M) : liftU r = (liftR r.1, erase r.2) := by
  obtain ⟨a, b⟩ := r; cases a <;> rfl

/-! ## `_rm_part_on_exc` -/

theorem excOf_isException (e : Errno) : (excOf e).isException = true := by
  unfold excOf Exc.isException; split
  · simp
  · split <;> simp

/-! ## `set_cloexec`, `replace`, `atomic_rename` -/

/-- one round of evaluation: like `blk_done` but `finishMethod` / `finishFunction` (and whatever post-condition wraps
    the two sides) stay folded, so that the term under evaluation occurs once -/
macro "blk_eval" " [" ds:Lean.Parser.Tactic.simpLemma,* "]" : tactic =>
  `(tactic| simp [runMethod, runFunction, Blk.seq, Blk.ite, Blk.tryExcept, Blk.tryFinally, Blk.tryFinally.after, Blk.call, Blk.callm, Blk.skip,
      Blk.assign, Blk.ret, Blk.raise, liftU_eq, liftR, $ds,*])

/-- evaluation only (for goals `Post … (model side) (source side)`): split until no call is left -/
macro "tie_eval" " [" ds:Lean.Parser.Tactic.simpLemma,* "]" : tactic =>
  `(tactic| ((try blk_eval [$ds,*]) <;> repeat' (tie_case <;> try blk_eval [$ds,*])))

/-- symbolic evaluation of both sides: unfold the statement combinators and the given definitions, rewrite the
    operations of `msys` into the model's calls, split on the result of the next call; repeat -/
macro "tie_auto" " [" ds:Lean.Parser.Tactic.simpLemma,* "]" : tactic =>
  `(tactic| ((try blk_done [liftU_eq, liftR, $ds,*]) <;>
      repeat' (tie_case <;> try blk_done [liftU_eq, liftR, $ds,*])))

/-- **`set_cloexec`**: whatever `fcntl.fcntl` answers in the model's world (it always answers), the function returns
    normally and the world is unchanged - the transliteration does not mention it at all -/
theorem src_set_cloexec_eq_model (plan : Plan) (fd : Unit) (m : M) :
    set_cloexec (msys plan) fd m = (.ok (), m) := by
  blk_done [set_cloexec, set_cloexec.body]

/-- **`replace`** (posix) is one `os.rename` -/
theorem src_replace_eq_model (plan : Plan) (m : M) :
    replace (msys plan) .part .dest (erase m) = liftU (call plan m .renamePartDest) := by
  tie_auto [replace, replace.body]

/-- the part of the model's `publish` that is `atomic_rename(part, dest, overwrite)` -/
def atomicRenameM (overwrite : Bool) (plan : Plan) (m : M) : Option Errno × M :=
  if overwrite then call plan m .renamePartDest
  else
    match call plan m .linkPartDest with
    | (some e, m1) => (some e, m1)
    | (none, m1) => call plan m1 .unlinkPart

theorem publish_eq_atomicRenameM (cfg : Cfg) (plan : Plan) (m : M) :
    publish cfg plan m =
      match atomicRenameM cfg.overwrite plan m with
      | (some e, m1) => (.osErr e, rmPart cfg plan m1)
      | (none, m1) => (.ok, m1) := by
  unfold publish atomicRenameM
  cases cfg.overwrite
  · simp only [Bool.false_eq_true, if_false]
    rcases call plan m .linkPartDest with ⟨_ | e, m1⟩ <;> simp only
    rcases call plan m1 .unlinkPart with ⟨_ | e, m2⟩ <;> simp only
  · simp only [if_true]
    rcases call plan m .renamePartDest with ⟨_ | e, m1⟩ <;> simp only

/-- **`atomic_rename(part, dest, overwrite)`** = the model's rename, or link followed by unlink of the part name -/
theorem src_atomic_rename_eq_model (ow : Bool) (plan : Plan) (m : M) :
    atomic_rename (msys plan) .part .dest ow (erase m) = liftU (atomicRenameM ow plan m) := by
  cases ow <;> tie_auto [atomic_rename, atomic_rename.body, atomicRenameM]

/-! ## `_open_part_file` -/

/-- the part of the model's `setup` that is `_open_part_file()`: choice of the permission bits (explicit, else those of
    the replaced file - `os.stat` -, else `RW_PERMS` subject to the umask), then `openPartFile` -/
def openPartFileM (cfg : Cfg) (plan : Plan) (m : M) : Option Errno × M :=
  match cfg.perms with
  | some p => openPartFile cfg plan m p true
  | none =>
    match callStat plan m with
    | (.error e, m2) => (some e, m2)
    | (.ok (some mode), m2) => openPartFile cfg plan m2 mode true
    | (.ok none, m2) => openPartFile cfg plan m2 RW_PERMS false

theorem setup_eq_openPartFileM (cfg : Cfg) (plan : Plan) (m : M) :
    setup cfg plan m =
      if m.fs.dir.dest.isSome && !cfg.overwrite then (some EEXIST, { m with errs := m.errs + 1 }) else
      match (if cfg.overwritePart && m.fs.dir.part.isSome then call plan m .unlinkPart else (none, m)) with
      | (some e, m1) => (some e, m1)
      | (none, m1) => openPartFileM cfg plan m1 := by
  unfold setup openPartFileM
  split
  · rfl
  · rcases (if cfg.overwritePart && m.fs.dir.part.isSome then call plan m .unlinkPart else (none, m)) with ⟨_ | e, m1⟩ <;> rfl

/-- `os.stat(dest)` in the model's world: the mode of a regular file, `ENOENT`, or the plan's error -/
theorem msys_stat (plan : Plan) (m : M) :
    (msys plan).os_stat .dest (erase m) =
      match callStat plan m with
      | (.ok (some mode), m1) => (.ok ⟨0o100000 + mode⟩, erase m1)
      | (.ok none, m1) => (.error (excOf ENOENT), erase m1)
      | (.error e, m1) => (.error (excOf e), erase m1) := by
  have h := callStat_erase plan m
  show (match callStat plan (erase m) with
      | (.ok (some mode), m1) => ((.ok ⟨0o100000 + mode⟩ : Except Exc StatRes), erase m1)
      | (.ok none, m1) => (.error (excOf ENOENT), erase m1)
      | (.error e, m1) => (.error (excOf e), erase m1)) = _
  rcases h1 : callStat plan (erase m) with ⟨r1, m1⟩
  rcases h2 : callStat plan m with ⟨r2, m2⟩
  rw [h1, h2] at h
  obtain ⟨rfl, h⟩ : r1 = r2 ∧ erase m1 = erase m2 := h
  rcases r1 with e | _ | mode <;> simp only [erase_erase, h]

/-- permission bits are 12 bits: what `stat.S_IMODE` of a regular file's `st_mode` gives back -/
def ModesOk (fs : FS) : Prop := ∀ i ∈ fs.inodes, i.mode < 4096

theorem destMode_lt {fs : FS} (h : ModesOk fs) {mode : Nat} (hm : fs.destMode = some mode) : mode < 4096 := by
  unfold FS.destMode FS.inode? at hm
  cases hd : fs.dir.dest with
  | none => simp [hd] at hm
  | some i =>
    simp only [hd, Option.map_eq_some_iff] at hm
    obtain ⟨ino, hi, rfl⟩ := hm
    exact h ino (List.mem_of_getElem? hi)

theorem env_inodes (m : M) (a : Act) : (m.env a).fs.inodes = m.fs.inodes := by
  unfold M.env; split <;> rfl

theorem callStat_mode_lt {plan : Plan} {m m2 : M} {mode : Nat} (h : ModesOk m.fs)
    (hc : callStat plan m = (.ok (some mode), m2)) : mode < 4096 := by
  unfold callStat at hc
  split at hc
  · split at hc <;> simp at hc
  · simp only [Prod.mk.injEq, Except.ok.injEq] at hc
    exact destMode_lt h hc.1
  · simp only [Prod.mk.injEq, Except.ok.injEq] at hc
    refine destMode_lt (fs := (m.env .appear).fs) ?_ hc.1
    intro i hi; rw [env_inodes] at hi; exact h i hi

theorem S_IMODE_reg {mode : Nat} (h : mode < 4096) : S_IMODE (32768 + mode) = mode := by
  unfold S_IMODE; omega

@[simp] theorem erase_cleanup (m : M) (b : Bool) : erase { m with cleanupFaulted := b } = erase m := rfl
@[simp] theorem erase_errs (m : M) (k : Nat) : erase { m with errs := k } = erase m := rfl

theorem excOf_enoent : (excOf ENOENT) = ⟨.osError, some 2, 0⟩ := by decide

theorem excOf_stat_handler (e : Errno) (h : e ≠ ENOENT) :
    (excOf e).isOSError = true → ((excOf e).errno != some 2) = true := by
  unfold excOf; split
  · intro _; simp; exact h
  · split <;> simp

/-- the object afterwards has the attributes of the same configuration (only `part_file` may have changed) -/
def SameCfg (cfg : Cfg) (st : AtomicSaver.St Role Unit Unit Unit Unit) : Prop := st = conc cfg st.part_file

theorem env_openf (m : M) (a : Act) : (m.env a).fs.openf = m.fs.openf := by
  unfold M.env; split <;> rfl

theorem exe_fail_openf {m m1 : M} {ev : Ev} {e : Errno} (h : exe m ev = (some e, m1)) : m1.fs.openf = m.fs.openf := by
  unfold exe at h; split at h <;> simp at h
  obtain ⟨_, rfl⟩ := h; rfl

theorem call_fail_openf {plan : Plan} {m m1 : M} {ev : Ev} {e : Errno} (h : call plan m ev = (some e, m1)) :
    m1.fs.openf = m.fs.openf := by
  unfold call at h; split at h
  · simp at h; obtain ⟨_, rfl⟩ := h; rfl
  · exact exe_fail_openf h
  · rw [exe_fail_openf h, env_openf]

theorem exe_ok_step {m m1 : M} {ev : Ev} (h : exe m ev = (none, m1)) : m.fs.step ev = .ok m1.fs := by
  unfold exe at h; split at h <;> simp at h
  subst h; assumption

theorem call_ok_step {plan : Plan} {m m1 : M} {ev : Ev} (h : call plan m ev = (none, m1)) :
    ∃ fs0 : FS, fs0.openf = m.fs.openf ∧ fs0.step ev = .ok m1.fs := by
  unfold call at h; split at h
  · simp at h
  · exact ⟨m.fs, rfl, exe_ok_step h⟩
  · exact ⟨(m.env .appear).fs, env_openf m _, exe_ok_step h⟩

theorem openPart_openf {fs fs1 : FS} {a b : Bool} {p : Nat} (h : fs.step (.openPart a b p) = .ok fs1) :
    fs1.openf.isSome = true := by
  simp only [FS.step, FS.openPart] at h
  split at h
  · split at h <;> simp at h; subst h; rfl
  · simp at h; subst h; rfl

/-- `openPartFile` with the file object's `close()` spelled `fclose` (the same thing while the object is open) -/
def openPartFileF (cfg : Cfg) (plan : Plan) (m : M) (perms : Nat) (doChmod : Bool) : Option Errno × M :=
  match call plan m (.openPart true true perms) with
  | (some e, m1) => (some e, m1)
  | (none, m1) =>
    match call plan m1 .noop with
    | (some e, m2) => (some ((call plan m2 .closeFd).1.getD e), rmPart cfg plan (call plan m2 .closeFd).2)
    | (none, m2) =>
      if doChmod then
        match call plan m2 (.chmodPart perms) with
        | (some e, m3) => (some ((fclose plan m3).1.getD e), rmPart cfg plan (fclose plan m3).2)
        | (none, m3) => (none, m3)
      else (none, m2)

theorem openPartFile_eq_F (cfg : Cfg) (plan : Plan) (m : M) (perms : Nat) (doChmod : Bool) :
    openPartFile cfg plan m perms doChmod = openPartFileF cfg plan m perms doChmod := by
  unfold openPartFile openPartFileF
  rcases h1 : call plan m (.openPart true true perms) with ⟨_ | e, m1⟩ <;> simp only
  rcases h2 : call plan m1 .noop with ⟨_ | e, m2⟩ <;> simp only
  cases doChmod <;> simp only [if_true, if_false, Bool.false_eq_true]
  rcases h3 : call plan m2 (.chmodPart perms) with ⟨_ | e, m3⟩ <;> simp only
  have hopen : m3.fs.openf.isSome = true := by
    obtain ⟨fa, hfa, ha⟩ := call_ok_step h1
    obtain ⟨fb, hfb, hb⟩ := call_ok_step h2
    rw [call_fail_openf h3]
    simp only [FS.step, Except.ok.injEq] at hb
    rw [← hb, hfb]
    exact openPart_openf ha
  simp only [fclose, hopen, if_true]

/-- `rmPart` depends on the configuration through `rm_part_on_exc` only -/
def rmPartB (b : Bool) (plan : Plan) (m : M) : M := rmPart { rmPartOnExc := b } plan m
theorem rmPart_eq (cfg : Cfg) (plan : Plan) (m : M) : rmPart cfg plan m = rmPartB cfg.rmPartOnExc plan m := rfl

/-- `_rm_part_on_exc` on ANY object whose `part_path` is the part name (the form the other proofs use) -/
theorem src_rm_part_raw (st : AtomicSaver.St Role Unit Unit Unit Unit) (plan : Plan) (m : M) (hp : st.part_path = .part) :
    AtomicSaver.rm_part_on_exc (msys plan) st (erase m) = (.ok (), st, erase (rmPartB st.rm_part_on_exc plan m)) := by
  cases hb : st.rm_part_on_exc <;>
  tie_auto [AtomicSaver.rm_part_on_exc, AtomicSaver.rm_part_on_exc.body, rmPartB, rmPart, hb, hp, excOf_isException]

/-- **`AtomicSaver._rm_part_on_exc`** as regenerated from the source = the model's `rmPart`: never raises, leaves the
    object alone, and the world is the model's (the unlink is the model's instrumented call; its failure is swallowed) -/
theorem src_rm_part_on_exc_eq_model (cfg : Cfg) (pf : Option Unit) (plan : Plan) (m : M) :
    AtomicSaver.rm_part_on_exc (msys plan) (conc cfg pf) (erase m)
      = (.ok (), conc cfg pf, erase (rmPart cfg plan m)) := by
  rw [src_rm_part_raw (conc cfg pf) plan m rfl, rmPart_eq]

/-- how a translated method relates to the model function it stands for: same exception (as the code sees it) or
    normal return; the world is the model's, up to the ghost counters; the object keeps the attributes of its
    configuration; and (`needFile`) after a normal return it holds the file object -/
def TiePost (cfg : Cfg) (needFile : Bool) (r : Option Errno × M)
    (res : Except Exc Unit × AtomicSaver.St Role Unit Unit Unit Unit × M) : Prop :=
  res.1 = liftR r.1 ∧ res.2.2 = erase r.2 ∧ SameCfg cfg res.2.1 ∧
    (needFile = true → r.1 = none → res.2.1.part_file = some ())

theorem callStat_error_ne {plan : Plan} {m m2 : M} {e : Errno} (h : callStat plan m = (.error e, m2)) : e ≠ ENOENT := by
  unfold callStat at h
  split at h
  · split at h <;> simp at h
    obtain ⟨rfl, _⟩ := h; assumption
  · simp at h
  · simp at h

attribute [local simp] src_set_cloexec_eq_model src_atomic_rename_eq_model

/-- close the leaves of an evaluation: unfold the post-condition on the two concrete sides -/
macro "tie_post" " [" ds:Lean.Parser.Tactic.simpLemma,* "]" : tactic =>
  `(tactic| all_goals (simp [TiePost, finishMethod, finishFunction, Blk.result, SameCfg, liftR, $ds,*]))

/-- **`AtomicSaver._open_part_file`** as regenerated from the source = the model's choice of permissions followed by
    `openPartFile` (`os.open` with `O_EXCL`, `set_cloexec`, `os.fdopen`, `os.chmod`, and on a failure the clean-up:
    close the file object or the descriptor, `_rm_part_on_exc()`, re-raise - a failing close replaces the exception):
    same exception or normal return, same world; the object keeps its configuration and, on success, holds the
    file object.  Hypothesis: permission bits of existing files are 12-bit numbers (`stat.S_IMODE` gives them back). -/
theorem src_open_part_file_eq_model (cfg : Cfg) (pf : Option Unit) (plan : Plan) (m : M) (hm : ModesOk m.fs) :
    TiePost cfg true (openPartFileM cfg plan m) (AtomicSaver.open_part_file (msys plan) (conc cfg pf) (erase m)) := by
  simp only [openPartFileM, openPartFile_eq_F]
  cases hp : cfg.perms with
  | some p =>
    simp only
    tie_eval [AtomicSaver.open_part_file, AtomicSaver.open_part_file.body, openPartFileF, hp, unwrap, excOf_isException,
      rmPart_eq, src_rm_part_raw]
    tie_post [hp]
  | none =>
    rcases hcs : callStat plan m with ⟨e | _ | mode, m2⟩ <;> simp only
    · have hne := callStat_error_ne hcs
      cases hos : (excOf e).isOSError
      · tie_eval [AtomicSaver.open_part_file, AtomicSaver.open_part_file.body, openPartFileF, hp, unwrap,
          excOf_isException, rmPart_eq, src_rm_part_raw, msys_stat, hcs, hos]
        tie_post [hp]
      · have hno := excOf_stat_handler e hne hos
        tie_eval [AtomicSaver.open_part_file, AtomicSaver.open_part_file.body, openPartFileF, hp, unwrap,
          excOf_isException, rmPart_eq, src_rm_part_raw, msys_stat, hcs, hos, hno]
        tie_post [hp]
    · tie_eval [AtomicSaver.open_part_file, AtomicSaver.open_part_file.body, openPartFileF, hp, unwrap,
        excOf_isException, rmPart_eq, src_rm_part_raw, msys_stat, hcs, excOf_enoent, Exc.isOSError, RW_PERMS]
      tie_post [hp]
    · have hlt := callStat_mode_lt hm hcs
      tie_eval [AtomicSaver.open_part_file, AtomicSaver.open_part_file.body, openPartFileF, hp, unwrap,
        excOf_isException, rmPart_eq, src_rm_part_raw, msys_stat, hcs, S_IMODE_reg hlt]
      tie_post [hp]

/-! ## `setup`, `__enter__` -/

theorem call_unlink_modesOk {plan : Plan} {m : M} (h : ModesOk m.fs) : ModesOk (call plan m .unlinkPart).2.fs := by
  have hi : (call plan m .unlinkPart).2.fs.inodes = m.fs.inodes := by
    have hexe : ∀ m0 : M, (exe m0 .unlinkPart).2.fs.inodes = m0.fs.inodes := by
      intro m0; unfold exe
      cases hs : m0.fs.step .unlinkPart with
      | error e => rfl
      | ok fs1 =>
        simp only [FS.step, FS.unlinkPart] at hs
        split at hs <;> simp at hs
        subst hs; rfl
    unfold call; split
    · rfl
    · exact hexe m
    · rw [hexe, env_inodes]
  intro i hin; rw [hi] at hin; exact h i hin

set_option hygiene false in
/-- after `tie_callee`: what the callee's tie theorem `hk` says about the three components -/
macro "tie_use " hk:ident : tactic => `(tactic| (
  simp only [TiePost, SameCfg] at $hk:ident
  obtain ⟨h1, h2, h3, h4⟩ := $hk
  subst h1 h2))

@[simp] theorem excOf_eexist : excOf EEXIST = Exc.osError 17 := by decide

set_option maxHeartbeats 1000000 in
/-- **`AtomicSaver.setup`** as regenerated from the source = the model's `setup`: the refusal (`overwrite=False` and the
    destination exists: `OSError(EEXIST)`, no call made), the removal of a stale part file with `overwrite_part`
    (`os.path.lexists` is an uncounted probe), then `_open_part_file()` (through its own tie theorem) -/
theorem src_setup_eq_model (cfg : Cfg) (pf : Option Unit) (plan : Plan) (m : M) (hm : ModesOk m.fs) :
    TiePost cfg true (setup cfg plan m) (AtomicSaver.setup (msys plan) (conc cfg pf) (erase m)) := by
  rw [setup_eq_openPartFileM]
  have hk0 := src_open_part_file_eq_model cfg pf plan m hm
  have hk1 := src_open_part_file_eq_model cfg pf plan (call plan m .unlinkPart).2 (call_unlink_modesOk hm)
  cases hd : m.fs.dir.dest.isSome <;> cases ho : cfg.overwrite <;> cases hop : cfg.overwritePart <;>
    cases hpp : m.fs.dir.part.isSome <;>
    simp only [Bool.and_true, Bool.and_false, Bool.true_and, Bool.false_and, Bool.not_true, Bool.not_false, if_true, if_false, Bool.false_eq_true]
  all_goals first
    | (tie_eval [AtomicSaver.setup, AtomicSaver.setup.body, hd, ho, hop, hpp]; tie_post [hd, ho, hop, hpp]; done)
    | (tie_eval [AtomicSaver.setup, AtomicSaver.setup.body, hd, ho, hop, hpp]
       all_goals first
         | (tie_callee; first | (clear hk1; tie_use hk0) | (clear hk0; tie_use hk1))
         | skip
       all_goals (try (generalize openPartFileM cfg plan _ = tie_m at *; rcases tie_m with ⟨_ | _, _⟩))
       all_goals (try blk_eval [])
       all_goals (simp [TiePost, finishMethod, Blk.result, SameCfg, liftR, hd, ho, hop, hpp, Exc.osError])
       all_goals first | exact h3 | exact ⟨h3, h4 trivial rfl⟩)

/-! ## `__exit__` -/

/-- what `__exit__` does with the outcome `o` the model computes: when the block raised it returns normally (None:
    the block's exception goes on), otherwise it raises the error of the failed step -/
def exitResult (bexc : Option Outcome) (o : Outcome) : Except Exc Unit :=
  match bexc with
  | some _ => .ok ()
  | none =>
    match o with
    | .osErr e => .error (excOf e)
    | _ => .ok ()

def TieExit (cfg : Cfg) (bexc : Option Outcome) (r : Outcome × M)
    (res : Except Exc Unit × AtomicSaver.St Role Unit Unit Unit Unit × M) : Prop :=
  res.1 = exitResult bexc r.1 ∧ res.2.2 = erase r.2 ∧ SameCfg cfg res.2.1

set_option maxHeartbeats 1000000 in
/-- **`AtomicSaver.__exit__`** as regenerated from the source = the model's `finishG`: `flush()`, `os.fsync(fileno())`,
    `close()` in the `finally` clause (an exception of `close()` replaces an earlier one), then `atomic_rename` when the
    block did not raise; on any `Exception` of these steps `_rm_part_on_exc()` and either a normal return (the block's
    exception goes on, unmasked) or the re-raise; `_rm_part_on_exc()` when only the block raised.  For every block
    outcome `bexc`, every plan, every state: same result, same world, same object. -/
theorem src_exit_eq_model (cfg : Cfg) (plan : Plan) (m : M) (bexc : Option Outcome) (ev et : Option Unit) :
    TieExit cfg bexc (finishG cfg plan m bexc)
      (AtomicSaver.exit (msys plan) (conc cfg (some ())) (bexc.map fun _ => ()) ev et (erase m)) := by
  cases bexc <;> cases hov : cfg.overwrite <;>
  simp only [finishG, syncCloseG, publish_eq_atomicRenameM, atomicRenameM, hov, Option.map]
  all_goals tie_eval [AtomicSaver.exit, AtomicSaver.exit.body, unwrap, excOf_isException, rmPart_eq, src_rm_part_raw, atomicRenameM, hov]
  all_goals (simp [TieExit, exitResult, finishMethod, Blk.result, SameCfg, liftR, hov])

/-! ## `__enter__` -/

def TieEnter (cfg : Cfg) (r : Option Errno × M)
    (res : Except Exc (Option Unit) × AtomicSaver.St Role Unit Unit Unit Unit × M) : Prop :=
  res.1 = (match r.1 with | some e => .error (excOf e) | none => .ok (some ())) ∧ res.2.2 = erase r.2 ∧
    SameCfg cfg res.2.1 ∧ (r.1 = none → res.2.1.part_file = some ())

/-- **`AtomicSaver.__enter__`** = `setup()`; the value handed to the `with` block is the part file object -/
theorem src_enter_eq_model (cfg : Cfg) (pf : Option Unit) (plan : Plan) (m : M) (hm : ModesOk m.fs) :
    TieEnter cfg (setup cfg plan m) (AtomicSaver.enter (msys plan) (conc cfg pf) (erase m)) := by
  have hk := src_setup_eq_model cfg pf plan m hm
  blk_eval [AtomicSaver.enter, AtomicSaver.enter.body]
  tie_callee
  tie_use hk
  generalize setup cfg plan m = tie_m at *
  rcases tie_m with ⟨_ | _, _⟩ <;> blk_eval [] <;> simp [TieEnter, finishMethod, Blk.result, SameCfg, liftR]
  · have h5 := h4 trivial rfl
    exact ⟨h5, h3, h5⟩
  · exact h3

/-! ## the `with` statement on the generated methods = `runScript` -/

theorem codeOf_excOf (e : Errno) : codeOf (excOf e) = e := by
  unfold excOf
  by_cases h1 : e < 1000
  · simp [h1, codeOf]
  · by_cases h2 : e = 1000
    · simp [h2, codeOf]
    · simp [h1, h2, codeOf]

theorem fcall_congr {plan : Plan} {m m2 : M} (ev : Ev) (h : erase m = erase m2) :
    (fcall plan m ev).1 = (fcall plan m2 ev).1 ∧ erase (fcall plan m ev).2 = erase (fcall plan m2 ev).2 := by
  have a := fcall_erase plan m ev; have b := fcall_erase plan m2 ev
  rw [h] at a; exact ⟨a.1.symm.trans b.1, a.2.symm.trans b.2⟩

theorem fclose_congr {plan : Plan} {m m2 : M} (h : erase m = erase m2) :
    (fclose plan m).1 = (fclose plan m2).1 ∧ erase (fclose plan m).2 = erase (fclose plan m2).2 := by
  have a := fclose_erase plan m; have b := fclose_erase plan m2
  rw [h] at a; exact ⟨a.1.symm.trans b.1, a.2.symm.trans b.2⟩

/-- the block's own calls do not read the ghost counters either -/
theorem runOps_congr (plan : Plan) (ops : List Op) : ∀ {m m2 : M}, erase m = erase m2 →
    (runOps plan m ops).1 = (runOps plan m2 ops).1 ∧ erase (runOps plan m ops).2 = erase (runOps plan m2 ops).2 := by
  induction ops with
  | nil => intro m m2 h; exact ⟨rfl, h⟩
  | cons op ops ih =>
    intro m m2 h
    cases op with
    | write d k =>
      have c := fcall_congr (plan := plan) (.write d k) h
      simp only [runOps]
      rcases h1 : fcall plan m (.write d k) with ⟨_ | e, a⟩ <;> rcases h2 : fcall plan m2 (.write d k) with ⟨_ | e2, a2⟩ <;>
        rw [h1, h2] at c <;> simp only at c ⊢
      · exact ih c.2
      · exact absurd c.1 (by simp)
      · exact absurd c.1 (by simp)
      · exact c
    | flush =>
      have c := fcall_congr (plan := plan) .flush h
      simp only [runOps]
      rcases h1 : fcall plan m .flush with ⟨_ | e, a⟩ <;> rcases h2 : fcall plan m2 .flush with ⟨_ | e2, a2⟩ <;>
        rw [h1, h2] at c <;> simp only at c ⊢
      · exact ih c.2
      · exact absurd c.1 (by simp)
      · exact absurd c.1 (by simp)
      · exact c
    | close =>
      have c := fclose_congr (plan := plan) h
      simp only [runOps]
      rcases h1 : fclose plan m with ⟨_ | e, a⟩ <;> rcases h2 : fclose plan m2 with ⟨_ | e2, a2⟩ <;>
        rw [h1, h2] at c <;> simp only at c ⊢
      · exact ih c.2
      · exact absurd c.1 (by simp)
      · exact absurd c.1 (by simp)
      · exact c

/-- `with AtomicSaver(dest, **cfg) as f: <script>` - Python's `with` protocol around the GENERATED `__enter__` and
    `__exit__`: an exception of `__enter__` propagates (no `__exit__`); the block is the script's calls on the file
    object (they are the test's, not boltons': the model's `runOps`); `__exit__` gets the exception information
    (`None` three times, or three objects); when it returns (`None`: false) the block's exception, if any, goes on;
    when it raises, that exception replaces it.  The world starts as `M.start fs envIno`; on a fresh object. -/
def srcWith (cfg : Cfg) (sc : Script) (plan : Plan) (fs : FS) (envIno : Nat) : Outcome × M :=
  match AtomicSaver.enter (msys plan) (conc cfg none) (erase (M.start fs envIno)) with
  | (.error x, _, w1) => (.osErr (codeOf x), w1)
  | (.ok _, st, w1) =>
    let blk := runOps plan w1 sc.ops
    let bexc := scriptOutcome sc blk.1
    match AtomicSaver.exit (msys plan) st (bexc.map fun _ => ()) (bexc.map fun _ => ()) (bexc.map fun _ => ())
        (erase blk.2) with
    | (.error x, _, w3) => (.osErr (codeOf x), w3)
    | (.ok _, _, w3) => (bexc.getD .ok, w3)

theorem finishG_none_ne_bodyExc (cfg : Cfg) (plan : Plan) (m : M) : (finishG cfg plan m none).1 ≠ .bodyExc := by
  unfold finishG
  rcases syncCloseG plan m with ⟨_ | e, m3⟩ <;> simp only [Option.getD]
  · unfold publish
    split
    · rcases call plan m3 .renamePartDest with ⟨_ | e, m4⟩ <;> simp
    · rcases call plan m3 .linkPartDest with ⟨_ | e, m4⟩ <;> simp only
      · rcases call plan m4 .unlinkPart with ⟨_ | e, m5⟩ <;> simp
      · simp
  · simp

/-- **The source, run under the `with` protocol, IS the transliteration**: for every configuration, with-block script,
    fault plan (any number of failing calls, any error, the destination appearing before any call) and initial file
    system with 12-bit permission bits, the generated `__enter__` / `__exit__` (and through them `setup`,
    `_open_part_file`, `_rm_part_on_exc`, `atomic_rename`, `set_cloexec`) produce the outcome of `runScript` and its
    machine state - file system, call count, trace of successful events, recorded observations `M.obs`, the
    environment's flag - up to the two ghost counters. -/
theorem src_with_eq_runScript (cfg : Cfg) (sc : Script) (plan : Plan) (fs : FS) (e : Nat) (hm : ModesOk fs) :
    srcWith cfg sc plan fs e = ((runScript cfg sc plan fs e).1, erase (runScript cfg sc plan fs e).2) := by
  have hk := src_enter_eq_model cfg none plan (M.start fs e) hm
  unfold srcWith runScript
  generalize AtomicSaver.enter (msys plan) (conc cfg none) (erase (M.start fs e)) = res at *
  obtain ⟨r, st, w1⟩ := res
  simp only [TieEnter, SameCfg] at hk
  obtain ⟨h1, h2, h3, h4⟩ := hk
  subst h1 h2
  rcases hs : setup cfg plan (M.start fs e) with ⟨_ | err, m1⟩ <;> rw [hs] at h4 <;> simp only at h4 ⊢
  · -- `__enter__` returned: the block, then `__exit__`
    have hst : st = conc cfg (some ()) := by rw [h3, h4 trivial]
    subst hst
    have hops := runOps_congr plan sc.ops (m := erase m1) (m2 := m1) (erase_erase m1)
    rw [hops.1, hops.2]
    have hx := src_exit_eq_model cfg plan (runOps plan m1 sc.ops).2 (scriptOutcome sc (runOps plan m1 sc.ops).1)
      ((scriptOutcome sc (runOps plan m1 sc.ops).1).map fun _ => ()) ((scriptOutcome sc (runOps plan m1 sc.ops).1).map fun _ => ())
    tie_callee
    simp only [TieExit] at hx
    obtain ⟨g1, g2, _⟩ := hx
    subst g1 g2
    cases hb : scriptOutcome sc (runOps plan m1 sc.ops).1 with
    | some b =>
      simp only [exitResult, Option.getD]
      rw [exit_never_masks_block_exception]
    | none =>
      have hne := finishG_none_ne_bodyExc cfg plan (runOps plan m1 sc.ops).2
      cases ho : (finishG cfg plan (runOps plan m1 sc.ops).2 none).1 with
      | ok => simp [exitResult, ho]
      | bodyExc => exact absurd ho hne
      | osErr e2 => simp [exitResult, ho, codeOf_excOf]
  · simp [codeOf_excOf]

/-! ## the property theorems, about what the source computes -/

/-- **Every run of the SOURCE is accepted** (`C05.transliteration_runs_are_accepted` transported along the tie): for
    every configuration, script and fault plan without interference by another process and without an injected ENOENT,
    what a recorder of the calls of the generated `__enter__` / `__exit__` observes (`M.obs`) is accepted by
    `C05.Accept` - hence every `accepted_*` theorem of the acceptance layer holds of the source's own runs. -/
theorem src_runs_are_accepted (cfg : Cfg) (sc : Script) (plan : Plan) (fs0 : FS) (e : Nat) (hm : ModesOk fs0)
    (hne : ∀ k, plan k ≠ .appear) (hnn : ∀ k, plan k ≠ .fail ENOENT) :
    Accept cfg sc.raises (decide ((srcWith cfg sc plan fs0 e).1 = .ok)) sc.content fs0.umask fs0.destMode
      (srcWith cfg sc plan fs0 e).2.obs = true := by
  rw [src_with_eq_runScript cfg sc plan fs0 e hm]
  exact transliteration_runs_are_accepted cfg sc plan fs0 e hne hnn

/-- **A fault-free save by the SOURCE emits the safe trace** (`C04.saver_emits_safeTrace` /
    `C05.nofault_trace_is_saverTrace` along the tie): with a write-only block and nothing in the way, the successful
    events of the generated code are exactly `C04.saverTrace`, which satisfies `C04.SafeTrace`. -/
theorem src_nofault_trace_is_safe (cfg : Cfg) (body : Body) (fs0 : FS) (e : Nat) (hm : ModesOk fs0)
    (hpart : fs0.dir.part = none ∨ cfg.overwritePart = true) (hdest : fs0.dir.dest = none ∨ cfg.overwrite = true) :
    (srcWith cfg (Script.ofBody body) noFaults fs0 e).2.tr = saverTrace cfg fs0 body ∧
    SafeTrace (srcWith cfg (Script.ofBody body) noFaults fs0 e).2.tr = true := by
  rw [src_with_eq_runScript cfg _ noFaults fs0 e hm]
  have h := nofault_trace_is_saverTrace cfg body fs0 e hpart hdest
  simp only [fin] at h
  simp only [erase_tr, h]
  exact ⟨trivial, C04.saver_emits_safeTrace cfg fs0 body⟩

/-- **A failed save by the SOURCE leaves the destination alone** (`C05.failed_save_preserves_dest` along the tie is in
    Props; here the directly checkable core): the file system the generated code leaves IS the transliteration's -/
theorem src_fs_eq_model (cfg : Cfg) (sc : Script) (plan : Plan) (fs0 : FS) (e : Nat) (hm : ModesOk fs0) :
    (srcWith cfg sc plan fs0 e).2.fs = (fin cfg sc plan fs0 e).fs ∧
    (srcWith cfg sc plan fs0 e).2.tr = (fin cfg sc plan fs0 e).tr ∧
    (srcWith cfg sc plan fs0 e).2.obs = (fin cfg sc plan fs0 e).obs ∧
    (srcWith cfg sc plan fs0 e).1 = out cfg sc plan fs0 e := by
  rw [src_with_eq_runScript cfg sc plan fs0 e hm]
  exact ⟨rfl, rfl, rfl, rfl⟩

/-! ## non-vacuity: the generated definitions evaluated on concrete worlds (kernel `decide`) -/

example : ModesOk fsEx ∧ ModesOk fsEx2 := by
  constructor <;> (intro i hi; simp [fsEx, fsEx2, envInode, envMode] at hi; rcases hi with rfl | rfl <;> decide)

/-- a complete save through the generated `__enter__` / `__exit__`: published content, mode of the replaced file -/
example : (srcWith {} bodyEx noFaults fsEx 1).1 = .ok ∧
    (srcWith {} bodyEx noFaults fsEx 1).2.fs.readDest = some [78, 69, 87] ∧
    (srcWith {} bodyEx noFaults fsEx 1).2.fs.destMode = some 0o640 ∧
    (srcWith {} bodyEx noFaults fsEx 1).2.fs.dir.part = none := by decide

/-- `os.fsync` made to fail (a non-OSError class, 1002): the exception reaches the caller, the destination keeps its
    old content, the part file is removed -/
example : (srcWith {} bodyEx (failAt 7 1002) fsEx 1).1 = .osErr 1002 ∧
    (srcWith {} bodyEx (failAt 7 1002) fsEx 1).2.fs.readDest = some [79, 76, 68] ∧
    (srcWith {} bodyEx (failAt 7 1002) fsEx 1).2.fs.dir.part = none := by decide

/-- a stale part file without `overwrite_part`: `os.open(O_EXCL)` refuses, the stale file is left as it was -/
example : (srcWith {} bodyEx noFaults fsEx2 1).1 = .osErr EEXIST ∧
    (srcWith {} bodyEx noFaults fsEx2 1).2.fs.readPart = some [9, 9] := by decide

/-- `overwrite=False` and the destination exists: refused before any call -/
example : (srcWith { overwrite := false } bodyEx noFaults fsEx 1).1 = .osErr EEXIST ∧
    (srcWith { overwrite := false } bodyEx noFaults fsEx 1).2.n = 0 := by decide

/-- the block raises: `__exit__` returns normally (the block's exception goes on), part file removed -/
example : (srcWith {} ⟨[.write [1] 0], true⟩ noFaults fsEx 1).1 = .bodyExc ∧
    (srcWith {} ⟨[.write [1] 0], true⟩ noFaults fsEx 1).2.fs.dir.part = none ∧
    (srcWith {} ⟨[.write [1] 0], true⟩ noFaults fsEx 1).2.fs.readDest = some [79, 76, 68] := by decide

/-- the single methods on concrete worlds: `_rm_part_on_exc` swallows a failing unlink; `atomic_rename` without
    `overwrite` links and unlinks; `set_cloexec` changes nothing; `replace` renames; `_open_part_file`, `setup`,
    `__enter__` create the part file with the mode of the replaced file and hand out the file object -/
example : (AtomicSaver.rm_part_on_exc (msys (failAt 0 13)) (conc {} none) (erase (M.start fsEx2 1))).1.toOption = some () ∧
    (AtomicSaver.rm_part_on_exc (msys (failAt 0 13)) (conc {} none) (erase (M.start fsEx2 1))).2.2.fs.dir.part = some 0 ∧
    (AtomicSaver.rm_part_on_exc (msys noFaults) (conc {} none) (erase (M.start fsEx2 1))).2.2.fs.dir.part = none := by decide
example : (atomic_rename (msys noFaults) Role.part Role.dest false (erase (M.start fsEx2 1))).2.tr = [.linkPartDest, .unlinkPart] ∧
    (atomic_rename (msys noFaults) Role.part Role.dest true (erase (M.start fsEx2 1))).2.tr = [.renamePartDest] ∧
    (replace (msys noFaults) Role.part Role.dest (erase (M.start fsEx2 1))).2.tr = [.renamePartDest] ∧
    (set_cloexec (msys noFaults) () (erase (M.start fsEx2 1))).1.toOption = some () ∧
    (set_cloexec (msys noFaults) () (erase (M.start fsEx2 1))).2.n = 0 := by decide
example : (AtomicSaver.open_part_file (msys noFaults) (conc {} none) (erase (M.start fsEx 1))).2.2.tr
      = [.openPart true true 0o640, .noop, .chmodPart 0o640] ∧
    (AtomicSaver.setup (msys noFaults) (conc { overwritePart := true } none) (erase (M.start fsEx2 1))).2.2.tr
      = [.unlinkPart, .openPart true true 0o666, .noop] ∧
    (AtomicSaver.enter (msys noFaults) (conc {} none) (erase (M.start fsEx 1))).1.toOption = some (some ()) ∧
    (AtomicSaver.exit (msys noFaults) (conc {} (some ())) none none none
        (AtomicSaver.enter (msys noFaults) (conc {} none) (erase (M.start fsEx 1))).2.2).2.2.tr
      = [.openPart true true 0o640, .noop, .chmodPart 0o640, .flush, .fsync, .close, .renamePartDest] := by decide

end C05
