import BoltonsVerif.PyRt
/-
PyRtC19 — runtime of the C19 source tie (round 3d; trusted like PyRt.lean; core Lean only).

The meaning of the SPEC-DECLARED OPERATIONS that `harness/py2lean_c19.py` puts in the place of calls the boltons line
readers make into the standard library.  Validated against CPython by `py2lean_c19.selftest` on every run.

* `finditerSpans alts t` — `[(m.start(g), m.end(g)) for m in RE.finditer(t)]` for a compiled regular expression `RE`
  whose matcher, at every position, tries the literal alternatives `alts` IN ORDER (first one that matches wins,
  no backtracking is possible after a literal alternation that ends the pattern), scanning left to right, matches
  not overlapping: after a match of length n the scan resumes n characters later.  The table `alts` is regenerated from
  the pattern of `boltons.strutils._line_ending_re` on every run (`Generated/C19_LineEndings.lean`); an EMPTY
  alternative (which would make `finditer` report empty matches) is not a line ending and is skipped — the self-test
  compares with `re.finditer` of the real pattern, so a pattern with such an alternative is reported there.
  A text is the list of its code points.
* `LineKey α` / `lineKey` — a caller-supplied predicate on lines (`indent(..., key=...)`): a PARAMETER of the generated
  definition (type-class instance), assumed to be a pure function of the line.
* `join sep parts` — `sep.join(parts)` on texts.
* bytes and binary files (`boltons.jsonutils.reverse_iter_lines`): a byte is an item of a type `β` with `[Byte β]` (its
  numeric value is read only HERE: the translated code passes bytes around and compares them); `bytesLit` a bytes
  literal; `bytesSplitlines` = `bytes.splitlines()` (`\n`, `\r`, `\r\n` end a line, no final empty line); `reversed` /
  `revTail` = `ls[::-1]` / `ls[:0:-1]`; `head ls` = `ls[0]` where the front-end has shown `ls` non-empty; a binary
  file object WITHOUT `.encoding` / `.detach` (io.BytesIO) is (content, position): `fileRead data pos n` = `f.read(n)`
  (everything from `pos` for a negative `n`, nothing beyond the end), `seekSet? p` = the position after
  `f.seek(p)` / `f.seek(p, os.SEEK_SET)` (ValueError for a negative `p`), `f.seek(0, os.SEEK_END)` = the length,
  `f.tell()` = the position.
* text mode of `reverse_iter_lines` (round 3f; `encoding` declared to be the codec name 'utf-8'): `decodeUtf8? b` =
  `b.decode('utf-8')` - the strict UTF-8 codec (`utf8Decode`: shortest form only, no surrogates, at most U+10FFFF) giving
  the text as the list of its characters, or UnicodeDecodeError - a ValueError, the class `PyExc` has - where CPython raises.
* `JSONLIterator.next` on a binary file (round 3f): the stored line iterator is the LIST of the lines it still yields
  (`iterNext?` = `next(it)`: the first of them, StopIteration when there is none; `iterRest` = the iterator afterwards);
  `lstripWs` = `bytes.lstrip()` (ASCII white space 9-13, 32), `rstripSet b chars` = `bytes.rstrip(chars)`;
  `JsonLoads β γ` / `jsonLoads?` — `json.loads` on a line: a PARAMETER of the generated definition (type-class instance),
  assumed to be a pure function of the line (same result or same exception whenever it is called on the same bytes);
  `jsonLoadsFails b` = "`json.loads(b)` raises" - by that purity, `try: v = json.loads(b)` / `except Exception: H` is
  `if jsonLoadsFails b then H else v = json.loads(b)`, and a bare `raise` in H is `json.loads(b)` raising again.
-/
namespace PyRtC19

/-- the caller's predicate `key` on a line -/
class LineKey (α : Type) where
  key : List α → Bool

def lineKey {α : Type} [LineKey α] (l : List α) : Bool := LineKey.key l

/-- `sep.join(parts)` -/
def join {α : Type} (sep : List α) : List (List α) → List α
  | [] => []
  | [l] => l
  | l :: l2 :: ls => l ++ sep ++ join sep (l2 :: ls)

/-- is the literal `lit` a prefix of `s`? -/
def litAt : List Nat → List Nat → Bool
  | [], _ => true
  | _ :: _, [] => false
  | a :: as, c :: cs => a == c && litAt as cs

/-- length of the first non-empty alternative that matches at the head of `s` -/
def firstAlt : List (List Nat) → List Nat → Option Nat
  | [], _ => none
  | alt :: alts, s => if alt ≠ [] ∧ litAt alt s = true then some alt.length else firstAlt alts s

/-- the scan: `skip` = characters still covered by the previous match, `off` = offset of the head of the list -/
def spansAux (alts : List (List Nat)) : Nat → Nat → List Nat → List (Int × Int)
  | _, _, [] => []
  | skip + 1, off, _ :: cs => spansAux alts skip (off + 1) cs
  | 0, off, c :: cs =>
    match firstAlt alts (c :: cs) with
    | some (n + 1) => ((off : Int), ((off + (n + 1) : Nat) : Int)) :: spansAux alts n (off + 1) cs
    | _ => spansAux alts 0 (off + 1) cs

/-- `[(m.start(g), m.end(g)) for m in RE.finditer(t)]`, `RE` = the alternation of the literals `alts` (group g) -/
def finditerSpans (alts : List (List Nat)) (t : List Nat) : List (Int × Int) := spansAux alts 0 0 t


/-! ### bytes and binary files -/

/-- a byte: its numeric value, and the byte with a given value -/
class Byte (β : Type) where
  val : β → Nat
  ofNat : Nat → β

instance : Byte Nat := ⟨id, id⟩

/-- a bytes literal -/
def bytesLit {β : Type} [Byte β] (l : List Nat) : List β := l.map Byte.ofNat

/-- put `c` in front of the first line -/
def consHead {β : Type} (c : β) : List (List β) → List (List β)
  | [] => [[c]]
  | l :: ls => (c :: l) :: ls

/-- `bytes.splitlines()`; the flag: the previous byte was a `\r` that ended a line (a `\n` right after it belongs to
    the same line break) -/
def splitlinesAux {β : Type} [Byte β] : Bool → List β → List (List β)
  | _, [] => []
  | prevCR, c :: cs =>
    if prevCR && Byte.val c == 10 then splitlinesAux false cs
    else if Byte.val c == 10 || Byte.val c == 13 then [] :: splitlinesAux (Byte.val c == 13) cs
    else consHead c (splitlinesAux false cs)

def bytesSplitlines {β : Type} [Byte β] (b : List β) : List (List β) := splitlinesAux false b

/-- `ls[::-1]` -/
def reversed {β : Type} (ls : List (List β)) : List (List β) := ls.reverse

/-- `ls[:0:-1]`: from the last item down to, not including, the first -/
def revTail {β : Type} (ls : List (List β)) : List (List β) := ls.tail.reverse

/-- `ls[0]` of a non-empty list -/
def head {β : Type} : List (List β) → List β
  | [] => []
  | l :: _ => l

/-- `f.read(n)` of a binary file with content `data` at position `pos` -/
def fileRead {β : Type} (data : List β) (pos n : Int) : List β :=
  if n < 0 then data.drop pos.toNat else (data.drop pos.toNat).take n.toNat

/-- the position after `f.seek(p)` -/
def seekSet? (p : Int) : Except PyExc Int :=
  if p < 0 then .error PyExc.ValueError else .ok p

/-! ### text mode: `line.decode('utf-8')` -/

/-- a UTF-8 continuation byte -/
def isCont (b : Nat) : Bool := 128 ≤ b && b ≤ 191

/-- `bytes.decode('utf-8')` (the strict codec) on byte values: the code points, or `none` where the codec raises
    UnicodeDecodeError (a byte that starts no sequence, a truncated or over-long sequence, a surrogate, a value above
    U+10FFFF) -/
def utf8Decode : List Nat → Option (List Nat)
  | [] => some []
  | b :: rest =>
    if b < 128 then (utf8Decode rest).map (b :: ·)
    else if 194 ≤ b && b ≤ 223 then
      match rest with
      | c1 :: r =>
        if isCont c1 then (utf8Decode r).map (((b - 192) * 64 + (c1 - 128)) :: ·) else none
      | _ => none
    else if 224 ≤ b && b ≤ 239 then
      match rest with
      | c1 :: c2 :: r =>
        if isCont c1 && isCont c2 && (b != 224 || 160 ≤ c1) && (b != 237 || c1 ≤ 159) then
          (utf8Decode r).map (((b - 224) * 4096 + (c1 - 128) * 64 + (c2 - 128)) :: ·)
        else none
      | _ => none
    else if 240 ≤ b && b ≤ 244 then
      match rest with
      | c1 :: c2 :: c3 :: r =>
        if isCont c1 && isCont c2 && isCont c3 && (b != 240 || 144 ≤ c1) && (b != 244 || c1 ≤ 143) then
          (utf8Decode r).map (((b - 240) * 262144 + (c1 - 128) * 4096 + (c2 - 128) * 64 + (c3 - 128)) :: ·)
        else none
      | _ => none
    else none

/-- `b.decode(encoding)`, `encoding` the declared codec 'utf-8': the text (a `str` is the list of its characters), or
    UnicodeDecodeError (a subclass of ValueError) -/
def decodeUtf8? {β : Type} [Byte β] (b : List β) : Except PyExc (List Char) :=
  match utf8Decode (b.map Byte.val) with
  | some cps => .ok (cps.map Char.ofNat)
  | none => .error PyExc.ValueError

/-! ### JSONLIterator.next: the line iterator, strip, json.loads -/

/-- `next(it)`, `it` an iterator that still yields the lines `ls` -/
def iterNext? {β : Type} (ls : List (List β)) : Except PyExc (List β) :=
  match ls with
  | [] => .error PyExc.StopIteration
  | l :: _ => .ok l

/-- the iterator after that `next` -/
def iterRest {β : Type} (ls : List (List β)) : List (List β) := ls.tail

/-- what `bytes.lstrip()` removes -/
def asciiWs (n : Nat) : Bool := n == 9 || n == 10 || n == 11 || n == 12 || n == 13 || n == 32

/-- `b.lstrip()` -/
def lstripWs {β : Type} [Byte β] (b : List β) : List β := b.dropWhile (fun c => asciiWs (Byte.val c))

/-- what `str.lstrip()` removes (code points; `str.isspace`) -/
def unicodeWs (n : Nat) : Bool :=
  [9, 10, 11, 12, 13, 28, 29, 30, 31, 32, 133, 160, 5760, 8192, 8193, 8194, 8195, 8196, 8197, 8198, 8199, 8200, 8201, 8202,
    8232, 8233, 8239, 8287, 12288].contains n

/-- `s.lstrip()` on a str (an item is a code point, `Byte.val` its value) -/
def lstripWsT {β : Type} [Byte β] (b : List β) : List β := b.dropWhile (fun c => unicodeWs (Byte.val c))

/-- `b.rstrip(chars)` -/
def rstripSet {β : Type} [Byte β] (b chars : List β) : List β :=
  (b.reverse.dropWhile (fun c => (chars.map Byte.val).contains (Byte.val c))).reverse

/-- `json.loads` on a line: the caller's parser, a pure function of the line -/
class JsonLoads (β : Type) (γ : outParam Type) where
  loads : List β → Except PyExc γ

def jsonLoads? {β γ : Type} [JsonLoads β γ] (b : List β) : Except PyExc γ := JsonLoads.loads b

/-- does `json.loads(b)` raise? -/
def jsonLoadsFails {β γ : Type} [JsonLoads β γ] (b : List β) : Bool :=
  match (JsonLoads.loads b : Except PyExc γ) with
  | .error _ => true
  | .ok _ => false

end PyRtC19
