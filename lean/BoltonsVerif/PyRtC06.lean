import BoltonsVerif.Generated.C06_UrlTables
/-
PyRtC06 — runtime of the source-translator module `harness/py2lean_c06.py` (property C06: the quoting functions of
`boltons/urlutils.py`).

A Python `str` is the list of its code points (`List Nat`), a `bytes` object the list of its bytes (`List Nat`, every
element < 256): the conventions of `C06/Model.lean`.  The functions below are the SPEC-DECLARED OPERATIONS the
translator rewrites str / bytes methods and the module-level lookup tables into (notes/SRCTIE.md, section "C06").
Each is a total Lean function written down independently of `C06/Model.lean` (the tie theorems in `C06/SrcTie.lean`
relate the two).  The tables themselves (`C06.Gen.*`) are regenerated from the module under test on every run.
Trusted like `PyRt.lean`; validated against CPython by the translator self-test on every run
(`py2lean_c06.selftest`).  Core Lean only.
-/
namespace PyRtC06

abbrev Str := List Nat
abbrev Bytes := List Nat

/-- `chr(c).encode('utf8')` for a code point that is not a surrogate -/
def utf8Char (c : Nat) : Bytes :=
  if c < 0x80 then [c]
  else if c < 0x800 then [0xC0 + c / 64, 0x80 + c % 64]
  else if c < 0x10000 then [0xE0 + c / 4096, 0x80 + c / 64 % 64, 0x80 + c % 64]
  else [0xF0 + c / 262144, 0x80 + c / 4096 % 64, 0x80 + c / 64 % 64, 0x80 + c % 64]

/-- `s.encode('utf8')` (precondition of every function using it: no surrogate code point in `s`, where CPython
    raises UnicodeEncodeError) -/
def utf8 (s : Str) : Bytes := s.flatMap utf8Char

/-- `M[k]` for one of the four quote maps (`_make_quote_map`: keys `chr(v)` and `v`, v < 256), `m` its regenerated
    table; the translator emits it only where the key is known to be in the map -/
def mapGet (m : List (List Nat)) (k : Nat) : Str := m.getD k []

/-- `_HEX_CHAR_MAP.get(k)`: `None` = the subscript raises KeyError; `t` is the regenerated table of the dict
    (two-byte keys `(a, b)` with their one-byte value) -/
def hexGet (t : List (Nat × Nat × Nat)) (k : Bytes) : Option Bytes :=
  match k with
  | [a, b] => (t.find? (fun e => e.1 == a && e.2.1 == b)).map (fun e => [e.2.2])
  | _ => none

/-- `s.split(sep)` for a one-element separator `c` (never the empty list: `splitOn_ne_nil`) -/
def splitOn (c : Nat) : List Nat → List (List Nat)
  | [] => [[]]
  | x :: r =>
    if x = c then [] :: splitOn c r
    else match splitOn c r with
      | p :: ps => (x :: p) :: ps
      | [] => [[x]]

theorem splitOn_ne_nil (c : Nat) (s : List Nat) : splitOn c s ≠ [] := by
  induction s with
  | nil => simp [splitOn]
  | cons x r ih =>
    unfold splitOn
    split
    · simp
    · split <;> simp

/-- `sep.join(parts)` with the empty separator -/
def joinEmpty (parts : List (List Nat)) : List Nat := parts.flatten

end PyRtC06
