import BoltonsVerif.Generated.C06_UrlTables
/-
PyRtC06 — runtime of the source-translator module `harness/py2lean_c06.py` (property C06: the quoting functions of
`boltons/urlutils.py`).

A Python `str` is the list of its code points (`List Nat`), a `bytes` object the list of its bytes (`List Nat`, every
element < 256): the conventions of `C06/Model.lean`.  The functions below are the SPEC-DECLARED OPERATIONS the
translator rewrites str / bytes methods and the module-level lookup tables into (notes/SRCTIE.md, section "C06").
Each is a total Lean function written down independently of `C06/Model.lean` (the tie theorems in `C06/SrcTie.lean`
relate the two).  The tables themselves (`C06.Gen.*`) are regenerated from the module under test on every run.
Trusted like `PyRt.lean`; validated against CPython by the translator self-test on every run
(`py2lean_c06.selftest`).  Core Lean only.
-/
namespace PyRtC06

abbrev Str := List Nat
abbrev Bytes := List Nat

/-- `chr(c).encode('utf8')` for a code point that is not a surrogate -/
def utf8Char (c : Nat) : Bytes :=
  if c < 0x80 then [c]
  else if c < 0x800 then [0xC0 + c / 64, 0x80 + c % 64]
  else if c < 0x10000 then [0xE0 + c / 4096, 0x80 + c / 64 % 64, 0x80 + c % 64]
  else [0xF0 + c / 262144, 0x80 + c / 4096 % 64, 0x80 + c / 64 % 64, 0x80 + c % 64]

/-- `s.encode('utf8')` (precondition of every function using it: no surrogate code point in `s`, where CPython
    raises UnicodeEncodeError) -/
def utf8 (s : Str) : Bytes := s.flatMap utf8Char

/-- `M[k]` for one of the four quote maps (`_make_quote_map`: keys `chr(v)` and `v`, v < 256), `m` its regenerated
    table; the translator emits it only where the key is known to be in the map -/
def mapGet (m : List (List Nat)) (k : Nat) : Str := m.getD k []

/-- `_HEX_CHAR_MAP.get(k)`: `None` = the subscript raises KeyError; `t` is the regenerated table of the dict
    (two-byte keys `(a, b)` with their one-byte value) -/
def hexGet (t : List (Nat × Nat × Nat)) (k : Bytes) : Option Bytes :=
  match k with
  | [a, b] => (t.find? (fun e => e.1 == a && e.2.1 == b)).map (fun e => [e.2.2])
  | _ => none

/-- `s.split(sep)` for a one-element separator `c` (never the empty list: `splitOn_ne_nil`) -/
def splitOn (c : Nat) : List Nat → List (List Nat)
  | [] => [[]]
  | x :: r =>
    if x = c then [] :: splitOn c r
    else match splitOn c r with
      | p :: ps => (x :: p) :: ps
      | [] => [[x]]

theorem splitOn_ne_nil (c : Nat) (s : List Nat) : splitOn c s ≠ [] := by
  induction s with
  | nil => simp [splitOn]
  | cons x r ih =>
    unfold splitOn
    split
    · simp
    · split <;> simp

/-- `sep.join(parts)` with the empty separator -/
def joinEmpty (parts : List (List Nat)) : List Nat := parts.flatten

/-! ## `unquote`: the regex split into ASCII runs, pairs of a `range(1, len(L), 2)` loop, the UTF-8 decoder -/

/-- `re.compile('([\x00-\x7f]+)').split(s)`: `[n0, a1, n1, …, ak, nk]` with `a_i` the maximal runs of ASCII characters
    and `n_i` what lies between them (`n0` / `nk` possibly empty).  Always of odd length (`asciiSplit_length`). -/
def asciiSplit : Str → List Str
  | [] => [[]]
  | c :: r =>
    match asciiSplit r with
    | n0 :: tl =>
      if c < 128 then
        match n0, tl with
        | [], a1 :: t => [] :: (c :: a1) :: t
        | _, _ => [] :: [c] :: n0 :: tl
      else (c :: n0) :: tl
    | [] => [[c]]      -- unreachable

/-- `[(L[i], L[i + 1]) for i in range(1, len(L), 2)]` when `len(L)` is odd (an even length would end in IndexError) -/
def pairsFrom1 : List Str → List (Str × Str)
  | _ :: a :: n :: t => (a, n) :: pairsFrom1 (n :: t)
  | _ => []

theorem asciiSplit_length (s : Str) : (asciiSplit s).length % 2 = 1 := by
  induction s with
  | nil => rfl
  | cons c r ih =>
    unfold asciiSplit
    split
    · rename_i n0 tl heq
      rw [heq] at ih
      split
      · split
        · simp only [List.length_cons] at ih ⊢; omega
        · simp only [List.length_cons] at ih ⊢; omega
      · simpa using ih
    · rfl

/-- one step of CPython's UTF-8 decoder with `errors='replace'` on `b0 :: rest`: (code point produced, number of
    bytes of `rest` consumed with it).  U+FFFD replaces an invalid start byte / a lead byte whose next byte cannot
    continue it (alone), and a valid proper prefix of a longer sequence (as a whole). -/
def isCont (b : Nat) : Bool := 0x80 ≤ b && b < 0xC0

def decodeStep (b0 : Nat) (rest : Bytes) : Nat × Nat :=
  if b0 < 0x80 then (b0, 0)
  else if b0 < 0xC2 then (0xFFFD, 0)
  else if b0 < 0xE0 then
    match rest with
    | [] => (0xFFFD, 0)
    | b1 :: _ => if isCont b1 then ((b0 - 0xC0) * 64 + (b1 - 0x80), 1) else (0xFFFD, 0)
  else if b0 < 0xF0 then
    match rest with
    | [] => (0xFFFD, 0)
    | b1 :: r1 =>
      if !isCont b1 || (if b1 < 0xA0 then b0 == 0xE0 else b0 == 0xED) then (0xFFFD, 0)
      else match r1 with
        | [] => (0xFFFD, 1)
        | b2 :: _ =>
          if isCont b2 then ((b0 - 0xE0) * 4096 + (b1 - 0x80) * 64 + (b2 - 0x80), 2) else (0xFFFD, 1)
  else if b0 < 0xF5 then
    match rest with
    | [] => (0xFFFD, 0)
    | b1 :: r1 =>
      if !isCont b1 || (if b1 < 0x90 then b0 == 0xF0 else b0 == 0xF4) then (0xFFFD, 0)
      else match r1 with
        | [] => (0xFFFD, 1)
        | b2 :: r2 =>
          if !isCont b2 then (0xFFFD, 1)
          else match r2 with
            | [] => (0xFFFD, 2)
            | b3 :: _ =>
              if isCont b3 then
                ((b0 - 0xF0) * 262144 + (b1 - 0x80) * 4096 + (b2 - 0x80) * 64 + (b3 - 0x80), 3)
              else (0xFFFD, 2)
  else (0xFFFD, 0)

def decodeGo : Nat → Bytes → Str
  | 0, _ => []
  | _ + 1, [] => []
  | f + 1, x :: rest => (decodeStep x rest).1 :: decodeGo f (rest.drop (decodeStep x rest).2)

/-- `bs.decode('utf-8', 'replace')` -/
def decodeUtf8Replace (bs : Bytes) : Str := decodeGo bs.length bs

end PyRtC06
