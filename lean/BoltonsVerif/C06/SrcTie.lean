import BoltonsVerif.C06.Model
import BoltonsVerif.C06.Tables
import BoltonsVerif.Generated.Src_urlutils_quote
/-
C06 — SOURCE TIE (round 3e): the quoting functions of `boltons/urlutils.py`, translated from the source text on every
run by `harness/py2lean_c06.py` (→ `Generated/Src_urlutils_quote.lean`, namespace `Src.urlutils`), are EQUAL to the
hand model `C06/Model.lean`.  The declared operations of the translation (`lean/BoltonsVerif/PyRtC06.lean`) are written
down independently of the model; the lemmas of the first section relate the two, the tie theorems then only unfold the
generated definition and rewrite with them (no replay of the statement order of the source).

  quote_{path,query,fragment,userinfo}_part  =  `C06.quotePart <component> nfc full_quote text`  for EVERY `nfc`
  (the hand model's parameter `nfc` = `unicodedata.normalize('NFC', ·)`, here a parameter of the generated definition).
-/
namespace C06
open C06.Gen

/-! ## the declared operations are the model's -/

theorem rt_utf8Char_eq : PyRtC06.utf8Char = C06.utf8Char := by
  funext c; simp [PyRtC06.utf8Char, C06.utf8Char]

theorem rt_utf8_eq : PyRtC06.utf8 = C06.utf8 := by
  funext s; simp [PyRtC06.utf8, C06.utf8, rt_utf8Char_eq]

theorem rt_mapGet_eq : PyRtC06.mapGet = C06.mapGet := by
  funext m k; rfl

theorem rt_join_map (l : List Nat) (f : Nat → List Nat) : PyRtC06.joinEmpty (l.map f) = l.flatMap f := by
  simp [PyRtC06.joinEmpty, List.flatMap_def]

/-- the side condition under which the translator emits a total lookup `_X_QUOTE_MAP[t]` below `t in _Y_DELIMS`:
    every member of every delimiter table is a key (an index) of every quote table -/
theorem src_delims_in_maps :
    ([userinfoDelims, pathDelims, queryDelims, fragmentDelims].all fun d =>
      [userinfoMap, pathMap, queryMap, fragmentMap].all fun m => d.all fun t => decide (t < m.length)) = true := by
  decide +kernel

/-- every table covers the 256 byte values (the lookup below an iteration over a `bytes` object is total) -/
theorem src_maps_cover_bytes :
    ([userinfoMap, pathMap, queryMap, fragmentMap].all fun m => m.length == 256) = true := by
  decide +kernel

/-! ## the tie theorems -/

set_option hygiene false in
local macro "quote_tie" : tactic => `(tactic|
  (intros
   simp only [quotePart, quoteFull, quoteMin, Comp.map, Comp.delims, rt_utf8_eq, rt_mapGet_eq, rt_join_map]
   first
     | rfl
     | (split <;> rfl)
     | (split <;> simp)))

theorem src_quote_path_part_eq_model (nfc : Text → Text) (text : Text) (full : Bool) :
    Src.urlutils.quote_path_part nfc text full = quotePart .path nfc full text := by
  unfold Src.urlutils.quote_path_part; quote_tie

theorem src_quote_query_part_eq_model (nfc : Text → Text) (text : Text) (full : Bool) :
    Src.urlutils.quote_query_part nfc text full = quotePart .query nfc full text := by
  unfold Src.urlutils.quote_query_part; quote_tie

theorem src_quote_fragment_part_eq_model (nfc : Text → Text) (text : Text) (full : Bool) :
    Src.urlutils.quote_fragment_part nfc text full = quotePart .fragment nfc full text := by
  unfold Src.urlutils.quote_fragment_part; quote_tie

theorem src_quote_userinfo_part_eq_model (nfc : Text → Text) (text : Text) (full : Bool) :
    Src.urlutils.quote_userinfo_part nfc text full = quotePart .userinfo nfc full text := by
  unfold Src.urlutils.quote_userinfo_part; quote_tie

/-! non-vacuity: the generated definitions compute (`a/b c?` → `a%2Fb%20c%3F`, and only `/`, `?` when not full) -/
example : Src.urlutils.quote_path_part id [97, 47, 98, 32, 99, 63] true
    = [97, 37, 50, 70, 98, 37, 50, 48, 99, 37, 51, 70] := by decide
example : Src.urlutils.quote_path_part id [97, 47, 98, 32, 99, 63] false
    = [97, 37, 50, 70, 98, 32, 99, 37, 51, 70] := by decide
example : Src.urlutils.quote_query_part id [97, 38, 233] true = [97, 37, 50, 54, 37, 67, 51, 37, 65, 57] := by decide
example : Src.urlutils.quote_fragment_part id [35, 47] false = [37, 50, 51, 47] := by decide
example : Src.urlutils.quote_userinfo_part id [58, 64, 33] true = [37, 51, 65, 37, 52, 48, 33] := by decide
example : pathDelims ≠ [] ∧ pathMap.length = 256 := by decide +kernel

end C06
