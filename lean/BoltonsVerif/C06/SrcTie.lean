import BoltonsVerif.C06.Model
import BoltonsVerif.C06.Tables
import BoltonsVerif.C06.Proofs
import BoltonsVerif.C06.Props
import BoltonsVerif.Generated.Src_urlutils_quote
/-
C06 — SOURCE TIE (round 3e): the quoting functions of `boltons/urlutils.py`, translated from the source text on every
run by `harness/py2lean_c06.py` (→ `Generated/Src_urlutils_quote.lean`, namespace `Src.urlutils`), are EQUAL to the
hand model `C06/Model.lean`.  The declared operations of the translation (`lean/BoltonsVerif/PyRtC06.lean`) are written
down independently of the model; the lemmas of the first section relate the two, the tie theorems then only unfold the
generated definition and rewrite with them (no replay of the statement order of the source).

  quote_{path,query,fragment,userinfo}_part  =  `C06.quotePart <component> nfc full_quote text`  for EVERY `nfc`
  (the hand model's parameter `nfc` = `unicodedata.normalize('NFC', ·)`, here a parameter of the generated definition).
-/
set_option linter.unusedSimpArgs false

namespace C06
open C06.Gen

/-! ## the declared operations are the model's -/

theorem rt_utf8Char_eq : PyRtC06.utf8Char = C06.utf8Char := by
  funext c; simp [PyRtC06.utf8Char, C06.utf8Char]

theorem rt_utf8_eq : PyRtC06.utf8 = C06.utf8 := by
  funext s; simp [PyRtC06.utf8, C06.utf8, rt_utf8Char_eq]

theorem rt_mapGet_eq : PyRtC06.mapGet = C06.mapGet := by
  funext m k; rfl

theorem rt_join_map (l : List Nat) (f : Nat → List Nat) : PyRtC06.joinEmpty (l.map f) = l.flatMap f := by
  simp [PyRtC06.joinEmpty, List.flatMap_def]

/-- the side condition under which the translator emits a total lookup `_X_QUOTE_MAP[t]` below `t in _Y_DELIMS`:
    every member of every delimiter table is a key (an index) of every quote table -/
theorem src_delims_in_maps :
    ([userinfoDelims, pathDelims, queryDelims, fragmentDelims].all fun d =>
      [userinfoMap, pathMap, queryMap, fragmentMap].all fun m => d.all fun t => decide (t < m.length)) = true := by
  decide +kernel

/-- every table covers the 256 byte values (the lookup below an iteration over a `bytes` object is total) -/
theorem src_maps_cover_bytes :
    ([userinfoMap, pathMap, queryMap, fragmentMap].all fun m => m.length == 256) = true := by
  decide +kernel

/-! ## loops that append -/

/-- a loop that only appends chunks computes, once joined, the concatenation of the chunks -/
theorem src_foldl_chunks {α : Type} (g : α → List Bytes) (body : List Bytes → α → List Bytes)
    (h : ∀ res item, body res item = res ++ g item) :
    ∀ (l : List α) (res : List Bytes),
      PyRtC06.joinEmpty (l.foldl body res) = res.flatten ++ l.flatMap (fun i => (g i).flatten) := by
  intro l
  induction l with
  | nil => intro res; simp [PyRtC06.joinEmpty]
  | cons x r ih => intro res; simp [List.foldl_cons, ih, h, List.flatMap_cons]

/-- the same with the chunks read off the body itself (`body [] item`): usable without knowing the loop -/
theorem src_foldl_join {α : Type} (body : List Bytes → α → List Bytes)
    (h : ∀ res item, body res item = res ++ body [] item) :
    ∀ (l : List α) (res : List Bytes),
      PyRtC06.joinEmpty (l.foldl body res) = res.flatten ++ l.flatMap (fun i => (body [] i).flatten) :=
  src_foldl_chunks (fun i => body [] i) body h

/-! ## the tie theorems -/

/-- both sides are decided by `full_quote`: case split first, so that the order of the two branches in the source
    (`if full_quote:` / `if not full_quote:`, early return or `else`) does not matter; a comprehension is a `map`
    (`rt_join_map`), an explicit loop with `append` is rewritten by `src_foldl_join` (its shape condition is a side goal) -/
local macro "quote_tie" b:ident : tactic => `(tactic|
  (cases $b:ident <;>
   simp only [quotePart, quoteFull, quoteMin, Comp.map, Comp.delims, rt_utf8_eq, rt_mapGet_eq, rt_join_map,
     Bool.not_true, Bool.not_false, Bool.false_eq_true, if_true, if_false, ↓reduceIte] <;>
   first
    | done
    | rfl
    | (rw [src_foldl_join]
       · simp only [List.flatten_nil, List.nil_append, List.flatten_cons, List.append_nil]
         first
          | done
          | rfl
          | (congr 1; funext t; split <;> simp_all)
       · intro res item
         simp only [List.nil_append]
         first
          | done
          | rfl
          | (split <;> rfl)
          | simp_all)))

theorem src_quote_path_part_eq_model (nfc : Text → Text) (text : Text) (full : Bool) :
    Src.urlutils.quote_path_part nfc text full = quotePart .path nfc full text := by
  unfold Src.urlutils.quote_path_part; quote_tie full

-- non-vacuity: `a/b c?` → `a%2Fb%20c%3F`, and only `/`, `?` when not full
example : Src.urlutils.quote_path_part id [97, 47, 98, 32, 99, 63] true
    = [97, 37, 50, 70, 98, 37, 50, 48, 99, 37, 51, 70] := by decide +kernel
example : Src.urlutils.quote_path_part id [97, 47, 98, 32, 99, 63] false
    = [97, 37, 50, 70, 98, 32, 99, 37, 51, 70] := by decide +kernel

theorem src_quote_query_part_eq_model (nfc : Text → Text) (text : Text) (full : Bool) :
    Src.urlutils.quote_query_part nfc text full = quotePart .query nfc full text := by
  unfold Src.urlutils.quote_query_part; quote_tie full

example : Src.urlutils.quote_query_part id [97, 38, 233] true = [97, 37, 50, 54, 37, 67, 51, 37, 65, 57] := by decide +kernel

theorem src_quote_fragment_part_eq_model (nfc : Text → Text) (text : Text) (full : Bool) :
    Src.urlutils.quote_fragment_part nfc text full = quotePart .fragment nfc full text := by
  unfold Src.urlutils.quote_fragment_part; quote_tie full

example : Src.urlutils.quote_fragment_part id [35, 47] false = [37, 50, 51, 47] := by decide +kernel

theorem src_quote_userinfo_part_eq_model (nfc : Text → Text) (text : Text) (full : Bool) :
    Src.urlutils.quote_userinfo_part nfc text full = quotePart .userinfo nfc full text := by
  unfold Src.urlutils.quote_userinfo_part; quote_tie full

example : Src.urlutils.quote_userinfo_part id [58, 64, 33] true = [37, 51, 65, 37, 52, 48, 33] := by decide +kernel
example : pathDelims ≠ [] ∧ pathMap.length = 256 := by decide +kernel

/-! ## `unquote_to_bytes`: the split-on-`%` loop is the model's left-to-right scan

`Src.urlutils.unquote_to_bytes s = C06.unqBytes (utf8 s)`: the model function is stated on a string whose code points
are its bytes (ASCII, what `unquote` hands over); for every other str the source encodes first, and so does the
right-hand side.  The proof goes through the reference decoder `unqSpec` (`unqBytes_eq_spec`): the pieces between
the `%` signs, decoded one by one, satisfy the three defining equations of `unqSpec`. -/

/-- the contribution of one piece after a `%`, as the list of chunks the loop body appends -/
def unqChunks (item : Bytes) : List Bytes :=
  match PyRtC06.hexGet hexMap (item.take 2) with
  | some v => [v, item.drop 2]
  | none => [[37], item]

def pieceHd (l : Bytes) : Bytes := (PyRtC06.splitOn 37 l).headD []
def pieceTl (l : Bytes) : List Bytes := (PyRtC06.splitOn 37 l).drop 1

theorem splitOn_eq (l : Bytes) : PyRtC06.splitOn 37 l = pieceHd l :: pieceTl l := by
  unfold pieceHd pieceTl
  cases h : PyRtC06.splitOn 37 l with
  | nil => exact absurd h (PyRtC06.splitOn_ne_nil 37 l)
  | cons a b => simp

theorem splitOn_pct (r : Bytes) : PyRtC06.splitOn 37 (37 :: r) = [] :: PyRtC06.splitOn 37 r := by
  simp [PyRtC06.splitOn]
theorem splitOn_ne {x : Nat} (h : x ≠ 37) (r : Bytes) :
    PyRtC06.splitOn 37 (x :: r) = (x :: pieceHd r) :: pieceTl r := by
  rw [PyRtC06.splitOn, if_neg h, splitOn_eq r]

theorem pieceHd_nil : pieceHd [] = [] := by simp [pieceHd, PyRtC06.splitOn]
theorem pieceTl_nil : pieceTl [] = [] := by simp [pieceTl, PyRtC06.splitOn]
theorem pieceHd_pct (r : Bytes) : pieceHd (37 :: r) = [] := by rw [pieceHd, splitOn_pct]; rfl
theorem pieceTl_pct (r : Bytes) : pieceTl (37 :: r) = pieceHd r :: pieceTl r := by
  rw [pieceTl, splitOn_pct, splitOn_eq r]; rfl
theorem pieceHd_ne {x : Nat} (h : x ≠ 37) (r : Bytes) : pieceHd (x :: r) = x :: pieceHd r := by
  rw [pieceHd, splitOn_ne h]; rfl
theorem pieceTl_ne {x : Nat} (h : x ≠ 37) (r : Bytes) : pieceTl (x :: r) = pieceTl r := by
  rw [pieceTl, splitOn_ne h]; rfl

/-- the decoded pieces, joined -/
def piecesDec (l : Bytes) : Bytes := pieceHd l ++ (pieceTl l).flatMap (fun i => (unqChunks i).flatten)

theorem rt_hexGet_pair (a b : Nat) : PyRtC06.hexGet hexMap [a, b] = (hexPair? a b).map (fun v => [v]) := by
  simp [PyRtC06.hexGet, hexPair?, Option.map_map, Function.comp_def]

theorem rt_hexGet_short (k : Bytes) (h : k.length < 2) : PyRtC06.hexGet hexMap k = none := by
  match k, h with
  | [], _ => rfl
  | [_], _ => rfl

theorem piecesDec_nil : piecesDec [] = [] := by simp [piecesDec, pieceHd_nil, pieceTl_nil]

theorem piecesDec_ne {x : Nat} (h : x ≠ 37) (r : Bytes) : piecesDec (x :: r) = x :: piecesDec r := by
  simp [piecesDec, pieceHd_ne h, pieceTl_ne h]

theorem piecesDec_pct (r : Bytes) :
    piecesDec (37 :: r) = (unqChunks (pieceHd r)).flatten ++ (pieceTl r).flatMap (fun i => (unqChunks i).flatten) := by
  simp [piecesDec, pieceHd_pct, pieceTl_pct]

/-- `%` not followed by a key of the hex map stays -/
theorem piecesDec_pct_stay (r : Bytes) (h : PyRtC06.hexGet hexMap ((pieceHd r).take 2) = none) :
    piecesDec (37 :: r) = 37 :: piecesDec r := by
  rw [piecesDec_pct]
  simp [unqChunks, h, piecesDec]

theorem piecesDec_eq_spec (l : Bytes) : piecesDec l = unqSpec l := by
  fun_induction unqSpec l with
  | case1 => exact piecesDec_nil
  | case2 a b r hh ih =>
    simp only [Bool.and_eq_true] at hh
    have ha : a ≠ 37 := fun e => by rw [e] at hh; simp [isHexDigit] at hh
    have hb : b ≠ 37 := fun e => by rw [e] at hh; simp [isHexDigit] at hh
    have hp : hexPair? a b = some (16 * hexVal a + hexVal b) := by
      rw [hexPair_eq_spec]; simp [hexSpec, hh.1, hh.2]
    rw [piecesDec_pct, pieceHd_ne ha, pieceHd_ne hb, pieceTl_ne ha, pieceTl_ne hb, ← ih]
    simp [unqChunks, rt_hexGet_pair, hp, piecesDec]
  | case3 a b r hh ih =>
    rw [← ih]
    apply piecesDec_pct_stay
    by_cases ha : a = 37
    · subst ha; simp [pieceHd_pct]; exact rt_hexGet_short [] (by simp)
    · rw [pieceHd_ne ha]
      by_cases hb : b = 37
      · subst hb; simp [pieceHd_pct]; exact rt_hexGet_short [a] (by simp)
      · rw [pieceHd_ne hb]
        simp only [List.take_succ_cons, List.take_zero]
        rw [rt_hexGet_pair, hexPair_eq_spec]
        simp only [Bool.and_eq_true] at hh
        simp [hexSpec, hh]
  | case4 c rest hne ih =>
    rw [← ih]
    by_cases hc : c = 37
    · subst hc
      apply piecesDec_pct_stay
      match rest, hne with
      | [], _ => simp [pieceHd_nil]; exact rt_hexGet_short [] (by simp)
      | [a], _ =>
        by_cases ha : a = 37
        · subst ha; simp [pieceHd_pct]; exact rt_hexGet_short [] (by simp)
        · simp [pieceHd_ne ha, pieceHd_nil]; exact rt_hexGet_short [a] (by simp)
      | a :: b :: r, hne => exact (hne a b r rfl rfl).elim
    · exact piecesDec_ne hc rest

/-- no `%`: the only piece is the whole string -/
theorem pieceHd_of_tl_nil : ∀ (l : Bytes), pieceTl l = [] → pieceHd l = l := by
  intro l
  induction l with
  | nil => intro _; exact pieceHd_nil
  | cons x r ih =>
    intro h
    by_cases hx : x = 37
    · subst hx; rw [pieceTl_pct] at h; cases h
    · rw [pieceTl_ne hx] at h; rw [pieceHd_ne hx, ih h]

theorem pieceTl_nil_iff : ∀ (l : Bytes), pieceTl l = [] ↔ l.contains 37 = false := by
  intro l
  induction l with
  | nil => simp [pieceTl_nil]
  | cons x r ih =>
    by_cases hx : x = 37
    · subst hx; simp [pieceTl_pct]
    · rw [pieceTl_ne hx, ih]
      have : (x == 37) = false := by simp [hx]
      simp [eq_comm, hx]

/-- the tie.  The two ways the source may detect "no `%` at all" (`len(bits) == 1` after the split, or `b'%' not in
    string` before it) are both decided by `pieceTl l = []`: whichever test the generated definition contains is
    rewritten by the corresponding fact. -/
theorem src_unquote_to_bytes_eq_model (s : Text) :
    Src.urlutils.unquote_to_bytes s = unqBytes (utf8 s) := by
  rw [unqBytes_eq_spec, ← piecesDec_eq_spec]
  unfold Src.urlutils.unquote_to_bytes
  simp only [rt_utf8_eq]
  cases s with
  | nil => simp [utf8, piecesDec_nil]
  | cons c cs =>
    generalize utf8 (c :: cs) = l
    simp only [splitOn_eq l]
    by_cases ht : pieceTl l = []
    · have hc : l.contains 37 = false := (pieceTl_nil_iff l).1 ht
      have hm : 37 ∉ l := by simpa using hc
      simp [ht, hc, hm, piecesDec, pieceHd_of_tl_nil l ht, PyRtC06.joinEmpty]
    · have hc : l.contains 37 = true := by
        cases h : l.contains 37
        · exact absurd ((pieceTl_nil_iff l).2 h) ht
        · rfl
      have hlen : ((pieceHd l :: pieceTl l).length == 1) = false := by
        cases h : pieceTl l <;> simp_all
      simp only [hlen, hc, List.isEmpty_cons, Bool.not_false, Bool.not_true, Bool.false_eq_true, if_false,
        List.headD_cons, List.drop_succ_cons, List.drop_zero]
      rw [src_foldl_chunks unqChunks]
      · simp [piecesDec]
      · intro res item
        simp only [unqChunks]
        split <;> simp [*]

-- `a%41%4` → `aA%4`; `%e9%` → `\xe9%`; `é` → its UTF-8 bytes
example : Src.urlutils.unquote_to_bytes [97, 37, 52, 49, 37, 52] = [97, 65, 37, 52] := by decide +kernel
example : Src.urlutils.unquote_to_bytes [37, 101, 57, 37] = [233, 37] := by decide +kernel
example : Src.urlutils.unquote_to_bytes [233] = [195, 169] := by decide +kernel

/-! ## `unquote`: the loop over the regex split is the model's character loop `unqGo`

`Src.urlutils.unquote s = C06.unquote s` (the call with the default `encoding` / `errors`).  The declared operations:
`PyRtC06.asciiSplit` (= `_ASCII_RE.split`), `PyRtC06.pairsFrom1` (the index loop `range(1, len(bits), 2)`),
`PyRtC06.decodeUtf8Replace` (proved equal to the model's `decodeR`).  `unqK acc L` says what `unqGo s acc` is in terms
of the split `L` of `s` when `acc` is the (reversed) ASCII run in progress. -/

theorem rt_decodeStep_eq : PyRtC06.decodeStep = C06.decodeStep := by
  funext b0 rest
  rfl

theorem rt_decodeGo_eq : ∀ (f : Nat) (l : Bytes), PyRtC06.decodeGo f l = runF C06.decodeStep f l := by
  intro f
  induction f with
  | zero => intro l; rfl
  | succ f ih =>
    intro l
    cases l with
    | nil => rfl
    | cons x rest => simp [PyRtC06.decodeGo, runF, rt_decodeStep_eq, ih]

theorem rt_decode_eq : PyRtC06.decodeUtf8Replace = C06.decodeR := by
  funext bs
  simp [PyRtC06.decodeUtf8Replace, decodeR, run, rt_decodeGo_eq]

theorem utf8_ascii (a : Text) (h : ∀ x ∈ a, x < 128) : utf8 a = a := by
  induction a with
  | nil => rfl
  | cons x a ih =>
    have hx : x < 128 := h x (by simp)
    have := ih (fun y hy => h y (by simp [hy]))
    simp only [utf8, List.flatMap_cons] at this ⊢
    rw [this]
    simp [utf8Char, hx]

/-- what the loop body contributes for one ASCII run: percent-decoded (as `unquote_to_bytes` does it: after encoding),
    then read as UTF-8 -/
def unqD (a : Text) : Text := decodeR (unqBytes (utf8 a))

theorem unqD_ascii (a : Text) (h : ∀ x ∈ a, x < 128) : unqD a = decodeR (unqBytes a) := by
  rw [unqD, utf8_ascii a h]

theorem unqD_nil : unqD [] = [] := by simp [unqD, utf8, unqBytes_nil, decodeR_nil]

def pairsDec (l : List Text) : Text := (PyRtC06.pairsFrom1 l).flatMap fun p => unqD p.1 ++ p.2

theorem pairsDec_cons3 (n0 a n : Text) (t : List Text) :
    pairsDec (n0 :: a :: n :: t) = unqD a ++ (n ++ pairsDec (n :: t)) := by
  simp [pairsDec, PyRtC06.pairsFrom1]

theorem pairsFrom1_head (x y : Text) (tl : List Text) :
    PyRtC06.pairsFrom1 (x :: tl) = PyRtC06.pairsFrom1 (y :: tl) := by
  match tl with
  | [] => simp [PyRtC06.pairsFrom1]
  | [_] => simp [PyRtC06.pairsFrom1]
  | _ :: _ :: _ => simp [PyRtC06.pairsFrom1]

theorem pairsDec_head (x y : Text) (tl : List Text) : pairsDec (x :: tl) = pairsDec (y :: tl) := by
  simp only [pairsDec, pairsFrom1_head x y tl]

def unqK (acc : Text) (l : List Text) : Text :=
  match l with
  | [] => unqD acc.reverse
  | n0 :: tl =>
    if n0 = [] then
      match tl with
      | a1 :: n1 :: t => unqD (acc.reverse ++ a1) ++ (n1 ++ pairsDec (n1 :: t))
      | _ => unqD acc.reverse
    else unqD acc.reverse ++ (n0 ++ pairsDec (n0 :: tl))

theorem unqK_nil (l : List Text) : unqK [] l = l.headD [] ++ pairsDec l := by
  match l with
  | [] => simp [unqK, unqD_nil, pairsDec, PyRtC06.pairsFrom1]
  | [n0] => by_cases h : n0 = [] <;> simp [unqK, unqD_nil, pairsDec, PyRtC06.pairsFrom1, h]
  | [n0, a] => by_cases h : n0 = [] <;> simp [unqK, unqD_nil, pairsDec, PyRtC06.pairsFrom1, h]
  | n0 :: a :: n :: t =>
    by_cases h : n0 = []
    · simp [unqK, h, pairsDec_cons3]
    · simp [unqK, unqD_nil, h]

theorem unqGo_eq_unqK : ∀ (s acc : Text), (∀ x ∈ acc, x < 128) → unqGo s acc = unqK acc (PyRtC06.asciiSplit s) := by
  intro s
  induction s with
  | nil =>
    intro acc hacc
    simp [unqGo, PyRtC06.asciiSplit, unqK, unqD_ascii acc.reverse (by simpa using hacc)]
  | cons c r ih =>
    intro acc hacc
    have hodd := PyRtC06.asciiSplit_length r
    have hD : decodeR (unqBytes acc.reverse) = unqD acc.reverse :=
      (unqD_ascii acc.reverse (by simpa using hacc)).symm
    cases hsp : PyRtC06.asciiSplit r with
    | nil => rw [hsp] at hodd; simp at hodd
    | cons m0 tl =>
      rw [hsp] at hodd
      by_cases hc : c < 128
      · have hacc2 : ∀ x ∈ c :: acc, x < 128 := by
          intro x hx; rcases List.mem_cons.1 hx with rfl | hx
          · exact hc
          · exact hacc x hx
        have e := ih (c :: acc) hacc2
        rw [hsp] at e
        simp only [unqGo, hc, if_true]
        rw [e]
        unfold PyRtC06.asciiSplit
        rw [hsp]
        simp only [hc, if_true]
        cases m0 with
        | nil =>
          cases tl with
          | nil => simp [unqK, pairsDec, PyRtC06.pairsFrom1]
          | cons a1 t =>
            cases t with
            | nil => simp at hodd
            | cons n1 t2 => simp [unqK]
        | cons x m => simp [unqK]
      · have e := ih [] (by simp)
        rw [hsp, unqK_nil] at e
        simp only [unqGo, hc, if_false]
        rw [e, hD]
        unfold PyRtC06.asciiSplit
        rw [hsp]
        simp only [hc, if_false]
        simp [unqK, pairsDec_head (c :: m0) m0 tl]

theorem src_unquote_eq_model (s : Text) : Src.urlutils.unquote s = C06.unquote s := by
  unfold Src.urlutils.unquote
  by_cases hp : 37 ∈ s
  · have hc : s.contains 37 = true := by simpa using hp
    simp only [hc, Bool.not_true, Bool.false_eq_true, if_false]
    rw [src_foldl_chunks (fun p => [unqD p.1, p.2])]
    · rw [C06.unquote, unqGo_eq_unqK s [] (by simp), unqK_nil]
      simp [pairsDec]
    · intro res item
      simp [rt_decode_eq, src_unquote_to_bytes_eq_model, unqD]
  · have hc : s.contains 37 = false := by simpa using hp
    simp [hc, hp, unquote_no_pct s hp]

-- `%c3%a9é%41` → `ééA` (an escape sequence decoded as UTF-8, a raw non-ASCII character kept); no `%`: unchanged
example : Src.urlutils.unquote [37, 99, 51, 37, 97, 57, 233, 37, 52, 49] = [233, 233, 65] := by decide +kernel
example : Src.urlutils.unquote [97, 233, 43] = [97, 233, 43] := by decide +kernel
example : Src.urlutils.unquote [37, 101, 57] = [65533] := by decide +kernel

/-! ## the chain closed: the property theorems of `C06/Props.lean`, restated about the GENERATED definitions

(source text → `Src.urlutils.*` → model → property).  Each is the model-level theorem rewritten with the ties. -/

/-- `unquote_to_bytes` on an ASCII str (what `unquote` hands it) is the model function as stated, and the reference
    percent-decoder -/
theorem src_unquote_to_bytes_ascii (s : Text) (h : ∀ x ∈ s, x < 128) :
    Src.urlutils.unquote_to_bytes s = unqBytes s ∧ Src.urlutils.unquote_to_bytes s = unqSpec s := by
  rw [src_unquote_to_bytes_eq_model, utf8_ascii s h]
  exact ⟨rfl, unqBytes_eq_spec s⟩

/-- `unquote(quote_path_part(s)) == NFC(s)` about the translated source (and likewise for the three other parts) -/
theorem src_unquote_quote_roundtrip (nfc : Text → Text) (s : Text) (hs : ∀ x ∈ nfc s, isScalar x = true) :
    Src.urlutils.unquote (Src.urlutils.quote_path_part nfc s true) = nfc s
    ∧ Src.urlutils.unquote (Src.urlutils.quote_query_part nfc s true) = nfc s
    ∧ Src.urlutils.unquote (Src.urlutils.quote_fragment_part nfc s true) = nfc s
    ∧ Src.urlutils.unquote (Src.urlutils.quote_userinfo_part nfc s true) = nfc s := by
  simp only [src_unquote_eq_model, src_quote_path_part_eq_model, src_quote_query_part_eq_model,
    src_quote_fragment_part_eq_model, src_quote_userinfo_part_eq_model]
  exact ⟨unquote_quote .path nfc s hs, unquote_quote .query nfc s hs, unquote_quote .fragment nfc s hs,
    unquote_quote .userinfo nfc s hs⟩

/-- minimal quoting is undone by `unquote` for every text without `%`, about the translated source -/
theorem src_unquote_quote_min_roundtrip (nfc : Text → Text) (s : Text) (hs : 37 ∉ s) :
    Src.urlutils.unquote (Src.urlutils.quote_path_part nfc s false) = s
    ∧ Src.urlutils.unquote (Src.urlutils.quote_query_part nfc s false) = s
    ∧ Src.urlutils.unquote (Src.urlutils.quote_fragment_part nfc s false) = s
    ∧ Src.urlutils.unquote (Src.urlutils.quote_userinfo_part nfc s false) = s := by
  simp only [src_unquote_eq_model, src_quote_path_part_eq_model, src_quote_query_part_eq_model,
    src_quote_fragment_part_eq_model, src_quote_userinfo_part_eq_model]
  exact ⟨unquote_quote_min .path nfc s hs, unquote_quote_min .query nfc s hs, unquote_quote_min .fragment nfc s hs,
    unquote_quote_min .userinfo nfc s hs⟩

example : Src.urlutils.unquote (Src.urlutils.quote_query_part id [97, 59, 38, 61, 43, 37, 32, 233, 0x1F600] true)
    = [97, 59, 38, 61, 43, 37, 32, 233, 0x1F600] := by decide +kernel

end C06
