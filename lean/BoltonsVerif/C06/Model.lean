import BoltonsVerif.Generated.C06_UrlTables
/-
C06 — model of the quoting / parsing / rendering half of `boltons/urlutils.py`
(after the `fix:` commits of branch c06-work).

Text is a Python `str`: a list of code points (`Nat`).  Byte strings are lists
of `Nat` < 256.  ASCII constants are written as numbers, with the character in
a comment.  The tables (`Gen.*`) are regenerated from the source on every run.

External functions are parameters (`Env`): Unicode NFC, `socket.inet_pton` for
both families, and the `idna` codec in both directions.  Exceptions are an
`Except Err` result.

Transliterated functions:
  quote_{userinfo,path,query,fragment}_part   → `quotePart`
  unquote / unquote_to_bytes                  → `unquote` / `unqBytes` (+ CPython's UTF-8 decoder with
                                                errors='replace': `decodeR`)
  _URL_RE                                     → the `…Of` / `after…` scanner functions
  parse_url / parse_host                      → `parseUrl` / `parseHost`
  parse_qsl                                   → `parseQsl`
  URL.__init__                                → `URL.ofText`
  URL.uses_netloc / default_port              → `usesNetloc` / `defaultPort`
  URL.get_authority(with_userinfo=True)       → `authority`
  QueryParamDict.to_text                      → `queryText`
  URL.to_text                                 → `toText`
  the loop of find_all_links                  → `findAllLinks` (the regex matches are an input)
Core Lean only.
-/
namespace C06
open C06.Gen

abbrev Text := List Nat
abbrev Bytes := List Nat

inductive Err where
  | urlParseError
  | unicodeError
  | valueError
deriving Repr, DecidableEq

inductive Family where
  | none | inet | inet6
deriving Repr, DecidableEq

/-! ## UTF-8 -/

/-- `chr(c).encode('utf8')` for a Unicode scalar value -/
def utf8Char (c : Nat) : Bytes :=
  if c < 0x80 then [c]
  else if c < 0x800 then [0xC0 + c / 64, 0x80 + c % 64]
  else if c < 0x10000 then [0xE0 + c / 4096, 0x80 + c / 64 % 64, 0x80 + c % 64]
  else [0xF0 + c / 262144, 0x80 + c / 4096 % 64, 0x80 + c / 64 % 64, 0x80 + c % 64]

def utf8 (s : Text) : Bytes := s.flatMap utf8Char

def isScalar (c : Nat) : Bool := c < 0xD800 || (0xE000 ≤ c && c < 0x110000)

def isCont (b : Nat) : Bool := 0x80 ≤ b && b < 0xC0

/-- U+FFFD -/
abbrev repl : Nat := 0xFFFD

/-- driver for "consume one element, produce one output, maybe skip some of what follows":
    `step x rest` = (output, how many elements of `rest` are consumed as well).  Fuel = length. -/
def runF (step : Nat → List Nat → Nat × Nat) : Nat → List Nat → List Nat
  | 0, _ => []
  | _ + 1, [] => []
  | f + 1, x :: rest => (step x rest).1 :: runF step f (rest.drop (step x rest).2)

def run (step : Nat → List Nat → Nat × Nat) (l : List Nat) : List Nat := runF step l.length l

/-- one step of CPython's UTF-8 decoder with errors='replace' on `b0 :: rest`: the code point
    produced and the number of bytes of `rest` it swallows.  An invalid start byte, or a lead byte
    followed by a byte that cannot continue it, is replaced alone; a valid prefix of a longer
    sequence is replaced as a whole (also when the data ends inside a sequence). -/
def decodeStep (b0 : Nat) (rest : Bytes) : Nat × Nat :=
  if b0 < 0x80 then (b0, 0)
  else if b0 < 0xC2 then (repl, 0)
  else if b0 < 0xE0 then
    match rest with
    | [] => (repl, 0)
    | b1 :: _ => if isCont b1 then ((b0 - 0xC0) * 64 + (b1 - 0x80), 1) else (repl, 0)
  else if b0 < 0xF0 then
    match rest with
    | [] => (repl, 0)
    | b1 :: r1 =>
      if !isCont b1 || (if b1 < 0xA0 then b0 == 0xE0 else b0 == 0xED) then (repl, 0)
      else match r1 with
        | [] => (repl, 1)
        | b2 :: _ =>
          if isCont b2 then ((b0 - 0xE0) * 4096 + (b1 - 0x80) * 64 + (b2 - 0x80), 2) else (repl, 1)
  else if b0 < 0xF5 then
    match rest with
    | [] => (repl, 0)
    | b1 :: r1 =>
      if !isCont b1 || (if b1 < 0x90 then b0 == 0xF0 else b0 == 0xF4) then (repl, 0)
      else match r1 with
        | [] => (repl, 1)
        | b2 :: r2 =>
          if !isCont b2 then (repl, 1)
          else match r2 with
            | [] => (repl, 2)
            | b3 :: _ =>
              if isCont b3 then
                ((b0 - 0xF0) * 262144 + (b1 - 0x80) * 4096 + (b2 - 0x80) * 64 + (b3 - 0x80), 3)
              else (repl, 2)
  else (repl, 0)

/-- `bytes.decode('utf-8', 'replace')` -/
def decodeR (bs : Bytes) : Text := run decodeStep bs

/-! ## quoting -/

inductive Comp where
  | userinfo | path | query | fragment
deriving Repr, DecidableEq

def Comp.map : Comp → List (List Nat)
  | .userinfo => userinfoMap
  | .path => pathMap
  | .query => queryMap
  | .fragment => fragmentMap

def Comp.delims : Comp → List Nat
  | .userinfo => userinfoDelims
  | .path => pathDelims
  | .query => queryDelims
  | .fragment => fragmentDelims

/-- `_X_QUOTE_MAP[b]` -/
def mapGet (m : List (List Nat)) (b : Nat) : List Nat := m.getD b []

/-- `full_quote=True`: NFC, UTF-8, every byte through the table -/
def quoteFull (m : List (List Nat)) (nfc : Text → Text) (s : Text) : Text :=
  (utf8 (nfc s)).flatMap (mapGet m)

/-- `full_quote=False`: only the characters in the component's delimiter set are replaced -/
def quoteMin (m : List (List Nat)) (delims : List Nat) (s : Text) : Text :=
  s.flatMap fun t => if delims.contains t then mapGet m t else [t]

def quotePart (c : Comp) (nfc : Text → Text) (full : Bool) (s : Text) : Text :=
  if full then quoteFull c.map nfc s else quoteMin c.map c.delims s

/-! ## unquoting -/

/-- `_HEX_CHAR_MAP[bytes([a, b])]` -/
def hexPair? (a b : Nat) : Option Nat :=
  (hexMap.find? (fun e => e.1 == a && e.2.1 == b)).map (·.2.2)

/-- one step of `unquote_to_bytes`: `%` followed by a key of the hex map becomes the mapped
    byte (and swallows the two characters); any other character, `%` included, stays -/
def unqStep (c : Nat) (rest : Text) : Nat × Nat :=
  if c = 37 then
    match rest with
    | a :: b :: _ =>
      match hexPair? a b with
      | some v => (v, 2)
      | none => (37, 0)
    | _ => (37, 0)
  else (c, 0)

/-- `unquote_to_bytes` on an ASCII string (code points = bytes) -/
def unqBytes (s : Text) : Bytes := run unqStep s

/-- the loop of `unquote`: maximal ASCII runs are percent-decoded and read as UTF-8, everything
    else is copied.  `acc` is the current ASCII run, reversed. -/
def unqGo : Text → Text → Text
  | [], acc => decodeR (unqBytes acc.reverse)
  | c :: rest, acc =>
    if c < 128 then unqGo rest (c :: acc)
    else decodeR (unqBytes acc.reverse) ++ c :: unqGo rest []

def unquote (s : Text) : Text := unqGo s []

/-- `unquote(x) if '%' in x else x` -/
def maybeUnquote (s : Text) : Text := if s.contains 37 then unquote s else s

/-! ## str helpers -/

def neq (c x : Nat) : Bool := x != c
def notIn (stop : List Nat) (c : Nat) : Bool := !stop.contains c

/-- `s.partition(c)[0]` -/
def before (c : Nat) (s : Text) : Text := s.takeWhile (neq c)
/-- `s.partition(c)[2]` -/
def after (c : Nat) (s : Text) : Text := (s.dropWhile (neq c)).tail
/-- `s.rpartition(c)[0]` -/
def rbefore (c : Nat) (s : Text) : Text := ((s.reverse.dropWhile (neq c)).tail).reverse
/-- `s.rpartition(c)[2]` -/
def rafter (c : Nat) (s : Text) : Text := (s.reverse.takeWhile (neq c)).reverse

def isDigit (c : Nat) : Bool := 48 ≤ c && c ≤ 57

/-- decimal digits of `n`, most significant first (`fuel` > number of digits) -/
def showNatF : Nat → Nat → Text
  | 0, _ => []
  | f + 1, n => if n < 10 then [48 + n] else showNatF f (n / 10) ++ [48 + n % 10]

def showNat (n : Nat) : Text := showNatF (n + 1) n

/-- `str(i)` -/
def showInt : Int → Text
  | .ofNat n => showNat n
  | .negSucc n => 45 :: showNat (n + 1)

/-- the value of a decimal digit as the port reader of `parse_url` sees it.  In the code this is the builtin
    `int()` (`Py_UNICODE_TODECIMAL`: every Unicode category-Nd digit, of any script); the generated table
    `portZeros` lists the zero of every run of ten digits that the CURRENT `parse_url` accepts in a port
    (regenerated by probing `parse_url` with every decimal digit the interpreter knows) -/
def digitVal? (c : Nat) : Option Nat :=
  (portZeros.find? (fun z => z ≤ c && c < z + 10)).map (fun z => c - z)

def isPyDigit (c : Nat) : Bool := (digitVal? c).isSome

/-- digits (of any accepted script, mixed freely), with single `_` between digits when `portUnderscore`: the body
    of a Python integer literal as the builtin `int()` reads it -/
def pyNatGo : Text → Nat → Option Nat
  | [], acc => some acc
  | c :: rest, acc =>
    match digitVal? c with
    | some d => pyNatGo rest (acc * 10 + d)
    | none =>
      if c = 95 ∧ portUnderscore = true then
        match rest with
        | d :: _ => if isPyDigit d then pyNatGo rest acc else none
        | [] => none
      else none

def pyNat? : Text → Option Nat
  | [] => none
  | c :: rest => if isPyDigit c then pyNatGo (c :: rest) 0 else none

/-- what is stripped around the port text: for `int()` ASCII `\t\n\v\f\r` and space, and every non-ASCII
    `str.isspace()` character (U+001C-U+001F are not among them); the generated table `portSpaces` holds those of
    them that the current `parse_url` really strips (probed) -/
def isPySpace (c : Nat) : Bool := portSpaces.contains c

/-- the port reader (`none` = rejected): surrounding white space, one ASCII sign (when `portPlus` / `portMinus`),
    decimal digits with single underscores.  With the parameters read off the unmodified source this is the
    builtin `int(s)` (`none` = ValueError); a `parse_url` that accepts fewer spellings (RFC 3986 `port = *DIGIT`)
    gives smaller tables / cleared flags.  (The interpreter's limit on the number of digits is outside the model.) -/
def pyInt? (s : Text) : Option Int :=
  match ((s.dropWhile isPySpace).reverse.dropWhile isPySpace).reverse with
  | 43 :: r => if portPlus then (pyNat? r).map Int.ofNat else none
  | 45 :: r => if portMinus then (pyNat? r).map fun n => - Int.ofNat n else none
  | r => (pyNat? r).map Int.ofNat

/-! ## `_URL_RE` as a scanner (stop sets and DOTALL come from the generated tables) -/

def schemeOf (t : Text) : Option Text :=
  match t.dropWhile (notIn schemeStop) with
  | 58 :: _ => if t.takeWhile (notIn schemeStop) = [] then none else some (t.takeWhile (notIn schemeStop))
  | _ => none

def afterScheme (t : Text) : Text :=
  match t.dropWhile (notIn schemeStop) with
  | 58 :: r => if t.takeWhile (notIn schemeStop) = [] then t else r
  | _ => t

def authorityOf : Text → Option Text
  | 47 :: 47 :: r => some (r.takeWhile (notIn authStop))
  | _ => none

def afterAuthority : Text → Text
  | 47 :: 47 :: r => r.dropWhile (notIn authStop)
  | r => r

def pathOf (r : Text) : Text := r.takeWhile (notIn pathStop)
def afterPath (r : Text) : Text := r.dropWhile (notIn pathStop)

def queryOf : Text → Option Text
  | 63 :: r => some (r.takeWhile (notIn queryStop))
  | _ => none

def afterQuery : Text → Text
  | 63 :: r => r.dropWhile (notIn queryStop)
  | r => r

def fragmentOf : Text → Option Text
  | 35 :: r => some (r.takeWhile (notIn fragStop))
  | _ => none

/-! ## parse_url -/

/-- external functions -/
structure Env where
  nfc : Text → Text
  /-- `inet_pton(AF_INET, s)` succeeds -/
  fam4 : Text → Bool
  /-- `inet_pton(AF_INET6, s)` succeeds -/
  fam6 : Text → Bool
  /-- `ascii_bytes.decode('idna')`, `none` = UnicodeError -/
  idnaDec : Text → Option Text
  /-- `host.encode('idna').decode('ascii')`, `none` = UnicodeError -/
  idnaEnc : Text → Option Text

def parsePort (portStr : Text) : Except Err (Option Int) :=
  match pyInt? portStr with
  | some p => .ok (some p)
  | none => if portStr = [] then .ok none else .error .urlParseError

/-- the `host, sep, port_str = hostinfo.partition(':')` block, including the `[…]` repair -/
def splitHostPort (hostinfo : Text) : Except Err (Text × Option Int) :=
  if !hostinfo.contains 58 then .ok (hostinfo, none)
  else if (before 58 hostinfo).head? = some 91 && (after 58 hostinfo).contains 93 then
    match parsePort (match after 93 (after 58 hostinfo) with
                     | 58 :: r => r
                     | r => r) with
    | .ok p => .ok (before 58 hostinfo ++ [58] ++ before 93 (after 58 hostinfo) ++ [93], p)
    | .error e => .error e
  else
    match parsePort (after 58 hostinfo) with
    | .ok p => .ok (before 58 hostinfo, p)
    | .error e => .error e

def parseHost (env : Env) (host : Text) : Except Err (Family × Text) :=
  if host = [] then .ok (.none, [])
  else if host.contains 58 && host.head? = some 91 && host.getLast? = some 93 then
    if env.fam6 host.tail.dropLast then .ok (.inet6, host.tail.dropLast) else .error .urlParseError
  else .ok (if env.fam4 host then .inet else .none, host)

/-- what `parse_url` adds to the regex groups: username, password ('' when absent), family, host, port -/
structure Auth where
  username : Text
  password : Text
  family : Family
  host : Text
  port : Option Int
deriving Repr, DecidableEq

def parseAuthority (env : Env) (au : Text) : Except Err Auth :=
  let hostinfo := rafter 64 au
  let userinfo := rbefore 64 au
  let user := if au.contains 64 then before 58 userinfo else []
  let pw := if au.contains 64 then after 58 userinfo else []
  match (if hostinfo = [] then .ok ([], none) else splitHostPort hostinfo) with
  | .error e => .error e
  | .ok (host, port) =>
    match parseHost env host with
    | .error e => .error e
    | .ok (fam, host') => .ok ⟨user, pw, fam, host', port⟩

/-! ## parse_qsl -/

def plusToSpace (s : Text) : Text := s.map fun c => if c = 43 then 32 else c

def parsePair (p : Text) : Text × Option Text :=
  (unquote (plusToSpace (before 61 p)),
   if p.contains 61 then
     some (if after 61 p = [] then [] else unquote (plusToSpace (after 61 p)))
   else none)

def nonEmpty (p : Text) : Bool := !p.isEmpty

def parseQsl (qs : Text) : List (Text × Option Text) :=
  (((qs.splitOn 38).flatMap fun s => s.splitOn 59).filter nonEmpty).map parsePair

/-! ## URL -/

structure URL where
  scheme : Text
  netlocSep : Bool
  username : Text
  password : Text
  family : Family
  host : Text
  port : Option Int
  pathParts : List Text
  query : List (Text × Option Text)
  fragment : Text
deriving Repr, DecidableEq

def isAsciiText (s : Text) : Bool := s.all (· < 128)

/-- `URL(text)` -/
def URL.ofText (env : Env) (t : Text) : Except Err URL :=
  let r1 := afterScheme t
  let r2 := afterAuthority r1
  let r3 := afterPath r2
  let r4 := afterQuery r3
  match parseAuthority env ((authorityOf r1).getD []) with
  | .error e => .error e
  | .ok a =>
    match (if a.host = [] then some [] else if isAsciiText a.host then env.idnaDec a.host else some a.host) with
    | none => .error .urlParseError
    | some host =>
      .ok { scheme := (schemeOf t).getD []
            netlocSep := (authorityOf r1).isSome
            username := maybeUnquote a.username
            password := maybeUnquote a.password
            family := a.family
            host := host
            port := a.port
            pathParts := ((pathOf r2).splitOn 47).map maybeUnquote
            query := parseQsl ((queryOf r3).getD [])
            fragment := maybeUnquote ((fragmentOf r4).getD []) }

def lookupPort (s : Text) : Option Nat := (schemePorts.find? (fun e => e.1 == s)).map (·.2)

/-- `scheme.split('+')[-1]` -/
def lastPiece (s : Text) : Text := rafter 43 s

/-- `URL.default_port` (`none` = None) -/
def defaultPort (scheme : Text) : Option Nat :=
  match lookupPort scheme with
  | some v => if v = 0 then none else some v
  | none =>
    match lookupPort (lastPiece scheme) with
    | some v => if v = 0 then none else some v
    | none => none

/-- truthiness of `URL.uses_netloc` -/
def usesNetloc (u : URL) : Bool :=
  if (lookupPort u.scheme).isSome then true
  else if noNetlocSchemes.contains u.scheme then false
  else if (lookupPort (lastPiece u.scheme)).isSome then true
  else u.netlocSep

/-- `get_authority(full_quote, with_userinfo=True)` -/
def authority (env : Env) (full : Bool) (u : URL) : Except Err Text :=
  let ui : Text :=
    if u.username ≠ [] ∨ u.password ≠ [] then
      quoteFull userinfoMap env.nfc u.username ++
        (if u.password ≠ [] then 58 :: quoteFull userinfoMap env.nfc u.password else []) ++ [64]
    else []
  if u.host = [] then .ok ui
  else
    let port : Text := match u.port with
      | some p => if p ≠ 0 ∧ some p ≠ (defaultPort u.scheme).map Int.ofNat then 58 :: showInt p else []
      | none => []
    if u.family = .inet6 then .ok (ui ++ 91 :: u.host ++ 93 :: port)
    else if full then
      match env.idnaEnc u.host with
      | some h => .ok (ui ++ h ++ port)
      | none => .error .unicodeError
    else .ok (ui ++ u.host ++ port)

def pairText (env : Env) (full : Bool) (kv : Text × Option Text) : Text :=
  match kv.2 with
  | none => quotePart .query env.nfc full kv.1
  | some v => quotePart .query env.nfc full kv.1 ++ 61 :: quotePart .query env.nfc full v

/-- `QueryParamDict.to_text` -/
def queryText (env : Env) (full : Bool) (q : List (Text × Option Text)) : Text :=
  [38].intercalate (q.map (pairText env full))

def pathText (env : Env) (full : Bool) (parts : List Text) : Text :=
  [47].intercalate (parts.map (quotePart .path env.nfc full))

/-- the assembly at the end of `to_text` -/
def assemble (u : URL) (auth path qs frag : Text) : Text :=
  (if u.scheme ≠ [] then u.scheme ++ [58] else []) ++
  (if auth ≠ [] then 47 :: 47 :: auth
   else if path.take 2 = [47, 47] ∨ (u.scheme ≠ [] ∧ (path = [] ∨ path.head? = some 47) ∧ usesNetloc u)
   then [47, 47] else []) ++
  (if path ≠ [] then (if u.scheme ≠ [] ∧ auth ≠ [] ∧ path.head? ≠ some 47 then 47 :: path else path) else []) ++
  (if qs ≠ [] then 63 :: qs else []) ++
  (if frag ≠ [] then 35 :: frag else [])

/-- `first.replace(':', '%3A') + sep + rest` with `first, sep, rest = path.partition('/')` -/
def escColonFirst (p : Text) : Text :=
  (before 47 p).flatMap (fun c => if c = 58 then [37, 51, 65] else [c]) ++ p.dropWhile (neq 47)

/-- `URL.to_text(full_quote)` -/
def toText (env : Env) (full : Bool) (u : URL) : Except Err Text :=
  match authority env full u with
  | .error e => .error e
  | .ok auth =>
    .ok (assemble u auth
          (if u.scheme = [] ∧ auth = [] then escColonFirst (pathText env full u.pathParts)
           else pathText env full u.pathParts)
          (queryText env full u.query)
          (quotePart .fragment env.nfc full u.fragment))

/-! ## the loop of find_all_links (the regex matches are given) -/

inductive Item where
  | text (t : Text)
  | url (u : URL)
deriving Repr, DecidableEq

/-- `_add_text` on the reversed result list -/
def addText (ret : List Item) (t : Text) : List Item :=
  match ret with
  | .text s :: r => .text (s ++ t) :: r
  | r => .text t :: r

structure LinkOpts where
  withText : Bool
  defaultScheme : Text
  schemes : List Text

/-- body of the `try` once a URL with a scheme is in hand -/
def keepOrText (o : LinkOpts) (ret : List Item) (m : Text) (cur : URL) : List Item :=
  if o.schemes ≠ [] ∧ !o.schemes.contains cur.scheme then addText ret m else .url cur :: ret

/-- one iteration: `pre` = text since the previous match, `m` = the match -/
def linkStep (env : Env) (o : LinkOpts) (ret : List Item) (pre m : Text) : Except Err (List Item) :=
  let ret1 := if pre ≠ [] ∧ o.withText then .text pre :: ret else ret
  match URL.ofText env m with
  | .error .urlParseError => .ok (if o.withText then addText ret1 m else ret1)
  | .error e => .error e
  | .ok cur =>
    if cur.scheme = [] then
      if o.defaultScheme ≠ [] then
        match URL.ofText env (o.defaultScheme ++ 58 :: 47 :: 47 :: m) with
        | .error .urlParseError => .ok (if o.withText then addText ret1 m else ret1)
        | .error e => .error e
        | .ok cur2 => .ok (keepOrText o ret1 m cur2)
      else .ok (addText ret1 m)
    else .ok (keepOrText o ret1 m cur)

def linkLoop (env : Env) (o : LinkOpts) : List Item → List (Text × Text) → Except Err (List Item)
  | ret, [] => .ok ret
  | ret, (pre, m) :: rest =>
    match linkStep env o ret pre m with
    | .error e => .error e
    | .ok ret' => linkLoop env o ret' rest

/-- `find_all_links` given the matches and the text after the last match -/
def findAllLinks (env : Env) (o : LinkOpts) (ms : List (Text × Text)) (tail : Text) : Except Err (List Item) :=
  match linkLoop env o [] ms with
  | .error e => .error e
  | .ok ret => .ok (if o.withText ∧ tail ≠ [] then addText ret tail else ret).reverse

/-! ## `socket.inet_pton` (glibc) — used by the driver to instantiate `Env`; the theorems do not
    depend on it -/

/-- state of glibc's `inet_pton4`: (current octet value, saw a digit in this octet, octets started) -/
def inet4Go : Text → Nat → Bool → Nat → Bool
  | [], _, _, octets => octets == 4
  | c :: rest, cur, saw, octets =>
    if isDigit c then
      if saw && cur == 0 then false
      else if cur * 10 + (c - 48) > 255 then false
      else if !saw && octets + 1 > 4 then false
      else inet4Go rest (cur * 10 + (c - 48)) true (if saw then octets else octets + 1)
    else if c == 46 && saw then
      if octets == 4 then false else inet4Go rest 0 false octets
    else false

def inet4 (s : Text) : Bool := inet4Go s 0 false 0

def hexDigitVal? (c : Nat) : Option Nat :=
  if isDigit c then some (c - 48)
  else if 97 ≤ c && c ≤ 102 then some (c - 87)
  else if 65 ≤ c && c ≤ 70 then some (c - 55)
  else none

/-- glibc's `inet_pton6` main loop: `tp` = bytes written, `colon` = position of `::` if seen,
    `seen` = hex digits in the current group, `val` its value, `tok` = text of the current token -/
def inet6Go : Text → Nat → Option Nat → Nat → Nat → Text → Bool
  | [], tp, colon, seen, _val, _ =>
    let tp1 := if seen > 0 then tp + 2 else tp
    if seen > 0 && tp + 2 > 16 then false
    else match colon with
      | some _ => tp1 != 16
      | none => tp1 == 16
  | c :: rest, tp, colon, seen, val, tok =>
    match hexDigitVal? c with
    | some d =>
      if seen == 4 then false
      else if val * 16 + d > 0xffff then false
      else inet6Go rest tp colon (seen + 1) (val * 16 + d) tok
    | none =>
      if c == 58 then
        if seen == 0 then
          if colon.isSome then false else inet6Go rest tp (some tp) 0 0 rest
        else if rest.isEmpty then false
        else if tp + 2 > 16 then false
        else inet6Go rest (tp + 2) colon 0 0 rest
      else if c == 46 && tp + 4 ≤ 16 && inet4 tok then
        match colon with
        | some _ => tp + 4 != 16
        | none => tp + 4 == 16
      else false

def inet6 (s : Text) : Bool :=
  match s with
  | [] => false
  | 58 :: rest =>
    match rest with
    | 58 :: _ => inet6Go rest 0 none 0 0 rest
    | _ => false
  | _ => inet6Go s 0 none 0 0 s

end C06
