import BoltonsVerif.C06.Tables
namespace C06
open C06.Gen

/-! ### the fuel driver -/

theorem runF_fuel2 (step : Nat → List Nat → Nat × Nat) :
    ∀ (f g : Nat) (l : List Nat), l.length ≤ f → l.length ≤ g → runF step f l = runF step g l := by
  intro f
  induction f with
  | zero => intro g l h _; cases l <;> cases g <;> simp_all [runF]
  | succ f ih =>
    intro g l h hg
    cases l with
    | nil => cases g <;> simp [runF]
    | cons x rest =>
      cases g with
      | zero => simp at hg
      | succ g =>
        simp only [runF, List.length_cons] at *
        have h1 : (rest.drop (step x rest).2).length ≤ f := by
          simp only [List.length_drop]; omega
        have h2 : (rest.drop (step x rest).2).length ≤ g := by
          simp only [List.length_drop]; omega
        rw [ih _ _ h1 h2]

theorem run_nil (step : Nat → List Nat → Nat × Nat) : run step [] = [] := by
  simp [run, runF]

theorem run_cons (step : Nat → List Nat → Nat × Nat) (x : Nat) (rest : List Nat) :
    run step (x :: rest) = (step x rest).1 :: run step (rest.drop (step x rest).2) := by
  have h2 : (rest.drop (step x rest).2).length ≤ rest.length := by
    simp only [List.length_drop]; omega
  simp only [run, List.length_cons, runF]
  rw [runF_fuel2 step _ _ _ h2 (Nat.le_refl _)]

/-! ### UTF-8 -/

theorem split3 (c : Nat) : c / 4096 * 4096 + c / 64 % 64 * 64 + c % 64 = c := by omega
theorem split4 (c : Nat) :
    c / 262144 * 262144 + c / 4096 % 64 * 4096 + c / 64 % 64 * 64 + c % 64 = c := by omega

theorem decodeR_nil : decodeR [] = [] := run_nil _

theorem decodeR_utf8Char (c : Nat) (hc : isScalar c = true) (rest : Bytes) :
    decodeR (utf8Char c ++ rest) = c :: decodeR rest := by
  simp only [isScalar, Bool.or_eq_true, Bool.and_eq_true, decide_eq_true_eq] at hc
  unfold utf8Char
  by_cases h1 : c < 0x80
  · simp only [h1, if_true, List.cons_append, List.nil_append, decodeR]
    rw [run_cons]
    simp [decodeStep, h1]
  · by_cases h2 : c < 0x800
    · simp only [h1, h2, if_true, if_false, List.cons_append, List.nil_append, decodeR]
      rw [run_cons]
      have a1 : ¬ (0xC0 + c / 64 < 0x80) := by omega
      have a2 : ¬ (0xC0 + c / 64 < 0xC2) := by omega
      have a3 : 0xC0 + c / 64 < 0xE0 := by omega
      have a4 : isCont (0x80 + c % 64) = true := by simp [isCont]; omega
      have a5 : (0xC0 + c / 64 - 0xC0) * 64 + (0x80 + c % 64 - 0x80) = c := by omega
      simp [decodeStep, a1, a2, a3, a4]
      omega
    · by_cases h3 : c < 0x10000
      · simp only [h1, h2, h3, if_true, if_false, List.cons_append, List.nil_append, decodeR]
        rw [run_cons]
        have a1 : ¬ (0xE0 + c / 4096 < 0x80) := by omega
        have a2 : ¬ (0xE0 + c / 4096 < 0xC2) := by omega
        have a3 : ¬ (0xE0 + c / 4096 < 0xE0) := by omega
        have a3' : 0xE0 + c / 4096 < 0xF0 := by omega
        have a4 : isCont (0x80 + c / 64 % 64) = true := by simp [isCont]; omega
        have a4' : isCont (0x80 + c % 64) = true := by simp [isCont]; omega
        have a6 : (if 0x80 + c / 64 % 64 < 0xA0 then (0xE0 + c / 4096 == 0xE0) else (0xE0 + c / 4096 == 0xED)) = false := by
          split <;> simp <;> omega
        have a5 : (0xE0 + c / 4096 - 0xE0) * 4096 + (0x80 + c / 64 % 64 - 0x80) * 64 + (0x80 + c % 64 - 0x80) = c := by omega
        simp [decodeStep, a1, a2, a3, a3', a4, a4', a6]
        exact split3 c
      · simp only [h1, h2, h3, if_true, if_false, List.cons_append, List.nil_append, decodeR]
        rw [run_cons]
        have a1 : ¬ (0xF0 + c / 262144 < 0x80) := by omega
        have a2 : ¬ (0xF0 + c / 262144 < 0xC2) := by omega
        have a3 : ¬ (0xF0 + c / 262144 < 0xE0) := by omega
        have a3' : ¬ (0xF0 + c / 262144 < 0xF0) := by omega
        have a3'' : 0xF0 + c / 262144 < 0xF5 := by omega
        have a4 : isCont (0x80 + c / 4096 % 64) = true := by simp [isCont]; omega
        have a4' : isCont (0x80 + c / 64 % 64) = true := by simp [isCont]; omega
        have a4'' : isCont (0x80 + c % 64) = true := by simp [isCont]; omega
        have a6 : (if 0x80 + c / 4096 % 64 < 0x90 then (0xF0 + c / 262144 == 0xF0) else (0xF0 + c / 262144 == 0xF4)) = false := by
          split <;> simp <;> omega
        have a5 : (0xF0 + c / 262144 - 0xF0) * 262144 + (0x80 + c / 4096 % 64 - 0x80) * 4096
            + (0x80 + c / 64 % 64 - 0x80) * 64 + (0x80 + c % 64 - 0x80) = c := by omega
        simp [decodeStep, a1, a2, a3, a3', a3'', a4, a4', a4'', a6]
        exact split4 c



/-! ### rows of the quote maps -/

theorem entryOK_cases {c : Comp} {b : Nat} {e : List Nat} (h : entryOK c b e = true) :
    (e = [b] ∧ b ≠ 37 ∧ b < 128 ∧ legalRaw c b = true) ∨
    (∃ x y, e = [37, x, y] ∧ isUpperHex x = true ∧ isUpperHex y = true ∧ hexPair? x y = some b) := by
  unfold entryOK at h
  simp only [Bool.and_eq_true, Bool.or_eq_true] at h
  rcases h.1 with h1 | h1
  · left
    simp only [Bool.and_eq_true, beq_iff_eq, bne_iff_ne, ne_eq, decide_eq_true_eq] at h1
    exact ⟨h1.1.1.1, h1.1.1.2, h1.1.2, h1.2⟩
  · right
    match e, h1 with
    | [p, x, y], h1 =>
      simp only [Bool.and_eq_true, beq_iff_eq] at h1
      exact ⟨x, y, by rw [h1.1.1.1], h1.1.1.2, h1.1.2, h1.2⟩

theorem entryOK_stop {c : Comp} {b : Nat} {e : List Nat} (h : entryOK c b e = true) :
    ∀ ch ∈ e, (stopSet c).contains ch = false := by
  unfold entryOK at h
  simp only [Bool.and_eq_true] at h
  have h2 := h.2
  rw [List.all_eq_true] at h2
  intro ch hch
  have := h2 ch hch
  simpa using this

theorem isUpperHex_lt {x : Nat} (h : isUpperHex x = true) : x < 128 ∧ x ≠ 37 := by
  simp only [isUpperHex, Bool.or_eq_true, Bool.and_eq_true, decide_eq_true_eq] at h
  omega

/-- every character of a row is ASCII -/
theorem entryOK_ascii {c : Comp} {b : Nat} {e : List Nat} (h : entryOK c b e = true) :
    ∀ ch ∈ e, ch < 128 := by
  rcases entryOK_cases h with ⟨he, _, hb, _⟩ | ⟨x, y, he, hx, hy, _⟩
  · subst he; intro ch hch; simp at hch; omega
  · subst he
    intro ch hch
    have := isUpperHex_lt hx
    have := isUpperHex_lt hy
    simp at hch
    omega

/-! ### unquote_to_bytes -/

theorem unqBytes_nil : unqBytes [] = [] := run_nil _

theorem unqBytes_cons_ne {c : Nat} (h : c ≠ 37) (rest : Text) :
    unqBytes (c :: rest) = c :: unqBytes rest := by
  unfold unqBytes
  rw [run_cons]
  simp [unqStep, h]

theorem unqBytes_escape {x y v : Nat} (hp : hexPair? x y = some v) (rest : Text) :
    unqBytes (37 :: x :: y :: rest) = v :: unqBytes rest := by
  unfold unqBytes
  rw [run_cons]
  simp [unqStep, hp]

theorem unqBytes_entry {c : Comp} {b : Nat} {e : List Nat} (h : entryOK c b e = true) (rest : Text) :
    unqBytes (e ++ rest) = b :: unqBytes rest := by
  rcases entryOK_cases h with ⟨he, hb, _, _⟩ | ⟨x, y, he, _, _, hp⟩
  · subst he; exact unqBytes_cons_ne hb rest
  · subst he; exact unqBytes_escape hp rest

/-- percent-decoding undoes the byte-wise quoting of any byte string -/
theorem unqBytes_quoteBytes (c : Comp) (bs : Bytes) (hb : ∀ b ∈ bs, b < 256) (rest : Text) :
    unqBytes (bs.flatMap (mapGet c.map) ++ rest) = bs ++ unqBytes rest := by
  induction bs with
  | nil => simp
  | cons b bs ih =>
    simp only [List.flatMap_cons, List.append_assoc, List.cons_append]
    rw [unqBytes_entry (entryOK_of_lt c b (hb b (by simp)))]
    rw [ih (fun x hx => hb x (by simp [hx]))]

theorem quoteBytes_ascii (c : Comp) (bs : Bytes) (hb : ∀ b ∈ bs, b < 256) :
    ∀ ch ∈ bs.flatMap (mapGet c.map), ch < 128 := by
  intro ch hch
  rw [List.mem_flatMap] at hch
  obtain ⟨b, hbm, hin⟩ := hch
  exact entryOK_ascii (entryOK_of_lt c b (hb b hbm)) ch hin

theorem quoteBytes_stop (c : Comp) (bs : Bytes) (hb : ∀ b ∈ bs, b < 256) :
    ∀ ch ∈ bs.flatMap (mapGet c.map), (stopSet c).contains ch = false := by
  intro ch hch
  rw [List.mem_flatMap] at hch
  obtain ⟨b, hbm, hin⟩ := hch
  exact entryOK_stop (entryOK_of_lt c b (hb b hbm)) ch hin

theorem utf8Char_lt (c : Nat) (hc : isScalar c = true) : ∀ b ∈ utf8Char c, b < 256 := by
  simp only [isScalar, Bool.or_eq_true, Bool.and_eq_true, decide_eq_true_eq] at hc
  intro b hb
  unfold utf8Char at hb
  split at hb
  · simp at hb; omega
  · split at hb
    · simp at hb; omega
    · split at hb
      · simp at hb; omega
      · simp at hb; omega

theorem utf8_lt (s : Text) (hs : ∀ c ∈ s, isScalar c = true) : ∀ b ∈ utf8 s, b < 256 := by
  intro b hb
  unfold utf8 at hb
  rw [List.mem_flatMap] at hb
  obtain ⟨c, hc, hin⟩ := hb
  exact utf8Char_lt c (hs c hc) b hin

theorem decodeR_utf8 (s : Text) (hs : ∀ c ∈ s, isScalar c = true) (rest : Bytes) :
    decodeR (utf8 s ++ rest) = s ++ decodeR rest := by
  induction s with
  | nil => simp [utf8]
  | cons c s ih =>
    simp only [utf8, List.flatMap_cons, List.append_assoc, List.cons_append]
    rw [decodeR_utf8Char c (hs c (by simp))]
    have := ih (fun x hx => hs x (by simp [hx]))
    simp only [utf8] at this
    rw [this]

/-! ### unquote -/

theorem unqGo_ascii (q : Text) (hq : ∀ c ∈ q, c < 128) (acc : Text) :
    unqGo q acc = decodeR (unqBytes (acc.reverse ++ q)) := by
  induction q generalizing acc with
  | nil => simp [unqGo]
  | cons c q ih =>
    have hc : c < 128 := hq c (by simp)
    simp only [unqGo, hc, if_true]
    rw [ih (fun x hx => hq x (by simp [hx]))]
    simp

theorem unquote_ascii (q : Text) (hq : ∀ c ∈ q, c < 128) : unquote q = decodeR (unqBytes q) := by
  unfold unquote
  rw [unqGo_ascii q hq]
  simp

/-- `unquote(quote_X_part(s, full_quote=True)) == NFC(s)` -/
theorem unquote_quoteFull (c : Comp) (nfc : Text → Text) (s : Text)
    (hs : ∀ x ∈ nfc s, isScalar x = true) : unquote (quoteFull c.map nfc s) = nfc s := by
  unfold quoteFull
  have hb := utf8_lt (nfc s) hs
  rw [unquote_ascii _ (quoteBytes_ascii c _ hb)]
  have := unqBytes_quoteBytes c (utf8 (nfc s)) hb []
  simp only [List.append_nil, unqBytes_nil] at this
  rw [this]
  have := decodeR_utf8 (nfc s) hs []
  simpa [decodeR_nil] using this

theorem unqBytes_cons (c : Nat) (rest : Text) :
    unqBytes (c :: rest) = (unqStep c rest).1 :: unqBytes (rest.drop (unqStep c rest).2) := run_cons _ _ _

/-- `unquote_to_bytes` is the reference percent-decoder -/
theorem unqBytes_eq_spec (s : Text) : unqBytes s = unqSpec s := by
  fun_induction unqSpec s with
  | case1 => exact unqBytes_nil
  | case2 a b r h ih =>
    rw [unqBytes_cons]
    simp only [Bool.and_eq_true] at h
    simp [unqStep, hexPair_eq_spec, hexSpec, h.1, h.2, ih]
  | case3 a b r h ih =>
    rw [unqBytes_cons]
    have : hexSpec a b = none := by simp [hexSpec, h]
    simp [unqStep, hexPair_eq_spec, this, ih]
  | case4 c rest hne ih =>
    rw [unqBytes_cons]
    by_cases hc : c = 37
    · subst hc
      match rest, hne with
      | [], _ => simp [unqStep, ih]
      | [x], _ => simp [unqStep, ih]
      | x :: y :: r, hne => exact absurd rfl (hne x y r rfl)
    · simp [unqStep, hc, ih]

theorem isUpperHex_hex {x : Nat} (h : isUpperHex x = true) : isHexDigit x = true := by
  simp only [isUpperHex, isHexDigit, Bool.or_eq_true, Bool.and_eq_true, decide_eq_true_eq] at *
  omega

theorem wellQuoted_entry {c : Comp} {b : Nat} {e : List Nat} (h : entryOK c b e = true) (rest : Text) :
    wellQuoted c (e ++ rest) = wellQuoted c rest := by
  rcases entryOK_cases h with ⟨he, hb, _, hl⟩ | ⟨x, y, he, hx, hy, _⟩
  · subst he
    simp only [List.cons_append, List.nil_append]
    rw [wellQuoted.eq_def]
    split
    · simp at *
    · rename_i heq; simp at heq; omega
    · rename_i heq; simp at heq; simp [← heq.1, ← heq.2, hb, hl]
  · subst he
    simp [wellQuoted, isUpperHex_hex hx, isUpperHex_hex hy]


/-! ### totality: the only exception is URLParseError -/

theorem parsePort_err {s : Text} {e : Err} (h : parsePort s = .error e) : e = .urlParseError := by
  unfold parsePort at h
  split at h
  · cases h
  · split at h
    · cases h
    · cases h; rfl

theorem splitHostPort_err {s : Text} {e : Err} (h : splitHostPort s = .error e) : e = .urlParseError := by
  unfold splitHostPort at h
  split at h
  · cases h
  · split at h
    · split at h
      · cases h
      · rename_i e' he; cases h; exact parsePort_err he
    · split at h
      · cases h
      · rename_i e' he; cases h; exact parsePort_err he

theorem parseHost_err {env : Env} {s : Text} {e : Err} (h : parseHost env s = .error e) : e = .urlParseError := by
  unfold parseHost at h
  split at h
  · cases h
  · split at h
    · split at h
      · cases h
      · cases h; rfl
    · cases h

theorem parseAuthority_err {env : Env} {au : Text} {e : Err} (h : parseAuthority env au = .error e) :
    e = .urlParseError := by
  unfold parseAuthority at h
  simp only at h
  split at h
  · rename_i e' he
    cases h
    split at he
    · cases he
    · exact splitHostPort_err he
  · split at h
    · rename_i e' he; cases h; exact parseHost_err he
    · cases h

/-- `URL(text)` raises nothing but URLParseError -/
theorem ofText_err {env : Env} {t : Text} {e : Err} (h : URL.ofText env t = .error e) : e = .urlParseError := by
  unfold URL.ofText at h
  simp only at h
  split at h
  · rename_i e' he; cases h; exact parseAuthority_err he
  · split at h
    · cases h; rfl
    · cases h

theorem linkStep_ok (env : Env) (o : LinkOpts) (ret : List Item) (pre m : Text) :
    ∃ r, linkStep env o ret pre m = .ok r := by
  unfold linkStep
  simp only
  cases h : URL.ofText env m with
  | error e =>
    have := ofText_err h
    subst this
    exact ⟨_, rfl⟩
  | ok cur =>
    simp only
    split
    · split
      · cases h2 : URL.ofText env (o.defaultScheme ++ 58 :: 47 :: 47 :: m) with
        | error e =>
          have := ofText_err h2
          subst this
          exact ⟨_, rfl⟩
        | ok cur2 => exact ⟨_, rfl⟩
      · exact ⟨_, rfl⟩
    · exact ⟨_, rfl⟩

theorem linkLoop_ok (env : Env) (o : LinkOpts) (ms : List (Text × Text)) :
    ∀ ret, ∃ r, linkLoop env o ret ms = .ok r := by
  induction ms with
  | nil => intro ret; exact ⟨ret, rfl⟩
  | cons pm rest ih =>
    intro ret
    obtain ⟨pre, m⟩ := pm
    obtain ⟨r1, h1⟩ := linkStep_ok env o ret pre m
    simp only [linkLoop, h1]
    exact ih r1

theorem findAllLinks_ok (env : Env) (o : LinkOpts) (ms : List (Text × Text)) (tail : Text) :
    ∃ r, findAllLinks env o ms tail = .ok r := by
  obtain ⟨r, h⟩ := linkLoop_ok env o ms []
  unfold findAllLinks
  rw [h]
  exact ⟨_, rfl⟩


theorem wellQuoted_quoteFull (c : Comp) (nfc : Text → Text) (s : Text)
    (hs : ∀ x ∈ nfc s, isScalar x = true) : wellQuoted c (quoteFull c.map nfc s) = true := by
  unfold quoteFull
  have hb := utf8_lt (nfc s) hs
  generalize utf8 (nfc s) = bs at hb
  induction bs with
  | nil => simp [wellQuoted]
  | cons b bs ih =>
    simp only [List.flatMap_cons]
    rw [wellQuoted_entry (entryOK_of_lt c b (hb b (by simp)))]
    exact ih (fun x hx => hb x (by simp [hx]))

theorem unqBytes_no_pct (s : Text) (hp : 37 ∉ s) : unqBytes s = s := by
  induction s with
  | nil => exact unqBytes_nil
  | cons c s ih =>
    simp only [List.mem_cons, not_or] at hp
    rw [unqBytes_cons_ne (fun h => hp.1 h.symm), ih hp.2]

theorem decodeR_ascii (s : Bytes) (h : ∀ c ∈ s, c < 128) : decodeR s = s := by
  induction s with
  | nil => exact decodeR_nil
  | cons c s ih =>
    have hc : c < 128 := h c (by simp)
    unfold decodeR at *
    rw [run_cons]
    simp only [decodeStep, hc, if_true, List.drop_zero]
    rw [ih (fun x hx => h x (by simp [hx]))]

theorem unqGo_no_pct (s : Text) (hp : 37 ∉ s) :
    ∀ acc : Text, 37 ∉ acc → (∀ c ∈ acc, c < 128) → unqGo s acc = acc.reverse ++ s := by
  induction s with
  | nil =>
    intro acc ha hb
    simp only [unqGo, List.append_nil]
    rw [unqBytes_no_pct _ (by simpa using ha), decodeR_ascii _ (by simpa using hb)]
  | cons c s ih =>
    intro acc ha hb
    simp only [List.mem_cons, not_or] at hp
    unfold unqGo
    split
    · rename_i hc
      rw [ih hp.2 (c :: acc) (by simp [ha, hp.1]) (by intro x hx; simp at hx; rcases hx with rfl | hx; exact hc; exact hb x hx)]
      simp
    · rw [ih hp.2 [] (by simp) (by simp)]
      rw [unqBytes_no_pct _ (by simpa using ha), decodeR_ascii _ (by simpa using hb)]
      simp

/-- text without `%` is left alone by `unquote` -/
theorem unquote_no_pct (s : Text) (hp : 37 ∉ s) : unquote s = s := by
  unfold unquote
  rw [unqGo_no_pct s hp [] (by simp) (by simp)]
  simp


/-! ### takeWhile / dropWhile splitting -/

/-- `tail` is empty or starts with an element on which `p` fails -/
def StopHead (p : Nat → Bool) (tail : List Nat) : Prop :=
  tail = [] ∨ ∃ d r, tail = d :: r ∧ p d = false

theorem takeWhile_append_stop {p : Nat → Bool} {a tail : List Nat}
    (ha : ∀ x ∈ a, p x = true) (ht : StopHead p tail) : (a ++ tail).takeWhile p = a := by
  induction a with
  | nil =>
    rcases ht with rfl | ⟨d, r, rfl, hd⟩
    · rfl
    · simp [List.takeWhile, hd]
  | cons x a ih =>
    simp only [List.cons_append, List.takeWhile, ha x (by simp)]
    rw [ih (fun y hy => ha y (by simp [hy]))]

theorem dropWhile_append_stop {p : Nat → Bool} {a tail : List Nat}
    (ha : ∀ x ∈ a, p x = true) (ht : StopHead p tail) : (a ++ tail).dropWhile p = tail := by
  induction a with
  | nil =>
    rcases ht with rfl | ⟨d, r, rfl, hd⟩
    · rfl
    · simp [List.dropWhile, hd]
  | cons x a ih =>
    simp only [List.cons_append, List.dropWhile, ha x (by simp)]
    rw [ih (fun y hy => ha y (by simp [hy]))]

theorem stopHead_nil (p : Nat → Bool) : StopHead p [] := Or.inl rfl
theorem stopHead_cons {p : Nat → Bool} {d : Nat} (r : List Nat) (h : p d = false) : StopHead p (d :: r) :=
  Or.inr ⟨d, r, rfl, h⟩

/-! ### partition / rpartition -/

theorem before_append {c : Nat} {a r : Text} (ha : ∀ x ∈ a, x ≠ c) : before c (a ++ c :: r) = a := by
  unfold before
  exact takeWhile_append_stop (fun x hx => by simp [neq, ha x hx]) (stopHead_cons r (by simp [neq]))

theorem after_append {c : Nat} {a r : Text} (ha : ∀ x ∈ a, x ≠ c) : after c (a ++ c :: r) = r := by
  unfold after
  rw [dropWhile_append_stop (fun x hx => by simp [neq, ha x hx]) (stopHead_cons r (by simp [neq]))]
  rfl

theorem before_none {c : Nat} {a : Text} (ha : ∀ x ∈ a, x ≠ c) : before c a = a := by
  unfold before
  have := takeWhile_append_stop (p := neq c) (a := a) (fun x hx => by simp [neq, ha x hx]) (stopHead_nil _)
  simpa using this

theorem after_none {c : Nat} {a : Text} (ha : ∀ x ∈ a, x ≠ c) : after c a = [] := by
  unfold after
  have := dropWhile_append_stop (p := neq c) (a := a) (fun x hx => by simp [neq, ha x hx]) (stopHead_nil _)
  simp at this
  rw [this]; rfl

theorem rafter_append {c : Nat} {a r : Text} (hr : ∀ x ∈ r, x ≠ c) : rafter c (a ++ c :: r) = r := by
  unfold rafter
  have : (a ++ c :: r).reverse = r.reverse ++ c :: a.reverse := by simp
  rw [this, takeWhile_append_stop (fun x hx => by simp [neq, hr x (by simpa using hx)]) (stopHead_cons _ (by simp [neq]))]
  simp

theorem rbefore_append {c : Nat} {a r : Text} (hr : ∀ x ∈ r, x ≠ c) : rbefore c (a ++ c :: r) = a := by
  unfold rbefore
  have : (a ++ c :: r).reverse = r.reverse ++ c :: a.reverse := by simp
  rw [this, dropWhile_append_stop (fun x hx => by simp [neq, hr x (by simpa using hx)]) (stopHead_cons _ (by simp [neq]))]
  simp

theorem rafter_none {c : Nat} {r : Text} (hr : ∀ x ∈ r, x ≠ c) : rafter c r = r := by
  unfold rafter
  have := takeWhile_append_stop (p := neq c) (a := r.reverse)
    (fun x hx => by simp [neq, hr x (by simpa using hx)]) (stopHead_nil _)
  simp at this
  rw [this]; simp

/-! ### decimal integers -/

theorem pyNatGo_snoc (ds : Text) (hd : ∀ c ∈ ds, isDigit c = true) (d : Nat) (hdd : d < 10) (acc : Nat) :
    pyNatGo (ds ++ [48 + d]) acc = (pyNatGo ds acc).map (fun v => v * 10 + d) := by
  induction ds generalizing acc with
  | nil =>
    have : isDigit (48 + d) = true := by simp [isDigit]; omega
    simp [pyNatGo, this]
  | cons c ds ih =>
    have hc : isDigit c = true := hd c (by simp)
    simp only [List.cons_append, pyNatGo, hc, if_true]
    exact ih (fun x hx => hd x (by simp [hx])) _

theorem showNatF_spec (f : Nat) : ∀ n, n < f →
    (∀ c ∈ showNatF f n, isDigit c = true) ∧ showNatF f n ≠ [] ∧ pyNatGo (showNatF f n) 0 = some n := by
  induction f with
  | zero => intro n h; omega
  | succ f ih =>
    intro n hn
    unfold showNatF
    split
    · rename_i h10
      refine ⟨?_, by simp, ?_⟩
      · intro c hc; simp at hc; subst hc; simp [isDigit]; omega
      · have : isDigit (48 + n) = true := by simp [isDigit]; omega
        simp [pyNatGo, this]
    · rename_i h10
      have hlt : n / 10 < f := by omega
      obtain ⟨h1, h2, h3⟩ := ih (n / 10) hlt
      refine ⟨?_, by simp, ?_⟩
      · intro c hc
        simp only [List.mem_append, List.mem_singleton] at hc
        rcases hc with hc | rfl
        · exact h1 c hc
        · simp [isDigit]; omega
      · rw [pyNatGo_snoc _ h1 _ (by omega), h3]
        simp; omega

theorem showNat_digits (n : Nat) : ∀ c ∈ showNat n, isDigit c = true := (showNatF_spec (n + 1) n (by omega)).1
theorem showNat_ne_nil (n : Nat) : showNat n ≠ [] := (showNatF_spec (n + 1) n (by omega)).2.1

theorem pyNat_showNat (n : Nat) : pyNat? (showNat n) = some n := by
  have h := showNatF_spec (n + 1) n (by omega)
  unfold showNat at *
  cases hs : showNatF (n + 1) n with
  | nil => exact absurd hs h.2.1
  | cons c rest =>
    rw [hs] at h
    simp only [pyNat?, h.1 c (by simp), if_true]
    exact h.2.2

theorem isDigit_not_space {c : Nat} (h : isDigit c = true) : isPySpace c = false := by
  simp only [isDigit, isPySpace, Bool.and_eq_true, decide_eq_true_eq] at *
  simp; omega

/-- `int(str(n)) == n` for a natural number -/
theorem pyInt_showNat (n : Nat) : pyInt? (showNat n) = some (Int.ofNat n) := by
  have hd := showNat_digits n
  have hne := showNat_ne_nil n
  have hp := pyNat_showNat n
  unfold pyInt?
  cases hs : showNat n with
  | nil => exact absurd hs hne
  | cons c rest =>
    rw [hs] at hd hp
    have hc := hd c (by simp)
    have h1 : (c :: rest).dropWhile isPySpace = c :: rest := by
      simp [List.dropWhile, isDigit_not_space hc]
    rw [h1]
    have hlast : ((c :: rest).reverse).dropWhile isPySpace = (c :: rest).reverse := by
      cases hr : (c :: rest).reverse with
      | nil => simp at hr
      | cons x xs =>
        have hx : x ∈ c :: rest := by
          have : x ∈ (c :: rest).reverse := by rw [hr]; simp
          exact List.mem_reverse.mp this
        simp [List.dropWhile, isDigit_not_space (hd x hx)]
    rw [hlast, List.reverse_reverse]
    have h43 : c ≠ 43 := by simp [isDigit] at hc; omega
    have h45 : c ≠ 45 := by simp [isDigit] at hc; omega
    split
    · rename_i heq; simp at heq; exact absurd heq.1 h43
    · rename_i heq; simp at heq; exact absurd heq.1 h45
    · simp [hp]


/-! ### the `_URL_RE` scanner on a composed text -/

/-- facts about the regenerated character classes that the scanner lemmas need -/
theorem stops_ok :
    notIn schemeStop 58 = false ∧
    notIn authStop 47 = false ∧ notIn authStop 63 = false ∧ notIn authStop 35 = false ∧
    notIn pathStop 63 = false ∧ notIn pathStop 35 = false ∧ notIn pathStop 47 = true ∧
    notIn queryStop 35 = false ∧ notIn queryStop 38 = true ∧ notIn queryStop 61 = true := by
  decide

def qpart (qs : Text) : Text := if qs ≠ [] then 63 :: qs else []
def fpart (frag : Text) : Text := if frag ≠ [] then 35 :: frag else []

theorem stopHead_tail2 {p : Nat → Bool} (h63 : p 63 = false) (h35 : p 35 = false) (qs frag : Text) :
    StopHead p (qpart qs ++ fpart frag) := by
  unfold qpart fpart
  by_cases hq : qs = []
  · by_cases hf : frag = []
    · simp [hq, hf, stopHead_nil]
    · simp only [hq, hf, ne_eq, not_true_eq_false, not_false_eq_true, if_true, if_false, List.nil_append]
      exact stopHead_cons _ h35
  · simp only [hq, ne_eq, not_false_eq_true, if_true, List.cons_append]
    exact stopHead_cons _ h63

theorem stopHead_tail1 {p : Nat → Bool} (h47 : p 47 = false) (h63 : p 63 = false) (h35 : p 35 = false)
    (path qs frag : Text) (hp0 : path = [] ∨ path.head? = some 47) :
    StopHead p (path ++ (qpart qs ++ fpart frag)) := by
  cases path with
  | nil => simpa using stopHead_tail2 h63 h35 qs frag
  | cons x xs =>
    rcases hp0 with h | h
    · cases h
    · simp at h; subst h; exact stopHead_cons _ h47

structure Scanned (t scheme auth path qs frag : Text) : Prop where
  scheme : schemeOf t = some scheme
  auth : authorityOf (afterScheme t) = some auth
  path : pathOf (afterAuthority (afterScheme t)) = path
  query : (queryOf (afterPath (afterAuthority (afterScheme t)))).getD [] = qs
  frag : (fragmentOf (afterQuery (afterPath (afterAuthority (afterScheme t))))).getD [] = frag

theorem scan_composed (scheme auth path qs frag : Text)
    (hs_ne : scheme ≠ []) (hs : ∀ c ∈ scheme, notIn schemeStop c = true)
    (ha : ∀ c ∈ auth, notIn authStop c = true)
    (hp : ∀ c ∈ path, notIn pathStop c = true) (hp0 : path = [] ∨ path.head? = some 47)
    (hq : ∀ c ∈ qs, notIn queryStop c = true)
    (hf : ∀ c ∈ frag, notIn fragStop c = true) :
    Scanned (scheme ++ 58 :: 47 :: 47 :: (auth ++ (path ++ (qpart qs ++ fpart frag)))) scheme auth path qs frag := by
  obtain ⟨s58, a47, a63, a35, p63, p35, p47, q35, q38, q61⟩ := stops_ok
  have e1 : (scheme ++ 58 :: 47 :: 47 :: (auth ++ (path ++ (qpart qs ++ fpart frag)))).takeWhile (notIn schemeStop) = scheme :=
    takeWhile_append_stop hs (stopHead_cons _ s58)
  have e2 : (scheme ++ 58 :: 47 :: 47 :: (auth ++ (path ++ (qpart qs ++ fpart frag)))).dropWhile (notIn schemeStop)
      = 58 :: 47 :: 47 :: (auth ++ (path ++ (qpart qs ++ fpart frag))) :=
    dropWhile_append_stop hs (stopHead_cons _ s58)
  have hS : schemeOf (scheme ++ 58 :: 47 :: 47 :: (auth ++ (path ++ (qpart qs ++ fpart frag)))) = some scheme := by
    unfold schemeOf; rw [e2]; simp only [e1]; simp [hs_ne]
  have hA : afterScheme (scheme ++ 58 :: 47 :: 47 :: (auth ++ (path ++ (qpart qs ++ fpart frag))))
      = 47 :: 47 :: (auth ++ (path ++ (qpart qs ++ fpart frag))) := by
    unfold afterScheme; rw [e2]; simp only [e1]; simp [hs_ne]
  have t1 := stopHead_tail1 a47 a63 a35 path qs frag hp0
  have hAu : authorityOf (47 :: 47 :: (auth ++ (path ++ (qpart qs ++ fpart frag)))) = some auth := by
    simp only [authorityOf]; rw [takeWhile_append_stop ha t1]
  have hAa : afterAuthority (47 :: 47 :: (auth ++ (path ++ (qpart qs ++ fpart frag)))) = path ++ (qpart qs ++ fpart frag) := by
    simp only [afterAuthority]; rw [dropWhile_append_stop ha t1]
  have t2 := stopHead_tail2 p63 p35 qs frag
  have hP : pathOf (path ++ (qpart qs ++ fpart frag)) = path := by
    unfold pathOf; exact takeWhile_append_stop hp t2
  have hPa : afterPath (path ++ (qpart qs ++ fpart frag)) = qpart qs ++ fpart frag := by
    unfold afterPath; exact dropWhile_append_stop hp t2
  have t3 : StopHead (notIn queryStop) (fpart frag) := by
    unfold fpart; split
    · exact stopHead_cons _ q35
    · exact stopHead_nil _
  have hQ : (queryOf (qpart qs ++ fpart frag)).getD [] = qs ∧
      (fragmentOf (afterQuery (qpart qs ++ fpart frag))).getD [] = frag := by
    have hfr : (fragmentOf (fpart frag)).getD [] = frag := by
      unfold fpart
      split
      · simp only [fragmentOf]
        have := takeWhile_append_stop (p := notIn fragStop) (a := frag) hf (stopHead_nil _)
        simp at this; simp [this]
      · rename_i h; simp at h; simp [fragmentOf, h]
    by_cases hqe : qs = []
    · subst hqe
      have hq0 : qpart [] = [] := by simp [qpart]
      rw [hq0]; simp only [List.nil_append]
      have : queryOf (fpart frag) = none ∧ afterQuery (fpart frag) = fpart frag := by
        unfold fpart; split <;> simp [queryOf, afterQuery]
      rw [this.1, this.2]; exact ⟨rfl, hfr⟩
    · have hq1 : qpart qs = 63 :: qs := by simp [qpart, hqe]
      rw [hq1]
      simp only [List.cons_append, queryOf, afterQuery]
      rw [takeWhile_append_stop hq t3, dropWhile_append_stop hq t3]
      exact ⟨rfl, hfr⟩
  exact ⟨hS, by rw [hA]; exact hAu, by rw [hA, hAa]; exact hP, by rw [hA, hAa, hPa]; exact hQ.1,
         by rw [hA, hAa, hPa]; exact hQ.2⟩


/-! ### fully quoted components -/

section quoted
variable (c : Comp) (nfc : Text → Text) (s : Text) (hs : ∀ x ∈ nfc s, isScalar x = true)
include hs

theorem quoteFull_ascii : ∀ ch ∈ quoteFull c.map nfc s, ch < 128 :=
  quoteBytes_ascii c _ (utf8_lt (nfc s) hs)

theorem quoteFull_stop : ∀ ch ∈ quoteFull c.map nfc s, (stopSet c).contains ch = false :=
  quoteBytes_stop c _ (utf8_lt (nfc s) hs)

theorem maybeUnquote_quoteFull : maybeUnquote (quoteFull c.map nfc s) = nfc s := by
  unfold maybeUnquote
  split
  · exact unquote_quoteFull c nfc s hs
  · rename_i h
    have h37 : 37 ∉ quoteFull c.map nfc s := by simpa using h
    have h1 := unquote_no_pct _ h37
    rw [unquote_quoteFull c nfc s hs] at h1
    exact h1.symm

theorem quoteFull_eq_nil (h : quoteFull c.map nfc s = []) : nfc s = [] := by
  have := unquote_quoteFull c nfc s hs
  rw [h] at this
  rw [← this]
  simp [unquote, unqGo, unqBytes_nil, decodeR_nil]

end quoted

theorem plusToSpace_id (q : Text) (h : 43 ∉ q) : plusToSpace q = q := by
  unfold plusToSpace
  induction q with
  | nil => rfl
  | cons x q ih =>
    simp only [List.mem_cons, not_or] at h
    simp only [List.map_cons]
    rw [ih h.2]
    have : x ≠ 43 := fun e => h.1 e.symm
    simp [this]

/-- membership in a stop set, unfolded for the separators each component must avoid -/
theorem stop_userinfo {ch : Nat} (h : (stopSet .userinfo).contains ch = false) :
    notIn authStop ch = true ∧ ch ≠ 64 ∧ ch ≠ 58 := by
  simp only [stopSet, List.contains_eq_mem, List.mem_append, decide_eq_false_iff_not, not_or] at h
  simp only [List.mem_cons, List.mem_nil_iff, or_false, not_or] at h
  refine ⟨by simp [notIn, h.1], h.2.1, h.2.2⟩

theorem stop_path {ch : Nat} (h : (stopSet .path).contains ch = false) :
    notIn pathStop ch = true ∧ ch ≠ 47 := by
  simp only [stopSet, List.contains_eq_mem, List.mem_append, decide_eq_false_iff_not, not_or] at h
  simp only [List.mem_cons, List.mem_nil_iff, or_false] at h
  exact ⟨by simp [notIn, h.1], h.2⟩

theorem stop_query {ch : Nat} (h : (stopSet .query).contains ch = false) :
    notIn queryStop ch = true ∧ ch ≠ 38 ∧ ch ≠ 59 ∧ ch ≠ 61 ∧ ch ≠ 43 := by
  simp only [stopSet, List.contains_eq_mem, List.mem_append, decide_eq_false_iff_not, not_or] at h
  simp only [List.mem_cons, List.mem_nil_iff, or_false, not_or] at h
  exact ⟨by simp [notIn, h.1], h.2.1, h.2.2.1, h.2.2.2.1, h.2.2.2.2⟩

theorem stop_fragment {ch : Nat} (h : (stopSet .fragment).contains ch = false) :
    notIn fragStop ch = true := by
  simp only [stopSet] at h
  simp only [notIn, h]; rfl

/-! ### intercalate -/

theorem mem_intercalate {sep x : Nat} {ls : List (List Nat)} (h : x ∈ [sep].intercalate ls) :
    x = sep ∨ ∃ l ∈ ls, x ∈ l := by
  induction ls with
  | nil => simp at h
  | cons a rest ih =>
    cases rest with
    | nil => simp at h; exact Or.inr ⟨a, by simp, h⟩
    | cons b rest =>
      rw [List.intercalate_cons_cons] at h
      simp only [List.mem_append, List.mem_singleton] at h
      rcases h with (h | h) | h
      · exact Or.inr ⟨a, by simp, h⟩
      · exact Or.inl h
      · rcases ih h with h | ⟨l, hl, hx⟩
        · exact Or.inl h
        · exact Or.inr ⟨l, by simp [hl], hx⟩


/-! ### path: render, split, decode -/

theorem pathText_parts (env : Env) (parts : List Text) (hne : parts ≠ [])
    (hs : ∀ s ∈ parts, ∀ x ∈ env.nfc s, isScalar x = true) :
    ((pathText env true parts).splitOn 47).map maybeUnquote = parts.map env.nfc := by
  unfold pathText
  rw [List.splitOn_intercalate]
  · rw [List.map_map]
    apply List.map_congr_left
    intro s hsm
    simp only [Function.comp, quotePart, if_true]
    exact maybeUnquote_quoteFull .path env.nfc s (hs s hsm)
  · intro l hl
    rw [List.mem_map] at hl
    obtain ⟨s, hsm, rfl⟩ := hl
    intro h47
    have := quoteFull_stop .path env.nfc s (hs s hsm) 47 (by simpa [quotePart] using h47)
    exact (stop_path this).2 rfl
  · simpa using hne

theorem pathText_chars (env : Env) (parts : List Text)
    (hs : ∀ s ∈ parts, ∀ x ∈ env.nfc s, isScalar x = true) :
    ∀ ch ∈ pathText env true parts, notIn pathStop ch = true := by
  intro ch hch
  unfold pathText at hch
  rcases mem_intercalate hch with h | ⟨l, hl, hx⟩
  · subst h; exact stops_ok.2.2.2.2.2.2.1
  · rw [List.mem_map] at hl
    obtain ⟨s, hsm, rfl⟩ := hl
    exact (stop_path (quoteFull_stop .path env.nfc s (hs s hsm) ch (by simpa [quotePart] using hx))).1

theorem quotePart_nil (c : Comp) (nfc : Text → Text) (hnil : nfc [] = []) : quotePart c nfc true [] = [] := by
  simp [quotePart, quoteFull, utf8, hnil]

theorem pathText_abs (env : Env) (hnil : env.nfc [] = []) (rest : List Text) :
    pathText env true ([] :: rest) = [] ∨ (pathText env true ([] :: rest)).head? = some 47 := by
  unfold pathText
  cases rest with
  | nil => left; simp [quotePart_nil _ _ hnil]
  | cons b rest =>
    right
    simp only [List.map_cons]
    rw [List.intercalate_cons_cons, quotePart_nil _ _ hnil]
    simp


/-! ### query: render, split, decode -/

/-- the texts of one query pair are encodable after normalisation -/
def PairScalar (nfc : Text → Text) (kv : Text × Option Text) : Prop :=
  (∀ x ∈ nfc kv.1, isScalar x = true) ∧ ∀ v, kv.2 = some v → ∀ x ∈ nfc v, isScalar x = true

def normPair (nfc : Text → Text) (kv : Text × Option Text) : Text × Option Text := (nfc kv.1, kv.2.map nfc)

theorem pairText_chars (env : Env) (kv : Text × Option Text) (hs : PairScalar env.nfc kv) :
    ∀ ch ∈ pairText env true kv, notIn queryStop ch = true ∧ ch ≠ 38 ∧ ch ≠ 59 ∧ ch ≠ 43 := by
  intro ch hch
  obtain ⟨k, v⟩ := kv
  cases v with
  | none =>
    simp only [pairText, quotePart, if_true] at hch
    have := stop_query (quoteFull_stop .query env.nfc k hs.1 ch hch)
    exact ⟨this.1, this.2.1, this.2.2.1, this.2.2.2.2⟩
  | some v =>
    simp only [pairText, quotePart, if_true, List.mem_append, List.mem_cons] at hch
    rcases hch with h | h | h
    · have := stop_query (quoteFull_stop .query env.nfc k hs.1 ch h)
      exact ⟨this.1, this.2.1, this.2.2.1, this.2.2.2.2⟩
    · subst h; exact ⟨stops_ok.2.2.2.2.2.2.2.2.2, by decide, by decide, by decide⟩
    · have := stop_query (quoteFull_stop .query env.nfc v (hs.2 v rfl) ch h)
      exact ⟨this.1, this.2.1, this.2.2.1, this.2.2.2.2⟩

theorem parsePair_pairText (env : Env) (kv : Text × Option Text) (hs : PairScalar env.nfc kv) :
    parsePair (pairText env true kv) = normPair env.nfc kv := by
  obtain ⟨k, v⟩ := kv
  have hk := quoteFull_stop .query env.nfc k hs.1
  have hk61 : ∀ x ∈ quoteFull Comp.query.map env.nfc k, x ≠ 61 := fun x hx => (stop_query (hk x hx)).2.2.2.1
  have hk43 : 43 ∉ quoteFull Comp.query.map env.nfc k := fun h => (stop_query (hk 43 h)).2.2.2.2 rfl
  have hkasc := quoteFull_ascii .query env.nfc k hs.1
  have huk : unquote (quoteFull Comp.query.map env.nfc k) = env.nfc k := unquote_quoteFull .query env.nfc k hs.1
  cases v with
  | none =>
    simp only [pairText, quotePart, if_true, parsePair, normPair, Option.map_none]
    have hc : (quoteFull Comp.query.map env.nfc k).contains 61 = false := by
      simp only [List.contains_eq_mem, decide_eq_false_iff_not]
      intro h; exact hk61 61 h rfl
    rw [before_none hk61, plusToSpace_id _ hk43, huk, hc]
    simp
  | some v =>
    have hv := quoteFull_stop .query env.nfc v (hs.2 v rfl)
    have hv43 : 43 ∉ quoteFull Comp.query.map env.nfc v := fun h => (stop_query (hv 43 h)).2.2.2.2 rfl
    have huv : unquote (quoteFull Comp.query.map env.nfc v) = env.nfc v := unquote_quoteFull .query env.nfc v (hs.2 v rfl)
    simp only [pairText, quotePart, if_true, parsePair, normPair, Option.map_some]
    rw [before_append hk61, after_append hk61, plusToSpace_id _ hk43, huk, plusToSpace_id _ hv43, huv]
    have hc : (quoteFull Comp.query.map env.nfc k ++ 61 :: quoteFull Comp.query.map env.nfc v).contains 61 = true := by simp
    rw [hc]
    simp only [if_true]
    split
    · rename_i h
      rw [quoteFull_eq_nil .query env.nfc v (hs.2 v rfl) h]
    · rfl

theorem pairText_ne_nil (env : Env) (kv : Text × Option Text) (hs : PairScalar env.nfc kv)
    (hok : ¬ (env.nfc kv.1 = [] ∧ kv.2 = none)) : pairText env true kv ≠ [] := by
  obtain ⟨k, v⟩ := kv
  cases v with
  | none =>
    simp only [pairText, quotePart, if_true]
    intro h
    exact hok ⟨quoteFull_eq_nil .query env.nfc k hs.1 h, rfl⟩
  | some v => simp [pairText]

theorem flatMap_splitOn_single (ls : List Text) (h : ∀ l ∈ ls, 59 ∉ l) :
    ls.flatMap (fun s => s.splitOn 59) = ls := by
  induction ls with
  | nil => rfl
  | cons a rest ih =>
    simp only [List.flatMap_cons]
    rw [List.splitOn_eq_singleton (h a (by simp)), ih (fun l hl => h l (by simp [hl]))]
    rfl

theorem parseQsl_nil : parseQsl [] = [] := by
  simp [parseQsl, nonEmpty]

theorem parseQsl_queryText (env : Env) (q : List (Text × Option Text))
    (hs : ∀ kv ∈ q, PairScalar env.nfc kv)
    (hok : ∀ kv ∈ q, ¬ (env.nfc kv.1 = [] ∧ kv.2 = none)) :
    parseQsl (queryText env true q) = q.map (normPair env.nfc) := by
  by_cases hq : q = []
  · subst hq; simp [queryText, parseQsl_nil]
  · unfold parseQsl queryText
    rw [List.splitOn_intercalate]
    · rw [flatMap_splitOn_single]
      · have hf : (q.map (pairText env true)).filter nonEmpty = q.map (pairText env true) := by
          rw [List.filter_eq_self]
          intro l hl
          rw [List.mem_map] at hl
          obtain ⟨kv, hkv, rfl⟩ := hl
          have := pairText_ne_nil env kv (hs kv hkv) (hok kv hkv)
          cases hp : pairText env true kv with
          | nil => exact absurd hp this
          | cons _ _ => simp [nonEmpty]
        rw [hf, List.map_map]
        apply List.map_congr_left
        intro kv hkv
        exact parsePair_pairText env kv (hs kv hkv)
      · intro l hl
        rw [List.mem_map] at hl
        obtain ⟨kv, hkv, rfl⟩ := hl
        intro h59
        exact (pairText_chars env kv (hs kv hkv) 59 h59).2.2.1 rfl
    · intro l hl
      rw [List.mem_map] at hl
      obtain ⟨kv, hkv, rfl⟩ := hl
      intro h38
      exact (pairText_chars env kv (hs kv hkv) 38 h38).2.1 rfl
    · simpa using hq

theorem queryText_chars (env : Env) (q : List (Text × Option Text))
    (hs : ∀ kv ∈ q, PairScalar env.nfc kv) :
    ∀ ch ∈ queryText env true q, notIn queryStop ch = true := by
  intro ch hch
  unfold queryText at hch
  rcases mem_intercalate hch with h | ⟨l, hl, hx⟩
  · subst h; exact stops_ok.2.2.2.2.2.2.2.2.1
  · rw [List.mem_map] at hl
    obtain ⟨kv, hkv, rfl⟩ := hl
    exact (pairText_chars env kv (hs kv hkv) ch hx).1


/-! ### authority: render and parse back -/

/-- a host character that cannot be mistaken for a delimiter of the authority -/
def hostChar (c : Nat) : Bool := c < 128 && notIn authStop c && c != 64 && c != 58 && c != 91

theorem hostChar_spec {c : Nat} (h : hostChar c = true) :
    c < 128 ∧ notIn authStop c = true ∧ c ≠ 64 ∧ c ≠ 58 ∧ c ≠ 91 := by
  simp only [hostChar, Bool.and_eq_true, decide_eq_true_eq, bne_iff_ne, ne_eq] at h
  exact ⟨h.1.1.1.1, h.1.1.1.2, h.1.1.2, h.1.2, h.2⟩

theorem auth_stops_ok : notIn authStop 58 = true ∧ notIn authStop 64 = true ∧
    authStop.all (fun c => !isDigit c) = true := by decide

theorem digit_notIn_authStop {c : Nat} (h : isDigit c = true) : notIn authStop c = true := by
  have := auth_stops_ok.2.2
  rw [List.all_eq_true] at this
  simp only [notIn, Bool.not_eq_true', List.contains_eq_mem, decide_eq_false_iff_not]
  intro hm
  have := this c hm
  simp [h] at this

def uiText (env : Env) (u : URL) : Text :=
  if u.username ≠ [] ∨ u.password ≠ [] then
    quoteFull userinfoMap env.nfc u.username ++
      (if u.password ≠ [] then 58 :: quoteFull userinfoMap env.nfc u.password else []) ++ [64]
  else []

def portText (u : URL) : Text :=
  match u.port with
  | some p => if p ≠ 0 ∧ some p ≠ (defaultPort u.scheme).map Int.ofNat then 58 :: showInt p else []
  | none => []

theorem authority_full (env : Env) (u : URL) (hne : u.host ≠ []) (hfam : u.family ≠ .inet6)
    (henc : env.idnaEnc u.host = some u.host) :
    authority env true u = .ok (uiText env u ++ u.host ++ portText u) := by
  unfold authority uiText portText
  simp only [hne, if_false, hfam, if_true, henc]
  rfl

/-- the port is absent, or a positive number different from the scheme's default -/
def PortOK (u : URL) : Prop :=
  u.port = none ∨ ∃ p : Nat, u.port = some (Int.ofNat p) ∧ 0 < p ∧ some p ≠ defaultPort u.scheme

theorem portText_cases (u : URL) (h : PortOK u) :
    (u.port = none ∧ portText u = []) ∨
    (∃ p : Nat, u.port = some (Int.ofNat p) ∧ portText u = 58 :: showNat p) := by
  rcases h with h | ⟨p, hp, hpos, hd⟩
  · left; simp [portText, h]
  · right
    refine ⟨p, hp, ?_⟩
    unfold portText
    rw [hp]
    have h0 : (Int.ofNat p) ≠ 0 := by
      intro h; have : p = 0 := by exact Int.ofNat_eq_zero.mp h
      omega
    have h1 : some (Int.ofNat p) ≠ (defaultPort u.scheme).map Int.ofNat := by
      intro h
      cases hdp : defaultPort u.scheme with
      | none => rw [hdp] at h; simp at h
      | some d =>
        rw [hdp] at h hd
        simp only [Option.map_some, Option.some.injEq] at h
        have : p = d := Int.ofNat.inj h
        exact hd (by rw [this])
    simp only []
    rw [if_pos ⟨h0, h1⟩]
    rfl

theorem splitHostPort_render (u : URL) (hne : u.host ≠ []) (hh : ∀ c ∈ u.host, hostChar c = true)
    (hp : PortOK u) : splitHostPort (u.host ++ portText u) = .ok (u.host, u.port) := by
  have h58 : ∀ x ∈ u.host, x ≠ 58 := fun x hx => (hostChar_spec (hh x hx)).2.2.2.1
  rcases portText_cases u hp with ⟨hn, ht⟩ | ⟨p, hpp, ht⟩
  · rw [ht, hn]
    unfold splitHostPort
    have : u.host.contains 58 = false := by
      simp only [List.contains_eq_mem, decide_eq_false_iff_not]
      intro h; exact h58 58 h rfl
    simp only [List.append_nil, this]
    rfl
  · rw [ht, hpp]
    unfold splitHostPort
    have hc : (u.host ++ 58 :: showNat p).contains 58 = true := by simp
    have hb : before 58 (u.host ++ 58 :: showNat p) = u.host := before_append h58
    have ha : after 58 (u.host ++ 58 :: showNat p) = showNat p := after_append h58
    have hhead : ((before 58 (u.host ++ 58 :: showNat p)).head? = some 91 &&
        (after 58 (u.host ++ 58 :: showNat p)).contains 93) = false := by
      rw [hb]
      cases hhost : u.host with
      | nil => exact absurd hhost hne
      | cons x xs =>
        have : x ≠ 91 := (hostChar_spec (hh x (by rw [hhost]; simp))).2.2.2.2
        simp [this]
    simp only [hc, Bool.not_true, Bool.false_eq_true, if_false, hhead]
    rw [ha, hb]
    simp [parsePort, pyInt_showNat]

theorem mem_hostinfo {u : URL} (hh : ∀ c ∈ u.host, hostChar c = true) (hp : PortOK u) :
    ∀ x ∈ u.host ++ portText u, x ≠ 64 ∧ notIn authStop x = true := by
  intro x hx
  rw [List.mem_append] at hx
  rcases hx with hx | hx
  · have := hostChar_spec (hh x hx); exact ⟨this.2.2.1, this.2.1⟩
  · rcases portText_cases u hp with ⟨_, ht⟩ | ⟨p, _, ht⟩
    · rw [ht] at hx; simp at hx
    · rw [ht] at hx
      simp only [List.mem_cons] at hx
      rcases hx with rfl | hx
      · exact ⟨by decide, auth_stops_ok.1⟩
      · have hd := showNat_digits p x hx
        refine ⟨?_, digit_notIn_authStop hd⟩
        simp [isDigit] at hd; omega

/-- what `parse_url` finds in the rendered authority: the quoted user and password, the host,
    its family, the port -/
theorem parseAuthority_render (env : Env) (u : URL) (hne : u.host ≠ [])
    (hh : ∀ c ∈ u.host, hostChar c = true) (hp : PortOK u)
    (hfam : u.family = if env.fam4 u.host then .inet else .none)
    (hsu : ∀ x ∈ env.nfc u.username, isScalar x = true)
    (hsp : ∀ x ∈ env.nfc u.password, isScalar x = true) :
    parseAuthority env (uiText env u ++ (u.host ++ portText u)) =
      .ok ⟨if u.username ≠ [] ∨ u.password ≠ [] then quoteFull userinfoMap env.nfc u.username else [],
           if u.password ≠ [] then quoteFull userinfoMap env.nfc u.password else [],
           u.family, u.host, u.port⟩ := by
  have hi := mem_hostinfo hh hp
  have hi64 : ∀ x ∈ u.host ++ portText u, x ≠ 64 := fun x hx => (hi x hx).1
  have hne' : u.host ++ portText u ≠ [] := by simp [hne]
  have hqu := quoteFull_stop .userinfo env.nfc u.username hsu
  have hqp := quoteFull_stop .userinfo env.nfc u.password hsp
  have hhost : parseHost env u.host = .ok (u.family, u.host) := by
    unfold parseHost
    have hm : 58 ∉ u.host := by
      intro h; exact (hostChar_spec (hh 58 h)).2.2.2.1 rfl
    simp [hne, hm, hfam]
  unfold parseAuthority
  by_cases hui : u.username ≠ [] ∨ u.password ≠ []
  · -- userinfo present
    have hu58 : ∀ x ∈ quoteFull Comp.userinfo.map env.nfc u.username, x ≠ 58 :=
      fun x hx => (stop_userinfo (hqu x hx)).2.2
    by_cases hpw : u.password ≠ []
    · have e : uiText env u ++ (u.host ++ portText u) =
          (quoteFull Comp.userinfo.map env.nfc u.username ++ 58 :: quoteFull Comp.userinfo.map env.nfc u.password)
            ++ 64 :: (u.host ++ portText u) := by
        simp [uiText, hui, hpw, Comp.map]
      rw [e]
      simp only [rafter_append hi64, rbefore_append hi64]
      have hc : ((quoteFull Comp.userinfo.map env.nfc u.username ++ 58 :: quoteFull Comp.userinfo.map env.nfc u.password)
            ++ 64 :: (u.host ++ portText u)).contains 64 = true := by simp
      simp only [hc, if_true, hne', if_false, before_append hu58, after_append hu58]
      rw [splitHostPort_render u hne hh hp]
      simp only [hhost]
      simp [hui, hpw, Comp.map]
    · have hpw' : u.password = [] := by simpa using hpw
      have hun : u.username ≠ [] := by
        rcases hui with h | h
        · exact h
        · exact absurd hpw' h
      have e : uiText env u ++ (u.host ++ portText u) =
          quoteFull Comp.userinfo.map env.nfc u.username ++ 64 :: (u.host ++ portText u) := by
        simp [uiText, hun, hpw', Comp.map]
      rw [e]
      simp only [rafter_append hi64, rbefore_append hi64]
      have hc : (quoteFull Comp.userinfo.map env.nfc u.username ++ 64 :: (u.host ++ portText u)).contains 64 = true := by
        simp
      simp only [hc, if_true, hne', if_false, before_none hu58, after_none hu58]
      rw [splitHostPort_render u hne hh hp]
      simp only [hhost]
      simp [hun, hpw', Comp.map]
  · have e : uiText env u ++ (u.host ++ portText u) = u.host ++ portText u := by
      simp [uiText, hui]
    rw [e]
    have hc : (u.host ++ portText u).contains 64 = false := by
      simp only [List.contains_eq_mem, decide_eq_false_iff_not]
      intro h; exact hi64 64 h rfl
    simp only [rafter_none hi64, hc, Bool.false_eq_true, if_false, hne']
    rw [splitHostPort_render u hne hh hp]
    simp only [hhost]
    have hpw' : u.password = [] := by
      simp only [not_or, ne_eq, Classical.not_not] at hui; exact hui.2
    have hun' : u.username = [] := by
      simp only [not_or, ne_eq, Classical.not_not] at hui; exact hui.1
    simp [hun', hpw']

theorem authText_chars (env : Env) (u : URL) (hh : ∀ c ∈ u.host, hostChar c = true) (hp : PortOK u)
    (hsu : ∀ x ∈ env.nfc u.username, isScalar x = true)
    (hsp : ∀ x ∈ env.nfc u.password, isScalar x = true) :
    ∀ ch ∈ uiText env u ++ (u.host ++ portText u), notIn authStop ch = true := by
  intro ch hch
  rw [List.mem_append] at hch
  rcases hch with hch | hch
  · unfold uiText at hch
    split at hch
    · simp only [List.mem_append, List.mem_singleton] at hch
      rcases hch with (h | h) | h
      · exact (stop_userinfo (quoteFull_stop .userinfo env.nfc u.username hsu ch h)).1
      · split at h
        · simp only [List.mem_cons] at h
          rcases h with rfl | h
          · exact auth_stops_ok.1
          · exact (stop_userinfo (quoteFull_stop .userinfo env.nfc u.password hsp ch h)).1
        · simp at h
      · subst h; exact auth_stops_ok.2.1
    · simp at hch
  · exact (mem_hostinfo hh hp ch hch).2


/-! ### the whole URL: render fully quoted, parse back -/

/-- every text stored in the URL is encodable once normalised (no lone surrogates) -/
structure Scalars (env : Env) (u : URL) : Prop where
  username : ∀ x ∈ env.nfc u.username, isScalar x = true
  password : ∀ x ∈ env.nfc u.password, isScalar x = true
  fragment : ∀ x ∈ env.nfc u.fragment, isScalar x = true
  parts : ∀ s ∈ u.pathParts, ∀ x ∈ env.nfc s, isScalar x = true
  query : ∀ kv ∈ u.query, PairScalar env.nfc kv

/-- "a valid scheme, host and port" + an absolute path + no (empty key, no value) parameter -/
structure WF (env : Env) (u : URL) : Prop where
  scheme_ne : u.scheme ≠ []
  scheme_ok : ∀ c ∈ u.scheme, notIn schemeStop c = true
  host_ne : u.host ≠ []
  host_ok : ∀ c ∈ u.host, hostChar c = true
  family_ok : u.family = if env.fam4 u.host then .inet else .none
  idna_enc : env.idnaEnc u.host = some u.host
  idna_dec : env.idnaDec u.host = some u.host
  port_ok : PortOK u
  path_abs : ∃ rest, u.pathParts = [] :: rest
  query_ok : ∀ kv ∈ u.query, ¬ (env.nfc kv.1 = [] ∧ kv.2 = none)
  scalars : Scalars env u

/-- what comes back: every text NFC-normalised, the `//` remembered -/
def normal (env : Env) (u : URL) : URL :=
  { u with netlocSep := true
           username := env.nfc u.username
           password := env.nfc u.password
           pathParts := u.pathParts.map env.nfc
           query := u.query.map (normPair env.nfc)
           fragment := env.nfc u.fragment }

def fullText (env : Env) (u : URL) : Text :=
  u.scheme ++ 58 :: 47 :: 47 :: ((uiText env u ++ (u.host ++ portText u)) ++
    (pathText env true u.pathParts ++ (qpart (queryText env true u.query) ++
      fpart (quotePart .fragment env.nfc true u.fragment))))

theorem family_ne6 {env : Env} {u : URL} (h : u.family = if env.fam4 u.host then .inet else .none) :
    u.family ≠ .inet6 := by
  rw [h]; split <;> simp

theorem toText_full (env : Env) (u : URL) (hW : WF env u) (hnil : env.nfc [] = []) :
    toText env true u = .ok (fullText env u) := by
  obtain ⟨rest, hrest⟩ := hW.path_abs
  unfold toText
  rw [authority_full env u hW.host_ne (family_ne6 hW.family_ok) hW.idna_enc]
  simp only
  congr 1
  have hauth : uiText env u ++ u.host ++ portText u ≠ [] := by simp [hW.host_ne]
  have hpath := pathText_abs env hnil rest
  rw [← hrest] at hpath
  unfold assemble fullText qpart fpart
  simp only [hW.scheme_ne, ne_eq, not_false_eq_true, if_true, hauth, true_and]
  have hp : (if ¬ pathText env true u.pathParts = [] then
      (if ¬ (pathText env true u.pathParts).head? = some 47 then 47 :: pathText env true u.pathParts
       else pathText env true u.pathParts) else []) = pathText env true u.pathParts := by
    rcases hpath with h | h
    · simp [h]
    · simp [h]
  rw [hp]
  simp [List.append_assoc]

theorem fullText_scanned (env : Env) (u : URL) (hW : WF env u) (hnil : env.nfc [] = []) :
    Scanned (fullText env u) u.scheme (uiText env u ++ (u.host ++ portText u))
      (pathText env true u.pathParts) (queryText env true u.query)
      (quotePart .fragment env.nfc true u.fragment) := by
  obtain ⟨rest, hrest⟩ := hW.path_abs
  have hpath := pathText_abs env hnil rest
  rw [← hrest] at hpath
  exact scan_composed _ _ _ _ _ hW.scheme_ne hW.scheme_ok
    (authText_chars env u hW.host_ok hW.port_ok hW.scalars.username hW.scalars.password)
    (pathText_chars env u.pathParts hW.scalars.parts) hpath
    (queryText_chars env u.query hW.scalars.query)
    (fun c hc => stop_fragment (quoteFull_stop .fragment env.nfc u.fragment hW.scalars.fragment c
      (by simpa [quotePart] using hc)))

theorem isAsciiText_host {u : URL} (hh : ∀ c ∈ u.host, hostChar c = true) : isAsciiText u.host = true := by
  unfold isAsciiText
  rw [List.all_eq_true]
  intro c hc
  simpa using (hostChar_spec (hh c hc)).1

/-- parsing the fully quoted rendering gives the URL back, NFC-normalised -/
theorem ofText_fullText (env : Env) (u : URL) (hW : WF env u) (hnil : env.nfc [] = []) :
    URL.ofText env (fullText env u) = .ok (normal env u) := by
  have hS := fullText_scanned env u hW hnil
  obtain ⟨rest, hrest⟩ := hW.path_abs
  unfold URL.ofText
  simp only [hS.scheme, hS.auth, hS.path, hS.query, hS.frag, Option.getD_some, Option.isSome_some]
  rw [parseAuthority_render env u hW.host_ne hW.host_ok hW.port_ok hW.family_ok
      hW.scalars.username hW.scalars.password]
  simp only [hW.host_ne, if_false, isAsciiText_host hW.host_ok, if_true, hW.idna_dec]
  have hparts : u.pathParts ≠ [] := by rw [hrest]; simp
  rw [pathText_parts env u.pathParts hparts hW.scalars.parts]
  rw [parseQsl_queryText env u.query hW.scalars.query hW.query_ok]
  have hfrag : maybeUnquote (quotePart .fragment env.nfc true u.fragment) = env.nfc u.fragment := by
    simpa [quotePart] using maybeUnquote_quoteFull .fragment env.nfc u.fragment hW.scalars.fragment
  rw [hfrag]
  have hun : maybeUnquote (if u.username ≠ [] ∨ u.password ≠ [] then quoteFull userinfoMap env.nfc u.username else [])
      = env.nfc u.username := by
    split
    · exact maybeUnquote_quoteFull .userinfo env.nfc u.username hW.scalars.username
    · rename_i h
      simp only [not_or, ne_eq, Classical.not_not] at h
      rw [h.1, hnil]; rfl
  have hpw : maybeUnquote (if u.password ≠ [] then quoteFull userinfoMap env.nfc u.password else [])
      = env.nfc u.password := by
    split
    · exact maybeUnquote_quoteFull .userinfo env.nfc u.password hW.scalars.password
    · rename_i h
      simp only [ne_eq, Classical.not_not] at h
      rw [h, hnil]; rfl
  rw [hun, hpw]
  rfl


/-! ### rendering the parsed-back URL again -/

/-- what the fixed-point theorems assume of the normaliser (all true of Unicode NFC) -/
structure NfcLaws (nfc : Text → Text) : Prop where
  nil : nfc [] = []
  idem : ∀ s, nfc (nfc s) = nfc s
  ne_nil : ∀ s, nfc s = [] → s = []

theorem quoteFull_idem (m : List (List Nat)) {nfc : Text → Text} (hid : ∀ s, nfc (nfc s) = nfc s) (s : Text) :
    quoteFull m nfc (nfc s) = quoteFull m nfc s := by
  simp [quoteFull, hid]

theorem nfc_ne_iff {nfc : Text → Text} (hl : NfcLaws nfc) (s : Text) : nfc s ≠ [] ↔ s ≠ [] := by
  constructor
  · intro h e; rw [e, hl.nil] at h; exact h rfl
  · intro h e; exact h (hl.ne_nil s e)

theorem normal_uiText (env : Env) (hl : NfcLaws env.nfc) (u : URL) : uiText env (normal env u) = uiText env u := by
  unfold uiText normal
  simp only [quoteFull_idem _ hl.idem, nfc_ne_iff hl]

theorem normal_pairText (env : Env) (hl : NfcLaws env.nfc) (kv : Text × Option Text) :
    pairText env true (normPair env.nfc kv) = pairText env true kv := by
  obtain ⟨k, v⟩ := kv
  cases v <;> simp [pairText, normPair, quotePart, quoteFull_idem _ hl.idem]

theorem normal_fullText (env : Env) (hl : NfcLaws env.nfc) (u : URL) :
    fullText env (normal env u) = fullText env u := by
  unfold fullText
  rw [normal_uiText env hl u]
  have hp : pathText env true (normal env u).pathParts = pathText env true u.pathParts := by
    simp only [pathText, normal, List.map_map]
    congr 1
    apply List.map_congr_left
    intro s _
    simp [quotePart, quoteFull_idem _ hl.idem]
  have hq : queryText env true (normal env u).query = queryText env true u.query := by
    simp only [queryText, normal, List.map_map]
    congr 1
    apply List.map_congr_left
    intro kv _
    exact normal_pairText env hl kv
  have hf : quotePart .fragment env.nfc true (normal env u).fragment = quotePart .fragment env.nfc true u.fragment := by
    simp [normal, quotePart, quoteFull_idem _ hl.idem]
  rw [hp, hq, hf]
  rfl

theorem normal_WF (env : Env) (hl : NfcLaws env.nfc) (u : URL) (hW : WF env u) : WF env (normal env u) where
  scheme_ne := hW.scheme_ne
  scheme_ok := hW.scheme_ok
  host_ne := hW.host_ne
  host_ok := hW.host_ok
  family_ok := hW.family_ok
  idna_enc := hW.idna_enc
  idna_dec := hW.idna_dec
  port_ok := hW.port_ok
  path_abs := by
    obtain ⟨rest, h⟩ := hW.path_abs
    exact ⟨rest.map env.nfc, by simp [normal, h, hl.nil]⟩
  query_ok := by
    intro kv hkv
    simp only [normal, List.mem_map] at hkv
    obtain ⟨kv0, h0, rfl⟩ := hkv
    intro h
    apply hW.query_ok kv0 h0
    simp only [normPair, hl.idem] at h
    refine ⟨h.1, ?_⟩
    cases hv : kv0.2 with
    | none => rfl
    | some v => rw [hv] at h; simp at h
  scalars := {
    username := by simpa [normal, hl.idem] using hW.scalars.username
    password := by simpa [normal, hl.idem] using hW.scalars.password
    fragment := by simpa [normal, hl.idem] using hW.scalars.fragment
    parts := by
      intro s hs
      simp only [normal, List.mem_map] at hs
      obtain ⟨s0, h0, rfl⟩ := hs
      rw [hl.idem]; exact hW.scalars.parts s0 h0
    query := by
      intro kv hkv
      simp only [normal, List.mem_map] at hkv
      obtain ⟨kv0, h0, rfl⟩ := hkv
      have := hW.scalars.query kv0 h0
      refine ⟨by simpa [normPair, hl.idem] using this.1, ?_⟩
      intro v hv
      simp only [normPair] at hv
      cases hv0 : kv0.2 with
      | none => rw [hv0] at hv; simp at hv
      | some v0 =>
        rw [hv0] at hv
        simp only [Option.map_some, Option.some.injEq] at hv
        subst hv
        rw [hl.idem]
        exact this.2 v0 hv0 }


end C06
