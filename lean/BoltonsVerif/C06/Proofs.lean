import BoltonsVerif.C06.Tables
namespace C06
open C06.Gen

/-! ### the fuel driver -/

theorem runF_fuel2 (step : Nat → List Nat → Nat × Nat) :
    ∀ (f g : Nat) (l : List Nat), l.length ≤ f → l.length ≤ g → runF step f l = runF step g l := by
  intro f
  induction f with
  | zero => intro g l h _; cases l <;> cases g <;> simp_all [runF]
  | succ f ih =>
    intro g l h hg
    cases l with
    | nil => cases g <;> simp [runF]
    | cons x rest =>
      cases g with
      | zero => simp at hg
      | succ g =>
        simp only [runF, List.length_cons] at *
        have h1 : (rest.drop (step x rest).2).length ≤ f := by
          simp only [List.length_drop]; omega
        have h2 : (rest.drop (step x rest).2).length ≤ g := by
          simp only [List.length_drop]; omega
        rw [ih _ _ h1 h2]

theorem run_nil (step : Nat → List Nat → Nat × Nat) : run step [] = [] := by
  simp [run, runF]

theorem run_cons (step : Nat → List Nat → Nat × Nat) (x : Nat) (rest : List Nat) :
    run step (x :: rest) = (step x rest).1 :: run step (rest.drop (step x rest).2) := by
  have h2 : (rest.drop (step x rest).2).length ≤ rest.length := by
    simp only [List.length_drop]; omega
  simp only [run, List.length_cons, runF]
  rw [runF_fuel2 step _ _ _ h2 (Nat.le_refl _)]

/-! ### UTF-8 -/

theorem split3 (c : Nat) : c / 4096 * 4096 + c / 64 % 64 * 64 + c % 64 = c := by omega
theorem split4 (c : Nat) :
    c / 262144 * 262144 + c / 4096 % 64 * 4096 + c / 64 % 64 * 64 + c % 64 = c := by omega

theorem decodeR_nil : decodeR [] = [] := run_nil _

theorem decodeR_utf8Char (c : Nat) (hc : isScalar c = true) (rest : Bytes) :
    decodeR (utf8Char c ++ rest) = c :: decodeR rest := by
  simp only [isScalar, Bool.or_eq_true, Bool.and_eq_true, decide_eq_true_eq] at hc
  unfold utf8Char
  by_cases h1 : c < 0x80
  · simp only [h1, if_true, List.cons_append, List.nil_append, decodeR]
    rw [run_cons]
    simp [decodeStep, h1]
  · by_cases h2 : c < 0x800
    · simp only [h1, h2, if_true, if_false, List.cons_append, List.nil_append, decodeR]
      rw [run_cons]
      have a1 : ¬ (0xC0 + c / 64 < 0x80) := by omega
      have a2 : ¬ (0xC0 + c / 64 < 0xC2) := by omega
      have a3 : 0xC0 + c / 64 < 0xE0 := by omega
      have a4 : isCont (0x80 + c % 64) = true := by simp [isCont]; omega
      have a5 : (0xC0 + c / 64 - 0xC0) * 64 + (0x80 + c % 64 - 0x80) = c := by omega
      simp [decodeStep, a1, a2, a3, a4]
      omega
    · by_cases h3 : c < 0x10000
      · simp only [h1, h2, h3, if_true, if_false, List.cons_append, List.nil_append, decodeR]
        rw [run_cons]
        have a1 : ¬ (0xE0 + c / 4096 < 0x80) := by omega
        have a2 : ¬ (0xE0 + c / 4096 < 0xC2) := by omega
        have a3 : ¬ (0xE0 + c / 4096 < 0xE0) := by omega
        have a3' : 0xE0 + c / 4096 < 0xF0 := by omega
        have a4 : isCont (0x80 + c / 64 % 64) = true := by simp [isCont]; omega
        have a4' : isCont (0x80 + c % 64) = true := by simp [isCont]; omega
        have a6 : (if 0x80 + c / 64 % 64 < 0xA0 then (0xE0 + c / 4096 == 0xE0) else (0xE0 + c / 4096 == 0xED)) = false := by
          split <;> simp <;> omega
        have a5 : (0xE0 + c / 4096 - 0xE0) * 4096 + (0x80 + c / 64 % 64 - 0x80) * 64 + (0x80 + c % 64 - 0x80) = c := by omega
        simp [decodeStep, a1, a2, a3, a3', a4, a4', a6]
        exact split3 c
      · simp only [h1, h2, h3, if_true, if_false, List.cons_append, List.nil_append, decodeR]
        rw [run_cons]
        have a1 : ¬ (0xF0 + c / 262144 < 0x80) := by omega
        have a2 : ¬ (0xF0 + c / 262144 < 0xC2) := by omega
        have a3 : ¬ (0xF0 + c / 262144 < 0xE0) := by omega
        have a3' : ¬ (0xF0 + c / 262144 < 0xF0) := by omega
        have a3'' : 0xF0 + c / 262144 < 0xF5 := by omega
        have a4 : isCont (0x80 + c / 4096 % 64) = true := by simp [isCont]; omega
        have a4' : isCont (0x80 + c / 64 % 64) = true := by simp [isCont]; omega
        have a4'' : isCont (0x80 + c % 64) = true := by simp [isCont]; omega
        have a6 : (if 0x80 + c / 4096 % 64 < 0x90 then (0xF0 + c / 262144 == 0xF0) else (0xF0 + c / 262144 == 0xF4)) = false := by
          split <;> simp <;> omega
        have a5 : (0xF0 + c / 262144 - 0xF0) * 262144 + (0x80 + c / 4096 % 64 - 0x80) * 4096
            + (0x80 + c / 64 % 64 - 0x80) * 64 + (0x80 + c % 64 - 0x80) = c := by omega
        simp [decodeStep, a1, a2, a3, a3', a3'', a4, a4', a4'', a6]
        exact split4 c



/-! ### rows of the quote maps -/

theorem entryOK_cases {c : Comp} {b : Nat} {e : List Nat} (h : entryOK c b e = true) :
    (e = [b] ∧ b ≠ 37 ∧ b < 128 ∧ legalRaw c b = true) ∨
    (∃ x y, e = [37, x, y] ∧ isUpperHex x = true ∧ isUpperHex y = true ∧ hexPair? x y = some b) := by
  unfold entryOK at h
  simp only [Bool.and_eq_true, Bool.or_eq_true] at h
  rcases h.1 with h1 | h1
  · left
    simp only [Bool.and_eq_true, beq_iff_eq, bne_iff_ne, ne_eq, decide_eq_true_eq] at h1
    exact ⟨h1.1.1.1, h1.1.1.2, h1.1.2, h1.2⟩
  · right
    match e, h1 with
    | [p, x, y], h1 =>
      simp only [Bool.and_eq_true, beq_iff_eq] at h1
      exact ⟨x, y, by rw [h1.1.1.1], h1.1.1.2, h1.1.2, by rw [hexPair_eq_spec]; exact h1.2⟩

theorem entryOK_stop {c : Comp} {b : Nat} {e : List Nat} (h : entryOK c b e = true) :
    ∀ ch ∈ e, (stopSet c).contains ch = false := by
  unfold entryOK at h
  simp only [Bool.and_eq_true] at h
  have h2 := h.2
  rw [List.all_eq_true] at h2
  intro ch hch
  have := h2 ch hch
  simpa using this

theorem isUpperHex_lt {x : Nat} (h : isUpperHex x = true) : x < 128 ∧ x ≠ 37 := by
  simp only [isUpperHex, Bool.or_eq_true, Bool.and_eq_true, decide_eq_true_eq] at h
  omega

/-- every character of a row is ASCII -/
theorem entryOK_ascii {c : Comp} {b : Nat} {e : List Nat} (h : entryOK c b e = true) :
    ∀ ch ∈ e, ch < 128 := by
  rcases entryOK_cases h with ⟨he, _, hb, _⟩ | ⟨x, y, he, hx, hy, _⟩
  · subst he; intro ch hch; simp at hch; omega
  · subst he
    intro ch hch
    have := isUpperHex_lt hx
    have := isUpperHex_lt hy
    simp at hch
    omega

/-! ### unquote_to_bytes -/

theorem unqBytes_nil : unqBytes [] = [] := run_nil _

theorem unqBytes_cons_ne {c : Nat} (h : c ≠ 37) (rest : Text) :
    unqBytes (c :: rest) = c :: unqBytes rest := by
  unfold unqBytes
  rw [run_cons]
  simp [unqStep, h]

theorem unqBytes_escape {x y v : Nat} (hp : hexPair? x y = some v) (rest : Text) :
    unqBytes (37 :: x :: y :: rest) = v :: unqBytes rest := by
  unfold unqBytes
  rw [run_cons]
  simp [unqStep, hp]

theorem unqBytes_entry {c : Comp} {b : Nat} {e : List Nat} (h : entryOK c b e = true) (rest : Text) :
    unqBytes (e ++ rest) = b :: unqBytes rest := by
  rcases entryOK_cases h with ⟨he, hb, _, _⟩ | ⟨x, y, he, _, _, hp⟩
  · subst he; exact unqBytes_cons_ne hb rest
  · subst he; exact unqBytes_escape hp rest

/-- percent-decoding undoes the byte-wise quoting of any byte string -/
theorem unqBytes_quoteBytes (c : Comp) (bs : Bytes) (hb : ∀ b ∈ bs, b < 256) (rest : Text) :
    unqBytes (bs.flatMap (mapGet c.map) ++ rest) = bs ++ unqBytes rest := by
  induction bs with
  | nil => simp
  | cons b bs ih =>
    simp only [List.flatMap_cons, List.append_assoc, List.cons_append]
    rw [unqBytes_entry (entryOK_of_lt c b (hb b (by simp)))]
    rw [ih (fun x hx => hb x (by simp [hx]))]

theorem quoteBytes_ascii (c : Comp) (bs : Bytes) (hb : ∀ b ∈ bs, b < 256) :
    ∀ ch ∈ bs.flatMap (mapGet c.map), ch < 128 := by
  intro ch hch
  rw [List.mem_flatMap] at hch
  obtain ⟨b, hbm, hin⟩ := hch
  exact entryOK_ascii (entryOK_of_lt c b (hb b hbm)) ch hin

theorem quoteBytes_stop (c : Comp) (bs : Bytes) (hb : ∀ b ∈ bs, b < 256) :
    ∀ ch ∈ bs.flatMap (mapGet c.map), (stopSet c).contains ch = false := by
  intro ch hch
  rw [List.mem_flatMap] at hch
  obtain ⟨b, hbm, hin⟩ := hch
  exact entryOK_stop (entryOK_of_lt c b (hb b hbm)) ch hin

theorem utf8Char_lt (c : Nat) (hc : isScalar c = true) : ∀ b ∈ utf8Char c, b < 256 := by
  simp only [isScalar, Bool.or_eq_true, Bool.and_eq_true, decide_eq_true_eq] at hc
  intro b hb
  unfold utf8Char at hb
  split at hb
  · simp at hb; omega
  · split at hb
    · simp at hb; omega
    · split at hb
      · simp at hb; omega
      · simp at hb; omega

theorem utf8_lt (s : Text) (hs : ∀ c ∈ s, isScalar c = true) : ∀ b ∈ utf8 s, b < 256 := by
  intro b hb
  unfold utf8 at hb
  rw [List.mem_flatMap] at hb
  obtain ⟨c, hc, hin⟩ := hb
  exact utf8Char_lt c (hs c hc) b hin

theorem decodeR_utf8 (s : Text) (hs : ∀ c ∈ s, isScalar c = true) (rest : Bytes) :
    decodeR (utf8 s ++ rest) = s ++ decodeR rest := by
  induction s with
  | nil => simp [utf8]
  | cons c s ih =>
    simp only [utf8, List.flatMap_cons, List.append_assoc, List.cons_append]
    rw [decodeR_utf8Char c (hs c (by simp))]
    have := ih (fun x hx => hs x (by simp [hx]))
    simp only [utf8] at this
    rw [this]

/-! ### unquote -/

theorem unqGo_ascii (q : Text) (hq : ∀ c ∈ q, c < 128) (acc : Text) :
    unqGo q acc = decodeR (unqBytes (acc.reverse ++ q)) := by
  induction q generalizing acc with
  | nil => simp [unqGo]
  | cons c q ih =>
    have hc : c < 128 := hq c (by simp)
    simp only [unqGo, hc, if_true]
    rw [ih (fun x hx => hq x (by simp [hx]))]
    simp

theorem unquote_ascii (q : Text) (hq : ∀ c ∈ q, c < 128) : unquote q = decodeR (unqBytes q) := by
  unfold unquote
  rw [unqGo_ascii q hq]
  simp

/-- `unquote(quote_X_part(s, full_quote=True)) == NFC(s)` -/
theorem unquote_quoteFull (c : Comp) (nfc : Text → Text) (s : Text)
    (hs : ∀ x ∈ nfc s, isScalar x = true) : unquote (quoteFull c.map nfc s) = nfc s := by
  unfold quoteFull
  have hb := utf8_lt (nfc s) hs
  rw [unquote_ascii _ (quoteBytes_ascii c _ hb)]
  have := unqBytes_quoteBytes c (utf8 (nfc s)) hb []
  simp only [List.append_nil, unqBytes_nil] at this
  rw [this]
  have := decodeR_utf8 (nfc s) hs []
  simpa [decodeR_nil] using this

theorem unqBytes_cons (c : Nat) (rest : Text) :
    unqBytes (c :: rest) = (unqStep c rest).1 :: unqBytes (rest.drop (unqStep c rest).2) := run_cons _ _ _

/-- `unquote_to_bytes` is the reference percent-decoder -/
theorem unqBytes_eq_spec (s : Text) : unqBytes s = unqSpec s := by
  fun_induction unqSpec s with
  | case1 => exact unqBytes_nil
  | case2 a b r h ih =>
    rw [unqBytes_cons]
    simp only [Bool.and_eq_true] at h
    simp [unqStep, hexPair_eq_spec, hexSpec, h.1, h.2, ih]
  | case3 a b r h ih =>
    rw [unqBytes_cons]
    have : hexSpec a b = none := by simp [hexSpec, h]
    simp [unqStep, hexPair_eq_spec, this, ih]
  | case4 c rest hne ih =>
    rw [unqBytes_cons]
    by_cases hc : c = 37
    · subst hc
      match rest, hne with
      | [], _ => simp [unqStep, ih]
      | [x], _ => simp [unqStep, ih]
      | x :: y :: r, hne => exact absurd rfl (hne x y r rfl)
    · simp [unqStep, hc, ih]

theorem isUpperHex_hex {x : Nat} (h : isUpperHex x = true) : isHexDigit x = true := by
  simp only [isUpperHex, isHexDigit, Bool.or_eq_true, Bool.and_eq_true, decide_eq_true_eq] at *
  omega

theorem wellQuoted_entry {c : Comp} {b : Nat} {e : List Nat} (h : entryOK c b e = true) (rest : Text) :
    wellQuoted c (e ++ rest) = wellQuoted c rest := by
  rcases entryOK_cases h with ⟨he, hb, _, hl⟩ | ⟨x, y, he, hx, hy, _⟩
  · subst he
    simp only [List.cons_append, List.nil_append]
    rw [wellQuoted.eq_def]
    split
    · simp at *
    · rename_i heq; simp at heq; omega
    · rename_i heq; simp at heq; simp [← heq.1, ← heq.2, hb, hl]
  · subst he
    simp [wellQuoted, isUpperHex_hex hx, isUpperHex_hex hy]


/-! ### totality: the only exception is URLParseError -/

theorem parsePort_err {s : Text} {e : Err} (h : parsePort s = .error e) : e = .urlParseError := by
  unfold parsePort at h
  split at h
  · cases h
  · split at h
    · cases h
    · cases h; rfl

theorem splitHostPort_err {s : Text} {e : Err} (h : splitHostPort s = .error e) : e = .urlParseError := by
  unfold splitHostPort at h
  split at h
  · cases h
  · split at h
    · split at h
      · cases h
      · rename_i e' he; cases h; exact parsePort_err he
    · split at h
      · cases h
      · rename_i e' he; cases h; exact parsePort_err he

theorem parseHost_err {env : Env} {s : Text} {e : Err} (h : parseHost env s = .error e) : e = .urlParseError := by
  unfold parseHost at h
  split at h
  · cases h
  · split at h
    · split at h
      · cases h
      · cases h; rfl
    · cases h

theorem parseAuthority_err {env : Env} {au : Text} {e : Err} (h : parseAuthority env au = .error e) :
    e = .urlParseError := by
  unfold parseAuthority at h
  simp only at h
  split at h
  · rename_i e' he
    cases h
    split at he
    · cases he
    · exact splitHostPort_err he
  · split at h
    · rename_i e' he; cases h; exact parseHost_err he
    · cases h

/-- `URL(text)` raises nothing but URLParseError -/
theorem ofText_err {env : Env} {t : Text} {e : Err} (h : URL.ofText env t = .error e) : e = .urlParseError := by
  unfold URL.ofText at h
  simp only at h
  split at h
  · rename_i e' he; cases h; exact parseAuthority_err he
  · split at h
    · cases h; rfl
    · cases h

theorem linkStep_ok (env : Env) (o : LinkOpts) (ret : List Item) (pre m : Text) :
    ∃ r, linkStep env o ret pre m = .ok r := by
  unfold linkStep
  simp only
  cases h : URL.ofText env m with
  | error e =>
    have := ofText_err h
    subst this
    exact ⟨_, rfl⟩
  | ok cur =>
    simp only
    split
    · split
      · cases h2 : URL.ofText env (o.defaultScheme ++ 58 :: 47 :: 47 :: m) with
        | error e =>
          have := ofText_err h2
          subst this
          exact ⟨_, rfl⟩
        | ok cur2 => exact ⟨_, rfl⟩
      · exact ⟨_, rfl⟩
    · exact ⟨_, rfl⟩

theorem linkLoop_ok (env : Env) (o : LinkOpts) (ms : List (Text × Text)) :
    ∀ ret, ∃ r, linkLoop env o ret ms = .ok r := by
  induction ms with
  | nil => intro ret; exact ⟨ret, rfl⟩
  | cons pm rest ih =>
    intro ret
    obtain ⟨pre, m⟩ := pm
    obtain ⟨r1, h1⟩ := linkStep_ok env o ret pre m
    simp only [linkLoop, h1]
    exact ih r1

theorem findAllLinks_ok (env : Env) (o : LinkOpts) (ms : List (Text × Text)) (tail : Text) :
    ∃ r, findAllLinks env o ms tail = .ok r := by
  obtain ⟨r, h⟩ := linkLoop_ok env o ms []
  unfold findAllLinks
  rw [h]
  exact ⟨_, rfl⟩


theorem wellQuoted_quoteFull (c : Comp) (nfc : Text → Text) (s : Text)
    (hs : ∀ x ∈ nfc s, isScalar x = true) : wellQuoted c (quoteFull c.map nfc s) = true := by
  unfold quoteFull
  have hb := utf8_lt (nfc s) hs
  generalize utf8 (nfc s) = bs at hb
  induction bs with
  | nil => simp [wellQuoted]
  | cons b bs ih =>
    simp only [List.flatMap_cons]
    rw [wellQuoted_entry (entryOK_of_lt c b (hb b (by simp)))]
    exact ih (fun x hx => hb x (by simp [hx]))

theorem unqBytes_no_pct (s : Text) (hp : 37 ∉ s) : unqBytes s = s := by
  induction s with
  | nil => exact unqBytes_nil
  | cons c s ih =>
    simp only [List.mem_cons, not_or] at hp
    rw [unqBytes_cons_ne (fun h => hp.1 h.symm), ih hp.2]

theorem decodeR_ascii (s : Bytes) (h : ∀ c ∈ s, c < 128) : decodeR s = s := by
  induction s with
  | nil => exact decodeR_nil
  | cons c s ih =>
    have hc : c < 128 := h c (by simp)
    unfold decodeR at *
    rw [run_cons]
    simp only [decodeStep, hc, if_true, List.drop_zero]
    rw [ih (fun x hx => h x (by simp [hx]))]

theorem unqGo_no_pct (s : Text) (hp : 37 ∉ s) :
    ∀ acc : Text, 37 ∉ acc → (∀ c ∈ acc, c < 128) → unqGo s acc = acc.reverse ++ s := by
  induction s with
  | nil =>
    intro acc ha hb
    simp only [unqGo, List.append_nil]
    rw [unqBytes_no_pct _ (by simpa using ha), decodeR_ascii _ (by simpa using hb)]
  | cons c s ih =>
    intro acc ha hb
    simp only [List.mem_cons, not_or] at hp
    unfold unqGo
    split
    · rename_i hc
      rw [ih hp.2 (c :: acc) (by simp [ha, hp.1]) (by intro x hx; simp at hx; rcases hx with rfl | hx; exact hc; exact hb x hx)]
      simp
    · rw [ih hp.2 [] (by simp) (by simp)]
      rw [unqBytes_no_pct _ (by simpa using ha), decodeR_ascii _ (by simpa using hb)]
      simp

/-- text without `%` is left alone by `unquote` -/
theorem unquote_no_pct (s : Text) (hp : 37 ∉ s) : unquote s = s := by
  unfold unquote
  rw [unqGo_no_pct s hp [] (by simp) (by simp)]
  simp


/-! ### takeWhile / dropWhile splitting -/

/-- `tail` is empty or starts with an element on which `p` fails -/
def StopHead (p : Nat → Bool) (tail : List Nat) : Prop :=
  tail = [] ∨ ∃ d r, tail = d :: r ∧ p d = false

theorem takeWhile_append_stop {p : Nat → Bool} {a tail : List Nat}
    (ha : ∀ x ∈ a, p x = true) (ht : StopHead p tail) : (a ++ tail).takeWhile p = a := by
  induction a with
  | nil =>
    rcases ht with rfl | ⟨d, r, rfl, hd⟩
    · rfl
    · simp [List.takeWhile, hd]
  | cons x a ih =>
    simp only [List.cons_append, List.takeWhile, ha x (by simp)]
    rw [ih (fun y hy => ha y (by simp [hy]))]

theorem dropWhile_append_stop {p : Nat → Bool} {a tail : List Nat}
    (ha : ∀ x ∈ a, p x = true) (ht : StopHead p tail) : (a ++ tail).dropWhile p = tail := by
  induction a with
  | nil =>
    rcases ht with rfl | ⟨d, r, rfl, hd⟩
    · rfl
    · simp [List.dropWhile, hd]
  | cons x a ih =>
    simp only [List.cons_append, List.dropWhile, ha x (by simp)]
    rw [ih (fun y hy => ha y (by simp [hy]))]

theorem stopHead_nil (p : Nat → Bool) : StopHead p [] := Or.inl rfl
theorem stopHead_cons {p : Nat → Bool} {d : Nat} (r : List Nat) (h : p d = false) : StopHead p (d :: r) :=
  Or.inr ⟨d, r, rfl, h⟩

/-! ### partition / rpartition -/

theorem before_append {c : Nat} {a r : Text} (ha : ∀ x ∈ a, x ≠ c) : before c (a ++ c :: r) = a := by
  unfold before
  exact takeWhile_append_stop (fun x hx => by simp [neq, ha x hx]) (stopHead_cons r (by simp [neq]))

theorem after_append {c : Nat} {a r : Text} (ha : ∀ x ∈ a, x ≠ c) : after c (a ++ c :: r) = r := by
  unfold after
  rw [dropWhile_append_stop (fun x hx => by simp [neq, ha x hx]) (stopHead_cons r (by simp [neq]))]
  rfl

theorem before_none {c : Nat} {a : Text} (ha : ∀ x ∈ a, x ≠ c) : before c a = a := by
  unfold before
  have := takeWhile_append_stop (p := neq c) (a := a) (fun x hx => by simp [neq, ha x hx]) (stopHead_nil _)
  simpa using this

theorem after_none {c : Nat} {a : Text} (ha : ∀ x ∈ a, x ≠ c) : after c a = [] := by
  unfold after
  have := dropWhile_append_stop (p := neq c) (a := a) (fun x hx => by simp [neq, ha x hx]) (stopHead_nil _)
  simp at this
  rw [this]; rfl

theorem rafter_append {c : Nat} {a r : Text} (hr : ∀ x ∈ r, x ≠ c) : rafter c (a ++ c :: r) = r := by
  unfold rafter
  have : (a ++ c :: r).reverse = r.reverse ++ c :: a.reverse := by simp
  rw [this, takeWhile_append_stop (fun x hx => by simp [neq, hr x (by simpa using hx)]) (stopHead_cons _ (by simp [neq]))]
  simp

theorem rbefore_append {c : Nat} {a r : Text} (hr : ∀ x ∈ r, x ≠ c) : rbefore c (a ++ c :: r) = a := by
  unfold rbefore
  have : (a ++ c :: r).reverse = r.reverse ++ c :: a.reverse := by simp
  rw [this, dropWhile_append_stop (fun x hx => by simp [neq, hr x (by simpa using hx)]) (stopHead_cons _ (by simp [neq]))]
  simp

theorem rafter_none {c : Nat} {r : Text} (hr : ∀ x ∈ r, x ≠ c) : rafter c r = r := by
  unfold rafter
  have := takeWhile_append_stop (p := neq c) (a := r.reverse)
    (fun x hx => by simp [neq, hr x (by simpa using hx)]) (stopHead_nil _)
  simp at this
  rw [this]; simp

/-! ### decimal integers -/

/-- facts about the regenerated `int()` tables: ASCII digits have their value, none of them is stripped -/
theorem int_tables_ascii :
    (∀ d, d < 10 → digitVal? (48 + d) = some d) ∧ (∀ d, d < 10 → isPySpace (48 + d) = false) := by
  decide +kernel

theorem digitVal_of_isDigit {c : Nat} (h : isDigit c = true) : digitVal? c = some (c - 48) := by
  simp only [isDigit, Bool.and_eq_true, decide_eq_true_eq] at h
  have := int_tables_ascii.1 (c - 48) (by omega)
  rwa [show 48 + (c - 48) = c by omega] at this

theorem isPyDigit_of_isDigit {c : Nat} (h : isDigit c = true) : isPyDigit c = true := by
  simp [isPyDigit, digitVal_of_isDigit h]

theorem pyNatGo_snoc (ds : Text) (hd : ∀ c ∈ ds, isDigit c = true) (d : Nat) (hdd : d < 10) (acc : Nat) :
    pyNatGo (ds ++ [48 + d]) acc = (pyNatGo ds acc).map (fun v => v * 10 + d) := by
  induction ds generalizing acc with
  | nil =>
    simp [pyNatGo, int_tables_ascii.1 d hdd]
  | cons c ds ih =>
    have hc : isDigit c = true := hd c (by simp)
    simp only [List.cons_append, pyNatGo, digitVal_of_isDigit hc]
    exact ih (fun x hx => hd x (by simp [hx])) _

theorem showNatF_spec (f : Nat) : ∀ n, n < f →
    (∀ c ∈ showNatF f n, isDigit c = true) ∧ showNatF f n ≠ [] ∧ pyNatGo (showNatF f n) 0 = some n := by
  induction f with
  | zero => intro n h; omega
  | succ f ih =>
    intro n hn
    unfold showNatF
    split
    · rename_i h10
      refine ⟨?_, by simp, ?_⟩
      · intro c hc; simp at hc; subst hc; simp [isDigit]; omega
      · simp [pyNatGo, int_tables_ascii.1 n h10]
    · rename_i h10
      have hlt : n / 10 < f := by omega
      obtain ⟨h1, h2, h3⟩ := ih (n / 10) hlt
      refine ⟨?_, by simp, ?_⟩
      · intro c hc
        simp only [List.mem_append, List.mem_singleton] at hc
        rcases hc with hc | rfl
        · exact h1 c hc
        · simp [isDigit]; omega
      · rw [pyNatGo_snoc _ h1 _ (by omega), h3]
        simp; omega

theorem showNat_digits (n : Nat) : ∀ c ∈ showNat n, isDigit c = true := (showNatF_spec (n + 1) n (by omega)).1
theorem showNat_ne_nil (n : Nat) : showNat n ≠ [] := (showNatF_spec (n + 1) n (by omega)).2.1

theorem pyNat_showNat (n : Nat) : pyNat? (showNat n) = some n := by
  have h := showNatF_spec (n + 1) n (by omega)
  unfold showNat at *
  cases hs : showNatF (n + 1) n with
  | nil => exact absurd hs h.2.1
  | cons c rest =>
    rw [hs] at h
    simp only [pyNat?, isPyDigit_of_isDigit (h.1 c (by simp)), if_true]
    exact h.2.2

theorem isDigit_not_space {c : Nat} (h : isDigit c = true) : isPySpace c = false := by
  simp only [isDigit, Bool.and_eq_true, decide_eq_true_eq] at h
  have := int_tables_ascii.2 (c - 48) (by omega)
  rwa [show 48 + (c - 48) = c by omega] at this

/-- `int(str(n)) == n` for a natural number -/
theorem pyInt_showNat (n : Nat) : pyInt? (showNat n) = some (Int.ofNat n) := by
  have hd := showNat_digits n
  have hne := showNat_ne_nil n
  have hp := pyNat_showNat n
  unfold pyInt?
  cases hs : showNat n with
  | nil => exact absurd hs hne
  | cons c rest =>
    rw [hs] at hd hp
    have hc := hd c (by simp)
    have h1 : (c :: rest).dropWhile isPySpace = c :: rest := by
      simp [List.dropWhile, isDigit_not_space hc]
    rw [h1]
    have hlast : ((c :: rest).reverse).dropWhile isPySpace = (c :: rest).reverse := by
      cases hr : (c :: rest).reverse with
      | nil => simp at hr
      | cons x xs =>
        have hx : x ∈ c :: rest := by
          have : x ∈ (c :: rest).reverse := by rw [hr]; simp
          exact List.mem_reverse.mp this
        simp [List.dropWhile, isDigit_not_space (hd x hx)]
    rw [hlast, List.reverse_reverse]
    have h43 : c ≠ 43 := by simp [isDigit] at hc; omega
    have h45 : c ≠ 45 := by simp [isDigit] at hc; omega
    split
    · rename_i heq; simp at heq; exact absurd heq.1 h43
    · rename_i heq; simp at heq; exact absurd heq.1 h45
    · simp [hp]


/-! ### the `_URL_RE` scanner on a composed text -/

/-- facts about the regenerated character classes that the scanner lemmas need -/
theorem stops_ok :
    notIn schemeStop 58 = false ∧
    notIn authStop 47 = false ∧ notIn authStop 63 = false ∧ notIn authStop 35 = false ∧
    notIn pathStop 63 = false ∧ notIn pathStop 35 = false ∧ notIn pathStop 47 = true ∧
    notIn queryStop 35 = false ∧ notIn queryStop 38 = true ∧ notIn queryStop 61 = true := by
  decide

/-- more facts about the regenerated classes of `_URL_RE`, needed when the scheme / authority groups do
    not match -/
theorem stops_ok2 :
    notIn schemeStop 47 = false ∧ notIn schemeStop 63 = false ∧ notIn schemeStop 35 = false ∧
    schemeStop.all (fun c => c == 58 || c == 47 || c == 63 || c == 35) = true := by decide

/-- `scheme:` or nothing -/
def spart (scheme : Text) : Text := if scheme ≠ [] then scheme ++ [58] else []

def qpart (qs : Text) : Text := if qs ≠ [] then 63 :: qs else []
def fpart (frag : Text) : Text := if frag ≠ [] then 35 :: frag else []

theorem stopHead_tail2 {p : Nat → Bool} (h63 : p 63 = false) (h35 : p 35 = false) (qs frag : Text) :
    StopHead p (qpart qs ++ fpart frag) := by
  unfold qpart fpart
  by_cases hq : qs = []
  · by_cases hf : frag = []
    · simp [hq, hf, stopHead_nil]
    · simp only [hq, hf, ne_eq, not_true_eq_false, not_false_eq_true, if_true, if_false, List.nil_append]
      exact stopHead_cons _ h35
  · simp only [hq, ne_eq, not_false_eq_true, if_true, List.cons_append]
    exact stopHead_cons _ h63

theorem stopHead_tail1 {p : Nat → Bool} (h47 : p 47 = false) (h63 : p 63 = false) (h35 : p 35 = false)
    (path qs frag : Text) (hp0 : path = [] ∨ path.head? = some 47) :
    StopHead p (path ++ (qpart qs ++ fpart frag)) := by
  cases path with
  | nil => simpa using stopHead_tail2 h63 h35 qs frag
  | cons x xs =>
    rcases hp0 with h | h
    · cases h
    · simp at h; subst h; exact stopHead_cons _ h47

structure Scanned (t scheme auth path qs frag : Text) : Prop where
  scheme : (schemeOf t).getD [] = scheme
  auth : authorityOf (afterScheme t) = some auth
  path : pathOf (afterAuthority (afterScheme t)) = path
  query : (queryOf (afterPath (afterAuthority (afterScheme t)))).getD [] = qs
  frag : (fragmentOf (afterQuery (afterPath (afterAuthority (afterScheme t))))).getD [] = frag

theorem scan_composed (scheme auth path qs frag : Text)
    (hs : ∀ c ∈ scheme, notIn schemeStop c = true)
    (ha : ∀ c ∈ auth, notIn authStop c = true)
    (hp : ∀ c ∈ path, notIn pathStop c = true) (hp0 : path = [] ∨ path.head? = some 47)
    (hq : ∀ c ∈ qs, notIn queryStop c = true)
    (hf : ∀ c ∈ frag, notIn fragStop c = true) :
    Scanned (spart scheme ++ 47 :: 47 :: (auth ++ (path ++ (qpart qs ++ fpart frag)))) scheme auth path qs frag := by
  obtain ⟨s58, a47, a63, a35, p63, p35, p47, q35, q38, q61⟩ := stops_ok
  have hSA : (schemeOf (spart scheme ++ 47 :: 47 :: (auth ++ (path ++ (qpart qs ++ fpart frag))))).getD [] = scheme ∧
      afterScheme (spart scheme ++ 47 :: 47 :: (auth ++ (path ++ (qpart qs ++ fpart frag))))
        = 47 :: 47 :: (auth ++ (path ++ (qpart qs ++ fpart frag))) := by
    by_cases hs_ne : scheme = []
    · subst hs_ne
      have hd : (47 :: 47 :: (auth ++ (path ++ (qpart qs ++ fpart frag)))).dropWhile (notIn schemeStop)
          = 47 :: 47 :: (auth ++ (path ++ (qpart qs ++ fpart frag))) := by
        simp [List.dropWhile, stops_ok2.1]
      simp only [spart, ne_eq, not_true_eq_false, if_false, List.nil_append]
      constructor
      · unfold schemeOf; rw [hd]; rfl
      · unfold afterScheme; rw [hd]; rfl
    · have hsp : spart scheme ++ 47 :: 47 :: (auth ++ (path ++ (qpart qs ++ fpart frag)))
          = scheme ++ 58 :: 47 :: 47 :: (auth ++ (path ++ (qpart qs ++ fpart frag))) := by
        simp [spart, hs_ne]
      rw [hsp]
      have e1 : (scheme ++ 58 :: 47 :: 47 :: (auth ++ (path ++ (qpart qs ++ fpart frag)))).takeWhile (notIn schemeStop) = scheme :=
        takeWhile_append_stop hs (stopHead_cons _ s58)
      have e2 : (scheme ++ 58 :: 47 :: 47 :: (auth ++ (path ++ (qpart qs ++ fpart frag)))).dropWhile (notIn schemeStop)
          = 58 :: 47 :: 47 :: (auth ++ (path ++ (qpart qs ++ fpart frag))) :=
        dropWhile_append_stop hs (stopHead_cons _ s58)
      constructor
      · unfold schemeOf; rw [e2]; simp only [e1]; simp [hs_ne]
      · unfold afterScheme; rw [e2]; simp only [e1]; simp [hs_ne]
  have hS := hSA.1
  have hA := hSA.2
  have t1 := stopHead_tail1 a47 a63 a35 path qs frag hp0
  have hAu : authorityOf (47 :: 47 :: (auth ++ (path ++ (qpart qs ++ fpart frag)))) = some auth := by
    simp only [authorityOf]; rw [takeWhile_append_stop ha t1]
  have hAa : afterAuthority (47 :: 47 :: (auth ++ (path ++ (qpart qs ++ fpart frag)))) = path ++ (qpart qs ++ fpart frag) := by
    simp only [afterAuthority]; rw [dropWhile_append_stop ha t1]
  have t2 := stopHead_tail2 p63 p35 qs frag
  have hP : pathOf (path ++ (qpart qs ++ fpart frag)) = path := by
    unfold pathOf; exact takeWhile_append_stop hp t2
  have hPa : afterPath (path ++ (qpart qs ++ fpart frag)) = qpart qs ++ fpart frag := by
    unfold afterPath; exact dropWhile_append_stop hp t2
  have t3 : StopHead (notIn queryStop) (fpart frag) := by
    unfold fpart; split
    · exact stopHead_cons _ q35
    · exact stopHead_nil _
  have hQ : (queryOf (qpart qs ++ fpart frag)).getD [] = qs ∧
      (fragmentOf (afterQuery (qpart qs ++ fpart frag))).getD [] = frag := by
    have hfr : (fragmentOf (fpart frag)).getD [] = frag := by
      unfold fpart
      split
      · simp only [fragmentOf]
        have := takeWhile_append_stop (p := notIn fragStop) (a := frag) hf (stopHead_nil _)
        simp at this; simp [this]
      · rename_i h; simp at h; simp [fragmentOf, h]
    by_cases hqe : qs = []
    · subst hqe
      have hq0 : qpart [] = [] := by simp [qpart]
      rw [hq0]; simp only [List.nil_append]
      have : queryOf (fpart frag) = none ∧ afterQuery (fpart frag) = fpart frag := by
        unfold fpart; split <;> simp [queryOf, afterQuery]
      rw [this.1, this.2]; exact ⟨rfl, hfr⟩
    · have hq1 : qpart qs = 63 :: qs := by simp [qpart, hqe]
      rw [hq1]
      simp only [List.cons_append, queryOf, afterQuery]
      rw [takeWhile_append_stop hq t3, dropWhile_append_stop hq t3]
      exact ⟨rfl, hfr⟩
  exact ⟨hS, by rw [hA]; exact hAu, by rw [hA, hAa]; exact hP, by rw [hA, hAa, hPa]; exact hQ.1,
         by rw [hA, hAa, hPa]; exact hQ.2⟩


/-! ### fully quoted components -/

section quoted
variable (c : Comp) (nfc : Text → Text) (s : Text) (hs : ∀ x ∈ nfc s, isScalar x = true)
include hs

theorem quoteFull_ascii : ∀ ch ∈ quoteFull c.map nfc s, ch < 128 :=
  quoteBytes_ascii c _ (utf8_lt (nfc s) hs)

theorem quoteFull_stop : ∀ ch ∈ quoteFull c.map nfc s, (stopSet c).contains ch = false :=
  quoteBytes_stop c _ (utf8_lt (nfc s) hs)

theorem maybeUnquote_quoteFull : maybeUnquote (quoteFull c.map nfc s) = nfc s := by
  unfold maybeUnquote
  split
  · exact unquote_quoteFull c nfc s hs
  · rename_i h
    have h37 : 37 ∉ quoteFull c.map nfc s := by simpa using h
    have h1 := unquote_no_pct _ h37
    rw [unquote_quoteFull c nfc s hs] at h1
    exact h1.symm

theorem quoteFull_eq_nil (h : quoteFull c.map nfc s = []) : nfc s = [] := by
  have := unquote_quoteFull c nfc s hs
  rw [h] at this
  rw [← this]
  simp [unquote, unqGo, unqBytes_nil, decodeR_nil]

end quoted

theorem plusToSpace_id (q : Text) (h : 43 ∉ q) : plusToSpace q = q := by
  unfold plusToSpace
  induction q with
  | nil => rfl
  | cons x q ih =>
    simp only [List.mem_cons, not_or] at h
    simp only [List.map_cons]
    rw [ih h.2]
    have : x ≠ 43 := fun e => h.1 e.symm
    simp [this]

/-- membership in a stop set, unfolded for the separators each component must avoid -/
theorem stop_userinfo {ch : Nat} (h : (stopSet .userinfo).contains ch = false) :
    notIn authStop ch = true ∧ ch ≠ 64 ∧ ch ≠ 58 := by
  simp only [stopSet, List.contains_eq_mem, List.mem_append, decide_eq_false_iff_not, not_or] at h
  simp only [List.mem_cons, List.mem_nil_iff, or_false, not_or] at h
  refine ⟨by simp [notIn, h.1], h.2.1, h.2.2⟩

theorem stop_path {ch : Nat} (h : (stopSet .path).contains ch = false) :
    notIn pathStop ch = true ∧ ch ≠ 47 := by
  simp only [stopSet, List.contains_eq_mem, List.mem_append, decide_eq_false_iff_not, not_or] at h
  simp only [List.mem_cons, List.mem_nil_iff, or_false] at h
  exact ⟨by simp [notIn, h.1], h.2⟩

theorem stop_query {ch : Nat} (h : (stopSet .query).contains ch = false) :
    notIn queryStop ch = true ∧ ch ≠ 38 ∧ ch ≠ 59 ∧ ch ≠ 61 ∧ ch ≠ 43 := by
  simp only [stopSet, List.contains_eq_mem, List.mem_append, decide_eq_false_iff_not, not_or] at h
  simp only [List.mem_cons, List.mem_nil_iff, or_false, not_or] at h
  exact ⟨by simp [notIn, h.1], h.2.1, h.2.2.1, h.2.2.2.1, h.2.2.2.2⟩

theorem stop_fragment {ch : Nat} (h : (stopSet .fragment).contains ch = false) :
    notIn fragStop ch = true := by
  simp only [stopSet] at h
  simp only [notIn, h]; rfl

/-! ### intercalate -/

theorem mem_intercalate {sep x : Nat} {ls : List (List Nat)} (h : x ∈ [sep].intercalate ls) :
    x = sep ∨ ∃ l ∈ ls, x ∈ l := by
  induction ls with
  | nil => simp at h
  | cons a rest ih =>
    cases rest with
    | nil => simp at h; exact Or.inr ⟨a, by simp, h⟩
    | cons b rest =>
      rw [List.intercalate_cons_cons] at h
      simp only [List.mem_append, List.mem_singleton] at h
      rcases h with (h | h) | h
      · exact Or.inr ⟨a, by simp, h⟩
      · exact Or.inl h
      · rcases ih h with h | ⟨l, hl, hx⟩
        · exact Or.inl h
        · exact Or.inr ⟨l, by simp [hl], hx⟩

/-! ### non-ASCII characters separate the decoded runs -/

theorem unqGo_split (a b : Text) (c : Nat) (hc : ¬ c < 128) :
    ∀ acc, unqGo (a ++ c :: b) acc = unqGo a acc ++ c :: unqGo b [] := by
  induction a with
  | nil => intro acc; simp [unqGo, hc]
  | cons x a ih =>
    intro acc
    simp only [List.cons_append, unqGo]
    split
    · exact ih _
    · rw [ih []]; simp

theorem unquote_split (a b : Text) (c : Nat) (hc : 128 ≤ c) :
    unquote (a ++ c :: b) = unquote a ++ c :: unquote b := by
  unfold unquote
  exact unqGo_split a b c (by omega) []

end C06
