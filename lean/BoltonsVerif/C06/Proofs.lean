import BoltonsVerif.C06.Tables
namespace C06
open C06.Gen

/-! ### the fuel driver -/

theorem runF_fuel2 (step : Nat → List Nat → Nat × Nat) :
    ∀ (f g : Nat) (l : List Nat), l.length ≤ f → l.length ≤ g → runF step f l = runF step g l := by
  intro f
  induction f with
  | zero => intro g l h _; cases l <;> cases g <;> simp_all [runF]
  | succ f ih =>
    intro g l h hg
    cases l with
    | nil => cases g <;> simp [runF]
    | cons x rest =>
      cases g with
      | zero => simp at hg
      | succ g =>
        simp only [runF, List.length_cons] at *
        have h1 : (rest.drop (step x rest).2).length ≤ f := by
          simp only [List.length_drop]; omega
        have h2 : (rest.drop (step x rest).2).length ≤ g := by
          simp only [List.length_drop]; omega
        rw [ih _ _ h1 h2]

theorem run_nil (step : Nat → List Nat → Nat × Nat) : run step [] = [] := by
  simp [run, runF]

theorem run_cons (step : Nat → List Nat → Nat × Nat) (x : Nat) (rest : List Nat) :
    run step (x :: rest) = (step x rest).1 :: run step (rest.drop (step x rest).2) := by
  have h2 : (rest.drop (step x rest).2).length ≤ rest.length := by
    simp only [List.length_drop]; omega
  simp only [run, List.length_cons, runF]
  rw [runF_fuel2 step _ _ _ h2 (Nat.le_refl _)]

/-! ### UTF-8 -/

theorem split3 (c : Nat) : c / 4096 * 4096 + c / 64 % 64 * 64 + c % 64 = c := by omega
theorem split4 (c : Nat) :
    c / 262144 * 262144 + c / 4096 % 64 * 4096 + c / 64 % 64 * 64 + c % 64 = c := by omega

theorem decodeR_nil : decodeR [] = [] := run_nil _

theorem decodeR_utf8Char (c : Nat) (hc : isScalar c = true) (rest : Bytes) :
    decodeR (utf8Char c ++ rest) = c :: decodeR rest := by
  simp only [isScalar, Bool.or_eq_true, Bool.and_eq_true, decide_eq_true_eq] at hc
  unfold utf8Char
  by_cases h1 : c < 0x80
  · simp only [h1, if_true, List.cons_append, List.nil_append, decodeR]
    rw [run_cons]
    simp [decodeStep, h1]
  · by_cases h2 : c < 0x800
    · simp only [h1, h2, if_true, if_false, List.cons_append, List.nil_append, decodeR]
      rw [run_cons]
      have a1 : ¬ (0xC0 + c / 64 < 0x80) := by omega
      have a2 : ¬ (0xC0 + c / 64 < 0xC2) := by omega
      have a3 : 0xC0 + c / 64 < 0xE0 := by omega
      have a4 : isCont (0x80 + c % 64) = true := by simp [isCont]; omega
      have a5 : (0xC0 + c / 64 - 0xC0) * 64 + (0x80 + c % 64 - 0x80) = c := by omega
      simp [decodeStep, a1, a2, a3, a4]
      omega
    · by_cases h3 : c < 0x10000
      · simp only [h1, h2, h3, if_true, if_false, List.cons_append, List.nil_append, decodeR]
        rw [run_cons]
        have a1 : ¬ (0xE0 + c / 4096 < 0x80) := by omega
        have a2 : ¬ (0xE0 + c / 4096 < 0xC2) := by omega
        have a3 : ¬ (0xE0 + c / 4096 < 0xE0) := by omega
        have a3' : 0xE0 + c / 4096 < 0xF0 := by omega
        have a4 : isCont (0x80 + c / 64 % 64) = true := by simp [isCont]; omega
        have a4' : isCont (0x80 + c % 64) = true := by simp [isCont]; omega
        have a6 : (if 0x80 + c / 64 % 64 < 0xA0 then (0xE0 + c / 4096 == 0xE0) else (0xE0 + c / 4096 == 0xED)) = false := by
          split <;> simp <;> omega
        have a5 : (0xE0 + c / 4096 - 0xE0) * 4096 + (0x80 + c / 64 % 64 - 0x80) * 64 + (0x80 + c % 64 - 0x80) = c := by omega
        simp [decodeStep, a1, a2, a3, a3', a4, a4', a6]
        exact split3 c
      · simp only [h1, h2, h3, if_true, if_false, List.cons_append, List.nil_append, decodeR]
        rw [run_cons]
        have a1 : ¬ (0xF0 + c / 262144 < 0x80) := by omega
        have a2 : ¬ (0xF0 + c / 262144 < 0xC2) := by omega
        have a3 : ¬ (0xF0 + c / 262144 < 0xE0) := by omega
        have a3' : ¬ (0xF0 + c / 262144 < 0xF0) := by omega
        have a3'' : 0xF0 + c / 262144 < 0xF5 := by omega
        have a4 : isCont (0x80 + c / 4096 % 64) = true := by simp [isCont]; omega
        have a4' : isCont (0x80 + c / 64 % 64) = true := by simp [isCont]; omega
        have a4'' : isCont (0x80 + c % 64) = true := by simp [isCont]; omega
        have a6 : (if 0x80 + c / 4096 % 64 < 0x90 then (0xF0 + c / 262144 == 0xF0) else (0xF0 + c / 262144 == 0xF4)) = false := by
          split <;> simp <;> omega
        have a5 : (0xF0 + c / 262144 - 0xF0) * 262144 + (0x80 + c / 4096 % 64 - 0x80) * 4096
            + (0x80 + c / 64 % 64 - 0x80) * 64 + (0x80 + c % 64 - 0x80) = c := by omega
        simp [decodeStep, a1, a2, a3, a3', a3'', a4, a4', a4'', a6]
        exact split4 c



/-! ### rows of the quote maps -/

theorem entryOK_cases {c : Comp} {b : Nat} {e : List Nat} (h : entryOK c b e = true) :
    (e = [b] ∧ b ≠ 37 ∧ b < 128 ∧ legalRaw c b = true) ∨
    (∃ x y, e = [37, x, y] ∧ isUpperHex x = true ∧ isUpperHex y = true ∧ hexPair? x y = some b) := by
  unfold entryOK at h
  simp only [Bool.and_eq_true, Bool.or_eq_true] at h
  rcases h.1 with h1 | h1
  · left
    simp only [Bool.and_eq_true, beq_iff_eq, bne_iff_ne, ne_eq, decide_eq_true_eq] at h1
    exact ⟨h1.1.1.1, h1.1.1.2, h1.1.2, h1.2⟩
  · right
    match e, h1 with
    | [p, x, y], h1 =>
      simp only [Bool.and_eq_true, beq_iff_eq] at h1
      exact ⟨x, y, by rw [h1.1.1.1], h1.1.1.2, h1.1.2, h1.2⟩

theorem entryOK_stop {c : Comp} {b : Nat} {e : List Nat} (h : entryOK c b e = true) :
    ∀ ch ∈ e, (stopSet c).contains ch = false := by
  unfold entryOK at h
  simp only [Bool.and_eq_true] at h
  have h2 := h.2
  rw [List.all_eq_true] at h2
  intro ch hch
  have := h2 ch hch
  simpa using this

theorem isUpperHex_lt {x : Nat} (h : isUpperHex x = true) : x < 128 ∧ x ≠ 37 := by
  simp only [isUpperHex, Bool.or_eq_true, Bool.and_eq_true, decide_eq_true_eq] at h
  omega

/-- every character of a row is ASCII -/
theorem entryOK_ascii {c : Comp} {b : Nat} {e : List Nat} (h : entryOK c b e = true) :
    ∀ ch ∈ e, ch < 128 := by
  rcases entryOK_cases h with ⟨he, _, hb, _⟩ | ⟨x, y, he, hx, hy, _⟩
  · subst he; intro ch hch; simp at hch; omega
  · subst he
    intro ch hch
    have := isUpperHex_lt hx
    have := isUpperHex_lt hy
    simp at hch
    omega

/-! ### unquote_to_bytes -/

theorem unqBytes_nil : unqBytes [] = [] := run_nil _

theorem unqBytes_cons_ne {c : Nat} (h : c ≠ 37) (rest : Text) :
    unqBytes (c :: rest) = c :: unqBytes rest := by
  unfold unqBytes
  rw [run_cons]
  simp [unqStep, h]

theorem unqBytes_escape {x y v : Nat} (hp : hexPair? x y = some v) (rest : Text) :
    unqBytes (37 :: x :: y :: rest) = v :: unqBytes rest := by
  unfold unqBytes
  rw [run_cons]
  simp [unqStep, hp]

theorem unqBytes_entry {c : Comp} {b : Nat} {e : List Nat} (h : entryOK c b e = true) (rest : Text) :
    unqBytes (e ++ rest) = b :: unqBytes rest := by
  rcases entryOK_cases h with ⟨he, hb, _, _⟩ | ⟨x, y, he, _, _, hp⟩
  · subst he; exact unqBytes_cons_ne hb rest
  · subst he; exact unqBytes_escape hp rest

/-- percent-decoding undoes the byte-wise quoting of any byte string -/
theorem unqBytes_quoteBytes (c : Comp) (bs : Bytes) (hb : ∀ b ∈ bs, b < 256) (rest : Text) :
    unqBytes (bs.flatMap (mapGet c.map) ++ rest) = bs ++ unqBytes rest := by
  induction bs with
  | nil => simp
  | cons b bs ih =>
    simp only [List.flatMap_cons, List.append_assoc, List.cons_append]
    rw [unqBytes_entry (entryOK_of_lt c b (hb b (by simp)))]
    rw [ih (fun x hx => hb x (by simp [hx]))]

theorem quoteBytes_ascii (c : Comp) (bs : Bytes) (hb : ∀ b ∈ bs, b < 256) :
    ∀ ch ∈ bs.flatMap (mapGet c.map), ch < 128 := by
  intro ch hch
  rw [List.mem_flatMap] at hch
  obtain ⟨b, hbm, hin⟩ := hch
  exact entryOK_ascii (entryOK_of_lt c b (hb b hbm)) ch hin

theorem quoteBytes_stop (c : Comp) (bs : Bytes) (hb : ∀ b ∈ bs, b < 256) :
    ∀ ch ∈ bs.flatMap (mapGet c.map), (stopSet c).contains ch = false := by
  intro ch hch
  rw [List.mem_flatMap] at hch
  obtain ⟨b, hbm, hin⟩ := hch
  exact entryOK_stop (entryOK_of_lt c b (hb b hbm)) ch hin

theorem utf8Char_lt (c : Nat) (hc : isScalar c = true) : ∀ b ∈ utf8Char c, b < 256 := by
  simp only [isScalar, Bool.or_eq_true, Bool.and_eq_true, decide_eq_true_eq] at hc
  intro b hb
  unfold utf8Char at hb
  split at hb
  · simp at hb; omega
  · split at hb
    · simp at hb; omega
    · split at hb
      · simp at hb; omega
      · simp at hb; omega

theorem utf8_lt (s : Text) (hs : ∀ c ∈ s, isScalar c = true) : ∀ b ∈ utf8 s, b < 256 := by
  intro b hb
  unfold utf8 at hb
  rw [List.mem_flatMap] at hb
  obtain ⟨c, hc, hin⟩ := hb
  exact utf8Char_lt c (hs c hc) b hin

theorem decodeR_utf8 (s : Text) (hs : ∀ c ∈ s, isScalar c = true) (rest : Bytes) :
    decodeR (utf8 s ++ rest) = s ++ decodeR rest := by
  induction s with
  | nil => simp [utf8]
  | cons c s ih =>
    simp only [utf8, List.flatMap_cons, List.append_assoc, List.cons_append]
    rw [decodeR_utf8Char c (hs c (by simp))]
    have := ih (fun x hx => hs x (by simp [hx]))
    simp only [utf8] at this
    rw [this]

/-! ### unquote -/

theorem unqGo_ascii (q : Text) (hq : ∀ c ∈ q, c < 128) (acc : Text) :
    unqGo q acc = decodeR (unqBytes (acc.reverse ++ q)) := by
  induction q generalizing acc with
  | nil => simp [unqGo]
  | cons c q ih =>
    have hc : c < 128 := hq c (by simp)
    simp only [unqGo, hc, if_true]
    rw [ih (fun x hx => hq x (by simp [hx]))]
    simp

theorem unquote_ascii (q : Text) (hq : ∀ c ∈ q, c < 128) : unquote q = decodeR (unqBytes q) := by
  unfold unquote
  rw [unqGo_ascii q hq]
  simp

/-- `unquote(quote_X_part(s, full_quote=True)) == NFC(s)` -/
theorem unquote_quoteFull (c : Comp) (nfc : Text → Text) (s : Text)
    (hs : ∀ x ∈ nfc s, isScalar x = true) : unquote (quoteFull c.map nfc s) = nfc s := by
  unfold quoteFull
  have hb := utf8_lt (nfc s) hs
  rw [unquote_ascii _ (quoteBytes_ascii c _ hb)]
  have := unqBytes_quoteBytes c (utf8 (nfc s)) hb []
  simp only [List.append_nil, unqBytes_nil] at this
  rw [this]
  have := decodeR_utf8 (nfc s) hs []
  simpa [decodeR_nil] using this

end C06
