import BoltonsVerif.C06.Roundtrip
/-
C06 — the colon escape of `to_text` for relative references: `first.replace(':', '%3A')` on the first path
segment.  It changes nothing for the decoder (`%3A` is `:`), introduces no delimiter, and removes every raw `:`.
-/
namespace C06
open C06.Gen

theorem mem_takeWhile_true' {p : Nat → Bool} {x : Nat} {l : List Nat} (h : x ∈ l.takeWhile p) : p x = true := by
  induction l with
  | nil => simp at h
  | cons a l ih =>
    by_cases ha : p a = true
    · simp only [List.takeWhile, ha, List.mem_cons] at h
      rcases h with rfl | h
      · exact ha
      · exact ih h
    · simp [List.takeWhile, ha] at h

theorem dropWhile_head_false' {p : Nat → Bool} {x : Nat} {xs l : List Nat} (h : l.dropWhile p = x :: xs) : p x = false := by
  induction l with
  | nil => simp at h
  | cons a l ih =>
    by_cases ha : p a = true
    · simp only [List.dropWhile, ha] at h; exact ih h
    · simp only [List.dropWhile, ha] at h
      cases h
      simpa using ha

/-- `text.replace(':', '%3A')` -/
def escColon (q : Text) : Text := q.flatMap (fun c => if c = 58 then [37, 51, 65] else [c])

theorem escColon_nil : escColon [] = [] := rfl

theorem escColon_cons (c : Nat) (q : Text) :
    escColon (c :: q) = (if c = 58 then [37, 51, 65] else [c]) ++ escColon q := by
  simp [escColon]

theorem escColon_append (a b : Text) : escColon (a ++ b) = escColon a ++ escColon b := by
  simp [escColon]

theorem escColon_no_colon (q : Text) : 58 ∉ escColon q := by
  induction q with
  | nil => simp [escColon]
  | cons c q ih =>
    rw [escColon_cons]
    by_cases hc : c = 58
    · simp [hc, ih]
    · simp only [hc, if_false, List.singleton_append, List.mem_cons, not_or]
      exact ⟨fun e => hc e.symm, ih⟩

theorem escColon_mem {q : Text} {x : Nat} (h : x ∈ escColon q) : x ∈ q ∨ x = 37 ∨ x = 51 ∨ x = 65 := by
  induction q with
  | nil => simp [escColon] at h
  | cons c q ih =>
    rw [escColon_cons, List.mem_append] at h
    rcases h with h | h
    · by_cases hc : c = 58
      · simp [hc] at h; right; exact h
      · simp [hc] at h; left; simp [h]
    · rcases ih h with h' | h'
      · left; simp [h']
      · right; exact h'

theorem escColon_id {q : Text} (h : 58 ∉ q) : escColon q = q := by
  induction q with
  | nil => rfl
  | cons a l ih =>
    simp only [List.mem_cons, not_or] at h
    have ha : a ≠ 58 := fun e => h.1 e.symm
    rw [escColon_cons, ih h.2]
    simp [ha]

theorem unqSpec_pct3A (r : Text) : unqSpec (37 :: 51 :: 65 :: r) = 58 :: unqSpec r := by
  simp [unqSpec, isHexDigit, hexVal]

theorem unqSpec_pct_nohex (x y : Nat) (r : Text) (h : ¬ (isHexDigit x = true ∧ isHexDigit y = true)) :
    unqSpec (37 :: x :: y :: r) = 37 :: unqSpec (x :: y :: r) := by
  rw [unqSpec]
  simp only [Bool.and_eq_true]
  rw [if_neg h]

theorem unqSpec_ne (c : Nat) (r : Text) (h : c ≠ 37) : unqSpec (c :: r) = c :: unqSpec r := by
  rw [unqSpec.eq_def]
  split
  · rename_i heq; cases heq
  · rename_i heq; simp at heq; exact absurd heq.1 h
  · rename_i heq; simp at heq; rw [heq.1, heq.2]

theorem not_hex_37 : isHexDigit 37 = false := by decide
theorem not_hex_58 : isHexDigit 58 = false := by decide

/-- the reference decoder does not see the colon escape -/
theorem unqSpec_escColon (q : Text) : unqSpec (escColon q) = unqSpec q := by
  fun_induction unqSpec q with
  | case1 => rfl
  | case2 a b r h ih =>
    simp only [Bool.and_eq_true] at h
    have ha : a ≠ 58 := by intro e; rw [e, not_hex_58] at h; exact absurd h.1 (by simp)
    have hb : b ≠ 58 := by intro e; rw [e, not_hex_58] at h; exact absurd h.2 (by simp)
    have e : escColon (37 :: a :: b :: r) = 37 :: a :: b :: escColon r := by
      simp [escColon_cons, ha, hb]
    rw [e, unqSpec]
    simp [h.1, h.2, ih]
  | case3 a b r h ih =>
    simp only [Bool.and_eq_true] at h
    have e : escColon (37 :: a :: b :: r) = 37 :: escColon (a :: b :: r) := by simp [escColon_cons]
    rw [e]
    by_cases ha : a = 58
    · subst ha
      have e2 : escColon (58 :: b :: r) = 37 :: 51 :: 65 :: escColon (b :: r) := by simp [escColon_cons]
      rw [e2] at ih ⊢
      rw [unqSpec_pct_nohex 37 51 _ (by simp [not_hex_37]), ih]
    · by_cases hb : b = 58
      · subst hb
        have e2 : escColon (a :: 58 :: r) = a :: 37 :: 51 :: 65 :: escColon r := by simp [escColon_cons, ha]
        rw [e2] at ih ⊢
        rw [unqSpec_pct_nohex a 37 _ (by simp [not_hex_37]), ih]
      · have e2 : escColon (a :: b :: r) = a :: b :: escColon r := by simp [escColon_cons, ha, hb]
        rw [e2] at ih ⊢
        rw [unqSpec_pct_nohex a b _ h, ih]
  | case4 c rest hne ih =>
    by_cases hc : c = 58
    · subst hc
      have e : escColon (58 :: rest) = 37 :: 51 :: 65 :: escColon rest := by simp [escColon_cons]
      rw [e, unqSpec_pct3A, ih]
    · have e : escColon (c :: rest) = c :: escColon rest := by simp [escColon_cons, hc]
      rw [e]
      by_cases h37 : c = 37
      · subst h37
        match rest, hne, ih with
        | [], _, _ => simp [escColon, unqSpec]
        | [x], _, _ =>
          by_cases hx : x = 58
          · subst hx; simp [escColon, unqSpec, isHexDigit, hexVal]
          · have : escColon [x] = [x] := by simp [escColon, hx]
            rw [this]
            simp [unqSpec]
        | x :: y :: r, hne, _ => exact absurd rfl (hne x y r rfl)
      · rw [unqSpec_ne c _ h37, ih]

theorem escColon_ascii {q : Text} (h : ∀ c ∈ q, c < 128) : ∀ c ∈ escColon q, c < 128 := by
  intro c hc
  rcases escColon_mem hc with h' | h' | h' | h'
  · exact h c h'
  all_goals omega

/-- `unquote` does not see the colon escape: ASCII text … -/
theorem unquote_escColon_ascii (q : Text) (h : ∀ c ∈ q, c < 128) : unquote (escColon q) = unquote q := by
  rw [unquote_ascii _ (escColon_ascii h), unquote_ascii _ h, unqBytes_eq_spec, unqBytes_eq_spec, unqSpec_escColon]

/-- … and any text (non-ASCII characters separate what is decoded) -/
theorem unquote_escColon (q : Text) : unquote (escColon q) = unquote q := by
  suffices H : ∀ n (q : Text), q.length ≤ n → unquote (escColon q) = unquote q from H q.length q (Nat.le_refl _)
  intro n
  induction n with
  | zero =>
    intro q hq
    have : q = [] := List.length_eq_zero_iff.mp (Nat.le_zero.mp hq)
    subst this; rfl
  | succ n ih =>
    intro q hq
    by_cases hall : ∀ c ∈ q, c < 128
    · exact unquote_escColon_ascii q hall
    · -- split at the first non-ASCII character
      have hsplit : q = q.takeWhile (fun c => decide (c < 128)) ++ q.dropWhile (fun c => decide (c < 128)) :=
        (List.takeWhile_append_dropWhile).symm
      cases hd : q.dropWhile (fun c => decide (c < 128)) with
      | nil =>
        exfalso
        apply hall
        intro c hc
        have : q.takeWhile (fun c => decide (c < 128)) = q := by
          rw [hd, List.append_nil] at hsplit; exact hsplit.symm
        rw [← this] at hc
        have := mem_takeWhile_true' hc
        simpa using this
      | cons c b =>
        have hc : 128 ≤ c := by
          have := dropWhile_head_false' hd
          simp at this; omega
        have ha : ∀ x ∈ q.takeWhile (fun c => decide (c < 128)), x < 128 := by
          intro x hx
          have := mem_takeWhile_true' hx
          simpa using this
        rw [hd] at hsplit
        have hlen : b.length ≤ n := by
          have : q.length = (q.takeWhile (fun c => decide (c < 128))).length + (b.length + 1) := by
            conv => lhs; rw [hsplit]
            simp
          omega
        have hc58 : c ≠ 58 := by omega
        rw [hsplit, escColon_append, escColon_cons]
        simp only [hc58, if_false, List.singleton_append]
        rw [unquote_split _ _ c hc, unquote_split _ _ c hc, unquote_escColon_ascii _ ha, ih b hlen]

end C06
