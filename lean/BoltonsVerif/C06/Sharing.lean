import BoltonsVerif.C06.Model
/-
C06 - URL objects as the interpreter has them: every object REFERS to a query dictionary, dictionaries are mutable
cells.  The rest of the model treats URL objects as independent values; this file says when that is justified:
as long as every way of making a URL object out of another one (`URL(url)`, `URL.from_parts(query_params=other.query_params)`,
`url.navigate(ref)`) puts the parameters into a dictionary of its own, no two live objects refer to the same cell
(`Unshared`), and then an in-place edit of one object's query is invisible in every other object (`qadd_local`).
Which of the three edges copy is a FACT ABOUT THE CODE: `Gen.fromPartsCopiesQuery`, `Gen.navigateCopiesQuery`,
`Gen.urlCopyCopiesQuery` are regenerated on every run by exercising the current source (edit the derived object, look at
the base, and the other way round); the theorems in Props need all three to be `true`.
-/
namespace C06

abbrev Param := Text × Option Text
abbrev Query := List Param

/-- `objs[i]` = the cell that URL object `i` refers to; `next` = the first cell not yet handed out -/
structure Store where
  dict : Nat → Query
  next : Nat
  objs : List Nat

namespace Store

def empty : Store := ⟨fun _ => [], 0, []⟩

/-- what `list(objs[i].query_params.items(multi=True))` reads -/
def query (s : Store) (i : Nat) : Query :=
  match s.objs[i]? with
  | some q => s.dict q
  | none => []

/-- `objs[i].query_params.add(k, v)`: the CELL is edited -/
def qadd (s : Store) (i : Nat) (kv : Param) : Store :=
  match s.objs[i]? with
  | some q => { s with dict := fun n => if n = q then s.dict q ++ [kv] else s.dict n }
  | none => s

/-- `URL(text)`, `URL()`, `from_parts(query_params=[pairs])`: a new object with a cell of its own -/
def fresh (s : Store) (q0 : Query) : Store :=
  { dict := fun n => if n = s.next then q0 else s.dict n, next := s.next + 1, objs := s.objs ++ [s.next] }

/-- a new object that takes its parameters over from object `j`: copied into a cell of its own (`copies = true`), or
    by installing the very same cell -/
def derive (copies : Bool) (s : Store) (j : Nat) : Store :=
  match s.objs[j]? with
  | some q => if copies then s.fresh (s.dict q) else { s with objs := s.objs ++ [q] }
  | none => s

/-- no two objects refer to the same cell, every cell in use has been handed out -/
def Unshared (s : Store) : Prop :=
  (∀ i j qi qj : Nat, s.objs[i]? = some qi → s.objs[j]? = some qj → i ≠ j → qi ≠ qj) ∧
  (∀ i q : Nat, s.objs[i]? = some q → q < s.next)

theorem empty_unshared : Unshared empty := by
  constructor <;> intro i <;> simp [empty]

theorem fresh_unshared (s : Store) (q0 : Query) (h : Unshared s) : Unshared (s.fresh q0) := by
  obtain ⟨h1, h2⟩ := h
  constructor
  · intro i j qi qj hi hj hij
    simp only [fresh, List.getElem?_append] at hi hj
    split at hi <;> split at hj
    · exact h1 i j qi qj hi hj hij
    · have := h2 i qi hi
      have hj' : qj = s.next := by
        rcases Nat.eq_zero_or_pos (j - s.objs.length) with h0 | h0
        · simp [h0] at hj; exact hj.symm
        · rw [List.getElem?_eq_none (by simp; omega)] at hj; cases hj
      omega
    · have := h2 j qj hj
      have hi' : qi = s.next := by
        rcases Nat.eq_zero_or_pos (i - s.objs.length) with h0 | h0
        · simp [h0] at hi; exact hi.symm
        · rw [List.getElem?_eq_none (by simp; omega)] at hi; cases hi
      omega
    · exfalso
      rcases Nat.eq_zero_or_pos (i - s.objs.length) with h0 | h0
      · rcases Nat.eq_zero_or_pos (j - s.objs.length) with h0' | h0'
        · omega
        · rw [List.getElem?_eq_none (by simp; omega)] at hj; cases hj
      · rw [List.getElem?_eq_none (by simp; omega)] at hi; cases hi
  · intro i q hi
    simp only [fresh, List.getElem?_append] at hi
    split at hi
    · have := h2 i q hi; simp [fresh]; omega
    · rcases Nat.eq_zero_or_pos (i - s.objs.length) with h0 | h0
      · simp [h0] at hi; simp [fresh]; omega
      · rw [List.getElem?_eq_none (by simp; omega)] at hi; cases hi

theorem derive_unshared (s : Store) (j : Nat) (h : Unshared s) : Unshared (s.derive true j) := by
  unfold derive
  split
  · simpa using fresh_unshared s _ h
  · exact h

theorem qadd_unshared (s : Store) (i : Nat) (kv : Param) (h : Unshared s) : Unshared (s.qadd i kv) := by
  unfold qadd
  split
  · exact ⟨h.1, h.2⟩
  · exact h

/-- an edit of object `i` is invisible in every other object -/
theorem qadd_local (s : Store) (i j : Nat) (kv : Param) (h : Unshared s) (hij : i ≠ j) :
    (s.qadd i kv).query j = s.query j := by
  unfold qadd
  split
  · next q hq =>
    unfold query
    simp only
    split
    · next q' hq' =>
      have := h.1 i j q q' hq hq' hij
      simp [Ne.symm this]
    · rfl
  · rfl

/-- ... and is what the object itself reads afterwards -/
theorem qadd_self (s : Store) (i : Nat) (kv : Param) (q : Nat) (hq : s.objs[i]? = some q) :
    (s.qadd i kv).query i = s.query i ++ [kv] := by
  simp [qadd, query, hq]

/-- the derived object starts with the parameters of the object it was made from -/
theorem derive_takes_over (copies : Bool) (s : Store) (j : Nat) (hj : j < s.objs.length) :
    (s.derive copies j).query s.objs.length = s.query j := by
  have hq : s.objs[j]? = some s.objs[j] := by simp [hj]
  cases copies <;> simp [derive, query, hq, fresh]

/-- why the copy matters: an edge that installs the same cell lets an edit of the derived object show in the base -/
theorem shared_leaks (kv : Param) :
    ((((empty.fresh []).derive false 0).qadd 1 kv).query 0) = [kv] := by
  simp [empty, fresh, derive, qadd, query]

end Store

/-- the ways a URL object is made -/
inductive Edge where
  | urlCopy | fromParts | navigate
deriving DecidableEq

/-- does the edge copy the parameters? - read off the current source by the translator -/
def Edge.copies : Edge → Bool
  | .urlCopy => Gen.urlCopyCopiesQuery
  | .fromParts => Gen.fromPartsCopiesQuery
  | .navigate => Gen.navigateCopiesQuery

/-- a history of constructions and edits -/
inductive Op where
  | fresh (q0 : Query)
  | derive (e : Edge) (j : Nat)
  | qadd (i : Nat) (kv : Param)

def Store.step (s : Store) : Op → Store
  | .fresh q0 => s.fresh q0
  | .derive e j => s.derive e.copies j
  | .qadd i kv => s.qadd i kv

def Store.run (ops : List Op) : Store := ops.foldl Store.step Store.empty

theorem edges_all_copy : ∀ e : Edge, e.copies = true := by
  intro e; cases e <;> decide

theorem run_unshared (ops : List Op) : (Store.run ops).Unshared := by
  unfold Store.run
  suffices h : ∀ s : Store, s.Unshared → (ops.foldl Store.step s).Unshared from h _ Store.empty_unshared
  induction ops with
  | nil => intro s hs; exact hs
  | cons op rest ih =>
    intro s hs
    apply ih
    cases op with
    | fresh q0 => exact Store.fresh_unshared s q0 hs
    | derive e j => simp only [Store.step, edges_all_copy e]; exact Store.derive_unshared s j hs
    | qadd i kv => exact Store.qadd_unshared s i kv hs

end C06
