import BoltonsVerif.C06.Authority
/-
C06 — render → parse round trip of a whole URL, for both quoting modes.

The component lemmas are stated once, for an arbitrary quoting mode, in terms of `Quoted c q d`:
"`q` contains no delimiter of position `c` and unquotes to `d`".  Full quoting provides
`Quoted c (quote s) (nfc s)` for every text; minimal quoting provides `Quoted c (quote s) s` for
every text without `%`.
-/
deriving instance DecidableEq for Except

namespace C06
open C06.Gen

/-! ### faithful quotings -/

/-- `q` is a faithful quoting, for position `c`, of the decoded text `d` -/
structure Quoted (c : Comp) (q d : Text) : Prop where
  stop : ∀ ch ∈ q, (stopSet c).contains ch = false
  unq : unquote q = d

theorem unquote_nil : unquote [] = [] := by
  simp [unquote, unqGo, unqBytes_nil, decodeR_nil]

theorem Quoted.munq {c : Comp} {q d : Text} (h : Quoted c q d) : maybeUnquote q = d := by
  unfold maybeUnquote
  split
  · exact h.unq
  · rename_i h37
    have : 37 ∉ q := by simpa using h37
    rw [← h.unq, unquote_no_pct q this]

theorem Quoted.eq_nil {c : Comp} {q d : Text} (h : Quoted c q d) (hq : q = []) : d = [] := by
  rw [← h.unq, hq, unquote_nil]

theorem quoted_full (c : Comp) (nfc : Text → Text) (s : Text) (hs : ∀ x ∈ nfc s, isScalar x = true) :
    Quoted c (quotePart c nfc true s) (nfc s) :=
  ⟨by simpa [quotePart] using quoteFull_stop c nfc s hs, by simpa [quotePart] using unquote_quoteFull c nfc s hs⟩

/-! ### minimal quoting -/

/-- every delimiter of the parser at a position is in the set minimal quoting escapes there -/
theorem stop_sub_delims (c : Comp) : (stopSet c).all (fun x => c.delims.contains x) = true := by
  cases c <;> decide

theorem delims_lt {c : Comp} {t : Nat} (h : c.delims.contains t = true) : t < 128 := by
  have := delimsOK_all c
  unfold delimsOK at this
  rw [List.all_eq_true] at this
  have := this t (by simpa using h)
  simp only [Bool.and_eq_true, decide_eq_true_eq] at this
  exact this.1

/-- the piece minimal quoting emits for one character -/
def minPiece (c : Comp) (t : Nat) : Text := if c.delims.contains t then mapGet c.map t else [t]

theorem quoteMin_cons (c : Comp) (t : Nat) (s : Text) :
    quoteMin c.map c.delims (t :: s) = minPiece c t ++ quoteMin c.map c.delims s := by
  simp [quoteMin, minPiece]

theorem minPiece_stop (c : Comp) (t : Nat) : ∀ ch ∈ minPiece c t, (stopSet c).contains ch = false := by
  intro ch hch
  unfold minPiece at hch
  split at hch
  · rename_i hd
    exact entryOK_stop (entryOK_of_lt c t (by have := delims_lt hd; omega)) ch hch
  · rename_i hd
    simp only [List.mem_singleton] at hch
    subst hch
    have := stop_sub_delims c
    rw [List.all_eq_true] at this
    cases hs : (stopSet c).contains ch with
    | false => rfl
    | true => exact absurd (this ch (by simpa using hs)) hd

theorem quoteMin_stop (c : Comp) (s : Text) :
    ∀ ch ∈ quoteMin c.map c.delims s, (stopSet c).contains ch = false := by
  induction s with
  | nil => intro ch h; simp [quoteMin] at h
  | cons t s ih =>
    intro ch hch
    rw [quoteMin_cons, List.mem_append] at hch
    rcases hch with h | h
    · exact minPiece_stop c t ch h
    · exact ih ch h

theorem minPiece_ascii (c : Comp) (t : Nat) (ht : t < 128) : ∀ ch ∈ minPiece c t, ch < 128 := by
  intro ch hch
  unfold minPiece at hch
  split at hch
  · exact entryOK_ascii (entryOK_of_lt c t (by omega)) ch hch
  · simp only [List.mem_singleton] at hch; omega

theorem unqBytes_minPiece (c : Comp) (t : Nat) (ht : t < 128) (h37 : t ≠ 37) (rest : Text) :
    unqBytes (minPiece c t ++ rest) = t :: unqBytes rest := by
  unfold minPiece
  split
  · exact unqBytes_entry (entryOK_of_lt c t (by omega)) rest
  · exact unqBytes_cons_ne h37 rest

/-- an ASCII prefix without `%`, minimally quoted, percent-decodes to itself -/
theorem unqBytes_quoteMin_ascii (c : Comp) (a : Text) (ha : ∀ x ∈ a, x < 128) (hp : 37 ∉ a) (rest : Text) :
    unqBytes (quoteMin c.map c.delims a ++ rest) = a ++ unqBytes rest := by
  induction a with
  | nil => simp [quoteMin]
  | cons t a ih =>
    simp only [List.mem_cons, not_or] at hp
    rw [quoteMin_cons, List.append_assoc, unqBytes_minPiece c t (ha t (by simp)) (fun e => hp.1 e.symm)]
    rw [ih (fun x hx => ha x (by simp [hx])) hp.2]
    rfl

theorem unqGo_ascii_prefix (p rest acc : Text) (hp : ∀ x ∈ p, x < 128) :
    unqGo (p ++ rest) acc = unqGo rest (p.reverse ++ acc) := by
  induction p generalizing acc with
  | nil => rfl
  | cons x p ih =>
    have hx : x < 128 := hp x (by simp)
    simp only [List.cons_append, unqGo, hx, if_true]
    rw [ih (x :: acc) (fun y hy => hp y (by simp [hy]))]
    simp

/-- the loop of `unquote` over a minimally quoted text: `a` is the (decoded) ASCII run in progress -/
theorem unqGo_quoteMin (c : Comp) (s : Text) (hs : 37 ∉ s) :
    ∀ a : Text, (∀ x ∈ a, x < 128) → 37 ∉ a →
      unqGo (quoteMin c.map c.delims s) (quoteMin c.map c.delims a).reverse = a ++ s := by
  induction s with
  | nil =>
    intro a ha hp
    have h := unqBytes_quoteMin_ascii c a ha hp []
    simp only [List.append_nil, unqBytes_nil] at h
    simp only [quoteMin, List.flatMap_nil, unqGo, List.reverse_reverse, List.append_nil]
    have h' : unqBytes (List.flatMap (fun t => if c.delims.contains t = true then mapGet c.map t else [t]) a) = a := h
    rw [h', decodeR_ascii a ha]
  | cons t s ih =>
    intro a ha hp
    simp only [List.mem_cons, not_or] at hs
    by_cases ht : t < 128
    · rw [quoteMin_cons, unqGo_ascii_prefix _ _ _ (minPiece_ascii c t ht)]
      have e : (minPiece c t).reverse ++ (quoteMin c.map c.delims a).reverse
          = (quoteMin c.map c.delims (a ++ [t])).reverse := by
        simp [quoteMin, minPiece]
      rw [e, ih hs.2 (a ++ [t]) (by
            intro x hx
            simp only [List.mem_append, List.mem_singleton] at hx
            rcases hx with hx | rfl
            · exact ha x hx
            · exact ht)
          (by
            simp only [List.mem_append, List.mem_singleton, not_or]
            exact ⟨hp, hs.1⟩)]
      simp
    · have hd : c.delims.contains t = false := by
        cases h : c.delims.contains t with
        | false => rfl
        | true => exact absurd (delims_lt h) ht
      have e : quoteMin c.map c.delims (t :: s) = t :: quoteMin c.map c.delims s := by
        rw [quoteMin_cons]; unfold minPiece; rw [hd]; rfl
      rw [e]
      simp only [unqGo, ht, if_false, List.reverse_reverse]
      have h := unqBytes_quoteMin_ascii c a ha hp []
      simp only [List.append_nil, unqBytes_nil] at h
      rw [h, decodeR_ascii a ha]
      have := ih hs.2 [] (by simp) (by simp)
      simp only [quoteMin, List.flatMap_nil, List.reverse_nil, List.nil_append] at this
      have this' : unqGo (quoteMin c.map c.delims s) [] = s := this
      rw [this']

/-- `unquote` undoes minimal quoting of any text without `%` (non-ASCII characters stay raw) -/
theorem unquote_quoteMin (c : Comp) (s : Text) (hs : 37 ∉ s) : unquote (quoteMin c.map c.delims s) = s := by
  have := unqGo_quoteMin c s hs [] (by simp) (by simp)
  simpa [unquote, quoteMin] using this

theorem quoted_min (c : Comp) (nfc : Text → Text) (s : Text) (hs : 37 ∉ s) :
    Quoted c (quotePart c nfc false s) s :=
  ⟨by simpa [quotePart] using quoteMin_stop c s, by simpa [quotePart] using unquote_quoteMin c s hs⟩

/-! ### path: render, split, decode (either quoting mode; `D` = what a segment decodes to) -/

section components
variable (env : Env) (full : Bool) (D : Text → Text)

theorem pathText_parts (parts : List Text) (hne : parts ≠ [])
    (hq : ∀ s ∈ parts, Quoted .path (quotePart .path env.nfc full s) (D s)) :
    ((pathText env full parts).splitOn 47).map maybeUnquote = parts.map D := by
  unfold pathText
  rw [List.splitOn_intercalate]
  · rw [List.map_map]
    apply List.map_congr_left
    intro s hsm
    exact (hq s hsm).munq
  · intro l hl
    rw [List.mem_map] at hl
    obtain ⟨s, hsm, rfl⟩ := hl
    intro h47
    exact (stop_path ((hq s hsm).stop 47 h47)).2 rfl
  · simpa using hne

theorem pathText_chars (parts : List Text)
    (hq : ∀ s ∈ parts, Quoted .path (quotePart .path env.nfc full s) (D s)) :
    ∀ ch ∈ pathText env full parts, notIn pathStop ch = true := by
  intro ch hch
  unfold pathText at hch
  rcases mem_intercalate hch with h | ⟨l, hl, hx⟩
  · subst h; exact stops_ok.2.2.2.2.2.2.1
  · rw [List.mem_map] at hl
    obtain ⟨s, hsm, rfl⟩ := hl
    exact (stop_path ((hq s hsm).stop ch hx)).1

theorem pathText_abs (hnil : quotePart .path env.nfc full [] = []) (rest : List Text) :
    pathText env full ([] :: rest) = [] ∨ (pathText env full ([] :: rest)).head? = some 47 := by
  unfold pathText
  cases rest with
  | nil => left; simp [hnil]
  | cons b rest =>
    right
    simp only [List.map_cons]
    rw [List.intercalate_cons_cons, hnil]
    simp

/-! ### query: render, split, decode -/

/-- both halves of a query pair are faithfully quoted -/
def PairQ (kv : Text × Option Text) : Prop :=
  Quoted .query (quotePart .query env.nfc full kv.1) (D kv.1) ∧
  ∀ v, kv.2 = some v → Quoted .query (quotePart .query env.nfc full v) (D v)

def decPair (kv : Text × Option Text) : Text × Option Text := (D kv.1, kv.2.map D)

theorem pairText_chars (kv : Text × Option Text) (hq : PairQ env full D kv) :
    ∀ ch ∈ pairText env full kv, notIn queryStop ch = true ∧ ch ≠ 38 ∧ ch ≠ 59 ∧ ch ≠ 43 := by
  intro ch hch
  obtain ⟨k, v⟩ := kv
  cases v with
  | none =>
    simp only [pairText] at hch
    have := stop_query (hq.1.stop ch hch)
    exact ⟨this.1, this.2.1, this.2.2.1, this.2.2.2.2⟩
  | some v =>
    simp only [pairText, List.mem_append, List.mem_cons] at hch
    rcases hch with h | h | h
    · have := stop_query (hq.1.stop ch h)
      exact ⟨this.1, this.2.1, this.2.2.1, this.2.2.2.2⟩
    · subst h; exact ⟨stops_ok.2.2.2.2.2.2.2.2.2, by decide, by decide, by decide⟩
    · have := stop_query ((hq.2 v rfl).stop ch h)
      exact ⟨this.1, this.2.1, this.2.2.1, this.2.2.2.2⟩

theorem parsePair_pairText (kv : Text × Option Text) (hq : PairQ env full D kv) :
    parsePair (pairText env full kv) = decPair D kv := by
  obtain ⟨k, v⟩ := kv
  have hk := hq.1.stop
  have hk61 : ∀ x ∈ quotePart .query env.nfc full k, x ≠ 61 := fun x hx => (stop_query (hk x hx)).2.2.2.1
  have hk43 : 43 ∉ quotePart .query env.nfc full k := fun h => (stop_query (hk 43 h)).2.2.2.2 rfl
  have huk := hq.1.unq
  cases v with
  | none =>
    have hpt : pairText env full (k, none) = quotePart .query env.nfc full k := rfl
    rw [hpt]
    unfold parsePair decPair
    have hc : (quotePart .query env.nfc full k).contains 61 = false := by
      simp only [List.contains_eq_mem, decide_eq_false_iff_not]
      intro h; exact hk61 61 h rfl
    rw [before_none hk61, plusToSpace_id _ hk43, huk]
    simp only [hc]
    simp
  | some v =>
    have hv := (hq.2 v rfl).stop
    have hv43 : 43 ∉ quotePart .query env.nfc full v := fun h => (stop_query (hv 43 h)).2.2.2.2 rfl
    have huv := (hq.2 v rfl).unq
    have hpt : pairText env full (k, some v) =
        quotePart .query env.nfc full k ++ 61 :: quotePart .query env.nfc full v := rfl
    rw [hpt]
    unfold parsePair decPair
    have hc : (quotePart .query env.nfc full k ++ 61 :: quotePart .query env.nfc full v).contains 61 = true := by simp
    simp only [before_append hk61, after_append hk61, plusToSpace_id _ hk43, huk, plusToSpace_id _ hv43, huv, hc,
      if_true, Option.map_some]
    split
    · rename_i h
      rw [(hq.2 v rfl).eq_nil h]
    · rfl

theorem pairText_ne_nil (kv : Text × Option Text) (hq : PairQ env full D kv)
    (hok : ¬ (D kv.1 = [] ∧ kv.2 = none)) : pairText env full kv ≠ [] := by
  obtain ⟨k, v⟩ := kv
  cases v with
  | none =>
    simp only [pairText]
    intro h
    exact hok ⟨hq.1.eq_nil h, rfl⟩
  | some v => simp [pairText]

theorem flatMap_splitOn_single (ls : List Text) (h : ∀ l ∈ ls, 59 ∉ l) :
    ls.flatMap (fun s => s.splitOn 59) = ls := by
  induction ls with
  | nil => rfl
  | cons a rest ih =>
    simp only [List.flatMap_cons]
    rw [List.splitOn_eq_singleton (h a (by simp)), ih (fun l hl => h l (by simp [hl]))]
    rfl

theorem parseQsl_nil : parseQsl [] = [] := by
  simp [parseQsl, nonEmpty]

theorem parseQsl_queryText (q : List (Text × Option Text))
    (hq : ∀ kv ∈ q, PairQ env full D kv)
    (hok : ∀ kv ∈ q, ¬ (D kv.1 = [] ∧ kv.2 = none)) :
    parseQsl (queryText env full q) = q.map (decPair D) := by
  by_cases hqe : q = []
  · subst hqe; simp [queryText, parseQsl_nil]
  · unfold parseQsl queryText
    rw [List.splitOn_intercalate]
    · rw [flatMap_splitOn_single]
      · have hf : (q.map (pairText env full)).filter nonEmpty = q.map (pairText env full) := by
          rw [List.filter_eq_self]
          intro l hl
          rw [List.mem_map] at hl
          obtain ⟨kv, hkv, rfl⟩ := hl
          have := pairText_ne_nil env full D kv (hq kv hkv) (hok kv hkv)
          cases hp : pairText env full kv with
          | nil => exact absurd hp this
          | cons _ _ => simp [nonEmpty]
        rw [hf, List.map_map]
        apply List.map_congr_left
        intro kv hkv
        exact parsePair_pairText env full D kv (hq kv hkv)
      · intro l hl
        rw [List.mem_map] at hl
        obtain ⟨kv, hkv, rfl⟩ := hl
        intro h59
        exact (pairText_chars env full D kv (hq kv hkv) 59 h59).2.2.1 rfl
    · intro l hl
      rw [List.mem_map] at hl
      obtain ⟨kv, hkv, rfl⟩ := hl
      intro h38
      exact (pairText_chars env full D kv (hq kv hkv) 38 h38).2.1 rfl
    · simpa using hqe

theorem queryText_chars (q : List (Text × Option Text)) (hq : ∀ kv ∈ q, PairQ env full D kv) :
    ∀ ch ∈ queryText env full q, notIn queryStop ch = true := by
  intro ch hch
  unfold queryText at hch
  rcases mem_intercalate hch with h | ⟨l, hl, hx⟩
  · subst h; exact stops_ok.2.2.2.2.2.2.2.2.1
  · rw [List.mem_map] at hl
    obtain ⟨kv, hkv, rfl⟩ := hl
    exact (pairText_chars env full D kv (hq kv hkv) ch hx).1

/-! ### the whole URL -/

/-- "a valid scheme, host and port", an absolute path, no (empty key, no value) parameter, and every
    component faithfully quoted in the mode at hand (`D` = what it decodes to) -/
structure WFq (u : URL) : Prop where
  scheme_ok : ∀ c ∈ u.scheme, notIn schemeStop c = true
  host_ne : u.host ≠ []
  host_form : HostOK env full u
  idna_dec : isAsciiText u.host = true → env.idnaDec u.host = some u.host
  port_ok : PortNat u
  path_abs : ∃ rest, u.pathParts = [] :: rest
  query_ok : ∀ kv ∈ u.query, ¬ (D kv.1 = [] ∧ kv.2 = none)
  user_scalar : ∀ x ∈ env.nfc u.username, isScalar x = true
  pw_scalar : ∀ x ∈ env.nfc u.password, isScalar x = true
  q_nil : quotePart .path env.nfc full [] = []
  q_parts : ∀ s ∈ u.pathParts, Quoted .path (quotePart .path env.nfc full s) (D s)
  q_query : ∀ kv ∈ u.query, PairQ env full D kv
  q_frag : Quoted .fragment (quotePart .fragment env.nfc full u.fragment) (D u.fragment)

/-- what comes back: userinfo NFC-normalised (it is always fully quoted), the other texts decoded,
    the `//` remembered; scheme, host, family unchanged; the port unchanged unless it is zero or the scheme's
    default (`portBack`: those are not rendered) -/
def normalG (u : URL) : URL :=
  { u with netlocSep := true
           port := portBack u
           username := env.nfc u.username
           password := env.nfc u.password
           pathParts := u.pathParts.map D
           query := u.query.map (decPair D)
           fragment := D u.fragment }

/-- the rendered text, spelled out -/
def urlText (u : URL) : Text :=
  spart u.scheme ++ 47 :: 47 :: ((uiText env u ++ hostinfo u) ++
    (pathText env full u.pathParts ++ (qpart (queryText env full u.query) ++
      fpart (quotePart .fragment env.nfc full u.fragment))))

theorem toText_urlText (u : URL) (hW : WFq env full D u) : toText env full u = .ok (urlText env full u) := by
  obtain ⟨rest, hrest⟩ := hW.path_abs
  have hf := hostFacts_of_ok env full u hW.host_ne hW.port_ok hW.host_form
  unfold toText
  rw [authority_any env full u hW.host_ne hW.host_form]
  have hauth : uiText env u ++ hostinfo u ≠ [] := by simp [hf.ne]
  simp only [hauth, and_false, if_false]
  congr 1
  have hpath := pathText_abs env full hW.q_nil rest
  rw [← hrest] at hpath
  unfold assemble urlText qpart fpart spart
  simp only [ne_eq, hauth, not_false_eq_true, if_true]
  have hp : (if ¬ pathText env full u.pathParts = [] then
      (if ¬ u.scheme = [] ∧ True ∧ ¬ (pathText env full u.pathParts).head? = some 47 then 47 :: pathText env full u.pathParts
       else pathText env full u.pathParts) else []) = pathText env full u.pathParts := by
    rcases hpath with h | h
    · simp [h]
    · simp [h]
  rw [hp]
  by_cases hsn : u.scheme = [] <;> simp [hsn, List.append_assoc]

theorem urlText_scanned (u : URL) (hW : WFq env full D u) :
    Scanned (urlText env full u) u.scheme (uiText env u ++ hostinfo u)
      (pathText env full u.pathParts) (queryText env full u.query)
      (quotePart .fragment env.nfc full u.fragment) := by
  obtain ⟨rest, hrest⟩ := hW.path_abs
  have hpath := pathText_abs env full hW.q_nil rest
  rw [← hrest] at hpath
  exact scan_composed _ _ _ _ _ hW.scheme_ok
    (authText_chars env u (hostFacts_of_ok env full u hW.host_ne hW.port_ok hW.host_form)
      hW.user_scalar hW.pw_scalar)
    (pathText_chars env full D u.pathParts hW.q_parts) hpath
    (queryText_chars env full D u.query hW.q_query)
    (fun c hc => stop_fragment (hW.q_frag.stop c hc))

/-- parsing the rendering gives the URL back, decoded -/
theorem ofText_urlText (u : URL) (hW : WFq env full D u) (hnil : env.nfc [] = []) :
    URL.ofText env (urlText env full u) = .ok (normalG env D u) := by
  have hS := urlText_scanned env full D u hW
  have hf := hostFacts_of_ok env full u hW.host_ne hW.port_ok hW.host_form
  obtain ⟨rest, hrest⟩ := hW.path_abs
  unfold URL.ofText
  simp only [hS.scheme, hS.auth, hS.path, hS.query, hS.frag, Option.getD_some, Option.isSome_some]
  rw [parseAuthority_render env u hf hW.user_scalar hW.pw_scalar]
  have hdec : (if u.host = [] then some [] else if isAsciiText u.host = true then env.idnaDec u.host else some u.host)
      = some u.host := by
    rw [if_neg hW.host_ne]
    by_cases ha : isAsciiText u.host = true
    · rw [if_pos ha]; exact hW.idna_dec ha
    · rw [if_neg ha]
  simp only [hdec]
  have hparts : u.pathParts ≠ [] := by rw [hrest]; simp
  rw [pathText_parts env full D u.pathParts hparts hW.q_parts]
  rw [parseQsl_queryText env full D u.query hW.q_query hW.query_ok]
  rw [hW.q_frag.munq]
  have hun : maybeUnquote (if u.username ≠ [] ∨ u.password ≠ [] then quoteFull userinfoMap env.nfc u.username else [])
      = env.nfc u.username := by
    split
    · exact maybeUnquote_quoteFull .userinfo env.nfc u.username hW.user_scalar
    · rename_i h
      simp only [not_or, ne_eq, Classical.not_not] at h
      rw [h.1, hnil]; rfl
  have hpw : maybeUnquote (if u.password ≠ [] then quoteFull userinfoMap env.nfc u.password else [])
      = env.nfc u.password := by
    split
    · exact maybeUnquote_quoteFull .userinfo env.nfc u.password hW.pw_scalar
    · rename_i h
      simp only [ne_eq, Classical.not_not] at h
      rw [h, hnil]; rfl
  rw [hun, hpw]
  rfl

end components

/-! ### rendering the parsed-back URL again -/

/-- what the fixed-point theorems assume of the normaliser (all true of Unicode NFC) -/
structure NfcLaws (nfc : Text → Text) : Prop where
  nil : nfc [] = []
  idem : ∀ s, nfc (nfc s) = nfc s
  ne_nil : ∀ s, nfc s = [] → s = []

theorem quoteFull_idem (m : List (List Nat)) {nfc : Text → Text} (hid : ∀ s, nfc (nfc s) = nfc s) (s : Text) :
    quoteFull m nfc (nfc s) = quoteFull m nfc s := by
  simp [quoteFull, hid]

theorem nfc_ne_iff {nfc : Text → Text} (hl : NfcLaws nfc) (s : Text) : nfc s ≠ [] ↔ s ≠ [] := by
  constructor
  · intro h e; rw [e, hl.nil] at h; exact h rfl
  · intro h e; exact h (hl.ne_nil s e)

section fixed
variable (env : Env) (full : Bool) (D : Text → Text) (hl : NfcLaws env.nfc)
  (hD : ∀ (c : Comp) (s : Text), quotePart c env.nfc full (D s) = quotePart c env.nfc full s)
  (hDD : ∀ s, D (D s) = D s) (hDnil : D [] = [])

include hl in
theorem normalG_uiText (u : URL) : uiText env (normalG env D u) = uiText env u := by
  unfold uiText normalG
  simp only [quoteFull_idem _ hl.idem, nfc_ne_iff hl]

include hD in
theorem normalG_pairText (kv : Text × Option Text) :
    pairText env full (decPair D kv) = pairText env full kv := by
  obtain ⟨k, v⟩ := kv
  cases v <;> simp [pairText, decPair, hD]

theorem normalG_hostinfo (u : URL) : hostinfo (normalG env D u) = hostinfo u := by
  have hp : portText (normalG env D u) = portText u := by
    unfold portText normalG portBack
    cases hport : u.port with
    | none => rfl
    | some p =>
      by_cases h : p ≠ 0 ∧ some p ≠ (defaultPort u.scheme).map Int.ofNat
      · simp [h]
      · simp [h]
  unfold hostinfo
  rw [hp]
  rfl

theorem normalG_portNat (u : URL) (h : PortNat u) : PortNat (normalG env D u) := by
  rcases h with h | ⟨p, hp⟩
  · left; simp [normalG, portBack, h]
  · unfold PortNat normalG portBack
    rw [hp]
    simp only []
    split
    · right; exact ⟨p, rfl⟩
    · left; rfl

include hl hD in
theorem normalG_urlText (u : URL) : urlText env full (normalG env D u) = urlText env full u := by
  unfold urlText
  rw [normalG_uiText env D hl u, normalG_hostinfo env D u]
  have hp : pathText env full (normalG env D u).pathParts = pathText env full u.pathParts := by
    simp only [pathText, normalG, List.map_map]
    congr 1
    apply List.map_congr_left
    intro s _
    simp [hD]
  have hq : queryText env full (normalG env D u).query = queryText env full u.query := by
    simp only [queryText, normalG, List.map_map]
    congr 1
    apply List.map_congr_left
    intro kv _
    exact normalG_pairText env full D hD kv
  have hf : quotePart .fragment env.nfc full (normalG env D u).fragment = quotePart .fragment env.nfc full u.fragment := by
    simp [normalG, hD]
  rw [hp, hq, hf]
  rfl

include hl hD hDD hDnil in
theorem normalG_WFq (u : URL) (hW : WFq env full D u) : WFq env full D (normalG env D u) where
  scheme_ok := hW.scheme_ok
  host_ne := hW.host_ne
  host_form := by
    cases hW.host_form with
    | name a b c => exact .name a b c
    | v6 a b c d => exact .v6 a b c d
  idna_dec := hW.idna_dec
  port_ok := normalG_portNat env D u hW.port_ok
  path_abs := by
    obtain ⟨rest, h⟩ := hW.path_abs
    exact ⟨rest.map D, by simp [normalG, h, hDnil]⟩
  query_ok := by
    intro kv hkv
    simp only [normalG, List.mem_map] at hkv
    obtain ⟨kv0, h0, rfl⟩ := hkv
    intro h
    apply hW.query_ok kv0 h0
    simp only [decPair, hDD] at h
    refine ⟨h.1, ?_⟩
    cases hv : kv0.2 with
    | none => rfl
    | some v => rw [hv] at h; simp at h
  user_scalar := by simpa [normalG, hl.idem] using hW.user_scalar
  pw_scalar := by simpa [normalG, hl.idem] using hW.pw_scalar
  q_nil := hW.q_nil
  q_parts := by
    intro s hs
    simp only [normalG, List.mem_map] at hs
    obtain ⟨s0, h0, rfl⟩ := hs
    rw [hD, hDD]; exact hW.q_parts s0 h0
  q_query := by
    intro kv hkv
    simp only [normalG, List.mem_map] at hkv
    obtain ⟨kv0, h0, rfl⟩ := hkv
    have := hW.q_query kv0 h0
    refine ⟨by simpa [decPair, hD, hDD] using this.1, ?_⟩
    intro v hv
    simp only [decPair] at hv
    cases hv0 : kv0.2 with
    | none => rw [hv0] at hv; simp at hv
    | some v0 =>
      rw [hv0] at hv
      simp only [Option.map_some, Option.some.injEq] at hv
      subst hv
      rw [hD, hDD]
      exact this.2 v0 hv0
  q_frag := by
    simp only [normalG]
    rw [hD, hDD]; exact hW.q_frag

include hl hD hDD hDnil in
/-- render, parse, render again: the same text -/
theorem render_fixed (u : URL) (hW : WFq env full D u) :
    toText env full u = .ok (urlText env full u) ∧
    URL.ofText env (urlText env full u) = .ok (normalG env D u) ∧
    toText env full (normalG env D u) = .ok (urlText env full u) := by
  refine ⟨toText_urlText env full D u hW, ofText_urlText env full D u hW hl.nil, ?_⟩
  rw [toText_urlText env full D _ (normalG_WFq env full D hl hD hDD hDnil u hW),
      normalG_urlText env full D hl hD u]

end fixed

/-! ### the two quoting modes -/

/-- every text stored in the URL is encodable once normalised (no lone surrogates) -/
structure Scalars (env : Env) (u : URL) : Prop where
  username : ∀ x ∈ env.nfc u.username, isScalar x = true
  password : ∀ x ∈ env.nfc u.password, isScalar x = true
  fragment : ∀ x ∈ env.nfc u.fragment, isScalar x = true
  parts : ∀ s ∈ u.pathParts, ∀ x ∈ env.nfc s, isScalar x = true
  query : ∀ kv ∈ u.query, (∀ x ∈ env.nfc kv.1, isScalar x = true) ∧
    ∀ v, kv.2 = some v → ∀ x ∈ env.nfc v, isScalar x = true

/-- FULL quoting: "a valid scheme, host (registered name / IPv4 / IPv6 literal) and port" (absent or any natural
    number, `port = *DIGIT`) + an absolute path + no (empty key, no value) parameter; the component texts are arbitrary -/
structure WF (env : Env) (u : URL) : Prop where
  scheme_ok : ∀ c ∈ u.scheme, notIn schemeStop c = true
  host_ne : u.host ≠ []
  host_form : HostOK env true u
  idna_dec : isAsciiText u.host = true → env.idnaDec u.host = some u.host
  port_ok : PortNat u
  path_abs : ∃ rest, u.pathParts = [] :: rest
  query_ok : ∀ kv ∈ u.query, ¬ (env.nfc kv.1 = [] ∧ kv.2 = none)
  scalars : Scalars env u

theorem quotePart_nil_full (c : Comp) (nfc : Text → Text) (hnil : nfc [] = []) : quotePart c nfc true [] = [] := by
  simp [quotePart, quoteFull, utf8, hnil]

theorem WF.toWFq {env : Env} {u : URL} (hW : WF env u) (hnil : env.nfc [] = []) : WFq env true env.nfc u where
  scheme_ok := hW.scheme_ok
  host_ne := hW.host_ne
  host_form := hW.host_form
  idna_dec := hW.idna_dec
  port_ok := hW.port_ok
  path_abs := hW.path_abs
  query_ok := hW.query_ok
  user_scalar := hW.scalars.username
  pw_scalar := hW.scalars.password
  q_nil := quotePart_nil_full _ _ hnil
  q_parts := fun s hs => quoted_full .path env.nfc s (hW.scalars.parts s hs)
  q_query := fun kv hkv =>
    ⟨quoted_full .query env.nfc kv.1 (hW.scalars.query kv hkv).1,
     fun v hv => quoted_full .query env.nfc v ((hW.scalars.query kv hkv).2 v hv)⟩
  q_frag := quoted_full .fragment env.nfc u.fragment hW.scalars.fragment

/-- `WF` does not care which natural number the port is (or whether there is one) -/
theorem WF.withPort {env : Env} {u : URL} (hW : WF env u) (p : Option Nat) :
    WF env { u with port := p.map Int.ofNat } where
  scheme_ok := hW.scheme_ok
  host_ne := hW.host_ne
  host_form := by
    cases hW.host_form with
    | name a b c => exact .name a b c
    | v6 a b c d => exact .v6 a b c d
  idna_dec := hW.idna_dec
  port_ok := by
    cases p with
    | none => exact Or.inl rfl
    | some n => exact Or.inr ⟨n, rfl⟩
  path_abs := hW.path_abs
  query_ok := hW.query_ok
  scalars := ⟨hW.scalars.username, hW.scalars.password, hW.scalars.fragment, hW.scalars.parts, hW.scalars.query⟩

/-- what comes back in full mode: every text NFC-normalised, the `//` remembered -/
def normal (env : Env) (u : URL) : URL := normalG env env.nfc u

/-- the fully quoted rendering, spelled out -/
def fullText (env : Env) (u : URL) : Text := urlText env true u

/-- MINIMAL quoting: the same shape, and no `%` in a path segment, query key / value or fragment
    (username and password are always fully quoted, so they may contain anything) -/
structure WFmin (env : Env) (u : URL) : Prop where
  scheme_ok : ∀ c ∈ u.scheme, notIn schemeStop c = true
  host_ne : u.host ≠ []
  host_form : HostOK env false u
  idna_dec : isAsciiText u.host = true → env.idnaDec u.host = some u.host
  port_ok : PortNat u
  path_abs : ∃ rest, u.pathParts = [] :: rest
  query_ok : ∀ kv ∈ u.query, ¬ (kv.1 = [] ∧ kv.2 = none)
  user_scalar : ∀ x ∈ env.nfc u.username, isScalar x = true
  pw_scalar : ∀ x ∈ env.nfc u.password, isScalar x = true
  no_pct_parts : ∀ s ∈ u.pathParts, 37 ∉ s
  no_pct_query : ∀ kv ∈ u.query, 37 ∉ kv.1 ∧ ∀ v, kv.2 = some v → 37 ∉ v
  no_pct_frag : 37 ∉ u.fragment

theorem WFmin.toWFq {env : Env} {u : URL} (hW : WFmin env u) : WFq env false id u where
  scheme_ok := hW.scheme_ok
  host_ne := hW.host_ne
  host_form := hW.host_form
  idna_dec := hW.idna_dec
  port_ok := hW.port_ok
  path_abs := hW.path_abs
  query_ok := hW.query_ok
  user_scalar := hW.user_scalar
  pw_scalar := hW.pw_scalar
  q_nil := by simp [quotePart, quoteMin]
  q_parts := fun s hs => quoted_min .path env.nfc s (hW.no_pct_parts s hs)
  q_query := fun kv hkv =>
    ⟨quoted_min .query env.nfc kv.1 (hW.no_pct_query kv hkv).1,
     fun v hv => quoted_min .query env.nfc v ((hW.no_pct_query kv hkv).2 v hv)⟩
  q_frag := quoted_min .fragment env.nfc u.fragment hW.no_pct_frag

/-- what comes back in minimal mode: the URL itself, userinfo NFC-normalised, the `//` remembered -/
def normalMin (env : Env) (u : URL) : URL := normalG env id u

/-- the minimally quoted rendering, spelled out -/
def minText (env : Env) (u : URL) : Text := urlText env false u

end C06
