import BoltonsVerif.C06.NoAuth
/-
C06 — what the parser produces.  Every URL that `URL(text)` returns has the shape the fixed-point theorems ask
for (a scheme made of scheme characters, at least one path segment, no (empty key, no value) query parameter …),
so that the fixed points can be stated about TEXTS: for every text `t` that parses, `render(parse t)` is a text that
parses and renders to itself.
-/
namespace C06
open C06.Gen

/-! ### `unquote` never makes a non-empty text empty -/

theorem run_ne_nil (step : Nat → List Nat → Nat × Nat) {l : List Nat} (h : l ≠ []) : run step l ≠ [] := by
  cases l with
  | nil => exact absurd rfl h
  | cons x rest => rw [run_cons]; simp

theorem unqGo_eq_nil : ∀ (s acc : Text), unqGo s acc = [] → s = [] ∧ acc = [] := by
  intro s
  induction s with
  | nil =>
    intro acc h
    simp only [unqGo] at h
    refine ⟨rfl, ?_⟩
    cases hacc : acc with
    | nil => rfl
    | cons a r =>
      exfalso
      have h1 : unqBytes acc.reverse ≠ [] := run_ne_nil _ (by rw [hacc]; simp)
      exact run_ne_nil _ h1 h
  | cons c rest ih =>
    intro acc h
    unfold unqGo at h
    split at h
    · have := ih (c :: acc) h
      exact absurd this.2 (by simp)
    · simp at h

theorem unquote_eq_nil {s : Text} (h : unquote s = []) : s = [] := (unqGo_eq_nil s [] h).1

theorem unquote_ne_nil {s : Text} (h : s ≠ []) : unquote s ≠ [] := fun e => h (unquote_eq_nil e)

/-! ### `parse_qsl` never produces an (empty key, no value) pair -/

theorem plusToSpace_eq_nil {s : Text} (h : plusToSpace s = []) : s = [] := by
  unfold plusToSpace at h
  simpa using h

theorem parsePair_ok (p : Text) (hp : p ≠ []) : ¬ ((parsePair p).1 = [] ∧ (parsePair p).2 = none) := by
  intro ⟨h1, h2⟩
  unfold parsePair at h1 h2
  simp only at h1 h2
  by_cases hc : p.contains 61 = true
  · simp [hc] at h2
    exact h2 (by simpa using hc)
  · have h61 : ∀ x ∈ p, x ≠ 61 := by
      intro x hx e
      subst e
      apply hc
      simpa using hx
    rw [before_none h61] at h1
    exact hp (plusToSpace_eq_nil (unquote_eq_nil h1))

theorem parseQsl_ok (qs : Text) : ∀ kv ∈ parseQsl qs, ¬ (kv.1 = [] ∧ kv.2 = none) := by
  intro kv hkv
  unfold parseQsl at hkv
  rw [List.mem_map] at hkv
  obtain ⟨p, hp, rfl⟩ := hkv
  rw [List.mem_filter] at hp
  have hne : p ≠ [] := by
    intro e
    have := hp.2
    simp [nonEmpty, e] at this
  exact parsePair_ok p hne

/-! ### the fields of a parsed URL -/

theorem schemeOf_chars (t : Text) : ∀ c ∈ (schemeOf t).getD [], notIn schemeStop c = true := by
  intro c hc
  unfold schemeOf at hc
  split at hc
  · split at hc
    · simp at hc
    · simp only [Option.getD_some] at hc
      exact mem_takeWhile_true hc
  · simp at hc

structure ParsedFields (env : Env) (t : Text) (u : URL) : Prop where
  scheme : u.scheme = (schemeOf t).getD []
  parts : ∃ p : Text, u.pathParts = (p.splitOn 47).map maybeUnquote
  query : ∃ q : Text, u.query = parseQsl q

theorem ofText_fields {env : Env} {t : Text} {u : URL} (h : URL.ofText env t = .ok u) : ParsedFields env t u := by
  unfold URL.ofText at h
  simp only at h
  split at h
  · cases h
  · split at h
    · cases h
    · cases h
      exact ⟨rfl, ⟨_, rfl⟩, ⟨_, rfl⟩⟩

/-- every URL the parser returns without authority has the shape of `WFna`, given only that its texts are
    encodable (no lone surrogates) -/
theorem parsed_WFna {env : Env} (hl : NfcLaws env.nfc) {t : Text} {u : URL} (h : URL.ofText env t = .ok u)
    (hh : u.host = []) (hu : u.username = []) (hp : u.password = []) (hs : Scalars env u) : WFna env u where
  scheme_ok := by
    rw [(ofText_fields h).scheme]; exact schemeOf_chars t
  host_nil := hh
  user_nil := hu
  pw_nil := hp
  parts_ne := by
    obtain ⟨p, hp'⟩ := (ofText_fields h).parts
    rw [hp']
    simp only [ne_eq, List.map_eq_nil_iff]
    exact List.splitOn_ne_nil 47 p
  query_ok := by
    obtain ⟨q, hq⟩ := (ofText_fields h).query
    intro kv hkv ⟨h1, h2⟩
    rw [hq] at hkv
    exact parseQsl_ok q kv hkv ⟨hl.ne_nil _ h1, h2⟩
  scalars := hs

/-! ### a parsed URL with a host has an absolute (or empty) path -/

theorem auth_stops_only : authStop.all (fun c => c == 47 || c == 63 || c == 35) = true := by decide

/-- after an authority the path group is empty or begins with `/` -/
theorem path_after_authority (r : Text) :
    pathOf (r.dropWhile (notIn authStop)) = [] ∨ (pathOf (r.dropWhile (notIn authStop))).head? = some 47 := by
  obtain ⟨_, _, _, _, p63, p35, p47, _, _, _⟩ := stops_ok
  cases hd : r.dropWhile (notIn authStop) with
  | nil => left; simp [pathOf]
  | cons x xs =>
    have hx := dropWhile_head_false hd
    have hm : x ∈ authStop := by
      simp only [notIn, Bool.not_eq_false', List.contains_eq_mem, decide_eq_true_eq] at hx
      exact hx
    have hall := auth_stops_only
    rw [List.all_eq_true] at hall
    have := hall x hm
    simp only [Bool.or_eq_true, beq_iff_eq] at this
    rcases this with (h | h) | h
    · subst h; right; simp [pathOf, List.takeWhile, p47]
    · subst h; left; simp [pathOf, List.takeWhile, p63]
    · subst h; left; simp [pathOf, List.takeWhile, p35]

theorem splitOn_abs {p : Text} (h : p = [] ∨ p.head? = some 47) : ∃ rest, p.splitOn 47 = [] :: rest := by
  rcases h with h | h
  · subst h; exact ⟨[], by simp⟩
  · cases p with
    | nil => simp at h
    | cons x xs =>
      simp at h; subst h
      exact List.head?_eq_some_iff.mp rfl

theorem ofText_path_abs {env : Env} {t : Text} {u : URL} (h : URL.ofText env t = .ok u) (hh : u.host ≠ []) :
    ∃ rest, u.pathParts = [] :: rest := by
  unfold URL.ofText at h
  simp only at h
  split at h
  · cases h
  · rename_i a ha
    split at h
    · cases h
    · rename_i host hhost
      cases h
      simp only at hh ⊢
      -- the authority group matched: otherwise the host would be empty
      cases hau : authorityOf (afterScheme t) with
      | none =>
        exfalso
        rw [hau] at ha
        simp only [Option.getD_none, parseAuthority_nil] at ha
        cases ha
        simp at hhost
        exact hh hhost
      | some au =>
        have hr : ∃ r, afterScheme t = 47 :: 47 :: r := by
          unfold authorityOf at hau
          split at hau
          · rename_i r heq; exact ⟨r, heq⟩
          · cases hau
        obtain ⟨r, hr⟩ := hr
        have hp := path_after_authority r
        have e : afterAuthority (afterScheme t) = r.dropWhile (notIn authStop) := by
          rw [hr]; rfl
        rw [e]
        obtain ⟨rest, hrest⟩ := splitOn_abs hp
        exact ⟨rest.map maybeUnquote, by rw [hrest]; simp [maybeUnquote_nil]⟩

/-- every URL the parser returns with a valid host and a natural-number port (or none) has the shape of `WF`, given
    that its texts are encodable -/
theorem parsed_WF {env : Env} (hl : NfcLaws env.nfc) {t : Text} {u : URL} (h : URL.ofText env t = .ok u)
    (hne : u.host ≠ []) (hhost : HostOK env true u) (hidna : isAsciiText u.host = true → env.idnaDec u.host = some u.host)
    (hport : PortNat u) (hs : Scalars env u) : WF env u where
  scheme_ok := by
    rw [(ofText_fields h).scheme]; exact schemeOf_chars t
  host_ne := hne
  host_form := hhost
  idna_dec := hidna
  port_ok := hport
  path_abs := ofText_path_abs h hne
  query_ok := by
    obtain ⟨q, hq⟩ := (ofText_fields h).query
    intro kv hkv ⟨h1, h2⟩
    rw [hq] at hkv
    exact parseQsl_ok q kv hkv ⟨hl.ne_nil _ h1, h2⟩
  scalars := hs

theorem parsed_WFmin {env : Env} {t : Text} {u : URL} (h : URL.ofText env t = .ok u)
    (hne : u.host ≠ []) (hhost : HostOK env false u) (hidna : isAsciiText u.host = true → env.idnaDec u.host = some u.host)
    (hport : PortNat u)
    (hus : ∀ x ∈ env.nfc u.username, isScalar x = true) (hps : ∀ x ∈ env.nfc u.password, isScalar x = true)
    (h1 : ∀ s ∈ u.pathParts, 37 ∉ s) (h2 : ∀ kv ∈ u.query, 37 ∉ kv.1 ∧ ∀ v, kv.2 = some v → 37 ∉ v)
    (h3 : 37 ∉ u.fragment) : WFmin env u where
  scheme_ok := by
    rw [(ofText_fields h).scheme]; exact schemeOf_chars t
  host_ne := hne
  host_form := hhost
  idna_dec := hidna
  port_ok := hport
  path_abs := ofText_path_abs h hne
  query_ok := by
    obtain ⟨q, hq⟩ := (ofText_fields h).query
    intro kv hkv
    rw [hq] at hkv
    exact parseQsl_ok q kv hkv
  user_scalar := hus
  pw_scalar := hps
  no_pct_parts := h1
  no_pct_query := h2
  no_pct_frag := h3

theorem parsed_WFnaMin {env : Env} {t : Text} {u : URL} (h : URL.ofText env t = .ok u)
    (hh : u.host = []) (hu : u.username = []) (hp : u.password = [])
    (h1 : ∀ s ∈ u.pathParts, 37 ∉ s) (h2 : ∀ kv ∈ u.query, 37 ∉ kv.1 ∧ ∀ v, kv.2 = some v → 37 ∉ v)
    (h3 : 37 ∉ u.fragment) : WFnaMin env u where
  scheme_ok := by
    rw [(ofText_fields h).scheme]; exact schemeOf_chars t
  host_nil := hh
  user_nil := hu
  pw_nil := hp
  parts_ne := by
    obtain ⟨p, hp'⟩ := (ofText_fields h).parts
    rw [hp']
    simp only [ne_eq, List.map_eq_nil_iff]
    exact List.splitOn_ne_nil 47 p
  query_ok := by
    obtain ⟨q, hq⟩ := (ofText_fields h).query
    intro kv hkv
    rw [hq] at hkv
    exact parseQsl_ok q kv hkv
  no_pct_parts := h1
  no_pct_query := h2
  no_pct_frag := h3

/-! ### the host of a parsed URL -/

theorem rafter_sub' (c : Nat) (s : Text) : ∀ x ∈ rafter c s, x ∈ s := by
  intro x hx
  unfold rafter at hx
  have := (List.takeWhile_sublist (neq c)).subset (List.mem_reverse.mp hx)
  exact List.mem_reverse.mp this

theorem before_sub (c : Nat) (s : Text) : (before c s).Sublist s := List.takeWhile_sublist _

theorem rafter_chars (c : Nat) (s : Text) : ∀ x ∈ rafter c s, x ≠ c := by
  intro x hx
  unfold rafter at hx
  have := mem_takeWhile_true (List.mem_reverse.mp hx)
  simpa [neq] using this

theorem before_chars (c : Nat) (s : Text) : ∀ x ∈ before c s, x ≠ c := by
  intro x hx
  have := mem_takeWhile_true hx
  simpa [neq] using this

/-- what `parse_url` does with the authority -/
theorem ofText_auth {env : Env} {t : Text} {u : URL} (h : URL.ofText env t = .ok u) :
    ∃ a : Auth, parseAuthority env ((authorityOf (afterScheme t)).getD []) = .ok a ∧ u.family = a.family ∧
      u.port = a.port ∧
      (if a.host = [] then some [] else if isAsciiText a.host then env.idnaDec a.host else some a.host) = some u.host := by
  unfold URL.ofText at h
  simp only at h
  split at h
  · cases h
  · rename_i a ha
    split at h
    · cases h
    · rename_i host hhost
      cases h
      exact ⟨a, ha, rfl, rfl, hhost⟩

theorem authorityOf_chars (r : Text) : ∀ x ∈ (authorityOf r).getD [], notIn authStop x = true := by
  intro x hx
  unfold authorityOf at hx
  split at hx
  · simp only [Option.getD_some] at hx
    exact mem_takeWhile_true hx
  · simp at hx

/-- the host that `parse_url` cuts out of an authority: when it is not an IPv6 literal and contains no `[`, it consists
    of host characters and its family is what `inet_pton(AF_INET, …)` says -/
theorem parseAuthority_name {env : Env} {au : Text} {a : Auth} (h : parseAuthority env au = .ok a)
    (hau : ∀ x ∈ au, notIn authStop x = true) (hne : a.host ≠ []) (h6 : a.family ≠ .inet6) (h91 : 91 ∉ a.host) :
    (∀ c ∈ a.host, hostChar c = true) ∧ a.family = (if env.fam4 a.host then .inet else .none) := by
  unfold parseAuthority at h
  simp only at h
  have hsub : ∀ x ∈ rafter 64 au, notIn authStop x = true ∧ x ≠ 64 := fun x hx =>
    ⟨hau x (rafter_sub' 64 au x hx), rafter_chars 64 au x hx⟩
  split at h
  · cases h
  · rename_i host port hsp
    split at h
    · cases h
    · rename_i fam host' hph
      cases h
      simp only at hne h6 h91 ⊢
      -- parse_host: not the bracket branch (that one yields AF_INET6)
      have hhost' : host' = host ∧ fam = (if env.fam4 host then .inet else .none) := by
        unfold parseHost at hph
        split at hph
        · cases hph
          exact absurd rfl hne
        · split at hph
          · split at hph
            · cases hph; exact absurd rfl h6
            · cases hph
          · cases hph; exact ⟨rfl, rfl⟩
      obtain ⟨e1, e2⟩ := hhost'
      subst e1
      refine ⟨?_, e2⟩
      -- split_host_port: which branch produced `host`
      have hchars : ∀ c ∈ host', notIn authStop c = true ∧ c ≠ 64 ∧ c ≠ 58 := by
        split at hsp
        · cases hsp; intro c hc; simp at hc
        · unfold splitHostPort at hsp
          split at hsp
          · rename_i hnc
            cases hsp
            intro c hc
            refine ⟨(hsub c hc).1, (hsub c hc).2, ?_⟩
            intro e; subst e
            simp at hnc; exact hnc hc
          · split at hsp
            · split at hsp
              · cases hsp
                exfalso
                rename_i hbr _ _
                simp only [Bool.and_eq_true] at hbr
                apply h91
                have : (before 58 (rafter 64 au)).head? = some 91 := by simpa using hbr.1
                cases hb : before 58 (rafter 64 au) with
                | nil => rw [hb] at this; simp at this
                | cons x xs => rw [hb] at this; simp at this; subst this; simp
              · cases hsp
            · split at hsp
              · cases hsp
                intro c hc
                have hm : c ∈ rafter 64 au := (before_sub 58 _).subset hc
                exact ⟨(hsub c hm).1, (hsub c hm).2, before_chars 58 _ c hc⟩
              · cases hsp
      intro c hc
      have := hchars c hc
      have h91c : c ≠ 91 := fun e => h91 (e ▸ hc)
      simp [hostChar, this.1, this.2.1, this.2.2, h91c]

/-- the law of the idna codec the next lemma needs: when `ascii_bytes.decode('idna')` yields an ASCII name, it is
    the name that went in (a name without ACE label is left alone; an ACE label decodes to something non-ASCII) -/
def IdnaAsciiId (env : Env) : Prop :=
  ∀ s h, env.idnaDec s = some h → isAsciiText h = true → h = s

/-- the ASCII host of a parsed URL that is not an IPv6 literal and contains no `[`: a name made of host characters,
    with the family `inet_pton(AF_INET, …)` gives it, left alone by the idna decoder -/
theorem parsed_host_name {env : Env} (hid : IdnaAsciiId env) {t : Text} {u : URL} (h : URL.ofText env t = .ok u)
    (hne : u.host ≠ []) (hu : isAsciiText u.host = true) (h6 : u.family ≠ .inet6) (h91 : 91 ∉ u.host) :
    (∀ c ∈ u.host, hostChar c = true) ∧ u.family = (if env.fam4 u.host then .inet else .none) ∧
    env.idnaDec u.host = some u.host := by
  obtain ⟨a, ha, hfam, _, hhost⟩ := ofText_auth h
  have hau := authorityOf_chars (afterScheme t)
  have heq : a.host = u.host ∧ env.idnaDec u.host = some u.host := by
    by_cases hnil : a.host = []
    · rw [if_pos hnil] at hhost
      simp only [Option.some.injEq] at hhost
      exact absurd hhost.symm hne
    · rw [if_neg hnil] at hhost
      by_cases hasc : isAsciiText a.host = true
      · rw [if_pos hasc] at hhost
        have := hid _ _ hhost hu
        exact ⟨this.symm, by rw [this] at hhost ⊢; exact hhost⟩
      · rw [if_neg hasc] at hhost
        simp only [Option.some.injEq] at hhost
        rw [← hhost] at hu
        exact absurd hu hasc
  have hn := parseAuthority_name ha hau (by rw [heq.1]; exact hne) (by rw [← hfam]; exact h6) (by rw [heq.1]; exact h91)
  rw [heq.1] at hn
  exact ⟨hn.1, by rw [hfam]; exact hn.2, heq.2⟩

end C06
