import BoltonsVerif.C06.Model
/-
C06 — specification-side definitions (hand-written from RFC 3986, independent of the code and of
the generated tables): which characters may stand raw at each position, what a correctly quoted
text looks like, what the parser treats as a delimiter at each position, and the reference
percent-decoder.
-/
namespace C06
open C06.Gen

/-- RFC 3986 2.3 -/
def unreserved (c : Nat) : Bool :=
  (65 ≤ c && c ≤ 90) || (97 ≤ c && c ≤ 122) || (48 ≤ c && c ≤ 57) || c == 45 || c == 46 || c == 95 || c == 126

/-- RFC 3986 2.2 sub-delims: ! $ & ' ( ) * + , ; = -/
def subDelim (c : Nat) : Bool := [33, 36, 38, 39, 40, 41, 42, 43, 44, 59, 61].contains c

/-- characters that may stand unescaped: in one half of userinfo (`:` separates the halves), in a
    path segment (pchar), in a query and in a fragment (pchar / "/" / "?") -/
def legalRaw : Comp → Nat → Bool
  | .userinfo, c => unreserved c || subDelim c
  | .path, c => unreserved c || subDelim c || c == 58 || c == 64
  | .query, c => unreserved c || subDelim c || c == 58 || c == 64 || c == 47 || c == 63
  | .fragment, c => unreserved c || subDelim c || c == 58 || c == 64 || c == 47 || c == 63

def isHexDigit (c : Nat) : Bool := (48 ≤ c && c ≤ 57) || (65 ≤ c && c ≤ 70) || (97 ≤ c && c ≤ 102)
def isUpperHex (c : Nat) : Bool := (48 ≤ c && c ≤ 57) || (65 ≤ c && c ≤ 70)

/-- value of a hexadecimal digit -/
def hexVal (c : Nat) : Nat :=
  if 48 ≤ c ∧ c ≤ 57 then c - 48 else if 65 ≤ c ∧ c ≤ 70 then c - 55 else c - 87

/-- `*( raw-legal / "%" HEXDIG HEXDIG )` -/
def wellQuoted (c : Comp) : Text → Bool
  | [] => true
  | 37 :: h :: l :: rest => isHexDigit h && isHexDigit l && wellQuoted c rest
  | x :: rest => x != 37 && legalRaw c x && wellQuoted c rest

/-- what the parser (the `_URL_RE` classes, `rpartition('@')`, `partition(':')`, `split('/')`,
    `split('&')`, `split(';')`, `partition('=')`, `'+' -> ' '`) treats as a delimiter inside a
    component of each kind -/
def stopSet : Comp → List Nat
  | .userinfo => authStop ++ [64, 58]
  | .path => pathStop ++ [47]
  | .query => queryStop ++ [38, 59, 61, 43]
  | .fragment => fragStop

/-- the reference percent-decoder: `%` followed by two hexadecimal digits (either case) is the
    byte they denote, every other character is itself -/
def unqSpec : Text → Bytes
  | [] => []
  | 37 :: a :: b :: r =>
    if isHexDigit a && isHexDigit b then (16 * hexVal a + hexVal b) :: unqSpec r
    else 37 :: unqSpec (a :: b :: r)
  | c :: rest => c :: unqSpec rest

end C06
